// expect: E0499
// two live children_mut iterators over overlapping sub-tries
use prefix_trie::*;
#[allow(unused)]
fn mk() -> PrefixMap<(u32, u8), i32> {
    PrefixMap::from_iter([((0x0a000000, 8), 1), ((0x0a010000, 16), 2), ((0x0a020000, 16), 3), ((0xc0a80000, 16), 4)])
}
fn main() {
    let mut m = mk();
    let mut i1 = m.children_mut(&(0x0a000000, 8));
    let mut i2 = m.children_mut(&(0x0a010000, 16));
    let (_, a) = i1.next().unwrap();
    let (_, b) = i2.next().unwrap();
    *a += 1; *b += 1;
}
