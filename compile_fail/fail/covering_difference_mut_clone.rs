// expect: E0599
// CoveringDifferenceMut must not be Clone
use prefix_trie::*;
#[allow(unused)]
fn mk() -> PrefixMap<(u32, u8), i32> {
    PrefixMap::from_iter([((0x0a000000, 8), 1), ((0x0a010000, 16), 2), ((0x0a020000, 16), 3), ((0xc0a80000, 16), 4)])
}
fn main() {
    let mut a = mk();
    let b = mk();
    let mut va = a.view_mut();
    let it = va.covering_difference_mut(&b);
    let it2 = it.clone();
    drop((it, it2));
}
