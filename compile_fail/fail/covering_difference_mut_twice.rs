// expect: E0499
// two covering_difference_mut iterators of ONE mutable view are alive together: both would hand out &mut to the same entries
use prefix_trie::*;
#[allow(unused)]
fn mk() -> PrefixMap<(u32, u8), i32> {
    PrefixMap::from_iter([((0x0a000000, 8), 1), ((0x0a010000, 16), 2), ((0x0a020000, 16), 3), ((0xc0a80000, 16), 4)])
}
fn main() {
    let mut m = mk();
    let other = mk();
    let mut v = m.view_mut();
    let a = v.covering_difference_mut(&other);
    let b = v.covering_difference_mut(&other);
    let _ = (a.count(), b.count());
}
