// expect: E0499
// a difference_mut iterator of a mutable view is alive while the view hands out &mut through value_mut
use prefix_trie::*;
#[allow(unused)]
fn mk() -> PrefixMap<(u32, u8), i32> {
    PrefixMap::from_iter([((0x0a000000, 8), 1), ((0x0a010000, 16), 2), ((0x0a020000, 16), 3), ((0xc0a80000, 16), 4)])
}
fn main() {
    let mut m = mk();
    let other = mk();
    let mut v = m.view_mut_at((0x0a000000, 8)).unwrap();
    let a = v.difference_mut(&other);
    if let Some(x) = v.value_mut() {
        *x += 1;
    }
    let _ = a.count();
}
