// expect: E0502
// lookup while an Entry handle is alive
use prefix_trie::*;
#[allow(unused)]
fn mk() -> PrefixMap<(u32, u8), i32> {
    PrefixMap::from_iter([((0x0a000000, 8), 1), ((0x0a010000, 16), 2), ((0x0a020000, 16), 3), ((0xc0a80000, 16), 4)])
}
fn main() {
    let mut m = mk();
    let e = m.entry((0x0a000000, 8));
    let x = *m.get(&(0x0a010000, 16)).unwrap();
    *e.or_insert(0) += x;
}
