// expect: E0502
// shared lookup while a get_lpm_mut reference is alive
use prefix_trie::*;
#[allow(unused)]
fn mk() -> PrefixMap<(u32, u8), i32> {
    PrefixMap::from_iter([((0x0a000000, 8), 1), ((0x0a010000, 16), 2), ((0x0a020000, 16), 3), ((0xc0a80000, 16), 4)])
}
fn main() {
    let mut m = mk();
    let (_, a) = m.get_lpm_mut(&(0x0a010203, 32)).unwrap();
    let b = m.get(&(0x0a000000, 8)).unwrap();
    *a += *b;
}
