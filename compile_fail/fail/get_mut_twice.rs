// expect: E0499
// two live references from get_mut
use prefix_trie::*;
#[allow(unused)]
fn mk() -> PrefixMap<(u32, u8), i32> {
    PrefixMap::from_iter([((0x0a000000, 8), 1), ((0x0a010000, 16), 2), ((0x0a020000, 16), 3), ((0xc0a80000, 16), 4)])
}
fn main() {
    let mut m = mk();
    let a = m.get_mut(&(0x0a000000, 8)).unwrap();
    let b = m.get_mut(&(0x0a010000, 16)).unwrap();
    *a += *b;
}
