// expect: E0499
// intersection_mut of two mutable views of the same map that are not split halves
use prefix_trie::*;
#[allow(unused)]
fn mk() -> PrefixMap<(u32, u8), i32> {
    PrefixMap::from_iter([((0x0a000000, 8), 1), ((0x0a010000, 16), 2), ((0x0a020000, 16), 3), ((0xc0a80000, 16), 4)])
}
fn main() {
    let mut m = mk();
    let mut a = m.view_mut_at((0x0a000000, 8)).unwrap();
    let b = m.view_mut_at((0x0a010000, 16)).unwrap();
    let _ = a.intersection_mut(b).count();
}
