// expect: E0599
// a mutable iterator must not be Clone: the clone would hand out the same &mut again
use prefix_trie::*;
#[allow(unused)]
fn mk() -> PrefixMap<(u32, u8), i32> {
    PrefixMap::from_iter([((0x0a000000, 8), 1), ((0x0a010000, 16), 2), ((0x0a020000, 16), 3), ((0xc0a80000, 16), 4)])
}
fn main() {
    let mut m = mk();
    let it = m.iter_mut();
    let it2 = it.clone();
    let a: Vec<_> = it.collect();
    let b: Vec<_> = it2.collect();
    drop((a, b));
}
