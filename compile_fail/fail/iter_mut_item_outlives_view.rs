// expect: E0597
// a reference from a view iter_mut outlives the view borrow
use prefix_trie::*;
#[allow(unused)]
fn mk() -> PrefixMap<(u32, u8), i32> {
    PrefixMap::from_iter([((0x0a000000, 8), 1), ((0x0a010000, 16), 2), ((0x0a020000, 16), 3), ((0xc0a80000, 16), 4)])
}
fn main() {
    let mut m = mk();
    let r;
    {
        let mut v = m.view_mut();
        r = v.iter_mut().next().unwrap().1;
    }
    *r += 1;
}
