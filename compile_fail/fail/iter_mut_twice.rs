// expect: E0499
// two live iter_mut iterators
use prefix_trie::*;
#[allow(unused)]
fn mk() -> PrefixMap<(u32, u8), i32> {
    PrefixMap::from_iter([((0x0a000000, 8), 1), ((0x0a010000, 16), 2), ((0x0a020000, 16), 3), ((0xc0a80000, 16), 4)])
}
fn main() {
    let mut m = mk();
    let mut i1 = m.iter_mut();
    let mut i2 = m.iter_mut();
    let (_, a) = i1.next().unwrap();
    let (_, b) = i2.next().unwrap();
    *a += 1; *b += 1;
}
