// expect: E0599
// an OccupiedEntry must not be Clone
use prefix_trie::*;
#[allow(unused)]
fn mk() -> PrefixMap<(u32, u8), i32> {
    PrefixMap::from_iter([((0x0a000000, 8), 1), ((0x0a010000, 16), 2), ((0x0a020000, 16), 3), ((0xc0a80000, 16), 4)])
}
use prefix_trie::map::Entry;
fn main() {
    let mut m = mk();
    if let Entry::Occupied(e) = m.entry((0x0a000000, 8)) {
        let f = e.clone();
        drop((e, f));
    }
}
