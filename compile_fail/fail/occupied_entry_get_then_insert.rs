// expect: E0505
// a shared reference from OccupiedEntry::get() is alive while the entry overwrites the value
use prefix_trie::*;
#[allow(unused)]
fn mk() -> PrefixMap<(u32, u8), i32> {
    PrefixMap::from_iter([((0x0a000000, 8), 1), ((0x0a010000, 16), 2), ((0x0a020000, 16), 3), ((0xc0a80000, 16), 4)])
}
fn main() {
    let mut m = mk();
    if let map::Entry::Occupied(mut e) = m.entry((0x0a000000, 8)) {
        let s = e.get();
        let _ = e.insert(7);
        let _ = *s;
    }
}
