// expect: E0505
// the key reference of an OccupiedEntry is alive while insert overwrites the stored prefix
use prefix_trie::*;
#[allow(unused)]
fn mk() -> PrefixMap<(u32, u8), i32> {
    PrefixMap::from_iter([((0x0a000000, 8), 1), ((0x0a010000, 16), 2), ((0x0a020000, 16), 3), ((0xc0a80000, 16), 4)])
}
fn main() {
    let mut m = mk();
    if let map::Entry::Occupied(e) = m.entry((0x0a000001, 8)) {
        let k = e.key();
        let _ = e.insert(5);
        let _ = k.1;
    }
}
