// expect: E0277
// an iter_mut over values that are Sync but not Send is moved to another thread
use prefix_trie::*;
#[allow(unused)]
fn mk() -> PrefixMap<(u32, u8), i32> {
    PrefixMap::from_iter([((0x0a000000, 8), 1), ((0x0a010000, 16), 2), ((0x0a020000, 16), 3), ((0xc0a80000, 16), 4)])
}
use std::sync::{Mutex, MutexGuard};
fn main() {
    let mx: &'static Mutex<i32> = Box::leak(Box::new(Mutex::new(1)));
    let mut m: PrefixMap<(u32, u8), MutexGuard<'static, i32>> = PrefixMap::new();
    m.insert((0, 1), mx.lock().unwrap());
    let it = m.iter_mut();
    std::thread::scope(|s| { s.spawn(move || { for (_, g) in it { **g += 1; } }); });
}
