// expect: E0277
// a map holding Rc values is moved to another thread
use prefix_trie::*;
#[allow(unused)]
fn mk() -> PrefixMap<(u32, u8), i32> {
    PrefixMap::from_iter([((0x0a000000, 8), 1), ((0x0a010000, 16), 2), ((0x0a020000, 16), 3), ((0xc0a80000, 16), 4)])
}
use std::rc::Rc;
fn main() {
    let mut m: PrefixMap<(u32, u8), Rc<i32>> = PrefixMap::new();
    m.insert((0, 1), Rc::new(1));
    std::thread::spawn(move || { drop(m); }).join().unwrap();
}
