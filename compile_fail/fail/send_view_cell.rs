// expect: E0277
// a read-only view over Cell values is moved to another thread
use prefix_trie::*;
#[allow(unused)]
fn mk() -> PrefixMap<(u32, u8), i32> {
    PrefixMap::from_iter([((0x0a000000, 8), 1), ((0x0a010000, 16), 2), ((0x0a020000, 16), 3), ((0xc0a80000, 16), 4)])
}
use std::cell::Cell;
fn main() {
    let mut m: PrefixMap<(u32, u8), Cell<i32>> = PrefixMap::new();
    m.insert((0, 1), Cell::new(1));
    let v = m.view();
    std::thread::scope(|s| { s.spawn(move || { v.value().map(|c| c.set(2)); }); });
}
