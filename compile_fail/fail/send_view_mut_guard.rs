// expect: E0277
// a mutable view over values that are Sync but not Send (MutexGuard) is moved to another thread, where the value can be taken out and dropped
use prefix_trie::*;
#[allow(unused)]
fn mk() -> PrefixMap<(u32, u8), i32> {
    PrefixMap::from_iter([((0x0a000000, 8), 1), ((0x0a010000, 16), 2), ((0x0a020000, 16), 3), ((0xc0a80000, 16), 4)])
}
use std::sync::{Mutex, MutexGuard};
fn main() {
    let mx: &'static Mutex<i32> = Box::leak(Box::new(Mutex::new(1)));
    let mut m: PrefixMap<(u32, u8), MutexGuard<'static, i32>> = PrefixMap::new();
    m.insert((0, 1), mx.lock().unwrap());
    let v = m.view_mut();
    std::thread::scope(|s| { s.spawn(move || { let g = v.find((0, 1)).ok().unwrap().remove(); drop(g); }); });
}
