// expect: E0499
// map used mutably while split halves are alive
use prefix_trie::*;
#[allow(unused)]
fn mk() -> PrefixMap<(u32, u8), i32> {
    PrefixMap::from_iter([((0x0a000000, 8), 1), ((0x0a010000, 16), 2), ((0x0a020000, 16), 3), ((0xc0a80000, 16), 4)])
}
fn main() {
    let mut m = mk();
    let (l, r) = m.view_mut().split();
    m.insert((0, 1), 1);
    drop((l, r));
}
