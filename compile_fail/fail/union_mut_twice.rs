// expect: E0499
// two union_mut iterators of ONE mutable view are alive together: both would hand out &mut to the same entries
use prefix_trie::*;
#[allow(unused)]
fn mk() -> PrefixMap<(u32, u8), i32> {
    PrefixMap::from_iter([((0x0a000000, 8), 1), ((0x0a010000, 16), 2), ((0x0a020000, 16), 3), ((0xc0a80000, 16), 4)])
}
fn main() {
    let mut m = mk();
    let mut o1 = mk();
    let mut o2 = mk();
    let mut v = m.view_mut();
    let a = v.union_mut(&mut o1);
    let b = v.union_mut(&mut o2);
    let _ = (a.count(), b.count());
}
