// expect: E0499
// two live value_mut references of the same view
use prefix_trie::*;
#[allow(unused)]
fn mk() -> PrefixMap<(u32, u8), i32> {
    PrefixMap::from_iter([((0x0a000000, 8), 1), ((0x0a010000, 16), 2), ((0x0a020000, 16), 3), ((0xc0a80000, 16), 4)])
}
fn main() {
    let mut m = mk();
    let mut v = m.view_mut_at((0x0a000000, 8)).unwrap();
    let a = v.value_mut().unwrap();
    let b = v.value_mut().unwrap();
    *a += 1; *b += 1;
}
