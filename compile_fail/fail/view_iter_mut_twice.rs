// expect: E0499
// two live iter_mut of the same mutable view
use prefix_trie::*;
#[allow(unused)]
fn mk() -> PrefixMap<(u32, u8), i32> {
    PrefixMap::from_iter([((0x0a000000, 8), 1), ((0x0a010000, 16), 2), ((0x0a020000, 16), 3), ((0xc0a80000, 16), 4)])
}
fn main() {
    let mut m = mk();
    let mut v = m.view_mut();
    let mut i1 = v.iter_mut();
    let mut i2 = v.iter_mut();
    let a = i1.next();
    let b = i2.next();
    drop((a, b));
}
