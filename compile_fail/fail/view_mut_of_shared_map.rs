// expect: E0596
// a mutable view from a shared reference to the map
use prefix_trie::*;
#[allow(unused)]
fn mk() -> PrefixMap<(u32, u8), i32> {
    PrefixMap::from_iter([((0x0a000000, 8), 1), ((0x0a010000, 16), 2), ((0x0a020000, 16), 3), ((0xc0a80000, 16), 4)])
}
fn f(m: &PrefixMap<(u32, u8), i32>) -> usize {
    let mut mm = m;
    let v = (&mut *mm).view_mut();
    drop(v);
    0
}
fn main() { let m = mk(); f(&m); }
