// expect: E0502
// the pair from TrieViewMut::prefix_value() is alive while the same view hands out &mut to the same entry
use prefix_trie::*;
#[allow(unused)]
fn mk() -> PrefixMap<(u32, u8), i32> {
    PrefixMap::from_iter([((0x0a000000, 8), 1), ((0x0a010000, 16), 2), ((0x0a020000, 16), 3), ((0xc0a80000, 16), 4)])
}
fn main() {
    let mut m = mk();
    let mut v = m.view_mut_at((0x0a000000, 8)).unwrap();
    let (_, s) = v.prefix_value().unwrap();
    let e = v.value_mut().unwrap();
    *e += 1;
    let _ = *s;
}
