// expect: E0505
// a shared reference from TrieViewMut::value() is alive while the view is consumed by find() and written through
use prefix_trie::*;
#[allow(unused)]
fn mk() -> PrefixMap<(u32, u8), i32> {
    PrefixMap::from_iter([((0x0a000000, 8), 1), ((0x0a010000, 16), 2), ((0x0a020000, 16), 3), ((0xc0a80000, 16), 4)])
}
fn main() {
    let mut m = mk();
    let v = m.view_mut_at((0x0a000000, 8)).unwrap();
    let s = v.value().unwrap();
    if let Ok(mut f) = v.find((0x0a000000, 8)) {
        if let Some(x) = f.value_mut() {
            *x += 1;
        }
    }
    let _ = *s;
}
