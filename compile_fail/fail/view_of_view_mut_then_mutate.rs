// expect: E0502
// the mutable view is used while a read-only view borrowed from it is alive
use prefix_trie::*;
#[allow(unused)]
fn mk() -> PrefixMap<(u32, u8), i32> {
    PrefixMap::from_iter([((0x0a000000, 8), 1), ((0x0a010000, 16), 2), ((0x0a020000, 16), 3), ((0xc0a80000, 16), 4)])
}
fn main() {
    let mut m = mk();
    let mut v = m.view_mut();
    let ro = (&v).view();
    let _ = v.value_mut();
    let _ = ro.iter().count();
}
