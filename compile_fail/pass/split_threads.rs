// expect: ok
use prefix_trie::*;
#[allow(unused)]
fn mk() -> PrefixMap<(u32, u8), i32> {
    PrefixMap::from_iter([((0x0a000000, 8), 1), ((0x0a010000, 16), 2), ((0x0a020000, 16), 3), ((0xc0a80000, 16), 4)])
}
fn main() {
    let mut m = mk();
    let (l, r) = m.view_mut().split();
    std::thread::scope(|s| {
        if let Some(mut l) = l { s.spawn(move || { for (_, v) in l.iter_mut() { *v += 1; } }); }
        if let Some(mut r) = r { s.spawn(move || { for (_, v) in r.iter_mut() { *v += 2; } }); }
    });
    assert_eq!(m.len(), 4);
}
