(** The ARENA level of [src/inner.rs] and [src/map/mod.rs]: a line-by-line transcription of the
    code that works on [Vec<Node>] with child links as indices, slot 0 the permanent root, and
    the free list [free: Vec<usize>].

    Definitions only (no proofs); everything reduces with [vm_compute] and extracts with
    [ExtrOcamlBasic].  What can go wrong at this level and cannot even be expressed in the tree
    model of [Trie.v] is made explicit by the outcome type [res]:
    - [Panic]: an index out of bounds ([self.table[i]] with [i >= len]) or an [unwrap()] on [None];
    - [OutOfFuel]: a loop that follows child links did not stop within the fuel it was given
      (a cycle of links would make the Rust loop diverge).
    [ArenaThm.v] proves that neither happens in any state reachable from the empty map and that
    the arena represents the tree of [Trie.v] after every operation. *)
From Coq Require Import List NArith ZArith Bool.
From PT Require Import Machine Trie.
Import ListNotations.

(** outcomes *)
Inductive res (A : Type) : Type := Ok (a : A) | Panic | OutOfFuel.
Arguments Ok {A} a.
Arguments Panic {A}.
Arguments OutOfFuel {A}.

Definition rbind {A B} (r : res A) (f : A -> res B) : res B :=
  match r with Ok a => f a | Panic => Panic | OutOfFuel => OutOfFuel end.

Notation "x <- c1 ;; c2" := (rbind c1 (fun x => c2))
  (at level 61, c1 at next level, right associativity).
Notation "' pat <- c1 ;; c2" := (rbind c1 (fun x => match x with pat => c2 end))
  (at level 61, pat pattern, c1 at next level, right associativity).

(** [Option::unwrap] / [expect] *)
Definition unwrap {A} (o : option A) : res A := match o with Some a => Ok a | None => Panic end.

(** in-place update of a list cell (no effect when out of range; [wr] below checks the bound) *)
Fixpoint upd {A} (l : list A) (n : nat) (x : A) : list A :=
  match l, n with
  | [], _ => []
  | _ :: t, O => x :: t
  | h :: t, S n' => h :: upd t n' x
  end.

Section A.
Variables (pfx V : Type).
Variables (peq contains : pfx -> pfx -> bool) (is_bit_set : pfx -> N -> bool)
          (plen : pfx -> N) (lcp : pfx -> pfx -> pfx) (pzero : pfx).

Notation to_right := (Trie.to_right pfx is_bit_set plen).

(** inner.rs:11-16 *)
Record anode := mkanode { npfx : pfx; nval : option V; nleft : option N; nright : option N }.
(** mod.rs:19-23; [afree]: head = top of the [Vec] used as a stack *)
Record amap := mkamap { tbl : list anode; afree : list N; acount : Z }.

(** inner.rs:93-100, mod.rs:29-35 *)
Definition a_empty : amap := mkamap [mkanode pzero None None None] [] 0%Z.

(* ------------------------------------------------------------------------------------------ *)
(** * [Table]: indexing (inner.rs:69-81) *)

(** [&self[i]]: panics when out of bounds *)
Definition rd (tb : list anode) (i : N) : res anode :=
  match nth_error tb (N.to_nat i) with Some n => Ok n | None => Panic end.

(** [self[i] = n] through [IndexMut]: panics when out of bounds *)
Definition wr (tb : list anode) (i : N) (n : anode) : res (list anode) :=
  match nth_error tb (N.to_nat i) with Some _ => Ok (upd tb (N.to_nat i) n) | None => Panic end.

Definition child_of (n : anode) (right : bool) : option N := if right then nright n else nleft n.
Definition with_link (n : anode) (right : bool) (c : option N) : anode :=
  if right then mkanode (npfx n) (nval n) (nleft n) c else mkanode (npfx n) (nval n) c (nright n).

(** inner.rs:162-168 *)
Definition get_child (tb : list anode) (idx : N) (right : bool) : res (option N) :=
  n <- rd tb idx ;; Ok (child_of n right).

(** inner.rs:172-178 ([Option::replace]): returns the table and the old link *)
Definition set_child (tb : list anode) (idx child : N) (right : bool) : res (list anode * option N) :=
  n <- rd tb idx ;;
  tb' <- wr tb idx (with_link n right (Some child)) ;;
  Ok (tb', child_of n right).

(** inner.rs:182-188 ([Option::take]) *)
Definition clear_child (tb : list anode) (idx : N) (right : bool) : res (list anode * option N) :=
  n <- rd tb idx ;;
  tb' <- wr tb idx (with_link n right None) ;;
  Ok (tb', child_of n right).

(* ------------------------------------------------------------------------------------------ *)
(** * Directions *)

(** inner.rs:103-110 *)
Inductive dir := Reached | Enter (next : N) (right : bool) | Missing.

(** inner.rs:112-131 *)
Inductive dir_ins :=
| IReached
| IEnter (next : N) (right : bool)
| INewLeaf (right : bool)
| INewChild (right child_right : bool)
| INewBranch (branch_prefix : pfx) (right prefix_right : bool).

(** [Table::get_direction], inner.rs:192-205 *)
Definition a_direction (tb : list anode) (cur : N) (q : pfx) : res dir :=
  cn <- rd tb cur ;;                                     (* 193 *)
  let cur_p := npfx cn in
  if peq cur_p q then Ok Reached                         (* 194-195 *)
  else
    let right := to_right cur_p q in                     (* 197 *)
    c <- get_child tb cur right ;;                       (* 198 *)
    match c with
    | Some child =>
      chn <- rd tb child ;;                              (* 199: self[child] *)
      if contains (npfx chn) q then Ok (Enter child right) (* 199-200 *)
      else Ok Missing                                    (* 202 *)
    | None => Ok Missing                                 (* 202 *)
    end.

(** [Table::get_direction_for_insert], inner.rs:209-237 *)
Definition a_direction_ins (tb : list anode) (cur : N) (q : pfx) : res dir_ins :=
  cn <- rd tb cur ;;                                     (* 210 *)
  let cur_p := npfx cn in
  if peq cur_p q then Ok IReached                        (* 211-212 *)
  else
    let right := to_right cur_p q in                     (* 214 *)
    c <- get_child tb cur right ;;                       (* 215 *)
    match c with
    | Some child =>
      chn <- rd tb child ;;                              (* 216 *)
      let child_p := npfx chn in
      if contains child_p q then Ok (IEnter child right) (* 217-218 *)
      else if contains q child_p then                    (* 219 *)
        Ok (INewChild right (to_right q child_p))        (* 220-223 *)
      else
        let branch_prefix := lcp q child_p in            (* 225 *)
        let prefix_right := to_right branch_prefix q in  (* 226 *)
        Ok (INewBranch branch_prefix right prefix_right) (* 227-231 *)
    | None => Ok (INewLeaf right)                        (* 234 *)
    end.

(* ------------------------------------------------------------------------------------------ *)
(** * Lookups *)

(** [get], mod.rs:76-85 *)
Fixpoint a_get_loop (fuel : nat) (tb : list anode) (idx : N) (q : pfx) : res (option V) :=
  match fuel with
  | O => OutOfFuel
  | S f =>
    d <- a_direction tb idx q ;;                         (* 79 *)
    match d with
    | Reached => n <- rd tb idx ;; Ok (nval n)           (* 80 *)
    | Enter next _ => a_get_loop f tb next q             (* 81 *)
    | Missing => Ok None                                 (* 82 *)
    end
  end.

Definition a_get (am : amap) (q : pfx) : res (option V) :=
  a_get_loop (S (length (tbl am))) (tbl am) 0%N q.       (* 77: idx = 0 *)

(** [Node::prefix_value], inner.rs:20-22 *)
Definition prefix_value (n : anode) : option (pfx * V) :=
  match nval n with Some x => Some (npfx n, x) | None => None end.

(** [get_lpm], mod.rs:160-170 *)
Fixpoint a_lpm_loop (fuel : nat) (tb : list anode) (idx : N) (q : pfx) (best : option (pfx * V))
  : res (option (pfx * V)) :=
  match fuel with
  | O => OutOfFuel
  | S f =>
    n <- rd tb idx ;;                                    (* 164: self.table[idx] *)
    let best := match prefix_value n with Some b => Some b | None => best end in  (* 164: .or() *)
    d <- a_direction tb idx q ;;                         (* 165 *)
    match d with
    | Enter next _ => a_lpm_loop f tb next q best        (* 166 *)
    | _ => Ok best                                       (* 167 *)
    end
  end.

Definition a_get_lpm (am : amap) (q : pfx) : res (option (pfx * V)) :=
  a_lpm_loop (S (length (tbl am))) (tbl am) 0%N q None.  (* 161-162 *)

(* ------------------------------------------------------------------------------------------ *)
(** * [new_node], mod.rs:783-805
    A recycled slot has all four fields overwritten (789-792): nothing of its stale contents
    survives. *)
Definition a_new_node (am : amap) (p : pfx) (v : option V) : res (N * amap) :=
  let c := if is_some v then (acount am + 1)%Z else acount am in      (* 784-786 *)
  match afree am with
  | idx :: f =>                                                       (* 787: free.pop() *)
    tb <- wr (tbl am) idx (mkanode p v None None) ;;                  (* 788-792 *)
    Ok (idx, mkamap tb f c)                                           (* 793 *)
  | [] =>
    let idx := N.of_nat (length (tbl am)) in                          (* 796 *)
    Ok (idx, mkamap (tbl am ++ [mkanode p v None None]) [] c)         (* 797-803 *)
  end.

(* ------------------------------------------------------------------------------------------ *)
(** * [insert], mod.rs:349-392 *)
Fixpoint a_insert_loop (fuel : nat) (am : amap) (idx : N) (q : pfx) (x : V)
  : res (amap * option V) :=
  match fuel with
  | O => OutOfFuel
  | S f =>
    d <- a_direction_ins (tbl am) idx q ;;                            (* 352 *)
    match d with
    | IEnter next _ => a_insert_loop f am next q x                    (* 353 *)
    | IReached =>                                                     (* 354-366 *)
      node <- rd (tbl am) idx ;;                                      (* 356 *)
      let old_value := nval node in                                   (* 359 *)
      tb <- wr (tbl am) idx (mkanode q (Some x) (nleft node) (nright node)) ;;  (* 358, 363 *)
      (* 355, 360-362, 364: count += inc, inc = 1 iff there was no value *)
      let c := if is_none old_value then (acount am + 1)%Z else acount am in
      Ok (mkamap tb (afree am) c, old_value)                          (* 365 *)
    | INewLeaf rt =>                                                  (* 367-371 *)
      '(new, am1) <- a_new_node am q (Some x) ;;                      (* 368 *)
      '(tb, _) <- set_child (tbl am1) idx new rt ;;                   (* 369 *)
      Ok (mkamap tb (afree am1) (acount am1), None)                   (* 370 *)
    | INewChild rt child_right =>                                     (* 372-377 *)
      '(new, am1) <- a_new_node am q (Some x) ;;                      (* 373 *)
      '(tb1, oc) <- set_child (tbl am1) idx new rt ;;                 (* 374 *)
      child <- unwrap oc ;;                                           (* 374: unwrap *)
      '(tb2, _) <- set_child tb1 new child child_right ;;             (* 375 *)
      Ok (mkamap tb2 (afree am1) (acount am1), None)                  (* 376 *)
    | INewBranch branch_prefix rt prefix_right =>                     (* 378-389 *)
      '(branch, am1) <- a_new_node am branch_prefix None ;;           (* 383 *)
      '(new, am2) <- a_new_node am1 q (Some x) ;;                     (* 384 *)
      '(tb1, oc) <- set_child (tbl am2) idx branch rt ;;              (* 385 *)
      child <- unwrap oc ;;                                           (* 385: unwrap *)
      '(tb2, _) <- set_child tb1 branch new prefix_right ;;           (* 386 *)
      '(tb3, _) <- set_child tb2 branch child (negb prefix_right) ;;  (* 387 *)
      Ok (mkamap tb3 (afree am2) (acount am2), None)                  (* 388 *)
    end
  end.

Definition a_insert (am : amap) (q : pfx) (x : V) : res (amap * option V) :=
  a_insert_loop (S (length (tbl am))) am 0%N q x.                     (* 350 *)

(* ------------------------------------------------------------------------------------------ *)
(** * [_remove_node], mod.rs:808-860 (the repaired code: both [free.push] at 834 and 840, and
    the one at 856) *)
Definition a_remove_node (am : amap) (idx : N) (par : option N) (par_right : bool)
           (grp : option N) (grp_right : bool) : res (amap * option V * bool) :=
  node <- rd (tbl am) idx ;;                                          (* 818 *)
  let value := nval node in                                           (* 819: take() *)
  tb0 <- wr (tbl am) idx (mkanode (npfx node) None (nleft node) (nright node)) ;;
  let has_left := is_some (nleft node) in                             (* 820 *)
  let has_right := is_some (nright node) in                           (* 821 *)
  let cnt := if is_some value then (acount am - 1)%Z else acount am in  (* 824-826 *)
  if has_left && has_right then                                       (* 828 *)
    Ok (mkamap tb0 (afree am) cnt, value, false)                      (* 829, 859 *)
  else if negb (has_left || has_right) then                           (* 830 *)
    match par with
    | Some par =>                                                     (* 831 *)
      '(tb1, _) <- clear_child tb0 par par_right ;;                   (* 833 *)
      let fr1 := idx :: afree am in                                   (* 834 *)
      match grp with
      | Some grp =>                                                   (* 837 *)
        pn <- rd tb1 par ;;                                           (* 838 *)
        if is_none (nval pn) then
          let fr2 := par :: fr1 in                                    (* 840 *)
          sib <- get_child tb1 par (negb par_right) ;;                (* 841 *)
          match sib with
          | Some sibling =>
            '(tb2, _) <- set_child tb1 grp sibling grp_right ;;       (* 842 *)
            Ok (mkamap tb2 fr2 cnt, value, true)                      (* 843 *)
          | None =>
            '(tb2, _) <- clear_child tb1 grp grp_right ;;             (* 845 *)
            Ok (mkamap tb2 fr2 cnt, value, false)                     (* 859 *)
          end
        else Ok (mkamap tb1 fr1 cnt, value, false)                    (* 859 *)
      | None => Ok (mkamap tb1 fr1 cnt, value, false)                 (* 859 *)
      end
    | None => Ok (mkamap tb0 (afree am) cnt, value, false)            (* 859 *)
    end
  else
    match par with
    | Some par =>                                                     (* 852 *)
      let child_right := has_right in                                 (* 853 *)
      '(tb1, oc) <- clear_child tb0 idx child_right ;;                (* 854 *)
      child <- unwrap oc ;;                                           (* 854: unwrap *)
      '(tb2, _) <- set_child tb1 par child par_right ;;               (* 855 *)
      Ok (mkamap tb2 (idx :: afree am) cnt, value, false)             (* 856, 859 *)
    | None => Ok (mkamap tb0 (afree am) cnt, value, false)            (* 859 *)
    end.

(** the search loop of [remove], mod.rs:460-478: [None] = [Missing] *)
Fixpoint a_find (fuel : nat) (tb : list anode) (idx : N) (par : option N) (par_right : bool)
         (grp : option N) (grp_right : bool) (q : pfx)
  : res (option (N * option N * bool * option N * bool)) :=
  match fuel with
  | O => OutOfFuel
  | S f =>
    d <- a_direction tb idx q ;;                                      (* 467 *)
    match d with
    | Reached => Ok (Some (idx, par, par_right, grp, grp_right))      (* 468 *)
    | Enter next rt =>                                                (* 469-475 *)
      a_find f tb next (Some idx) rt par par_right q
    | Missing => Ok None                                              (* 476 *)
    end
  end.

(** [remove], mod.rs:459-481 *)
Definition a_remove (am : amap) (q : pfx) : res (amap * option V) :=
  r <- a_find (S (length (tbl am))) (tbl am) 0%N None false None false q ;;   (* 460-478 *)
  match r with
  | None => Ok (am, None)                                             (* 476 *)
  | Some (idx, par, par_right, grp, grp_right) =>
    '(am', value, _) <- a_remove_node am idx par par_right grp grp_right ;;   (* 479 *)
    Ok (am', value)                                                   (* 480 *)
  end.

(** [remove_keep_tree], mod.rs:507-523 *)
Fixpoint a_rkt_loop (fuel : nat) (tb : list anode) (idx : N) (q : pfx)
  : res (list anode * option V) :=
  match fuel with
  | O => OutOfFuel
  | S f =>
    d <- a_direction tb idx q ;;                                      (* 510 *)
    match d with
    | Reached =>                                                      (* 511: value.take() *)
      n <- rd tb idx ;;
      tb' <- wr tb idx (mkanode (npfx n) None (nleft n) (nright n)) ;;
      Ok (tb', nval n)
    | Enter next _ => a_rkt_loop f tb next q                          (* 512 *)
    | Missing => Ok (tb, None)                                        (* 513 *)
    end
  end.

Definition a_remove_keep_tree (am : amap) (q : pfx) : res (amap * option V) :=
  '(tb, value) <- a_rkt_loop (S (length (tbl am))) (tbl am) 0%N q ;;  (* 508-515 *)
  let cnt := if is_some value then (acount am - 1)%Z else acount am in  (* 518-520 *)
  Ok (mkamap tb (afree am) cnt, value).                               (* 522 *)

(* ------------------------------------------------------------------------------------------ *)
(** * [Iter::next], iter.rs:37-51, drained: pre-order with an explicit stack ([nodes: vec![0]]);
    head of the list = top of the stack.  One unit of fuel per loop iteration. *)
Fixpoint a_iter (fuel : nat) (tb : list anode) (stack : list N) : res (list (pfx * V)) :=
  match fuel with
  | O => OutOfFuel
  | S f =>
    match stack with
    | [] => Ok []                                                     (* 38, 50 *)
    | cur :: st =>                                                    (* 38: pop *)
      node <- rd tb cur ;;                                            (* 39 *)
      let st := match nright node with Some r => r :: st | None => st end in  (* 40-42 *)
      let st := match nleft node with Some l => l :: st | None => st end in   (* 43-45 *)
      rest <- a_iter f tb st ;;
      Ok (match nval node with Some v => (npfx node, v) :: rest | None => rest end) (* 46-48 *)
    end
  end.

Definition a_entries_fuel (fuel : nat) (am : amap) : res (list (pfx * V)) := a_iter fuel (tbl am) [0%N].
Definition a_entries (am : amap) : res (list (pfx * V)) := a_entries_fuel (S (length (tbl am))) am.

(* ------------------------------------------------------------------------------------------ *)
(** * Reading the arena back as a tree (executable abstraction function, used for testing and
    as a run-time checker): [None] when a link is out of bounds or the fuel runs out *)
Fixpoint a_abs (fuel : nat) (tb : list anode) (o : option N) : option (tree pfx V) :=
  match o with
  | None => Some Leaf
  | Some i =>
    match fuel with
    | O => None
    | S f =>
      match nth_error tb (N.to_nat i) with
      | None => None
      | Some n =>
        match a_abs f tb (nleft n), a_abs f tb (nright n) with
        | Some l, Some r => Some (Node i (npfx n) (nval n) l r)
        | _, _ => None
        end
      end
    end
  end.

Definition a_snapshot (am : amap) : option (pmap pfx V) :=
  match a_abs (S (length (tbl am))) (tbl am) (Some 0%N) with
  | Some t => Some (mkmap t (mkalloc (afree am) (N.of_nat (length (tbl am))) (acount am)))
  | None => None
  end.

(* ------------------------------------------------------------------------------------------ *)
(** * Histories *)
Inductive aop := AIns (q : pfx) (x : V) | ARem (q : pfx) | ARemKeep (q : pfx).

Definition a_step (o : aop) (am : amap) : res amap :=
  match o with
  | AIns q x => '(am', _) <- a_insert am q x ;; Ok am'
  | ARem q => '(am', _) <- a_remove am q ;; Ok am'
  | ARemKeep q => '(am', _) <- a_remove_keep_tree am q ;; Ok am'
  end.

Fixpoint a_run_from (ops : list aop) (am : amap) : res amap :=
  match ops with
  | [] => Ok am
  | o :: ops' => am' <- a_step o am ;; a_run_from ops' am'
  end.
Definition a_run (ops : list aop) : res amap := a_run_from ops a_empty.

Definition t_step (o : aop) (m : pmap pfx V) : pmap pfx V :=
  match o with
  | AIns q x => fst (Trie.insert pfx V peq contains is_bit_set plen lcp m q x)
  | ARem q => fst (Trie.remove pfx V peq contains is_bit_set plen m q)
  | ARemKeep q => fst (Trie.remove_keep_tree pfx V peq contains is_bit_set plen m q)
  end.
Fixpoint t_run_from (ops : list aop) (m : pmap pfx V) : pmap pfx V :=
  match ops with [] => m | o :: ops' => t_run_from ops' (t_step o m) end.
Definition t_run (ops : list aop) : pmap pfx V := t_run_from ops (Trie.empty pfx V pzero).

(** the returned values of a history, for comparing results as well as states *)
Definition a_step_out (o : aop) (am : amap) : res (amap * option V) :=
  match o with
  | AIns q x => a_insert am q x
  | ARem q => a_remove am q
  | ARemKeep q => a_remove_keep_tree am q
  end.
Definition t_step_out (o : aop) (m : pmap pfx V) : pmap pfx V * option V :=
  match o with
  | AIns q x => Trie.insert pfx V peq contains is_bit_set plen lcp m q x
  | ARem q => Trie.remove pfx V peq contains is_bit_set plen m q
  | ARemKeep q => Trie.remove_keep_tree pfx V peq contains is_bit_set plen m q
  end.
Fixpoint a_outs (ops : list aop) (am : amap) : res (list (option V)) :=
  match ops with
  | [] => Ok []
  | o :: ops' => '(am', v) <- a_step_out o am ;; vs <- a_outs ops' am' ;; Ok (v :: vs)
  end.
Fixpoint t_outs (ops : list aop) (m : pmap pfx V) : list (option V) :=
  match ops with
  | [] => []
  | o :: ops' => let '(m', v) := t_step_out o m in v :: t_outs ops' m'
  end.

End A.

Arguments mkanode {pfx V}.
Arguments npfx {pfx V}.
Arguments nval {pfx V}.
Arguments nleft {pfx V}.
Arguments nright {pfx V}.
Arguments mkamap {pfx V}.
Arguments tbl {pfx V}.
Arguments afree {pfx V}.
Arguments acount {pfx V}.
Arguments AIns {pfx V}.
Arguments ARem {pfx V}.
Arguments ARemKeep {pfx V}.

(* ------------------------------------------------------------------------------------------ *)
(** * Tests on the 8-bit instance: the arena run against the tree model *)
From PT Require Import PrefixN.

Module ArenaTest.
Notation P := PrefixN.pfx.
Definition W := 8%N.
Definition FL := Generic.
Definition PEQ := PrefixN.peq W.
Definition CON := PrefixN.contains W FL.
Definition BIT := PrefixN.is_bit_set W.
Definition LEN := PrefixN.plen.
Definition LCP := PrefixN.lcp W FL.
Definition ZERO := PrefixN.pzero.

Definition arun := a_run P N PEQ CON BIT LEN LCP ZERO.
Definition trun := t_run P N PEQ CON BIT LEN LCP ZERO.
Definition snap (r : res (amap P N)) : option (pmap P N) :=
  match r with Ok am => a_snapshot P N am | _ => None end.
Definition aouts ops := a_outs P N PEQ CON BIT LEN LCP ops (a_empty P N ZERO).
Definition touts ops := t_outs P N PEQ CON BIT LEN LCP ops (Trie.empty P N ZERO).
Definition aentries (r : res (amap P N)) : res (list (P * N)) :=
  match r with Ok am => a_entries P N am | Panic => Panic | OutOfFuel => OutOfFuel end.

Definition p (r l : N) : P := mkpfx r l.
Fixpoint ids_of (t : tree P N) : list N :=
  match t with Leaf => [] | Node i _ _ l r => i :: ids_of l ++ ids_of r end.
Open Scope N_scope.

(** NewLeaf 10/2 (slot 1); NewBranch for 11/2 (branch 1/1 in slot 2, allocated before the leaf
    in slot 3); then the collapse case of [_remove_node]: removing the leaf 10/2 also unlinks
    the value-less branch, the free list becomes [2; 1] (the branch's slot on top of the leaf's);
    the next insert (NewLeaf 01/2) recycles slot 2, the one after (NewBranch for 10/2) recycles
    slot 1 for the branch and grows the arena (slot 4) for the leaf. *)
Definition h1 : list (aop P N) :=
  [AIns (p 128 2) 1; AIns (p 192 2) 2; ARem (p 128 2); AIns (p 64 2) 3; AIns (p 128 2) 4].
Example h1_state : snap (arun h1) = Some (trun h1).
Proof. vm_compute. reflexivity. Qed.
Example h1_outs : aouts h1 = Ok (touts h1).
Proof. vm_compute. reflexivity. Qed.
Example h1_slots :
  option_map (fun m => (ids_of (root m), free (al m), alen (al m))) (snap (arun h1))
  = Some ([0; 2; 1; 4; 3], [], 5).
Proof. vm_compute. reflexivity. Qed.
(** the state after the collapse: root(0) -> 11/2 (slot 3); free list = [2; 1] (the branch's slot 2 on top
    of the leaf's slot 1) *)
Example h1_collapse :
  option_map (fun m => (root m, free (al m)))
             (snap (arun [AIns (p 128 2) 1; AIns (p 192 2) 2; ARem (p 128 2)]))
  = Some (Node 0 ZERO None Leaf (Node 3 (p 192 2) (Some 2) Leaf Leaf), [2; 1]).
Proof. vm_compute. reflexivity. Qed.

(** NewChild, removal of a one-child node (child relinked to the parent), removal of a
    two-children node (stays), remove_keep_tree, removal of the root key, misses *)
Definition h2 : list (aop P N) :=
  [AIns (p 160 3) 1; AIns (p 128 1) 2; AIns (p 0 0) 9; ARem (p 128 1); AIns (p 128 1) 3;
   AIns (p 224 3) 4; ARem (p 128 1); ARem (p 128 1); ARemKeep (p 160 3); ARemKeep (p 160 3);
   ARem (p 0 0); ARem (p 77 8); AIns (p 77 8) 5; AIns (p 76 8) 6; AIns (p 76 7) 7; ARem (p 76 7);
   ARem (p 77 8); ARem (p 76 8); ARem (p 224 3); ARem (p 160 3); AIns (p 1 8) 8].
Example h2_state : snap (arun h2) = Some (trun h2).
Proof. vm_compute. reflexivity. Qed.
Example h2_outs : aouts h2 = Ok (touts h2).
Proof. vm_compute. reflexivity. Qed.
Example h2_entries : aentries (arun h2) = Ok (entries (root (trun h2))).
Proof. vm_compute. reflexivity. Qed.

(** every prefix of a longer history agrees, state and outputs *)
Fixpoint prefixes {A} (l : list A) : list (list A) :=
  match l with [] => [[]] | x :: l' => [] :: map (cons x) (prefixes l') end.
Example all_prefixes_state :
  map (fun h => snap (arun h)) (prefixes (h1 ++ h2)) = map (fun h => Some (trun h)) (prefixes (h1 ++ h2)).
Proof. vm_compute. reflexivity. Qed.
Example all_prefixes_entries :
  map (fun h => aentries (arun h)) (prefixes (h1 ++ h2))
  = map (fun h => Ok (entries (root (trun h)))) (prefixes (h1 ++ h2)).
Proof. vm_compute. reflexivity. Qed.
Example h12_state : snap (arun (h1 ++ h2)) = Some (trun (h1 ++ h2)).
Proof. vm_compute. reflexivity. Qed.
Example h12_outs : aouts (h1 ++ h2) = Ok (touts (h1 ++ h2)).
Proof. vm_compute. reflexivity. Qed.
Example h12_get :
  a_get P N PEQ CON BIT LEN match arun (h1 ++ h2) with Ok am => am | _ => a_empty P N ZERO end (p 64 2)
  = Ok (Trie.get P N PEQ CON BIT LEN (root (trun (h1 ++ h2))) (p 64 2)).
Proof. vm_compute. reflexivity. Qed.
Example h12_lpm :
  a_get_lpm P N PEQ CON BIT LEN match arun (h1 ++ h2) with Ok am => am | _ => a_empty P N ZERO end (p 65 8)
  = Ok (Trie.get_lpm P N PEQ CON BIT LEN (root (trun (h1 ++ h2))) (p 65 8)).
Proof. vm_compute. reflexivity. Qed.

(** a corrupted arena (a link cycle 0 -> 1 -> 0) makes the descent run out of fuel; a dangling
    link panics: the two failure modes the tree model cannot express *)
Example cycle_diverges :
  a_get P N PEQ CON BIT LEN
        (mkamap [mkanode ZERO None (Some 1) None; mkanode ZERO None (Some 0) None] [] 0) (p 1 8)
  = OutOfFuel.
Proof. vm_compute. reflexivity. Qed.
Example dangling_panics :
  a_get P N PEQ CON BIT LEN (mkamap [mkanode ZERO None (Some 7) None] [] 0) (p 1 8) = Panic.
Proof. vm_compute. reflexivity. Qed.
End ArenaTest.
