(** The ARENA level, part 2: the remaining mutators of [src/map/mod.rs] ([clear],
    [remove_children] + [_do_remove_children], [retain] + [_retain], [entry], [get_mut]), of
    [src/map/entry.rs] ([VacantEntry::_insert], [OccupiedEntry::insert/remove/get_mut],
    [Entry::insert/get_mut/and_modify]) and of [src/trieview/mod.rs] ([TrieViewMut::left/right],
    [node_mut], [set], [remove], [value_mut]), transcribed over the table of [Arena.v] in the same
    style: the order of reads, writes, [free.push] and counter updates is kept; an index out of
    bounds, an [unwrap()] on [None] and [unreachable!] are [Panic]; loops and recursion run on fuel
    ([OutOfFuel]).  Line numbers refer to the committed sources (HEAD of /repo).

    Definitions only (no proofs); everything reduces with [vm_compute] and extracts with
    [ExtrOcamlBasic].  [Arena2Thm.v] proves that on every arena that represents a tree of [Trie.v]
    under [Slots.minv] each of these operations returns [Ok] and its result represents the result
    of the tree operation.

    As in [Arena.v] the counter is a [Z]: [self.count -= 1] on a zero counter (a debug-build
    overflow panic, reachable only after [TrieViewMut::set] has created entries behind the
    counter's back) is not modelled here. *)
From Coq Require Import List NArith ZArith Bool.
From PT Require Import Machine Trie Views Arena.
Import ListNotations.

Section A2.
Variables (pfx V : Type).
Variables (peq contains : pfx -> pfx -> bool) (is_bit_set : pfx -> N -> bool)
          (plen : pfx -> N) (lcp : pfx -> pfx -> pfx) (pzero : pfx).

Notation anode := (Arena.anode pfx V).
Notation amap := (Arena.amap pfx V).
Notation rd := (Arena.rd pfx V).
Notation wr := (Arena.wr pfx V).
Notation child_of := (Arena.child_of pfx V).
Notation get_child := (Arena.get_child pfx V).
Notation set_child := (Arena.set_child pfx V).
Notation clear_child := (Arena.clear_child pfx V).
Notation a_direction := (Arena.a_direction pfx V peq contains is_bit_set plen).
Notation a_direction_ins := (Arena.a_direction_ins pfx V peq contains is_bit_set plen lcp).
Notation a_new_node := (Arena.a_new_node pfx V).
Notation a_remove_node := (Arena.a_remove_node pfx V).
Notation prefix_value := (Arena.prefix_value pfx V).

(* ------------------------------------------------------------------------------------------ *)
(** * [clear], mod.rs:590-600: [table.clear()] (591), [free.clear()] (592), push the root node
    (593-598), [count = 0] (599).  Nothing is read: it cannot fail. *)
Definition a_clear (am : amap) : amap :=
  mkamap [mkanode pzero None None None] [] 0%Z.

(* ------------------------------------------------------------------------------------------ *)
(** * [_do_remove_children], mod.rs:758-778
    [to_free] is a [Vec] used as a stack: head of the list = top.  One unit of fuel per
    evaluation of the loop condition [to_free.pop()] (761), the last (failing) one included. *)
Fixpoint a_free_loop (fuel : nat) (am : amap) (to_free : list N) : res amap :=
  match fuel with
  | O => OutOfFuel
  | S f =>
    match to_free with
    | [] => Ok am                                                       (* 761: pop() = None *)
    | idx :: st =>                                                      (* 761: pop() = Some idx *)
      node <- rd (tbl am) idx ;;                                        (* 763: self.table[idx] *)
      let value := nval node in                                         (* 764: value.take() *)
      let dec := if is_some value then 1%Z else 0%Z in                  (* 762, 766-768 *)
      let st := match nleft node with Some l => l :: st | None => st end in   (* 769-771 *)
      let st := match nright node with Some r => r :: st | None => st end in  (* 772-774 *)
      (* the three [take()]s of 764, 769, 772 leave the slot empty; the prefix stays *)
      tb <- wr (tbl am) idx (mkanode (npfx node) None None None) ;;
      a_free_loop f (mkamap tb (idx :: afree am) (acount am - dec)%Z) st  (* 775, 776 *)
    end
  end.

Definition a_do_remove_children (fuel : nat) (am : amap) (idx : N) (right : bool) : res amap :=
  c <- get_child (tbl am) idx right ;;                                  (* 759 *)
  first <- unwrap c ;;                                                  (* 759: unwrap *)
  '(tb, _) <- clear_child (tbl am) idx right ;;                         (* 760 *)
  a_free_loop fuel (mkamap tb (afree am) (acount am)) [first].          (* 761-777 *)

(** * [remove_children], mod.rs:548-571; [fuel] bounds the descent, [ffuel] the freeing loop *)
Fixpoint a_rc_loop (fuel ffuel : nat) (am : amap) (idx parent : N) (parent_right : bool) (q : pfx)
  : res amap :=
  match fuel with
  | O => OutOfFuel
  | S f =>
    d <- a_direction_ins (tbl am) idx q ;;                              (* 556 *)
    match d with
    | IReached _ => a_do_remove_children ffuel am parent parent_right   (* 557-559 *)
    | IEnter _ next rt => a_rc_loop f ffuel am next idx rt q         (* 560-564 *)
    | INewLeaf _ _ => Ok am                                             (* 565 *)
    | INewBranch _ _ _ _ => Ok am                                       (* 565 *)
    | INewChild _ rt _ => a_do_remove_children ffuel am idx rt          (* 566-568 *)
    end
  end.

Definition a_remove_children_fuel (fuel ffuel : nat) (am : amap) (q : pfx) : res amap :=
  if (plen q =? 0)%N then Ok (a_clear am)                               (* 549-551 *)
  else a_rc_loop fuel ffuel am 0%N 0%N false q.                         (* 552-554 *)

Definition a_remove_children (am : amap) (q : pfx) : res amap :=
  a_remove_children_fuel (S (length (tbl am))) (S (length (tbl am))) am q.

(* ------------------------------------------------------------------------------------------ *)
(** * [_retain], mod.rs:863-897
    The closure is modelled as in [Trie.ret]: [f n p x] is its answer on the [n]-th invocation
    (counting from 0), [None] = the closure panics; the unwinding leaves the map as it is at that
    moment, which is what the [RPanic] status hands upwards together with the state.  The log of
    calls is kept latest first.  [RDone b]: the frame returns [(f, b)]. *)
Definition rres : Type := (amap * list (pfx * V) * rstat)%type.

Fixpoint a_retain_rec (fuel : nat) (f : nat -> pfx -> V -> option bool)
         (am : amap) (log : list (pfx * V)) (idx : N) (par : option N) (par_right : bool)
         (grp : option N) (grp_right : bool) : res rres :=
  match fuel with
  | O => OutOfFuel
  | S fu =>
    (* 876, 877: idx_removed = false, par_removed = false *)
    n1 <- rd (tbl am) idx ;;                                            (* 878: self.table[idx].left *)
    r1 <- match nleft n1 with
          | Some lf =>                                                  (* 879 *)
            a_retain_rec fu f am log lf (Some idx) false par par_right
          | None => Ok (am, log, RDone false)
          end ;;
    let '(am1, log1, st1) := r1 in
    match st1 with
    | RPanic => Ok (am1, log1, RPanic)
    | RDone idx_removed =>
      n2 <- rd (tbl am1) idx ;;                                         (* 881: self.table[idx].right *)
      r2 <- match nright n2 with
            | Some rg =>
              if idx_removed then                                       (* 882-883 *)
                a_retain_rec fu f am1 log1 rg par par_right grp grp_right
              else                                                      (* 885: the flag is dropped *)
                r <- a_retain_rec fu f am1 log1 rg (Some idx) true par par_right ;;
                let '(a, l, s) := r in
                Ok (a, l, match s with RPanic => RPanic | RDone _ => RDone false end)
            | None => Ok (am1, log1, RDone false)
            end ;;
      let '(am2, log2, st2) := r2 in
      match st2 with
      | RPanic => Ok (am2, log2, RPanic)
      | RDone par_removed =>
        n3 <- rd (tbl am2) idx ;;                                       (* 889: self.table[idx].value *)
        match nval n3 with
        | Some val =>
          match f (length log2) (npfx n3) val with                      (* 890 *)
          | None => Ok (am2, log2, RPanic)                              (* the closure panics *)
          | Some true => Ok (am2, (npfx n3, val) :: log2, RDone par_removed)          (* 896 *)
          | Some false =>
            '(am3, _, par_del) <- a_remove_node am2 idx par par_right grp grp_right ;;  (* 892 *)
            Ok (am3, (npfx n3, val) :: log2, RDone par_del)             (* 893, 896 *)
          end
        | None => Ok (am2, log2, RDone par_removed)                     (* 896 *)
        end
      end
    end
  end.

(** [retain], mod.rs:623-628: returns the map, whether the closure panicked, and the closure's
    calls in call order *)
Definition a_retain_fuel (fuel : nat) (f : nat -> pfx -> V -> option bool) (am : amap)
  : res (amap * bool * list (pfx * V)) :=
  r <- a_retain_rec fuel f am [] 0%N None false None false ;;           (* 627 *)
  let '(am', log, st) := r in
  Ok (am', match st with RPanic => true | RDone _ => false end, rev log).

Definition a_retain (f : nat -> pfx -> V -> option bool) (am : amap)
  : res (amap * bool * list (pfx * V)) :=
  a_retain_fuel (S (length (tbl am))) f am.

(* ------------------------------------------------------------------------------------------ *)
(** * [entry], mod.rs:414-436 *)
Inductive aentry :=
| AOcc (idx : N)                         (* OccupiedEntry { node: &mut table[idx], prefix, count } *)
| AVac (idx : N) (d : dir_ins pfx).      (* VacantEntry { map, prefix, idx, direction } *)

Fixpoint a_entry_loop (fuel : nat) (tb : list anode) (idx : N) (q : pfx) : res aentry :=
  match fuel with
  | O => OutOfFuel
  | S f =>
    d <- a_direction_ins tb idx q ;;                                    (* 417 *)
    match d with
    | IEnter _ next _ => a_entry_loop f tb next q                       (* 418 *)
    | IReached _ =>
      n <- rd tb idx ;;                                                 (* 419: self.table[idx].value *)
      if is_some (nval n) then Ok (AOcc idx)                            (* 419-425 *)
      else Ok (AVac idx (IReached pfx))                                 (* 426-433 *)
    | d => Ok (AVac idx d)                                              (* 426-433 *)
    end
  end.

Definition a_entry (am : amap) (q : pfx) : res aentry :=
  a_entry_loop (S (length (tbl am))) (tbl am) 0%N q.                    (* 415 *)

(** * [VacantEntry::_insert], entry.rs:255-293: returns the map and the index of the node whose
    reference is handed out *)
Definition a_vacant_insert (am : amap) (idx : N) (d : dir_ins pfx) (q : pfx) (x : V)
  : res (amap * N) :=
  match d with
  | IReached _ =>                                                       (* 257-266 *)
    let c := (acount am + 1)%Z in                                       (* 260: unconditional *)
    node <- rd (tbl am) idx ;;                                          (* 261 *)
    tb <- wr (tbl am) idx (mkanode q (Some x) (nleft node) (nright node)) ;;  (* 262, 264 *)
    Ok (mkamap tb (afree am) c, idx)                                    (* 265 *)
  | INewLeaf _ rt =>                                                    (* 267-271 *)
    '(new, am1) <- a_new_node am q (Some x) ;;                          (* 268 *)
    '(tb, _) <- set_child (tbl am1) idx new rt ;;                       (* 269 *)
    _ <- rd tb new ;;                                                   (* 270: &mut table[new] *)
    Ok (mkamap tb (afree am1) (acount am1), new)
  | INewChild _ rt child_right =>                                       (* 272-277 *)
    '(new, am1) <- a_new_node am q (Some x) ;;                          (* 273 *)
    '(tb1, oc) <- set_child (tbl am1) idx new rt ;;                     (* 274 *)
    child <- unwrap oc ;;                                               (* 274: unwrap *)
    '(tb2, _) <- set_child tb1 new child child_right ;;                 (* 275 *)
    _ <- rd tb2 new ;;                                                  (* 276: &mut table[new] *)
    Ok (mkamap tb2 (afree am1) (acount am1), new)
  | INewBranch _ branch_prefix rt prefix_right =>                       (* 278-289 *)
    '(branch, am1) <- a_new_node am branch_prefix None ;;               (* 283 *)
    '(new, am2) <- a_new_node am1 q (Some x) ;;                         (* 284 *)
    '(tb1, oc) <- set_child (tbl am2) idx branch rt ;;                  (* 285 *)
    child <- unwrap oc ;;                                               (* 285: unwrap *)
    '(tb2, _) <- set_child tb1 branch new prefix_right ;;               (* 286 *)
    '(tb3, _) <- set_child tb2 branch child (negb prefix_right) ;;      (* 287 *)
    _ <- rd tb3 new ;;                                                  (* 288: &mut table[new] *)
    Ok (mkamap tb3 (afree am2) (acount am2), new)
  | IEnter _ _ _ => Panic                                               (* 290: unreachable!() *)
  end.

(** [OccupiedEntry::insert], entry.rs:391-394 *)
Definition a_occ_insert (am : amap) (idx : N) (q : pfx) (x : V) : res (amap * V) :=
  node <- rd (tbl am) idx ;;                                            (* the handle's &mut Node *)
  tb <- wr (tbl am) idx (mkanode q (Some x) (nleft node) (nright node)) ;;  (* 392, 393: replace *)
  old <- unwrap (nval node) ;;                                          (* 393: unwrap *)
  Ok (mkamap tb (afree am) (acount am), old).

(** [OccupiedEntry::remove], entry.rs:417-421 (the repaired code: the handle carries [count]) *)
Definition a_occ_remove (am : amap) (idx : N) : res (amap * V) :=
  node <- rd (tbl am) idx ;;
  tb <- wr (tbl am) idx (mkanode (npfx node) None (nleft node) (nright node)) ;;  (* 418: take *)
  value <- unwrap (nval node) ;;                                        (* 418: unwrap *)
  Ok (mkamap tb (afree am) (acount am - 1)%Z, value).                   (* 419 *)

(** [OccupiedEntry::get_mut], entry.rs:366-368, followed by a write [*r = g *r] *)
Definition a_occ_update (am : amap) (idx : N) (g : V -> V) : res amap :=
  node <- rd (tbl am) idx ;;
  v <- unwrap (nval node) ;;                                            (* 367: unwrap *)
  tb <- wr (tbl am) idx (mkanode (npfx node) (Some (g v)) (nleft node) (nright node)) ;;
  Ok (mkamap tb (afree am) (acount am)).

(** a write through [Option<&mut T>] at a node: [Entry::get_mut] (70-75), [Entry::and_modify]
    (208-216), and the last line of [PrefixMap::get_mut] *)
Definition a_node_update (tb : list anode) (idx : N) (g : V -> V) : res (list anode) :=
  node <- rd tb idx ;;
  wr tb idx (mkanode (npfx node) (option_map g (nval node)) (nleft node) (nright node)).

(** [Entry::insert], entry.rs:125-133 *)
Definition a_entry_insert (am : amap) (q : pfx) (x : V) : res (amap * option V) :=
  e <- a_entry am q ;;
  match e with
  | AVac idx d => '(am', _) <- a_vacant_insert am idx d q x ;; Ok (am', None)    (* 127-130 *)
  | AOcc idx => '(am', old) <- a_occ_insert am idx q x ;; Ok (am', Some old)     (* 131 *)
  end.

(** [if let Entry::Occupied(mut e) = map.entry(q) { e.remove() }] *)
Definition a_entry_remove (am : amap) (q : pfx) : res (amap * option V) :=
  e <- a_entry am q ;;
  match e with
  | AVac _ _ => Ok (am, None)
  | AOcc idx => '(am', v) <- a_occ_remove am idx ;; Ok (am', Some v)
  end.

(** [map.entry(q).and_modify(g)] *)
Definition a_entry_and_modify (am : amap) (q : pfx) (g : V -> V) : res amap :=
  e <- a_entry am q ;;
  match e with
  | AVac _ _ => Ok am                                                   (* 210 *)
  | AOcc idx => tb <- a_node_update (tbl am) idx g ;; Ok (mkamap tb (afree am) (acount am))  (* 212 *)
  end.

(** [PrefixMap::get_mut], mod.rs:104-113, followed by a write through the reference *)
Fixpoint a_get_mut_loop (fuel : nat) (tb : list anode) (idx : N) (q : pfx) (g : V -> V)
  : res (list anode) :=
  match fuel with
  | O => OutOfFuel
  | S f =>
    d <- a_direction tb idx q ;;                                        (* 107 *)
    match d with
    | Reached => a_node_update tb idx g                                 (* 108 *)
    | Enter next _ => a_get_mut_loop f tb next q g                      (* 109 *)
    | Missing => Ok tb                                                  (* 110 *)
    end
  end.

Definition a_get_mut (am : amap) (q : pfx) (g : V -> V) : res amap :=
  tb <- a_get_mut_loop (S (length (tbl am))) (tbl am) 0%N q g ;;        (* 105 *)
  Ok (mkamap tb (afree am) (acount am)).

(* ------------------------------------------------------------------------------------------ *)
(** * [TrieViewMut] at [ViewLoc::Node(idx)] (src/trieview/mod.rs)
    [left()] (880-903) / [right()] (938-961) from [view_mut()] = [Node(0)] (591) along a path;
    [None] = [Err(self)] (there is no child on that side). *)
Fixpoint a_vm_walk (tb : list anode) (idx : N) (pa : list bool) : res (option N) :=
  match pa with
  | [] => Ok (Some idx)
  | b :: pa' =>
    n <- rd tb idx ;;                                                   (* 887 / 945 *)
    match child_of n b with
    | Some c => a_vm_walk tb c pa'                                      (* 898-899 / 956-957 *)
    | None => Ok None                                                   (* 901 / 959 *)
    end
  end.

(** [set], 1373-1378, through [node_mut] (1201-1211: [Table::get_mut] checks the bound,
    inner.rs:141-156).  The map's counter is out of reach of a view. *)
Definition a_vm_set (am : amap) (idx : N) (x : V) : res (amap * option V) :=
  n <- rd (tbl am) idx ;;                                               (* 1374: node_mut *)
  tb <- wr (tbl am) idx (mkanode (npfx n) (Some x) (nleft n) (nright n)) ;;  (* 1375: replace *)
  Ok (mkamap tb (afree am) (acount am), nval n).

(** [remove], 1322-1324 *)
Definition a_vm_remove (am : amap) (idx : N) : res (amap * option V) :=
  n <- rd (tbl am) idx ;;                                               (* 1323: node_mut *)
  tb <- wr (tbl am) idx (mkanode (npfx n) None (nleft n) (nright n)) ;; (* 1323: take *)
  Ok (mkamap tb (afree am) (acount am), nval n).

(** [value_mut] (1230-1232) / [prefix_value_mut] (1281-1283) followed by a write *)
Definition a_vm_value_mut (am : amap) (idx : N) (g : V -> V) : res (amap * option (pfx * V)) :=
  n <- rd (tbl am) idx ;;                                               (* 1231 / 1282: node_mut *)
  tb <- wr (tbl am) idx (mkanode (npfx n) (option_map g (nval n)) (nleft n) (nright n)) ;;
  Ok (mkamap tb (afree am) (acount am), prefix_value n).

(* ------------------------------------------------------------------------------------------ *)
(** * Histories over the extended alphabet *)
Inductive aop2 :=
| AOld (o : aop pfx V)                                    (* insert / remove / remove_keep_tree *)
| AClear
| ARemChildren (q : pfx)
| ARetain (f : nat -> pfx -> V -> option bool)
| AEntryIns (q : pfx) (x : V)                             (* map.entry(q).insert(x) *)
| AEntryRem (q : pfx)                                     (* occupied: e.remove() *)
| AEntryMod (q : pfx) (g : V -> V)                        (* map.entry(q).and_modify(g) *)
| AGetMut (q : pfx) (g : V -> V)                          (* map.get_mut(q), then a write through the reference *)
| AVmSet (pa : list bool) (x : V)                         (* view_mut().left()/right()...set(x) *)
| AVmRem (pa : list bool)
| AVmMut (pa : list bool) (g : V -> V).

Definition a_step2 (o : aop2) (am : amap) : res amap :=
  match o with
  | AOld o => a_step pfx V peq contains is_bit_set plen lcp o am
  | AClear => Ok (a_clear am)
  | ARemChildren q => a_remove_children am q
  | ARetain f => '(am', _, _) <- a_retain f am ;; Ok am'
  | AEntryIns q x => '(am', _) <- a_entry_insert am q x ;; Ok am'
  | AEntryRem q => '(am', _) <- a_entry_remove am q ;; Ok am'
  | AEntryMod q g => a_entry_and_modify am q g
  | AGetMut q g => a_get_mut am q g
  | AVmSet pa x =>
    o <- a_vm_walk (tbl am) 0%N pa ;;
    match o with Some idx => '(am', _) <- a_vm_set am idx x ;; Ok am' | None => Ok am end
  | AVmRem pa =>
    o <- a_vm_walk (tbl am) 0%N pa ;;
    match o with Some idx => '(am', _) <- a_vm_remove am idx ;; Ok am' | None => Ok am end
  | AVmMut pa g =>
    o <- a_vm_walk (tbl am) 0%N pa ;;
    match o with Some idx => '(am', _) <- a_vm_value_mut am idx g ;; Ok am' | None => Ok am end
  end.

Fixpoint a_run2_from (ops : list aop2) (am : amap) : res amap :=
  match ops with
  | [] => Ok am
  | o :: ops' => am' <- a_step2 o am ;; a_run2_from ops' am'
  end.
Definition a_run2 (ops : list aop2) : res amap := a_run2_from ops (a_empty pfx V pzero).

(** the tree side *)
Notation pmap := (Trie.pmap pfx V).
Notation t_get := (Trie.get pfx V peq contains is_bit_set plen).

Definition t_entry_insert (m : pmap) (q : pfx) (x : V) : pmap * option V :=
  match t_get (root m) q with
  | None => (Trie.vacant_insert pfx V peq contains is_bit_set plen lcp m q x, None)
  | Some _ => Trie.occ_insert pfx V peq contains is_bit_set plen m q x
  end.

Definition t_entry_remove (m : pmap) (q : pfx) : pmap * option V :=
  match t_get (root m) q with
  | None => (m, None)
  | Some _ => Trie.occ_remove pfx V peq contains is_bit_set plen m q
  end.

(** a view operation applies when the path designates a node; the allocator is not touched *)
Definition t_vm (m : pmap) (pa : list bool) (op : Trie.tree pfx V -> Trie.tree pfx V) : pmap :=
  if is_node (subtree (root m) pa) then mkmap (op (root m)) (al m) else m.

Definition t_step2 (o : aop2) (m : pmap) : pmap :=
  match o with
  | AOld o => t_step pfx V peq contains is_bit_set plen lcp o m
  | AClear => Trie.clear pfx V pzero m
  | ARemChildren q => Trie.remove_children pfx V peq contains is_bit_set plen pzero m q
  | ARetain f => fst (fst (Trie.retain pfx V f m))
  | AEntryIns q x => fst (t_entry_insert m q x)
  | AEntryRem q => fst (t_entry_remove m q)
  | AEntryMod q g => Trie.update_value pfx V peq contains is_bit_set plen m q g
  | AGetMut q g => Trie.update_value pfx V peq contains is_bit_set plen m q g
  | AVmSet pa x => t_vm m pa (fun T => fst (vm_set T (mkvmut pfx pa None) x))
  | AVmRem pa => t_vm m pa (fun T => fst (vm_remove T (mkvmut pfx pa None)))
  | AVmMut pa g => t_vm m pa (fun T => fst (vm_value_mut T (mkvmut pfx pa None) g))
  end.

Fixpoint t_run2_from (ops : list aop2) (m : pmap) : pmap :=
  match ops with [] => m | o :: ops' => t_run2_from ops' (t_step2 o m) end.
Definition t_run2 (ops : list aop2) : pmap := t_run2_from ops (Trie.empty pfx V pzero).

End A2.

Arguments AOcc {pfx}.
Arguments AVac {pfx}.
Arguments AOld {pfx V}.
Arguments AClear {pfx V}.
Arguments ARemChildren {pfx V}.
Arguments ARetain {pfx V}.
Arguments AEntryIns {pfx V}.
Arguments AEntryRem {pfx V}.
Arguments AEntryMod {pfx V}.
Arguments AGetMut {pfx V}.
Arguments AVmSet {pfx V}.
Arguments AVmRem {pfx V}.
Arguments AVmMut {pfx V}.

(* ------------------------------------------------------------------------------------------ *)
(** * Tests on the 8-bit instance: the arena run against the tree model *)
From PT Require Import PrefixN.

Module Arena2Test.
Import ArenaTest.
Open Scope N_scope.

Definition arun2 := a_run2 P N PEQ CON BIT LEN LCP ZERO.
Definition trun2 := t_run2 P N PEQ CON BIT LEN LCP ZERO.
Definition I (q : P) (x : N) : aop2 P N := AOld (AIns q x).
Definition R (q : P) : aop2 P N := AOld (ARem q).
Definition K (q : P) : aop2 P N := AOld (ARemKeep q).
Definition am_of (r : res (amap P N)) : amap P N := match r with Ok am => am | _ => a_empty P N ZERO end.
Definition shape (r : res (amap P N)) :=
  option_map (fun m => (root m, free (al m), alen (al m), count (al m))) (snap r).
Definition keep_even : nat -> P -> N -> option bool := fun _ _ x => Some (N.even x).
(** keeps even values, panics on its [k]-th invocation *)
Definition panic_at (k : nat) : nat -> P -> N -> option bool :=
  fun n _ x => if Nat.eqb n k then None else Some (N.even x).

(** ** [retain], the [idx_removed] path.
    root(0) -> 1/1 (branch, slot 4) -> { 10/2 (branch, slot 2) -> { 100/3 (slot 1), 101/3 (slot 3) },
                                          11/2 (slot 5) }.
    Removing 100/3 collapses the branch 10/2 ([_remove_node] returns [true], 101/3 takes its
    place); 101/3 is then processed at that position with the parent context of 10/2: its removal
    collapses the branch 1/1 ([true] again: [idx_removed] in the frame of 1/1), and 11/2 is
    processed at the position of 1/1, directly below the root.  Order of the [free.push]es:
    1, 2, 3, 4, 5 (each collapsed parent right after the leaf that caused it). *)
Definition hr : list (aop2 P N) := [I (p 128 3) 1; I (p 160 3) 3; I (p 192 2) 5].
Example hr_before :
  shape (arun2 hr)
  = Some (Node 0 ZERO None Leaf
            (Node 4 (p 128 1) None
               (Node 2 (p 128 2) None (Node 1 (p 128 3) (Some 1) Leaf Leaf) (Node 3 (p 160 3) (Some 3) Leaf Leaf))
               (Node 5 (p 192 2) (Some 5) Leaf Leaf)), [], 6, 3%Z).
Proof. vm_compute. reflexivity. Qed.
Example hr_retain_state : snap (arun2 (hr ++ [ARetain keep_even])) = Some (trun2 (hr ++ [ARetain keep_even])).
Proof. vm_compute. reflexivity. Qed.
Example hr_retain_shape :
  shape (arun2 (hr ++ [ARetain keep_even])) = Some (Node 0 ZERO None Leaf Leaf, [5; 4; 3; 2; 1], 6, 0%Z).
Proof. vm_compute. reflexivity. Qed.
(** the outputs: no panic, the closure's calls in call order *)
Example hr_retain_out :
  match a_retain P N keep_even (am_of (arun2 hr)) with
  | Ok (_, pk, calls) => Some (pk, calls)
  | _ => None
  end = Some (snd (fst (retain P N keep_even (trun2 hr))), snd (retain P N keep_even (trun2 hr))).
Proof. vm_compute. reflexivity. Qed.
(** the surviving sibling: 11/2 = 6 stays and ends up directly below the root *)
Definition hr' : list (aop2 P N) := [I (p 128 3) 1; I (p 160 3) 3; I (p 192 2) 6; ARetain keep_even].
Example hr'_state : snap (arun2 hr') = Some (trun2 hr').
Proof. vm_compute. reflexivity. Qed.
Example hr'_shape :
  shape (arun2 hr') = Some (Node 0 ZERO None Leaf (Node 5 (p 192 2) (Some 6) Leaf Leaf), [4; 3; 2; 1], 6, 1%Z).
Proof. vm_compute. reflexivity. Qed.
(** a closure that panics on its k-th call leaves the map as it is at that moment *)
Example hr_panic_states :
  map (fun k => snap (arun2 (hr ++ [ARetain (panic_at k)]))) [0; 1; 2; 3]%nat
  = map (fun k => Some (trun2 (hr ++ [ARetain (panic_at k)]))) [0; 1; 2; 3]%nat.
Proof. vm_compute. reflexivity. Qed.
Example hr_panic_out :
  match a_retain P N (panic_at 1) (am_of (arun2 hr)) with
  | Ok (_, pk, calls) => Some (pk, calls)
  | _ => None
  end = Some (true, [(p 128 3, 1)]).
Proof. vm_compute. reflexivity. Qed.
(** value-less leaves left behind by [remove_keep_tree] / a view's [remove], then [retain] *)
Definition hk : list (aop2 P N) :=
  [I (p 128 1) 2; I (p 128 3) 1; I (p 160 3) 3; I (p 192 2) 5; K (p 160 3); AVmRem [true; true];
   ARetain keep_even; I (p 64 2) 7; I (p 96 3) 8; ARetain (fun n _ _ => Some (Nat.even n))].
Example hk_state : snap (arun2 hk) = Some (trun2 hk).
Proof. vm_compute. reflexivity. Qed.

(** ** [remove_children].  The selector is a node: the subtree of 1/1 is released in the order
    node (1), right subtree (3), left subtree (2, then its right 5, then its left 4). *)
Definition hc : list (aop2 P N) := [I (p 128 1) 1; I (p 128 2) 2; I (p 192 2) 3; I (p 128 3) 4; I (p 160 3) 5].
Example hc_node_state : snap (arun2 (hc ++ [ARemChildren (p 128 1)])) = Some (trun2 (hc ++ [ARemChildren (p 128 1)])).
Proof. vm_compute. reflexivity. Qed.
Example hc_node_shape :
  shape (arun2 (hc ++ [ARemChildren (p 128 1)])) = Some (Node 0 ZERO None Leaf Leaf, [4; 5; 2; 3; 1], 6, 0%Z).
Proof. vm_compute. reflexivity. Qed.
(** the selector lies on the edge root -> 10/2 ([NewChild]) *)
Definition he : list (aop2 P N) := [I (p 64 2) 9; I (p 128 2) 2; I (p 128 3) 4; I (p 160 3) 5; ARemChildren (p 128 1)].
Example he_state : snap (arun2 he) = Some (trun2 he).
Proof. vm_compute. reflexivity. Qed.
Example he_shape :
  shape (arun2 he) = Some (Node 0 ZERO None (Node 1 (p 64 2) (Some 9) Leaf Leaf) Leaf, [3; 4; 2], 5, 1%Z).
Proof. vm_compute. reflexivity. Qed.
(** nothing below the selector ([NewLeaf], [NewBranch]); a deeper selector; the zero-length selector *)
Example hc_others :
  map (fun q => snap (arun2 (hc ++ [ARemChildren q])))
      [p 0 1; p 160 4; p 224 3; p 128 2; p 160 3; p 0 0; p 77 0]
  = map (fun q => Some (trun2 (hc ++ [ARemChildren q])))
      [p 0 1; p 160 4; p 224 3; p 128 2; p 160 3; p 0 0; p 77 0].
Proof. vm_compute. reflexivity. Qed.

(** why [Arena2Thm.remove_children_sim] carries the guard "a selector of non-zero length is not
    [peq] to the root's key": the Rust loop tests [Reached] at the root too and would then release
    the root's left subtree ([parent = 0], [parent_right = false]) or [unwrap] a [None]; the tree
    model ([Trie.rc]) leaves that case alone because no lawful [Prefix::eq] gets there.  With an
    unlawful [eq] (constantly true) the two differ: *)
Example unlawful_eq_remove_children :
  a_remove_children P N (fun _ _ => true) CON BIT LEN LCP ZERO (a_empty P N ZERO) (p 128 1) = Panic /\
  remove_children P N (fun _ _ => true) CON BIT LEN ZERO (Trie.empty P N ZERO) (p 128 1) = Trie.empty P N ZERO.
Proof. vm_compute. split; reflexivity. Qed.

(** ** [clear]: the table is reset to the root, the free list is emptied; the next insertions
    take the slots 1, 2, ... again *)
Definition hx : list (aop2 P N) :=
  hc ++ [R (p 128 3); AClear; I (p 160 3) 7; I (p 128 3) 8; R (p 160 3); I (p 0 1) 9].
Example hx_state : snap (arun2 hx) = Some (trun2 hx).
Proof. vm_compute. reflexivity. Qed.
Example hx_after_clear :
  shape (arun2 (hc ++ [R (p 128 3); AClear])) = Some (Node 0 ZERO None Leaf Leaf, [], 1, 0%Z).
Proof. vm_compute. reflexivity. Qed.
Example hx_reuse :
  shape (arun2 (hc ++ [R (p 128 3); AClear; I (p 160 3) 7; I (p 128 3) 8]))
  = Some (Node 0 ZERO None Leaf
            (Node 2 (p 128 2) None (Node 3 (p 128 3) (Some 8) Leaf Leaf) (Node 1 (p 160 3) (Some 7) Leaf Leaf)),
          [], 4, 2%Z).
Proof. vm_compute. reflexivity. Qed.

(** ** Entry API and views *)
Definition hn : list (aop2 P N) :=
  [AEntryIns (p 128 2) 1; AEntryIns (p 192 2) 2; AEntryIns (p 128 2) 3; AEntryIns (p 128 1) 4;
   AEntryIns (p 0 0) 5; AEntryMod (p 192 2) N.succ; AEntryMod (p 64 2) N.succ; AGetMut (p 128 1) N.double;
   AEntryRem (p 128 1); AEntryRem (p 128 1); AEntryIns (p 128 1) 6; AEntryIns (p 130 8) 7;
   AVmSet [true] 10; AVmRem [true; false]; AVmMut [true; true] N.succ; AVmSet [false] 11;
   AVmSet [true; false; true; true] 12; AEntryIns (p 128 2) 13; ARetain keep_even; AEntryIns (p 129 8) 14].
Example hn_state : snap (arun2 hn) = Some (trun2 hn).
Proof. vm_compute. reflexivity. Qed.
Example hn_entries :
  aentries (arun2 hn) = Ok (entries (root (trun2 hn))).
Proof. vm_compute. reflexivity. Qed.
(** the outputs of the entry operations *)
Example entry_outs :
  let am := am_of (arun2 [I (p 128 2) 1; I (p 192 2) 2]) in
  let m := trun2 [I (p 128 2) 1; I (p 192 2) 2] in
  map (fun q => match a_entry_insert P N PEQ CON BIT LEN LCP am q 9 with Ok (_, o) => Some o | _ => None end)
      [p 128 2; p 128 1; p 0 0]
  = map (fun q => Some (snd (t_entry_insert P N PEQ CON BIT LEN LCP m q 9))) [p 128 2; p 128 1; p 0 0] /\
  map (fun q => match a_entry_remove P N PEQ CON BIT LEN LCP am q with Ok (_, o) => Some o | _ => None end)
      [p 128 2; p 128 1; p 0 0]
  = map (fun q => Some (snd (t_entry_remove P N PEQ CON BIT LEN m q))) [p 128 2; p 128 1; p 0 0].
Proof. vm_compute. split; reflexivity. Qed.
(** an occupied handle whose value was taken out: [insert] / [remove] / [get_mut] on it [unwrap]
    a [None] (the branch 1/1 of [hr] is value-less from the start) *)
Example occupied_reuse_panics :
  let am := am_of (arun2 hr) in
  (match a_occ_insert P N am 4 (p 128 1) 9 with Panic => true | _ => false end,
   match a_occ_remove P N am 4 with Panic => true | _ => false end,
   match a_occ_update P N am 4 N.succ with Panic => true | _ => false end) = (true, true, true).
Proof. vm_compute. reflexivity. Qed.
(** the counter is out of reach of a view: [set] on a value-less node creates an entry, [remove]
    deletes one, and [len()] does not move (known finding, as in the tree model) *)
Example view_counter_drift :
  option_map (fun m => (count (al m), length (entries (root m)))) (snap (arun2 (hr ++ [AVmSet [true] 8; AVmSet [] 9])))
  = Some (3%Z, 5%nat).
Proof. vm_compute. reflexivity. Qed.

(** every prefix of a long mixed history agrees *)
Definition hall : list (aop2 P N) :=
  hr ++ [ARetain (panic_at 2)] ++ hc ++ [ARemChildren (p 128 2)] ++ hn ++ [ARemChildren (p 128 1); AClear] ++ hk.
Example all_prefixes2_state :
  map (fun h => snap (arun2 h)) (prefixes hall) = map (fun h => Some (trun2 h)) (prefixes hall).
Proof. vm_compute. reflexivity. Qed.
Example all_prefixes2_entries :
  map (fun h => aentries (arun2 h)) (prefixes hall)
  = map (fun h => Ok (entries (root (trun2 h)))) (prefixes hall).
Proof. vm_compute. reflexivity. Qed.

(** corrupted arenas: a link cycle makes the recursion of [_retain] and the descent of
    [remove_children] run out of fuel; a dangling link panics; [_do_remove_children] on a missing
    child [unwrap]s a [None] *)
Definition cyc : amap P N := mkamap [mkanode ZERO None (Some 1) None; mkanode ZERO None (Some 0) None] [] 0.
Example cycle_retain : a_retain P N keep_even cyc = OutOfFuel.
Proof. vm_compute. reflexivity. Qed.
Example cycle_remove_children : a_remove_children P N PEQ CON BIT LEN LCP ZERO cyc (p 1 8) = OutOfFuel.
Proof. vm_compute. reflexivity. Qed.
(** the freeing loop takes the links out of every node it visits, so even on a cycle it stops
    (here it releases the root slot as well) *)
Example cycle_free_loop :
  option_map (fun am => afree am) (match a_do_remove_children P N 5 cyc 0 false with Ok am => Some am | _ => None end)
  = Some [0; 1].
Proof. vm_compute. reflexivity. Qed.
Example dangling_retain : a_retain P N keep_even (mkamap [mkanode ZERO None (Some 7) None] [] 0) = Panic.
Proof. vm_compute. reflexivity. Qed.
Example missing_child_unwrap : a_do_remove_children P N 5 (a_empty P N ZERO) 0 false = Panic.
Proof. vm_compute. reflexivity. Qed.
End Arena2Test.
