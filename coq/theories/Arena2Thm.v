(** The arena transcriptions of [Arena2.v] refine the tree model of [Trie.v] / [Views.v]:
    on every arena that represents a tree ([ArenaThm.Rep]) under [Slots.minv], each operation
    returns [Ok] -- never [Panic], never [OutOfFuel] -- with the outputs of the tree operation,
    and its result represents the result of the tree operation. *)
From Coq Require Import List NArith ZArith Bool Arith Lia ZifyN ZifyBool ZifyNat Permutation.
From PT Require Import Machine Trie Views Slots Arena ArenaThm Arena2.
Import ListNotations.

Section A2T.
Variables (pfx V : Type).
Variables (peq contains : pfx -> pfx -> bool) (is_bit_set : pfx -> N -> bool)
          (plen : pfx -> N) (lcp : pfx -> pfx -> pfx) (pzero : pfx).

Notation tree := (Trie.tree pfx V).
Notation pmap := (Trie.pmap pfx V).
Notation anode := (Arena.anode pfx V).
Notation amap := (Arena.amap pfx V).
Notation to_right := (Trie.to_right pfx is_bit_set plen).
Notation with_child := (Trie.with_child pfx V).
Notation tpfx := (Trie.tpfx pfx V pzero).
Notation get := (Trie.get pfx V peq contains is_bit_set plen).
Notation get_node := (Trie.get_node pfx V peq contains is_bit_set plen).
Notation ins := (Trie.ins pfx V peq contains is_bit_set plen lcp).
Notation vins := (Trie.vins pfx V peq contains is_bit_set plen lcp).
Notation insert := (Trie.insert pfx V peq contains is_bit_set plen lcp).
Notation modify := (Trie.modify pfx V peq contains is_bit_set plen).
Notation remove_self := (Trie.remove_self pfx V).
Notation absorb := (Trie.absorb pfx V).
Notation free_all := (Trie.free_all pfx V).
Notation rc := (Trie.rc pfx V peq contains is_bit_set plen).
Notation ret := (Trie.ret pfx V).
Notation empty := (Trie.empty pfx V pzero).
Notation clear := (Trie.clear pfx V pzero).
Notation remove_children := (Trie.remove_children pfx V peq contains is_bit_set plen pzero).
Notation retain := (Trie.retain pfx V).
Notation vacant_insert := (Trie.vacant_insert pfx V peq contains is_bit_set plen lcp).
Notation occ_insert := (Trie.occ_insert pfx V peq contains is_bit_set plen).
Notation occ_remove := (Trie.occ_remove pfx V peq contains is_bit_set plen).
Notation update_value := (Trie.update_value pfx V peq contains is_bit_set plen).

Notation rd := (Arena.rd pfx V).
Notation wr := (Arena.wr pfx V).
Notation child_of := (Arena.child_of pfx V).
Notation with_link := (Arena.with_link pfx V).
Notation get_child := (Arena.get_child pfx V).
Notation set_child := (Arena.set_child pfx V).
Notation clear_child := (Arena.clear_child pfx V).
Notation a_direction := (Arena.a_direction pfx V peq contains is_bit_set plen).
Notation a_direction_ins := (Arena.a_direction_ins pfx V peq contains is_bit_set plen lcp).
Notation a_new_node := (Arena.a_new_node pfx V).
Notation a_insert_loop := (Arena.a_insert_loop pfx V peq contains is_bit_set plen lcp).
Notation a_remove_node := (Arena.a_remove_node pfx V).
Notation a_empty := (Arena.a_empty pfx V pzero).

Notation a_clear := (Arena2.a_clear pfx V pzero).
Notation a_free_loop := (Arena2.a_free_loop pfx V).
Notation a_do_remove_children := (Arena2.a_do_remove_children pfx V).
Notation a_rc_loop := (Arena2.a_rc_loop pfx V peq contains is_bit_set plen lcp).
Notation a_remove_children_fuel := (Arena2.a_remove_children_fuel pfx V peq contains is_bit_set plen lcp pzero).
Notation a_remove_children := (Arena2.a_remove_children pfx V peq contains is_bit_set plen lcp pzero).
Notation a_retain_rec := (Arena2.a_retain_rec pfx V).
Notation a_retain_fuel := (Arena2.a_retain_fuel pfx V).
Notation a_retain := (Arena2.a_retain pfx V).
Notation a_entry_loop := (Arena2.a_entry_loop pfx V peq contains is_bit_set plen lcp).
Notation a_entry := (Arena2.a_entry pfx V peq contains is_bit_set plen lcp).
Notation a_vacant_insert := (Arena2.a_vacant_insert pfx V).
Notation a_occ_insert := (Arena2.a_occ_insert pfx V).
Notation a_occ_remove := (Arena2.a_occ_remove pfx V).
Notation a_occ_update := (Arena2.a_occ_update pfx V).
Notation a_node_update := (Arena2.a_node_update pfx V).
Notation a_entry_insert := (Arena2.a_entry_insert pfx V peq contains is_bit_set plen lcp).
Notation a_entry_remove := (Arena2.a_entry_remove pfx V peq contains is_bit_set plen lcp).
Notation a_entry_and_modify := (Arena2.a_entry_and_modify pfx V peq contains is_bit_set plen lcp).
Notation a_get_mut_loop := (Arena2.a_get_mut_loop pfx V peq contains is_bit_set plen).
Notation a_get_mut := (Arena2.a_get_mut pfx V peq contains is_bit_set plen).
Notation a_vm_walk := (Arena2.a_vm_walk pfx V).
Notation a_vm_set := (Arena2.a_vm_set pfx V).
Notation a_vm_remove := (Arena2.a_vm_remove pfx V).
Notation a_vm_value_mut := (Arena2.a_vm_value_mut pfx V).

(** the lemmas of [ArenaThm.v] and [Slots.v], applied to the section variables *)
Notation slot := (ArenaThm.slot pfx V).
Notation slot_upd_eq := (ArenaThm.slot_upd_eq pfx V).
Notation slot_upd_neq := (ArenaThm.slot_upd_neq pfx V peq contains is_bit_set plen lcp pzero).
Notation slot_lt := (ArenaThm.slot_lt pfx V peq contains is_bit_set plen lcp pzero).
Notation slot_some_lt := (ArenaThm.slot_some_lt pfx V peq contains is_bit_set plen lcp pzero).
Notation slot_app_old := (ArenaThm.slot_app_old pfx V peq contains is_bit_set plen lcp pzero).
Notation slot_app_new := (ArenaThm.slot_app_new pfx V peq contains is_bit_set plen lcp pzero).
Notation rd_ok := (ArenaThm.rd_ok pfx V).
Notation wr_ok := (ArenaThm.wr_ok pfx V).
Notation get_child_ok := (ArenaThm.get_child_ok pfx V).
Notation set_child_ok := (ArenaThm.set_child_ok pfx V).
Notation clear_child_ok := (ArenaThm.clear_child_ok pfx V).
Notation child_with_link_same := (ArenaThm.child_with_link_same pfx V).
Notation child_with_link_other := (ArenaThm.child_with_link_other pfx V).
Notation npfx_with_link := (ArenaThm.npfx_with_link pfx V).
Notation nval_with_link := (ArenaThm.nval_with_link pfx V).
Notation with_link_id := (ArenaThm.with_link_id pfx V).
Notation rep := (ArenaThm.rep pfx V).
Notation link := (ArenaThm.link pfx V).
Notation Rep := (ArenaThm.Rep pfx V).
Notation rep_link := (ArenaThm.rep_link pfx V).
Notation rep_node_inv := (ArenaThm.rep_node_inv pfx V).
Notation rep_some_inv := (ArenaThm.rep_some_inv pfx V).
Notation rep_node_intro := (ArenaThm.rep_node_intro pfx V).
Notation rep_leaf_link := (ArenaThm.rep_leaf_link pfx V).
Notation csel := (ArenaThm.csel pfx V).
Notation ssel := (ArenaThm.ssel pfx V).
Notation rep_node_rt := (ArenaThm.rep_node_rt pfx V).
Notation rep_with_child := (ArenaThm.rep_with_child pfx V).
Notation rep_ext := (ArenaThm.rep_ext pfx V).
Notation rep_upd := (ArenaThm.rep_upd pfx V peq contains is_bit_set plen lcp pzero).
Notation rep_bounds := (ArenaThm.rep_bounds pfx V peq contains is_bit_set plen lcp pzero).
Notation rep_app := (ArenaThm.rep_app pfx V peq contains is_bit_set plen lcp pzero).
Notation height := (ArenaThm.height pfx V).
Notation height_le_ids := (ArenaThm.height_le_ids pfx V peq contains is_bit_set plen lcp pzero).
Notation height_csel := (ArenaThm.height_csel pfx V peq contains is_bit_set plen lcp).
Notation tsize_ids := (ArenaThm.tsize_ids pfx V peq contains is_bit_set plen lcp).
Notation in_seqN' := (ArenaThm.in_seqN' pfx peq contains is_bit_set plen lcp pzero).
Notation minv_nodup_all := (ArenaThm.minv_nodup_all pfx V).
Notation minv_range_all := (ArenaThm.minv_range_all pfx V peq contains is_bit_set plen lcp pzero).
Notation minv_size := (ArenaThm.minv_size pfx V peq contains is_bit_set plen lcp pzero).
Notation ids_node_rt := (ArenaThm.ids_node_rt pfx V peq contains is_bit_set plen lcp pzero).
Notation nodup_node_rt := (ArenaThm.nodup_node_rt pfx V).
Notation dir_of := (ArenaThm.dir_of pfx V peq contains is_bit_set plen).
Notation direction_sim := (ArenaThm.direction_sim pfx V peq contains is_bit_set plen).
Notation dir_ins_of := (ArenaThm.dir_ins_of pfx V peq contains is_bit_set plen lcp).
Notation direction_ins_sim := (ArenaThm.direction_ins_sim pfx V peq contains is_bit_set plen lcp).
Notation Rep_height := (ArenaThm.Rep_height pfx V peq contains is_bit_set plen lcp pzero).
Notation insert_fuel_bound := (ArenaThm.insert_fuel_bound pfx V peq contains is_bit_set plen lcp pzero).
Notation insert_sim := (ArenaThm.insert_sim pfx V peq contains is_bit_set plen lcp pzero).
Notation ins_sim := (ArenaThm.ins_sim pfx V peq contains is_bit_set plen lcp pzero).
Notation rkt_loop_sim := (ArenaThm.rkt_loop_sim pfx V peq contains is_bit_set plen lcp pzero).
Notation remove_node_child := (ArenaThm.remove_node_child pfx V peq contains is_bit_set plen lcp pzero).
Notation remove_node_root := (ArenaThm.remove_node_root pfx V peq contains is_bit_set plen lcp pzero).
Notation grp_ok := (ArenaThm.grp_ok pfx V).
Notation rem_post := (ArenaThm.rem_post pfx V).
Notation post_keep_root := (ArenaThm.post_keep_root pfx V).
Notation rem_post_refl := (ArenaThm.rem_post_refl pfx V).
Notation dec_count_eq := (ArenaThm.dec_count_eq V).
Notation link_with_child := (ArenaThm.link_with_child pfx V).
Notation with_child_csel := (ArenaThm.with_child_csel pfx V).
Notation Rep_empty := (ArenaThm.Rep_empty pfx V pzero).
Notation step_sim := (ArenaThm.step_sim pfx V peq contains is_bit_set plen lcp pzero).
Notation live_iff_ids := (ArenaThm.live_iff_ids pfx V peq contains is_bit_set plen lcp pzero).
Notation live := (ArenaThm.live pfx V).
Notation edge := (ArenaThm.edge pfx V).
Notation live_in_bounds := (ArenaThm.live_in_bounds pfx V peq contains is_bit_set plen lcp pzero).
Notation links_in_bounds := (ArenaThm.links_in_bounds pfx V peq contains is_bit_set plen lcp pzero).
Notation live_not_free := (ArenaThm.live_not_free pfx V peq contains is_bit_set plen lcp pzero).
Notation no_double_link := (ArenaThm.no_double_link pfx V peq contains is_bit_set plen lcp pzero).
Notation root_not_linked := (ArenaThm.root_not_linked pfx V peq contains is_bit_set plen lcp pzero).
Notation slots_partition := (ArenaThm.slots_partition pfx V peq contains is_bit_set plen lcp pzero).
Notation link_some_in := (ArenaThm.link_some_in pfx V).
Notation t_step_minv := (ArenaThm.t_step_minv pfx V peq contains is_bit_set plen lcp pzero).
Notation get_sim := (ArenaThm.get_sim pfx V peq contains is_bit_set plen lcp pzero).
Notation get_lpm_sim := (ArenaThm.get_lpm_sim pfx V peq contains is_bit_set plen lcp pzero).
Notation entries_sim := (ArenaThm.entries_sim pfx V peq contains is_bit_set plen lcp pzero).
Notation remove_sim := (ArenaThm.remove_sim pfx V peq contains is_bit_set plen lcp pzero).
Notation remove_keep_tree_sim := (ArenaThm.remove_keep_tree_sim pfx V peq contains is_bit_set plen lcp pzero).
Notation get_fuel_bound := (ArenaThm.get_fuel_bound pfx V peq contains is_bit_set plen lcp pzero).
Notation get_lpm_fuel_bound := (ArenaThm.get_lpm_fuel_bound pfx V peq contains is_bit_set plen lcp pzero).
Notation entries_fuel_bound := (ArenaThm.entries_fuel_bound pfx V peq contains is_bit_set plen lcp pzero).
Notation remove_fuel_bound := (ArenaThm.remove_fuel_bound pfx V peq contains is_bit_set plen lcp pzero).
Notation remove_keep_tree_fuel_bound := (ArenaThm.remove_keep_tree_fuel_bound pfx V peq contains is_bit_set plen lcp pzero).
Notation finish := (ArenaThm.finish pfx V).
Notation new_node_sim := (ArenaThm.new_node_sim pfx V peq contains is_bit_set plen lcp pzero).
Notation fresh_not_in := (ArenaThm.fresh_not_in pfx V peq contains is_bit_set plen lcp pzero).
Notation get_loop_sim := (ArenaThm.get_loop_sim pfx V peq contains is_bit_set plen lcp).
Notation iter_sim := (ArenaThm.iter_sim pfx V peq contains is_bit_set plen lcp pzero).
Notation ids := (Slots.ids pfx V).
Notation slots_ok := (Slots.slots_ok pfx V).
Notation minv := (Slots.minv pfx V).
Notation cinv := (Slots.cinv pfx V).
Notation nentries := (Slots.nentries pfx V).
Notation slots_nodup := (Slots.slots_nodup pfx V peq contains is_bit_set plen lcp pzero).
Notation slots_free_nodup := (Slots.slots_free_nodup pfx V peq contains is_bit_set plen lcp pzero).
Notation slots_disjoint := (Slots.slots_disjoint pfx V peq contains is_bit_set plen lcp pzero).
Notation slots_range := (Slots.slots_range pfx V peq contains is_bit_set plen lcp pzero).
Notation modify_ids := (Slots.modify_ids pfx V peq contains is_bit_set plen).
Notation subst_ids := (Slots.subst_ids pfx V).
Notation set_tval_ids := (Slots.set_tval_ids pfx V).
Notation slots_ok_ext := (Slots.slots_ok_ext pfx V).
Notation rc_slots_ok := (Slots.rc_slots_ok pfx V peq contains is_bit_set plen lcp pzero).
Notation ret_slots_ok := (Slots.ret_slots_ok pfx V peq contains is_bit_set plen lcp pzero).
Notation free_all_storage := (Slots.free_all_storage pfx V peq contains is_bit_set plen lcp pzero).
Notation clear_minv := (Slots.clear_minv pfx V pzero).
Notation remove_children_minv := (Slots.remove_children_minv pfx V peq contains is_bit_set plen lcp pzero).
Notation retain_minv := (Slots.retain_minv pfx V peq contains is_bit_set plen lcp pzero).
Notation vacant_insert_minv := (Slots.vacant_insert_minv pfx V peq contains is_bit_set plen lcp pzero).
Notation occ_insert_minv := (Slots.occ_insert_minv pfx V peq contains is_bit_set plen).
Notation occ_remove_minv := (Slots.occ_remove_minv pfx V peq contains is_bit_set plen).
Notation update_value_minv := (Slots.update_value_minv pfx V peq contains is_bit_set plen).
Notation minv_empty := (Slots.minv_empty pfx V pzero).
Notation insert_minv := (Slots.insert_minv pfx V peq contains is_bit_set plen lcp pzero).
Notation get_node_get := (Slots.get_node_get pfx V peq contains is_bit_set plen).
Notation rc_acct := (Slots.rc_acct pfx V peq contains is_bit_set plen lcp pzero).
Notation ret_acct := (Slots.ret_acct pfx V peq contains is_bit_set plen lcp pzero).
Notation free_all_acct := (Slots.free_all_acct pfx V peq contains is_bit_set plen lcp pzero).
Notation shrinks := (Slots.shrinks pfx V).
Notation shrinks_slots := (Slots.shrinks_slots pfx V).
Notation remove_self_acct := (Slots.remove_self_acct pfx V peq contains is_bit_set plen lcp pzero).
Notation vins_slots_ok := (Slots.vins_slots_ok pfx V peq contains is_bit_set plen lcp pzero).
Notation ins_slots_ok := (Slots.ins_slots_ok pfx V peq contains is_bit_set plen lcp pzero).
Notation rem_slots_ok := (Slots.rem_slots_ok pfx V peq contains is_bit_set plen lcp pzero).
Notation remove_keep_tree_minv := (Slots.remove_keep_tree_minv pfx V peq contains is_bit_set plen).
Notation slots_len := (Slots.slots_len pfx V).

(* ------------------------------------------------------------------------------------------ *)
(** * Small facts *)

Definition wl (rt : bool) (l x : tree) : tree := if rt then l else x.
Definition wr_ (rt : bool) (r x : tree) : tree := if rt then x else r.

Lemma with_child_node i p v l r rt x : with_child i p v l r rt x = Node i p v (wl rt l x) (wr_ rt r x).
Proof. destruct rt; reflexivity. Qed.
Lemma csel_w rt l r x : csel rt (wl rt l x) (wr_ rt r x) = x.
Proof. destruct rt; reflexivity. Qed.
Lemma ssel_w rt l r x : ssel rt (wl rt l x) (wr_ rt r x) = ssel rt l r.
Proof. destruct rt; reflexivity. Qed.
Lemma with_child_w i p v l r rt x y :
  with_child i p v (wl rt l x) (wr_ rt r x) rt y = with_child i p v l r rt y.
Proof. destruct rt; reflexivity. Qed.

Lemma with_link_twice (n : anode) rt o1 o2 : with_link (with_link n rt o1) rt o2 = with_link n rt o2.
Proof. destruct n, rt; reflexivity. Qed.

Lemma is_node_link (t : tree) : is_some (link t) = is_node t.
Proof. destruct t; reflexivity. Qed.

Lemma ids_wc i p v l r rt x j :
  In j (ids (with_child i p v l r rt x)) <-> j = i \/ In j (ids x) \/ In j (ids (ssel rt l r)).
Proof.
  rewrite with_child_node. rewrite (ids_node_rt i p v _ _ rt). rewrite csel_w, ssel_w. tauto.
Qed.

(** [t'] is made of slots of [t], each at most once if so in [t] *)
Definition sub (t' t : tree) : Prop :=
  incl (ids t') (ids t) /\ (NoDup (ids t) -> NoDup (ids t')).

Lemma sub_refl t : sub t t.
Proof. split; [apply incl_refl|auto]. Qed.
Lemma sub_trans t1 t2 t3 : sub t1 t2 -> sub t2 t3 -> sub t1 t3.
Proof. intros (A1 & A2) (B1 & B2). split; [eapply incl_tran; eauto|auto]. Qed.
Lemma sub_leaf t : sub Leaf t.
Proof. split; [intros j []|intros _; constructor]. Qed.

Lemma sub_wc i p v l r rt x : sub x (csel rt l r) -> sub (with_child i p v l r rt x) (Node i p v l r).
Proof.
  intros (A & B). split.
  - intros j Hj. apply ids_wc in Hj. apply (ids_node_rt i p v l r rt). destruct Hj as [Hj|[Hj|Hj]]; auto.
  - intros ND. destruct (nodup_node_rt i p v l r rt ND) as (NIc & NIs & NDc & NDs & Dcs).
    rewrite with_child_node. cbn [Slots.ids].
    assert (NDx : NoDup (ids x)) by auto.
    assert (NIx : ~ In i (ids x)) by (intros H; apply NIc; auto).
    assert (Dx : forall j, In j (ids x) -> ~ In j (ids (ssel rt l r))) by (intros j H; apply Dcs; auto).
    constructor.
    + rewrite in_app_iff. destruct rt; cbn [wl wr_ ArenaThm.ssel] in *; tauto.
    + destruct rt; cbn [wl wr_ ArenaThm.ssel] in *; apply NoDup_app_intro; auto.
      intros j Hl Hx. exact (Dx j Hx Hl).
Qed.

Lemma sub_csel i p v l r rt : sub (csel rt l r) (Node i p v l r).
Proof.
  split.
  - intros j Hj. apply (ids_node_rt i p v l r rt). auto.
  - intros ND. apply (nodup_node_rt i p v l r rt ND).
Qed.
Lemma sub_ssel i p v l r rt : sub (ssel rt l r) (Node i p v l r).
Proof.
  split.
  - intros j Hj. apply (ids_node_rt i p v l r rt). auto.
  - intros ND. apply (nodup_node_rt i p v l r rt ND).
Qed.

Lemma sub_node i p v v' l r l' r' : sub l' l -> sub r' r -> sub (Node i p v' l' r') (Node i p v l r).
Proof.
  intros Hl Hr.
  apply sub_trans with (Node i p v' l' r).
  - exact (sub_wc i p v' l' r true r' Hr).
  - pose proof (sub_wc i p v l r false l' Hl) as H. cbn in H.
    destruct H as (A & B). split; [exact A|exact B].
Qed.

(* ------------------------------------------------------------------------------------------ *)
(** * [clear] *)

Theorem clear_sim am m : Rep (a_clear am) (clear m).
Proof. exact Rep_empty. Qed.

(* ------------------------------------------------------------------------------------------ *)
(** * [_do_remove_children] *)

(** the allocator after the trees on the stack (top first) have been released *)
Definition fall (ts : list tree) (a : alloc) : alloc := fold_left (fun a t => free_all t a) ts a.

Lemma fall_alen ts : forall a, alen (fall ts a) = alen a.
Proof.
  induction ts as [|t ts IH]; intros a; cbn [fall fold_left]; [reflexivity|].
  fold (fall ts (free_all t a)). rewrite IH. apply (free_all_acct t a).
Qed.

Lemma free_loop_sim al : forall fuel tb fr cnt st ts,
  Forall2 (fun i t => rep tb (Some i) t) st ts ->
  NoDup (flat_map ids ts) ->
  (list_sum (map (@tsize pfx V) ts) < fuel)%nat ->
  exists tb', a_free_loop fuel (mkamap tb fr cnt) st
              = Ok (mkamap tb' (free (fall ts (mkalloc fr al cnt))) (count (fall ts (mkalloc fr al cnt)))) /\
    length tb' = length tb /\
    (forall j, ~ In j (flat_map ids ts) -> slot tb' j = slot tb j).
Proof.
  induction fuel as [|f IH]; intros tb fr cnt st ts F ND Hf; [lia|].
  destruct F as [|i t st' ts' R F'].
  - exists tb. cbn. auto.
  - destruct (rep_some_inv _ _ _ R) as (p & v & l & r & ->).
    apply rep_node_inv in R. destruct R as (_ & Hs & Rl & Rr).
    cbn [Arena2.a_free_loop tbl afree acount]. rewrite (rd_ok _ _ _ Hs). cbn [rbind nval nleft nright npfx].
    rewrite (wr_ok _ _ _ _ Hs). cbn [rbind].
    set (tb1 := upd tb (N.to_nat i) (mkanode p None None None)).
    cbn [flat_map Slots.ids app] in ND. inversion ND as [|? ? NIi ND']; subst.
    rewrite !in_app_iff in NIi.
    destruct (NoDup_app_inv _ _ ND') as (NDlr & NDts & Dlr_ts).
    destruct (NoDup_app_inv _ _ NDlr) as (NDl & NDr & Dlr).
    cbn [map tsize] in Hf. rewrite list_sum_cons in Hf.
    assert (F1 : Forall2 (fun i t => rep tb1 (Some i) t) st' ts').
    { clear - F' NIi peq contains is_bit_set plen lcp pzero.
      induction F' as [|j t st ts Rj F IHF]; constructor.
      - apply rep_upd; [exact Rj|]. cbn [flat_map] in NIi. rewrite in_app_iff in NIi. tauto.
      - apply IHF. cbn [flat_map] in NIi. rewrite in_app_iff in NIi. tauto. }
    assert (Rl1 : rep tb1 (link l) l) by (apply rep_upd; [exact Rl|tauto]).
    assert (Rr1 : rep tb1 (link r) r) by (apply rep_upd; [exact Rr|tauto]).
    set (a1 := push_free i (dec_if v (mkalloc fr al cnt))).
    assert (Ea : mkamap tb1 (i :: fr) (cnt - (if is_some v then 1 else 0))%Z
                 = mkamap tb1 (free a1) (count a1)).
    { unfold a1. destruct v; cbn [is_some is_none negb dec_if add_count push_free free count]; f_equal; lia. }
    rewrite Ea.
    assert (Ea1 : a1 = mkalloc (free a1) al (count a1)).
    { unfold a1. destruct v; reflexivity. }
    (* the continuation with the new stack [st2] for the trees [ts2] *)
    assert (G : forall st2 ts2, Forall2 (fun i t => rep tb1 (Some i) t) st2 ts2 ->
                fall ts2 a1 = fall (Node i p v l r :: ts') (mkalloc fr al cnt) ->
                NoDup (flat_map ids ts2) ->
                (forall j, In j (flat_map ids ts2) -> In j (ids l) \/ In j (ids r) \/ In j (flat_map ids ts')) ->
                (list_sum (map (@tsize pfx V) ts2) <= tsize l + tsize r + list_sum (map (@tsize pfx V) ts'))%nat ->
                exists tb', a_free_loop f (mkamap tb1 (free a1) (count a1)) st2
                  = Ok (mkamap tb' (free (fall (Node i p v l r :: ts') (mkalloc fr al cnt)))
                               (count (fall (Node i p v l r :: ts') (mkalloc fr al cnt)))) /\
                  length tb' = length tb /\
                  (forall j, ~ In j (flat_map ids (Node i p v l r :: ts')) -> slot tb' j = slot tb j)).
    { intros st2 ts2 F2 E2 ND2 I2 L2.
      destruct (IH tb1 (free a1) (count a1) st2 ts2 F2 ND2 ltac:(lia)) as (tb' & E & L' & Fr').
      rewrite <- Ea1, E2 in E. exists tb'. split; [exact E|]. split.
      - rewrite L'. apply upd_length.
      - intros j Hj. cbn [flat_map Slots.ids app In] in Hj. rewrite !in_app_iff in Hj.
        rewrite Fr'.
        + apply slot_upd_neq. intros ->. tauto.
        + intros H2. apply I2 in H2. tauto. }
    assert (EF : forall ts2, fall ts2 (free_all l (free_all r a1)) = fall (Node i p v l r :: ts2) (mkalloc fr al cnt)).
    { intros ts2. reflexivity. }
    assert (NDlts : forall j, In j (ids l) -> ~ In j (flat_map ids ts')).
    { intros j Hj. apply Dlr_ts. apply in_or_app. auto. }
    assert (NDrts : forall j, In j (ids r) -> ~ In j (flat_map ids ts')).
    { intros j Hj. apply Dlr_ts. apply in_or_app. auto. }
    destruct l as [|li lp lv ll lr], r as [|ri rp rv rl rr]; cbn [ArenaThm.link] in *.
    + apply (G st' ts'); auto; cbn [tsize]; lia.
    + apply (G (ri :: st') (Node ri rp rv rl rr :: ts')).
      * constructor; assumption.
      * reflexivity.
      * cbn [flat_map]. apply NoDup_app_intro; auto.
      * cbn [flat_map]. intros j Hj. apply in_app_or in Hj. tauto.
      * cbn [map tsize]. rewrite ?list_sum_cons. cbn [tsize]. lia.
    + apply (G (li :: st') (Node li lp lv ll lr :: ts')).
      * constructor; assumption.
      * reflexivity.
      * cbn [flat_map]. apply NoDup_app_intro; auto.
      * cbn [flat_map]. intros j Hj. apply in_app_or in Hj. tauto.
      * cbn [map tsize]. rewrite ?list_sum_cons. cbn [tsize]. lia.
    + apply (G (ri :: li :: st') (Node ri rp rv rl rr :: Node li lp lv ll lr :: ts')).
      * constructor; [assumption|]. constructor; assumption.
      * reflexivity.
      * cbn [flat_map]. apply NoDup_app_intro; [exact NDr| |].
        -- apply NoDup_app_intro; auto.
        -- intros j Hr Hx. apply in_app_or in Hx. destruct Hx as [Hx|Hx].
           ++ exact (Dlr j Hx Hr).
           ++ exact (NDrts j Hr Hx).
      * cbn [flat_map]. intros j Hj. apply in_app_or in Hj. destruct Hj as [Hj|Hj]; [tauto|].
        apply in_app_or in Hj. tauto.
      * cbn [map tsize]. rewrite ?list_sum_cons. cbn [tsize]. lia.
Qed.

(** [_do_remove_children] at the node [i], whose child on side [rt] is a node *)
Lemma do_remove_children_sim fuel tb fr al cnt i p v l r rt ci cp cv cl cr :
  csel rt l r = Node ci cp cv cl cr ->
  rep tb (Some i) (Node i p v l r) -> NoDup (ids (Node i p v l r)) ->
  (length (ids (Node ci cp cv cl cr)) < fuel)%nat ->
  let a' := free_all (Node ci cp cv cl cr) (mkalloc fr al cnt) in
  exists tb', a_do_remove_children fuel (mkamap tb fr cnt) i rt = Ok (mkamap tb' (free a') (count a')) /\
    rep tb' (Some i) (with_child i p v l r rt Leaf) /\ length tb' = length tb /\ alen a' = al /\
    (forall j, ~ In j (ids (Node i p v l r)) -> slot tb' j = slot tb j).
Proof.
  intros C R ND Hf a'.
  destruct (rep_node_rt _ _ _ _ _ _ _ rt R) as (n & Hs & Hp & Hv & Hc & Hsib & Rc & Rs).
  destruct (nodup_node_rt _ _ _ _ _ rt ND) as (NIc & NIs & NDc & NDs & Dcs).
  rewrite C in *. cbn [ArenaThm.link] in Hc, Rc.
  unfold Arena2.a_do_remove_children. cbn [tbl afree acount].
  rewrite (get_child_ok _ _ _ _ Hs). cbn [rbind]. rewrite Hc. cbn [unwrap rbind].
  rewrite (clear_child_ok _ _ _ _ Hs). cbn [rbind].
  set (tb1 := upd tb (N.to_nat i) (with_link n rt None)).
  assert (Rc1 : rep tb1 (Some ci) (Node ci cp cv cl cr)) by (apply rep_upd; auto).
  destruct (free_loop_sim al fuel tb1 fr cnt [ci] [Node ci cp cv cl cr]) as (tb' & E & L' & F').
  - constructor; [exact Rc1|constructor].
  - cbn [flat_map]. rewrite app_nil_r. exact NDc.
  - cbn [map]. rewrite list_sum_cons. cbn [list_sum fold_right]. rewrite tsize_ids. lia.
  - cbn [fall fold_left] in E. fold a' in E. rewrite E. exists tb'. split; [reflexivity|].
    assert (S1 : slot tb1 i = Some (with_link n rt None)) by (unfold tb1; eapply slot_upd_eq; eauto).
    cbn [flat_map] in F'. rewrite app_nil_r in F'.
    split; [|split; [|split]].
    + apply rep_with_child with (n := with_link n rt None).
      * rewrite F'; auto.
      * rewrite npfx_with_link. exact Hp.
      * rewrite nval_with_link. exact Hv.
      * apply child_with_link_same.
      * rewrite child_with_link_other. exact Hsib.
      * constructor.
      * eapply rep_ext; [exact Rs|]. intros j Hj. rewrite F'.
        -- unfold tb1. apply slot_upd_neq. intros ->. contradiction.
        -- intros Hjc. exact (Dcs j Hjc Hj).
    + rewrite L'. apply upd_length.
    + unfold a'. apply (free_all_acct (Node ci cp cv cl cr) (mkalloc fr al cnt)).
    + intros j Hj. rewrite F'.
      * unfold tb1. apply slot_upd_neq. intros ->. apply Hj. cbn. auto.
      * intros Hjc. apply Hj. apply (ids_node_rt i p v l r rt). rewrite C. auto.
Qed.

(* ------------------------------------------------------------------------------------------ *)
(** * [remove_children] *)

Lemma rc_sim q : forall t fuel ffuel tb fr al cnt i par pr,
  rep tb (Some i) t -> NoDup (ids t) ->
  (ArenaThm.height pfx V t <= fuel)%nat -> (length (ids t) <= ffuel)%nat ->
  forall p v l r, t = Node i p v l r -> peq p q = false ->
  forall t' a', rc t q (mkalloc fr al cnt) = (t', a') ->
  exists tb', a_rc_loop fuel ffuel (mkamap tb fr cnt) i par pr q = Ok (mkamap tb' (free a') (count a')) /\
    rep tb' (Some i) t' /\ length tb' = length tb /\ alen a' = al /\
    (forall j, ~ In j (ids t) -> slot tb' j = slot tb j).
Proof.
  induction t as [|i0 p0 v0 l IHl r IHr];
    intros fuel ffuel tb fr al cnt i par pr R ND Hf Hff p v l' r' ET EQ t' a' H; [discriminate|].
  injection ET as -> -> -> <- <-.
  destruct fuel as [|f]; [cbn [ArenaThm.height] in Hf; lia|].
  cbn [Arena2.a_rc_loop tbl]. rewrite (direction_ins_sim _ _ _ q R). cbn [rbind ArenaThm.dir_ins_of].
  rewrite EQ. set (rt := to_right p q) in *.
  destruct (rep_node_rt _ _ _ _ _ _ _ rt R) as (node & Hs & Hp & Hv & Hc & Hsib & Rc & Rs).
  destruct (nodup_node_rt _ _ _ _ _ rt ND) as (NIc & NIs & NDc & NDs & Dcs).
  pose proof (height_csel rt i p v l r) as Hh.
  cbn [Trie.rc] in H. rewrite EQ in H. fold rt in H.
  change (if rt then r else l) with (csel rt l r) in H.
  assert (IH : forall f' ff' tb' fr' al' cnt' i' par' pr',
             rep tb' (Some i') (csel rt l r) -> NoDup (ids (csel rt l r)) ->
             (ArenaThm.height pfx V (csel rt l r) <= f')%nat -> (length (ids (csel rt l r)) <= ff')%nat ->
             forall p' v' l' r', csel rt l r = Node i' p' v' l' r' -> peq p' q = false ->
             forall t' a', rc (csel rt l r) q (mkalloc fr' al' cnt') = (t', a') ->
             exists tb'', a_rc_loop f' ff' (mkamap tb' fr' cnt') i' par' pr' q
                          = Ok (mkamap tb'' (free a') (count a')) /\
               rep tb'' (Some i') t' /\ length tb'' = length tb' /\ alen a' = al' /\
               (forall j, ~ In j (ids (csel rt l r)) -> slot tb'' j = slot tb' j)).
  { destruct rt; cbn [ArenaThm.csel]; auto. }
  clear IHl IHr.
  assert (Lc : (S (length (ids (csel rt l r))) <= length (ids (Node i p v l r)))%nat).
  { cbn [Slots.ids length]. rewrite app_length. destruct rt; cbn [ArenaThm.csel]; lia. }
  assert (SAME : (t', a') = (Node i p v l r, mkalloc fr al cnt) ->
          exists tb', Ok (mkamap tb fr cnt) = Ok (mkamap tb' (free a') (count a')) /\
            rep tb' (Some i) t' /\ length tb' = length tb /\ alen a' = al /\
            (forall j, ~ In j (ids (Node i p v l r)) -> slot tb' j = slot tb j)).
  { intros E2. injection E2 as -> ->. exists tb. auto. }
  assert (FREE : forall ci cp cv cl cr, csel rt l r = Node ci cp cv cl cr ->
          (t', a') = (with_child i p v l r rt Leaf, free_all (Node ci cp cv cl cr) (mkalloc fr al cnt)) ->
          exists tb', a_do_remove_children ffuel (mkamap tb fr cnt) i rt = Ok (mkamap tb' (free a') (count a')) /\
            rep tb' (Some i) t' /\ length tb' = length tb /\ alen a' = al /\
            (forall j, ~ In j (ids (Node i p v l r)) -> slot tb' j = slot tb j)).
  { intros ci cp cv cl cr C E2. injection E2 as -> ->.
    rewrite C in Lc.
    apply (do_remove_children_sim ffuel tb fr al cnt i p v l r rt ci cp cv cl cr C R ND). lia. }
  destruct (csel rt l r) as [|ci cp cv cl cr] eqn:C.
  { apply SAME. congruence. }
  destruct (contains cp q) eqn:CQ.
  - (* Enter *)
    cbn [ArenaThm.link] in Rc.
    assert (H1 : (1 <= ArenaThm.height pfx V (Node ci cp cv cl cr))%nat) by (cbn [ArenaThm.height]; lia).
    destruct f as [|f]; [lia|].
    destruct (peq cp q) eqn:EQc.
    + (* the next iteration reaches the selector *)
      cbn [Arena2.a_rc_loop tbl]. rewrite (direction_ins_sim _ _ _ q Rc). cbn [rbind ArenaThm.dir_ins_of].
      rewrite EQc. apply (FREE ci cp cv cl cr eq_refl). congruence.
    + destruct (rc (Node ci cp cv cl cr) q (mkalloc fr al cnt)) as [c' a1] eqn:RC.
      injection H as <- <-.
      destruct (IH (S f) ffuel tb fr al cnt ci i rt Rc NDc ltac:(lia) ltac:(lia) cp cv cl cr eq_refl EQc _ _ RC)
        as (tb' & E & R' & L' & Al & F').
      rewrite E. exists tb'. split; [reflexivity|]. split; [|split; [|split]].
      * apply rep_with_child with (n := node); auto.
        -- rewrite F'; auto.
        -- rewrite Hc. cbn [ArenaThm.link]. apply (rep_link _ _ _ R').
        -- rewrite <- (rep_link _ _ _ R'). exact R'.
        -- eapply rep_ext; [exact Rs|]. intros j Hj. apply F'. intros Hjc. exact (Dcs j Hjc Hj).
      * exact L'.
      * exact Al.
      * intros j Hj. apply F'. intros Hjc. apply Hj. apply (ids_node_rt i p v l r rt). rewrite C. auto.
  - destruct (contains q cp) eqn:QC.
    + (* NewChild: the selector lies on the edge *)
      apply (FREE ci cp cv cl cr eq_refl). congruence.
    + apply SAME. congruence.
Qed.

(** the guard of [remove_children]: a selector that is not of length zero is not the root's key *)
Definition rc_guard (m : pmap) (q : pfx) : Prop :=
  (plen q =? 0)%N = false -> peq (tpfx (root m)) q = false.

Theorem remove_children_fuel_bound am m q fuel ffuel :
  Rep am m -> minv m -> rc_guard m q ->
  (length (tbl am) <= fuel)%nat -> (length (tbl am) <= ffuel)%nat ->
  exists am', a_remove_children_fuel fuel ffuel am q = Ok am' /\ Rep am' (remove_children m q).
Proof.
  intros R M G F FF. unfold Arena2.a_remove_children_fuel, Trie.remove_children.
  destruct (plen q =? 0)%N eqn:Z.
  { eexists. split; [reflexivity|]. apply clear_sim. }
  specialize (G Z).
  pose proof (Rep_height _ _ R M) as HH.
  destruct am as [tb fr cnt]. destruct m as [t [fr' al cnt']].
  destruct R as (R & Ef & El & Ec). unfold Slots.minv in M.
  cbn [tbl afree acount root Trie.al free alen count] in *. subst fr' cnt'.
  pose proof (proj1 (NoDup_app_inv _ _ (minv_nodup_all _ _ M))) as NDt.
  pose proof (minv_size _ _ M) as SZ. cbn [alen] in SZ.
  destruct (rep_some_inv _ _ _ R) as (p & v & l & r & ->). cbn [Trie.tpfx] in G.
  destruct (rc (Node 0%N p v l r) q (mkalloc fr al cnt)) as [t' a'] eqn:RC.
  destruct (rc_sim q _ fuel ffuel tb fr al cnt 0%N 0%N false R NDt ltac:(lia) ltac:(lia) p v l r eq_refl G _ _ RC)
    as (tb' & E & R' & L' & Al & _).
  rewrite E. eexists. split; [reflexivity|].
  split; [exact R'|]. cbn [tbl afree acount root Trie.al]. rewrite L', Al. auto.
Qed.

Theorem remove_children_sim am m q : Rep am m -> minv m -> rc_guard m q ->
  exists am', a_remove_children am q = Ok am' /\ Rep am' (remove_children m q).
Proof. intros R M G. apply (remove_children_fuel_bound am m q _ _ R M G); lia. Qed.


(* ------------------------------------------------------------------------------------------ *)
(** * Inversion of monadic code *)

Ltac rinv H :=
  repeat match type of H with
  | rbind ?c _ = Ok _ =>
    let E := fresh "E" in destruct c eqn:E; cbn [rbind] in H; [|discriminate H|discriminate H]
  | (match ?x with pair _ _ => _ end) = Ok _ => destruct x
  end.

Lemma rd_slot tb i n : rd tb i = Ok n -> slot tb i = Some n.
Proof. unfold Arena.rd, ArenaThm.slot. destruct (nth_error tb (N.to_nat i)); congruence. Qed.

Lemma wr_inv tb i n tb' : wr tb i n = Ok tb' -> tb' = upd tb (N.to_nat i) n /\ exists n0, slot tb i = Some n0.
Proof.
  unfold Arena.wr, ArenaThm.slot. destruct (nth_error tb (N.to_nat i)) as [n0|]; [|discriminate].
  intros [= <-]. eauto.
Qed.

(** the node at [j] keeps its prefix and value *)
Definition holds (tb : list anode) (j : N) (p : pfx) (v : option V) : Prop :=
  exists n, slot tb j = Some n /\ npfx n = p /\ nval n = v.

Lemma set_child_holds tb i c rt tb' o j p v :
  set_child tb i c rt = Ok (tb', o) -> holds tb j p v -> holds tb' j p v.
Proof.
  unfold Arena.set_child. intros H (n & Hn & Hp & Hv). rinv H. injection H as <- _.
  apply wr_inv in E0. destruct E0 as (-> & _). apply rd_slot in E.
  destruct (N.eq_dec i j) as [->|Nij].
  - rewrite Hn in E. injection E as <-. eexists. split; [eapply slot_upd_eq; eauto|].
    rewrite npfx_with_link, nval_with_link. auto.
  - exists n. rewrite slot_upd_neq by exact Nij. auto.
Qed.

Lemma new_node_holds am p v new am1 : a_new_node am p v = Ok (new, am1) -> holds (tbl am1) new p v.
Proof.
  unfold Arena.a_new_node. destruct (afree am) as [|idx f].
  - intros [= <- <-]. cbn [tbl]. eexists. split; [apply slot_app_new|auto].
  - intros H. rinv H. injection H as <- <-. cbn [tbl].
    apply wr_inv in E. destruct E as (-> & n0 & Hn0). eexists. split; [eapply slot_upd_eq; eauto|auto].
Qed.

Lemma holds_rd tb j p v : holds tb j p v -> exists x, rd tb j = Ok x.
Proof. intros (n & Hn & _). exists n. apply rd_ok. exact Hn. Qed.

(* ------------------------------------------------------------------------------------------ *)
(** * [entry] and [VacantEntry::_insert]: the same steps as [insert] *)

(** tree level: on a vacant key [vins] is [ins] *)
Lemma ins_old t : forall q x a, snd (fst (ins t q x a)) = get t q.
Proof.
  induction t as [|i p v l IHl r IHr]; intros q x a; [reflexivity|].
  unfold Trie.get. cbn [Trie.ins Trie.get_node]. destruct (peq p q); [reflexivity|].
  set (rt := to_right p q).
  assert (IH : forall q x a, snd (fst (ins (if rt then r else l) q x a)) = get (if rt then r else l) q)
    by (destruct rt; auto).
  destruct (if rt then r else l) as [|ci cp cv cl cr] eqn:C.
  - destruct (Trie.new_node a true); reflexivity.
  - destruct (contains cp q).
    + specialize (IH q x a). unfold Trie.get in IH.
      destruct (ins (Node ci cp cv cl cr) q x a) as [[c' o] a']. exact IH.
    + destruct (contains q cp).
      * destruct (Trie.new_node a true); reflexivity.
      * destruct (Trie.new_node a false) as [b a1]. destruct (Trie.new_node a1 true); reflexivity.
Qed.

Lemma vins_vacant t : forall q x a, get t q = None ->
  vins t q x a = (fst (fst (ins t q x a)), snd (ins t q x a)).
Proof.
  induction t as [|i p v l IHl r IHr]; intros q x a G; [reflexivity|].
  unfold Trie.get in G. cbn [Trie.get_node] in G. cbn [Trie.ins Trie.vins].
  destruct (peq p q); [subst v; reflexivity|].
  set (rt := to_right p q) in *.
  assert (IH : forall q x a, get (if rt then r else l) q = None ->
            vins (if rt then r else l) q x a
            = (fst (fst (ins (if rt then r else l) q x a)), snd (ins (if rt then r else l) q x a)))
    by (destruct rt; auto).
  destruct (if rt then r else l) as [|ci cp cv cl cr] eqn:C.
  - destruct (Trie.new_node a true); reflexivity.
  - destruct (contains cp q).
    + rewrite (IH q x a G).
      destruct (ins (Node ci cp cv cl cr) q x a) as [[c' o] a']. reflexivity.
    + destruct (contains q cp).
      * destruct (Trie.new_node a true); reflexivity.
      * destruct (Trie.new_node a false) as [b a1]. destruct (Trie.new_node a1 true); reflexivity.
Qed.

Lemma vacant_insert_insert m q x : get (root m) q = None ->
  vacant_insert m q x = fst (insert m q x) /\ snd (insert m q x) = None.
Proof.
  intros G. unfold Trie.vacant_insert, Trie.insert. rewrite (vins_vacant _ q x (al m) G).
  pose proof (ins_old (root m) q x (al m)) as O. rewrite G in O.
  destruct (ins (root m) q x (al m)) as [[t o] a]. cbn in *. subst o. auto.
Qed.

(** arena level, without any invariant: where [entry] hands out a vacant handle, [_insert] on it
    does what the loop of [insert] does from the same position *)
Lemma entry_then_vacant q x : forall fuel am idx i d am' o,
  a_entry_loop fuel (tbl am) idx q = Ok (AVac i d) ->
  a_insert_loop fuel am idx q x = Ok (am', o) ->
  o = None /\ exists new, a_vacant_insert am i d q x = Ok (am', new) /\ holds (tbl am') new q (Some x).
Proof.
  induction fuel as [|f IH]; intros am idx i d am' o HE HI; [discriminate|].
  cbn [Arena2.a_entry_loop Arena.a_insert_loop] in HE, HI.
  destruct (a_direction_ins (tbl am) idx q) as [d0| |]; cbn [rbind] in HE, HI; try discriminate.
  destruct d0 as [|next rt|rt|rt crt|bp rt prt].
  - (* Reached *)
    rinv HE. cbn [rbind] in HI. rinv HI.
    destruct (is_some (nval a)) eqn:SV; [discriminate|]. injection HE as <- <-.
    destruct (nval a) eqn:NV; [discriminate|]. injection HI as <- <-.
    split; [reflexivity|]. cbn [Arena2.a_vacant_insert]. rewrite E. cbn [rbind]. rewrite E0. cbn [rbind].
    eexists. split; [reflexivity|]. cbn [tbl].
    apply wr_inv in E0. destruct E0 as (-> & n0 & Hn0). eexists. split; [eapply slot_upd_eq; eauto|auto].
  - (* Enter *) eapply IH; eauto.
  - (* NewLeaf *)
    injection HE as <- <-. rinv HI. injection HI as <- <-. split; [reflexivity|].
    cbn [Arena2.a_vacant_insert]. rewrite E. cbn [rbind]. rewrite E0. cbn [rbind].
    pose proof (set_child_holds _ _ _ _ _ _ n _ _ E0 (new_node_holds _ _ _ _ _ E)) as X.
    destruct (holds_rd _ _ _ _ X) as [y Hy]. rewrite Hy. cbn [rbind]. eexists. split; [reflexivity|exact X].
  - (* NewChild *)
    injection HE as <- <-. rinv HI. injection HI as <- <-. split; [reflexivity|].
    cbn [Arena2.a_vacant_insert]. rewrite E. cbn [rbind]. rewrite E0. cbn [rbind]. rewrite E1. cbn [rbind].
    rewrite E2. cbn [rbind].
    pose proof (set_child_holds _ _ _ _ _ _ n _ _ E2
                  (set_child_holds _ _ _ _ _ _ n _ _ E0 (new_node_holds _ _ _ _ _ E))) as X.
    destruct (holds_rd _ _ _ _ X) as [y Hy]. rewrite Hy. cbn [rbind]. eexists. split; [reflexivity|exact X].
  - (* NewBranch *)
    injection HE as <- <-. rinv HI. injection HI as <- <-. split; [reflexivity|].
    cbn [Arena2.a_vacant_insert]. rewrite E. cbn [rbind]. rewrite E0. cbn [rbind]. rewrite E1. cbn [rbind].
    rewrite E2. cbn [rbind]. rewrite E3. cbn [rbind]. rewrite E4. cbn [rbind].
    pose proof (set_child_holds _ _ _ _ _ _ n0 _ _ E4
                  (set_child_holds _ _ _ _ _ _ n0 _ _ E3
                     (set_child_holds _ _ _ _ _ _ n0 _ _ E1 (new_node_holds _ _ _ _ _ E0)))) as X.
    destruct (holds_rd _ _ _ _ X) as [y Hy]. rewrite Hy. cbn [rbind]. eexists. split; [reflexivity|exact X].
Qed.

(** what [entry] finds, read off the tree *)
Lemma entry_loop_sim q : forall t fuel tb i,
  rep tb (Some i) t -> (ArenaThm.height pfx V t <= fuel)%nat ->
  match get_node t q with
  | Some (j, _, Some _) => a_entry_loop fuel tb i q = Ok (AOcc j)
  | _ => exists j d, a_entry_loop fuel tb i q = Ok (AVac j d)
  end.
Proof.
  induction t as [|i0 p v l IHl r IHr]; intros fuel tb i R Hf; [inversion R|].
  pose proof (rep_link _ _ _ R) as E. cbn [ArenaThm.link] in E. injection E as <-.
  destruct fuel as [|f]; [cbn [ArenaThm.height] in Hf; lia|].
  cbn [Arena2.a_entry_loop]. rewrite (direction_ins_sim _ _ _ q R). cbn [rbind ArenaThm.dir_ins_of].
  set (rt := to_right p q) in *.
  destruct (rep_node_rt _ _ _ _ _ _ _ rt R) as (node & Hs & Hp & Hv & Hc & Hsib & Rc & Rs).
  pose proof (height_csel rt i p v l r) as Hh.
  cbn [Trie.get_node]. fold rt. change (if rt then r else l) with (csel rt l r).
  destruct (peq p q) eqn:EQ.
  { rewrite (rd_ok _ _ _ Hs). cbn [rbind]. rewrite Hv. destruct v; cbn [is_some is_none negb]; eauto. }
  assert (IH : forall f' tb' i', rep tb' (Some i') (csel rt l r) ->
             (ArenaThm.height pfx V (csel rt l r) <= f')%nat ->
             match get_node (csel rt l r) q with
             | Some (j, _, Some _) => a_entry_loop f' tb' i' q = Ok (AOcc j)
             | _ => exists j d, a_entry_loop f' tb' i' q = Ok (AVac j d)
             end).
  { destruct rt; cbn [ArenaThm.csel]; auto. }
  clear IHl IHr.
  destruct (csel rt l r) as [|ci cp cv cl cr] eqn:C; [eauto|].
  destruct (contains cp q) eqn:CQ.
  - cbn [ArenaThm.link] in Rc. apply (IH f tb ci Rc). lia.
  - destruct (contains q cp); eauto.
Qed.

Lemma entry_sim am m q : Rep am m -> minv m ->
  match get_node (root m) q with
  | Some (j, _, Some _) => a_entry am q = Ok (AOcc j)
  | _ => exists j d, a_entry am q = Ok (AVac j d)
  end.
Proof.
  intros R M. apply entry_loop_sim; [apply R|]. pose proof (Rep_height _ _ R M). lia.
Qed.

Theorem entry_fuel_bound am m q fuel : Rep am m -> minv m -> (length (tbl am) <= fuel)%nat ->
  match get_node (root m) q with
  | Some (j, _, Some _) => a_entry_loop fuel (tbl am) 0%N q = Ok (AOcc j)
  | _ => exists j d, a_entry_loop fuel (tbl am) 0%N q = Ok (AVac j d)
  end.
Proof.
  intros R M F. apply entry_loop_sim; [apply R|]. pose proof (Rep_height _ _ R M). lia.
Qed.

Theorem vacant_insert_sim am m q x : Rep am m -> minv m -> get (root m) q = None ->
  exists idx d am' new,
    a_entry am q = Ok (AVac idx d) /\ a_vacant_insert am idx d q x = Ok (am', new) /\
    Rep am' (vacant_insert m q x) /\ holds (tbl am') new q (Some x).
Proof.
  intros R M G. pose proof (entry_sim am m q R M) as HE.
  unfold Trie.get in G.
  assert (HE' : exists j d, a_entry am q = Ok (AVac j d)).
  { destruct (get_node (root m) q) as [[[j pj] [y|]]|]; [discriminate|exact HE|exact HE]. }
  destruct HE' as (j & d & HE').
  destruct (insert_fuel_bound am m q x (S (length (tbl am))) R M ltac:(lia)) as (am' & HI & R').
  destruct (vacant_insert_insert m q x G) as (EV & EO).
  destruct (entry_then_vacant q x _ am 0%N j d am' _ HE' HI) as (_ & new & HV & X).
  exists j, d, am', new. rewrite EV. auto.
Qed.

(* ------------------------------------------------------------------------------------------ *)
(** * Writes at the node reached by the exact-match descent: [OccupiedEntry], [get_mut] *)

Lemma modify_same q h : forall t,
  (forall i p v, get_node t q = Some (i, p, v) -> h p v = (p, v)) -> modify t q h = t.
Proof.
  induction t as [|i p v l IHl r IHr]; intros H; [reflexivity|].
  cbn [Trie.modify Trie.get_node] in *. destruct (peq p q).
  - rewrite (H i p v eq_refl). reflexivity.
  - set (rt := to_right p q) in *.
    assert (IH : (forall i p v, get_node (if rt then r else l) q = Some (i, p, v) -> h p v = (p, v)) ->
                 modify (if rt then r else l) q h = (if rt then r else l)) by (destruct rt; auto).
    destruct (if rt then r else l) as [|ci cp cv cl cr] eqn:C; [reflexivity|].
    destruct (contains cp q); [|reflexivity].
    rewrite (IH H). rewrite <- C. unfold Trie.with_child. destruct rt; reflexivity.
Qed.

Lemma modify_sim q h : forall t tb i0,
  rep tb (Some i0) t -> NoDup (ids t) ->
  match get_node t q with
  | None => modify t q h = t
  | Some (i, p, v) =>
    In i (ids t) /\
    exists n, slot tb i = Some n /\ npfx n = p /\ nval n = v /\
      rep (upd tb (N.to_nat i) (mkanode (fst (h p v)) (snd (h p v)) (nleft n) (nright n)))
          (Some i0) (modify t q h)
  end.
Proof.
  induction t as [|i p v l IHl r IHr]; intros tb i0 R ND; [reflexivity|].
  pose proof (rep_link _ _ _ R) as E. cbn [ArenaThm.link] in E. injection E as ->.
  cbn [Trie.get_node Trie.modify]. set (rt := to_right p q) in *.
  change (if rt then r else l) with (csel rt l r).
  destruct (rep_node_rt _ _ _ _ _ _ _ rt R) as (node & Hs & Hp & Hv & Hc & Hsib & Rc & Rs).
  destruct (nodup_node_rt _ _ _ _ _ rt ND) as (NIc & NIs & NDc & NDs & Dcs).
  destruct (peq p q) eqn:EQ.
  { split; [cbn; auto|].
    apply rep_node_inv in R. destruct R as (_ & Hs' & Rl & Rr).
    eexists. split; [exact Hs'|]. cbn [npfx nval nleft nright]. split; [reflexivity|]. split; [reflexivity|].
    destruct (h p v) as [p' v']. cbn [fst snd].
    assert (NI : ~ In i (ids l) /\ ~ In i (ids r)).
    { cbn [Slots.ids] in ND. inversion ND; subst. rewrite in_app_iff in *. tauto. }
    apply rep_node_intro; [eapply slot_upd_eq; eauto|apply rep_upd; tauto|apply rep_upd; tauto]. }
  assert (IH : forall tb' i',
             rep tb' (Some i') (csel rt l r) -> NoDup (ids (csel rt l r)) ->
             match get_node (csel rt l r) q with
             | None => modify (csel rt l r) q h = csel rt l r
             | Some (j, pj, vj) =>
               In j (ids (csel rt l r)) /\
               exists n, slot tb' j = Some n /\ npfx n = pj /\ nval n = vj /\
                 rep (upd tb' (N.to_nat j) (mkanode (fst (h pj vj)) (snd (h pj vj)) (nleft n) (nright n)))
                     (Some i') (modify (csel rt l r) q h)
             end).
  { destruct rt; cbn [ArenaThm.csel]; auto. }
  clear IHl IHr.
  destruct (csel rt l r) as [|ci cp cv cl cr] eqn:C; [reflexivity|].
  destruct (contains cp q) eqn:CQ; [|reflexivity].
  cbn [ArenaThm.link] in Rc. specialize (IH tb ci Rc NDc).
  destruct (get_node (Node ci cp cv cl cr) q) as [[[j pj] vj]|].
  - destruct IH as (Ij & n & Hn & Hnp & Hnv & R').
    split; [apply (ids_node_rt i p v l r rt); rewrite C; auto|].
    exists n. split; [exact Hn|]. split; [exact Hnp|]. split; [exact Hnv|].
    assert (Nij : j <> i) by (intros ->; contradiction).
    apply rep_with_child with (n := node); auto.
    + rewrite slot_upd_neq by exact Nij. exact Hs.
    + rewrite Hc. cbn [ArenaThm.link]. apply (rep_link _ _ _ R').
    + rewrite <- (rep_link _ _ _ R'). exact R'.
    + apply rep_upd; [exact Rs|]. intros Hjs. exact (Dcs j Ij Hjs).
  - rewrite IH. rewrite <- C. apply with_child_csel.
Qed.

(** the representation after a write of prefix and value at the node reached by [q] *)
Lemma Rep_modify am m q h i p v a' :
  Rep am m -> minv m -> get_node (root m) q = Some (i, p, v) ->
  free a' = free (al m) -> alen a' = alen (al m) ->
  exists n, slot (tbl am) i = Some n /\ npfx n = p /\ nval n = v /\
    Rep (mkamap (upd (tbl am) (N.to_nat i) (mkanode (fst (h p v)) (snd (h p v)) (nleft n) (nright n)))
                (afree am) (count a'))
        (mkmap (modify (root m) q h) a').
Proof.
  intros R M G Ef El. destruct R as (R & Rf & Rl & Rc).
  pose proof (proj1 (NoDup_app_inv _ _ (minv_nodup_all _ _ M))) as ND.
  pose proof (modify_sim q h (root m) (tbl am) 0%N R ND) as H. rewrite G in H.
  destruct H as (_ & n & Hn & Hp & Hv & R'). exists n. split; [exact Hn|]. split; [exact Hp|].
  split; [exact Hv|]. split; [exact R'|]. cbn [tbl afree acount root Trie.al].
  rewrite upd_length. rewrite Ef, El. auto.
Qed.

Lemma get_of_node t q i p v : get_node t q = Some (i, p, v) -> get t q = v.
Proof. unfold Trie.get. intros ->. reflexivity. Qed.

Theorem occ_insert_sim am m q x i p y : Rep am m -> minv m ->
  get_node (root m) q = Some (i, p, Some y) ->
  exists am', a_entry am q = Ok (AOcc i) /\ a_occ_insert am i q x = Ok (am', y) /\
    Rep am' (fst (occ_insert m q x)) /\ snd (occ_insert m q x) = Some y.
Proof.
  intros R M G. pose proof (entry_sim am m q R M) as HE. rewrite G in HE.
  destruct (Rep_modify am m q (fun _ _ => (q, Some x)) i p (Some y) (al m) R M G eq_refl eq_refl)
    as (n & Hn & Hp & Hv & R').
  unfold Arena2.a_occ_insert. rewrite (rd_ok _ _ _ Hn). cbn [rbind]. rewrite (wr_ok _ _ _ _ Hn). cbn [rbind].
  rewrite Hv. cbn [unwrap rbind]. eexists. split; [exact HE|]. split; [reflexivity|].
  unfold Trie.occ_insert. cbn [fst snd]. rewrite (get_of_node _ _ _ _ _ G).
  split; [|reflexivity]. destruct R as (_ & _ & _ & Rc). rewrite Rc. exact R'.
Qed.

Theorem occ_remove_sim am m q i p y : Rep am m -> minv m ->
  get_node (root m) q = Some (i, p, Some y) ->
  exists am', a_entry am q = Ok (AOcc i) /\ a_occ_remove am i = Ok (am', y) /\
    Rep am' (fst (occ_remove m q)) /\ snd (occ_remove m q) = Some y.
Proof.
  intros R M G. pose proof (entry_sim am m q R M) as HE. rewrite G in HE.
  destruct (Rep_modify am m q (fun p _ => (p, None)) i p (Some y) (dec_if (Some y) (al m)) R M G eq_refl eq_refl)
    as (n & Hn & Hp & Hv & R').
  unfold Arena2.a_occ_remove. rewrite (rd_ok _ _ _ Hn). cbn [rbind]. rewrite (wr_ok _ _ _ _ Hn). cbn [rbind].
  rewrite Hv. cbn [unwrap rbind]. eexists. split; [exact HE|]. split; [reflexivity|].
  unfold Trie.occ_remove. cbn [fst snd]. rewrite (get_of_node _ _ _ _ _ G).
  split; [|reflexivity]. destruct R as (_ & _ & _ & Rc). rewrite Rc, Hp. exact R'.
Qed.

(** [OccupiedEntry::get_mut] and a write through the reference *)
Theorem occ_update_sim am m q g i p y : Rep am m -> minv m ->
  get_node (root m) q = Some (i, p, Some y) ->
  exists am', a_occ_update am i g = Ok am' /\ Rep am' (update_value m q g).
Proof.
  intros R M G.
  destruct (Rep_modify am m q (fun p v => (p, option_map g v)) i p (Some y) (al m) R M G eq_refl eq_refl)
    as (n & Hn & Hp & Hv & R').
  unfold Arena2.a_occ_update. rewrite (rd_ok _ _ _ Hn). cbn [rbind]. rewrite Hv. cbn [unwrap rbind].
  rewrite (wr_ok _ _ _ _ Hn). cbn [rbind]. eexists. split; [reflexivity|].
  unfold Trie.update_value. destruct R as (_ & _ & _ & Rc). rewrite Rc, Hp. exact R'.
Qed.

(** an occupied handle whose value was taken out ([OccupiedEntry::remove], or a view's [remove]):
    the accessors that [unwrap] panic *)
Theorem occ_reuse_panics am m q x g i p : Rep am m -> minv m ->
  get_node (root m) q = Some (i, p, None) ->
  a_occ_insert am i q x = Panic /\ a_occ_remove am i = Panic /\ a_occ_update am i g = Panic.
Proof.
  intros R M G.
  destruct (Rep_modify am m q (fun p v => (p, v)) i p None (al m) R M G eq_refl eq_refl)
    as (n & Hn & Hp & Hv & _).
  unfold Arena2.a_occ_insert, Arena2.a_occ_remove, Arena2.a_occ_update.
  rewrite (rd_ok _ _ _ Hn). cbn [rbind]. rewrite !(wr_ok _ _ _ _ Hn). cbn [rbind]. rewrite Hv.
  cbn [unwrap rbind]. auto.
Qed.

(** [Entry::insert] *)
Theorem entry_insert_sim am m q x : Rep am m -> minv m ->
  exists am', a_entry_insert am q x = Ok (am', snd (t_entry_insert pfx V peq contains is_bit_set plen lcp m q x)) /\
              Rep am' (fst (t_entry_insert pfx V peq contains is_bit_set plen lcp m q x)).
Proof.
  intros R M. unfold Arena2.a_entry_insert, Arena2.t_entry_insert.
  destruct (get (root m) q) as [y|] eqn:G.
  - unfold Trie.get in G. destruct (get_node (root m) q) as [[[i p] v]|] eqn:GN; [|discriminate]. subst v.
    destruct (occ_insert_sim am m q x i p y R M GN) as (am' & HE & HO & R' & O).
    rewrite HE. cbn [rbind]. rewrite HO. cbn [rbind]. rewrite O. eauto.
  - destruct (vacant_insert_sim am m q x R M G) as (idx & d & am' & new & HE & HV & R' & _).
    rewrite HE. cbn [rbind]. rewrite HV. cbn [rbind]. eauto.
Qed.

Theorem entry_remove_sim am m q : Rep am m -> minv m ->
  exists am', a_entry_remove am q = Ok (am', snd (t_entry_remove pfx V peq contains is_bit_set plen m q)) /\
              Rep am' (fst (t_entry_remove pfx V peq contains is_bit_set plen m q)).
Proof.
  intros R M. unfold Arena2.a_entry_remove, Arena2.t_entry_remove.
  destruct (get (root m) q) as [y|] eqn:G.
  - unfold Trie.get in G. destruct (get_node (root m) q) as [[[i p] v]|] eqn:GN; [|discriminate]. subst v.
    destruct (occ_remove_sim am m q i p y R M GN) as (am' & HE & HO & R' & O).
    rewrite HE. cbn [rbind]. rewrite HO. cbn [rbind]. rewrite O. eauto.
  - pose proof (entry_sim am m q R M) as HE. unfold Trie.get in G.
    assert (HE' : exists j d, a_entry am q = Ok (AVac j d)).
    { destruct (get_node (root m) q) as [[[j pj] [y|]]|]; [discriminate|exact HE|exact HE]. }
    destruct HE' as (j & d & ->). cbn [rbind]. eauto.
Qed.

(** a write through [Option<&mut T>] at the node reached *)
Lemma node_update_sim am m q g i p v : Rep am m -> minv m ->
  get_node (root m) q = Some (i, p, v) ->
  exists tb', a_node_update (tbl am) i g = Ok tb' /\
    Rep (mkamap tb' (afree am) (acount am)) (update_value m q g).
Proof.
  intros R M G.
  destruct (Rep_modify am m q (fun p v => (p, option_map g v)) i p v (al m) R M G eq_refl eq_refl)
    as (n & Hn & Hp & Hv & R').
  unfold Arena2.a_node_update. rewrite (rd_ok _ _ _ Hn). cbn [rbind]. rewrite (wr_ok _ _ _ _ Hn).
  eexists. split; [reflexivity|]. cbn [fst snd] in R'. rewrite Hp, Hv.
  unfold Trie.update_value. destruct R as (_ & _ & _ & Rc). rewrite Rc. exact R'.
Qed.

Lemma update_value_same m q g :
  (forall i p v, get_node (root m) q = Some (i, p, v) -> v = None) -> update_value m q g = m.
Proof.
  intros H. unfold Trie.update_value. rewrite modify_same; [destruct m; reflexivity|].
  intros i p v G. rewrite (H i p v G). reflexivity.
Qed.

(** [Entry::and_modify] *)
Theorem entry_and_modify_sim am m q g : Rep am m -> minv m ->
  exists am', a_entry_and_modify am q g = Ok am' /\ Rep am' (update_value m q g).
Proof.
  intros R M. unfold Arena2.a_entry_and_modify. pose proof (entry_sim am m q R M) as HE.
  destruct (get_node (root m) q) as [[[i p] [y|]]|] eqn:GN.
  - rewrite HE. cbn [rbind]. destruct (node_update_sim am m q g i p (Some y) R M GN) as (tb' & -> & R').
    cbn [rbind]. eauto.
  - destruct HE as (j & d & ->). cbn [rbind]. eexists. split; [reflexivity|].
    rewrite update_value_same; [exact R|]. intros i' p' v' G'. congruence.
  - destruct HE as (j & d & ->). cbn [rbind]. eexists. split; [reflexivity|].
    rewrite update_value_same; [exact R|]. intros i' p' v' G'. congruence.
Qed.

(** [get_mut] *)
Lemma get_mut_loop_sim q g : forall t fuel tb i,
  rep tb (Some i) t -> (ArenaThm.height pfx V t <= fuel)%nat ->
  a_get_mut_loop fuel tb i q g
  = match get_node t q with Some (j, _, _) => a_node_update tb j g | None => Ok tb end.
Proof.
  induction t as [|i0 p v l IHl r IHr]; intros fuel tb i R Hf; [inversion R|].
  pose proof (rep_link _ _ _ R) as E. cbn [ArenaThm.link] in E. injection E as <-.
  destruct fuel as [|f]; [cbn [ArenaThm.height] in Hf; lia|].
  cbn [Arena2.a_get_mut_loop]. rewrite (direction_sim _ _ _ q R). cbn [rbind ArenaThm.dir_of].
  set (rt := to_right p q) in *.
  destruct (rep_node_rt _ _ _ _ _ _ _ rt R) as (node & Hs & Hp & Hv & Hc & Hsib & Rc & Rs).
  pose proof (height_csel rt i p v l r) as Hh.
  cbn [Trie.get_node]. fold rt. change (if rt then r else l) with (csel rt l r).
  destruct (peq p q) eqn:EQ; [reflexivity|].
  assert (IH : forall f' tb' i', rep tb' (Some i') (csel rt l r) ->
             (ArenaThm.height pfx V (csel rt l r) <= f')%nat ->
             a_get_mut_loop f' tb' i' q g
             = match get_node (csel rt l r) q with Some (j, _, _) => a_node_update tb' j g | None => Ok tb' end).
  { destruct rt; cbn [ArenaThm.csel]; auto. }
  clear IHl IHr.
  destruct (csel rt l r) as [|ci cp cv cl cr] eqn:C; [reflexivity|].
  destruct (contains cp q) eqn:CQ; [|reflexivity].
  cbn [ArenaThm.link] in Rc. apply (IH f tb ci Rc). lia.
Qed.

Theorem get_mut_fuel_bound am m q g fuel : Rep am m -> minv m -> (length (tbl am) <= fuel)%nat ->
  exists tb', a_get_mut_loop fuel (tbl am) 0%N q g = Ok tb' /\
    Rep (mkamap tb' (afree am) (acount am)) (update_value m q g).
Proof.
  intros R M F. pose proof (Rep_height _ _ R M) as HH.
  rewrite (get_mut_loop_sim q g (root m) fuel (tbl am) 0%N (proj1 R) ltac:(lia)).
  destruct (get_node (root m) q) as [[[i p] v]|] eqn:GN.
  - exact (node_update_sim am m q g i p v R M GN).
  - eexists. split; [reflexivity|]. rewrite update_value_same; [destruct am; exact R|].
    intros i' p' v' G'. congruence.
Qed.

Theorem get_mut_sim am m q g : Rep am m -> minv m ->
  exists am', a_get_mut am q g = Ok am' /\ Rep am' (update_value m q g).
Proof.
  intros R M. destruct (get_mut_fuel_bound am m q g (S (length (tbl am))) R M ltac:(lia)) as (tb' & E & R').
  unfold Arena2.a_get_mut. rewrite E. cbn [rbind]. eauto.
Qed.

(* ------------------------------------------------------------------------------------------ *)
(** * [TrieViewMut] at a node reached by a path *)

Lemma subtree_leaf pa : subtree (@Leaf pfx V) pa = Leaf.
Proof. destruct pa; reflexivity. Qed.

Lemma vm_walk_sim : forall pa t tb i, rep tb (Some i) t -> a_vm_walk tb i pa = Ok (link (subtree t pa)).
Proof.
  induction pa as [|b pa IH]; intros t tb i R.
  - destruct (rep_some_inv _ _ _ R) as (p & v & l & r & ->). reflexivity.
  - destruct (rep_some_inv _ _ _ R) as (p & v & l & r & ->).
    destruct (rep_node_rt _ _ _ _ _ _ _ b R) as (n & Hs & _ & _ & Hc & _ & Rc & _).
    cbn [Arena2.a_vm_walk subtree]. rewrite (rd_ok _ _ _ Hs). cbn [rbind]. rewrite Hc.
    change (if b then r else l) with (csel b l r).
    destruct (csel b l r) as [|ci cp cv cl cr]; cbn [ArenaThm.link] in *.
    + rewrite subtree_leaf. reflexivity.
    + apply IH. exact Rc.
Qed.

Lemma subst_sim : forall pa t tb i0, rep tb (Some i0) t -> NoDup (ids t) ->
  forall i p v l r, subtree t pa = Node i p v l r ->
  slot tb i = Some (mkanode p v (link l) (link r)) /\
  forall v', rep (upd tb (N.to_nat i) (mkanode p v' (link l) (link r))) (Some i0)
                 (subst t pa (Node i p v' l r)).
Proof.
  induction pa as [|b pa IH]; intros t tb i0 R ND i p v l r S.
  - destruct t as [|j pj vj lj rj]; cbn [subtree] in S; [discriminate|]. injection S as -> -> -> -> ->.
    pose proof (rep_node_inv _ _ _ _ _ _ _ R) as (E & Hs & Rl & Rr).
    injection E as ->. split; [exact Hs|]. intros v'. cbn [subst].
    assert (NI : ~ In i (ids l) /\ ~ In i (ids r)).
    { cbn [Slots.ids] in ND. inversion ND; subst. rewrite in_app_iff in *. tauto. }
    apply rep_node_intro; [eapply slot_upd_eq; eauto|apply rep_upd; tauto|apply rep_upd; tauto].
  - destruct t as [|j pj vj lj rj]; [cbn [subtree] in S; discriminate|].
    pose proof (rep_link _ _ _ R) as E. cbn [ArenaThm.link] in E. injection E as ->.
    cbn [subtree] in S. change (if b then rj else lj) with (csel b lj rj) in S.
    destruct (rep_node_rt _ _ _ _ _ _ _ b R) as (node & Hs & Hp & Hv & Hc & Hsib & Rc & Rs).
    destruct (nodup_node_rt _ _ _ _ _ b ND) as (NIc & NIs & NDc & NDs & Dcs).
    destruct (csel b lj rj) as [|ci cp cv cl cr] eqn:C; [rewrite subtree_leaf in S; discriminate|].
    cbn [ArenaThm.link] in Rc, Hc.
    destruct (IH _ tb ci Rc NDc i p v l r S) as (Hsi & R').
    split; [exact Hsi|]. intros v'. specialize (R' v').
    assert (Ii : In i (ids (Node ci cp cv cl cr))).
    { clear - S peq contains is_bit_set plen lcp pzero. revert S. generalize (Node ci cp cv cl cr). induction pa as [|b pa IHp]; intros t S.
      - destruct t as [|k pk vk lk rk]; cbn [subtree] in S; [discriminate|]. injection S as -> _ _ _ _. cbn. auto.
      - destruct t as [|k pk vk lk rk]; [cbn [subtree] in S; discriminate|].
        cbn [subtree] in S. apply IHp in S. cbn [Slots.ids In]. rewrite in_app_iff. destruct b; auto. }
    assert (Nij : i <> j) by (intros ->; contradiction).
    replace (subst (Node j pj vj lj rj) (b :: pa) (Node i p v' l r))
      with (with_child j pj vj lj rj b (subst (Node ci cp cv cl cr) pa (Node i p v' l r))).
    2:{ cbn [subst]. unfold Trie.with_child. destruct b; cbn [ArenaThm.csel] in C; rewrite C; reflexivity. }
    apply rep_with_child with (n := node); auto.
    + rewrite slot_upd_neq by exact Nij. exact Hs.
    + rewrite Hc. apply (rep_link _ _ _ R').
    + rewrite <- (rep_link _ _ _ R'). exact R'.
    + apply rep_upd; [exact Rs|]. intros His. exact (Dcs i Ii His).
Qed.

(** the map after a write of the value of the node at [pa]; the allocator is out of reach *)
Lemma Rep_subst am m pa i p v l r v' : Rep am m -> minv m ->
  subtree (root m) pa = Node i p v l r ->
  a_vm_walk (tbl am) 0%N pa = Ok (Some i) /\
  slot (tbl am) i = Some (mkanode p v (link l) (link r)) /\
  Rep (mkamap (upd (tbl am) (N.to_nat i) (mkanode p v' (link l) (link r))) (afree am) (acount am))
      (mkmap (subst (root m) pa (Node i p v' l r)) (al m)) /\
  minv (mkmap (subst (root m) pa (Node i p v' l r)) (al m)).
Proof.
  intros R M S. destruct R as (R & Rf & Rl & Rc).
  pose proof (proj1 (NoDup_app_inv _ _ (minv_nodup_all _ _ M))) as ND.
  destruct (subst_sim pa (root m) (tbl am) 0%N R ND i p v l r S) as (Hs & R').
  split; [rewrite (vm_walk_sim pa _ _ _ R), S; reflexivity|]. split; [exact Hs|]. split.
  - split; [apply R'|]. cbn [tbl afree acount root Trie.al]. rewrite upd_length. auto.
  - unfold Slots.minv in *. cbn [root Trie.al]. eapply slots_ok_ext; [| reflexivity | reflexivity | exact M].
    pose proof (subst_ids pa (root m) v') as X. rewrite S in X. cbn [set_tval] in X. exact X.
Qed.

Theorem vm_set_sim am m pa x i p v l r : Rep am m -> minv m ->
  subtree (root m) pa = Node i p v l r ->
  a_vm_walk (tbl am) 0%N pa = Ok (Some i) /\
  exists am', a_vm_set am i x = Ok (am', v) /\
    snd (vm_set (root m) (mkvmut pfx pa None) x) = inl v /\
    Rep am' (mkmap (fst (vm_set (root m) (mkvmut pfx pa None) x)) (al m)) /\
    minv (mkmap (fst (vm_set (root m) (mkvmut pfx pa None) x)) (al m)).
Proof.
  intros R M S. destruct (Rep_subst am m pa i p v l r (Some x) R M S) as (W & Hs & R' & M').
  split; [exact W|]. unfold Arena2.a_vm_set. rewrite (rd_ok _ _ _ Hs). cbn [rbind].
  rewrite (wr_ok _ _ _ _ Hs). cbn [rbind npfx nval nleft nright]. eexists. split; [reflexivity|].
  unfold vm_set, vm_tree. cbn [mvirt mpath fst snd]. rewrite S. cbn [set_tval tval]. auto.
Qed.

Theorem vm_remove_sim am m pa i p v l r : Rep am m -> minv m ->
  subtree (root m) pa = Node i p v l r ->
  a_vm_walk (tbl am) 0%N pa = Ok (Some i) /\
  exists am', a_vm_remove am i = Ok (am', snd (vm_remove (root m) (mkvmut pfx pa None))) /\
    Rep am' (mkmap (fst (vm_remove (root m) (mkvmut pfx pa None))) (al m)) /\
    minv (mkmap (fst (vm_remove (root m) (mkvmut pfx pa None))) (al m)).
Proof.
  intros R M S. destruct (Rep_subst am m pa i p v l r None R M S) as (W & Hs & R' & M').
  split; [exact W|]. unfold Arena2.a_vm_remove. rewrite (rd_ok _ _ _ Hs). cbn [rbind].
  rewrite (wr_ok _ _ _ _ Hs). cbn [rbind npfx nval nleft nright].
  unfold vm_remove, vm_tree. cbn [mvirt mpath fst snd]. rewrite S. cbn [set_tval tval]. eauto.
Qed.

Theorem vm_value_mut_sim am m pa g i p v l r : Rep am m -> minv m ->
  subtree (root m) pa = Node i p v l r ->
  a_vm_walk (tbl am) 0%N pa = Ok (Some i) /\
  exists am', a_vm_value_mut am i g = Ok (am', snd (vm_value_mut (root m) (mkvmut pfx pa None) g)) /\
    Rep am' (mkmap (fst (vm_value_mut (root m) (mkvmut pfx pa None) g)) (al m)) /\
    minv (mkmap (fst (vm_value_mut (root m) (mkvmut pfx pa None) g)) (al m)).
Proof.
  intros R M S. destruct (Rep_subst am m pa i p v l r (option_map g v) R M S) as (W & Hs & R' & M').
  split; [exact W|]. unfold Arena2.a_vm_value_mut. rewrite (rd_ok _ _ _ Hs). cbn [rbind].
  rewrite (wr_ok _ _ _ _ Hs). cbn [rbind npfx nval nleft nright].
  unfold vm_value_mut, vm_tree. cbn [mvirt mpath fst snd]. rewrite S. cbn [set_tval tval Trie.pv].
  unfold Arena.prefix_value. cbn [nval npfx]. eauto.
Qed.


(* ------------------------------------------------------------------------------------------ *)
(** * [_remove_node] below a parent, with the returned flag and the slot of a collapsed parent
    ([ArenaThm.remove_node_child] leaves the flag unspecified; [_retain] branches on it and reads
    the slot of the collapsed node again) *)

(** the parent (value [pv], own parent [grp]) is collapsed by the removal of a leaf child *)
Definition pcoll (fl : bool) (grp : option N) (pv : option V) : bool := fl && is_some grp && is_none pv.
(** ... and [_remove_node] reports it: only when the sibling took the parent's place *)
Definition pflag (fl : bool) (grp : option N) (pv : option V) (sib : tree) : bool :=
  pcoll fl grp pv && is_node sib.
(** the slot of a collapsed parent keeps its empty value and the link to the sibling *)
Definition stale (tb : list anode) (pi : N) (rt : bool) (sib : tree) : Prop :=
  exists n, slot tb pi = Some n /\ nval n = None /\ child_of n (negb rt) = link sib.

Lemma remove_node_child' tb fr al cnt pi pp pv pl pr rt ci cp cv cl cr grp gr :
  csel rt pl pr = Node ci cp cv cl cr ->
  rep tb (Some pi) (Node pi pp pv pl pr) -> NoDup (ids (Node pi pp pv pl pr)) ->
  grp_ok tb grp gr pi (Node pi pp pv pl pr) ->
  forall c' fl a1, remove_self true ci cp cv cl cr (mkalloc fr al cnt) = (c', fl, a1) ->
  forall T' a', (if fl then absorb (is_some grp) pi pp pv pl pr rt a1
                 else (with_child pi pp pv pl pr rt c', a1)) = (T', a') ->
  exists tb',
    a_remove_node (mkamap tb fr cnt) ci (Some pi) rt grp gr
    = Ok (mkamap tb' (free a') (count a'), cv, pflag fl grp pv (ssel rt pl pr)) /\
    alen a' = al /\ rem_post tb tb' grp gr pi (Node pi pp pv pl pr) T' /\
    (pcoll fl grp pv = true -> stale tb' pi rt (ssel rt pl pr)).
Proof.
  intros C R NDt G c' fl a1 RS T' a' HX.
  destruct (rep_node_rt _ _ _ _ _ _ _ rt R) as (pn & Hs & Hp & Hv & Hc & Hsib & Rc & Rs).
  destruct (nodup_node_rt _ _ _ _ _ rt NDt) as (NIc & NIs & NDc & NDs & Dcs).
  rewrite C in *. cbn [ArenaThm.link] in Hc, Rc.
  pose proof (rep_node_inv _ _ _ _ _ _ _ Rc) as (_ & Hsc & Rcl & Rcr).
  assert (Icc : In ci (ids (Node ci cp cv cl cr))) by (cbn; auto).
  assert (Npc : pi <> ci) by (intros ->; contradiction).
  assert (NIcs : ~ In ci (ids (ssel rt pl pr))) by (apply Dcs; exact Icc).
  assert (NIcl : ~ In ci (ids cl) /\ ~ In ci (ids cr)).
  { cbn [Slots.ids] in NDc. inversion NDc; subst. rewrite in_app_iff in *. tauto. }
  destruct NIcl as (NIcl & NIcr).
  assert (Ipl : forall j, In j (ids cl) -> In j (ids (Node ci cp cv cl cr))).
  { intros j Hj. cbn [Slots.ids In]. rewrite in_app_iff. auto. }
  assert (Ipr : forall j, In j (ids cr) -> In j (ids (Node ci cp cv cl cr))).
  { intros j Hj. cbn [Slots.ids In]. rewrite in_app_iff. auto. }
  assert (Ict : forall j, In j (ids (Node ci cp cv cl cr)) -> In j (ids (Node pi pp pv pl pr))).
  { intros j Hj. apply (ids_node_rt pi pp pv pl pr rt). rewrite C. auto. }
  assert (Ist : forall j, In j (ids (ssel rt pl pr)) -> In j (ids (Node pi pp pv pl pr))).
  { intros j Hj. apply (ids_node_rt pi pp pv pl pr rt). auto. }
  assert (Ipt : In pi (ids (Node pi pp pv pl pr))) by (cbn; auto).
  unfold Arena.a_remove_node. cbn [tbl afree acount].
  rewrite (rd_ok _ _ _ Hsc). cbn [rbind]. rewrite (wr_ok _ _ _ _ Hsc). cbn [rbind nval nleft nright npfx].
  set (n0 := mkanode cp None (link cl) (link cr)).
  set (tb0 := upd tb (N.to_nat ci) n0).
  assert (S0c : slot tb0 ci = Some n0) by (unfold tb0; eapply slot_upd_eq; eauto).
  assert (S0p : slot tb0 pi = Some pn) by (unfold tb0; rewrite slot_upd_neq by congruence; exact Hs).
  assert (L0 : length tb0 = length tb) by apply upd_length.
  assert (R0s : rep tb0 (link (ssel rt pl pr)) (ssel rt pl pr)) by (apply rep_upd; auto).
  assert (R0l : rep tb0 (link cl) cl) by (apply rep_upd; auto).
  assert (R0r : rep tb0 (link cr) cr) by (apply rep_upd; auto).
  assert (F0 : forall j, ~ In j (ids (Node pi pp pv pl pr)) -> slot tb0 j = slot tb j).
  { intros j Hj. unfold tb0. apply slot_upd_neq. intros ->. apply Hj. auto. }
  unfold Trie.remove_self in RS.
  destruct cl as [|li lp lv ll lr], cr as [|ri rp rv rl rr];
    cbn [Trie.is_node ArenaThm.link is_some is_none negb andb orb] in RS |- *.
  - (* leaf *)
    injection RS as <- <- <-.
    rewrite (clear_child_ok _ _ _ _ S0p). cbn [rbind].
    set (pn1 := with_link pn rt None).
    set (tb1 := upd tb0 (N.to_nat pi) pn1).
    assert (S1p : slot tb1 pi = Some pn1) by (unfold tb1; eapply slot_upd_eq; eauto).
    assert (L1 : length tb1 = length tb) by (unfold tb1; rewrite upd_length; exact L0).
    assert (R1s : rep tb1 (link (ssel rt pl pr)) (ssel rt pl pr)) by (apply rep_upd; auto).
    assert (F1 : forall j, ~ In j (ids (Node pi pp pv pl pr)) -> slot tb1 j = slot tb j).
    { intros j Hj. unfold tb1. rewrite slot_upd_neq by (intros ->; contradiction). auto. }
    assert (KEEP : rem_post tb tb1 grp gr pi (Node pi pp pv pl pr) (with_child pi pp pv pl pr rt Leaf)).
    { apply post_keep_root with (pn' := pn1); auto; unfold pn1.
      - rewrite npfx_with_link. exact Hp.
      - rewrite nval_with_link. exact Hv.
      - apply child_with_link_same.
      - rewrite child_with_link_other. exact Hsib.
      - constructor. }
    unfold Trie.absorb in HX. change (if rt then pl else pr) with (ssel rt pl pr) in HX.
    unfold pflag, pcoll.
    destruct grp as [gi|]; cbn [is_some is_none negb andb] in HX |- *.
    + destruct G as (gn & Hg & Hgc & NIg).
      rewrite (rd_ok _ _ _ S1p). cbn [rbind]. unfold pn1 at 1. rewrite nval_with_link, Hv.
      destruct pv as [y|]; cbn [is_none is_some negb andb] in HX |- *.
      * injection HX as <- <-. exists tb1. rewrite <- dec_count_eq. cbn [free count alen Trie.push_free].
        split; [reflexivity|]. split; [reflexivity|]. split; [exact KEEP|discriminate].
      * injection HX as <- <-.
        rewrite (get_child_ok _ _ _ _ S1p). cbn [rbind]. unfold pn1 at 1.
        rewrite child_with_link_other, Hsib.
        assert (Ngp : gi <> pi) by (intros ->; contradiction).
        assert (Ngc : gi <> ci) by (intros ->; apply NIg; auto).
        assert (S1g : slot tb1 gi = Some gn) by (rewrite F1; auto).
        assert (ST : forall x, stale (upd tb1 (N.to_nat gi) x) pi rt (ssel rt pl pr)).
        { intros x. exists pn1. split; [rewrite slot_upd_neq by exact Ngp; exact S1p|].
          unfold pn1. rewrite nval_with_link, child_with_link_other. auto. }
        destruct (ssel rt pl pr) as [|si sp sv sl sr] eqn:SB; cbn [ArenaThm.link Trie.is_node].
        -- rewrite (clear_child_ok _ _ _ _ S1g). cbn [rbind].
           eexists. rewrite <- dec_count_eq. cbn [free count alen Trie.push_free].
           split; [reflexivity|]. split; [reflexivity|]. split; [|intros _; apply ST].
           split; [rewrite upd_length; exact L1|]. split; [constructor|]. split.
           ++ exists gn. split; [exact Hg|]. eapply slot_upd_eq; eauto.
           ++ intros j Hj Hjg. rewrite slot_upd_neq by congruence. auto.
        -- rewrite (set_child_ok _ _ _ _ _ S1g). cbn [rbind].
           eexists. rewrite <- dec_count_eq. cbn [free count alen Trie.push_free].
           split; [reflexivity|]. split; [reflexivity|]. split; [|intros _; apply ST].
           split; [rewrite upd_length; exact L1|]. split; [|split].
           ++ cbn [ArenaThm.link]. apply rep_upd; [exact R1s|]. intros Hgs. apply NIg. apply Ist. exact Hgs.
           ++ exists gn. split; [exact Hg|]. eapply slot_upd_eq; eauto.
           ++ intros j Hj Hjg. rewrite slot_upd_neq by congruence. auto.
    + injection HX as <- <-. exists tb1. rewrite <- dec_count_eq. cbn [free count alen Trie.push_free].
      split; [reflexivity|]. split; [reflexivity|]. split; [exact KEEP|discriminate].
  - (* only a right child *)
    injection RS as <- <- <-. injection HX as <- <-.
    rewrite (clear_child_ok _ _ _ _ S0c). cbn [rbind].
    change (child_of n0 true) with (Some ri). cbn [unwrap rbind].
    set (tb1 := upd tb0 (N.to_nat ci) (with_link n0 true None)).
    assert (S1p : slot tb1 pi = Some pn) by (unfold tb1; rewrite slot_upd_neq by congruence; exact S0p).
    rewrite (set_child_ok _ _ _ _ _ S1p). cbn [rbind].
    eexists. rewrite <- dec_count_eq. cbn [free count alen Trie.push_free].
    split; [reflexivity|]. split; [reflexivity|]. split; [|discriminate].
    apply post_keep_root with (pn' := with_link pn rt (Some ri)); auto.
    + unfold tb1. rewrite !upd_length. exact L0.
    + eapply slot_upd_eq; eauto.
    + rewrite npfx_with_link. exact Hp.
    + rewrite nval_with_link. exact Hv.
    + apply child_with_link_same.
    + rewrite child_with_link_other. exact Hsib.
    + apply rep_upd; [unfold tb1; apply rep_upd; auto|]. intros Hj. apply NIc. auto.
    + apply rep_upd; [unfold tb1; apply rep_upd; auto|]. exact NIs.
    + intros j Hj. rewrite slot_upd_neq by (intros ->; contradiction).
      unfold tb1. rewrite slot_upd_neq by (intros ->; apply Hj; auto). auto.
  - (* only a left child *)
    injection RS as <- <- <-. injection HX as <- <-.
    rewrite (clear_child_ok _ _ _ _ S0c). cbn [rbind].
    change (child_of n0 false) with (Some li). cbn [unwrap rbind].
    set (tb1 := upd tb0 (N.to_nat ci) (with_link n0 false None)).
    assert (S1p : slot tb1 pi = Some pn) by (unfold tb1; rewrite slot_upd_neq by congruence; exact S0p).
    rewrite (set_child_ok _ _ _ _ _ S1p). cbn [rbind].
    eexists. rewrite <- dec_count_eq. cbn [free count alen Trie.push_free].
    split; [reflexivity|]. split; [reflexivity|]. split; [|discriminate].
    apply post_keep_root with (pn' := with_link pn rt (Some li)); auto.
    + unfold tb1. rewrite !upd_length. exact L0.
    + eapply slot_upd_eq; eauto.
    + rewrite npfx_with_link. exact Hp.
    + rewrite nval_with_link. exact Hv.
    + apply child_with_link_same.
    + rewrite child_with_link_other. exact Hsib.
    + apply rep_upd; [unfold tb1; apply rep_upd; auto|]. intros Hj. apply NIc. auto.
    + apply rep_upd; [unfold tb1; apply rep_upd; auto|]. exact NIs.
    + intros j Hj. rewrite slot_upd_neq by (intros ->; contradiction).
      unfold tb1. rewrite slot_upd_neq by (intros ->; apply Hj; auto). auto.
  - (* two children: the node stays *)
    injection RS as <- <- <-. injection HX as <- <-.
    exists tb0. rewrite <- dec_count_eq. cbn [free count alen].
    split; [reflexivity|]. split; [reflexivity|]. split; [|discriminate].
    apply post_keep_root with (pn' := pn); auto.
    cbn [ArenaThm.link]. apply rep_node_intro; auto.
Qed.


(* ------------------------------------------------------------------------------------------ *)
(** * [_retain] *)

(** tree level: the result of [ret] is made of slots of its argument *)
Lemma remove_self_sub hp i p v l r a t' fl a' :
  remove_self hp i p v l r a = (t', fl, a') -> sub t' (Node i p v l r).
Proof.
  unfold Trie.remove_self.
  destruct l as [|li lp lv ll lr], r as [|ri rp rv rl rr], hp; cbn [is_node]; intros [= <- _ _];
    try (apply sub_node; apply sub_refl); try apply sub_leaf.
  - exact (sub_csel i p v Leaf (Node ri rp rv rl rr) true).
  - exact (sub_csel i p v (Node li lp lv ll lr) Leaf false).
Qed.

Lemma ret_sub f : forall t hp s t' st s', ret f hp t s = (t', st, s') -> sub t' t.
Proof.
  induction t as [|i p v l IHl r IHr]; intros hp s t' st s' H; cbn [Trie.ret] in H.
  - injection H as <- _ _. apply sub_refl.
  - destruct (ret f true l s) as [[l' sl] s1] eqn:RL. pose proof (IHl _ _ _ _ _ RL) as Sl.
    destruct sl as [fl|].
    2:{ injection H as <- _ _. apply sub_node; [exact Sl|apply sub_refl]. }
    destruct (fl && (hp && is_none v)).
    { apply IHr in H. eapply sub_trans; [exact H|]. exact (sub_csel i p v l r true). }
    destruct (ret f true r s1) as [[r' sr] s2] eqn:RR. pose proof (IHr _ _ _ _ _ RR) as Sr.
    destruct sr as [fr|].
    2:{ injection H as <- _ _. apply sub_node; assumption. }
    destruct (fr && (hp && is_none v)).
    { injection H as <- _ _. eapply sub_trans; [exact Sl|]. exact (sub_csel i p v l r false). }
    destruct v as [x|].
    2:{ injection H as <- _ _. apply sub_node; assumption. }
    destruct (f (length (snd s2)) p x) as [[|]|].
    + injection H as <- _ _. apply sub_node; assumption.
    + destruct (remove_self hp i p (Some x) l' r' (fst s2)) as [[t1 fl1] a1] eqn:RS.
      injection H as <- _ _. eapply sub_trans; [exact (remove_self_sub _ _ _ _ _ _ _ _ _ _ RS)|].
      apply sub_node; assumption.
    + injection H as <- _ _. apply sub_node; assumption.
Qed.

(** lifting the post-condition of a frame below the child [csel rt pl pr] to the parent *)
Lemma lift_phase tb tb1 grp gr pi pp pv pl pr rt ci c C1 :
  rep tb (Some pi) (Node pi pp pv pl pr) -> NoDup (ids (Node pi pp pv pl pr)) ->
  grp_ok tb grp gr pi (Node pi pp pv pl pr) ->
  csel rt pl pr = c -> link c = Some ci -> sub C1 c ->
  rem_post tb tb1 (Some pi) rt ci c C1 ->
  rem_post tb tb1 grp gr pi (Node pi pp pv pl pr) (with_child pi pp pv pl pr rt C1) /\
  rep tb1 (Some pi) (Node pi pp pv (wl rt pl C1) (wr_ rt pr C1)) /\
  NoDup (ids (Node pi pp pv (wl rt pl C1) (wr_ rt pr C1))) /\
  grp_ok tb1 grp gr pi (Node pi pp pv (wl rt pl C1) (wr_ rt pr C1)) /\
  sub (Node pi pp pv (wl rt pl C1) (wr_ rt pr C1)) (Node pi pp pv pl pr).
Proof.
  intros R ND G Ec LK SB Post. subst c. destruct Post as (L1 & R1 & (pn0 & Hpn0 & Hpn1) & F1).
  destruct (rep_node_rt _ _ _ _ _ _ _ rt R) as (pn & Hs & Hp & Hv & Hc & Hsib & Rc & Rs).
  destruct (nodup_node_rt _ _ _ _ _ rt ND) as (NIc & NIs & NDc & NDs & Dcs).
  rewrite Hs in Hpn0. injection Hpn0 as <-.
  assert (Ict : forall j, In j (ids (csel rt pl pr)) -> In j (ids (Node pi pp pv pl pr))).
  { intros j Hj. apply (ids_node_rt pi pp pv pl pr rt). auto. }
  assert (P1 : rem_post tb tb1 grp gr pi (Node pi pp pv pl pr) (with_child pi pp pv pl pr rt C1)).
  { apply post_keep_root with (pn' := with_link pn rt (link C1)); auto.
    - rewrite npfx_with_link. exact Hp.
    - rewrite nval_with_link. exact Hv.
    - apply child_with_link_same.
    - rewrite child_with_link_other. exact Hsib.
    - eapply rep_ext; [exact Rs|]. intros j Hj. apply F1.
      + intros Hjc. exact (Dcs j Hjc Hj).
      + intros [= ->]. contradiction.
    - intros j Hj. apply F1.
      + intros Hjc. apply Hj. auto.
      + intros [= ->]. apply Hj. cbn. auto. }
  pose proof (sub_wc pi pp pv pl pr rt C1 SB) as SP. rewrite with_child_node in SP.
  split; [exact P1|]. destruct P1 as (_ & R1' & G1 & _).
  rewrite link_with_child in R1'. rewrite with_child_node in R1'.
  split; [exact R1'|]. split; [apply SP; exact ND|]. split; [|exact SP].
  destruct grp as [gi|]; [|exact I].
  destruct G as (gn & Hg & Hgc & NIg). destruct G1 as (gn' & Hg' & Hg1).
  rewrite Hg in Hg'. injection Hg' as <-. rewrite link_with_child in Hg1.
  exists (with_link gn gr (Some pi)). split; [exact Hg1|]. split; [apply child_with_link_same|].
  intros Hgi. apply NIg. apply (proj1 SP). exact Hgi.
Qed.

Lemma rem_post_trans tb tb1 tb2 grp gr pi P P1 T2 :
  rem_post tb tb1 grp gr pi P P1 -> rem_post tb1 tb2 grp gr pi P1 T2 -> sub P1 P ->
  rem_post tb tb2 grp gr pi P T2.
Proof.
  intros (L1 & R1 & G1 & F1) (L2 & R2 & G2 & F2) (SP & _).
  split; [congruence|]. split; [exact R2|]. split.
  - destruct grp as [gi|]; [|exact G2].
    destruct G1 as (gn & Hg & Hg1). destruct G2 as (gn1 & Hg1' & Hg2).
    rewrite Hg1 in Hg1'. injection Hg1' as <-. rewrite with_link_twice in Hg2. eauto.
  - intros j Hj Hg. rewrite F2; [apply F1; assumption| |exact Hg].
    intros Hj1. apply Hj. apply SP. exact Hj1.
Qed.

(** what the arena holds after the frame of the child [c'] (status [st]) below the parent
    [Node pi pp pv pl pr]: [_remove_node] has already absorbed the removal of a leaf into the
    parent, which the tree model does in the parent's frame *)
Definition after_child (grp : option N) (pi : N) (pp : pfx) (pv : option V) (pl pr : tree) (rt : bool)
           (c' : tree) (st : rstat) (a : alloc) : tree * alloc * rstat :=
  match st with
  | RDone true =>
    let '(T', a') := absorb (is_some grp) pi pp pv pl pr rt a in
    (T', a', RDone (pflag true grp pv (ssel rt pl pr)))
  | RDone false => (with_child pi pp pv pl pr rt c', a, RDone false)
  | RPanic => (with_child pi pp pv pl pr rt c', a, RPanic)
  end.

Definition coll_of (st : rstat) (grp : option N) (pv : option V) : bool :=
  match st with RDone fl => pcoll fl grp pv | RPanic => false end.

Lemma after_child_w grp pi pp pv pl pr rt x c' st a :
  after_child grp pi pp pv (wl rt pl x) (wr_ rt pr x) rt c' st a = after_child grp pi pp pv pl pr rt c' st a.
Proof. destruct rt; reflexivity. Qed.

(** the frame of [_retain] at the root of [c], the child on side [rt] of a represented parent *)
Definition frame_spec (f : nat -> pfx -> V -> option bool) (c : tree) : Prop :=
  forall fuel tb fr al cnt log pi pp pv pl pr rt grp gr,
  csel rt pl pr = c ->
  rep tb (Some pi) (Node pi pp pv pl pr) -> NoDup (ids (Node pi pp pv pl pr)) ->
  grp_ok tb grp gr pi (Node pi pp pv pl pr) ->
  (ArenaThm.height pfx V c <= fuel)%nat ->
  forall c' st a' log', ret f true c (mkalloc fr al cnt, log) = (c', st, (a', log')) ->
  forall T' a'' sta, after_child grp pi pp pv pl pr rt c' st a' = (T', a'', sta) ->
  exists tb',
    match link c with
    | Some j => a_retain_rec fuel f (mkamap tb fr cnt) log j (Some pi) rt grp gr
    | None => Ok (mkamap tb fr cnt, log, RDone false)
    end = Ok (mkamap tb' (free a'') (count a''), log', sta) /\
    alen a'' = al /\ rem_post tb tb' grp gr pi (Node pi pp pv pl pr) T' /\
    (coll_of st grp pv = true -> stale tb' pi rt (ssel rt pl pr)).

(** the three stages of a frame of [_retain] *)
Definition drop_flag (r : res (Arena2.rres pfx V)) : res (Arena2.rres pfx V) :=
  r' <- r ;; let '(a, l, s) := r' in Ok (a, l, match s with RPanic => RPanic | RDone _ => RDone false end).

Definition a_rstep (fu : nat) (f : nat -> pfx -> V -> option bool) (am1 : amap) (log1 : list (pfx * V))
           (idx : N) (par : option N) (par_right : bool) (grp : option N) (grp_right : bool)
           (idx_removed : bool) (o : option N) : res (Arena2.rres pfx V) :=
  match o with
  | Some rg =>
    if idx_removed then a_retain_rec fu f am1 log1 rg par par_right grp grp_right
    else r <- a_retain_rec fu f am1 log1 rg (Some idx) true par par_right ;;
         let '(a, l, s) := r in Ok (a, l, match s with RPanic => RPanic | RDone _ => RDone false end)
  | None => Ok (am1, log1, RDone false)
  end.

Definition a_tail (f : nat -> pfx -> V -> option bool) (am2 : amap) (log2 : list (pfx * V))
           (idx : N) (par : option N) (par_right : bool) (grp : option N) (grp_right : bool)
           (par_removed : bool) : res (Arena2.rres pfx V) :=
  n3 <- rd (tbl am2) idx ;;
  match nval n3 with
  | Some val =>
    match f (length log2) (npfx n3) val with
    | None => Ok (am2, log2, RPanic)
    | Some true => Ok (am2, (npfx n3, val) :: log2, RDone par_removed)
    | Some false =>
      '(am3, _, par_del) <- a_remove_node am2 idx par par_right grp grp_right ;;
      Ok (am3, (npfx n3, val) :: log2, RDone par_del)
    end
  | None => Ok (am2, log2, RDone par_removed)
  end.

Lemma retain_unfold fu f am log idx par pr grp gr :
  a_retain_rec (S fu) f am log idx par pr grp gr =
  (n1 <- rd (tbl am) idx ;;
   r1 <- match nleft n1 with
         | Some lf => a_retain_rec fu f am log lf (Some idx) false par pr
         | None => Ok (am, log, RDone false)
         end ;;
   let '(am1, log1, st1) := r1 in
   match st1 with
   | RPanic => Ok (am1, log1, RPanic)
   | RDone idx_removed =>
     n2 <- rd (tbl am1) idx ;;
     r2 <- a_rstep fu f am1 log1 idx par pr grp gr idx_removed (nright n2) ;;
     let '(am2, log2, st2) := r2 in
     match st2 with
     | RPanic => Ok (am2, log2, RPanic)
     | RDone par_removed => a_tail f am2 log2 idx par pr grp gr par_removed
     end
   end).
Proof. reflexivity. Qed.

Lemma rstep_true fu f am1 log1 idx par pr grp gr o :
  a_rstep fu f am1 log1 idx par pr grp gr true o
  = match o with
    | Some rg => a_retain_rec fu f am1 log1 rg par pr grp gr
    | None => Ok (am1, log1, RDone false)
    end.
Proof. destruct o; reflexivity. Qed.

Lemma rstep_false fu f am1 log1 idx par pr grp gr o :
  a_rstep fu f am1 log1 idx par pr grp gr false o
  = drop_flag match o with
              | Some rg => a_retain_rec fu f am1 log1 rg (Some idx) true par pr
              | None => Ok (am1, log1, RDone false)
              end.
Proof. destruct o; reflexivity. Qed.

Lemma wl_wl rt l x y : wl rt (wl rt l x) y = wl rt l y.
Proof. destruct rt; reflexivity. Qed.
Lemma wr_wr rt r x y : wr_ rt (wr_ rt r x) y = wr_ rt r y.
Proof. destruct rt; reflexivity. Qed.

(** the last stage: the node's own value, when the node [ci] still stands below its parent *)
Lemma tail_sim f tb fr al cnt log pi pp pv pl pr rt grp gr ci cp cv cl cr :
  csel rt pl pr = Node ci cp cv cl cr ->
  rep tb (Some pi) (Node pi pp pv pl pr) -> NoDup (ids (Node pi pp pv pl pr)) ->
  grp_ok tb grp gr pi (Node pi pp pv pl pr) ->
  forall c' st a' log',
    match cv with
    | None => (Node ci cp None cl cr, RDone false, (mkalloc fr al cnt, log))
    | Some x =>
      match f (length log) cp x with
      | None => (Node ci cp cv cl cr, RPanic, (mkalloc fr al cnt, log))
      | Some true => (Node ci cp cv cl cr, RDone false, (mkalloc fr al cnt, (cp, x) :: log))
      | Some false =>
        let '(t', fl', a1) := remove_self true ci cp cv cl cr (mkalloc fr al cnt) in
        (t', RDone fl', (a1, (cp, x) :: log))
      end
    end = (c', st, (a', log')) ->
  forall T' a'' sta, after_child grp pi pp pv pl pr rt c' st a' = (T', a'', sta) ->
  exists tb',
    a_tail f (mkamap tb fr cnt) log ci (Some pi) rt grp gr false
    = Ok (mkamap tb' (free a'') (count a''), log', sta) /\
    alen a'' = al /\ rem_post tb tb' grp gr pi (Node pi pp pv pl pr) T' /\
    (coll_of st grp pv = true -> stale tb' pi rt (ssel rt pl pr)).
Proof.
  intros C R ND G c' st a' log' H T' a'' sta AC.
  destruct (rep_node_rt _ _ _ _ _ _ _ rt R) as (pn & Hs & Hp & Hv & Hc & Hsib & Rc & Rs).
  rewrite C in Rc. cbn [ArenaThm.link] in Rc.
  pose proof (rep_node_inv _ _ _ _ _ _ _ Rc) as (_ & Hsc & _ & _).
  unfold a_tail. cbn [tbl]. rewrite (rd_ok _ _ _ Hsc). cbn [rbind nval npfx].
  assert (SAME : forall stx logx,
            (Node ci cp cv cl cr, stx, (mkalloc fr al cnt, logx)) = (c', st, (a', log')) ->
            stx = RDone false \/ stx = RPanic ->
            exists tb', Ok (mkamap tb fr cnt, logx, stx) = Ok (mkamap tb' (free a'') (count a''), log', sta) /\
              alen a'' = al /\ rem_post tb tb' grp gr pi (Node pi pp pv pl pr) T' /\
              (coll_of st grp pv = true -> stale tb' pi rt (ssel rt pl pr))).
  { intros stx logx E Hst. injection E as <- <- <- <-.
    assert (AC' : (T', a'', sta) = (Node pi pp pv pl pr, mkalloc fr al cnt, stx)).
    { destruct Hst as [-> | ->]; unfold after_child in AC; rewrite <- C, with_child_csel in AC; congruence. }
    injection AC' as -> -> ->. exists tb. split; [reflexivity|]. split; [reflexivity|].
    split; [apply rem_post_refl; auto|]. destruct Hst as [-> | ->]; cbn; discriminate. }
  destruct cv as [x|].
  2:{ apply (SAME (RDone false) log); auto. }
  destruct (f (length log) cp x) as [[|]|].
  - apply (SAME (RDone false) ((cp, x) :: log)); auto.
  - destruct (remove_self true ci cp (Some x) cl cr (mkalloc fr al cnt)) as [[t1 fl1] a1] eqn:RS.
    injection H as <- <- <- <-.
    assert (HX : (if fl1 then absorb (is_some grp) pi pp pv pl pr rt a1
                  else (with_child pi pp pv pl pr rt t1, a1)) = (T', a'') /\
                 sta = RDone (pflag fl1 grp pv (ssel rt pl pr))).
    { unfold after_child in AC. destruct fl1.
      - destruct (absorb (is_some grp) pi pp pv pl pr rt a1) as [T1 a2]. injection AC as <- <- <-. auto.
      - injection AC as <- <- <-. auto. }
    destruct HX as (HX & ->).
    destruct (remove_node_child' tb fr al cnt pi pp pv pl pr rt ci cp (Some x) cl cr grp gr C R ND G
                                 _ _ _ RS _ _ HX) as (tb' & E & Al & Post & St).
    rewrite E. cbn [rbind]. exists tb'. split; [reflexivity|]. split; [exact Al|]. split; [exact Post|exact St].
  - apply (SAME RPanic log); auto.
Qed.

Lemma rstep_node fu f am1 log1 idx par pr grp gr (t : tree) :
  a_rstep fu f am1 log1 idx par pr grp gr (is_node t) (link t)
  = match link t with
    | Some rg => a_retain_rec fu f am1 log1 rg par pr grp gr
    | None => Ok (am1, log1, RDone false)
    end.
Proof. destruct t; reflexivity. Qed.

Lemma ret_frame f : forall c, frame_spec f c.
Proof.
  induction c as [|ci cp cv cl IHl cr IHr]; unfold frame_spec;
    intros fuel tb fr al cnt log pi pp pv pl pr rt grp gr C R ND G Hf c' st a' log' H T' a'' sta AC.
  - cbn [Trie.ret] in H. injection H as <- <- <- <-. unfold after_child in AC. injection AC as <- <- <-.
    cbn [ArenaThm.link]. exists tb. split; [reflexivity|]. split; [reflexivity|]. split.
    + rewrite <- C, with_child_csel. apply rem_post_refl; auto.
    + cbn. discriminate.
  - destruct fuel as [|fu]; [cbn [ArenaThm.height] in Hf; lia|].
    cbn [ArenaThm.height] in Hf.
    destruct (rep_node_rt _ _ _ _ _ _ _ rt R) as (pn & Hs & Hp & Hv & Hc & Hsib & Rc & Rs).
    destruct (nodup_node_rt _ _ _ _ _ rt ND) as (NIc & NIs & NDc & NDs & Dcs).
    rewrite C in Hc, Rc, NIc, NDc, Dcs. cbn [ArenaThm.link] in Hc, Rc |- *.
    pose proof (rep_node_inv _ _ _ _ _ _ _ Rc) as (_ & Hsc & Rcl & Rcr).
    assert (Gc : grp_ok tb (Some pi) rt ci (Node ci cp cv cl cr)) by (exists pn; auto).
    assert (Icc : In ci (ids (Node ci cp cv cl cr))) by (cbn; auto).
    rewrite retain_unfold. cbn [tbl]. rewrite (rd_ok _ _ _ Hsc). cbn [rbind nleft].
    cbn [Trie.ret] in H.
    destruct (ret f true cl (mkalloc fr al cnt, log)) as [[l' sl] [a_l log_l]] eqn:RL.
    destruct (after_child (Some pi) ci cp cv cl cr false l' sl a_l) as [[C1 a1] sta1] eqn:AC1.
    destruct (IHl fu tb fr al cnt log ci cp cv cl cr false (Some pi) rt eq_refl Rc NDc Gc ltac:(lia)
                  _ _ _ _ RL _ _ _ AC1) as (tb1 & E1 & Al1 & Post1 & St1).
    rewrite E1. cbn [rbind]. clear E1.
    pose proof (ret_sub f _ _ _ _ _ _ RL) as SBl.
    destruct (ret_acct f cl true _ _ _ _ RL) as (_ & LFl & _).
    destruct sl as [fl|].
    2:{ (* the closure panics below the left child *)
      unfold after_child in AC1. injection AC1 as <- <- <-.
      injection H as <- <- <- <-. unfold after_child in AC. injection AC as <- <- <-.
      assert (SB1 : sub (with_child ci cp cv cl cr false l') (Node ci cp cv cl cr)).
      { apply (sub_wc ci cp cv cl cr false l'). exact SBl. }
      destruct (lift_phase tb tb1 grp gr pi pp pv pl pr rt ci _ _ R ND G C eq_refl SB1 Post1) as (PP & _).
      exists tb1. split; [reflexivity|]. split; [exact Al1|]. split; [exact PP|]. cbn. discriminate. }
    cbn [andb] in H.
    destruct a_l as [frl all cntl].
    destruct (fl && is_none cv) eqn:B.
    + (* the node is collapsed by the removal of its left child *)
      apply andb_prop in B. destruct B as [-> B]. destruct cv as [y|]; [discriminate|]. clear B.
      unfold after_child, Trie.absorb, pflag, pcoll in AC1.
      cbn [is_some is_none negb andb ArenaThm.ssel] in AC1.
      injection AC1 as <- <- <-. cbn [alen push_free] in Al1. subst all.
      assert (St1' : stale tb1 ci false cr) by (apply St1; reflexivity).
      destruct St1' as (n1 & Hn1 & Hn1v & Hn1c). cbn [negb] in Hn1c.
      assert (SB1 : sub cr (Node ci cp None cl cr)) by (exact (sub_csel ci cp None cl cr true)).
      destruct (lift_phase tb tb1 grp gr pi pp pv pl pr rt ci _ cr R ND G C eq_refl SB1 Post1)
        as (PP & RP1 & NDP1 & GP1 & SP1).
      cbn [tbl free count push_free]. rewrite (rd_ok _ _ _ Hn1). cbn [rbind].
      change (nright n1) with (child_of n1 true). rewrite Hn1c.
      cbn [fst snd push_free free alen count] in H.
      rewrite <- (after_child_w grp pi pp pv pl pr rt cr) in AC.
      destruct (IHr fu tb1 (ci :: frl) al cntl log_l pi pp pv (wl rt pl cr) (wr_ rt pr cr) rt grp gr
                    (csel_w rt pl pr cr) RP1 NDP1 GP1 ltac:(lia) _ _ _ _ H _ _ _ AC)
        as (tb2 & E2 & Al2 & Post2 & St2).
      rewrite rstep_node, E2. cbn [rbind]. clear E2.
      assert (Hn2 : slot tb2 ci = Some n1).
      { destruct Post2 as (_ & _ & _ & F2). rewrite F2; [exact Hn1| |].
        - intros Hci. apply (ids_node_rt pi pp pv _ _ rt) in Hci. rewrite csel_w, ssel_w in Hci.
          destruct Hci as [->|[Hci|Hci]].
          + apply NIc. exact Icc.
          + cbn [Slots.ids] in NDc. inversion NDc as [|? ? NIx _]; subst. apply NIx. apply in_or_app. auto.
          + exact (Dcs ci Icc Hci).
        - intros ->. destruct G as (gn & _ & _ & NIg). apply NIg.
          apply (ids_node_rt pi pp pv pl pr rt). rewrite C. auto. }
      exists tb2. split.
      { destruct sta as [b|]; [|reflexivity].
        unfold a_tail. cbn [tbl]. rewrite (rd_ok _ _ _ Hn2). cbn [rbind]. rewrite Hn1v. reflexivity. }
      split; [exact Al2|]. split.
      * rewrite with_child_node in PP. exact (rem_post_trans _ _ _ _ _ _ _ _ _ PP Post2 SP1).
      * intros Hcl. rewrite <- (ssel_w rt pl pr cr). apply St2. exact Hcl.
    + (* the node still stands after its left child *)
      assert (EC1 : (C1, a1, sta1) = (Node ci cp cv l' cr, mkalloc frl all cntl, RDone false)).
      { destruct fl.
        - destruct cv as [y|]; [|discriminate B]. pose proof (LFl eq_refl) as ->.
          unfold after_child, Trie.absorb, pflag, pcoll in AC1.
          cbn [is_some is_none negb andb Trie.with_child] in AC1. rewrite <- AC1. reflexivity.
        - unfold after_child in AC1. cbn [Trie.with_child] in AC1. rewrite <- AC1. reflexivity. }
      injection EC1 as -> -> ->. clear AC1 St1 LFl. cbn [alen] in Al1. subst all.
      pose proof Post1 as (L1 & RC1 & (pn0 & Hpn0 & Hpn1) & F1).
      cbn [ArenaThm.link] in RC1, Hpn1.
      pose proof (rep_node_inv _ _ _ _ _ _ _ RC1) as (_ & Hsc1 & Rl1 & Rr1).
      cbn [tbl free count]. rewrite (rd_ok _ _ _ Hsc1). cbn [rbind nright].
      rewrite rstep_false.
      assert (SB1 : sub (Node ci cp cv l' cr) (Node ci cp cv cl cr)).
      { apply sub_node; [exact SBl|apply sub_refl]. }
      destruct (lift_phase tb tb1 grp gr pi pp pv pl pr rt ci _ _ R ND G C eq_refl SB1 Post1)
        as (PP & RP1 & NDP1 & GP1 & SP1).
      assert (NDC1 : NoDup (ids (Node ci cp cv l' cr))) by (apply SB1; exact NDc).
      assert (GC1 : grp_ok tb1 (Some pi) rt ci (Node ci cp cv l' cr)).
      { exists (with_link pn0 rt (Some ci)). split; [exact Hpn1|]. split; [apply child_with_link_same|].
        intros Hpi. apply NIc. apply (proj1 SB1). exact Hpi. }
      destruct (ret f true cr (mkalloc frl al cntl, log_l)) as [[r' sr] [a_r log_r]] eqn:RR.
      destruct (after_child (Some pi) ci cp cv l' cr true r' sr a_r) as [[C2 a2] sta2] eqn:AC2.
      destruct (IHr fu tb1 frl al cntl log_l ci cp cv l' cr true (Some pi) rt eq_refl RC1 NDC1 GC1 ltac:(lia)
                    _ _ _ _ RR _ _ _ AC2) as (tb2 & E2 & Al2 & Post2 & St2).
      rewrite E2. cbn [drop_flag rbind]. clear E2.
      pose proof (ret_sub f _ _ _ _ _ _ RR) as SBr.
      destruct (ret_acct f cr true _ _ _ _ RR) as (_ & LFr & _).
      assert (SB2 : sub C2 (Node ci cp cv l' cr)).
      { unfold after_child, Trie.absorb in AC2.
        destruct sr as [[|]|]; [destruct (is_some (Some pi) && is_none cv)|..];
          cbn [Trie.with_child] in AC2; injection AC2 as <- _ _.
        - exact (sub_csel ci cp cv l' cr false).
        - apply sub_node; [apply sub_refl|apply sub_leaf].
        - apply sub_node; [apply sub_refl|exact SBr].
        - apply sub_node; [apply sub_refl|exact SBr]. }
      destruct (lift_phase tb1 tb2 grp gr pi pp pv _ _ rt ci _ C2 RP1 NDP1 GP1
                           (csel_w rt pl pr (Node ci cp cv l' cr)) eq_refl SB2 Post2)
        as (PP2 & RP2 & NDP2 & GP2 & SP2).
      rewrite with_child_w in PP2. rewrite wl_wl, wr_wr in RP2, NDP2, GP2, SP2.
      assert (PP12 : rem_post tb tb2 grp gr pi (Node pi pp pv pl pr) (with_child pi pp pv pl pr rt C2)).
      { rewrite with_child_node in PP. exact (rem_post_trans _ _ _ _ _ _ _ _ _ PP PP2 SP1). }
      assert (SP12 : sub (Node pi pp pv (wl rt pl C2) (wr_ rt pr C2)) (Node pi pp pv pl pr)).
      { eapply sub_trans; eauto. }
      destruct sr as [fg|].
      2:{ (* the closure panics below the right child *)
        unfold after_child in AC2. cbn [Trie.with_child] in AC2. injection AC2 as <- <- <-.
        injection H as <- <- <- <-. unfold after_child in AC. injection AC as <- <- <-.
        exists tb2. split; [reflexivity|]. split; [exact Al2|]. split; [exact PP12|]. cbn. discriminate. }
      cbn [andb] in H.
      destruct a_r as [frr alr cntr].
      destruct (fg && is_none cv) eqn:B2.
      * (* the node is collapsed by the removal of its right child; the flag is dropped *)
        apply andb_prop in B2. destruct B2 as [-> B2]. destruct cv as [y|]; [discriminate|]. clear B2.
        unfold after_child, Trie.absorb, pflag, pcoll in AC2.
        cbn [is_some is_none negb andb ArenaThm.ssel] in AC2.
        injection AC2 as <- <- <-.
        assert (St2' : stale tb2 ci true l') by (apply St2; reflexivity).
        destruct St2' as (n2 & Hn2 & Hn2v & _).
        cbn [fst snd] in H. injection H as <- <- <- <-.
        unfold after_child in AC. injection AC as <- <- <-.
        exists tb2. split.
        { unfold a_tail. cbn [tbl]. rewrite (rd_ok _ _ _ Hn2). cbn [rbind]. rewrite Hn2v. reflexivity. }
        split; [exact Al2|]. split; [exact PP12|]. cbn. discriminate.
      * (* the node still stands: its own value *)
        assert (EC2 : (C2, a2, sta2) = (Node ci cp cv l' r', mkalloc frr alr cntr, RDone false)).
        { destruct fg.
          - destruct cv as [y|]; [|discriminate B2]. pose proof (LFr eq_refl) as ->.
            unfold after_child, Trie.absorb, pflag, pcoll in AC2.
            cbn [is_some is_none negb andb Trie.with_child] in AC2. rewrite <- AC2. reflexivity.
          - unfold after_child in AC2. cbn [Trie.with_child] in AC2. rewrite <- AC2. reflexivity. }
        injection EC2 as -> -> ->. clear AC2 St2 LFr. cbn [alen] in Al2. subst alr.
        cbn [fst snd] in H.
        rewrite <- (after_child_w grp pi pp pv pl pr rt (Node ci cp cv l' r')) in AC.
        destruct (tail_sim f tb2 frr al cntr log_r pi pp pv _ _ rt grp gr ci cp cv l' r'
                           (csel_w rt pl pr (Node ci cp cv l' r')) RP2 NDP2 GP2 _ _ _ _ H _ _ _ AC)
          as (tb3 & E3 & Al3 & Post3 & St3).
        exists tb3. split; [exact E3|]. split; [exact Al3|]. split.
        -- rewrite with_child_node in PP12. exact (rem_post_trans _ _ _ _ _ _ _ _ _ PP12 Post3 SP12).
        -- intros Hcl. rewrite <- (ssel_w rt pl pr (Node ci cp cv l' r')). apply St3. exact Hcl.
Qed.

(** the frame at the root: no parent, nothing is ever unlinked above *)
Lemma ret_root_sim f fuel tb fr al cnt log i p v l r :
  rep tb (Some i) (Node i p v l r) -> NoDup (ids (Node i p v l r)) ->
  (ArenaThm.height pfx V (Node i p v l r) <= fuel)%nat ->
  forall t' st a' log', ret f false (Node i p v l r) (mkalloc fr al cnt, log) = (t', st, (a', log')) ->
  exists tb', a_retain_rec fuel f (mkamap tb fr cnt) log i None false None false
              = Ok (mkamap tb' (free a') (count a'), log', st) /\
    rep tb' (Some i) t' /\ length tb' = length tb /\ alen a' = al.
Proof.
  intros R ND Hf t' st a' log' H.
  destruct fuel as [|fu]; [cbn [ArenaThm.height] in Hf; lia|]. cbn [ArenaThm.height] in Hf.
  pose proof (rep_node_inv _ _ _ _ _ _ _ R) as (_ & Hs & Rl & Rr).
  rewrite retain_unfold. cbn [tbl]. rewrite (rd_ok _ _ _ Hs). cbn [rbind nleft].
  cbn [Trie.ret] in H.
  (* the left child *)
  destruct (ret f true l (mkalloc fr al cnt, log)) as [[l' sl] [a_l log_l]] eqn:RL.
  destruct (after_child None i p v l r false l' sl a_l) as [[T1 a1] sta1] eqn:AC1.
  destruct (ret_frame f l fu tb fr al cnt log i p v l r false None false eq_refl R ND I ltac:(lia)
                      _ _ _ _ RL _ _ _ AC1) as (tb1 & E1 & Al1 & Post1 & _).
  rewrite E1. cbn [rbind]. clear E1.
  pose proof (ret_sub f _ _ _ _ _ _ RL) as SBl.
  destruct (ret_acct f l true _ _ _ _ RL) as (_ & LFl & _).
  destruct Post1 as (L1 & R1 & LK1 & _).
  destruct sl as [fl|].
  2:{ unfold after_child in AC1. cbn [Trie.with_child] in AC1. injection AC1 as <- <- <-.
      injection H as <- <- <- <-. exists tb1. split; [reflexivity|]. auto. }
  cbn [andb] in H. rewrite Bool.andb_false_r in H.
  assert (EC1 : (T1, a1, sta1) = (Node i p v l' r, a_l, RDone false)).
  { destruct fl.
    - pose proof (LFl eq_refl) as ->. unfold after_child, Trie.absorb, pflag, pcoll in AC1.
      cbn [is_some is_none negb andb Trie.with_child] in AC1. rewrite <- AC1. reflexivity.
    - unfold after_child in AC1. cbn [Trie.with_child] in AC1. rewrite <- AC1. reflexivity. }
  injection EC1 as -> -> ->. clear AC1 LFl LK1. cbn [ArenaThm.link] in R1.
  destruct a_l as [frl all cntl]. cbn [alen] in Al1. subst all.
  pose proof (rep_node_inv _ _ _ _ _ _ _ R1) as (_ & Hs1 & Rl1 & Rr1).
  cbn [tbl free count]. rewrite (rd_ok _ _ _ Hs1). cbn [rbind nright]. rewrite rstep_false.
  assert (SB1 : sub (Node i p v l' r) (Node i p v l r)) by (apply sub_node; [exact SBl|apply sub_refl]).
  assert (ND1 : NoDup (ids (Node i p v l' r))) by (apply SB1; exact ND).
  (* the right child *)
  destruct (ret f true r (mkalloc frl al cntl, log_l)) as [[r' sr] [a_r log_r]] eqn:RR.
  destruct (after_child None i p v l' r true r' sr a_r) as [[T2 a2] sta2] eqn:AC2.
  destruct (ret_frame f r fu tb1 frl al cntl log_l i p v l' r true None false eq_refl R1 ND1 I ltac:(lia)
                      _ _ _ _ RR _ _ _ AC2) as (tb2 & E2 & Al2 & Post2 & _).
  rewrite E2. cbn [drop_flag rbind]. clear E2.
  pose proof (ret_sub f _ _ _ _ _ _ RR) as SBr.
  destruct (ret_acct f r true _ _ _ _ RR) as (_ & LFr & _).
  destruct Post2 as (L2 & R2 & LK2 & _).
  destruct sr as [fg|].
  2:{ unfold after_child in AC2. cbn [Trie.with_child] in AC2. injection AC2 as <- <- <-.
      injection H as <- <- <- <-. exists tb2. split; [reflexivity|]. split; [exact R2|]. split; [congruence|exact Al2]. }
  cbn [andb] in H. rewrite Bool.andb_false_r in H.
  assert (EC2 : (T2, a2, sta2) = (Node i p v l' r', a_r, RDone false)).
  { destruct fg.
    - pose proof (LFr eq_refl) as ->. unfold after_child, Trie.absorb, pflag, pcoll in AC2.
      cbn [is_some is_none negb andb Trie.with_child] in AC2. rewrite <- AC2. reflexivity.
    - unfold after_child in AC2. cbn [Trie.with_child] in AC2. rewrite <- AC2. reflexivity. }
  injection EC2 as -> -> ->. clear AC2 LFr LK2. cbn [ArenaThm.link] in R2.
  destruct a_r as [frr alr cntr]. cbn [alen] in Al2. subst alr.
  pose proof (rep_node_inv _ _ _ _ _ _ _ R2) as (_ & Hs2 & Rl2 & Rr2).
  assert (SB2 : sub (Node i p v l' r') (Node i p v l' r)) by (apply sub_node; [apply sub_refl|exact SBr]).
  assert (ND2 : NoDup (ids (Node i p v l' r'))) by (apply SB2; exact ND1).
  (* the root's own value *)
  unfold a_tail. cbn [tbl free count]. rewrite (rd_ok _ _ _ Hs2). cbn [rbind nval npfx].
  cbn [fst snd] in H.
  assert (L12 : length tb2 = length tb) by congruence.
  destruct v as [x|].
  2:{ injection H as <- <- <- <-. exists tb2. split; [reflexivity|]. auto. }
  destruct (f (length log_r) p x) as [[|]|].
  - injection H as <- <- <- <-. exists tb2. split; [reflexivity|]. auto.
  - destruct (remove_node_root tb2 frr al cntr i p (Some x) l' r' R2 ND2) as (tb3 & E3 & RS & L3 & R3).
    rewrite RS in H. injection H as <- <- <- <-. rewrite E3. cbn [rbind].
    exists tb3. split; [reflexivity|]. split; [exact R3|]. split; [congruence|reflexivity].
  - injection H as <- <- <- <-. exists tb2. split; [reflexivity|]. auto.
Qed.

Theorem retain_fuel_bound am m f fuel : Rep am m -> minv m -> (length (tbl am) <= fuel)%nat ->
  exists am', a_retain_fuel fuel f am = Ok (am', snd (fst (retain f m)), snd (retain f m)) /\
              Rep am' (fst (fst (retain f m))).
Proof.
  intros R M F. pose proof (Rep_height _ _ R M) as HH.
  destruct am as [tb fr cnt]. destruct m as [t [fr' al cnt']].
  destruct R as (R & Ef & El & Ec). unfold Slots.minv in M.
  cbn [tbl afree acount root Trie.al free alen count] in *. subst fr' cnt'.
  pose proof (proj1 (NoDup_app_inv _ _ (minv_nodup_all _ _ M))) as NDt.
  destruct (rep_some_inv _ _ _ R) as (p & v & l & r & ->).
  unfold Trie.retain, Arena2.a_retain_fuel. cbn [root Trie.al].
  destruct (ret f false (Node 0%N p v l r) (mkalloc fr al cnt, [])) as [[t' st] [a' log']] eqn:RT.
  destruct (ret_root_sim f fuel tb fr al cnt [] 0%N p v l r R NDt ltac:(lia) _ _ _ _ RT)
    as (tb' & E & R' & L' & Al).
  rewrite E. cbn [rbind fst snd]. eexists. split; [reflexivity|].
  split; [exact R'|]. cbn [tbl afree acount root Trie.al]. rewrite L', Al. auto.
Qed.

Theorem retain_sim am m f : Rep am m -> minv m ->
  exists am', a_retain f am = Ok (am', snd (fst (retain f m)), snd (retain f m)) /\
              Rep am' (fst (fst (retain f m))).
Proof. intros R M. apply (retain_fuel_bound am m f _ R M). lia. Qed.


(* ------------------------------------------------------------------------------------------ *)
(** * Histories over the extended alphabet, from the empty map

    [remove_children] compares its selector with the root's key through [peq]; the tree model
    diverts only the zero-length selector, so the histories need the two facts about the prefix
    operations that make the guard [rc_guard] an invariant: equal prefixes have equal lengths, and
    [zero()] has length 0 (both follow from [Laws.prefix_laws]). *)
Section Hist.
Hypothesis PEQ_LEN : forall p q, peq p q = true -> plen p = plen q.
Hypothesis ZERO_LEN : plen pzero = 0%N.

Notation remove_minv := (Slots.remove_minv pfx V peq contains is_bit_set plen lcp pzero).
Notation a_step := (Arena.a_step pfx V peq contains is_bit_set plen lcp).
Notation t_step := (Arena.t_step pfx V peq contains is_bit_set plen lcp).
Notation rem := (Trie.rem pfx V peq contains is_bit_set plen).
Notation remove := (Trie.remove pfx V peq contains is_bit_set plen).
Notation remove_keep_tree := (Trie.remove_keep_tree pfx V peq contains is_bit_set plen).
Notation aop2 := (Arena2.aop2 pfx V).
Notation a_step2 := (Arena2.a_step2 pfx V peq contains is_bit_set plen lcp pzero).
Notation t_step2 := (Arena2.t_step2 pfx V peq contains is_bit_set plen lcp pzero).
Notation a_run2_from := (Arena2.a_run2_from pfx V peq contains is_bit_set plen lcp pzero).
Notation a_run2 := (Arena2.a_run2 pfx V peq contains is_bit_set plen lcp pzero).
Notation t_run2_from := (Arena2.t_run2_from pfx V peq contains is_bit_set plen lcp pzero).
Notation t_run2 := (Arena2.t_run2 pfx V peq contains is_bit_set plen lcp pzero).
Notation t_entry_insert := (Arena2.t_entry_insert pfx V peq contains is_bit_set plen lcp).
Notation t_entry_remove := (Arena2.t_entry_remove pfx V peq contains is_bit_set plen).
Notation t_vm := (Arena2.t_vm pfx V).

(** the root's key has length zero *)
Definition rootz (m : pmap) : Prop := plen (tpfx (root m)) = 0%N.

Lemma rootz_guard m q : rootz m -> rc_guard m q.
Proof.
  unfold rootz, rc_guard. intros Z NZ. destruct (peq (tpfx (root m)) q) eqn:E; [|reflexivity].
  apply PEQ_LEN in E. rewrite Z in E. rewrite <- E in NZ. discriminate.
Qed.

Lemma tpfx_wc i p v l r rt c : tpfx (with_child i p v l r rt c) = p.
Proof. destruct rt; reflexivity. Qed.

Lemma ins_root t q x a : plen (tpfx (fst (fst (ins t q x a)))) = plen (tpfx t).
Proof.
  destruct t as [|i p v l r]; [reflexivity|]. cbn [Trie.ins]. destruct (peq p q) eqn:E.
  { cbn. symmetry. apply PEQ_LEN. exact E. }
  destruct (if to_right p q then r else l) as [|ci cp cv cl cr].
  { destruct (Trie.new_node a true). cbn [fst]. rewrite tpfx_wc. reflexivity. }
  destruct (contains cp q).
  { destruct (ins (Node ci cp cv cl cr) q x a) as [[c' o] a']. cbn [fst]. rewrite tpfx_wc. reflexivity. }
  destruct (contains q cp).
  { destruct (Trie.new_node a true). cbn [fst]. rewrite tpfx_wc. reflexivity. }
  destruct (Trie.new_node a false) as [b a1]. destruct (Trie.new_node a1 true).
  cbn [fst]. rewrite tpfx_wc. reflexivity.
Qed.

Lemma rem_root t q a : tpfx (fst (fst (fst (rem false t q a)))) = tpfx t.
Proof.
  destruct t as [|i p v l r]; [reflexivity|]. cbn [Trie.rem]. destruct (peq p q).
  { unfold Trie.remove_self. destruct l, r; reflexivity. }
  destruct (if to_right p q then r else l) as [|ci cp cv cl cr]; [reflexivity|].
  destruct (contains cp q); [|reflexivity].
  destruct (rem true (Node ci cp cv cl cr) q a) as [[[c' fl] o] a']. destruct fl.
  - unfold Trie.absorb. cbn [andb fst]. rewrite tpfx_wc. reflexivity.
  - cbn [fst]. rewrite tpfx_wc. reflexivity.
Qed.

Lemma modify_root t q h :
  (forall p v, peq p q = true -> plen (fst (h p v)) = plen p) ->
  plen (tpfx (modify t q h)) = plen (tpfx t).
Proof.
  intros Hh. destruct t as [|i p v l r]; [reflexivity|]. cbn [Trie.modify]. destruct (peq p q) eqn:E.
  { specialize (Hh p v E). destruct (h p v). exact Hh. }
  destruct (if to_right p q then r else l) as [|ci cp cv cl cr]; [reflexivity|].
  destruct (contains cp q); [|reflexivity]. rewrite tpfx_wc. reflexivity.
Qed.

Lemma rc_root t q a : tpfx (fst (rc t q a)) = tpfx t.
Proof.
  destruct t as [|i p v l r]; [reflexivity|]. cbn [Trie.rc]. destruct (peq p q); [reflexivity|].
  destruct (if to_right p q then r else l) as [|ci cp cv cl cr]; [reflexivity|].
  destruct (contains cp q).
  - destruct (peq cp q).
    + cbn [fst]. rewrite tpfx_wc. reflexivity.
    + destruct (rc (Node ci cp cv cl cr) q a). cbn [fst]. rewrite tpfx_wc. reflexivity.
  - destruct (contains q cp); [|reflexivity]. cbn [fst]. rewrite tpfx_wc. reflexivity.
Qed.

Lemma ret_root f t s : tpfx (fst (fst (ret f false t s))) = tpfx t.
Proof.
  destruct t as [|i p v l r]; [reflexivity|]. cbn [Trie.ret].
  destruct (ret f true l s) as [[l' sl] s1]. destruct sl as [fl|]; [|reflexivity].
  cbn [andb]. rewrite Bool.andb_false_r.
  destruct (ret f true r s1) as [[r' sr] s2]. destruct sr as [fg|]; [|reflexivity].
  cbn [andb]. rewrite Bool.andb_false_r.
  destruct v as [x|]; [|reflexivity].
  destruct (f (length (snd s2)) p x) as [[|]|]; try reflexivity.
  unfold Trie.remove_self. destruct l', r'; reflexivity.
Qed.

Lemma subst_root (t : tree) pa v' : is_node (subtree t pa) = true ->
  tpfx (subst t pa (set_tval (subtree t pa) v')) = tpfx t.
Proof.
  destruct t as [|i p v l r]; [rewrite subtree_leaf; discriminate|].
  destruct pa as [|b pa]; [reflexivity|]. intros _. cbn [subst]. destruct b; reflexivity.
Qed.

Lemma t_vm_inv m pa v' : minv m -> rootz m ->
  let m' := t_vm m pa (fun T => subst T pa (set_tval (subtree T pa) v')) in minv m' /\ rootz m'.
Proof.
  intros M Z. unfold Arena2.t_vm. destruct (is_node (subtree (root m) pa)) eqn:IN; [|auto]. split.
  - unfold Slots.minv in *. cbn [root Trie.al]. eapply slots_ok_ext; [|reflexivity|reflexivity|exact M].
    apply subst_ids.
  - unfold rootz. cbn [root]. rewrite subst_root by exact IN. exact Z.
Qed.

Lemma t_step2_inv o m : minv m -> rootz m -> minv (t_step2 o m) /\ rootz (t_step2 o m).
Proof.
  intros M Z. destruct o as [o| |q|f|q x|q|q g|q g|pa x|pa|pa g]; cbn [Arena2.t_step2].
  - split; [apply t_step_minv; exact M|]. unfold rootz in *. destruct o; cbn [Arena.t_step].
    + unfold Trie.insert. pose proof (ins_root (root m) q x (al m)) as E.
      destruct (ins (root m) q x (al m)) as [[t o] a]. cbn in *. congruence.
    + unfold Trie.remove. pose proof (rem_root (root m) q (al m)) as E.
      destruct (rem false (root m) q (al m)) as [[[t fl] o] a]. cbn in *. congruence.
    + unfold Trie.remove_keep_tree. cbn [fst root]. rewrite modify_root; [exact Z|reflexivity].
  - split; [apply clear_minv|exact ZERO_LEN].
  - split; [apply remove_children_minv; exact M|]. unfold rootz, Trie.remove_children in *.
    destruct (plen q =? 0)%N; [exact ZERO_LEN|].
    pose proof (rc_root (root m) q (al m)) as E. destruct (rc (root m) q (al m)). cbn in *. congruence.
  - split; [apply retain_minv; exact M|]. unfold rootz, Trie.retain in *.
    pose proof (ret_root f (root m) (al m, [])) as E.
    destruct (ret f false (root m) (al m, [])) as [[t st] [a lg]]. cbn in *. congruence.
  - unfold Arena2.t_entry_insert. destruct (get (root m) q) as [y|] eqn:G; cbn [fst].
    + split; [apply occ_insert_minv; exact M|]. unfold rootz, Trie.occ_insert in *. cbn [fst root].
      rewrite modify_root; [exact Z|]. intros p0 v0 E. cbn. symmetry. apply PEQ_LEN. exact E.
    + split; [apply vacant_insert_minv; exact M|]. destruct (vacant_insert_insert m q x G) as (-> & _).
      unfold rootz, Trie.insert in *. pose proof (ins_root (root m) q x (al m)) as E.
      destruct (ins (root m) q x (al m)) as [[t o] a]. cbn in *. congruence.
  - unfold Arena2.t_entry_remove. destruct (get (root m) q) as [y|] eqn:G; cbn [fst]; [|auto].
    split; [apply occ_remove_minv; exact M|]. unfold rootz, Trie.occ_remove in *. cbn [fst root].
    rewrite modify_root; [exact Z|reflexivity].
  - split; [apply update_value_minv; exact M|]. unfold rootz, Trie.update_value in *. cbn [root].
    rewrite modify_root; [exact Z|reflexivity].
  - split; [apply update_value_minv; exact M|]. unfold rootz, Trie.update_value in *. cbn [root].
    rewrite modify_root; [exact Z|reflexivity].
  - exact (t_vm_inv m pa (Some x) M Z).
  - exact (t_vm_inv m pa None M Z).
  - exact (t_vm_inv m pa (option_map g (tval (subtree (root m) pa))) M Z).
Qed.

(** one step of the view operations: the walk finds the node the path designates *)
Lemma vm_step_sim am m pa (k : N -> res amap) (op : tree -> tree) :
  Rep am m -> minv m ->
  (forall i p v l r, subtree (root m) pa = Node i p v l r ->
     exists am', k i = Ok am' /\ Rep am' (mkmap (op (root m)) (al m))) ->
  exists am', (o <- a_vm_walk (tbl am) 0%N pa ;; match o with Some idx => k idx | None => Ok am end) = Ok am' /\
              Rep am' (t_vm m pa op).
Proof.
  intros R M K. rewrite (vm_walk_sim pa (root m) (tbl am) 0%N (proj1 R)). cbn [rbind].
  unfold Arena2.t_vm. destruct (subtree (root m) pa) as [|i p v l r] eqn:S; cbn [ArenaThm.link is_node].
  - eauto.
  - apply (K i p v l r eq_refl).
Qed.

Theorem step2_sim o am m : Rep am m -> minv m -> rootz m ->
  exists am', a_step2 o am = Ok am' /\ Rep am' (t_step2 o m) /\ minv (t_step2 o m) /\ rootz (t_step2 o m).
Proof.
  intros R M Z. destruct (t_step2_inv o m M Z) as (M' & Z').
  assert (X : exists am', a_step2 o am = Ok am' /\ Rep am' (t_step2 o m)); [|destruct X as (am' & E & R'); eauto].
  clear M' Z'.
  destruct o as [o| |q|f|q x|q|q g|q g|pa x|pa|pa g]; cbn [Arena2.a_step2 Arena2.t_step2].
  - destruct (step_sim o am m R M) as (am' & E & R' & _). eauto.
  - eexists. split; [reflexivity|apply clear_sim].
  - apply remove_children_sim; auto. apply rootz_guard. exact Z.
  - destruct (retain_sim am m f R M) as (am' & E & R'). rewrite E. cbn [rbind]. eauto.
  - destruct (entry_insert_sim am m q x R M) as (am' & E & R'). rewrite E. cbn [rbind]. eauto.
  - destruct (entry_remove_sim am m q R M) as (am' & E & R'). rewrite E. cbn [rbind]. eauto.
  - apply entry_and_modify_sim; auto.
  - apply get_mut_sim; auto.
  - apply vm_step_sim; auto. intros i p v l r S.
    destruct (vm_set_sim am m pa x i p v l r R M S) as (_ & am' & E & _ & R' & _).
    rewrite E. cbn [rbind]. eauto.
  - apply vm_step_sim; auto. intros i p v l r S.
    destruct (vm_remove_sim am m pa i p v l r R M S) as (_ & am' & E & R' & _).
    rewrite E. cbn [rbind]. eauto.
  - apply vm_step_sim; auto. intros i p v l r S.
    destruct (vm_value_mut_sim am m pa g i p v l r R M S) as (_ & am' & E & R' & _).
    rewrite E. cbn [rbind]. eauto.
Qed.

Theorem run2_from_sim ops : forall am m, Rep am m -> minv m -> rootz m ->
  exists am', a_run2_from ops am = Ok am' /\ Rep am' (t_run2_from ops m) /\
              minv (t_run2_from ops m) /\ rootz (t_run2_from ops m).
Proof.
  induction ops as [|o ops IH]; intros am m R M Z; cbn [Arena2.a_run2_from Arena2.t_run2_from].
  - eauto.
  - destruct (step2_sim o am m R M Z) as (am1 & E & R1 & M1 & Z1). rewrite E. cbn [rbind]. apply IH; auto.
Qed.

(** no step of any history over the extended alphabet panics or runs out of fuel, and the arena
    reached represents the tree reached *)
Theorem run_sim2 ops :
  exists am, a_run2 ops = Ok am /\ Rep am (t_run2 ops) /\ minv (t_run2 ops).
Proof.
  destruct (run2_from_sim ops a_empty empty Rep_empty minv_empty ZERO_LEN) as (am & E & R & M & _).
  eauto.
Qed.

Definition reachable2 (am : amap) : Prop := exists ops, a_run2 ops = Ok am.

Theorem reachable2_Rep am : reachable2 am -> exists m, Rep am m /\ minv m /\ rootz m.
Proof.
  intros [ops E].
  destruct (run2_from_sim ops a_empty empty Rep_empty minv_empty ZERO_LEN) as (am' & E' & R & M & Z).
  unfold Arena2.a_run2 in E. rewrite E in E'. injection E' as <-. eauto.
Qed.

(** the structure theorems of [ArenaThm.v] hold in every state reachable with the extended alphabet *)
Corollary reachable_structure2 am : reachable2 am ->
  (forall i, live (tbl am) i -> exists n, slot (tbl am) i = Some n) /\
  (forall i rt j, live (tbl am) i -> edge (tbl am) i rt j -> (j < N.of_nat (length (tbl am)))%N) /\
  (forall i, live (tbl am) i -> ~ In i (afree am)) /\
  (forall i1 rt1 i2 rt2 j, live (tbl am) i1 -> live (tbl am) i2 ->
     edge (tbl am) i1 rt1 j -> edge (tbl am) i2 rt2 j -> i1 = i2 /\ rt1 = rt2) /\
  (forall i rt, live (tbl am) i -> ~ edge (tbl am) i rt 0%N) /\
  (forall i, (i < N.of_nat (length (tbl am)))%N <-> (live (tbl am) i \/ In i (afree am))).
Proof.
  intros H. destruct (reachable2_Rep am H) as (m & R & M & _).
  split; [exact (live_in_bounds am m R M)|].
  split; [exact (links_in_bounds am m R M)|].
  split; [exact (live_not_free am m R M)|].
  split; [exact (no_double_link am m R M)|].
  split; [exact (root_not_linked am m R M)|].
  exact (slots_partition am m R M).
Qed.

(** every operation on a reachable arena state returns [Ok], and the loops and the recursion stop
    within [length tbl] units of fuel ([S (length tbl)] for the freeing loop of [remove_children]
    counts its last test) *)
Corollary reachable_total2 am q x f g : reachable2 am ->
  (exists o, Arena.a_get pfx V peq contains is_bit_set plen am q = Ok o) /\
  (exists o, Arena.a_get_lpm pfx V peq contains is_bit_set plen am q = Ok o) /\
  (exists r, Arena.a_insert pfx V peq contains is_bit_set plen lcp am q x = Ok r) /\
  (exists r, Arena.a_remove pfx V peq contains is_bit_set plen am q = Ok r) /\
  (exists r, Arena.a_remove_keep_tree pfx V peq contains is_bit_set plen am q = Ok r) /\
  (exists es, Arena.a_entries pfx V am = Ok es) /\
  (exists am', a_remove_children am q = Ok am') /\
  (exists r, a_retain f am = Ok r) /\
  (exists e, a_entry am q = Ok e) /\
  (exists r, a_entry_insert am q x = Ok r) /\
  (exists r, a_entry_remove am q = Ok r) /\
  (exists am', a_entry_and_modify am q g = Ok am') /\
  (exists am', a_get_mut am q g = Ok am') /\
  (forall fuel, (length (tbl am) <= fuel)%nat ->
     (exists am', a_remove_children_fuel fuel fuel am q = Ok am') /\
     (exists r, a_retain_fuel fuel f am = Ok r) /\
     (exists e, a_entry_loop fuel (tbl am) 0%N q = Ok e) /\
     (exists tb', a_get_mut_loop fuel (tbl am) 0%N q g = Ok tb')).
Proof.
  intros H. destruct (reachable2_Rep am H) as (m & R & M & Z).
  split; [rewrite (get_sim am m q R M); eauto|].
  split; [rewrite (get_lpm_sim am m q R M); eauto|].
  split; [destruct (insert_sim am m q x R M) as (? & -> & _); eauto|].
  split; [destruct (remove_sim am m q R M) as (? & -> & _); eauto|].
  split; [destruct (remove_keep_tree_sim am m q R M) as (? & -> & _); eauto|].
  split; [rewrite (entries_sim am m R M); eauto|].
  split; [destruct (remove_children_sim am m q R M (rootz_guard m q Z)) as (? & -> & _); eauto|].
  split; [destruct (retain_sim am m f R M) as (? & -> & _); eauto|].
  assert (EN : forall fuel, (length (tbl am) <= fuel)%nat -> exists e, a_entry_loop fuel (tbl am) 0%N q = Ok e).
  { intros fuel F. pose proof (Rep_height _ _ R M) as HH.
    pose proof (entry_loop_sim q (root m) fuel (tbl am) 0%N (proj1 R) ltac:(lia)) as E.
    destruct (get_node (root m) q) as [[[j pj] [y|]]|]; [eauto|destruct E as (? & ? & ->); eauto..]. }
  split; [apply EN; lia|].
  split; [destruct (entry_insert_sim am m q x R M) as (? & -> & _); eauto|].
  split; [destruct (entry_remove_sim am m q R M) as (? & -> & _); eauto|].
  split; [destruct (entry_and_modify_sim am m q g R M) as (? & -> & _); eauto|].
  split; [destruct (get_mut_sim am m q g R M) as (? & -> & _); eauto|].
  intros fuel F.
  split; [destruct (remove_children_fuel_bound am m q fuel fuel R M (rootz_guard m q Z) F F) as (? & -> & _); eauto|].
  split; [destruct (retain_fuel_bound am m f fuel R M F) as (? & -> & _); eauto|].
  split; [apply EN; exact F|].
  destruct (get_mut_fuel_bound am m q g fuel R M F) as (? & -> & _); eauto.
Qed.

End Hist.

End A2T.

(** the two facts about the prefix operations hold for the concrete model of [src/prefix.rs]
    ([PrefixN.v], any width and flavour): the history theorem without hypotheses *)
From PT Require PrefixN.

Lemma peqN_len w p q : PrefixN.peq w p q = true -> PrefixN.plen p = PrefixN.plen q.
Proof. unfold PrefixN.peq. intros H. apply andb_prop in H. destruct H as [_ H]. apply N.eqb_eq. exact H. Qed.

Corollary run_sim2_N (V : Type) (w : N) (fl : PrefixN.flavour) (ops : list (aop2 PrefixN.pfx V)) :
  let peq := PrefixN.peq w in let con := PrefixN.contains w fl in let bit := PrefixN.is_bit_set w in
  let lcp := PrefixN.lcp w fl in
  exists am, a_run2 PrefixN.pfx V peq con bit PrefixN.plen lcp PrefixN.pzero ops = Ok am /\
    ArenaThm.Rep PrefixN.pfx V am (t_run2 PrefixN.pfx V peq con bit PrefixN.plen lcp PrefixN.pzero ops) /\
    Slots.minv PrefixN.pfx V (t_run2 PrefixN.pfx V peq con bit PrefixN.plen lcp PrefixN.pzero ops).
Proof. intros peq con bit lcp. apply run_sim2; [apply peqN_len|reflexivity]. Qed.

Print Assumptions clear_sim.
Print Assumptions free_loop_sim.
Print Assumptions remove_children_fuel_bound.
Print Assumptions remove_children_sim.
Print Assumptions retain_fuel_bound.
Print Assumptions retain_sim.
Print Assumptions entry_fuel_bound.
Print Assumptions vacant_insert_sim.
Print Assumptions occ_insert_sim.
Print Assumptions occ_remove_sim.
Print Assumptions occ_update_sim.
Print Assumptions occ_reuse_panics.
Print Assumptions entry_insert_sim.
Print Assumptions entry_remove_sim.
Print Assumptions entry_and_modify_sim.
Print Assumptions get_mut_fuel_bound.
Print Assumptions get_mut_sim.
Print Assumptions vm_set_sim.
Print Assumptions vm_remove_sim.
Print Assumptions vm_value_mut_sim.
Print Assumptions step2_sim.
Print Assumptions run_sim2.
Print Assumptions reachable_structure2.
Print Assumptions reachable_total2.
Print Assumptions run_sim2_N.
