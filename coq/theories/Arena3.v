(** The ARENA level, part 3: the READ-ONLY observers, transcribed over the table of [Arena.v]
    ([Vec<Node>] with index links) in the style of [Arena.v] / [Arena2.v]:

    - src/map/mod.rs: [get_key_value], [contains_key], [get_lpm_prefix], [get_lpm_mut], [get_spm],
      [get_spm_prefix];  src/map/iter.rs: [lpm_children_iter_start], [Cover::next];
    - src/trieview/mod.rs: the view location [ViewLoc = Node idx | Virtual prefix idx],
      [TrieView::find / find_exact / find_lpm / left / right / prefix / value / prefix_value] and
      the [TrieViewMut] twins ([Result<Self, Self>]: [None] = [Err(self)]) plus [has_left],
      [has_right], [split];
    - src/trieview/{union,intersection,difference}.rs: the eight simultaneous traversals of TWO
      arenas as stack machines over index pairs ([rrun] = [Machine.run] with [res]-valued
      [expand], because every table access may panic at this level).

    The order of the table reads of the Rust code is kept; an index out of bounds and an
    [unwrap()] on [None] are [Panic]; loops run on fuel ([OutOfFuel]).  Line numbers refer to the
    committed sources (HEAD of /repo).  Definitions only (no proofs); everything reduces with
    [vm_compute] and extracts with [ExtrOcamlBasic].  [Arena3Thm.v] proves that on arenas that
    represent trees of [Trie.v] every observer returns [Ok] of the tree-model result. *)
From Coq Require Import List NArith ZArith Bool.
From PT Require Import Machine Trie Views SetOps Arena Arena2.
Import ListNotations.

(* ------------------------------------------------------------------------------------------ *)
(** * The stack machine of [Machine.v] with a [res]-valued [expand]: one unit of fuel per popped
    entry, exactly as [Machine.run] *)
Section RMachine.
Variables (E I : Type) (expand : E -> res (option I * list E)).

Fixpoint rrun (fuel : nat) (st : list E) : res (list I) :=
  match st with
  | [] => Ok []
  | e :: rest =>
    match fuel with
    | O => OutOfFuel
    | S f =>
      x <- expand e ;;
      out <- rrun f (rev (snd x) ++ rest) ;;
      Ok (opt_cons I (fst x) out)
    end
  end.
End RMachine.

(** monadic [map] (the lazily mapped iterators of [extend_lpm] are drained at once by [extend]) *)
Fixpoint rmap {A B} (f : A -> res B) (l : list A) : res (list B) :=
  match l with
  | [] => Ok []
  | x :: l' => y <- f x ;; ys <- rmap f l' ;; Ok (y :: ys)
  end.

(** [ViewLoc<P>], trieview/mod.rs:73-85 *)
Inductive vloc (pfx : Type) := LNode (idx : N) | LVirt (p : pfx) (idx : N).
Arguments LNode {pfx}.
Arguments LVirt {pfx}.
Definition loc_idx {pfx} (l : vloc pfx) : N := match l with LNode i | LVirt _ i => i end.   (* 80-84 *)

Section A3.
Variables (pfx V : Type).
Variables (peq contains : pfx -> pfx -> bool) (is_bit_set : pfx -> N -> bool)
          (plen : pfx -> N) (lcp : pfx -> pfx -> pfx).

Notation anode := (Arena.anode pfx V).
Notation amap := (Arena.amap pfx V).
Notation rd := (Arena.rd pfx V).
Notation child_of := (Arena.child_of pfx V).
Notation get_child := (Arena.get_child pfx V).
Notation a_direction := (Arena.a_direction pfx V peq contains is_bit_set plen).
Notation a_direction_ins := (Arena.a_direction_ins pfx V peq contains is_bit_set plen lcp).
Notation prefix_value := (Arena.prefix_value pfx V).
Notation to_right := (Trie.to_right pfx is_bit_set plen).
Notation vloc := (vloc pfx).

(* ------------------------------------------------------------------------------------------ *)
(** * src/map/mod.rs: the remaining lookups *)

(** [get_key_value], mod.rs:131-140 *)
Fixpoint a_gkv_loop (fuel : nat) (tb : list anode) (idx : N) (q : pfx) : res (option (pfx * V)) :=
  match fuel with
  | O => OutOfFuel
  | S f =>
    d <- a_direction tb idx q ;;                                        (* 134 *)
    match d with
    | Reached => n <- rd tb idx ;; Ok (prefix_value n)                  (* 135 *)
    | Enter next _ => a_gkv_loop f tb next q                            (* 136 *)
    | Missing => Ok None                                                (* 137 *)
    end
  end.
Definition a_get_key_value (am : amap) (q : pfx) : res (option (pfx * V)) :=
  a_gkv_loop (S (length (tbl am))) (tbl am) 0%N q.                      (* 132 *)

(** [contains_key], mod.rs:227-236 *)
Fixpoint a_ck_loop (fuel : nat) (tb : list anode) (idx : N) (q : pfx) : res bool :=
  match fuel with
  | O => OutOfFuel
  | S f =>
    d <- a_direction tb idx q ;;                                        (* 230 *)
    match d with
    | Reached => n <- rd tb idx ;; Ok (is_some (nval n))                (* 231 *)
    | Enter next _ => a_ck_loop f tb next q                             (* 232 *)
    | Missing => Ok false                                               (* 233 *)
    end
  end.
Definition a_contains_key (am : amap) (q : pfx) : res bool :=
  a_ck_loop (S (length (tbl am))) (tbl am) 0%N q.                       (* 228 *)

(** [get_lpm_prefix], mod.rs:256-269 *)
Fixpoint a_lpmp_loop (fuel : nat) (tb : list anode) (idx : N) (q : pfx) (best : option pfx)
  : res (option pfx) :=
  match fuel with
  | O => OutOfFuel
  | S f =>
    n <- rd tb idx ;;                                                   (* 260 *)
    let best := match option_map fst (prefix_value n) with              (* 261-263: .map().or() *)
                | Some p => Some p | None => best end in
    d <- a_direction tb idx q ;;                                        (* 264 *)
    match d with
    | Enter next _ => a_lpmp_loop f tb next q best                      (* 265 *)
    | _ => Ok best                                                      (* 266 *)
    end
  end.
Definition a_get_lpm_prefix (am : amap) (q : pfx) : res (option pfx) :=
  a_lpmp_loop (S (length (tbl am))) (tbl am) 0%N q None.                (* 257-258 *)

(** [get_lpm_mut], mod.rs:189-208: the loop tracks the INDEX of the best node (192-202) *)
Fixpoint a_lpmm_loop (fuel : nat) (tb : list anode) (idx : N) (q : pfx) (best : option N)
  : res (option N) :=
  match fuel with
  | O => OutOfFuel
  | S f =>
    n <- rd tb idx ;;                                                   (* 193 *)
    let best := if is_some (nval n) then Some idx else best in          (* 193-197 *)
    d <- a_direction tb idx q ;;                                        (* 198 *)
    match d with
    | Enter next _ => a_lpmm_loop f tb next q best                      (* 199 *)
    | _ => Ok best                                                      (* 200 *)
    end
  end.
(** the result: the index of the best node with the [prefix_value_mut] read at it (203-207) *)
Definition a_get_lpm_mut (am : amap) (q : pfx) : res (option (N * pfx * V)) :=
  b <- a_lpmm_loop (S (length (tbl am))) (tbl am) 0%N q None ;;         (* 190-202 *)
  match b with
  | Some idx =>                                                         (* 203 *)
    n <- rd (tbl am) idx ;;                                             (* 204 *)
    Ok (match nval n with Some x => Some (idx, npfx n, x) | None => None end)
  | None => Ok None                                                     (* 206 *)
  end.

(** [get_spm], mod.rs:288-307 *)
Fixpoint a_spm_loop (fuel : nat) (tb : list anode) (idx : N) (q : pfx) : res (option (pfx * V)) :=
  match fuel with
  | O => OutOfFuel
  | S f =>
    d <- a_direction tb idx q ;;                                        (* 295 *)
    match d with
    | Reached => n <- rd tb idx ;; Ok (prefix_value n)                  (* 296 *)
    | Enter next _ =>                                                   (* 297 *)
      n <- rd tb next ;;                                                (* 299 *)
      match prefix_value n with
      | Some x => Ok (Some x)                                           (* 300 *)
      | None => a_spm_loop f tb next q                                  (* 301 *)
      end
    | Missing => Ok None                                                (* 304 *)
    end
  end.
Definition a_get_spm (am : amap) (q : pfx) : res (option (pfx * V)) :=
  n0 <- rd (tbl am) 0%N ;;                                              (* 290 *)
  match prefix_value n0 with
  | Some x => Ok (Some x)                                               (* 291 *)
  | None => a_spm_loop (S (length (tbl am))) (tbl am) 0%N q             (* 293-306 *)
  end.
(** [get_spm_prefix], mod.rs:326-328 *)
Definition a_get_spm_prefix (am : amap) (q : pfx) : res (option pfx) :=
  r <- a_get_spm am q ;; Ok (option_map fst r).                         (* 327 *)

(* ------------------------------------------------------------------------------------------ *)
(** * src/map/iter.rs *)

(** [lpm_children_iter_start], iter.rs:490-514: the initial stack of [children*] *)
Fixpoint a_cs_loop (fuel : nat) (tb : list anode) (idx : N) (cur_p : pfx) (q : pfx) : res (list N) :=
  match fuel with
  | O => OutOfFuel
  | S f =>
    if peq cur_p q then Ok [idx]                                        (* 495-496 *)
    else
      let right := to_right cur_p q in                                  (* 498 *)
      c <- get_child tb idx right ;;                                 (* 499 *)
      match c with
      | Some c =>                                                       (* 500 *)
        cn <- rd tb c ;;                                                (* 501 *)
        let cur_p := npfx cn in
        if contains cur_p q then a_cs_loop f tb c cur_p q               (* 502-504 *)
        else if contains q cur_p then Ok [c]                            (* 505-506 *)
        else Ok []                                                      (* 508 *)
      | None => Ok []                                                   (* 511 *)
      end
  end.
Definition a_children_start_fuel (fuel : nat) (tb : list anode) (q : pfx) : res (list N) :=
  n0 <- rd tb 0%N ;;                                                    (* 491-492 *)
  a_cs_loop fuel tb 0%N (npfx n0) q.
Definition a_children_start (am : amap) (q : pfx) : res (list N) :=
  a_children_start_fuel (S (length (tbl am))) (tbl am) q.
(** [children] (iter.rs:407), drained: [Iter] started on that stack *)
Definition a_children (am : amap) (q : pfx) : res (list (pfx * V)) :=
  st <- a_children_start am q ;; Arena.a_iter pfx V (S (length (tbl am))) (tbl am) st.

(** [Cover::next], iter.rs:543-567; the state is [idx: Option<usize>].  The loop 555-566: returns
    the item and the index the iterator stops at *)
Fixpoint a_cover_loop (fuel : nat) (tb : list anode) (idx : N) (q : pfx)
  : res (option (pfx * V) * N) :=
  match fuel with
  | O => OutOfFuel
  | S f =>
    d <- a_direction tb idx q ;;                                        (* 556-557 *)
    match d with
    | Enter next _ =>                                                   (* 561: self.idx = Some(next) *)
      n <- rd tb next ;;                                                (* 562 *)
      match nval n with
      | Some v => Ok (Some (npfx n, v), next)                           (* 563-564 *)
      | None => a_cover_loop f tb next q
      end
    | _ => Ok (None, idx)                                               (* 558-559 *)
    end
  end.
Definition a_cover_next (fuel : nat) (tb : list anode) (st : option N) (q : pfx)
  : res (option (pfx * V) * option N) :=
  match st with
  | None =>                                                             (* 545-546 *)
    n0 <- rd tb 0%N ;;                                                  (* 547 *)
    match nval n0 with
    | Some v => Ok (Some (npfx n0, v), Some 0%N)                        (* 548-549 *)
    | None => r <- a_cover_loop fuel tb 0%N q ;; Ok (fst r, Some (snd r))
    end
  | Some i => r <- a_cover_loop fuel tb i q ;; Ok (fst r, Some (snd r)) (* 557: unwrap of Some *)
  end.
(** drain the iterator ([n] calls of [next] at most), as [Trie.cover_drain] *)
Fixpoint a_cover_drain (n fuel : nat) (tb : list anode) (st : option N) (q : pfx)
  : res (list (pfx * V)) :=
  match n with
  | O => Ok []
  | S n' =>
    r <- a_cover_next fuel tb st q ;;
    match fst r with
    | Some x => rest <- a_cover_drain n' fuel tb (snd r) q ;; Ok (x :: rest)
    | None => Ok []
    end
  end.
Definition a_cover (am : amap) (q : pfx) : res (list (pfx * V)) :=
  a_cover_drain (S (length (tbl am))) (S (length (tbl am))) (tbl am) None q.

(* ------------------------------------------------------------------------------------------ *)
(** * src/trieview/mod.rs: [TrieView] *)

(** the loop of [TrieView::find], 157-179 *)
Fixpoint a_v_find_loop (fuel : nat) (tb : list anode) (idx : N) (q : pfx) : res (option vloc) :=
  match fuel with
  | O => OutOfFuel
  | S f =>
    d <- a_direction_ins tb idx q ;;                                    (* 158 *)
    match d with
    | IEnter _ next _ => a_v_find_loop f tb next q                      (* 159-161 *)
    | IReached _ => Ok (Some (LNode idx))                               (* 162-167 *)
    | INewChild _ rt _ =>                                            (* 168-174 *)
      c <- get_child tb idx rt ;;                                    (* 172 *)
      c' <- unwrap c ;;                                                 (* 172: unwrap *)
      Ok (Some (LVirt q c'))
    | INewLeaf _ _ => Ok None                                           (* 175-177 *)
    | INewBranch _ _ _ _ => Ok None                                     (* 175-177 *)
    end
  end.
(** [TrieView::find], 147-180 *)
Definition a_v_find_fuel (fuel : nat) (tb : list anode) (l : vloc) (q : pfx) : res (option vloc) :=
  let idx := loc_idx l in                                               (* 148 *)
  n <- rd tb idx ;;                                                     (* 150 *)
  if contains q (npfx n) && negb (peq (npfx n) q)                       (* 151 *)
  then Ok (Some (LVirt q idx))                                          (* 152-155 *)
  else a_v_find_loop fuel tb idx q.
Definition a_v_find (tb : list anode) := a_v_find_fuel (S (length tb)) tb.

(** [TrieView::find_exact], 212-226 *)
Fixpoint a_v_find_exact_fuel (fuel : nat) (tb : list anode) (idx : N) (q : pfx) : res (option vloc) :=
  match fuel with
  | O => OutOfFuel
  | S f =>
    d <- a_direction tb idx q ;;                                        (* 215 *)
    match d with
    | Reached =>                                                        (* 216-221 *)
      n <- rd tb idx ;;                                                 (* 217 *)
      Ok (if is_some (nval n) then Some (LNode idx) else None)          (* 217: then_some *)
    | Enter next _ => a_v_find_exact_fuel f tb next q                   (* 222 *)
    | Missing => Ok None                                                (* 223 *)
    end
  end.
Definition a_v_find_exact (tb : list anode) (l : vloc) (q : pfx) : res (option vloc) :=
  a_v_find_exact_fuel (S (length tb)) tb (loc_idx l) q.                 (* 213 *)

(** [TrieView::find_lpm], 269-290: the loop 276-289 *)
Fixpoint a_v_find_lpm_loop (fuel : nat) (tb : list anode) (idx : N) (q : pfx) (best : option N)
  : res (option vloc) :=
  match fuel with
  | O => OutOfFuel
  | S f =>
    n <- rd tb idx ;;                                                   (* 277 *)
    let best := if is_some (nval n) then Some idx else best in          (* 277-279 *)
    d <- a_direction tb idx q ;;                                        (* 280 *)
    match d with
    | Enter next _ => a_v_find_lpm_loop f tb next q best                (* 281 *)
    | _ => Ok (option_map LNode best)                                   (* 282-287 *)
    end
  end.
Definition a_v_find_lpm_fuel (fuel : nat) (tb : list anode) (l : vloc) (q : pfx) : res (option vloc) :=
  let idx := loc_idx l in                                               (* 270 *)
  n <- rd tb idx ;;                                                     (* 272 *)
  if negb (contains (npfx n) q) then Ok None                            (* 272-274 *)
  else a_v_find_lpm_loop fuel tb idx q None.                            (* 275 *)
Definition a_v_find_lpm (tb : list anode) := a_v_find_lpm_fuel (S (length tb)) tb.

(** [TrieView::left], 321-339 *)
Definition a_v_left (tb : list anode) (l : vloc) : res (option vloc) :=
  match l with
  | LNode idx => n <- rd tb idx ;; Ok (option_map LNode (nleft n))      (* 323-326: [?] *)
  | LVirt p idx =>                                                      (* 327 *)
    n <- rd tb idx ;;                                                   (* 329 *)
    if negb (to_right p (npfx n)) then Ok (Some (LNode idx)) else Ok None   (* 329-336 *)
  end.
(** [TrieView::right], 371-389 *)
Definition a_v_right (tb : list anode) (l : vloc) : res (option vloc) :=
  match l with
  | LNode idx => n <- rd tb idx ;; Ok (option_map LNode (nright n))     (* 373-376 *)
  | LVirt p idx =>
    n <- rd tb idx ;;                                                   (* 379 *)
    if to_right p (npfx n) then Ok (Some (LNode idx)) else Ok None      (* 379-386 *)
  end.
(** [TrieView::prefix], 496-501 *)
Definition a_v_prefix (tb : list anode) (l : vloc) : res pfx :=
  match l with
  | LNode idx => n <- rd tb idx ;; Ok (npfx n)                          (* 498 *)
  | LVirt p _ => Ok p                                                   (* 499 *)
  end.
(** [TrieView::value], 523-528 *)
Definition a_v_value (tb : list anode) (l : vloc) : res (option V) :=
  match l with
  | LNode idx => n <- rd tb idx ;; Ok (nval n)                          (* 525 *)
  | LVirt _ _ => Ok None                                                (* 526 *)
  end.
(** [TrieView::prefix_value], 552-557 *)
Definition a_v_prefix_value (tb : list anode) (l : vloc) : res (option (pfx * V)) :=
  match l with
  | LNode idx => n <- rd tb idx ;; Ok (prefix_value n)                  (* 554 *)
  | LVirt _ _ => Ok None                                                (* 555 *)
  end.

(* ------------------------------------------------------------------------------------------ *)
(** * src/trieview/mod.rs: [TrieViewMut] (hand-duplicated in the Rust sources, so here too);
    [Result<Self, Self>]: [None] = [Err(self)] *)

(** the loop of [TrieViewMut::find], 715-734 *)
Fixpoint a_vm_find_loop (fuel : nat) (tb : list anode) (idx : N) (q : pfx) : res (option vloc) :=
  match fuel with
  | O => OutOfFuel
  | S f =>
    d <- a_direction_ins tb idx q ;;                                    (* 716 *)
    match d with
    | IEnter _ next _ => a_vm_find_loop f tb next q                     (* 717-719 *)
    | IReached _ => Ok (Some (LNode idx))                               (* 720-723 *)
    | INewChild _ rt _ =>                                            (* 724-729 *)
      c <- get_child tb idx rt ;;                                    (* 727 *)
      c' <- unwrap c ;;                                                 (* 727: unwrap *)
      Ok (Some (LVirt q c'))
    | INewLeaf _ _ => Ok None                                           (* 730-732: Err(self) *)
    | INewBranch _ _ _ _ => Ok None                                     (* 730-732 *)
    end
  end.
(** [TrieViewMut::find], 703-735 *)
Definition a_vm_find_fuel (fuel : nat) (tb : list anode) (l : vloc) (q : pfx) : res (option vloc) :=
  let idx := loc_idx l in                                               (* 708 *)
  n <- rd tb idx ;;                                                     (* 710 *)
  if contains q (npfx n) && negb (peq (npfx n) q)                       (* 711 *)
  then Ok (Some (LVirt q idx))                                          (* 712-713 *)
  else a_vm_find_loop fuel tb idx q.
Definition a_vm_find (tb : list anode) := a_vm_find_fuel (S (length tb)) tb.

(** [TrieViewMut::find_exact], 769-787 *)
Fixpoint a_vm_find_exact_fuel (fuel : nat) (tb : list anode) (idx : N) (q : pfx) : res (option vloc) :=
  match fuel with
  | O => OutOfFuel
  | S f =>
    d <- a_direction tb idx q ;;                                        (* 772 *)
    match d with
    | Reached =>                                                        (* 773-782 *)
      n <- rd tb idx ;;                                                 (* 774 *)
      if is_some (nval n) then Ok (Some (LNode idx)) else Ok None       (* 774-781 *)
    | Enter next _ => a_vm_find_exact_fuel f tb next q                  (* 783 *)
    | Missing => Ok None                                                (* 784 *)
    end
  end.
Definition a_vm_find_exact (tb : list anode) (l : vloc) (q : pfx) : res (option vloc) :=
  a_vm_find_exact_fuel (S (length tb)) tb (loc_idx l) q.                (* 770 *)

(** [TrieViewMut::find_lpm], 823-848 *)
Fixpoint a_vm_find_lpm_loop (fuel : nat) (tb : list anode) (idx : N) (q : pfx) (best : option N)
  : res (option vloc) :=
  match fuel with
  | O => OutOfFuel
  | S f =>
    n <- rd tb idx ;;                                                   (* 831 *)
    let best := if is_some (nval n) then Some idx else best in          (* 831-833 *)
    d <- a_direction tb idx q ;;                                        (* 834 *)
    match d with
    | Enter next _ => a_vm_find_lpm_loop f tb next q best               (* 835 *)
    | _ => match best with                                              (* 836-845 *)
           | Some i => Ok (Some (LNode i))                              (* 841 *)
           | None => Ok None                                            (* 843 *)
           end
    end
  end.
Definition a_vm_find_lpm_fuel (fuel : nat) (tb : list anode) (l : vloc) (q : pfx) : res (option vloc) :=
  let idx := loc_idx l in                                               (* 824 *)
  n <- rd tb idx ;;                                                     (* 826 *)
  if negb (contains (npfx n) q) then Ok None                            (* 826-828 *)
  else a_vm_find_lpm_loop fuel tb idx q None.                           (* 829 *)
Definition a_vm_find_lpm (tb : list anode) := a_vm_find_lpm_fuel (S (length tb)) tb.

(** the index computed by [left()] (886-896) / [right()] (944-954) *)
Definition a_vm_side_idx (tb : list anode) (l : vloc) (right : bool) : res (option N) :=
  match l with
  | LNode idx => n <- rd tb idx ;; Ok (child_of n right)                (* 887 / 945 *)
  | LVirt p idx =>
    n <- rd tb idx ;;                                                   (* 890 / 948 *)
    if Bool.eqb (to_right p (npfx n)) right then Ok (Some idx) else Ok None
  end.
(** [TrieViewMut::left], 880-903 *)
Definition a_vm_left (tb : list anode) (l : vloc) : res (option vloc) :=
  i <- a_vm_side_idx tb l false ;; Ok (option_map LNode i).             (* 898-902 *)
(** [TrieViewMut::right], 938-961 *)
Definition a_vm_right (tb : list anode) (l : vloc) : res (option vloc) :=
  i <- a_vm_side_idx tb l true ;; Ok (option_map LNode i).              (* 956-960 *)
(** [has_left], 981-989 *)
Definition a_vm_has_left (tb : list anode) (l : vloc) : res bool :=
  match l with
  | LNode idx => n <- rd tb idx ;; Ok (is_some (nleft n))               (* 983 *)
  | LVirt p idx => n <- rd tb idx ;; Ok (negb (to_right p (npfx n)))    (* 986 *)
  end.
(** [has_right], 1009-1017 *)
Definition a_vm_has_right (tb : list anode) (l : vloc) : res bool :=
  match l with
  | LNode idx => n <- rd tb idx ;; Ok (is_some (nright n))              (* 1011 *)
  | LVirt p idx => n <- rd tb idx ;; Ok (to_right p (npfx n))           (* 1014 *)
  end.
(** [split], 1046-1070 *)
Definition a_vm_split (tb : list anode) (l : vloc) : res (option vloc * option vloc) :=
  match l with
  | LNode idx =>
    n1 <- rd tb idx ;; n2 <- rd tb idx ;;                               (* 1048: two reads *)
    Ok (option_map LNode (nleft n1), option_map LNode (nright n2))      (* 1066-1067 *)
  | LVirt p idx =>
    n <- rd tb idx ;;                                                   (* 1051 *)
    if to_right p (npfx n) then Ok (None, Some (LNode idx))             (* 1052 *)
    else Ok (Some (LNode idx), None)                                    (* 1054 *)
  end.
(** [TrieViewMut::prefix], 1167-1172, and [value], 1194-1199 *)
Definition a_vm_prefix (tb : list anode) (l : vloc) : res pfx :=
  match l with
  | LNode idx => n <- rd tb idx ;; Ok (npfx n)                          (* 1169 *)
  | LVirt p _ => Ok p                                                   (* 1170 *)
  end.
Definition a_vm_value (tb : list anode) (l : vloc) : res (option V) :=
  match l with
  | LNode idx => n <- rd tb idx ;; Ok (nval n)                          (* 1196 *)
  | LVirt _ _ => Ok None                                                (* 1197 *)
  end.

End A3.

(* ------------------------------------------------------------------------------------------ *)
(** * src/trieview/{union,intersection,difference}.rs over TWO arenas *)
Section A3S.
Variables (pfx L R : Type).
Variables (contains : pfx -> pfx -> bool) (is_bit_set : pfx -> N -> bool)
          (plen : pfx -> N) (mcmp : pfx -> pfx -> comparison).

Notation tabL := (list (Arena.anode pfx L)).
Notation tabR := (list (Arena.anode pfx R)).
Notation rdL := (Arena.rd pfx L).
Notation rdR := (Arena.rd pfx R).
Notation pvL := (Arena.prefix_value pfx L).
Notation pvR := (Arena.prefix_value pfx R).
Notation to_right := (Trie.to_right pfx is_bit_set plen).
Notation lpmL := (SetOps.lpmL pfx L).
Notation lpmR := (SetOps.lpmR pfx R).
Notation uitem := (SetOps.uitem pfx L R).
Notation umitem := (SetOps.umitem pfx L R).
Notation imitem := (SetOps.imitem pfx L R).
Notation ditem := (SetOps.ditem pfx L R).
Notation dmitem := (SetOps.dmitem pfx L R).
Notation u_get_next := (SetOps.u_get_next pfx L R).

(** slot + value of a node, for the items of the [*Mut] iterators ([value.as_mut()] at slot [i]) *)
Definition aidval {T} (i : N) (n : Arena.anode pfx T) : option (N * T) :=
  match nval n with Some x => Some (i, x) | None => None end.

(* ---------------------------------------------------------------------------------------- *)
(** ** union.rs *)

(** [UnionIndex], union.rs:123-129 *)
Inductive auidx :=
| AUBoth (l r : N) | AUFirstL (l r : N) | AUFirstR (l r : N) | AUOnlyL (l : N) | AUOnlyR (r : N).
(** [Node<'a, P, L, R>], union.rs:42 *)
Definition auentry := (auidx * lpmL * lpmR)%type.

(** [next_indices], union.rs:536-574 *)
Definition a_u_next_indices (tl : tabL) (tr : tabR) (node_l node_r : option N) : res (list auidx) :=
  match node_l, node_r with
  | None, Some b => Ok [AUOnlyR b]                                      (* 543 *)
  | Some a, None => Ok [AUOnlyL a]                                      (* 544 *)
  | Some a, Some b =>                                                   (* 545 *)
    na <- rdL tl a ;;                                                   (* 546 *)
    nb <- rdR tr b ;;                                                   (* 547 *)
    let p_a := npfx na in let p_b := npfx nb in
    if (plen p_a =? plen p_b)%N then                                    (* 548 *)
      match mcmp p_a p_b with                                           (* 549 *)
      | Lt => Ok [AUOnlyR b; AUOnlyL a]                                 (* 550-552 *)
      | Eq => Ok [AUBoth a b]                                           (* 553-555 *)
      | Gt => Ok [AUOnlyL a; AUOnlyR b]                                 (* 556-558 *)
      end
    else if contains p_a p_b then Ok [AUFirstL a b]                     (* 560-561 *)
    else if contains p_b p_a then Ok [AUFirstR a b]                     (* 562-563 *)
    else match mcmp p_a p_b with                                        (* 565: mask() < mask() *)
         | Lt => Ok [AUOnlyR b; AUOnlyL a]                              (* 566 *)
         | _ => Ok [AUOnlyL a; AUOnlyR b]                               (* 568 *)
         end
  | None, None => Ok []                                                 (* 572 *)
  end.

(** [next_indices_first_l], union.rs:576-600 *)
Definition a_u_next_first_l (tl : tabL) (tr : tabR) (l : N) (ll lr : option N) (r : N)
  : res (list auidx) :=
  match ll, lr with
  | None, None => Ok [AUOnlyR r]                                        (* 585 *)
  | None, Some lr => a_u_next_indices tl tr (Some lr) (Some r)          (* 586 *)
  | Some ll, None => a_u_next_indices tl tr (Some ll) (Some r)          (* 587 *)
  | Some ll, Some lr =>                                                 (* 588 *)
    nl <- rdL tl l ;; nr <- rdR tr r ;;                                 (* 589 *)
    if to_right (npfx nl) (npfx nr) then
      xs <- a_u_next_indices tl tr (Some lr) (Some r) ;;                (* 590 *)
      Ok (xs ++ [AUOnlyL ll])                                           (* 591: push *)
    else
      xs <- a_u_next_indices tl tr (Some ll) (Some r) ;;                (* 594 *)
      Ok (AUOnlyL lr :: xs)                                             (* 595: insert(0, ..) *)
  end.

(** [next_indices_first_r], union.rs:602-626 *)
Definition a_u_next_first_r (tl : tabL) (tr : tabR) (l r : N) (rl rr : option N)
  : res (list auidx) :=
  match rl, rr with
  | None, None => Ok [AUOnlyL l]                                        (* 611 *)
  | None, Some rr => a_u_next_indices tl tr (Some l) (Some rr)          (* 612 *)
  | Some rl, None => a_u_next_indices tl tr (Some l) (Some rl)          (* 613 *)
  | Some rl, Some rr =>                                                 (* 614 *)
    nr <- rdR tr r ;; nl <- rdL tl l ;;                                 (* 615 *)
    if to_right (npfx nr) (npfx nl) then
      xs <- a_u_next_indices tl tr (Some l) (Some rr) ;;                (* 616 *)
      Ok (xs ++ [AUOnlyR rl])                                           (* 617 *)
    else
      xs <- a_u_next_indices tl tr (Some l) (Some rl) ;;                (* 620 *)
      Ok (AUOnlyR rr :: xs)                                             (* 621 *)
  end.

(** [extend_lpm], union.rs:628-642: one element of the mapped iterator *)
Definition a_u_ext1 (tl : tabL) (tr : tabR) (lpm_l : lpmL) (lpm_r : lpmR) (x : auidx) : res auentry :=
  match x with
  | AUBoth l r =>                                                       (* 638 *)
    nl <- rdL tl l ;; nr <- rdR tr r ;;                                 (* 635, 636 *)
    Ok (x, orelse (pvL nl) lpm_l, orelse (pvR nr) lpm_r)
  | AUFirstL l _ | AUOnlyL l =>                                         (* 639 *)
    nl <- rdL tl l ;; Ok (x, orelse (pvL nl) lpm_l, lpm_r)
  | AUFirstR _ r | AUOnlyR r =>                                         (* 640 *)
    nr <- rdR tr r ;; Ok (x, lpm_l, orelse (pvR nr) lpm_r)
  end.
Definition a_u_extend_lpm (tl : tabL) (tr : tabR) (lpm_l : lpmL) (lpm_r : lpmR) (xs : list auidx)
  : res (list auentry) := rmap (a_u_ext1 tl tr lpm_l lpm_r) xs.

(** one iteration of the loop of [Union::next], union.rs:331-436 ([get_next], 299-325, is the
    table-free [SetOps.u_get_next]) *)
Definition a_u_expand (tl : tabL) (tr : tabR) (e : auentry) : res (option uitem * list auentry) :=
  let '(cur, lpm_l, lpm_r) := e in                                      (* 332 *)
  match cur with
  | AUBoth l r =>                                                       (* 334 *)
    nl <- rdL tl l ;;                                                   (* 335 *)
    nr <- rdR tr r ;;                                                   (* 336 *)
    x1 <- a_u_next_indices tl tr (nright nl) (nright nr) ;;             (* 338 *)
    e1 <- a_u_extend_lpm tl tr lpm_l lpm_r x1 ;;                        (* 337-341 *)
    x2 <- a_u_next_indices tl tr (nleft nl) (nleft nr) ;;               (* 343 *)
    e2 <- a_u_extend_lpm tl tr lpm_l lpm_r x2 ;;                        (* 342-346 *)
    let prefix := if is_some (nval nl) then npfx nl else npfx nr in     (* 349-353 *)
    Ok (u_get_next prefix (nval nl) (nval nr) lpm_l lpm_r, e1 ++ e2)    (* 354-362 *)
  | AUFirstL l r =>                                                     (* 364 *)
    nl <- rdL tl l ;;                                                   (* 365 *)
    xs <- a_u_next_first_l tl tr l (nleft nl) (nright nl) r ;;          (* 367-374 *)
    es <- a_u_extend_lpm tl tr lpm_l lpm_r xs ;;                        (* 366-377 *)
    Ok (u_get_next (npfx nl) (nval nl) None lpm_l lpm_r, es)            (* 378-382 *)
  | AUFirstR l r =>                                                     (* 384 *)
    nr <- rdR tr r ;;                                                   (* 385 *)
    xs <- a_u_next_first_r tl tr l r (nleft nr) (nright nr) ;;          (* 387-394 *)
    es <- a_u_extend_lpm tl tr lpm_l lpm_r xs ;;                        (* 386-397 *)
    Ok (u_get_next (npfx nr) None (nval nr) lpm_l lpm_r, es)            (* 398-402 *)
  | AUOnlyL l =>                                                        (* 404 *)
    nl <- rdL tl l ;;                                                   (* 405 *)
    e1 <- match nright nl with                                          (* 406-408 *)
          | Some rgt => a_u_extend_lpm tl tr lpm_l lpm_r [AUOnlyL rgt]
          | None => Ok [] end ;;
    e2 <- match nleft nl with                                           (* 409-411 *)
          | Some lft => a_u_extend_lpm tl tr lpm_l lpm_r [AUOnlyL lft]
          | None => Ok [] end ;;
    Ok (u_get_next (npfx nl) (nval nl) None lpm_l lpm_r, e1 ++ e2)      (* 412-416 *)
  | AUOnlyR r =>                                                        (* 418 *)
    nr <- rdR tr r ;;                                                   (* 419 *)
    e1 <- match nright nr with                                          (* 420-422 *)
          | Some rgt => a_u_extend_lpm tl tr lpm_l lpm_r [AUOnlyR rgt]
          | None => Ok [] end ;;
    e2 <- match nleft nr with                                           (* 423-425 *)
          | Some lft => a_u_extend_lpm tl tr lpm_l lpm_r [AUOnlyR lft]
          | None => Ok [] end ;;
    Ok (u_get_next (npfx nr) None (nval nr) lpm_l lpm_r, e1 ++ e2)      (* 426-430 *)
  end.

(** [TrieView::union], union.rs:188-209, drained; the views are at the slots [il] / [ir]
    ([self.loc.idx()], [other.loc.idx()]) *)
Definition a_union_fuel (fuel : nat) (tl : tabL) (tr : tabR) (il ir : N) : res (list uitem) :=
  xs <- a_u_next_indices tl tr (Some il) (Some ir) ;;                   (* 200-205 *)
  es <- a_u_extend_lpm tl tr None None xs ;;                            (* 193-207: collect *)
  rrun auentry uitem (a_u_expand tl tr) fuel (rev es).                  (* pop = last element *)
Definition a_union (tl : tabL) (tr : tabR) := a_union_fuel (S (length tl + length tr)) tl tr.

(** one iteration of the loop of [UnionMut::next], union.rs:441-533; the items carry the slots of
    the nodes whose [value.as_mut()] is handed out *)
Definition a_um_expand (tl : tabL) (tr : tabR) (cur : auidx) : res (option umitem * list auidx) :=
  match cur with
  | AUBoth l r =>                                                       (* 449 *)
    nl <- rdL tl l ;;                                                   (* 450 *)
    nr <- rdR tr r ;;                                                   (* 451 *)
    x1 <- a_u_next_indices tl tr (nright nl) (nright nr) ;;             (* 452-457 *)
    x2 <- a_u_next_indices tl tr (nleft nl) (nleft nr) ;;               (* 458-463 *)
    nl <- rdL tl l ;;                                                   (* 464: get_mut (bound check) *)
    nr <- rdR tr r ;;                                                   (* 465 *)
    Ok ((if is_some (nval nl) || is_some (nval nr)                      (* 466 *)
         then Some ((if is_some (nval nl) then npfx nl else npfx nr),   (* 468-472 *)
                    aidval l nl, aidval r nr)                           (* 473 *)
         else None), x1 ++ x2)
  | AUFirstL l r =>                                                     (* 476 *)
    nl <- rdL tl l ;;                                                   (* 477 *)
    xs <- a_u_next_first_l tl tr l (nleft nl) (nright nl) r ;;          (* 478-485 *)
    nl <- rdL tl l ;;                                                   (* 486 *)
    Ok ((if is_some (nval nl) then Some (npfx nl, aidval l nl, None) else None), xs)  (* 487-489 *)
  | AUFirstR l r =>                                                     (* 491 *)
    nr <- rdR tr r ;;                                                   (* 492 *)
    xs <- a_u_next_first_r tl tr l r (nleft nr) (nright nr) ;;          (* 493-500 *)
    nr <- rdR tr r ;;                                                   (* 501 *)
    Ok ((if is_some (nval nr) then Some (npfx nr, None, aidval r nr) else None), xs)  (* 502-504 *)
  | AUOnlyL l =>                                                        (* 506 *)
    nl <- rdL tl l ;;                                                   (* 507 *)
    let x1 := match nright nl with Some rgt => [AUOnlyL rgt] | None => [] end in  (* 508-510 *)
    let x2 := match nleft nl with Some lft => [AUOnlyL lft] | None => [] end in     (* 511-513 *)
    Ok ((if is_some (nval nl) then Some (npfx nl, aidval l nl, None) else None), x1 ++ x2)  (* 514-516 *)
  | AUOnlyR r =>                                                        (* 518 *)
    nr <- rdR tr r ;;                                                   (* 519 *)
    let x1 := match nright nr with Some rgt => [AUOnlyR rgt] | None => [] end in  (* 520-522 *)
    let x2 := match nleft nr with Some lft => [AUOnlyR lft] | None => [] end in     (* 523-525 *)
    Ok ((if is_some (nval nr) then Some (npfx nr, None, aidval r nr) else None), x1 ++ x2)  (* 526-528 *)
  end.
(** [TrieViewMut::union_mut], union.rs:266-280, drained *)
Definition a_union_mut_fuel (fuel : nat) (tl : tabL) (tr : tabR) (il ir : N) : res (list umitem) :=
  xs <- a_u_next_indices tl tr (Some il) (Some ir) ;;                   (* 271-276 *)
  rrun auidx umitem (a_um_expand tl tr) fuel (rev xs).
Definition a_union_mut (tl : tabL) (tr : tabR) := a_union_mut_fuel (S (length tl + length tr)) tl tr.

(* ---------------------------------------------------------------------------------------- *)
(** ** intersection.rs *)

(** [IntersectionIndex], intersection.rs:38-42 *)
Inductive aiidx := AIBoth (l r : N) | AIFirstA (l r : N) | AIFirstB (l r : N).

(** [next_indices], intersection.rs:284-311; the [Option] that [nodes.extend] consumes is a list
    of at most one element *)
Definition a_i_next_indices (tl : tabL) (tr : tabR) (node_l node_r : option N) : res (list aiidx) :=
  match node_l, node_r with
  | Some a, Some b =>                                                   (* 293 *)
    na <- rdL tl a ;;                                                   (* 294 *)
    nb <- rdR tr b ;;                                                   (* 295 *)
    let p_a := npfx na in let p_b := npfx nb in
    if (plen p_a =? plen p_b)%N then                                    (* 296 *)
      match mcmp p_a p_b with Eq => Ok [AIBoth a b] | _ => Ok [] end    (* 297-300 *)
    else if contains p_a p_b then Ok [AIFirstA a b]                     (* 301-302 *)
    else if contains p_b p_a then Ok [AIFirstB a b]                     (* 303-304 *)
    else Ok []                                                          (* 306 *)
  | _, _ => Ok []                                                       (* 291, 292, 309 *)
  end.
(** [next_indices_first_a], intersection.rs:313-333 *)
Definition a_i_next_first_a (tl : tabL) (tr : tabR) (l : N) (ll lr : option N) (r : N)
  : res (list aiidx) :=
  match ll, lr with
  | None, None => Ok []                                                 (* 322 *)
  | None, Some lr => a_i_next_indices tl tr (Some lr) (Some r)          (* 323 *)
  | Some ll, None => a_i_next_indices tl tr (Some ll) (Some r)          (* 324 *)
  | Some ll, Some lr =>
    nl <- rdL tl l ;; nr <- rdR tr r ;;                                 (* 326 *)
    if to_right (npfx nl) (npfx nr) then a_i_next_indices tl tr (Some lr) (Some r)  (* 327 *)
    else a_i_next_indices tl tr (Some ll) (Some r)                      (* 329 *)
  end.
(** [next_indices_first_b], intersection.rs:335-355 *)
Definition a_i_next_first_b (tl : tabL) (tr : tabR) (l r : N) (rl rr : option N)
  : res (list aiidx) :=
  match rl, rr with
  | None, None => Ok []                                                 (* 344 *)
  | None, Some rr => a_i_next_indices tl tr (Some l) (Some rr)          (* 345 *)
  | Some rl, None => a_i_next_indices tl tr (Some l) (Some rl)          (* 346 *)
  | Some rl, Some rr =>
    nr <- rdR tr r ;; nl <- rdL tl l ;;                                 (* 348 *)
    if to_right (npfx nr) (npfx nl) then a_i_next_indices tl tr (Some l) (Some rr)  (* 349 *)
    else a_i_next_indices tl tr (Some l) (Some rl)                      (* 351 *)
  end.

(** one iteration of [Intersection::next], intersection.rs:170-219 *)
Definition a_i_expand (tl : tabL) (tr : tabR) (cur : aiidx) : res (option (pfx * L * R) * list aiidx) :=
  match cur with
  | AIBoth l r =>                                                       (* 173 *)
    nl <- rdL tl l ;;                                                   (* 174 *)
    nr <- rdR tr r ;;                                                   (* 175 *)
    x1 <- a_i_next_indices tl tr (nright nl) (nright nr) ;;             (* 176-181 *)
    x2 <- a_i_next_indices tl tr (nleft nl) (nleft nr) ;;               (* 182-187 *)
    Ok (match nval nl, nval nr with                                     (* 188-192 *)
        | Some x, Some y => Some (npfx nl, x, y) | _, _ => None end, x1 ++ x2)
  | AIFirstA l r =>                                                     (* 194 *)
    nl <- rdL tl l ;;                                                   (* 195 *)
    xs <- a_i_next_first_a tl tr l (nleft nl) (nright nl) r ;;          (* 196-203 *)
    Ok (None, xs)
  | AIFirstB l r =>                                                     (* 205 *)
    nr <- rdR tr r ;;                                                   (* 206 *)
    xs <- a_i_next_first_b tl tr l r (nleft nr) (nright nr) ;;          (* 207-214 *)
    Ok (None, xs)
  end.
(** [TrieView::intersection], intersection.rs:82-94, drained *)
Definition a_intersection_fuel (fuel : nat) (tl : tabL) (tr : tabR) (il ir : N)
  : res (list (pfx * L * R)) :=
  xs <- a_i_next_indices tl tr (Some il) (Some ir) ;;                   (* 87-92 *)
  rrun aiidx (pfx * L * R)%type (a_i_expand tl tr) fuel (rev xs).
Definition a_intersection (tl : tabL) (tr : tabR) :=
  a_intersection_fuel (S (length tl + length tr)) tl tr.

(** one iteration of [IntersectionMut::next], intersection.rs:225-281 *)
Definition a_im_expand (tl : tabL) (tr : tabR) (cur : aiidx) : res (option imitem * list aiidx) :=
  match cur with
  | AIBoth l r =>                                                       (* 233 *)
    nl <- rdL tl l ;;                                                   (* 234 *)
    nr <- rdR tr r ;;                                                   (* 235 *)
    x1 <- a_i_next_indices tl tr (nright nl) (nright nr) ;;             (* 236-241 *)
    x2 <- a_i_next_indices tl tr (nleft nl) (nleft nr) ;;               (* 242-247 *)
    nl <- rdL tl l ;;                                                   (* 248: get_mut *)
    nr <- rdR tr r ;;                                                   (* 249 *)
    Ok (match aidval l nl, aidval r nr with                             (* 250-254 *)
        | Some x, Some y => Some (npfx nl, x, y) | _, _ => None end, x1 ++ x2)
  | AIFirstA l r =>                                                     (* 256 *)
    nl <- rdL tl l ;;                                                   (* 257 *)
    xs <- a_i_next_first_a tl tr l (nleft nl) (nright nl) r ;;          (* 258-265 *)
    Ok (None, xs)
  | AIFirstB l r =>                                                     (* 267 *)
    nr <- rdR tr r ;;                                                   (* 268 *)
    xs <- a_i_next_first_b tl tr l r (nleft nr) (nright nr) ;;          (* 269-276 *)
    Ok (None, xs)
  end.
(** [TrieViewMut::intersection_mut], intersection.rs:150-164, drained *)
Definition a_intersection_mut_fuel (fuel : nat) (tl : tabL) (tr : tabR) (il ir : N)
  : res (list imitem) :=
  xs <- a_i_next_indices tl tr (Some il) (Some ir) ;;                   (* 155-160 *)
  rrun aiidx imitem (a_im_expand tl tr) fuel (rev xs).
Definition a_intersection_mut (tl : tabL) (tr : tabR) :=
  a_intersection_mut_fuel (S (length tl + length tr)) tl tr.

(* ---------------------------------------------------------------------------------------- *)
(** ** difference.rs *)

(** [DifferenceIndex], difference.rs:71-76 *)
Inductive adidx := ADBoth (l r : N) | ADFirstL (l r : N) | ADFirstR (l r : N) | ADOnlyL (l : N).

(** [next_indices], difference.rs:682-713 *)
Definition a_d_next_indices (tl : tabL) (tr : tabR) (l r : option N) : res (list adidx) :=
  match l, r with
  | None, _ => Ok []                                                    (* 689, 711 *)
  | Some l, None => Ok [ADOnlyL l]                                      (* 690 *)
  | Some l, Some r =>                                                   (* 691 *)
    nl <- rdL tl l ;;                                                   (* 692 *)
    nr <- rdR tr r ;;                                                   (* 693 *)
    let p_l := npfx nl in let p_r := npfx nr in
    if (plen p_l =? plen p_r)%N then                                    (* 694 *)
      match mcmp p_l p_r with Eq => Ok [ADBoth l r] | _ => Ok [ADOnlyL l] end  (* 695-702 *)
    else if contains p_l p_r then Ok [ADFirstL l r]                     (* 703-704 *)
    else if contains p_r p_l then Ok [ADFirstR l r]                     (* 705-706 *)
    else Ok [ADOnlyL l]                                                 (* 708 *)
  end.
(** [next_indices_first_a], difference.rs:715-739 *)
Definition a_d_next_first_a (tl : tabL) (tr : tabR) (l : N) (ll lr : option N) (r : N)
  : res (list adidx) :=
  match ll, lr with
  | None, None => Ok []                                                 (* 724 *)
  | None, Some lr => a_d_next_indices tl tr (Some lr) (Some r)          (* 725 *)
  | Some ll, None => a_d_next_indices tl tr (Some ll) (Some r)          (* 726 *)
  | Some ll, Some lr =>
    nl <- rdL tl l ;; nr <- rdR tr r ;;                                 (* 728 *)
    if to_right (npfx nl) (npfx nr) then
      xs <- a_d_next_indices tl tr (Some lr) (Some r) ;;                (* 729 *)
      Ok (xs ++ [ADOnlyL ll])                                           (* 730 *)
    else
      xs <- a_d_next_indices tl tr (Some ll) (Some r) ;;                (* 733 *)
      Ok (ADOnlyL lr :: xs)                                             (* 734 *)
  end.
(** [next_indices_first_b], difference.rs:741-761 *)
Definition a_d_next_first_b (tl : tabL) (tr : tabR) (l r : N) (rl rr : option N)
  : res (list adidx) :=
  match rl, rr with
  | None, None => Ok [ADOnlyL l]                                        (* 750 *)
  | None, Some rr => a_d_next_indices tl tr (Some l) (Some rr)          (* 751 *)
  | Some rl, None => a_d_next_indices tl tr (Some l) (Some rl)          (* 752 *)
  | Some rl, Some rr =>
    nr <- rdR tr r ;; nl <- rdL tl l ;;                                 (* 754 *)
    if to_right (npfx nr) (npfx nl) then a_d_next_indices tl tr (Some l) (Some rr)  (* 755 *)
    else a_d_next_indices tl tr (Some l) (Some rl)                      (* 757 *)
  end.
(** [extend_lpm], difference.rs:763-773 *)
Definition a_d_ext1 (tr : tabR) (lpm_r : lpmR) (x : adidx) : res (adidx * lpmR) :=
  match x with
  | ADBoth _ r | ADFirstR _ r => nr <- rdR tr r ;; Ok (x, orelse (pvR nr) lpm_r)   (* 768, 770 *)
  | ADFirstL _ _ | ADOnlyL _ => Ok (x, lpm_r)                           (* 771 *)
  end.
Definition a_d_extend_lpm (tr : tabR) (lpm_r : lpmR) (xs : list adidx) : res (list (adidx * lpmR)) :=
  rmap (a_d_ext1 tr lpm_r) xs.

(** the children pushed for [OnlyL(l)] (390-397 and its three copies) *)
Definition a_d_only_l (nl : Arena.anode pfx L) : list adidx :=
  match nright nl with Some rgt => [ADOnlyL rgt] | None => [] end ++
  match nleft nl with Some lft => [ADOnlyL lft] | None => [] end.

(** one iteration of [Difference::next], difference.rs:331-409 *)
Definition a_d_expand (tl : tabL) (tr : tabR) (e : adidx * lpmR)
  : res (option ditem * list (adidx * lpmR)) :=
  let '(cur, lpm_r) := e in                                             (* 332 *)
  match cur with
  | ADBoth l r =>                                                       (* 334 *)
    nl <- rdL tl l ;;                                                   (* 335 *)
    nr <- rdR tr r ;;                                                   (* 336 *)
    x1 <- a_d_next_indices tl tr (nright nl) (nright nr) ;;             (* 338 *)
    e1 <- a_d_extend_lpm tr lpm_r x1 ;;                                 (* 337-340 *)
    x2 <- a_d_next_indices tl tr (nleft nl) (nleft nr) ;;               (* 342 *)
    e2 <- a_d_extend_lpm tr lpm_r x2 ;;                                 (* 341-344 *)
    Ok (match nval nl with                                              (* 345 *)
        | Some x => if is_none (nval nr) then Some (npfx nl, x, lpm_r) else None   (* 346-351 *)
        | None => None end, e1 ++ e2)
  | ADFirstL l r =>                                                     (* 355 *)
    nl <- rdL tl l ;;                                                   (* 356 *)
    xs <- a_d_next_first_a tl tr l (nleft nl) (nright nl) r ;;          (* 358-365 *)
    es <- a_d_extend_lpm tr lpm_r xs ;;                                 (* 357-367 *)
    Ok (match nval nl with Some x => Some (npfx nl, x, lpm_r) | None => None end, es)  (* 368-374 *)
  | ADFirstR l r =>                                                     (* 376 *)
    nr <- rdR tr r ;;                                                   (* 377 *)
    xs <- a_d_next_first_b tl tr l r (nleft nr) (nright nr) ;;          (* 379-386 *)
    es <- a_d_extend_lpm tr lpm_r xs ;;                                 (* 378-388 *)
    Ok (None, es)
  | ADOnlyL l =>                                                        (* 390 *)
    nl <- rdL tl l ;;                                                   (* 391 *)
    es <- a_d_extend_lpm tr lpm_r (a_d_only_l nl) ;;                    (* 392-397 *)
    Ok (match nval nl with Some x => Some (npfx nl, x, lpm_r) | None => None end, es)  (* 398-404 *)
  end.
(** [TrieView::difference], difference.rs:143-161, drained *)
Definition a_difference_fuel (fuel : nat) (tl : tabL) (tr : tabR) (il ir : N) : res (list ditem) :=
  xs <- a_d_next_indices tl tr (Some il) (Some ir) ;;                   (* 152-157 *)
  es <- a_d_extend_lpm tr None xs ;;                                    (* 148-159 *)
  rrun (adidx * lpmR)%type ditem (a_d_expand tl tr) fuel (rev es).
Definition a_difference (tl : tabL) (tr : tabR) := a_difference_fuel (S (length tl + length tr)) tl tr.

(** one iteration of [DifferenceMut::next], difference.rs:491-576 *)
Definition a_dm_expand (tl : tabL) (tr : tabR) (e : adidx * lpmR)
  : res (option dmitem * list (adidx * lpmR)) :=
  let '(cur, lpm_r) := e in                                             (* 492 *)
  match cur with
  | ADBoth l r =>                                                       (* 499 *)
    nl <- rdL tl l ;;                                                   (* 500 *)
    nr <- rdR tr r ;;                                                   (* 501 *)
    x1 <- a_d_next_indices tl tr (nright nl) (nright nr) ;;             (* 503 *)
    e1 <- a_d_extend_lpm tr lpm_r x1 ;;                                 (* 502-505 *)
    x2 <- a_d_next_indices tl tr (nleft nl) (nleft nr) ;;               (* 507 *)
    e2 <- a_d_extend_lpm tr lpm_r x2 ;;                                 (* 506-509 *)
    nl <- rdL tl l ;;                                                   (* 510: get_mut *)
    Ok (match aidval l nl with                                          (* 511 *)
        | Some x => if is_none (nval nr) then Some (npfx nl, x, lpm_r) else None   (* 512-517 *)
        | None => None end, e1 ++ e2)
  | ADFirstL l r =>                                                     (* 521 *)
    nl <- rdL tl l ;;                                                   (* 522 *)
    xs <- a_d_next_first_a tl tr l (nleft nl) (nright nl) r ;;          (* 524-531 *)
    es <- a_d_extend_lpm tr lpm_r xs ;;                                 (* 523-533 *)
    nl <- rdL tl l ;;                                                   (* 534 *)
    Ok (match aidval l nl with Some x => Some (npfx nl, x, lpm_r) | None => None end, es)  (* 535-541 *)
  | ADFirstR l r =>                                                     (* 543 *)
    nr <- rdR tr r ;;                                                   (* 544 *)
    xs <- a_d_next_first_b tl tr l r (nleft nr) (nright nr) ;;          (* 546-553 *)
    es <- a_d_extend_lpm tr lpm_r xs ;;                                 (* 545-555 *)
    Ok (None, es)
  | ADOnlyL l =>                                                        (* 557 *)
    nl <- rdL tl l ;;                                                   (* 558 *)
    es <- a_d_extend_lpm tr lpm_r (a_d_only_l nl) ;;                    (* 559-564 *)
    Ok (match aidval l nl with Some x => Some (npfx nl, x, lpm_r) | None => None end, es)  (* 565-571 *)
  end.
(** [TrieViewMut::difference_mut], difference.rs:254-275, drained *)
Definition a_difference_mut_fuel (fuel : nat) (tl : tabL) (tr : tabR) (il ir : N) : res (list dmitem) :=
  xs <- a_d_next_indices tl tr (Some il) (Some ir) ;;                   (* 263-268 *)
  es <- a_d_extend_lpm tr None xs ;;                                    (* 259-270 *)
  rrun (adidx * lpmR)%type dmitem (a_dm_expand tl tr) fuel (rev es).
Definition a_difference_mut (tl : tabL) (tr : tabR) :=
  a_difference_mut_fuel (S (length tl + length tr)) tl tr.

(** one iteration of [CoveringDifference::next], difference.rs:415-485 *)
Definition a_cd_expand (tl : tabL) (tr : tabR) (cur : adidx) : res (option (pfx * L) * list adidx) :=
  match cur with
  | ADBoth l r =>                                                       (* 418 *)
    nl <- rdL tl l ;;                                                   (* 419 *)
    nr <- rdR tr r ;;                                                   (* 420 *)
    if is_some (nval nr) then Ok (None, [])                             (* 422-424: continue *)
    else
      x1 <- a_d_next_indices tl tr (nright nl) (nright nr) ;;           (* 425-430 *)
      x2 <- a_d_next_indices tl tr (nleft nl) (nleft nr) ;;             (* 431-436 *)
      Ok (match nval nl with Some x => Some (npfx nl, x) | None => None end, x1 ++ x2)  (* 437-439 *)
  | ADFirstL l r =>                                                     (* 441 *)
    nl <- rdL tl l ;;                                                   (* 442 *)
    xs <- a_d_next_first_a tl tr l (nleft nl) (nright nl) r ;;          (* 443-450 *)
    Ok (match nval nl with Some x => Some (npfx nl, x) | None => None end, xs)  (* 451-453 *)
  | ADFirstR l r =>                                                     (* 455 *)
    nr <- rdR tr r ;;                                                   (* 456 *)
    if is_some (nval nr) then Ok (None, [])                             (* 458-460: continue *)
    else
      xs <- a_d_next_first_b tl tr l r (nleft nr) (nright nr) ;;        (* 461-468 *)
      Ok (None, xs)
  | ADOnlyL l =>                                                        (* 470 *)
    nl <- rdL tl l ;;                                                   (* 471 *)
    Ok (match nval nl with Some x => Some (npfx nl, x) | None => None end, a_d_only_l nl)  (* 472-480 *)
  end.
(** [TrieView::covering_difference], difference.rs:188-203, drained *)
Definition a_covering_difference_fuel (fuel : nat) (tl : tabL) (tr : tabR) (il ir : N)
  : res (list (pfx * L)) :=
  xs <- a_d_next_indices tl tr (Some il) (Some ir) ;;                   (* 196-201 *)
  rrun adidx (pfx * L)%type (a_cd_expand tl tr) fuel (rev xs).
Definition a_covering_difference (tl : tabL) (tr : tabR) :=
  a_covering_difference_fuel (S (length tl + length tr)) tl tr.

(** one iteration of [CoveringDifferenceMut::next], difference.rs:582-659 *)
Definition a_cdm_expand (tl : tabL) (tr : tabR) (cur : adidx)
  : res (option (pfx * (N * L)) * list adidx) :=
  match cur with
  | ADBoth l r =>                                                       (* 590 *)
    nl <- rdL tl l ;;                                                   (* 591 *)
    nr <- rdR tr r ;;                                                   (* 592 *)
    if is_some (nval nr) then Ok (None, [])                             (* 594-596: continue *)
    else
      x1 <- a_d_next_indices tl tr (nright nl) (nright nr) ;;           (* 597-602 *)
      x2 <- a_d_next_indices tl tr (nleft nl) (nleft nr) ;;             (* 603-608 *)
      nl <- rdL tl l ;;                                                 (* 609: get_mut *)
      Ok (match aidval l nl with Some x => Some (npfx nl, x) | None => None end, x1 ++ x2)  (* 610-612 *)
  | ADFirstL l r =>                                                     (* 614 *)
    nl <- rdL tl l ;;                                                   (* 615 *)
    xs <- a_d_next_first_a tl tr l (nleft nl) (nright nl) r ;;          (* 616-623 *)
    nl <- rdL tl l ;;                                                   (* 624 *)
    Ok (match aidval l nl with Some x => Some (npfx nl, x) | None => None end, xs)  (* 625-627 *)
  | ADFirstR l r =>                                                     (* 629 *)
    nr <- rdR tr r ;;                                                   (* 630 *)
    if is_some (nval nr) then Ok (None, [])                             (* 632-634: continue *)
    else
      xs <- a_d_next_first_b tl tr l r (nleft nr) (nright nr) ;;        (* 635-642 *)
      Ok (None, xs)
  | ADOnlyL l =>                                                        (* 644 *)
    nl <- rdL tl l ;;                                                   (* 645 *)
    Ok (match aidval l nl with Some x => Some (npfx nl, x) | None => None end, a_d_only_l nl)  (* 646-654 *)
  end.
(** [TrieViewMut::covering_difference_mut], difference.rs:309-325, drained *)
Definition a_covering_difference_mut_fuel (fuel : nat) (tl : tabL) (tr : tabR) (il ir : N)
  : res (list (pfx * (N * L))) :=
  xs <- a_d_next_indices tl tr (Some il) (Some ir) ;;                   (* 314-319 *)
  rrun adidx (pfx * (N * L))%type (a_cdm_expand tl tr) fuel (rev xs).
Definition a_covering_difference_mut (tl : tabL) (tr : tabR) :=
  a_covering_difference_mut_fuel (S (length tl + length tr)) tl tr.

End A3S.

(* ------------------------------------------------------------------------------------------ *)
(** * Reading a tree-model view back as an arena location (executable; used for testing and in
    the statements of [Arena3Thm.v]): the location of a view is the slot of its real node *)
Definition loc_of {pfx V} (v : view pfx V) : vloc pfx :=
  match v with VNode t => LNode (tid t) | VVirt p t => LVirt p (tid t) end.
Definition mloc_of {pfx V} (T : tree pfx V) (m : vmut pfx) : vloc pfx :=
  match mvirt pfx m with
  | None => LNode (tid (vm_tree T m))
  | Some p => LVirt p (tid (vm_tree T m))
  end.
(** [Machine.run]'s [None] is [OutOfFuel] *)
Definition lift_run {A} (o : option A) : res A := match o with Some a => Ok a | None => OutOfFuel end.

(* ------------------------------------------------------------------------------------------ *)
(** * Tests on the 8-bit instance: the arena observers against the tree model *)
