(** vm_compute comparisons of the arena-level observers of [Arena3.v] with the tree model on the
    8-bit PrefixN instance.  Kept in a file of their own that nothing imports, so that these heavy
    evaluations are not repeated by the independent checker when a property file is re-checked. *)
From Coq Require Import List NArith ZArith Bool.
From PT Require Import Machine Trie Views SetOps Arena Arena2 Arena3.
Import ListNotations.
From PT Require Import PrefixN.

Module Arena3Test.
Import ArenaTest Arena2Test.
Open Scope N_scope.

Definition MCMP := PrefixN.mcmp W.
Definition tab (h : list (aop2 P N)) : list (anode P N) := tbl (am_of (arun2 h)).
Definition tre (h : list (aop2 P N)) : tree P N := root (trun2 h).

(** [hr]: two value-less branching nodes (1/1 in slot 4, 10/2 in slot 2) above 100/3, 101/3, 11/2;
    [ha]: valued inner nodes, a value-less leaf left by [remove_keep_tree], the root valued;
    [hb]: a second map for the binary operations, with keys equal to, above, below and beside
    those of [ha]; [hz]: the empty map *)
Definition ha : list (aop2 P N) :=
  [I (p 128 1) 2; I (p 128 3) 1; I (p 160 3) 3; I (p 192 2) 5; I (p 64 2) 7; I (p 0 0) 9;
   I (p 96 3) 8; K (p 160 3); I (p 130 8) 4; I (p 131 8) 6].
Definition hb : list (aop2 P N) :=
  [I (p 128 2) 12; I (p 160 3) 13; I (p 128 4) 14; I (p 192 3) 15; I (p 64 3) 17; I (p 32 3) 18;
   I (p 130 7) 16; R (p 64 3); I (p 224 4) 19; I (p 96 3) 20].
Definition hz : list (aop2 P N) := [].
Example ha_shape :
  tre ha = Node 0 ZERO (Some 9)
             (Node 6 (p 64 2) (Some 7) Leaf (Node 7 (p 96 3) (Some 8) Leaf Leaf))
             (Node 1 (p 128 1) (Some 2)
                (Node 3 (p 128 2) None
                   (Node 2 (p 128 3) (Some 1)
                      (Node 9 (p 130 7) None (Node 8 (p 130 8) (Some 4) Leaf Leaf) (Node 10 (p 131 8) (Some 6) Leaf Leaf))
                      Leaf)
                   (Node 4 (p 160 3) None Leaf Leaf))
                (Node 5 (p 192 2) (Some 5) Leaf Leaf)).
Proof. vm_compute. reflexivity. Qed.

(** the queries: every key of the maps, keys above / below / beside them, on edges (virtual
    views), at the root, host-length keys *)
Definition qs : list P :=
  [p 0 0; p 0 1; p 128 1; p 128 2; p 128 3; p 160 3; p 192 2; p 64 2; p 96 3; p 130 8; p 131 8;
   p 130 7; p 128 4; p 192 3; p 64 3; p 32 3; p 224 4; p 129 8; p 161 8; p 200 5; p 224 3; p 176 4;
   p 144 4; p 128 5; p 128 6; p 130 6; p 64 1; p 96 4; p 255 8; p 0 8; p 192 1; p 160 2].
Definition hs : list (list (aop2 P N)) := [hr; ha; hb; hz].

(** ** the lookups of src/map/mod.rs *)
Example get_key_value_ok :
  map (fun h => map (a_get_key_value P N PEQ CON BIT LEN (am_of (arun2 h))) qs) hs
  = map (fun h => map (fun q => Ok (get_key_value P N PEQ CON BIT LEN (tre h) q)) qs) hs.
Proof. vm_compute. reflexivity. Qed.
Example contains_key_ok :
  map (fun h => map (a_contains_key P N PEQ CON BIT LEN (am_of (arun2 h))) qs) hs
  = map (fun h => map (fun q => Ok (contains_key P N PEQ CON BIT LEN (tre h) q)) qs) hs.
Proof. vm_compute. reflexivity. Qed.
Example get_lpm_prefix_ok :
  map (fun h => map (a_get_lpm_prefix P N PEQ CON BIT LEN (am_of (arun2 h))) qs) hs
  = map (fun h => map (fun q => Ok (get_lpm_prefix P N PEQ CON BIT LEN (tre h) q)) qs) hs.
Proof. vm_compute. reflexivity. Qed.
Example get_lpm_mut_ok :
  map (fun h => map (a_get_lpm_mut P N PEQ CON BIT LEN (am_of (arun2 h))) qs) hs
  = map (fun h => map (fun q => Ok (get_lpm_mut P N PEQ CON BIT LEN (tre h) q)) qs) hs.
Proof. vm_compute. reflexivity. Qed.
Example get_spm_ok :
  map (fun h => map (a_get_spm P N PEQ CON BIT LEN (am_of (arun2 h))) qs) hs
  = map (fun h => map (fun q => Ok (get_spm P N PEQ CON BIT LEN (tre h) q)) qs) hs.
Proof. vm_compute. reflexivity. Qed.
Example get_spm_prefix_ok :
  map (fun h => map (a_get_spm_prefix P N PEQ CON BIT LEN (am_of (arun2 h))) qs) hs
  = map (fun h => map (fun q => Ok (get_spm_prefix P N PEQ CON BIT LEN (tre h) q)) qs) hs.
Proof. vm_compute. reflexivity. Qed.
(** the index [get_lpm_mut] returns: the valued node 1/1 (slot 1) is the best match of 1010/4 in
    [ha] (101/3 in slot 4 lost its value); no valued node covers it in [hr] *)
Example get_lpm_mut_index :
  (a_get_lpm_mut P N PEQ CON BIT LEN (am_of (arun2 ha)) (p 160 4),
   a_get_lpm_mut P N PEQ CON BIT LEN (am_of (arun2 hr)) (p 64 2))
  = (Ok (Some (1, p 128 1, 2)), Ok None).
Proof. vm_compute. reflexivity. Qed.

(** ** src/map/iter.rs *)
Example children_start_ok :
  map (fun h => map (a_children_start P N PEQ CON BIT LEN (am_of (arun2 h))) qs) hs
  = map (fun h => map (fun q => Ok (map tid (children_start P N PEQ CON BIT LEN (tre h) q))) qs) hs.
Proof. vm_compute. reflexivity. Qed.
Example children_ok :
  map (fun h => map (a_children P N PEQ CON BIT LEN (am_of (arun2 h))) qs) hs
  = map (fun h => map (fun q => Ok (map (fun e => (snd (fst e), snd e)) (children P N PEQ CON BIT LEN (tre h) q))) qs) hs.
Proof. vm_compute. reflexivity. Qed.
(** [Cover]: every call of [next], state by state (the state [Some i] is the slot of [CAt t]) *)
Definition cst_of (st : cstate P N) : option N :=
  match st with CStart => None | CAt t => Some (tid t) end.
Fixpoint a_cover_trace (n : nat) (tb : list (anode P N)) (st : option N) (q : P)
  : list (res (option (P * N) * option N)) :=
  match n with
  | O => []
  | S n' =>
    let r := a_cover_next P N PEQ CON BIT LEN (S (length tb)) tb st q in
    r :: match r with Ok (_, st') => a_cover_trace n' tb st' q | _ => [] end
  end.
Fixpoint t_cover_trace (n : nat) (T : tree P N) (st : cstate P N) (q : P)
  : list (res (option (P * N) * option N)) :=
  match n with
  | O => []
  | S n' =>
    let '(o, st') := cover_next P N PEQ CON BIT LEN T st q in
    Ok (o, cst_of st') :: t_cover_trace n' T st' q
  end.
Example cover_next_ok :
  map (fun h => map (a_cover_trace 6 (tab h) None) qs) hs
  = map (fun h => map (t_cover_trace 6 (tre h) CStart) qs) hs.
Proof. vm_compute. reflexivity. Qed.
Example cover_ok :
  map (fun h => map (a_cover P N PEQ CON BIT LEN (am_of (arun2 h))) qs) hs
  = map (fun h => map (fun q => Ok (cover_walk P N PEQ CON BIT LEN (tre h) q)) qs) hs.
Proof. vm_compute. reflexivity. Qed.

(** ** [TrieView]: every observer at every view [find] yields from the root, virtual ones included *)
Definition views_of (h : list (aop2 P N)) : list (view P N) :=
  VNode (tre h) ::
  flat_map (fun q => match v_find P N PEQ CON BIT LEN (VNode (tre h)) q with Some v => [v] | None => [] end) qs.
Definition ol (o : option (view P N)) : res (option (vloc P)) := Ok (option_map loc_of o).
Definition vobs_a (tb : list (anode P N)) (l : vloc P) :=
  (map (a_v_find P N PEQ CON BIT LEN LCP tb l) qs, map (a_v_find_exact P N PEQ CON BIT LEN tb l) qs,
   map (a_v_find_lpm P N PEQ CON BIT LEN tb l) qs, a_v_left P N BIT LEN tb l, a_v_right P N BIT LEN tb l,
   a_v_prefix P N tb l, a_v_value P N tb l, a_v_prefix_value P N tb l).
Definition vobs_t (v : view P N) :=
  (map (fun q => ol (v_find P N PEQ CON BIT LEN v q)) qs, map (fun q => ol (v_find_exact P N PEQ CON BIT LEN v q)) qs,
   map (fun q => ol (v_find_lpm P N PEQ CON BIT LEN v q)) qs, ol (v_left P N BIT LEN ZERO v), ol (v_right P N BIT LEN ZERO v),
   Ok (A := P) (v_prefix P N ZERO v), Ok (A := option N) (v_value v), Ok (A := option (P * N)) (v_prefix_value v)).
Example view_observers_ok :
  map (fun h => map (fun v => vobs_a (tab h) (loc_of v)) (views_of h)) hs
  = map (fun h => map vobs_t (views_of h)) hs.
Proof. vm_compute. reflexivity. Qed.
(** among them: a virtual view (10000/5 on the edge 100/3 -> 1000001/7 of [ha]: real node in
    slot 9), a view at a value-less branching node of [hr], a query that covers the view's node
    (virtual at its own slot) *)
Example view_samples :
  (a_v_find P N PEQ CON BIT LEN LCP (tab ha) (LNode 0) (p 128 5),
   a_v_find P N PEQ CON BIT LEN LCP (tab hr) (LNode 0) (p 128 2),
   a_v_find P N PEQ CON BIT LEN LCP (tab hr) (LNode 2) (p 128 1),
   a_v_left P N BIT LEN (tab ha) (LVirt (p 128 5) 9), a_v_right P N BIT LEN (tab ha) (LVirt (p 128 5) 9),
   a_v_value P N (tab hr) (LNode 2), a_v_prefix P N (tab ha) (LVirt (p 128 5) 9))
  = (Ok (Some (LVirt (p 128 5) 9)), Ok (Some (LNode 2)), Ok (Some (LVirt (p 128 1) 2)),
     Ok (Some (LNode 9)), Ok None, Ok None, Ok (p 128 5)).
Proof. vm_compute. reflexivity. Qed.

(** ** [TrieViewMut] *)
Definition vmuts_of (h : list (aop2 P N)) : list (vmut P) :=
  vm_root P ::
  flat_map (fun q => match vm_find P N PEQ CON BIT LEN (tre h) (vm_root P) q with Some m => [m] | None => [] end) qs.
Definition oml (T : tree P N) (o : option (vmut P)) : res (option (vloc P)) := Ok (option_map (mloc_of T) o).
Definition mobs_a (tb : list (anode P N)) (l : vloc P) :=
  (map (a_vm_find P N PEQ CON BIT LEN LCP tb l) qs, map (a_vm_find_exact P N PEQ CON BIT LEN tb l) qs,
   map (a_vm_find_lpm P N PEQ CON BIT LEN tb l) qs, a_vm_left P N BIT LEN tb l, a_vm_right P N BIT LEN tb l,
   a_vm_has_left P N BIT LEN tb l, a_vm_has_right P N BIT LEN tb l, a_vm_split P N BIT LEN tb l,
   a_vm_prefix P N tb l, a_vm_value P N tb l).
Definition mobs_t (T : tree P N) (m : vmut P) :=
  (map (fun q => oml T (vm_find P N PEQ CON BIT LEN T m q)) qs, map (fun q => oml T (vm_find_exact P N PEQ CON BIT LEN T m q)) qs,
   map (fun q => oml T (vm_find_lpm P N PEQ CON BIT LEN T m q)) qs, oml T (vm_left P N BIT LEN ZERO T m), oml T (vm_right P N BIT LEN ZERO T m),
   Ok (A := bool) (vm_has_left P N BIT LEN ZERO T m), Ok (A := bool) (vm_has_right P N BIT LEN ZERO T m),
   Ok (A := option (vloc P) * option (vloc P))
      (let '(a, b) := vm_split P N BIT LEN ZERO T m in (option_map (mloc_of T) a, option_map (mloc_of T) b)),
   Ok (A := P) (vm_prefix P N ZERO T m), Ok (A := option N) (vm_value T m)).
Example viewmut_observers_ok :
  map (fun h => map (fun m => mobs_a (tab h) (mloc_of (tre h) m)) (vmuts_of h)) hs
  = map (fun h => map (mobs_t (tre h)) (vmuts_of h)) hs.
Proof. vm_compute. reflexivity. Qed.

(** ** the set operations, at every pair of views of the two maps (operands with different
    roots, virtual views, value-less branching nodes, the empty map) *)
Definition pairs (h1 h2 : list (aop2 P N)) : list (view P N * view P N) :=
  flat_map (fun v1 => map (fun v2 => (v1, v2)) (views_of h2)) (views_of h1).
Definition hps : list (list (aop2 P N) * list (aop2 P N)) := [(ha, hb); (hb, ha); (hr, hb); (ha, ha); (ha, hz); (hz, hb)].
Definition on_pairs {X} (fa : list (anode P N) -> list (anode P N) -> N -> N -> X)
           (ft : tree P N -> tree P N -> X) : list (list X) * list (list X) :=
  (map (fun hp => map (fun vv => fa (tab (fst hp)) (tab (snd hp)) (loc_idx (loc_of (fst vv))) (loc_idx (loc_of (snd vv))))
                      (pairs (fst hp) (snd hp))) hps,
   map (fun hp => map (fun vv => ft (v_tree (fst vv)) (v_tree (snd vv))) (pairs (fst hp) (snd hp))) hps).
Definition same {X} (x : X * X) : Prop := fst x = snd x.

Example union_ok :
  same (on_pairs (a_union P N N CON BIT LEN MCMP) (fun a b => lift_run (union P N N CON BIT LEN ZERO MCMP a b))).
Proof. vm_compute. reflexivity. Qed.
Example union_mut_ok :
  same (on_pairs (a_union_mut P N N CON BIT LEN MCMP) (fun a b => lift_run (union_mut P N N CON BIT LEN ZERO MCMP a b))).
Proof. vm_compute. reflexivity. Qed.
Example intersection_ok :
  same (on_pairs (a_intersection P N N CON BIT LEN MCMP) (fun a b => lift_run (intersection P N N CON BIT LEN ZERO MCMP a b))).
Proof. vm_compute. reflexivity. Qed.
Example intersection_mut_ok :
  same (on_pairs (a_intersection_mut P N N CON BIT LEN MCMP) (fun a b => lift_run (intersection_mut P N N CON BIT LEN ZERO MCMP a b))).
Proof. vm_compute. reflexivity. Qed.
Example difference_ok :
  same (on_pairs (a_difference P N N CON BIT LEN MCMP) (fun a b => lift_run (difference P N N CON BIT LEN ZERO MCMP a b))).
Proof. vm_compute. reflexivity. Qed.
Example difference_mut_ok :
  same (on_pairs (a_difference_mut P N N CON BIT LEN MCMP) (fun a b => lift_run (difference_mut P N N CON BIT LEN ZERO MCMP a b))).
Proof. vm_compute. reflexivity. Qed.
Example covering_difference_ok :
  same (on_pairs (a_covering_difference P N N CON BIT LEN MCMP) (fun a b => lift_run (covering_difference P N N CON BIT LEN ZERO MCMP a b))).
Proof. vm_compute. reflexivity. Qed.
Example covering_difference_mut_ok :
  same (on_pairs (a_covering_difference_mut P N N CON BIT LEN MCMP) (fun a b => lift_run (covering_difference_mut P N N CON BIT LEN ZERO MCMP a b))).
Proof. vm_compute. reflexivity. Qed.
(** one of them spelled out: the two roots differ (10/2 of [hr], a value-less branch in slot 2,
    against 1000/4 of [hb] in slot 3, which lies below 100/3 of [hr]) *)
Example union_sample :
  a_union P N N CON BIT LEN MCMP (tab hr) (tab hb) 2 3
  = Ok [ILeft P N N (p 128 3) 1 None; IRight P N N (p 128 4) (Some (p 128 3, 1)) 14;
        IRight P N N (p 130 7) (Some (p 128 3, 1)) 16; ILeft P N N (p 160 3) 3 None].
Proof. vm_compute. reflexivity. Qed.

(** corrupted arenas: a dangling link panics, a link cycle runs out of fuel -- in the observers as
    in the mutators *)
Example dangling_observers :
  let tb := [mkanode ZERO None (Some 7) None] in
  (a_get_spm P N PEQ CON BIT LEN (mkamap tb [] 0) (p 1 8), a_v_find P N PEQ CON BIT LEN LCP tb (LNode 0) (p 1 8),
   a_children_start P N PEQ CON BIT LEN (mkamap tb [] 0) (p 1 8), a_union P N N CON BIT LEN MCMP tb tb 0 0)
  = (Panic, Panic, Panic, Panic).
Proof. vm_compute. reflexivity. Qed.
Example cycle_observers :
  (a_contains_key P N PEQ CON BIT LEN cyc (p 1 8), a_v_find_lpm P N PEQ CON BIT LEN (tbl cyc) (LNode 0) (p 1 8),
   a_cover P N PEQ CON BIT LEN cyc (p 1 8), a_covering_difference P N N CON BIT LEN MCMP (tbl cyc) (tbl cyc) 0 0)
  = (OutOfFuel, OutOfFuel, OutOfFuel, OutOfFuel).
Proof. vm_compute. reflexivity. Qed.
End Arena3Test.
