(** The read-only observers of [Arena3.v] refine the tree model: on an arena that represents a
    tree ([ArenaThm.rep]) every observer returns [Ok] of the result of the tree-model function
    ([Trie.v], [Views.v], [SetOps.v]) -- never [Panic], never [OutOfFuel] within the stated fuel.
    As in [ArenaThm.v] no law about prefixes is needed: the arena code and the tree code ask the
    same questions in the same order. *)
From Coq Require Import List NArith ZArith Bool Arith Lia ZifyN ZifyBool ZifyNat Permutation.
From PT Require Import Machine MachineThm Trie Views SetOps Slots Lookup2 UnionThm Arena ArenaThm Arena2 Arena2Thm Arena3.
Import ListNotations.

(* ------------------------------------------------------------------------------------------ *)
(** * The generic simulation lemma for the [res]-valued stack machine *)
Section RunSim.
Variables (EA ET I : Type).
Variable expa : EA -> res (option I * list EA).
Variable expt : ET -> option I * list ET.
Variable Rel : EA -> ET -> Prop.
(** the two [expand]s, started on related entries, emit the same item and push related children *)
Hypothesis local : forall ea et, Rel ea et ->
  exists cs, expa ea = Ok (fst (expt et), cs) /\ Forall2 Rel cs (snd (expt et)).

Lemma Forall2_rev {A B} (R : A -> B -> Prop) l1 l2 : Forall2 R l1 l2 -> Forall2 R (rev l1) (rev l2).
Proof.
  induction 1 as [|x y l1 l2 Hxy HF IH]; [constructor|]. cbn [rev].
  apply Forall2_app; [exact IH|]. constructor; [exact Hxy|constructor].
Qed.

Theorem rrun_sim_rel : forall n sa st, Forall2 Rel sa st ->
  rrun EA I expa n sa = lift_run (run ET I expt n st).
Proof.
  induction n as [|n IH]; intros sa st F; destruct F as [|ea et sa st Hr F]; cbn [rrun run]; try reflexivity.
  destruct (local ea et Hr) as (cs & E & Fc). rewrite E. cbn [rbind fst snd].
  destruct (expt et) as [o cst] eqn:X. cbn [fst snd] in *.
  rewrite (IH (rev cs ++ sa) (rev cst ++ st)).
  - destruct (run ET I expt n (rev cst ++ st)); reflexivity.
  - apply Forall2_app; [apply Forall2_rev; exact Fc|exact F].
Qed.
End RunSim.

(** functional form: the arena entry is a function [f] of the tree entry, under an invariant [P]
    of tree entries *)
Section RunSimF.
Variables (EA ET I : Type).
Variable expa : EA -> res (option I * list EA).
Variable expt : ET -> option I * list ET.
Variable f : ET -> EA.
Variable P : ET -> Prop.
Hypothesis local : forall et, P et ->
  expa (f et) = Ok (fst (expt et), map f (snd (expt et))) /\ Forall P (snd (expt et)).

Theorem rrun_sim : forall n st, Forall P st ->
  rrun EA I expa n (map f st) = lift_run (run ET I expt n st).
Proof.
  intros n st F.
  apply (rrun_sim_rel EA ET I expa expt (fun ea et => ea = f et /\ P et)).
  - intros ea et [-> Hp]. destruct (local et Hp) as [E Fc]. eexists. split; [exact E|].
    clear E. induction Fc as [|c cs Hc Fc IHc]; cbn [map]; constructor; auto.
  - induction F as [|e st He F IHF]; cbn [map]; constructor; auto.
Qed.
End RunSimF.

(** [rrun] on an [expand] that never fails is [Machine.run] *)
Lemma rrun_run (E I : Type) (ex : E -> option I * list E) n st :
  rrun E I (fun e => Ok (ex e)) n st = lift_run (run E I ex n st).
Proof.
  rewrite <- (map_id st) at 1.
  apply (rrun_sim E E I (fun e => Ok (ex e)) ex (fun e => e) (fun _ => True)).
  - intros et _. rewrite map_id. split; [destruct (ex et); reflexivity|].
    apply Forall_forall. intros; exact Logic.I.
  - apply Forall_forall. intros; exact Logic.I.
Qed.

(** relations lifted to options *)
Definition opt_rel {A B} (R : A -> B -> Prop) (o1 : option A) (o2 : option B) : Prop :=
  match o1, o2 with
  | Some a, Some b => R a b
  | None, None => True
  | _, _ => False
  end.

Section A3T.
Variables (pfx V : Type).
Variables (peq contains : pfx -> pfx -> bool) (is_bit_set : pfx -> N -> bool)
          (plen : pfx -> N) (lcp : pfx -> pfx -> pfx) (pzero : pfx).

Notation tree := (Trie.tree pfx V).
Notation pmap := (Trie.pmap pfx V).
Notation anode := (Arena.anode pfx V).
Notation amap := (Arena.amap pfx V).
Notation to_right := (Trie.to_right pfx is_bit_set plen).
Notation ids := (Slots.ids pfx V).
Notation minv := (Slots.minv pfx V).
Notation rep := (ArenaThm.rep pfx V).
Notation Rep := (ArenaThm.Rep pfx V).
Notation slot := (ArenaThm.slot pfx V).
Notation link := (ArenaThm.link pfx V).
Notation csel := (ArenaThm.csel pfx V).
Notation ssel := (ArenaThm.ssel pfx V).
Notation height := (ArenaThm.height pfx V).
Notation dir_of := (ArenaThm.dir_of pfx V peq contains is_bit_set plen).
Notation dir_ins_of := (ArenaThm.dir_ins_of pfx V peq contains is_bit_set plen lcp).
Notation rd := (Arena.rd pfx V).
Notation child_of := (Arena.child_of pfx V).
Notation get_child := (Arena.get_child pfx V).
Notation prefix_value := (Arena.prefix_value pfx V).
Notation a_direction := (Arena.a_direction pfx V peq contains is_bit_set plen).
Notation a_direction_ins := (Arena.a_direction_ins pfx V peq contains is_bit_set plen lcp).
Notation vloc := (Arena3.vloc pfx).
Notation view := (Views.view pfx V).
Notation vmut := (Views.vmut pfx).

Notation get_node := (Trie.get_node pfx V peq contains is_bit_set plen).
Notation get_key_value := (Trie.get_key_value pfx V peq contains is_bit_set plen).
Notation contains_key := (Trie.contains_key pfx V peq contains is_bit_set plen).
Notation lpmp_walk := (Trie.lpmp_walk pfx V peq contains is_bit_set plen).
Notation get_lpm_prefix := (Trie.get_lpm_prefix pfx V peq contains is_bit_set plen).
Notation lpmm_walk := (Trie.lpmm_walk pfx V peq contains is_bit_set plen).
Notation get_lpm_mut := (Trie.get_lpm_mut pfx V peq contains is_bit_set plen).
Notation spm_walk := (Trie.spm_walk pfx V peq contains is_bit_set plen).
Notation get_spm := (Trie.get_spm pfx V peq contains is_bit_set plen).
Notation get_spm_prefix := (Trie.get_spm_prefix pfx V peq contains is_bit_set plen).
Notation children_start := (Trie.children_start pfx V peq contains is_bit_set plen).
Notation cover_loop := (Trie.cover_loop pfx V peq contains is_bit_set plen).
Notation cover_next := (Trie.cover_next pfx V peq contains is_bit_set plen).
Notation cover_drain := (Trie.cover_drain pfx V peq contains is_bit_set plen).

Notation a_gkv_loop := (Arena3.a_gkv_loop pfx V peq contains is_bit_set plen).
Notation a_get_key_value := (Arena3.a_get_key_value pfx V peq contains is_bit_set plen).
Notation a_ck_loop := (Arena3.a_ck_loop pfx V peq contains is_bit_set plen).
Notation a_contains_key := (Arena3.a_contains_key pfx V peq contains is_bit_set plen).
Notation a_lpmp_loop := (Arena3.a_lpmp_loop pfx V peq contains is_bit_set plen).
Notation a_get_lpm_prefix := (Arena3.a_get_lpm_prefix pfx V peq contains is_bit_set plen).
Notation a_lpmm_loop := (Arena3.a_lpmm_loop pfx V peq contains is_bit_set plen).
Notation a_get_lpm_mut := (Arena3.a_get_lpm_mut pfx V peq contains is_bit_set plen).
Notation a_spm_loop := (Arena3.a_spm_loop pfx V peq contains is_bit_set plen).
Notation a_get_spm := (Arena3.a_get_spm pfx V peq contains is_bit_set plen).
Notation a_get_spm_prefix := (Arena3.a_get_spm_prefix pfx V peq contains is_bit_set plen).
Notation a_cs_loop := (Arena3.a_cs_loop pfx V peq contains is_bit_set plen).
Notation a_children_start_fuel := (Arena3.a_children_start_fuel pfx V peq contains is_bit_set plen).
Notation a_children_start := (Arena3.a_children_start pfx V peq contains is_bit_set plen).
Notation a_children := (Arena3.a_children pfx V peq contains is_bit_set plen).
Notation a_cover_loop := (Arena3.a_cover_loop pfx V peq contains is_bit_set plen).
Notation a_cover_next := (Arena3.a_cover_next pfx V peq contains is_bit_set plen).
Notation a_cover_drain := (Arena3.a_cover_drain pfx V peq contains is_bit_set plen).
Notation a_cover := (Arena3.a_cover pfx V peq contains is_bit_set plen).

(* ------------------------------------------------------------------------------------------ *)
(** * Local forms of the facts of [ArenaThm.v] *)

Lemma hcsel rt i p v (l r : tree) : (S (height (csel rt l r)) <= height (Node i p v l r))%nat.
Proof. destruct rt; cbn [ArenaThm.csel ArenaThm.height]; lia. Qed.

(** everything a descent needs to know about a represented node and the child on side [rt] *)
Lemma rep_node_facts tb i0 i p v l r (rt : bool) : rep tb (Some i0) (Node i p v l r) ->
  i0 = i /\ slot tb i = Some (mkanode p v (link l) (link r)) /\
  rd tb i = Ok (mkanode p v (link l) (link r)) /\
  get_child tb i rt = Ok (link (csel rt l r)) /\
  rep tb (link (csel rt l r)) (csel rt l r) /\ rep tb (link l) l /\ rep tb (link r) r.
Proof.
  intros H. destruct (ArenaThm.rep_node_inv pfx V _ _ _ _ _ _ _ H) as (E & Hs & Rl & Rr).
  injection E as ->. split; [reflexivity|]. split; [exact Hs|].
  split; [apply ArenaThm.rd_ok; exact Hs|].
  split; [rewrite (ArenaThm.get_child_ok pfx V _ _ _ rt Hs); destruct rt; reflexivity|].
  split; [destruct rt; assumption|]. auto.
Qed.

Lemma rep_is_node tb i t : rep tb (Some i) t -> exists p v l r, t = Node i p v l r.
Proof. apply ArenaThm.rep_some_inv. Qed.

Lemma rep_tid tb i t : rep tb (Some i) t -> tid t = i.
Proof. intros H. destruct (rep_is_node _ _ _ H) as (p & v & l & r & ->). reflexivity. Qed.

Lemma rep_link_node tb (t : tree) : is_node t = true -> rep tb (link t) t -> rep tb (Some (tid t)) t.
Proof. destruct t; [discriminate|]. intros _ H. exact H. Qed.

(* ------------------------------------------------------------------------------------------ *)
(** * A represented tree is no taller than the table, whatever else the table holds: the slots
    along a path of the tree are pairwise distinct (a slot represents one tree only) *)

Lemma rep_fun tb : forall (t1 : tree) o, rep tb o t1 -> forall t2, rep tb o t2 -> t1 = t2.
Proof.
  induction t1 as [|i p v l IHl r IHr]; intros o H1 t2 H2.
  - inversion H1; subst. inversion H2; subst. reflexivity.
  - destruct (ArenaThm.rep_node_inv pfx V _ _ _ _ _ _ _ H1) as (-> & Hs & Rl & Rr).
    destruct (rep_is_node _ _ _ H2) as (p' & v' & l' & r' & ->).
    destruct (ArenaThm.rep_node_inv pfx V _ _ _ _ _ _ _ H2) as (_ & Hs' & Rl' & Rr').
    rewrite Hs in Hs'. injection Hs' as <- <- El Er.
    rewrite <- El in Rl'. rewrite <- Er in Rr'.
    rewrite (IHl _ Rl _ Rl'), (IHr _ Rr _ Rr'). reflexivity.
Qed.

(** the slots along a tallest path *)
Fixpoint tall_path (t : tree) : list N :=
  match t with
  | Leaf => []
  | Node i _ _ l r => i :: (if (height r <=? height l)%nat then tall_path l else tall_path r)
  end.

Lemma tall_path_len : forall t, length (tall_path t) = height t.
Proof.
  induction t as [|i p v l IHl r IHr]; [reflexivity|]. cbn [tall_path length ArenaThm.height].
  destruct (Nat.leb_spec (height r) (height l)); [rewrite IHl|rewrite IHr]; lia.
Qed.

Lemma tall_in tb : forall (t : tree) o, rep tb o t -> forall j, In j (tall_path t) ->
  exists t', rep tb (Some j) t' /\ (tsize t' <= tsize t)%nat.
Proof.
  induction t as [|i p v l IHl r IHr]; intros o H j Hj; [destruct Hj|].
  destruct (ArenaThm.rep_node_inv pfx V _ _ _ _ _ _ _ H) as (-> & _ & Rl & Rr).
  cbn [tall_path In] in Hj. destruct Hj as [<-|Hj]; [exists (Node i p v l r); split; [exact H|lia]|].
  cbn [tsize]. destruct (height r <=? height l)%nat.
  - destruct (IHl _ Rl j Hj) as (t' & R' & S'). exists t'. split; [exact R'|lia].
  - destruct (IHr _ Rr j Hj) as (t' & R' & S'). exists t'. split; [exact R'|lia].
Qed.

Lemma tall_nodup tb : forall (t : tree) o, rep tb o t -> NoDup (tall_path t).
Proof.
  induction t as [|i p v l IHl r IHr]; intros o H; [constructor|].
  destruct (ArenaThm.rep_node_inv pfx V _ _ _ _ _ _ _ H) as (-> & _ & Rl & Rr).
  cbn [tall_path]. constructor.
  - intros Hi.
    assert (X : exists t', rep tb (Some i) t' /\ (tsize t' < tsize (Node i p v l r))%nat).
    { cbn [tsize]. destruct (height r <=? height l)%nat.
      - destruct (tall_in tb l _ Rl i Hi) as (t' & R' & S'). exists t'. split; [exact R'|lia].
      - destruct (tall_in tb r _ Rr i Hi) as (t' & R' & S'). exists t'. split; [exact R'|lia]. }
    destruct X as (t' & R' & S'). rewrite (rep_fun tb _ _ R' _ H) in S'. lia.
  - destruct (height r <=? height l)%nat; eauto.
Qed.

Theorem rep_height_le tb (t : tree) o : rep tb o t -> (height t <= length tb)%nat.
Proof.
  intros H. rewrite <- tall_path_len.
  assert (I : incl (tall_path t) (Slots.seqN (N.of_nat (length tb)))).
  { intros j Hj. destruct (tall_in tb t o H j Hj) as (t' & R' & _).
    destruct (rep_is_node _ _ _ R') as (p & v & l & r & ->).
    destruct (ArenaThm.rep_node_inv pfx V _ _ _ _ _ _ _ R') as (_ & Hs & _).
    unfold ArenaThm.slot in Hs. assert (X : nth_error tb (N.to_nat j) <> None) by congruence.
    apply nth_error_Some in X. unfold Slots.seqN. apply in_map_iff. exists (N.to_nat j).
    split; [lia|]. apply in_seq. lia. }
  pose proof (NoDup_incl_length (tall_nodup tb t o H) I) as Len.
  rewrite Slots.length_seqN in Len. lia.
Qed.

(** the common prelude of every descent loop: at a represented node with fuel [S f], the
    direction is the one read off the tree *)
Ltac descent H Hf q :=
  match type of H with
  | ArenaThm.rep _ _ ?tb (Some ?i) (Node ?i0 ?p ?v ?l ?r) =>
    let F := fresh "F" in let Hs := fresh "Hs" in let Hrd := fresh "Hrd" in let Hgc := fresh "Hgc" in
    let Rc := fresh "Rc" in let Hh := fresh "Hh" in let E := fresh "E" in
    pose proof (rep_node_facts tb i i0 p v l r (to_right p q) H) as (E & Hs & Hrd & Hgc & Rc & _ & _);
    subst i;
    pose proof (hcsel (to_right p q) i0 p v l r) as Hh;
    pose proof (ArenaThm.direction_sim pfx V peq contains is_bit_set plen _ _ _ q H) as F;
    cbn [ArenaThm.dir_of] in F
  end.

(* ------------------------------------------------------------------------------------------ *)
(** * [get_key_value], [contains_key] *)

Lemma gkv_loop_sim q : forall t fuel tb i,
  rep tb (Some i) t -> (height t <= fuel)%nat -> a_gkv_loop fuel tb i q = Ok (get_key_value t q).
Proof.
  induction t as [|i0 p v l IHl r IHr]; intros fuel tb i H Hf; [inversion H|].
  destruct fuel as [|f]; [cbn [ArenaThm.height] in Hf; lia|]. descent H Hf q.
  cbn [Arena3.a_gkv_loop]. rewrite F. cbn [rbind]. unfold Trie.get_key_value. cbn [Trie.get_node].
  destruct (peq p q) eqn:E.
  - rewrite Hrd. cbn [rbind]. unfold Arena.prefix_value. cbn [nval npfx]. reflexivity.
  - change (if to_right p q then r else l) with (csel (to_right p q) l r).
    assert (IH : forall f' tb' i', rep tb' (Some i') (csel (to_right p q) l r) ->
               (height (csel (to_right p q) l r) <= f')%nat ->
               a_gkv_loop f' tb' i' q = Ok (get_key_value (csel (to_right p q) l r) q)).
    { destruct (to_right p q); cbn [ArenaThm.csel]; auto. }
    destruct (csel (to_right p q) l r) as [|ci cp cv cl cr] eqn:C; [reflexivity|].
    destruct (contains cp q) eqn:E2; [|reflexivity].
    cbn [ArenaThm.link] in Rc. rewrite (IH f tb ci Rc) by lia. reflexivity.
Qed.

Theorem get_key_value_sim am m q : Rep am m -> minv m ->
  a_get_key_value am q = Ok (get_key_value (root m) q).
Proof.
  intros R M. apply gkv_loop_sim; [apply R|].
  pose proof (ArenaThm.Rep_height pfx V peq contains is_bit_set plen lcp pzero _ _ R M). lia.
Qed.

Lemma ck_loop_sim q : forall t fuel tb i,
  rep tb (Some i) t -> (height t <= fuel)%nat -> a_ck_loop fuel tb i q = Ok (contains_key t q).
Proof.
  induction t as [|i0 p v l IHl r IHr]; intros fuel tb i H Hf; [inversion H|].
  destruct fuel as [|f]; [cbn [ArenaThm.height] in Hf; lia|]. descent H Hf q.
  cbn [Arena3.a_ck_loop]. rewrite F. cbn [rbind]. unfold Trie.contains_key. cbn [Trie.get_node].
  destruct (peq p q) eqn:E.
  - rewrite Hrd. cbn [rbind nval]. destruct v; reflexivity.
  - change (if to_right p q then r else l) with (csel (to_right p q) l r).
    assert (IH : forall f' tb' i', rep tb' (Some i') (csel (to_right p q) l r) ->
               (height (csel (to_right p q) l r) <= f')%nat ->
               a_ck_loop f' tb' i' q = Ok (contains_key (csel (to_right p q) l r) q)).
    { destruct (to_right p q); cbn [ArenaThm.csel]; auto. }
    destruct (csel (to_right p q) l r) as [|ci cp cv cl cr] eqn:C; [reflexivity|].
    destruct (contains cp q) eqn:E2; [|reflexivity].
    cbn [ArenaThm.link] in Rc. rewrite (IH f tb ci Rc) by lia. reflexivity.
Qed.

Theorem contains_key_sim am m q : Rep am m -> minv m ->
  a_contains_key am q = Ok (contains_key (root m) q).
Proof.
  intros R M. apply ck_loop_sim; [apply R|].
  pose proof (ArenaThm.Rep_height pfx V peq contains is_bit_set plen lcp pzero _ _ R M). lia.
Qed.

(* ------------------------------------------------------------------------------------------ *)
(** * [get_lpm_prefix], [get_lpm_mut] *)

Lemma lpmp_loop_sim q : forall t fuel tb i best,
  rep tb (Some i) t -> (height t <= fuel)%nat -> a_lpmp_loop fuel tb i q best = Ok (lpmp_walk t q best).
Proof.
  induction t as [|i0 p v l IHl r IHr]; intros fuel tb i best H Hf; [inversion H|].
  destruct fuel as [|f]; [cbn [ArenaThm.height] in Hf; lia|]. descent H Hf q.
  cbn [Arena3.a_lpmp_loop]. rewrite Hrd. cbn [rbind]. rewrite F. cbn [rbind Trie.lpmp_walk].
  assert (EB : match option_map fst (prefix_value (mkanode p v (link l) (link r))) with
               | Some p0 => Some p0 | None => best end
               = match v with Some _ => Some p | None => best end).
  { unfold Arena.prefix_value. cbn [nval npfx]. destruct v; reflexivity. }
  rewrite EB. clear EB. destruct (peq p q) eqn:E; [reflexivity|].
  change (if to_right p q then r else l) with (csel (to_right p q) l r).
  assert (IH : forall f' tb' i' b', rep tb' (Some i') (csel (to_right p q) l r) ->
             (height (csel (to_right p q) l r) <= f')%nat ->
             a_lpmp_loop f' tb' i' q b' = Ok (lpmp_walk (csel (to_right p q) l r) q b')).
  { destruct (to_right p q); cbn [ArenaThm.csel]; auto. }
  destruct (csel (to_right p q) l r) as [|ci cp cv cl cr] eqn:C; [reflexivity|].
  destruct (contains cp q) eqn:E2; [|reflexivity].
  cbn [ArenaThm.link] in Rc. rewrite (IH f tb ci _ Rc) by lia. reflexivity.
Qed.

Theorem get_lpm_prefix_sim am m q : Rep am m -> minv m ->
  a_get_lpm_prefix am q = Ok (get_lpm_prefix (root m) q).
Proof.
  intros R M. apply lpmp_loop_sim; [apply R|].
  pose proof (ArenaThm.Rep_height pfx V peq contains is_bit_set plen lcp pzero _ _ R M). lia.
Qed.

(** the best INDEX of the arena loop against the best (slot, prefix, value) of the tree loop *)
Definition bm (tb : list anode) (ba : option N) (bt : option (N * pfx * V)) : Prop :=
  match ba, bt with
  | None, None => True
  | Some j, Some (j', p, x) => j = j' /\ exists ol orr, slot tb j = Some (mkanode p (Some x) ol orr)
  | _, _ => False
  end.

Lemma lpmm_loop_sim q : forall t fuel tb i ba bt,
  rep tb (Some i) t -> (height t <= fuel)%nat -> bm tb ba bt ->
  exists ba', a_lpmm_loop fuel tb i q ba = Ok ba' /\ bm tb ba' (lpmm_walk t q bt).
Proof.
  induction t as [|i0 p v l IHl r IHr]; intros fuel tb i ba bt H Hf B; [inversion H|].
  destruct fuel as [|f]; [cbn [ArenaThm.height] in Hf; lia|]. descent H Hf q.
  cbn [Arena3.a_lpmm_loop]. rewrite Hrd. cbn [rbind nval]. rewrite F. cbn [rbind Trie.lpmm_walk].
  assert (B' : bm tb (if is_some v then Some i0 else ba)
                  (match v with Some x => Some (i0, p, x) | None => bt end)).
  { destruct v as [x|]; cbn; [|exact B]. split; [reflexivity|]. eauto. }
  revert B'. generalize (if is_some v then Some i0 else ba).
  generalize (match v with Some x => Some (i0, p, x) | None => bt end). intros bt' ba' B'.
  destruct (peq p q) eqn:E; [eauto|].
  change (if to_right p q then r else l) with (csel (to_right p q) l r).
  assert (IH : forall f' tb' i' a' b', rep tb' (Some i') (csel (to_right p q) l r) ->
             (height (csel (to_right p q) l r) <= f')%nat -> bm tb' a' b' ->
             exists r', a_lpmm_loop f' tb' i' q a' = Ok r' /\ bm tb' r' (lpmm_walk (csel (to_right p q) l r) q b')).
  { destruct (to_right p q); cbn [ArenaThm.csel]; auto. }
  destruct (csel (to_right p q) l r) as [|ci cp cv cl cr] eqn:C; [eauto|].
  destruct (contains cp q) eqn:E2; [|eauto].
  cbn [ArenaThm.link] in Rc. apply (IH f tb ci _ _ Rc); [lia|exact B'].
Qed.

Theorem get_lpm_mut_sim am m q : Rep am m -> minv m ->
  a_get_lpm_mut am q = Ok (get_lpm_mut (root m) q).
Proof.
  intros R M. unfold Arena3.a_get_lpm_mut, Trie.get_lpm_mut.
  pose proof (ArenaThm.Rep_height pfx V peq contains is_bit_set plen lcp pzero _ _ R M) as HH.
  destruct (lpmm_loop_sim q (root m) (S (length (tbl am))) (tbl am) 0%N None None (proj1 R) ltac:(lia) Logic.I)
    as (ba & E & B).
  rewrite E. cbn [rbind]. destruct ba as [j|], (lpmm_walk (root m) q None) as [[[j' p] x]|]; cbn [bm] in B;
    try contradiction; [|reflexivity].
  destruct B as (<- & ol & orr & Hs). rewrite (ArenaThm.rd_ok pfx V _ _ _ Hs). reflexivity.
Qed.

(* ------------------------------------------------------------------------------------------ *)
(** * [get_spm], [get_spm_prefix] *)

Lemma spm_loop_sim q : forall t fuel tb i,
  rep tb (Some i) t -> (height t <= fuel)%nat -> a_spm_loop fuel tb i q = Ok (spm_walk t q).
Proof.
  induction t as [|i0 p v l IHl r IHr]; intros fuel tb i H Hf; [inversion H|].
  destruct fuel as [|f]; [cbn [ArenaThm.height] in Hf; lia|]. descent H Hf q.
  cbn [Arena3.a_spm_loop]. rewrite F. cbn [rbind Trie.spm_walk].
  destruct (peq p q) eqn:E.
  - rewrite Hrd. cbn [rbind]. unfold Arena.prefix_value. cbn [nval npfx]. reflexivity.
  - change (if to_right p q then r else l) with (csel (to_right p q) l r).
    assert (IH : forall f' tb' i', rep tb' (Some i') (csel (to_right p q) l r) ->
               (height (csel (to_right p q) l r) <= f')%nat ->
               a_spm_loop f' tb' i' q = Ok (spm_walk (csel (to_right p q) l r) q)).
    { destruct (to_right p q); cbn [ArenaThm.csel]; auto. }
    destruct (csel (to_right p q) l r) as [|ci cp cv cl cr] eqn:C; [reflexivity|].
    destruct (contains cp q) eqn:E2; [|reflexivity].
    cbn [ArenaThm.link] in Rc.
    destruct (rep_node_facts tb ci ci cp cv cl cr false Rc) as (_ & _ & Hrd' & _).
    rewrite Hrd'. cbn [rbind]. unfold Arena.prefix_value. cbn [nval npfx].
    destruct cv as [x|]; [reflexivity|]. apply IH; [exact Rc|lia].
Qed.

Theorem get_spm_sim am m q : Rep am m -> minv m -> a_get_spm am q = Ok (get_spm (root m) q).
Proof.
  intros R M. unfold Arena3.a_get_spm, Trie.get_spm.
  pose proof (ArenaThm.Rep_height pfx V peq contains is_bit_set plen lcp pzero _ _ R M) as HH.
  pose proof (proj1 R) as R0. destruct (rep_is_node _ _ _ R0) as (p & v & l & r & ET).
  rewrite ET in R0, HH |- *.
  destruct (rep_node_facts _ _ _ _ _ _ _ false R0) as (_ & _ & Hrd & _).
  rewrite Hrd. cbn [rbind]. unfold Arena.prefix_value. cbn [nval npfx pv].
  destruct v as [x|]; [reflexivity|]. apply spm_loop_sim; [exact R0|lia].
Qed.

Theorem get_spm_prefix_sim am m q : Rep am m -> minv m ->
  a_get_spm_prefix am q = Ok (get_spm_prefix (root m) q).
Proof.
  intros R M. unfold Arena3.a_get_spm_prefix, Trie.get_spm_prefix.
  rewrite (get_spm_sim am m q R M). reflexivity.
Qed.

(* ------------------------------------------------------------------------------------------ *)
(** * [lpm_children_iter_start] *)

Notation tpfx := (Trie.tpfx pfx V pzero).

Lemma cs_loop_sim q : forall t fuel tb i,
  rep tb (Some i) t -> (height t <= fuel)%nat ->
  a_cs_loop fuel tb i (tpfx t) q = Ok (map tid (children_start t q)) /\
  Forall (fun c => rep tb (Some (tid c)) c) (children_start t q).
Proof.
  induction t as [|i0 p v l IHl r IHr]; intros fuel tb i H Hf; [inversion H|].
  destruct fuel as [|f]; [cbn [ArenaThm.height] in Hf; lia|]. descent H Hf q. clear F.
  cbn [Arena3.a_cs_loop Trie.tpfx Trie.children_start].
  destruct (peq p q) eqn:E.
  - split; [reflexivity|]. constructor; [exact H|constructor].
  - rewrite Hgc. cbn [rbind].
    change (if to_right p q then r else l) with (csel (to_right p q) l r).
    assert (IH : forall f' tb' i', rep tb' (Some i') (csel (to_right p q) l r) ->
               (height (csel (to_right p q) l r) <= f')%nat ->
               a_cs_loop f' tb' i' (tpfx (csel (to_right p q) l r)) q
               = Ok (map tid (children_start (csel (to_right p q) l r) q)) /\
               Forall (fun c => rep tb' (Some (tid c)) c) (children_start (csel (to_right p q) l r) q)).
    { destruct (to_right p q); cbn [ArenaThm.csel]; auto. }
    destruct (csel (to_right p q) l r) as [|ci cp cv cl cr] eqn:C; cbn [ArenaThm.link];
      [split; [reflexivity|constructor]|].
    cbn [ArenaThm.link] in Rc.
    destruct (rep_node_facts tb ci ci cp cv cl cr false Rc) as (_ & _ & Hrd' & _).
    rewrite Hrd'. cbn [rbind npfx].
    destruct (contains cp q) eqn:E2; [apply (IH f tb ci Rc); lia|].
    destruct (contains q cp) eqn:E3; (split; [reflexivity|]); repeat constructor. exact Rc.
Qed.

Lemma cs_size q : forall t, (list_sum (map (@tsize pfx V) (children_start t q)) <= tsize t)%nat.
Proof.
  induction t as [|i0 p v l IHl r IHr]; [cbn; lia|].
  cbn [Trie.children_start]. destruct (peq p q); [cbn [map list_sum fold_right tsize]; lia|].
  destruct (to_right p q).
  - destruct r as [|ci cp cv cl cr]; [cbn; lia|].
    destruct (contains cp q); [cbn [tsize] in *; lia|].
    destruct (contains q cp); cbn [map list_sum fold_right tsize]; lia.
  - destruct l as [|ci cp cv cl cr]; [cbn; lia|].
    destruct (contains cp q); [cbn [tsize] in *; lia|].
    destruct (contains q cp); cbn [map list_sum fold_right tsize]; lia.
Qed.

Theorem children_start_sim am m q : Rep am m -> minv m ->
  a_children_start am q = Ok (map tid (children_start (root m) q)) /\
  Forall2 (fun i t => rep (tbl am) (Some i) t) (map tid (children_start (root m) q)) (children_start (root m) q).
Proof.
  intros R M. unfold Arena3.a_children_start, Arena3.a_children_start_fuel.
  pose proof (ArenaThm.Rep_height pfx V peq contains is_bit_set plen lcp pzero _ _ R M) as HH.
  pose proof (proj1 R) as R0. destruct (rep_is_node _ _ _ R0) as (p & v & l & r & ET).
  destruct (rep_node_facts _ _ _ _ _ _ _ false (eq_ind _ (fun t => rep (tbl am) (Some 0%N) t) R0 _ ET))
    as (_ & _ & Hrd & _).
  rewrite Hrd. cbn [rbind npfx].
  destruct (cs_loop_sim q (root m) (S (length (tbl am))) (tbl am) 0%N R0 ltac:(lia)) as (E & Fa).
  rewrite ET in E at 1. cbn [Trie.tpfx] in E. split; [exact E|].
  clear E. induction Fa as [|c cs Hc Fa IHc]; cbn [map]; constructor; auto.
Qed.

(** [children], drained: the entries of the subtrees on the initial stack *)
Theorem children_sim am m q : Rep am m -> minv m ->
  a_children am q = Ok (flat_map (@entries pfx V) (children_start (root m) q)).
Proof.
  intros R M. unfold Arena3.a_children. destruct (children_start_sim am m q R M) as (E & F2).
  rewrite E. cbn [rbind].
  apply (ArenaThm.iter_sim pfx V peq contains is_bit_set plen lcp pzero); [exact F2|].
  pose proof (cs_size q (root m)) as S1.
  rewrite (ArenaThm.tsize_ids pfx V peq contains is_bit_set plen lcp) in S1.
  pose proof (ArenaThm.minv_size pfx V peq contains is_bit_set plen lcp pzero _ _ M) as S2.
  destruct R as (_ & _ & L & _). lia.
Qed.

(* ------------------------------------------------------------------------------------------ *)
(** * [Cover::next] *)

Lemma cover_loop_sim q : forall t fuel tb i,
  rep tb (Some i) t -> (height t <= fuel)%nat ->
  exists j, a_cover_loop fuel tb i q = Ok (fst (cover_loop t q), j) /\
            rep tb (Some j) (snd (cover_loop t q)) /\ (height (snd (cover_loop t q)) <= height t)%nat.
Proof.
  induction t as [|i0 p v l IHl r IHr]; intros fuel tb i H Hf; [inversion H|].
  destruct fuel as [|f]; [cbn [ArenaThm.height] in Hf; lia|]. descent H Hf q.
  cbn [Arena3.a_cover_loop]. rewrite F. cbn [rbind Trie.cover_loop].
  destruct (peq p q) eqn:E; [exists i0; cbn [fst snd]; auto|].
  change (if to_right p q then r else l) with (csel (to_right p q) l r).
  assert (IH : forall f' tb' i', rep tb' (Some i') (csel (to_right p q) l r) ->
             (height (csel (to_right p q) l r) <= f')%nat ->
             exists j, a_cover_loop f' tb' i' q = Ok (fst (cover_loop (csel (to_right p q) l r) q), j) /\
               rep tb' (Some j) (snd (cover_loop (csel (to_right p q) l r) q)) /\
               (height (snd (cover_loop (csel (to_right p q) l r) q)) <= height (csel (to_right p q) l r))%nat).
  { destruct (to_right p q); cbn [ArenaThm.csel]; auto. }
  destruct (csel (to_right p q) l r) as [|ci cp cv cl cr] eqn:C; [exists i0; cbn [fst snd]; auto|].
  destruct (contains cp q) eqn:E2; [|exists i0; cbn [fst snd]; auto].
  cbn [ArenaThm.link] in Rc.
  destruct (rep_node_facts tb ci ci cp cv cl cr false Rc) as (_ & _ & Hrd' & _).
  rewrite Hrd'. cbn [rbind nval npfx].
  destruct cv as [x|].
  - exists ci. cbn [fst snd]. split; [reflexivity|]. split; [exact Rc|lia].
  - destruct (IH f tb ci Rc ltac:(lia)) as (j & Ej & Rj & Hj). exists j. split; [exact Ej|]. split; [exact Rj|lia].
Qed.

(** the iterator state: [None] = not started; [Some i] = stopped at the node in slot [i] *)
Definition cst_rep (tb : list anode) (H : nat) (st : option N) (cst : cstate pfx V) : Prop :=
  match st, cst with
  | None, CStart => True
  | Some i, CAt t => rep tb (Some i) t /\ (height t <= H)%nat
  | _, _ => False
  end.

Theorem cover_next_sim tb T H fuel st cst q :
  rep tb (Some 0%N) T -> (height T <= H)%nat -> (H <= fuel)%nat -> cst_rep tb H st cst ->
  exists st', a_cover_next fuel tb st q = Ok (fst (cover_next T cst q), st') /\
              cst_rep tb H st' (snd (cover_next T cst q)).
Proof.
  intros R0 HT HF C. unfold Arena3.a_cover_next, Trie.cover_next.
  destruct st as [i|], cst as [|t]; cbn [cst_rep] in C; try contradiction.
  - destruct C as [Rt Ht].
    destruct (cover_loop_sim q t fuel tb i Rt ltac:(lia)) as (j & E & Rj & Hj).
    rewrite E. cbn [rbind fst snd]. destruct (cover_loop t q) as [o t']. cbn [fst snd] in *.
    exists (Some j). split; [reflexivity|]. split; [exact Rj|lia].
  - destruct (rep_is_node _ _ _ R0) as (p & v & l & r & ->).
    destruct (rep_node_facts _ _ _ _ _ _ _ false R0) as (_ & _ & Hrd & _).
    rewrite Hrd. cbn [rbind nval npfx pv]. destruct v as [x|].
    + exists (Some 0%N). cbn [fst snd]. split; [reflexivity|]. split; [exact R0|exact HT].
    + destruct (cover_loop_sim q _ fuel tb 0%N R0 ltac:(lia)) as (j & E & Rj & Hj).
      rewrite E. cbn [rbind fst snd]. destruct (cover_loop (Node 0%N p None l r) q) as [o t']. cbn [fst snd] in *.
      exists (Some j). split; [reflexivity|]. split; [exact Rj|lia].
Qed.

Theorem cover_drain_sim tb T H fuel q :
  rep tb (Some 0%N) T -> (height T <= H)%nat -> (H <= fuel)%nat ->
  forall n st cst, cst_rep tb H st cst -> a_cover_drain n fuel tb st q = Ok (cover_drain n T cst q).
Proof.
  intros R0 HT HF. induction n as [|n IH]; intros st cst C; [reflexivity|].
  cbn [Arena3.a_cover_drain Trie.cover_drain].
  destruct (cover_next_sim tb T H fuel st cst q R0 HT HF C) as (st' & E & C').
  rewrite E. cbn [rbind fst snd]. destruct (cover_next T cst q) as [[x|] cst']; cbn [fst snd] in *; [|reflexivity].
  rewrite (IH st' cst' C'). reflexivity.
Qed.

Theorem cover_sim am m q : Rep am m -> minv m ->
  a_cover am q = Ok (cover_drain (S (length (tbl am))) (root m) CStart q).
Proof.
  intros R M. unfold Arena3.a_cover.
  pose proof (ArenaThm.Rep_height pfx V peq contains is_bit_set plen lcp pzero _ _ R M) as HH.
  apply (cover_drain_sim (tbl am) (root m) (length (tbl am))); [apply R|exact HH|lia|exact Logic.I].
Qed.

(** the whole cover: draining the iterator yields [Trie.cover_walk] *)
Notation cover_walk := (Trie.cover_walk pfx V peq contains is_bit_set plen).

Lemma cover_walk_len q : forall t, (length (cover_walk t q) <= height t)%nat.
Proof.
  induction t as [|i0 p v l IHl r IHr]; [cbn; lia|].
  cbn [Trie.cover_walk ArenaThm.height].
  assert (O1 : (length (match v with Some x => [(p, x)] | None => [] end) <= 1)%nat) by (destruct v; cbn; lia).
  destruct (peq p q); [lia|].
  destruct (to_right p q).
  - destruct r as [|ci cp cv cl cr]; [lia|]. destruct (contains cp q); [rewrite app_length|]; lia.
  - destruct l as [|ci cp cv cl cr]; [lia|]. destruct (contains cp q); [rewrite app_length|]; lia.
Qed.

Theorem cover_walk_sim am m q : Rep am m -> minv m -> a_cover am q = Ok (cover_walk (root m) q).
Proof.
  intros R M. rewrite (cover_sim am m q R M). f_equal.
  pose proof (ArenaThm.Rep_height pfx V peq contains is_bit_set plen lcp pzero _ _ R M) as HH.
  pose proof (cover_walk_len q (root m)) as HL.
  rewrite (Lookup2.cover_drain_spec pfx V peq contains is_bit_set plen (root m) q).
  - reflexivity.
  - destruct (rep_is_node _ _ _ (proj1 R)) as (p & v & l & r & ->). discriminate.
  - cbn [Lookup2.cover_pending]. lia.
Qed.

(* ------------------------------------------------------------------------------------------ *)
(** * [TrieView]: the arena location against the model view *)

Notation find_walk := (Views.find_walk pfx V peq contains is_bit_set plen).
Notation v_find := (Views.v_find pfx V peq contains is_bit_set plen).
Notation find_exact_walk := (Views.find_exact_walk pfx V peq contains is_bit_set plen).
Notation v_find_exact := (Views.v_find_exact pfx V peq contains is_bit_set plen).
Notation find_lpm_walk := (Views.find_lpm_walk pfx V peq contains is_bit_set plen).
Notation v_find_lpm := (Views.v_find_lpm pfx V peq contains is_bit_set plen).
Notation v_left := (Views.v_left pfx V is_bit_set plen pzero).
Notation v_right := (Views.v_right pfx V is_bit_set plen pzero).
Notation v_prefix := (Views.v_prefix pfx V pzero).
Notation a_v_find_loop := (Arena3.a_v_find_loop pfx V peq contains is_bit_set plen lcp).
Notation a_v_find_fuel := (Arena3.a_v_find_fuel pfx V peq contains is_bit_set plen lcp).
Notation a_v_find := (Arena3.a_v_find pfx V peq contains is_bit_set plen lcp).
Notation a_v_find_exact_fuel := (Arena3.a_v_find_exact_fuel pfx V peq contains is_bit_set plen).
Notation a_v_find_exact := (Arena3.a_v_find_exact pfx V peq contains is_bit_set plen).
Notation a_v_find_lpm_loop := (Arena3.a_v_find_lpm_loop pfx V peq contains is_bit_set plen).
Notation a_v_find_lpm_fuel := (Arena3.a_v_find_lpm_fuel pfx V peq contains is_bit_set plen).
Notation a_v_find_lpm := (Arena3.a_v_find_lpm pfx V peq contains is_bit_set plen).
Notation a_v_left := (Arena3.a_v_left pfx V is_bit_set plen).
Notation a_v_right := (Arena3.a_v_right pfx V is_bit_set plen).
Notation a_v_prefix := (Arena3.a_v_prefix pfx V).
Notation a_v_value := (Arena3.a_v_value pfx V).
Notation a_v_prefix_value := (Arena3.a_v_prefix_value pfx V).

(** [ViewLoc::Node(i)] represents the view at the subtree in slot [i]; [ViewLoc::Virtual(p, i)]
    the virtual view with prefix [p] above the subtree in slot [i] *)
Definition loc_rep (tb : list anode) (l : vloc) (v : view) : Prop :=
  match l, v with
  | LNode i, VNode t => rep tb (Some i) t
  | LVirt p i, VVirt p' t => p = p' /\ rep tb (Some i) t
  | _, _ => False
  end.

Lemma loc_rep_idx tb l v : loc_rep tb l v -> rep tb (Some (loc_idx l)) (v_tree v).
Proof. destruct l, v; cbn; tauto. Qed.

(** the relation is a function of the view: the location is [Arena3.loc_of] *)
Lemma loc_rep_iff tb l v :
  loc_rep tb l v <-> l = loc_of v /\ rep tb (Some (tid (v_tree v))) (v_tree v).
Proof.
  destruct l as [i|p i], v as [t|p' t]; cbn [loc_rep loc_of v_tree]; split.
  - intros H. rewrite (rep_tid _ _ _ H). auto.
  - intros [[= ->] H]. exact H.
  - intros []. 
  - intros [[=] _].
  - intros [].
  - intros [[=] _].
  - intros [-> H]. rewrite (rep_tid _ _ _ H). auto.
  - intros [[= -> ->] H]. auto.
Qed.

Ltac descent_ins H Hf q :=
  match type of H with
  | ArenaThm.rep _ _ ?tb (Some ?i) (Node ?i0 ?p ?v ?l ?r) =>
    let F := fresh "F" in let Hs := fresh "Hs" in let Hrd := fresh "Hrd" in let Hgc := fresh "Hgc" in
    let Rc := fresh "Rc" in let Hh := fresh "Hh" in let E := fresh "E" in
    pose proof (rep_node_facts tb i i0 p v l r (to_right p q) H) as (E & Hs & Hrd & Hgc & Rc & _ & _);
    subst i;
    pose proof (hcsel (to_right p q) i0 p v l r) as Hh;
    pose proof (ArenaThm.direction_ins_sim pfx V peq contains is_bit_set plen lcp _ _ _ q H) as F;
    cbn [ArenaThm.dir_ins_of] in F
  end.

Lemma find_loop_sim q : forall t fuel tb i,
  rep tb (Some i) t -> (height t <= fuel)%nat ->
  exists o, a_v_find_loop fuel tb i q = Ok o /\ opt_rel (loc_rep tb) o (find_walk t q).
Proof.
  induction t as [|i0 p v l IHl r IHr]; intros fuel tb i H Hf; [inversion H|].
  destruct fuel as [|f]; [cbn [ArenaThm.height] in Hf; lia|]. descent_ins H Hf q.
  cbn [Arena3.a_v_find_loop]. rewrite F. cbn [rbind Views.find_walk].
  destruct (peq p q) eqn:E; [exists (Some (LNode i0)); split; [reflexivity|exact H]|].
  change (if to_right p q then r else l) with (csel (to_right p q) l r).
  assert (IH : forall f' tb' i', rep tb' (Some i') (csel (to_right p q) l r) ->
             (height (csel (to_right p q) l r) <= f')%nat ->
             exists o, a_v_find_loop f' tb' i' q = Ok o /\ opt_rel (loc_rep tb') o (find_walk (csel (to_right p q) l r) q)).
  { destruct (to_right p q); cbn [ArenaThm.csel]; auto. }
  destruct (csel (to_right p q) l r) as [|ci cp cv cl cr] eqn:C; [exists None; split; [reflexivity|exact Logic.I]|].
  cbn [ArenaThm.link] in Rc, Hgc.
  destruct (contains cp q) eqn:E2; [apply (IH f tb ci Rc); lia|].
  destruct (contains q cp) eqn:E3; [|exists None; split; [reflexivity|exact Logic.I]].
  rewrite Hgc. cbn [rbind unwrap]. exists (Some (LVirt q ci)). split; [reflexivity|]. cbn. auto.
Qed.

Theorem v_find_sim tb l v q fuel : loc_rep tb l v -> (height (v_tree v) <= fuel)%nat ->
  exists o, a_v_find_fuel fuel tb l q = Ok o /\ opt_rel (loc_rep tb) o (v_find v q).
Proof.
  intros LR Hf. pose proof (loc_rep_idx _ _ _ LR) as R0. unfold Arena3.a_v_find_fuel, Views.v_find.
  destruct (rep_is_node _ _ _ R0) as (p & vv & ll & rr & ET). rewrite ET in *.
  destruct (rep_node_facts _ _ _ _ _ _ _ false R0) as (_ & _ & Hrd & _).
  rewrite Hrd. cbn [rbind npfx].
  destruct (contains q p && negb (peq p q)).
  - exists (Some (LVirt q (loc_idx l))). split; [reflexivity|]. cbn. auto.
  - apply find_loop_sim; assumption.
Qed.

Lemma find_exact_loop_sim q : forall t fuel tb i,
  rep tb (Some i) t -> (height t <= fuel)%nat ->
  exists o, a_v_find_exact_fuel fuel tb i q = Ok o /\ opt_rel (loc_rep tb) o (find_exact_walk t q).
Proof.
  induction t as [|i0 p v l IHl r IHr]; intros fuel tb i H Hf; [inversion H|].
  destruct fuel as [|f]; [cbn [ArenaThm.height] in Hf; lia|]. descent H Hf q.
  cbn [Arena3.a_v_find_exact_fuel]. rewrite F. cbn [rbind Views.find_exact_walk].
  destruct (peq p q) eqn:E.
  - rewrite Hrd. cbn [rbind nval]. eexists. split; [reflexivity|]. destruct v; cbn; auto.
  - change (if to_right p q then r else l) with (csel (to_right p q) l r).
    assert (IH : forall f' tb' i', rep tb' (Some i') (csel (to_right p q) l r) ->
               (height (csel (to_right p q) l r) <= f')%nat ->
               exists o, a_v_find_exact_fuel f' tb' i' q = Ok o /\
                         opt_rel (loc_rep tb') o (find_exact_walk (csel (to_right p q) l r) q)).
    { destruct (to_right p q); cbn [ArenaThm.csel]; auto. }
    destruct (csel (to_right p q) l r) as [|ci cp cv cl cr] eqn:C; [exists None; split; [reflexivity|exact Logic.I]|].
    destruct (contains cp q) eqn:E2; [|exists None; split; [reflexivity|exact Logic.I]].
    cbn [ArenaThm.link] in Rc. apply (IH f tb ci Rc); lia.
Qed.

Theorem v_find_exact_sim tb l v q : loc_rep tb l v -> (height (v_tree v) <= length tb)%nat ->
  exists o, a_v_find_exact tb l q = Ok o /\ opt_rel (loc_rep tb) o (v_find_exact v q).
Proof.
  intros LR Hf. apply find_exact_loop_sim; [exact (loc_rep_idx _ _ _ LR)|lia].
Qed.

Lemma find_lpm_loop_sim q : forall t fuel tb i ba bt,
  rep tb (Some i) t -> (height t <= fuel)%nat -> opt_rel (fun j v => loc_rep tb (LNode j) v) ba bt ->
  exists o, a_v_find_lpm_loop fuel tb i q ba = Ok o /\ opt_rel (loc_rep tb) o (find_lpm_walk t q bt).
Proof.
  induction t as [|i0 p v l IHl r IHr]; intros fuel tb i ba bt H Hf B; [inversion H|].
  destruct fuel as [|f]; [cbn [ArenaThm.height] in Hf; lia|]. descent H Hf q.
  cbn [Arena3.a_v_find_lpm_loop]. rewrite Hrd. cbn [rbind nval]. rewrite F. cbn [rbind Views.find_lpm_walk].
  assert (B' : opt_rel (fun j v => loc_rep tb (LNode j) v) (if is_some v then Some i0 else ba)
                 (if is_some v then Some (VNode (Node i0 p v l r)) else bt)).
  { destruct v as [x|]; cbn; [exact H|exact B]. }
  revert B'. generalize (if is_some v then Some i0 else ba).
  generalize (if is_some v then Some (VNode (Node i0 p v l r)) else bt). intros bt' ba' B'.
  assert (Fin : exists o, Ok (option_map LNode ba') = Ok o /\ opt_rel (loc_rep tb) o bt').
  { eexists. split; [reflexivity|]. destruct ba', bt'; cbn in *; auto. }
  destruct (peq p q) eqn:E; [exact Fin|].
  change (if to_right p q then r else l) with (csel (to_right p q) l r).
  assert (IH : forall f' tb' i' a' b', rep tb' (Some i') (csel (to_right p q) l r) ->
             (height (csel (to_right p q) l r) <= f')%nat ->
             opt_rel (fun j v => loc_rep tb' (LNode j) v) a' b' ->
             exists o, a_v_find_lpm_loop f' tb' i' q a' = Ok o /\
                       opt_rel (loc_rep tb') o (find_lpm_walk (csel (to_right p q) l r) q b')).
  { destruct (to_right p q); cbn [ArenaThm.csel]; auto. }
  destruct (csel (to_right p q) l r) as [|ci cp cv cl cr] eqn:C; [exact Fin|].
  destruct (contains cp q) eqn:E2; [|exact Fin].
  cbn [ArenaThm.link] in Rc. apply (IH f tb ci _ _ Rc); [lia|exact B'].
Qed.

Theorem v_find_lpm_sim tb l v q fuel : loc_rep tb l v -> (height (v_tree v) <= fuel)%nat ->
  exists o, a_v_find_lpm_fuel fuel tb l q = Ok o /\ opt_rel (loc_rep tb) o (v_find_lpm v q).
Proof.
  intros LR Hf. pose proof (loc_rep_idx _ _ _ LR) as R0. unfold Arena3.a_v_find_lpm_fuel, Views.v_find_lpm.
  destruct (rep_is_node _ _ _ R0) as (p & vv & ll & rr & ET). rewrite ET in *.
  destruct (rep_node_facts _ _ _ _ _ _ _ false R0) as (_ & _ & Hrd & _).
  rewrite Hrd. cbn [rbind npfx].
  destruct (contains p q); cbn [negb].
  - apply find_lpm_loop_sim; [assumption|assumption|exact Logic.I].
  - exists None. split; [reflexivity|exact Logic.I].
Qed.

Theorem v_left_sim tb l v : loc_rep tb l v ->
  exists o, a_v_left tb l = Ok o /\ opt_rel (loc_rep tb) o (v_left v).
Proof.
  intros LR. pose proof (loc_rep_idx _ _ _ LR) as R0.
  destruct (rep_is_node _ _ _ R0) as (p & vv & ll & rr & ET).
  destruct l as [i|pq i], v as [t|pq' t]; cbn [loc_rep] in LR; try contradiction;
    cbn [v_tree loc_idx] in *; subst t;
    destruct (rep_node_facts _ _ _ _ _ _ _ false R0) as (_ & _ & Hrd & _ & _ & Rl & Rr);
    unfold Arena3.a_v_left, Views.v_left; rewrite Hrd; cbn [rbind nleft npfx tleft Trie.tpfx].
  - destruct ll as [|li lp lv lll llr]; cbn; eexists; (split; [reflexivity|]); cbn; auto.
  - destruct LR as [<- _]. destruct (to_right pq p); cbn [negb]; eexists; (split; [reflexivity|]); cbn; auto.
Qed.

Theorem v_right_sim tb l v : loc_rep tb l v ->
  exists o, a_v_right tb l = Ok o /\ opt_rel (loc_rep tb) o (v_right v).
Proof.
  intros LR. pose proof (loc_rep_idx _ _ _ LR) as R0.
  destruct (rep_is_node _ _ _ R0) as (p & vv & ll & rr & ET).
  destruct l as [i|pq i], v as [t|pq' t]; cbn [loc_rep] in LR; try contradiction;
    cbn [v_tree loc_idx] in *; subst t;
    destruct (rep_node_facts _ _ _ _ _ _ _ false R0) as (_ & _ & Hrd & _ & _ & Rl & Rr);
    unfold Arena3.a_v_right, Views.v_right; rewrite Hrd; cbn [rbind nright npfx tright Trie.tpfx].
  - destruct rr as [|ri rp rv rrl rrr]; cbn; eexists; (split; [reflexivity|]); cbn; auto.
  - destruct LR as [<- _]. destruct (to_right pq p); eexists; (split; [reflexivity|]); cbn; auto.
Qed.

Theorem v_prefix_sim tb l v : loc_rep tb l v -> a_v_prefix tb l = Ok (v_prefix v).
Proof.
  intros LR. pose proof (loc_rep_idx _ _ _ LR) as R0.
  destruct (rep_is_node _ _ _ R0) as (p & vv & ll & rr & ET).
  destruct l as [i|pq i], v as [t|pq' t]; cbn [loc_rep] in LR; try contradiction;
    cbn [v_tree loc_idx] in *; subst t.
  - destruct (rep_node_facts _ _ _ _ _ _ _ false R0) as (_ & _ & Hrd & _).
    unfold Arena3.a_v_prefix. rewrite Hrd. reflexivity.
  - destruct LR as [<- _]. reflexivity.
Qed.

Theorem v_value_sim tb l v : loc_rep tb l v -> a_v_value tb l = Ok (v_value v).
Proof.
  intros LR. pose proof (loc_rep_idx _ _ _ LR) as R0.
  destruct (rep_is_node _ _ _ R0) as (p & vv & ll & rr & ET).
  destruct l as [i|pq i], v as [t|pq' t]; cbn [loc_rep] in LR; try contradiction;
    cbn [v_tree loc_idx] in *; subst t; [|reflexivity].
  destruct (rep_node_facts _ _ _ _ _ _ _ false R0) as (_ & _ & Hrd & _).
  unfold Arena3.a_v_value. rewrite Hrd. reflexivity.
Qed.

Theorem v_prefix_value_sim tb l v : loc_rep tb l v -> a_v_prefix_value tb l = Ok (v_prefix_value v).
Proof.
  intros LR. pose proof (loc_rep_idx _ _ _ LR) as R0.
  destruct (rep_is_node _ _ _ R0) as (p & vv & ll & rr & ET).
  destruct l as [i|pq i], v as [t|pq' t]; cbn [loc_rep] in LR; try contradiction;
    cbn [v_tree loc_idx] in *; subst t; [|reflexivity].
  destruct (rep_node_facts _ _ _ _ _ _ _ false R0) as (_ & _ & Hrd & _).
  unfold Arena3.a_v_prefix_value. rewrite Hrd. cbn [rbind]. unfold Arena.prefix_value. cbn [nval npfx v_prefix_value pv].
  reflexivity.
Qed.

(* ------------------------------------------------------------------------------------------ *)
(** * [TrieViewMut]: the arena location against the model's path + virtual prefix *)

Notation find_walk_m := (Views.find_walk_m pfx V peq contains is_bit_set plen).
Notation vm_find := (Views.vm_find pfx V peq contains is_bit_set plen).
Notation find_exact_walk_m := (Views.find_exact_walk_m pfx V peq contains is_bit_set plen).
Notation vm_find_exact := (Views.vm_find_exact pfx V peq contains is_bit_set plen).
Notation find_lpm_walk_m := (Views.find_lpm_walk_m pfx V peq contains is_bit_set plen).
Notation vm_find_lpm := (Views.vm_find_lpm pfx V peq contains is_bit_set plen).
Notation vm_left := (Views.vm_left pfx V is_bit_set plen pzero).
Notation vm_right := (Views.vm_right pfx V is_bit_set plen pzero).
Notation vm_has_left := (Views.vm_has_left pfx V is_bit_set plen pzero).
Notation vm_has_right := (Views.vm_has_right pfx V is_bit_set plen pzero).
Notation vm_split := (Views.vm_split pfx V is_bit_set plen pzero).
Notation vm_prefix := (Views.vm_prefix pfx V pzero).
Notation mkvmut := (Views.mkvmut pfx).
Notation mpath := (Views.mpath pfx).
Notation mvirt := (Views.mvirt pfx).
Notation a_vm_find_loop := (Arena3.a_vm_find_loop pfx V peq contains is_bit_set plen lcp).
Notation a_vm_find_fuel := (Arena3.a_vm_find_fuel pfx V peq contains is_bit_set plen lcp).
Notation a_vm_find := (Arena3.a_vm_find pfx V peq contains is_bit_set plen lcp).
Notation a_vm_find_exact_fuel := (Arena3.a_vm_find_exact_fuel pfx V peq contains is_bit_set plen).
Notation a_vm_find_exact := (Arena3.a_vm_find_exact pfx V peq contains is_bit_set plen).
Notation a_vm_find_lpm_loop := (Arena3.a_vm_find_lpm_loop pfx V peq contains is_bit_set plen).
Notation a_vm_find_lpm_fuel := (Arena3.a_vm_find_lpm_fuel pfx V peq contains is_bit_set plen).
Notation a_vm_find_lpm := (Arena3.a_vm_find_lpm pfx V peq contains is_bit_set plen).
Notation a_vm_side_idx := (Arena3.a_vm_side_idx pfx V is_bit_set plen).
Notation a_vm_left := (Arena3.a_vm_left pfx V is_bit_set plen).
Notation a_vm_right := (Arena3.a_vm_right pfx V is_bit_set plen).
Notation a_vm_has_left := (Arena3.a_vm_has_left pfx V is_bit_set plen).
Notation a_vm_has_right := (Arena3.a_vm_has_right pfx V is_bit_set plen).
Notation a_vm_split := (Arena3.a_vm_split pfx V is_bit_set plen).
Notation a_vm_prefix := (Arena3.a_vm_prefix pfx V).
Notation a_vm_value := (Arena3.a_vm_value pfx V).

Lemma subtree_nil' (t : tree) : subtree t [] = t.
Proof. destruct t; reflexivity. Qed.

Lemma subtree_app' (pa1 : path) : forall (T : tree) (pa2 : path),
  subtree T (pa1 ++ pa2) = subtree (subtree T pa1) pa2.
Proof.
  induction pa1 as [|b pa1 IH]; intros T pa2; [destruct T; reflexivity|].
  destruct T as [|i p v l r]; cbn [app subtree]; [symmetry; apply (Arena2Thm.subtree_leaf pfx V)|apply IH].
Qed.

Lemma rep_subtree tb : forall pa (t : tree) o, rep tb o t -> rep tb (link (subtree t pa)) (subtree t pa).
Proof.
  induction pa as [|b pa IH]; intros t o H.
  - destruct t; cbn [subtree]; rewrite <- (ArenaThm.rep_link pfx V _ _ _ H); exact H.
  - destruct t as [|i p v l r]; [cbn; constructor|].
    destruct (ArenaThm.rep_node_inv pfx V _ _ _ _ _ _ _ H) as (_ & _ & Rl & Rr).
    cbn [subtree]. destruct b; eapply IH; eassumption.
Qed.

Lemma height_subtree : forall pa (t : tree), (height (subtree t pa) <= height t)%nat.
Proof.
  induction pa as [|b pa IH]; intros t; [destruct t; cbn [subtree]; lia|].
  destruct t as [|i p v l r]; [cbn; lia|]. cbn [subtree ArenaThm.height].
  destruct b; [specialize (IH r)|specialize (IH l)]; lia.
Qed.

Lemma tsize_subtree : forall pa (t : tree), (tsize (subtree t pa) <= tsize t)%nat.
Proof.
  induction pa as [|b pa IH]; intros t; [destruct t; cbn [subtree]; lia|].
  destruct t as [|i p v l r]; [cbn; lia|]. cbn [subtree tsize].
  destruct b; [specialize (IH r)|specialize (IH l)]; lia.
Qed.

(** the mutable view [m] of the map's tree [T] is at the arena location [l]: the path of [m]
    leads to the subtree represented at the slot of [l], and the virtual prefixes agree *)
Definition mloc_rep (tb : list anode) (T : tree) (l : vloc) (m : vmut) : Prop :=
  rep tb (Some (loc_idx l)) (vm_tree T m) /\
  match l, mvirt m with
  | LNode _, None => True
  | LVirt p _, Some p' => p = p'
  | _, _ => False
  end.

(** ... which is what "the path leads to slot [i]" means in an arena that represents [T] *)
Lemma mloc_rep_intro tb T o l m : rep tb o T ->
  link (vm_tree T m) = Some (loc_idx l) ->
  match l, mvirt m with LNode _, None => True | LVirt p _, Some p' => p = p' | _, _ => False end ->
  mloc_rep tb T l m.
Proof.
  intros R E K. split; [|exact K]. rewrite <- E. unfold vm_tree. eapply rep_subtree; eassumption.
Qed.

Lemma mloc_rep_view tb T l m : mloc_rep tb T l m <-> loc_rep tb l (vm_view T m).
Proof.
  unfold mloc_rep, vm_view. destruct l as [i|p i], (mvirt m) as [p'|]; cbn [loc_rep loc_idx]; tauto.
Qed.

(** the result of a [find]-like loop started at [t]: the node found is [subtree t pa] *)
Definition walk_res (tb : list anode) (t : tree) (q : pfx) (o : option vloc) (w : option (path * bool)) : Prop :=
  match o, w with
  | Some l', Some (pa, vi) =>
    rep tb (Some (loc_idx l')) (subtree t pa) /\
    l' = (if vi then LVirt q (loc_idx l') else LNode (loc_idx l'))
  | None, None => True
  | _, _ => False
  end.

Lemma find_loop_m_sim q : forall t fuel tb i,
  rep tb (Some i) t -> (height t <= fuel)%nat ->
  exists o, a_vm_find_loop fuel tb i q = Ok o /\ walk_res tb t q o (find_walk_m t q).
Proof.
  induction t as [|i0 p v l IHl r IHr]; intros fuel tb i H Hf; [inversion H|].
  destruct fuel as [|f]; [cbn [ArenaThm.height] in Hf; lia|]. descent_ins H Hf q.
  cbn [Arena3.a_vm_find_loop]. rewrite F. cbn [rbind Views.find_walk_m].
  destruct (peq p q) eqn:E; [exists (Some (LNode i0)); split; [reflexivity|]; cbn; auto|].
  assert (ST : forall pa, subtree (Node i0 p v l r) (to_right p q :: pa) = subtree (csel (to_right p q) l r) pa).
  { intros pa. cbn [subtree]. destruct (to_right p q); reflexivity. }
  change (if to_right p q then r else l) with (csel (to_right p q) l r).
  assert (IH : forall f' tb' i', rep tb' (Some i') (csel (to_right p q) l r) ->
             (height (csel (to_right p q) l r) <= f')%nat ->
             exists o, a_vm_find_loop f' tb' i' q = Ok o /\
                       walk_res tb' (csel (to_right p q) l r) q o (find_walk_m (csel (to_right p q) l r) q)).
  { destruct (to_right p q); cbn [ArenaThm.csel]; auto. }
  destruct (csel (to_right p q) l r) as [|ci cp cv cl cr] eqn:C; [exists None; split; [reflexivity|exact Logic.I]|].
  cbn [ArenaThm.link] in Rc, Hgc.
  destruct (contains cp q) eqn:E2.
  - destruct (IH f tb ci Rc ltac:(lia)) as (o & Eo & W). exists o. split; [exact Eo|].
    destruct o as [l'|], (find_walk_m (Node ci cp cv cl cr) q) as [[pa vi]|]; cbn [walk_res] in *; try contradiction; auto.
    rewrite ST. exact W.
  - destruct (contains q cp) eqn:E3; [|exists None; split; [reflexivity|exact Logic.I]].
    rewrite Hgc. cbn [rbind unwrap]. exists (Some (LVirt q ci)). split; [reflexivity|].
    cbn [walk_res loc_idx]. rewrite ST. cbn [subtree]. auto.
Qed.

Theorem vm_find_sim tb T l m q fuel : mloc_rep tb T l m -> (height (vm_tree T m) <= fuel)%nat ->
  exists o, a_vm_find_fuel fuel tb l q = Ok o /\ opt_rel (mloc_rep tb T) o (vm_find T m q).
Proof.
  intros [R0 K] Hf. unfold Arena3.a_vm_find_fuel, Views.vm_find.
  destruct (rep_is_node _ _ _ R0) as (p & vv & ll & rr & ET). rewrite ET in *.
  destruct (rep_node_facts _ _ _ _ _ _ _ false R0) as (_ & _ & Hrd & _).
  rewrite Hrd. cbn [rbind npfx].
  destruct (contains q p && negb (peq p q)).
  - exists (Some (LVirt q (loc_idx l))). split; [reflexivity|]. cbn [opt_rel]. split; cbn; [|reflexivity].
    unfold vm_tree in *. cbn. rewrite ET. exact R0.
  - destruct (find_loop_m_sim q _ fuel tb _ R0 Hf) as (o & Eo & W). exists o. split; [exact Eo|].
    destruct o as [l'|], (find_walk_m (Node (loc_idx l) p vv ll rr) q) as [[pa vi]|]; cbn [walk_res opt_rel] in *;
      try contradiction; auto.
    destruct W as [Rw Ew]. split.
    + unfold vm_tree in *. cbn [Views.mpath]. rewrite subtree_app', ET. exact Rw.
    + cbn [Views.mvirt]. rewrite Ew. destruct vi; reflexivity.
Qed.

Lemma find_exact_loop_m_sim q : forall t fuel tb i,
  rep tb (Some i) t -> (height t <= fuel)%nat ->
  exists o, a_vm_find_exact_fuel fuel tb i q = Ok o /\
    walk_res tb t q o (option_map (fun pa => (pa, false)) (find_exact_walk_m t q)).
Proof.
  induction t as [|i0 p v l IHl r IHr]; intros fuel tb i H Hf; [inversion H|].
  destruct fuel as [|f]; [cbn [ArenaThm.height] in Hf; lia|]. descent H Hf q.
  cbn [Arena3.a_vm_find_exact_fuel]. rewrite F. cbn [rbind Views.find_exact_walk_m].
  destruct (peq p q) eqn:E.
  - rewrite Hrd. cbn [rbind nval]. destruct v; cbn; eexists; (split; [reflexivity|]); cbn; auto.
  - assert (ST : forall pa, subtree (Node i0 p v l r) (to_right p q :: pa) = subtree (csel (to_right p q) l r) pa).
    { intros pa. cbn [subtree]. destruct (to_right p q); reflexivity. }
    change (if to_right p q then r else l) with (csel (to_right p q) l r).
    assert (IH : forall f' tb' i', rep tb' (Some i') (csel (to_right p q) l r) ->
               (height (csel (to_right p q) l r) <= f')%nat ->
               exists o, a_vm_find_exact_fuel f' tb' i' q = Ok o /\
                 walk_res tb' (csel (to_right p q) l r) q o
                   (option_map (fun pa => (pa, false)) (find_exact_walk_m (csel (to_right p q) l r) q))).
    { destruct (to_right p q); cbn [ArenaThm.csel]; auto. }
    destruct (csel (to_right p q) l r) as [|ci cp cv cl cr] eqn:C; [exists None; split; [reflexivity|exact Logic.I]|].
    destruct (contains cp q) eqn:E2; [|exists None; split; [reflexivity|exact Logic.I]].
    cbn [ArenaThm.link] in Rc.
    destruct (IH f tb ci Rc ltac:(lia)) as (o & Eo & W). exists o. split; [exact Eo|].
    destruct o as [l'|], (find_exact_walk_m (Node ci cp cv cl cr) q) as [pa|]; cbn [walk_res option_map] in *;
      try contradiction; auto.
    rewrite ST. exact W.
Qed.

Theorem vm_find_exact_sim tb T l m q : mloc_rep tb T l m -> (height (vm_tree T m) <= length tb)%nat ->
  exists o, a_vm_find_exact tb l q = Ok o /\ opt_rel (mloc_rep tb T) o (vm_find_exact T m q).
Proof.
  intros [R0 K] Hf. unfold Arena3.a_vm_find_exact, Views.vm_find_exact.
  destruct (find_exact_loop_m_sim q _ (S (length tb)) tb _ R0 ltac:(lia)) as (o & Eo & W). exists o. split; [exact Eo|].
  destruct o as [l'|], (find_exact_walk_m (vm_tree T m) q) as [pa|]; cbn [walk_res opt_rel option_map] in *;
    try contradiction; auto.
  destruct W as [Rw Ew]. split.
  - unfold vm_tree in *. cbn [Views.mpath]. rewrite subtree_app'. exact Rw.
  - cbn [Views.mvirt]. rewrite Ew. reflexivity.
Qed.

(** the best index of the arena loop against the best (reversed, relative) path of the model *)
Definition bmr (tb : list anode) (t0 : tree) (ba : option N) (bt : option path) : Prop :=
  opt_rel (fun j rpa => rep tb (Some j) (subtree t0 (rev rpa))) ba bt.

Lemma find_lpm_loop_m_sim q t0 : forall t fuel tb i ba (cur : path) (bt : option path),
  rep tb (Some i) t -> (height t <= fuel)%nat -> subtree t0 (rev cur) = t -> bmr tb t0 ba bt ->
  exists o, a_vm_find_lpm_loop fuel tb i q ba = Ok o /\
    opt_rel (fun l' rpa => l' = LNode (loc_idx l') /\ rep tb (Some (loc_idx l')) (subtree t0 (rev rpa)))
            o (find_lpm_walk_m t q cur bt).
Proof.
  induction t as [|i0 p v l IHl r IHr]; intros fuel tb i ba cur bt H Hf ST B; [inversion H|].
  destruct fuel as [|f]; [cbn [ArenaThm.height] in Hf; lia|]. descent H Hf q.
  cbn [Arena3.a_vm_find_lpm_loop]. rewrite Hrd. cbn [rbind nval]. rewrite F. cbn [rbind Views.find_lpm_walk_m].
  assert (B' : bmr tb t0 (if is_some v then Some i0 else ba) (if is_some v then @Some path cur else bt)).
  { destruct v as [x|]; cbn; [rewrite ST; exact H|exact B]. }
  revert B'. generalize (if is_some v then Some i0 else ba). generalize (if is_some v then @Some path cur else bt).
  intros bt' ba' B'.
  assert (Fin : exists o, match ba' with Some i1 => Ok (Some (@LNode pfx i1)) | None => Ok None end = Ok o /\
            opt_rel (fun l' rpa => l' = LNode (loc_idx l') /\ rep tb (Some (loc_idx l')) (subtree t0 (rev rpa))) o bt').
  { unfold bmr in B'. destruct ba' as [j|], bt' as [rpa|]; cbn [opt_rel] in B'; try contradiction.
    - exists (Some (LNode j)). split; [reflexivity|]. cbn [opt_rel loc_idx]. split; [reflexivity|exact B'].
    - exists None. split; [reflexivity|exact Logic.I]. }
  destruct (peq p q) eqn:E; [exact Fin|].
  assert (ST' : subtree t0 (rev (to_right p q :: cur)) = csel (to_right p q) l r).
  { cbn [rev]. rewrite subtree_app', ST. cbn [subtree]. destruct (to_right p q); [destruct r|destruct l]; reflexivity. }
  change (if to_right p q then r else l) with (csel (to_right p q) l r).
  assert (IH : forall f' tb' i' a' c' b', rep tb' (Some i') (csel (to_right p q) l r) ->
             (height (csel (to_right p q) l r) <= f')%nat ->
             subtree t0 (rev c') = csel (to_right p q) l r -> bmr tb' t0 a' b' ->
             exists o, a_vm_find_lpm_loop f' tb' i' q a' = Ok o /\
               opt_rel (fun l' rpa => l' = LNode (loc_idx l') /\ rep tb' (Some (loc_idx l')) (subtree t0 (rev rpa)))
                       o (find_lpm_walk_m (csel (to_right p q) l r) q c' b')).
  { destruct (to_right p q); cbn [ArenaThm.csel]; auto. }
  destruct (csel (to_right p q) l r) as [|ci cp cv cl cr] eqn:C; [exact Fin|].
  destruct (contains cp q) eqn:E2; [|exact Fin].
  cbn [ArenaThm.link] in Rc. apply (IH f tb ci _ _ _ Rc); [lia|exact ST'|exact B'].
Qed.

Theorem vm_find_lpm_sim tb T l m q fuel : mloc_rep tb T l m -> (height (vm_tree T m) <= fuel)%nat ->
  exists o, a_vm_find_lpm_fuel fuel tb l q = Ok o /\ opt_rel (mloc_rep tb T) o (vm_find_lpm T m q).
Proof.
  intros [R0 K] Hf. unfold Arena3.a_vm_find_lpm_fuel, Views.vm_find_lpm.
  destruct (rep_is_node _ _ _ R0) as (p & vv & ll & rr & ET).
  pose proof R0 as R1. rewrite ET in R1.
  destruct (rep_node_facts _ _ _ _ _ _ _ false R1) as (_ & _ & Hrd & _).
  rewrite Hrd. cbn [rbind npfx]. rewrite ET.
  destruct (contains p q); cbn [negb]; [|exists None; split; [reflexivity|exact Logic.I]].
  rewrite <- ET.
  destruct (find_lpm_loop_m_sim q (vm_tree T m) (vm_tree T m) fuel tb _ None [] None R0 Hf (subtree_nil' _) Logic.I)
    as (o & Eo & W).
  exists o. split; [exact Eo|].
  destruct o as [l'|], (find_lpm_walk_m (vm_tree T m) q [] None) as [rpa|]; cbn [opt_rel] in *; try contradiction; auto.
  destruct W as [Ew Rw]. split.
  - unfold vm_tree in *. cbn [Views.mpath]. rewrite subtree_app'. exact Rw.
  - cbn [Views.mvirt]. rewrite Ew. exact Logic.I.
Qed.

(** [left] / [right] / [has_left] / [has_right] / [split] *)
Lemma vm_side_sim tb T l m (rt : bool) : mloc_rep tb T l m ->
  exists o, a_vm_side_idx tb l rt = Ok o /\
    opt_rel (fun i m' => mloc_rep tb T (LNode i) m') o
      (match mvirt m with
       | None => if is_node (csel rt (tleft (vm_tree T m)) (tright (vm_tree T m)))
                 then Some (mkvmut (mpath m ++ [rt]) None) else None
       | Some p => if Bool.eqb (to_right p (Trie.tpfx pfx V pzero (vm_tree T m))) rt
                   then Some (mkvmut (mpath m) None) else None
       end).
Proof.
  intros [R0 K]. destruct (rep_is_node _ _ _ R0) as (p & vv & ll & rr & ET).
  pose proof R0 as R1. rewrite ET in R1.
  destruct (rep_node_facts _ _ _ _ _ _ _ rt R1) as (_ & _ & Hrd & _ & Rc & _ & _).
  unfold Arena3.a_vm_side_idx. destruct l as [i|pq i], (mvirt m) as [p'|] eqn:EM; try contradiction;
    cbn [loc_idx] in *; rewrite Hrd; cbn [rbind npfx].
  - rewrite ET. cbn [tleft tright Trie.tpfx].
    assert (EC : child_of (mkanode p vv (link ll) (link rr)) rt = link (csel rt ll rr)) by (destruct rt; reflexivity).
    rewrite EC. destruct (csel rt ll rr) as [|ci cp cv cl cr] eqn:C; cbn [ArenaThm.link is_node];
      eexists; (split; [reflexivity|]); cbn [opt_rel]; [exact Logic.I|].
    split; [|cbn; exact Logic.I]. unfold vm_tree in *. cbn [Views.mpath loc_idx].
    rewrite subtree_app', ET. cbn [subtree]. cbn [ArenaThm.link] in Rc.
    replace (if rt then rr else ll) with (csel rt ll rr) by (destruct rt; reflexivity). rewrite C. exact Rc.
  - subst p'. rewrite ET. cbn [Trie.tpfx].
    destruct (Bool.eqb (to_right pq p) rt); eexists; (split; [reflexivity|]); cbn [opt_rel]; [|exact Logic.I].
    split; [|cbn; exact Logic.I]. unfold vm_tree in *. cbn [Views.mpath loc_idx]. exact R0.
Qed.

Theorem vm_left_sim tb T l m : mloc_rep tb T l m ->
  exists o, a_vm_left tb l = Ok o /\ opt_rel (mloc_rep tb T) o (vm_left T m).
Proof.
  intros LR. destruct (vm_side_sim tb T l m false LR) as (o & Eo & W).
  unfold Arena3.a_vm_left. rewrite Eo. cbn [rbind]. eexists. split; [reflexivity|].
  unfold Views.vm_left. cbn [ArenaThm.csel] in W. destruct (mvirt m) as [p|].
  - destruct (to_right p (Trie.tpfx pfx V pzero (vm_tree T m))); cbn [Bool.eqb negb] in *;
      destruct o; cbn [opt_rel option_map] in *; auto.
  - destruct (is_node (tleft (vm_tree T m))); destruct o; cbn [opt_rel option_map] in *; auto.
Qed.

Theorem vm_right_sim tb T l m : mloc_rep tb T l m ->
  exists o, a_vm_right tb l = Ok o /\ opt_rel (mloc_rep tb T) o (vm_right T m).
Proof.
  intros LR. destruct (vm_side_sim tb T l m true LR) as (o & Eo & W).
  unfold Arena3.a_vm_right. rewrite Eo. cbn [rbind]. eexists. split; [reflexivity|].
  unfold Views.vm_right. cbn [ArenaThm.csel] in W. destruct (mvirt m) as [p|].
  - destruct (to_right p (Trie.tpfx pfx V pzero (vm_tree T m))); cbn [Bool.eqb] in *;
      destruct o; cbn [opt_rel option_map] in *; auto.
  - destruct (is_node (tright (vm_tree T m))); destruct o; cbn [opt_rel option_map] in *; auto.
Qed.

Theorem vm_has_left_sim tb T l m : mloc_rep tb T l m -> a_vm_has_left tb l = Ok (vm_has_left T m).
Proof.
  intros [R0 K]. destruct (rep_is_node _ _ _ R0) as (p & vv & ll & rr & ET).
  pose proof R0 as R1. rewrite ET in R1.
  destruct (rep_node_facts _ _ _ _ _ _ _ false R1) as (_ & _ & Hrd & _).
  unfold Arena3.a_vm_has_left, Views.vm_has_left.
  destruct l as [i|pq i], (mvirt m) as [p'|]; try contradiction; cbn [loc_idx] in *; rewrite Hrd, ET;
    cbn [rbind nleft npfx tleft Trie.tpfx].
  - destruct ll; reflexivity.
  - subst p'. reflexivity.
Qed.

Theorem vm_has_right_sim tb T l m : mloc_rep tb T l m -> a_vm_has_right tb l = Ok (vm_has_right T m).
Proof.
  intros [R0 K]. destruct (rep_is_node _ _ _ R0) as (p & vv & ll & rr & ET).
  pose proof R0 as R1. rewrite ET in R1.
  destruct (rep_node_facts _ _ _ _ _ _ _ false R1) as (_ & _ & Hrd & _).
  unfold Arena3.a_vm_has_right, Views.vm_has_right.
  destruct l as [i|pq i], (mvirt m) as [p'|]; try contradiction; cbn [loc_idx] in *; rewrite Hrd, ET;
    cbn [rbind nright npfx tright Trie.tpfx].
  - destruct rr; reflexivity.
  - subst p'. reflexivity.
Qed.

Theorem vm_split_sim tb T l m : mloc_rep tb T l m ->
  exists ol orr, a_vm_split tb l = Ok (ol, orr) /\
    opt_rel (mloc_rep tb T) ol (fst (vm_split T m)) /\ opt_rel (mloc_rep tb T) orr (snd (vm_split T m)).
Proof.
  intros LR. destruct (vm_left_sim tb T l m LR) as (ol & El & Wl). destruct (vm_right_sim tb T l m LR) as (orr & Er & Wr).
  exists ol, orr. split.
  - destruct LR as [R0 K]. destruct (rep_is_node _ _ _ R0) as (p & vv & ll & rr & ET). rewrite ET in R0.
    destruct (rep_node_facts _ _ _ _ _ _ _ false R0) as (_ & _ & Hrd & _).
    unfold Arena3.a_vm_left, Arena3.a_vm_right, Arena3.a_vm_side_idx, Arena3.a_vm_split in *.
    destruct l as [i|pq i]; cbn [loc_idx] in *; rewrite Hrd in *; cbn [rbind child_of Arena.child_of nleft nright npfx] in *.
    + injection El as <-. injection Er as <-. reflexivity.
    + destruct (to_right pq p); cbn [Bool.eqb rbind option_map] in *; injection El as <-; injection Er as <-; reflexivity.
  - unfold Views.vm_split, Views.vm_left, Views.vm_right in *. destruct (mvirt m) as [p|].
    + destruct (to_right p (Trie.tpfx pfx V pzero (vm_tree T m))); cbn [negb fst snd] in *; auto.
    + cbn [fst snd]. auto.
Qed.

Theorem vm_prefix_sim tb T l m : mloc_rep tb T l m -> a_vm_prefix tb l = Ok (vm_prefix T m).
Proof.
  intros [R0 K]. destruct (rep_is_node _ _ _ R0) as (p & vv & ll & rr & ET).
  pose proof R0 as R1. rewrite ET in R1.
  destruct (rep_node_facts _ _ _ _ _ _ _ false R1) as (_ & _ & Hrd & _).
  unfold Arena3.a_vm_prefix, Views.vm_prefix.
  destruct l as [i|pq i], (mvirt m) as [p'|]; try contradiction; cbn [loc_idx] in *.
  - rewrite Hrd, ET. reflexivity.
  - subst p'. reflexivity.
Qed.

Theorem vm_value_sim tb T l m : mloc_rep tb T l m -> a_vm_value tb l = Ok (vm_value T m).
Proof.
  intros [R0 K]. destruct (rep_is_node _ _ _ R0) as (p & vv & ll & rr & ET).
  pose proof R0 as R1. rewrite ET in R1.
  destruct (rep_node_facts _ _ _ _ _ _ _ false R1) as (_ & _ & Hrd & _).
  unfold Arena3.a_vm_value, Views.vm_value.
  destruct l as [i|pq i], (mvirt m) as [p'|]; try contradiction; cbn [loc_idx] in *; [|reflexivity].
  rewrite Hrd, ET. reflexivity.
Qed.

(* ------------------------------------------------------------------------------------------ *)
(** * The view observers with their default fuel [S (length tb)]: no hypothesis besides the
    representation of the view ([rep_height_le]) *)

Theorem v_find_ok tb l v q : loc_rep tb l v ->
  exists o, a_v_find tb l q = Ok o /\ opt_rel (loc_rep tb) o (v_find v q).
Proof.
  intros LR. apply v_find_sim; [exact LR|].
  pose proof (rep_height_le tb _ _ (loc_rep_idx _ _ _ LR)). lia.
Qed.
Theorem v_find_exact_ok tb l v q : loc_rep tb l v ->
  exists o, a_v_find_exact tb l q = Ok o /\ opt_rel (loc_rep tb) o (v_find_exact v q).
Proof.
  intros LR. apply v_find_exact_sim; [exact LR|]. exact (rep_height_le tb _ _ (loc_rep_idx _ _ _ LR)).
Qed.
Theorem v_find_lpm_ok tb l v q : loc_rep tb l v ->
  exists o, a_v_find_lpm tb l q = Ok o /\ opt_rel (loc_rep tb) o (v_find_lpm v q).
Proof.
  intros LR. apply v_find_lpm_sim; [exact LR|].
  pose proof (rep_height_le tb _ _ (loc_rep_idx _ _ _ LR)). lia.
Qed.
Theorem vm_find_ok tb T l m q : mloc_rep tb T l m ->
  exists o, a_vm_find tb l q = Ok o /\ opt_rel (mloc_rep tb T) o (vm_find T m q).
Proof.
  intros LR. apply vm_find_sim; [exact LR|]. pose proof (rep_height_le tb _ _ (proj1 LR)). lia.
Qed.
Theorem vm_find_exact_ok tb T l m q : mloc_rep tb T l m ->
  exists o, a_vm_find_exact tb l q = Ok o /\ opt_rel (mloc_rep tb T) o (vm_find_exact T m q).
Proof.
  intros LR. apply vm_find_exact_sim; [exact LR|]. exact (rep_height_le tb _ _ (proj1 LR)).
Qed.
Theorem vm_find_lpm_ok tb T l m q : mloc_rep tb T l m ->
  exists o, a_vm_find_lpm tb l q = Ok o /\ opt_rel (mloc_rep tb T) o (vm_find_lpm T m q).
Proof.
  intros LR. apply vm_find_lpm_sim; [exact LR|]. pose proof (rep_height_le tb _ _ (proj1 LR)). lia.
Qed.

(** [view_at] / [view_mut_at] of a map: [find] from the root location *)
Theorem view_at_sim am m q : Rep am m ->
  exists o, a_v_find (tbl am) (LNode 0%N) q = Ok o /\
            opt_rel (loc_rep (tbl am)) o (Views.view_at pfx V peq contains is_bit_set plen (root m) q).
Proof. intros R. apply v_find_ok. exact (proj1 R). Qed.

(* ------------------------------------------------------------------------------------------ *)
(** * The two copies of the view code coincide ([TrieView] / [TrieViewMut] duplicate it) *)

Lemma vm_find_loop_eq q : forall fuel tb i, a_vm_find_loop fuel tb i q = a_v_find_loop fuel tb i q.
Proof.
  intros fuel tb i. reflexivity. (* the two fixpoints have the same body *)
Qed.
Lemma vm_find_eq fuel tb l q : a_vm_find_fuel fuel tb l q = a_v_find_fuel fuel tb l q.
Proof.
  reflexivity.
Qed.
Lemma vm_find_exact_eq q : forall fuel tb i, a_vm_find_exact_fuel fuel tb i q = a_v_find_exact_fuel fuel tb i q.
Proof.
  induction fuel as [|f IH]; intros tb i; [reflexivity|].
  cbn [Arena3.a_vm_find_exact_fuel Arena3.a_v_find_exact_fuel].
  destruct (a_direction tb i q) as [d| |]; cbn [rbind]; try reflexivity. destruct d; auto.
  destruct (rd tb i); cbn [rbind]; try reflexivity. destruct (is_some _); reflexivity.
Qed.
Lemma vm_find_lpm_loop_eq q : forall fuel tb i b, a_vm_find_lpm_loop fuel tb i q b = a_v_find_lpm_loop fuel tb i q b.
Proof.
  induction fuel as [|f IH]; intros tb i b; [reflexivity|].
  cbn [Arena3.a_vm_find_lpm_loop Arena3.a_v_find_lpm_loop].
  destruct (rd tb i); cbn [rbind]; try reflexivity.
  destruct (a_direction tb i q) as [d| |]; cbn [rbind]; try reflexivity.
  destruct d; auto; destruct (if is_some _ then _ else _); reflexivity.
Qed.

(** the subtree at a live location is no larger than the table *)
Lemma Rep_tsize am m : Rep am m -> minv m -> (tsize (root m) <= length (tbl am))%nat.
Proof.
  intros R M. rewrite (ArenaThm.tsize_ids pfx V peq contains is_bit_set plen lcp).
  pose proof (ArenaThm.minv_size pfx V peq contains is_bit_set plen lcp pzero _ _ M) as S2.
  destruct R as (_ & _ & Ln & _). lia.
Qed.


(* ------------------------------------------------------------------------------------------ *)
(** * Every arena state reachable from the empty map ([Arena2Thm.reachable2]: histories over all
    the mutators of [Arena.v] / [Arena2.v]): every observer returns [Ok] *)
Section Reach.
Hypothesis PEQ_LEN : forall p q, peq p q = true -> plen p = plen q.
Hypothesis ZERO_LEN : plen pzero = 0%N.
Notation reachable2 := (Arena2Thm.reachable2 pfx V peq contains is_bit_set plen lcp pzero).

Lemma reach_Rep am : reachable2 am -> exists m, Rep am m /\ minv m.
Proof.
  intros H. destruct (Arena2Thm.reachable2_Rep pfx V peq contains is_bit_set plen lcp pzero PEQ_LEN ZERO_LEN am H)
    as (m & R & M & _). eauto.
Qed.

(** the states of a [Cover] iterator that was driven by [next] from its initial state *)
Inductive cover_reach (tb : list anode) (q : pfx) : option N -> Prop :=
| cr_start : cover_reach tb q None
| cr_next st o st' : cover_reach tb q st -> a_cover_next (S (length tb)) tb st q = Ok (o, st') ->
    cover_reach tb q st'.

Corollary reachable_total3 am q : reachable2 am ->
  (exists o, a_get_key_value am q = Ok o) /\ (exists o, a_contains_key am q = Ok o) /\
  (exists o, a_get_lpm_prefix am q = Ok o) /\ (exists o, a_get_lpm_mut am q = Ok o) /\
  (exists o, a_get_spm am q = Ok o) /\ (exists o, a_get_spm_prefix am q = Ok o) /\
  (exists st, a_children_start am q = Ok st) /\ (exists es, a_children am q = Ok es) /\
  (exists es, a_cover am q = Ok es) /\
  (forall st, cover_reach (tbl am) q st -> exists r, a_cover_next (S (length (tbl am))) (tbl am) st q = Ok r).
Proof.
  intros H. destruct (reach_Rep am H) as (m & R & M).
  split; [rewrite (get_key_value_sim am m q R M); eauto|].
  split; [rewrite (contains_key_sim am m q R M); eauto|].
  split; [rewrite (get_lpm_prefix_sim am m q R M); eauto|].
  split; [rewrite (get_lpm_mut_sim am m q R M); eauto|].
  split; [rewrite (get_spm_sim am m q R M); eauto|].
  split; [rewrite (get_spm_prefix_sim am m q R M); eauto|].
  split; [rewrite (proj1 (children_start_sim am m q R M)); eauto|].
  split; [rewrite (children_sim am m q R M); eauto|].
  split; [rewrite (cover_sim am m q R M); eauto|].
  pose proof (ArenaThm.Rep_height pfx V peq contains is_bit_set plen lcp pzero _ _ R M) as HH.
  assert (NX : forall st cst, cst_rep (tbl am) (length (tbl am)) st cst ->
            exists st', a_cover_next (S (length (tbl am))) (tbl am) st q = Ok (fst (cover_next (root m) cst q), st') /\
                        cst_rep (tbl am) (length (tbl am)) st' (snd (cover_next (root m) cst q))).
  { intros st cst C. apply (cover_next_sim (tbl am) (root m) (length (tbl am))); auto. apply R. }
  assert (INV : forall st, cover_reach (tbl am) q st -> exists cst, cst_rep (tbl am) (length (tbl am)) st cst).
  { induction 1 as [|st o st' _ [cst C] E]; [exists CStart; exact Logic.I|].
    destruct (NX st cst C) as (st'' & E' & C'). rewrite E in E'. injection E' as _ <-. eauto. }
  intros st CR. destruct (INV st CR) as (cst & C). destruct (NX st cst C) as (st' & E & _). eauto.
Qed.

(** a view location whose slot is linked from the root (what [find], [left], [right] ... hand
    out, starting from [view()] / [view_mut()] = [Node(0)]) *)
Definition live_loc (tb : list anode) (l : vloc) : Prop :=
  exists pa, Arena2.a_vm_walk pfx V tb 0%N pa = Ok (Some (loc_idx l)).

Lemma live_loc_rep am m l : Rep am m -> live_loc (tbl am) l ->
  exists pa, rep (tbl am) (Some (loc_idx l)) (subtree (root m) pa).
Proof.
  intros R [pa W]. exists pa. rewrite (Arena2Thm.vm_walk_sim pfx V pa _ _ _ (proj1 R)) in W. injection W as W.
  rewrite <- W. eapply rep_subtree. apply R.
Qed.

Definition view_at_loc (t : tree) (l : vloc) : view :=
  match l with LNode _ => VNode t | LVirt p _ => VVirt p t end.
Definition vmut_at_loc (pa : path) (l : vloc) : vmut :=
  mkvmut pa (match l with LNode _ => None | LVirt p _ => Some p end).

Lemma live_mloc am m l : Rep am m -> minv m -> live_loc (tbl am) l ->
  exists pa, mloc_rep (tbl am) (root m) l (vmut_at_loc pa l) /\
             loc_rep (tbl am) l (view_at_loc (subtree (root m) pa) l) /\
             (height (subtree (root m) pa) <= length (tbl am))%nat.
Proof.
  intros R M LL. destruct (live_loc_rep am m l R LL) as (pa & Rp). exists pa.
  pose proof (ArenaThm.Rep_height pfx V peq contains is_bit_set plen lcp pzero _ _ R M) as HH.
  pose proof (height_subtree pa (root m)) as HS.
  split; [|split; [|lia]].
  - split; [exact Rp|]. destruct l; exact Logic.I || reflexivity.
  - destruct l; cbn [view_at_loc loc_rep loc_idx] in *; auto.
Qed.

(** a location handed out by an observer is live again *)
Lemma mloc_live am m l' m' : Rep am m -> mloc_rep (tbl am) (root m) l' m' -> live_loc (tbl am) l'.
Proof.
  intros R [Rm _]. exists (mpath m'). rewrite (Arena2Thm.vm_walk_sim pfx V _ _ _ _ (proj1 R)).
  unfold vm_tree in Rm. rewrite <- (ArenaThm.rep_link pfx V _ _ _ Rm). reflexivity.
Qed.

Definition olive (tb : list anode) (o : option vloc) : Prop :=
  match o with Some l' => live_loc tb l' | None => True end.

Lemma orel_olive am m o om : Rep am m -> opt_rel (mloc_rep (tbl am) (root m)) o om -> olive (tbl am) o.
Proof.
  intros R. destruct o as [l'|], om as [m'|]; cbn; try tauto. apply mloc_live. exact R.
Qed.

Corollary reachable_views am l q : reachable2 am -> live_loc (tbl am) l ->
  (exists o, a_v_find (tbl am) l q = Ok o /\ olive (tbl am) o) /\
  (exists o, a_v_find_exact (tbl am) l q = Ok o /\ olive (tbl am) o) /\
  (exists o, a_v_find_lpm (tbl am) l q = Ok o /\ olive (tbl am) o) /\
  (exists o, a_v_left (tbl am) l = Ok o /\ olive (tbl am) o) /\
  (exists o, a_v_right (tbl am) l = Ok o /\ olive (tbl am) o) /\
  (exists p, a_v_prefix (tbl am) l = Ok p) /\ (exists v, a_v_value (tbl am) l = Ok v) /\
  (exists pv, a_v_prefix_value (tbl am) l = Ok pv) /\
  (exists o, a_vm_find (tbl am) l q = Ok o /\ olive (tbl am) o) /\
  (exists o, a_vm_find_exact (tbl am) l q = Ok o /\ olive (tbl am) o) /\
  (exists o, a_vm_find_lpm (tbl am) l q = Ok o /\ olive (tbl am) o) /\
  (exists o, a_vm_left (tbl am) l = Ok o /\ olive (tbl am) o) /\
  (exists o, a_vm_right (tbl am) l = Ok o /\ olive (tbl am) o) /\
  (exists b, a_vm_has_left (tbl am) l = Ok b) /\ (exists b, a_vm_has_right (tbl am) l = Ok b) /\
  (exists o1 o2, a_vm_split (tbl am) l = Ok (o1, o2) /\ olive (tbl am) o1 /\ olive (tbl am) o2) /\
  (exists p, a_vm_prefix (tbl am) l = Ok p) /\ (exists v, a_vm_value (tbl am) l = Ok v).
Proof.
  intros H LL. destruct (reach_Rep am H) as (m & R & M).
  destruct (live_mloc am m l R M LL) as (pa & MR & LR & HH).
  set (mm := vmut_at_loc pa l) in *. set (vv := view_at_loc (subtree (root m) pa) l) in *.
  assert (HV : (height (v_tree vv) <= length (tbl am))%nat) by (subst vv; destruct l; exact HH).
  assert (HM : (height (vm_tree (root m) mm) <= length (tbl am))%nat) by exact HH.
  assert (F1 : exists o, a_vm_find (tbl am) l q = Ok o /\ olive (tbl am) o).
  { destruct (vm_find_sim (tbl am) (root m) l mm q (S (length (tbl am))) MR ltac:(lia)) as (o & E & W).
    exists o. split; [exact E|exact (orel_olive am m _ _ R W)]. }
  assert (F2 : exists o, a_vm_find_exact (tbl am) l q = Ok o /\ olive (tbl am) o).
  { destruct (vm_find_exact_sim (tbl am) (root m) l mm q MR HM) as (o & E & W).
    exists o. split; [exact E|exact (orel_olive am m _ _ R W)]. }
  assert (F3 : exists o, a_vm_find_lpm (tbl am) l q = Ok o /\ olive (tbl am) o).
  { destruct (vm_find_lpm_sim (tbl am) (root m) l mm q (S (length (tbl am))) MR ltac:(lia)) as (o & E & W).
    exists o. split; [exact E|exact (orel_olive am m _ _ R W)]. }
  assert (F4 : exists o, a_vm_left (tbl am) l = Ok o /\ olive (tbl am) o).
  { destruct (vm_left_sim (tbl am) (root m) l mm MR) as (o & E & W).
    exists o. split; [exact E|exact (orel_olive am m _ _ R W)]. }
  assert (F5 : exists o, a_vm_right (tbl am) l = Ok o /\ olive (tbl am) o).
  { destruct (vm_right_sim (tbl am) (root m) l mm MR) as (o & E & W).
    exists o. split; [exact E|exact (orel_olive am m _ _ R W)]. }
  split; [unfold Arena3.a_v_find; rewrite <- vm_find_eq; exact F1|].
  split; [unfold Arena3.a_v_find_exact; rewrite <- vm_find_exact_eq; exact F2|].
  split.
  { destruct F3 as (o & E & W). exists o. split; [|exact W]. revert E.
    unfold Arena3.a_v_find_lpm, Arena3.a_vm_find_lpm, Arena3.a_v_find_lpm_fuel, Arena3.a_vm_find_lpm_fuel.
    destruct (rd (tbl am) (loc_idx l)); cbn [rbind]; auto. destruct (negb _); auto. rewrite vm_find_lpm_loop_eq. auto. }
  split.
  { destruct (v_left_sim (tbl am) l vv LR) as (o & E & W). exists o. split; [exact E|].
    destruct F4 as (o' & E' & W'). revert E E' W'. unfold Arena3.a_v_left, Arena3.a_vm_left, Arena3.a_vm_side_idx.
    destruct l as [i|p i]; (destruct (rd (tbl am) _); cbn [rbind child_of Arena.child_of]; [|discriminate..]).
    - intros [= <-] [= <-]. auto.
    - destruct (to_right _ _); cbn [Bool.eqb negb rbind option_map]; intros [= <-] [= <-]; auto. }
  split.
  { destruct (v_right_sim (tbl am) l vv LR) as (o & E & W). exists o. split; [exact E|].
    destruct F5 as (o' & E' & W'). revert E E' W'. unfold Arena3.a_v_right, Arena3.a_vm_right, Arena3.a_vm_side_idx.
    destruct l as [i|p i]; (destruct (rd (tbl am) _); cbn [rbind child_of Arena.child_of]; [|discriminate..]).
    - intros [= <-] [= <-]. auto.
    - destruct (to_right _ _); cbn [Bool.eqb rbind option_map]; intros [= <-] [= <-]; auto. }
  split; [rewrite (v_prefix_sim (tbl am) l vv LR); eauto|].
  split; [rewrite (v_value_sim (tbl am) l vv LR); eauto|].
  split; [rewrite (v_prefix_value_sim (tbl am) l vv LR); eauto|].
  split; [exact F1|]. split; [exact F2|]. split; [exact F3|]. split; [exact F4|]. split; [exact F5|].
  split; [rewrite (vm_has_left_sim (tbl am) (root m) l mm MR); eauto|].
  split; [rewrite (vm_has_right_sim (tbl am) (root m) l mm MR); eauto|].
  split.
  { destruct (vm_split_sim (tbl am) (root m) l mm MR) as (o1 & o2 & E & W1 & W2). exists o1, o2.
    split; [exact E|]. split; [exact (orel_olive am m _ _ R W1)|exact (orel_olive am m _ _ R W2)]. }
  split; [rewrite (vm_prefix_sim (tbl am) (root m) l mm MR); eauto|].
  rewrite (vm_value_sim (tbl am) (root m) l mm MR); eauto.
Qed.

Lemma live_sized am l : reachable2 am -> live_loc (tbl am) l ->
  exists t, rep (tbl am) (Some (loc_idx l)) t /\ (tsize t <= length (tbl am))%nat.
Proof.
  intros H LL. destruct (reach_Rep am H) as (m & R & M). destruct (live_loc_rep am m l R LL) as (pa & Rp).
  exists (subtree (root m) pa). split; [exact Rp|].
  pose proof (tsize_subtree pa (root m)). pose proof (Rep_tsize am m R M). lia.
Qed.

(** the root location is live: [view()] / [view_mut()] *)
Lemma live_root tb : live_loc tb (LNode 0%N).
Proof. exists []. reflexivity. Qed.

End Reach.

End A3T.

(* ------------------------------------------------------------------------------------------ *)
(** * The set operations over two arenas *)

Section NF.
Variables (pfx T : Type).
Notation rep := (ArenaThm.rep pfx T).
Notation link := (ArenaThm.link pfx T).

(** a stack entry holds NODES: a tree represented under its own link that is not a leaf *)
Definition nrep (tb : list (Arena.anode pfx T)) (t : Trie.tree pfx T) : Prop :=
  is_node t = true /\ rep tb (link t) t.

Lemma nfacts tb i0 i p v (l r : Trie.tree pfx T) : rep tb (Some i0) (Node i p v l r) ->
  Arena.rd pfx T tb i = Ok (mkanode p v (link l) (link r)) /\ rep tb (link l) l /\ rep tb (link r) r.
Proof.
  intros H. destruct (ArenaThm.rep_node_inv pfx T _ _ _ _ _ _ _ H) as (_ & Hs & Rl & Rr).
  split; [apply ArenaThm.rd_ok; exact Hs|]. auto.
Qed.

Lemma nrep_of_rep tb i (t : Trie.tree pfx T) : rep tb (Some i) t -> nrep tb t /\ tid t = i.
Proof.
  intros H. destruct (ArenaThm.rep_some_inv pfx T _ _ _ H) as (p & v & l & r & ->).
  split; [split; [reflexivity|exact H]|reflexivity].
Qed.

Lemma nrep_child tb (t : Trie.tree pfx T) : rep tb (link t) t -> is_node t = true -> nrep tb t.
Proof. intros H N. split; assumption. Qed.

Lemma tsize_node' (t : Trie.tree pfx T) : is_node t = true -> tsize t = S (tsize (tleft t) + tsize (tright t)).
Proof. destruct t; [discriminate|reflexivity]. Qed.
End NF.

Ltac nd H i p v l r Hrd Rl Rr :=
  let N := fresh "N" in
  destruct H as [N H];
  match type of N with is_node ?t = true => destruct t as [|i p v l r]; [discriminate N|clear N] end;
  cbn [ArenaThm.link] in H;
  pose proof (nfacts _ _ _ _ _ _ _ _ _ H) as (Hrd & Rl & Rr).

Section A3ST.
Variables (pfx L R : Type).
Variables (contains : pfx -> pfx -> bool) (is_bit_set : pfx -> N -> bool)
          (plen : pfx -> N) (pzero : pfx) (mcmp : pfx -> pfx -> comparison).
Variables (tl : list (Arena.anode pfx L)) (tr : list (Arena.anode pfx R)).

Notation treeL := (Trie.tree pfx L).
Notation treeR := (Trie.tree pfx R).
Notation repL := (ArenaThm.rep pfx L tl).
Notation repR := (ArenaThm.rep pfx R tr).
Notation linkL := (ArenaThm.link pfx L).
Notation linkR := (ArenaThm.link pfx R).
Notation nrepL := (nrep pfx L tl).
Notation nrepR := (nrep pfx R tr).
Notation to_right := (Trie.to_right pfx is_bit_set plen).
Notation lpmL := (SetOps.lpmL pfx L).
Notation lpmR := (SetOps.lpmR pfx R).

Lemma pv_anodeL i p v (l r : treeL) ol orr : Arena.prefix_value pfx L (mkanode p v ol orr) = pv (Node i p v l r).
Proof. destruct v; reflexivity. Qed.
Lemma pv_anodeR i p v (l r : treeR) ol orr : Arena.prefix_value pfx R (mkanode p v ol orr) = pv (Node i p v l r).
Proof. destruct v; reflexivity. Qed.

Lemma Forall_map_F2 {A B} (f : A -> B) (P : A -> Prop) (Q : B -> A -> Prop) l :
  (forall x, P x -> Q (f x) x) -> Forall P l -> Forall2 Q (map f l) l.
Proof. intros HQ F. induction F; cbn [map]; constructor; auto. Qed.

Lemma ls_cons' x l : list_sum (x :: l) = (x + list_sum l)%nat.
Proof. reflexivity. Qed.
Lemma ls_nil' : list_sum [] = 0%nat.
Proof. reflexivity. Qed.

(** termination of a tree-level machine from a size measure, without any specification *)
Lemma run_total (E I : Type) (ex : E -> option I * list E) (sz : E -> nat) (ok : E -> Prop) :
  (forall e, ok e -> (msize E sz (snd (ex e)) < sz e)%nat /\ Forall ok (snd (ex e))) ->
  forall n st, Forall ok st -> (msize E sz st <= n)%nat -> exists out, run E I ex n st = Some out.
Proof.
  intros Hl n st F Hn.
  destruct (run_rel E I ex sz ok (fun _ _ => True)) with (n := n) (st := st) as (ls & _ & Hr); auto.
  - intros e o cs He Hex. destruct (Hl e He) as [D _]. rewrite Hex in D. exact D.
  - intros e o cs He Hex. destruct (Hl e He) as [_ K]. rewrite Hex in K. split; [exact K|auto].
  - eauto.
Qed.

(* ---------------------------------------------------------------------------------------- *)
(** ** union.rs *)

Notation uidx := (SetOps.uidx pfx L R).
Notation uentry := (SetOps.uentry pfx L R).
Notation uitem := (SetOps.uitem pfx L R).
Notation umitem := (SetOps.umitem pfx L R).
Notation u_ni := (SetOps.u_next_indices pfx L R contains plen pzero mcmp).
Notation u_first_l := (SetOps.u_next_first_l pfx L R contains is_bit_set plen pzero mcmp).
Notation u_first_r := (SetOps.u_next_first_r pfx L R contains is_bit_set plen pzero mcmp).
Notation u_ext := (SetOps.u_extend_lpm pfx L R).
Notation u_expand := (SetOps.u_expand pfx L R contains is_bit_set plen pzero mcmp).
Notation um_expand := (SetOps.um_expand pfx L R contains is_bit_set plen pzero mcmp).
Notation union := (SetOps.union pfx L R contains is_bit_set plen pzero mcmp).
Notation union_mut := (SetOps.union_mut pfx L R contains is_bit_set plen pzero mcmp).
Notation a_u_ni := (Arena3.a_u_next_indices pfx L R contains plen mcmp tl tr).
Notation a_u_first_l := (Arena3.a_u_next_first_l pfx L R contains is_bit_set plen mcmp tl tr).
Notation a_u_first_r := (Arena3.a_u_next_first_r pfx L R contains is_bit_set plen mcmp tl tr).
Notation a_u_ext := (Arena3.a_u_extend_lpm pfx L R tl tr).
Notation a_u_expand := (Arena3.a_u_expand pfx L R contains is_bit_set plen mcmp tl tr).
Notation a_um_expand := (Arena3.a_um_expand pfx L R contains is_bit_set plen mcmp tl tr).
Notation a_union_fuel := (Arena3.a_union_fuel pfx L R contains is_bit_set plen mcmp).
Notation a_union_mut_fuel := (Arena3.a_union_mut_fuel pfx L R contains is_bit_set plen mcmp).
#[local] Arguments UBoth {pfx L R}.
#[local] Arguments UFirstL {pfx L R}.
#[local] Arguments UFirstR {pfx L R}.
#[local] Arguments UOnlyL {pfx L R}.
#[local] Arguments UOnlyR {pfx L R}.

(** the arena entry of a tree entry: the slots of its nodes *)
Definition uix (x : uidx) : auidx :=
  match x with
  | UBoth l r => AUBoth (tid l) (tid r)
  | UFirstL l r => AUFirstL (tid l) (tid r)
  | UFirstR l r => AUFirstR (tid l) (tid r)
  | UOnlyL l => AUOnlyL (tid l)
  | UOnlyR r => AUOnlyR (tid r)
  end.
Definition uent (e : uentry) : auentry pfx L R := (uix (fst (fst e)), snd (fst e), snd e).
(** the invariant of tree entries: their nodes are represented in the two tables *)
Definition PU (x : uidx) : Prop :=
  match x with
  | UBoth l r | UFirstL l r | UFirstR l r => nrepL l /\ nrepR r
  | UOnlyL l => nrepL l
  | UOnlyR r => nrepR r
  end.
Definition PE (e : uentry) : Prop := PU (fst (fst e)).

Lemma u_ni_sim (a : treeL) (b : treeR) : repL (linkL a) a -> repR (linkR b) b ->
  a_u_ni (linkL a) (linkR b) = Ok (map uix (u_ni a b)) /\ Forall PU (u_ni a b).
Proof.
  intros Ha Hb. unfold Arena3.a_u_next_indices, SetOps.u_next_indices.
  destruct a as [|ia pa va la ra], b as [|ib pb vb lb rb]; cbn [ArenaThm.link is_node].
  - split; [reflexivity|constructor].
  - split; [reflexivity|]. repeat constructor. exact Hb.
  - split; [reflexivity|]. repeat constructor. exact Ha.
  - destruct (nfacts _ _ _ _ _ _ _ _ _ Ha) as (Hrda & _). destruct (nfacts _ _ _ _ _ _ _ _ _ Hb) as (Hrdb & _).
    rewrite Hrda, Hrdb. cbn [rbind npfx Trie.tpfx].
    assert (NA : nrepL (Node ia pa va la ra)) by (split; [reflexivity|exact Ha]).
    assert (NB : nrepR (Node ib pb vb lb rb)) by (split; [reflexivity|exact Hb]).
    destruct (plen pa =? plen pb)%N; [destruct (mcmp pa pb)|
      destruct (contains pa pb); [|destruct (contains pb pa); [|destruct (mcmp pa pb)]]];
      (split; [reflexivity|]); repeat (constructor; cbn [PU]; auto).
Qed.

Lemma u_first_l_sim (l : treeL) (r : treeR) : nrepL l -> nrepR r ->
  a_u_first_l (tid l) (linkL (tleft l)) (linkL (tright l)) (tid r) = Ok (map uix (u_first_l l r)) /\
  Forall PU (u_first_l l r).
Proof.
  intros Hl Hr. pose proof Hr as NR.
  nd Hl il pl vl ll lr Hrdl Rll Rlr. nd Hr ir pr vr rl rr Hrdr Rrl Rrr.
  unfold Arena3.a_u_next_first_l, SetOps.u_next_first_l. cbn [tid tleft tright Trie.tpfx].
  destruct ll as [|lli llp llv lll llr], lr as [|lri lrp lrv lrl lrr]; cbn [ArenaThm.link is_node].
  - split; [reflexivity|]. repeat constructor; cbn [PU]; auto.
  - exact (u_ni_sim (Node lri lrp lrv lrl lrr) (Node ir pr vr rl rr) Rlr Hr).
  - exact (u_ni_sim (Node lli llp llv lll llr) (Node ir pr vr rl rr) Rll Hr).
  - rewrite Hrdl, Hrdr. cbn [rbind npfx]. destruct (to_right pl pr).
    + destruct (u_ni_sim (Node lri lrp lrv lrl lrr) (Node ir pr vr rl rr) Rlr Hr) as [E Fa].
      cbn [ArenaThm.link] in E. rewrite E. cbn [rbind]. rewrite map_app. split; [reflexivity|].
      apply Forall_app. split; [exact Fa|]. repeat constructor; cbn [PU]; auto.
    + destruct (u_ni_sim (Node lli llp llv lll llr) (Node ir pr vr rl rr) Rll Hr) as [E Fa].
      cbn [ArenaThm.link] in E. rewrite E. cbn [rbind]. split; [reflexivity|].
      constructor; [|exact Fa]. split; [reflexivity|exact Rlr].
Qed.

Lemma u_first_r_sim (l : treeL) (r : treeR) : nrepL l -> nrepR r ->
  a_u_first_r (tid l) (tid r) (linkR (tleft r)) (linkR (tright r)) = Ok (map uix (u_first_r l r)) /\
  Forall PU (u_first_r l r).
Proof.
  intros Hl Hr. pose proof Hl as NL.
  nd Hl il pl vl ll lr Hrdl Rll Rlr. nd Hr ir pr vr rl rr Hrdr Rrl Rrr.
  unfold Arena3.a_u_next_first_r, SetOps.u_next_first_r. cbn [tid tleft tright Trie.tpfx].
  destruct rl as [|rli rlp rlv rll rlr], rr as [|rri rrp rrv rrl rrr]; cbn [ArenaThm.link is_node].
  - split; [reflexivity|]. repeat constructor; cbn [PU]; auto.
  - exact (u_ni_sim (Node il pl vl ll lr) (Node rri rrp rrv rrl rrr) Hl Rrr).
  - exact (u_ni_sim (Node il pl vl ll lr) (Node rli rlp rlv rll rlr) Hl Rrl).
  - rewrite Hrdl, Hrdr. cbn [rbind npfx]. destruct (to_right pr pl).
    + destruct (u_ni_sim (Node il pl vl ll lr) (Node rri rrp rrv rrl rrr) Hl Rrr) as [E Fa].
      cbn [ArenaThm.link] in E. rewrite E. cbn [rbind]. rewrite map_app. split; [reflexivity|].
      apply Forall_app. split; [exact Fa|]. repeat constructor; cbn [PU]; auto.
    + destruct (u_ni_sim (Node il pl vl ll lr) (Node rli rlp rlv rll rlr) Hl Rrl) as [E Fa].
      cbn [ArenaThm.link] in E. rewrite E. cbn [rbind]. split; [reflexivity|].
      constructor; [|exact Fa]. split; [reflexivity|exact Rrr].
Qed.

Lemma u_ext_sim la ra xs : Forall PU xs ->
  a_u_ext la ra (map uix xs) = Ok (map uent (u_ext la ra xs)) /\ Forall PE (u_ext la ra xs).
Proof.
  unfold Arena3.a_u_extend_lpm.
  induction 1 as [|x xs Hx F IH]; [split; [reflexivity|constructor]|].
  destruct IH as [E G]. cbn [map rmap SetOps.u_extend_lpm]. fold (u_ext la ra xs).
  assert (X : Arena3.a_u_ext1 pfx L R tl tr la ra (uix x)
              = Ok (uent (match x with
                          | UBoth l r => (x, orelse (pv l) la, orelse (pv r) ra)
                          | UFirstL l _ | UOnlyL l => (x, orelse (pv l) la, ra)
                          | UFirstR _ r | UOnlyR r => (x, la, orelse (pv r) ra)
                          end))).
  { destruct x as [l r|l r|l r|l|r]; cbn [PU] in Hx; cbn [uix Arena3.a_u_ext1].
    - destruct Hx as [Hl Hr]. nd Hl il pl vl ll lr Hrdl Rll Rlr. nd Hr ir pr vr rl rr Hrdr Rrl Rrr.
      cbn [tid]. rewrite Hrdl, Hrdr. cbn [rbind]. rewrite (pv_anodeL il _ _ ll lr), (pv_anodeR ir _ _ rl rr). reflexivity.
    - destruct Hx as [Hl Hr]. nd Hl il pl vl ll lr Hrdl Rll Rlr.
      cbn [tid]. rewrite Hrdl. cbn [rbind]. rewrite (pv_anodeL il _ _ ll lr). reflexivity.
    - destruct Hx as [Hl Hr]. nd Hr ir pr vr rl rr Hrdr Rrl Rrr.
      cbn [tid]. rewrite Hrdr. cbn [rbind]. rewrite (pv_anodeR ir _ _ rl rr). reflexivity.
    - nd Hx il pl vl ll lr Hrdl Rll Rlr.
      cbn [tid]. rewrite Hrdl. cbn [rbind]. rewrite (pv_anodeL il _ _ ll lr). reflexivity.
    - nd Hx ir pr vr rl rr Hrdr Rrl Rrr.
      cbn [tid]. rewrite Hrdr. cbn [rbind]. rewrite (pv_anodeR ir _ _ rl rr). reflexivity. }
  rewrite X. cbn [rbind]. fold (rmap (Arena3.a_u_ext1 pfx L R tl tr la ra) (map uix xs)). rewrite E. cbn [rbind].
  split; [reflexivity|]. constructor; [|exact G]. destruct x; exact Hx.
Qed.

Lemma u_expand_sim e : PE e ->
  a_u_expand (uent e) = Ok (fst (u_expand e), map uent (snd (u_expand e))) /\ Forall PE (snd (u_expand e)).
Proof.
  destruct e as [[x la] ra]. unfold PE, uent. cbn [fst snd]. intros Hx.
  destruct x as [l r|l r|l r|l|r]; cbn [PU] in Hx; cbn [uix Arena3.a_u_expand SetOps.u_expand fst snd].
  - destruct Hx as [Hl Hr]. nd Hl il pl vl ll lr Hrdl Rll Rlr. nd Hr ir pr vr rl rr Hrdr Rrl Rrr.
    cbn [tid tleft tright tval Trie.tpfx]. rewrite Hrdl, Hrdr. cbn [rbind nleft nright nval npfx].
    destruct (u_ni_sim lr rr Rlr Rrr) as [E1 F1]. rewrite E1. cbn [rbind].
    destruct (u_ext_sim la ra _ F1) as [X1 G1]. rewrite X1. cbn [rbind].
    destruct (u_ni_sim ll rl Rll Rrl) as [E2 F2]. rewrite E2. cbn [rbind].
    destruct (u_ext_sim la ra _ F2) as [X2 G2]. rewrite X2. cbn [rbind].
    rewrite map_app. split; [reflexivity|]. apply Forall_app. auto.
  - destruct Hx as [Hl Hr]. pose proof Hl as NL. nd Hl il pl vl ll lr Hrdl Rll Rlr.
    destruct (u_first_l_sim _ r NL Hr) as [E1 F1].
    cbn [tid tleft tright tval Trie.tpfx] in *. rewrite Hrdl. cbn [rbind nleft nright nval npfx].
    rewrite E1. cbn [rbind]. destruct (u_ext_sim la ra _ F1) as [X1 G1]. rewrite X1. cbn [rbind]. auto.
  - destruct Hx as [Hl Hr]. pose proof Hr as NR. nd Hr ir pr vr rl rr Hrdr Rrl Rrr.
    destruct (u_first_r_sim l _ Hl NR) as [E1 F1].
    cbn [tid tleft tright tval Trie.tpfx] in *. rewrite Hrdr. cbn [rbind nleft nright nval npfx].
    rewrite E1. cbn [rbind]. destruct (u_ext_sim la ra _ F1) as [X1 G1]. rewrite X1. cbn [rbind]. auto.
  - nd Hx il pl vl ll lr Hrdl Rll Rlr. cbn [tid tval Trie.tpfx]. rewrite Hrdl. cbn [rbind nleft nright nval npfx].
    unfold SetOps.u_only_l. cbn [tleft tright].
    assert (K : forall (c : treeL), repL (linkL c) c ->
              match linkL c with Some rgt => a_u_ext la ra [AUOnlyL rgt] | None => Ok [] end
              = Ok (map uent (u_ext la ra (if is_node c then [UOnlyL c] else []))) /\
              Forall PE (u_ext la ra (if is_node c then [UOnlyL c] else []))).
    { intros c Rc. destruct c as [|ci cp cv cl cr]; cbn [ArenaThm.link is_node]; [split; [reflexivity|constructor]|].
      apply (u_ext_sim la ra [UOnlyL (Node ci cp cv cl cr)]). repeat constructor. exact Rc. }
    destruct (K lr Rlr) as [E1 G1]. destruct (K ll Rll) as [E2 G2]. rewrite E1. cbn [rbind]. rewrite E2. cbn [rbind].
    unfold SetOps.u_extend_lpm in *. rewrite !map_app. split; [reflexivity|]. apply Forall_app. auto.
  - nd Hx ir pr vr rl rr Hrdr Rrl Rrr. cbn [tid tval Trie.tpfx]. rewrite Hrdr. cbn [rbind nleft nright nval npfx].
    unfold SetOps.u_only_r. cbn [tleft tright].
    assert (K : forall (c : treeR), repR (linkR c) c ->
              match linkR c with Some rgt => a_u_ext la ra [AUOnlyR rgt] | None => Ok [] end
              = Ok (map uent (u_ext la ra (if is_node c then [UOnlyR c] else []))) /\
              Forall PE (u_ext la ra (if is_node c then [UOnlyR c] else []))).
    { intros c Rc. destruct c as [|ci cp cv cl cr]; cbn [ArenaThm.link is_node]; [split; [reflexivity|constructor]|].
      apply (u_ext_sim la ra [UOnlyR (Node ci cp cv cl cr)]). repeat constructor. exact Rc. }
    destruct (K rr Rrr) as [E1 G1]. destruct (K rl Rrl) as [E2 G2]. rewrite E1. cbn [rbind]. rewrite E2. cbn [rbind].
    unfold SetOps.u_extend_lpm in *. rewrite !map_app. split; [reflexivity|]. apply Forall_app. auto.
Qed.

Lemma aidval_idvalL i p v (l r : treeL) ol orr : Arena3.aidval pfx i (mkanode p v ol orr) = idval pfx (Node i p v l r).
Proof. destruct v; reflexivity. Qed.
Lemma aidval_idvalR i p v (l r : treeR) ol orr : Arena3.aidval pfx i (mkanode p v ol orr) = idval pfx (Node i p v l r).
Proof. destruct v; reflexivity. Qed.

Lemma um_expand_sim x : PU x ->
  a_um_expand (uix x) = Ok (fst (um_expand x), map uix (snd (um_expand x))) /\ Forall PU (snd (um_expand x)).
Proof.
  intros Hx.
  destruct x as [l r|l r|l r|l|r]; cbn [PU] in Hx; cbn [uix Arena3.a_um_expand SetOps.um_expand fst snd].
  - destruct Hx as [Hl Hr]. nd Hl il pl vl ll lr Hrdl Rll Rlr. nd Hr ir pr vr rl rr Hrdr Rrl Rrr.
    cbn [tid tleft tright tval Trie.tpfx]. rewrite Hrdl, Hrdr. cbn [rbind nleft nright].
    destruct (u_ni_sim lr rr Rlr Rrr) as [E1 F1]. rewrite E1. cbn [rbind].
    destruct (u_ni_sim ll rl Rll Rrl) as [E2 F2]. rewrite E2. cbn [rbind].
    cbn [rbind nval npfx].
    rewrite (aidval_idvalL il pl vl ll lr), (aidval_idvalR ir pr vr rl rr).
    rewrite map_app. split; [reflexivity|]. apply Forall_app. auto.
  - destruct Hx as [Hl Hr]. pose proof Hl as NL. nd Hl il pl vl ll lr Hrdl Rll Rlr.
    destruct (u_first_l_sim _ r NL Hr) as [E1 F1].
    cbn [tid tleft tright tval Trie.tpfx] in *. rewrite Hrdl. cbn [rbind nleft nright].
    rewrite E1. cbn [rbind nval npfx]. rewrite (aidval_idvalL il pl vl ll lr). auto.
  - destruct Hx as [Hl Hr]. pose proof Hr as NR. nd Hr ir pr vr rl rr Hrdr Rrl Rrr.
    destruct (u_first_r_sim l _ Hl NR) as [E1 F1].
    cbn [tid tleft tright tval Trie.tpfx] in *. rewrite Hrdr. cbn [rbind nleft nright].
    rewrite E1. cbn [rbind nval npfx]. rewrite (aidval_idvalR ir pr vr rl rr). auto.
  - nd Hx il pl vl ll lr Hrdl Rll Rlr. cbn [tid tval Trie.tpfx]. rewrite Hrdl. cbn [rbind nleft nright nval npfx].
    rewrite (aidval_idvalL il pl vl ll lr). unfold SetOps.u_only_l. cbn [tleft tright].
    destruct lr as [|lri lrp lrv lrl lrr], ll as [|lli llp llv lll llr]; cbn [ArenaThm.link is_node app map uix tid];
      (split; [reflexivity|]); repeat constructor; auto.
  - nd Hx ir pr vr rl rr Hrdr Rrl Rrr. cbn [tid tval Trie.tpfx]. rewrite Hrdr. cbn [rbind nleft nright nval npfx].
    rewrite (aidval_idvalR ir pr vr rl rr). unfold SetOps.u_only_r. cbn [tleft tright].
    destruct rr as [|rri rrp rrv rrl rrr], rl as [|rli rlp rlv rll rlr]; cbn [ArenaThm.link is_node app map uix tid];
      (split; [reflexivity|]); repeat constructor; auto.
Qed.

(** termination of the two tree-level machines, from sizes alone (no law, no well-formedness) *)
Notation isz := (UnionThm.isz pfx L R).
Notation esz := (UnionThm.esz pfx L R).
Notation kids := (UnionThm.kids pfx L R contains is_bit_set plen pzero mcmp).

Lemma PU_kids_dec x : PU x -> (list_sum (map isz (kids x)) < isz x)%nat.
Proof.
  intros Hx. destruct x as [l r|l r|l r|l|r]; cbn [PU] in Hx; cbn [UnionThm.kids UnionThm.isz].
  - destruct Hx as [[Nl _] [Nr _]]. rewrite (tsize_node' _ _ l Nl), (tsize_node' _ _ r Nr).
    rewrite map_app, list_sum_app.
    pose proof (UnionThm.isz_ni pfx L R contains plen pzero mcmp (tright l) (tright r)).
    pose proof (UnionThm.isz_ni pfx L R contains plen pzero mcmp (tleft l) (tleft r)). lia.
  - destruct Hx as [[Nl _] _]. rewrite (tsize_node' _ _ l Nl).
    pose proof (UnionThm.isz_first_l pfx L R contains is_bit_set plen pzero mcmp l r). lia.
  - destruct Hx as [_ [Nr _]]. rewrite (tsize_node' _ _ r Nr).
    pose proof (UnionThm.isz_first_r pfx L R contains is_bit_set plen pzero mcmp l r). lia.
  - destruct Hx as [Nl _]. rewrite (tsize_node' _ _ l Nl). pose proof (UnionThm.isz_only_l pfx L R l). lia.
  - destruct Hx as [Nr _]. rewrite (tsize_node' _ _ r Nr). pose proof (UnionThm.isz_only_r pfx L R r). lia.
Qed.

Lemma u_start (ta : treeL) (tb : treeR) il ir : repL (Some il) ta -> repR (Some ir) tb ->
  a_u_ni (Some il) (Some ir) = Ok (map uix (u_ni ta tb)) /\ Forall PU (u_ni ta tb).
Proof.
  intros Ha Hb. destruct (nrep_of_rep _ _ _ _ _ Ha) as [[_ Ra] <-]. destruct (nrep_of_rep _ _ _ _ _ Hb) as [[_ Rb] <-].
  destruct (ArenaThm.rep_some_inv pfx L _ _ _ Ha) as (p1 & v1 & l1 & r1 & E1).
  destruct (ArenaThm.rep_some_inv pfx R _ _ _ Hb) as (p2 & v2 & l2 & r2 & E2).
  pose proof (u_ni_sim ta tb Ra Rb) as K. rewrite E1, E2 in K |- *. exact K.
Qed.

(** [union]: with fuel above the two sizes the arena iterator yields what the model yields *)
Theorem union_sim (ta : treeL) (tb : treeR) il ir fuel :
  repL (Some il) ta -> repR (Some ir) tb -> (tsize ta + tsize tb < fuel)%nat ->
  exists out, union ta tb = Some out /\ a_union_fuel fuel tl tr il ir = Ok out.
Proof.
  intros Ha Hb Hf. destruct (u_start ta tb il ir Ha Hb) as [E1 F1].
  destruct (u_ext_sim None None _ F1) as [E2 G2].
  assert (GR : Forall PE (rev (u_ext None None (u_ni ta tb)))) by (apply Forall_rev; exact G2).
  assert (T : exists out, union ta tb = Some out).
  { unfold SetOps.union. apply (run_total _ _ u_expand esz PE); [|exact GR|].
    - intros [[x la] ra] Hx. split; [|exact (proj2 (u_expand_sim _ Hx))].
      rewrite (UnionThm.u_expand_snd pfx L R contains is_bit_set plen pzero mcmp), UnionThm.extend_size.
      apply PU_kids_dec. exact Hx.
    - rewrite MachineThm.msize_rev, UnionThm.extend_size. unfold SetOps.so_fuel.
      pose proof (UnionThm.isz_ni pfx L R contains plen pzero mcmp ta tb). lia. }
  destruct T as [out T]. exists out. split; [exact T|].
  unfold Arena3.a_union_fuel. rewrite E1. cbn [rbind]. rewrite E2. cbn [rbind]. rewrite <- map_rev.
  rewrite (rrun_sim _ _ _ a_u_expand u_expand uent PE u_expand_sim fuel _ GR).
  unfold SetOps.union in T. rewrite (MachineThm.run_fuel_mono _ _ _ _ _ _ _ T); [reflexivity|].
  unfold SetOps.so_fuel. lia.
Qed.

Theorem union_mut_sim (ta : treeL) (tb : treeR) il ir fuel :
  repL (Some il) ta -> repR (Some ir) tb -> (tsize ta + tsize tb < fuel)%nat ->
  exists out, union_mut ta tb = Some out /\ a_union_mut_fuel fuel tl tr il ir = Ok out.
Proof.
  intros Ha Hb Hf. destruct (u_start ta tb il ir Ha Hb) as [E1 F1].
  assert (GR : Forall PU (rev (u_ni ta tb))) by (apply Forall_rev; exact F1).
  assert (T : exists out, union_mut ta tb = Some out).
  { unfold SetOps.union_mut. apply (run_total _ _ um_expand isz PU); [|exact GR|].
    - intros x Hx. split; [|exact (proj2 (um_expand_sim _ Hx))].
      rewrite (UnionThm.um_expand_snd pfx L R contains is_bit_set plen pzero mcmp).
      apply PU_kids_dec. exact Hx.
    - rewrite MachineThm.msize_rev. unfold SetOps.so_fuel, MachineThm.msize.
      pose proof (UnionThm.isz_ni pfx L R contains plen pzero mcmp ta tb). lia. }
  destruct T as [out T]. exists out. split; [exact T|].
  unfold Arena3.a_union_mut_fuel. rewrite E1. cbn [rbind]. rewrite <- map_rev.
  rewrite (rrun_sim _ _ _ a_um_expand um_expand uix PU um_expand_sim fuel _ GR).
  unfold SetOps.union_mut in T. rewrite (MachineThm.run_fuel_mono _ _ _ _ _ _ _ T); [reflexivity|].
  unfold SetOps.so_fuel. lia.
Qed.

(* ---------------------------------------------------------------------------------------- *)
(** ** intersection.rs *)

Notation iidx := (SetOps.iidx pfx L R).
Notation imitem := (SetOps.imitem pfx L R).
Notation i_ni := (SetOps.i_next_indices pfx L R contains plen pzero mcmp).
Notation i_first_a := (SetOps.i_next_first_a pfx L R contains is_bit_set plen pzero mcmp).
Notation i_first_b := (SetOps.i_next_first_b pfx L R contains is_bit_set plen pzero mcmp).
Notation i_expand := (SetOps.i_expand pfx L R contains is_bit_set plen pzero mcmp).
Notation im_expand := (SetOps.im_expand pfx L R contains is_bit_set plen pzero mcmp).
Notation intersection := (SetOps.intersection pfx L R contains is_bit_set plen pzero mcmp).
Notation intersection_mut := (SetOps.intersection_mut pfx L R contains is_bit_set plen pzero mcmp).
Notation a_i_ni := (Arena3.a_i_next_indices pfx L R contains plen mcmp tl tr).
Notation a_i_first_a := (Arena3.a_i_next_first_a pfx L R contains is_bit_set plen mcmp tl tr).
Notation a_i_first_b := (Arena3.a_i_next_first_b pfx L R contains is_bit_set plen mcmp tl tr).
Notation a_i_expand := (Arena3.a_i_expand pfx L R contains is_bit_set plen mcmp tl tr).
Notation a_im_expand := (Arena3.a_im_expand pfx L R contains is_bit_set plen mcmp tl tr).
Notation a_intersection_fuel := (Arena3.a_intersection_fuel pfx L R contains is_bit_set plen mcmp).
Notation a_intersection_mut_fuel := (Arena3.a_intersection_mut_fuel pfx L R contains is_bit_set plen mcmp).
#[local] Arguments IxBoth {pfx L R}.
#[local] Arguments IxFirstA {pfx L R}.
#[local] Arguments IxFirstB {pfx L R}.

Definition iix (x : iidx) : aiidx :=
  match x with
  | IxBoth l r => AIBoth (tid l) (tid r)
  | IxFirstA l r => AIFirstA (tid l) (tid r)
  | IxFirstB l r => AIFirstB (tid l) (tid r)
  end.
Definition PI (x : iidx) : Prop :=
  match x with IxBoth l r | IxFirstA l r | IxFirstB l r => nrepL l /\ nrepR r end.
Definition iszI (x : iidx) : nat :=
  match x with IxBoth l r | IxFirstA l r | IxFirstB l r => (tsize l + tsize r)%nat end.

Lemma i_ni_sim (a : treeL) (b : treeR) : repL (linkL a) a -> repR (linkR b) b ->
  a_i_ni (linkL a) (linkR b) = Ok (map iix (i_ni a b)) /\ Forall PI (i_ni a b).
Proof.
  intros Ha Hb. unfold Arena3.a_i_next_indices, SetOps.i_next_indices.
  destruct a as [|ia pa va la ra], b as [|ib pb vb lb rb]; cbn [ArenaThm.link is_node];
    try (split; [reflexivity|constructor]).
  destruct (nfacts _ _ _ _ _ _ _ _ _ Ha) as (Hrda & _). destruct (nfacts _ _ _ _ _ _ _ _ _ Hb) as (Hrdb & _).
  rewrite Hrda, Hrdb. cbn [rbind npfx Trie.tpfx].
  assert (NA : nrepL (Node ia pa va la ra)) by (split; [reflexivity|exact Ha]).
  assert (NB : nrepR (Node ib pb vb lb rb)) by (split; [reflexivity|exact Hb]).
  destruct (plen pa =? plen pb)%N; [destruct (mcmp pa pb)|
    destruct (contains pa pb); [|destruct (contains pb pa)]];
    (split; [reflexivity|]); repeat (constructor; cbn [PI]; auto).
Qed.

Lemma i_ni_size (a : treeL) (b : treeR) : (list_sum (map iszI (i_ni a b)) <= tsize a + tsize b)%nat.
Proof.
  unfold SetOps.i_next_indices. destruct (is_node a), (is_node b); try (cbn; lia).
  destruct (plen _ =? plen _)%N; [destruct (mcmp _ _)|
    destruct (contains _ _); [|destruct (contains _ _)]]; cbn [map list_sum fold_right iszI]; lia.
Qed.

Lemma i_first_a_sim (l : treeL) (r : treeR) : nrepL l -> nrepR r ->
  a_i_first_a (tid l) (linkL (tleft l)) (linkL (tright l)) (tid r) = Ok (map iix (i_first_a l r)) /\
  Forall PI (i_first_a l r).
Proof.
  intros Hl Hr. nd Hl il pl vl ll lr Hrdl Rll Rlr. nd Hr ir pr vr rl rr Hrdr Rrl Rrr.
  unfold Arena3.a_i_next_first_a, SetOps.i_next_first_a. cbn [tid tleft tright Trie.tpfx].
  destruct ll as [|lli llp llv lll llr], lr as [|lri lrp lrv lrl lrr]; cbn [ArenaThm.link is_node].
  - split; [reflexivity|constructor].
  - exact (i_ni_sim (Node lri lrp lrv lrl lrr) (Node ir pr vr rl rr) Rlr Hr).
  - exact (i_ni_sim (Node lli llp llv lll llr) (Node ir pr vr rl rr) Rll Hr).
  - rewrite Hrdl, Hrdr. cbn [rbind npfx]. destruct (to_right pl pr).
    + exact (i_ni_sim (Node lri lrp lrv lrl lrr) (Node ir pr vr rl rr) Rlr Hr).
    + exact (i_ni_sim (Node lli llp llv lll llr) (Node ir pr vr rl rr) Rll Hr).
Qed.

Lemma i_first_b_sim (l : treeL) (r : treeR) : nrepL l -> nrepR r ->
  a_i_first_b (tid l) (tid r) (linkR (tleft r)) (linkR (tright r)) = Ok (map iix (i_first_b l r)) /\
  Forall PI (i_first_b l r).
Proof.
  intros Hl Hr. nd Hl il pl vl ll lr Hrdl Rll Rlr. nd Hr ir pr vr rl rr Hrdr Rrl Rrr.
  unfold Arena3.a_i_next_first_b, SetOps.i_next_first_b. cbn [tid tleft tright Trie.tpfx].
  destruct rl as [|rli rlp rlv rll rlr], rr as [|rri rrp rrv rrl rrr]; cbn [ArenaThm.link is_node].
  - split; [reflexivity|constructor].
  - exact (i_ni_sim (Node il pl vl ll lr) (Node rri rrp rrv rrl rrr) Hl Rrr).
  - exact (i_ni_sim (Node il pl vl ll lr) (Node rli rlp rlv rll rlr) Hl Rrl).
  - rewrite Hrdl, Hrdr. cbn [rbind npfx]. destruct (to_right pr pl).
    + exact (i_ni_sim (Node il pl vl ll lr) (Node rri rrp rrv rrl rrr) Hl Rrr).
    + exact (i_ni_sim (Node il pl vl ll lr) (Node rli rlp rlv rll rlr) Hl Rrl).
Qed.

Lemma i_first_a_size (l : treeL) (r : treeR) :
  (list_sum (map iszI (i_first_a l r)) <= tsize (tleft l) + tsize (tright l) + tsize r)%nat.
Proof.
  unfold SetOps.i_next_first_a. pose proof (i_ni_size (tleft l) r). pose proof (i_ni_size (tright l) r).
  destruct (is_node (tleft l)), (is_node (tright l)); try destruct (to_right _ _); cbn [map list_sum fold_right]; lia.
Qed.
Lemma i_first_b_size (l : treeL) (r : treeR) :
  (list_sum (map iszI (i_first_b l r)) <= tsize l + tsize (tleft r) + tsize (tright r))%nat.
Proof.
  unfold SetOps.i_next_first_b. pose proof (i_ni_size l (tleft r)). pose proof (i_ni_size l (tright r)).
  destruct (is_node (tleft r)), (is_node (tright r)); try destruct (to_right _ _); cbn [map list_sum fold_right]; lia.
Qed.

Lemma i_expand_sim x : PI x ->
  a_i_expand (iix x) = Ok (fst (i_expand x), map iix (snd (i_expand x))) /\ Forall PI (snd (i_expand x)).
Proof.
  intros Hx. destruct x as [l r|l r|l r]; cbn [PI] in Hx; destruct Hx as [Hl Hr];
    cbn [iix Arena3.a_i_expand SetOps.i_expand fst snd].
  - nd Hl il pl vl ll lr Hrdl Rll Rlr. nd Hr ir pr vr rl rr Hrdr Rrl Rrr.
    cbn [tid tleft tright tval Trie.tpfx]. rewrite Hrdl, Hrdr. cbn [rbind nleft nright].
    destruct (i_ni_sim lr rr Rlr Rrr) as [E1 F1]. rewrite E1. cbn [rbind].
    destruct (i_ni_sim ll rl Rll Rrl) as [E2 F2]. rewrite E2. cbn [rbind nval npfx].
    rewrite map_app. split; [reflexivity|]. apply Forall_app. auto.
  - pose proof Hl as NL. nd Hl il pl vl ll lr Hrdl Rll Rlr.
    destruct (i_first_a_sim _ r NL Hr) as [E1 F1].
    cbn [tid tleft tright] in *. rewrite Hrdl. cbn [rbind nleft nright]. rewrite E1. cbn [rbind]. auto.
  - pose proof Hr as NR. nd Hr ir pr vr rl rr Hrdr Rrl Rrr.
    destruct (i_first_b_sim l _ Hl NR) as [E1 F1].
    cbn [tid tleft tright] in *. rewrite Hrdr. cbn [rbind nleft nright]. rewrite E1. cbn [rbind]. auto.
Qed.

Lemma im_expand_sim x : PI x ->
  a_im_expand (iix x) = Ok (fst (im_expand x), map iix (snd (im_expand x))) /\ Forall PI (snd (im_expand x)).
Proof.
  intros Hx. destruct x as [l r|l r|l r]; cbn [PI] in Hx; destruct Hx as [Hl Hr];
    cbn [iix Arena3.a_im_expand SetOps.im_expand fst snd].
  - nd Hl il pl vl ll lr Hrdl Rll Rlr. nd Hr ir pr vr rl rr Hrdr Rrl Rrr.
    cbn [tid tleft tright tval Trie.tpfx]. rewrite Hrdl, Hrdr. cbn [rbind nleft nright].
    destruct (i_ni_sim lr rr Rlr Rrr) as [E1 F1]. rewrite E1. cbn [rbind].
    destruct (i_ni_sim ll rl Rll Rrl) as [E2 F2]. rewrite E2. cbn [rbind nval npfx].
    rewrite (aidval_idvalL il pl vl ll lr), (aidval_idvalR ir pr vr rl rr).
    rewrite map_app. split; [reflexivity|]. apply Forall_app. auto.
  - pose proof Hl as NL. nd Hl il pl vl ll lr Hrdl Rll Rlr.
    destruct (i_first_a_sim _ r NL Hr) as [E1 F1].
    cbn [tid tleft tright] in *. rewrite Hrdl. cbn [rbind nleft nright]. rewrite E1. cbn [rbind]. auto.
  - pose proof Hr as NR. nd Hr ir pr vr rl rr Hrdr Rrl Rrr.
    destruct (i_first_b_sim l _ Hl NR) as [E1 F1].
    cbn [tid tleft tright] in *. rewrite Hrdr. cbn [rbind nleft nright]. rewrite E1. cbn [rbind]. auto.
Qed.

Lemma i_dec x : PI x -> (list_sum (map iszI (snd (i_expand x))) < iszI x)%nat.
Proof.
  intros Hx. destruct x as [l r|l r|l r]; cbn [PI] in Hx; destruct Hx as [[Nl _] [Nr _]];
    cbn [SetOps.i_expand snd iszI].
  - rewrite (tsize_node' _ _ l Nl), (tsize_node' _ _ r Nr). rewrite map_app, list_sum_app.
    pose proof (i_ni_size (tright l) (tright r)). pose proof (i_ni_size (tleft l) (tleft r)). lia.
  - rewrite (tsize_node' _ _ l Nl). pose proof (i_first_a_size l r). lia.
  - rewrite (tsize_node' _ _ r Nr). pose proof (i_first_b_size l r). lia.
Qed.
Lemma im_snd x : snd (im_expand x) = snd (i_expand x).
Proof. destruct x; reflexivity. Qed.

Lemma i_start (ta : treeL) (tb : treeR) il ir : repL (Some il) ta -> repR (Some ir) tb ->
  a_i_ni (Some il) (Some ir) = Ok (map iix (i_ni ta tb)) /\ Forall PI (i_ni ta tb).
Proof.
  intros Ha Hb. destruct (nrep_of_rep _ _ _ _ _ Ha) as [[_ Ra] <-]. destruct (nrep_of_rep _ _ _ _ _ Hb) as [[_ Rb] <-].
  destruct (ArenaThm.rep_some_inv pfx L _ _ _ Ha) as (p1 & v1 & l1 & r1 & E1).
  destruct (ArenaThm.rep_some_inv pfx R _ _ _ Hb) as (p2 & v2 & l2 & r2 & E2).
  pose proof (i_ni_sim ta tb Ra Rb) as K. rewrite E1, E2 in K |- *. exact K.
Qed.

Theorem intersection_sim (ta : treeL) (tb : treeR) il ir fuel :
  repL (Some il) ta -> repR (Some ir) tb -> (tsize ta + tsize tb < fuel)%nat ->
  exists out, intersection ta tb = Some out /\ a_intersection_fuel fuel tl tr il ir = Ok out.
Proof.
  intros Ha Hb Hf. destruct (i_start ta tb il ir Ha Hb) as [E1 F1].
  assert (GR : Forall PI (rev (i_ni ta tb))) by (apply Forall_rev; exact F1).
  assert (T : exists out, intersection ta tb = Some out).
  { unfold SetOps.intersection. apply (run_total _ _ i_expand iszI PI); [|exact GR|].
    - intros x Hx. split; [exact (i_dec x Hx)|exact (proj2 (i_expand_sim _ Hx))].
    - rewrite MachineThm.msize_rev. unfold SetOps.so_fuel, MachineThm.msize. pose proof (i_ni_size ta tb). lia. }
  destruct T as [out T]. exists out. split; [exact T|].
  unfold Arena3.a_intersection_fuel. rewrite E1. cbn [rbind]. rewrite <- map_rev.
  rewrite (rrun_sim _ _ _ a_i_expand i_expand iix PI i_expand_sim fuel _ GR).
  unfold SetOps.intersection in T. rewrite (MachineThm.run_fuel_mono _ _ _ _ _ _ _ T); [reflexivity|].
  unfold SetOps.so_fuel. lia.
Qed.

Theorem intersection_mut_sim (ta : treeL) (tb : treeR) il ir fuel :
  repL (Some il) ta -> repR (Some ir) tb -> (tsize ta + tsize tb < fuel)%nat ->
  exists out, intersection_mut ta tb = Some out /\ a_intersection_mut_fuel fuel tl tr il ir = Ok out.
Proof.
  intros Ha Hb Hf. destruct (i_start ta tb il ir Ha Hb) as [E1 F1].
  assert (GR : Forall PI (rev (i_ni ta tb))) by (apply Forall_rev; exact F1).
  assert (T : exists out, intersection_mut ta tb = Some out).
  { unfold SetOps.intersection_mut. apply (run_total _ _ im_expand iszI PI); [|exact GR|].
    - intros x Hx. split; [rewrite im_snd; exact (i_dec x Hx)|exact (proj2 (im_expand_sim _ Hx))].
    - rewrite MachineThm.msize_rev. unfold SetOps.so_fuel, MachineThm.msize. pose proof (i_ni_size ta tb). lia. }
  destruct T as [out T]. exists out. split; [exact T|].
  unfold Arena3.a_intersection_mut_fuel. rewrite E1. cbn [rbind]. rewrite <- map_rev.
  rewrite (rrun_sim _ _ _ a_im_expand im_expand iix PI im_expand_sim fuel _ GR).
  unfold SetOps.intersection_mut in T. rewrite (MachineThm.run_fuel_mono _ _ _ _ _ _ _ T); [reflexivity|].
  unfold SetOps.so_fuel. lia.
Qed.

(* ---------------------------------------------------------------------------------------- *)
(** ** difference.rs *)

Notation didx := (SetOps.didx pfx L R).
Notation ditem := (SetOps.ditem pfx L R).
Notation dmitem := (SetOps.dmitem pfx L R).
Notation d_ni := (SetOps.d_next_indices pfx L R contains plen pzero mcmp).
Notation d_first_a := (SetOps.d_next_first_a pfx L R contains is_bit_set plen pzero mcmp).
Notation d_first_b := (SetOps.d_next_first_b pfx L R contains is_bit_set plen pzero mcmp).
Notation d_only_l := (SetOps.d_only_l pfx L R).
Notation d_ext := (SetOps.d_extend_lpm pfx L R).
Notation d_expand := (SetOps.d_expand pfx L R contains is_bit_set plen pzero mcmp).
Notation dm_expand := (SetOps.dm_expand pfx L R contains is_bit_set plen pzero mcmp).
Notation cd_expand := (SetOps.cd_expand pfx L R contains is_bit_set plen pzero mcmp).
Notation cdm_expand := (SetOps.cdm_expand pfx L R contains is_bit_set plen pzero mcmp).
Notation difference := (SetOps.difference pfx L R contains is_bit_set plen pzero mcmp).
Notation difference_mut := (SetOps.difference_mut pfx L R contains is_bit_set plen pzero mcmp).
Notation covering_difference := (SetOps.covering_difference pfx L R contains is_bit_set plen pzero mcmp).
Notation covering_difference_mut := (SetOps.covering_difference_mut pfx L R contains is_bit_set plen pzero mcmp).
Notation a_d_ni := (Arena3.a_d_next_indices pfx L R contains plen mcmp tl tr).
Notation a_d_first_a := (Arena3.a_d_next_first_a pfx L R contains is_bit_set plen mcmp tl tr).
Notation a_d_first_b := (Arena3.a_d_next_first_b pfx L R contains is_bit_set plen mcmp tl tr).
Notation a_d_ext := (Arena3.a_d_extend_lpm pfx R tr).
Notation a_d_only_l := (Arena3.a_d_only_l pfx L).
Notation a_d_expand := (Arena3.a_d_expand pfx L R contains is_bit_set plen mcmp tl tr).
Notation a_dm_expand := (Arena3.a_dm_expand pfx L R contains is_bit_set plen mcmp tl tr).
Notation a_cd_expand := (Arena3.a_cd_expand pfx L R contains is_bit_set plen mcmp tl tr).
Notation a_cdm_expand := (Arena3.a_cdm_expand pfx L R contains is_bit_set plen mcmp tl tr).
Notation a_difference_fuel := (Arena3.a_difference_fuel pfx L R contains is_bit_set plen mcmp).
Notation a_difference_mut_fuel := (Arena3.a_difference_mut_fuel pfx L R contains is_bit_set plen mcmp).
Notation a_covering_difference_fuel := (Arena3.a_covering_difference_fuel pfx L R contains is_bit_set plen mcmp).
Notation a_covering_difference_mut_fuel := (Arena3.a_covering_difference_mut_fuel pfx L R contains is_bit_set plen mcmp).
#[local] Arguments DBoth {pfx L R}.
#[local] Arguments DFirstL {pfx L R}.
#[local] Arguments DFirstR {pfx L R}.
#[local] Arguments DOnlyL {pfx L R}.

Definition dix (x : didx) : adidx :=
  match x with
  | DBoth l r => ADBoth (tid l) (tid r)
  | DFirstL l r => ADFirstL (tid l) (tid r)
  | DFirstR l r => ADFirstR (tid l) (tid r)
  | DOnlyL l => ADOnlyL (tid l)
  end.
Definition dent (e : didx * lpmR) : adidx * lpmR := (dix (fst e), snd e).
Definition PD (x : didx) : Prop :=
  match x with
  | DBoth l r | DFirstL l r | DFirstR l r => nrepL l /\ nrepR r
  | DOnlyL l => nrepL l
  end.
Definition PDE (e : didx * lpmR) : Prop := PD (fst e).
Definition iszD (x : didx) : nat :=
  match x with
  | DBoth l r | DFirstL l r | DFirstR l r => (tsize l + tsize r)%nat
  | DOnlyL l => tsize l
  end.
Definition eszD (e : didx * lpmR) : nat := iszD (fst e).
(** the entries pushed by one iteration, before the inherited match is attached *)
Definition dkids (x : didx) : list didx :=
  match x with
  | DBoth l r => d_ni (tright l) (tright r) ++ d_ni (tleft l) (tleft r)
  | DFirstL l r => d_first_a l r
  | DFirstR l r => d_first_b l r
  | DOnlyL l => d_only_l l
  end.

Lemma d_ni_sim (a : treeL) (b : treeR) : repL (linkL a) a -> repR (linkR b) b ->
  a_d_ni (linkL a) (linkR b) = Ok (map dix (d_ni a b)) /\ Forall PD (d_ni a b).
Proof.
  intros Ha Hb. unfold Arena3.a_d_next_indices, SetOps.d_next_indices.
  destruct a as [|ia pa va la ra], b as [|ib pb vb lb rb]; cbn [ArenaThm.link is_node];
    try solve [split; [reflexivity|constructor]].
  - split; [reflexivity|]. repeat constructor. exact Ha.
  - destruct (nfacts _ _ _ _ _ _ _ _ _ Ha) as (Hrda & _). destruct (nfacts _ _ _ _ _ _ _ _ _ Hb) as (Hrdb & _).
    rewrite Hrda, Hrdb. cbn [rbind npfx Trie.tpfx].
    assert (NA : nrepL (Node ia pa va la ra)) by (split; [reflexivity|exact Ha]).
    assert (NB : nrepR (Node ib pb vb lb rb)) by (split; [reflexivity|exact Hb]).
    destruct (plen pa =? plen pb)%N; [destruct (mcmp pa pb)|
      destruct (contains pa pb); [|destruct (contains pb pa)]];
      (split; [reflexivity|]); repeat (constructor; cbn [PD]; auto).
Qed.

Lemma d_ni_size (a : treeL) (b : treeR) : (list_sum (map iszD (d_ni a b)) <= tsize a + tsize b)%nat.
Proof.
  unfold SetOps.d_next_indices. destruct (is_node a); [|cbn; lia]. destruct (is_node b).
  - destruct (plen _ =? plen _)%N; [destruct (mcmp _ _)|
      destruct (contains _ _); [|destruct (contains _ _)]]; cbn [map list_sum fold_right iszD]; lia.
  - cbn [map list_sum fold_right iszD]. lia.
Qed.

Lemma d_first_a_sim (l : treeL) (r : treeR) : nrepL l -> nrepR r ->
  a_d_first_a (tid l) (linkL (tleft l)) (linkL (tright l)) (tid r) = Ok (map dix (d_first_a l r)) /\
  Forall PD (d_first_a l r).
Proof.
  intros Hl Hr. nd Hl il pl vl ll lr Hrdl Rll Rlr. nd Hr ir pr vr rl rr Hrdr Rrl Rrr.
  unfold Arena3.a_d_next_first_a, SetOps.d_next_first_a. cbn [tid tleft tright Trie.tpfx].
  destruct ll as [|lli llp llv lll llr], lr as [|lri lrp lrv lrl lrr]; cbn [ArenaThm.link is_node].
  - split; [reflexivity|constructor].
  - exact (d_ni_sim (Node lri lrp lrv lrl lrr) (Node ir pr vr rl rr) Rlr Hr).
  - exact (d_ni_sim (Node lli llp llv lll llr) (Node ir pr vr rl rr) Rll Hr).
  - rewrite Hrdl, Hrdr. cbn [rbind npfx]. destruct (to_right pl pr).
    + destruct (d_ni_sim (Node lri lrp lrv lrl lrr) (Node ir pr vr rl rr) Rlr Hr) as [E Fa].
      cbn [ArenaThm.link] in E. rewrite E. cbn [rbind]. rewrite map_app. split; [reflexivity|].
      apply Forall_app. split; [exact Fa|]. repeat constructor; cbn [PD]; auto.
    + destruct (d_ni_sim (Node lli llp llv lll llr) (Node ir pr vr rl rr) Rll Hr) as [E Fa].
      cbn [ArenaThm.link] in E. rewrite E. cbn [rbind]. split; [reflexivity|].
      constructor; [|exact Fa]. split; [reflexivity|exact Rlr].
Qed.

Lemma d_first_b_sim (l : treeL) (r : treeR) : nrepL l -> nrepR r ->
  a_d_first_b (tid l) (tid r) (linkR (tleft r)) (linkR (tright r)) = Ok (map dix (d_first_b l r)) /\
  Forall PD (d_first_b l r).
Proof.
  intros Hl Hr. pose proof Hl as NL. nd Hl il pl vl ll lr Hrdl Rll Rlr. nd Hr ir pr vr rl rr Hrdr Rrl Rrr.
  unfold Arena3.a_d_next_first_b, SetOps.d_next_first_b. cbn [tid tleft tright Trie.tpfx].
  destruct rl as [|rli rlp rlv rll rlr], rr as [|rri rrp rrv rrl rrr]; cbn [ArenaThm.link is_node].
  - split; [reflexivity|]. repeat constructor; cbn [PD]; auto.
  - exact (d_ni_sim (Node il pl vl ll lr) (Node rri rrp rrv rrl rrr) Hl Rrr).
  - exact (d_ni_sim (Node il pl vl ll lr) (Node rli rlp rlv rll rlr) Hl Rrl).
  - rewrite Hrdl, Hrdr. cbn [rbind npfx]. destruct (to_right pr pl).
    + exact (d_ni_sim (Node il pl vl ll lr) (Node rri rrp rrv rrl rrr) Hl Rrr).
    + exact (d_ni_sim (Node il pl vl ll lr) (Node rli rlp rlv rll rlr) Hl Rrl).
Qed.

Lemma d_only_sim i p v (ll lr : treeL) : repL (linkL ll) ll -> repL (linkL lr) lr ->
  a_d_only_l (mkanode p v (linkL ll) (linkL lr)) = map dix (d_only_l (Node i p v ll lr)) /\
  Forall PD (d_only_l (Node i p v ll lr)).
Proof.
  intros Rll Rlr. unfold Arena3.a_d_only_l, SetOps.d_only_l. cbn [nleft nright tleft tright].
  destruct lr as [|lri lrp lrv lrl lrr], ll as [|lli llp llv lll llr]; cbn [ArenaThm.link is_node app map dix tid];
    (split; [reflexivity|]); repeat constructor; auto.
Qed.

Lemma d_first_a_size (l : treeL) (r : treeR) :
  (list_sum (map iszD (d_first_a l r)) <= tsize (tleft l) + tsize (tright l) + tsize r)%nat.
Proof.
  unfold SetOps.d_next_first_a. pose proof (d_ni_size (tleft l) r). pose proof (d_ni_size (tright l) r).
  destruct (is_node (tleft l)), (is_node (tright l)); try destruct (to_right _ _);
    rewrite ?map_app, ?list_sum_app; cbn [map app iszD]; rewrite ?ls_cons', ?ls_nil'; lia.
Qed.
Lemma d_first_b_size (l : treeL) (r : treeR) :
  (list_sum (map iszD (d_first_b l r)) <= tsize l + tsize (tleft r) + tsize (tright r))%nat.
Proof.
  unfold SetOps.d_next_first_b. pose proof (d_ni_size l (tleft r)). pose proof (d_ni_size l (tright r)).
  destruct (is_node (tleft r)), (is_node (tright r)); try destruct (to_right _ _);
    rewrite ?map_app, ?list_sum_app; cbn [map app iszD]; rewrite ?ls_cons', ?ls_nil'; lia.
Qed.
Lemma d_only_size (l : treeL) : (list_sum (map iszD (d_only_l l)) <= tsize (tleft l) + tsize (tright l))%nat.
Proof.
  unfold SetOps.d_only_l. destruct (is_node (tright l)), (is_node (tleft l));
    rewrite ?map_app, ?list_sum_app; cbn [map app iszD]; rewrite ?ls_cons', ?ls_nil'; lia.
Qed.

Lemma d_kids_dec x : PD x -> (list_sum (map iszD (dkids x)) < iszD x)%nat.
Proof.
  intros Hx. destruct x as [l r|l r|l r|l]; cbn [PD] in Hx; cbn [dkids iszD].
  - destruct Hx as [[Nl _] [Nr _]]. rewrite (tsize_node' _ _ l Nl), (tsize_node' _ _ r Nr).
    rewrite map_app, list_sum_app.
    pose proof (d_ni_size (tright l) (tright r)). pose proof (d_ni_size (tleft l) (tleft r)). lia.
  - destruct Hx as [[Nl _] _]. rewrite (tsize_node' _ _ l Nl). pose proof (d_first_a_size l r). lia.
  - destruct Hx as [_ [Nr _]]. rewrite (tsize_node' _ _ r Nr). pose proof (d_first_b_size l r). lia.
  - destruct Hx as [Nl _]. rewrite (tsize_node' _ _ l Nl). pose proof (d_only_size l). lia.
Qed.

(** the children of an entry, in both tables: one lemma for the four [expand]s *)
Lemma d_kids_sim x : PD x ->
  match x with
  | DBoth l r =>
    exists x1 x2, a_d_ni (linkL (tright l)) (linkR (tright r)) = Ok x1 /\
                  a_d_ni (linkL (tleft l)) (linkR (tleft r)) = Ok x2 /\ x1 ++ x2 = map dix (dkids x)
  | DFirstL l r => a_d_first_a (tid l) (linkL (tleft l)) (linkL (tright l)) (tid r) = Ok (map dix (dkids x))
  | DFirstR l r => a_d_first_b (tid l) (tid r) (linkR (tleft r)) (linkR (tright r)) = Ok (map dix (dkids x))
  | DOnlyL l => True
  end /\ Forall PD (dkids x).
Proof.
  intros Hx. destruct x as [l r|l r|l r|l]; cbn [PD] in Hx; cbn [dkids].
  - destruct Hx as [Hl Hr]. nd Hl il pl vl ll lr Hrdl Rll Rlr. nd Hr ir pr vr rl rr Hrdr Rrl Rrr.
    cbn [tleft tright]. destruct (d_ni_sim lr rr Rlr Rrr) as [E1 F1]. destruct (d_ni_sim ll rl Rll Rrl) as [E2 F2].
    split; [|apply Forall_app; auto]. eexists _, _. split; [exact E1|]. split; [exact E2|]. symmetry. apply map_app.
  - destruct Hx as [Hl Hr]. exact (d_first_a_sim l r Hl Hr).
  - destruct Hx as [Hl Hr]. exact (d_first_b_sim l r Hl Hr).
  - nd Hx il pl vl ll lr Hrdl Rll Rlr. split; [exact Logic.I|]. exact (proj2 (d_only_sim il pl vl ll lr Rll Rlr)).
Qed.

Lemma d_ext_sim ra xs : Forall PD xs ->
  a_d_ext ra (map dix xs) = Ok (map dent (d_ext ra xs)) /\ Forall PDE (d_ext ra xs).
Proof.
  unfold Arena3.a_d_extend_lpm.
  induction 1 as [|x xs Hx F IH]; [split; [reflexivity|constructor]|].
  destruct IH as [E G]. cbn [map rmap SetOps.d_extend_lpm]. fold (d_ext ra xs).
  assert (X : Arena3.a_d_ext1 pfx R tr ra (dix x)
              = Ok (dent (match x with
                          | DBoth _ r | DFirstR _ r => (x, orelse (pv r) ra)
                          | DFirstL _ _ | DOnlyL _ => (x, ra)
                          end))).
  { destruct x as [l r|l r|l r|l]; cbn [PD] in Hx; cbn [dix Arena3.a_d_ext1]; try reflexivity.
    - destruct Hx as [Hl Hr]. nd Hr ir pr vr rl rr Hrdr Rrl Rrr.
      cbn [tid]. rewrite Hrdr. cbn [rbind]. rewrite (pv_anodeR ir _ _ rl rr). reflexivity.
    - destruct Hx as [Hl Hr]. nd Hr ir pr vr rl rr Hrdr Rrl Rrr.
      cbn [tid]. rewrite Hrdr. cbn [rbind]. rewrite (pv_anodeR ir _ _ rl rr). reflexivity. }
  rewrite X. cbn [rbind]. fold (rmap (Arena3.a_d_ext1 pfx R tr ra) (map dix xs)). rewrite E. cbn [rbind].
  split; [reflexivity|]. constructor; [|exact G]. destruct x; exact Hx.
Qed.

Lemma d_ext_size ra xs : MachineThm.msize _ eszD (d_ext ra xs) = list_sum (map iszD xs).
Proof.
  unfold MachineThm.msize, SetOps.d_extend_lpm. rewrite map_map. f_equal. apply map_ext. intros x. destruct x; reflexivity.
Qed.

Lemma d_expand_snd x ra : snd (d_expand (x, ra)) = d_ext ra (dkids x).
Proof.
  destruct x; cbn [SetOps.d_expand snd dkids]; try reflexivity. unfold SetOps.d_extend_lpm. rewrite map_app. reflexivity.
Qed.
Lemma dm_expand_snd x ra : snd (dm_expand (x, ra)) = d_ext ra (dkids x).
Proof.
  destruct x; cbn [SetOps.dm_expand snd dkids]; try reflexivity. unfold SetOps.d_extend_lpm. rewrite map_app. reflexivity.
Qed.

(** the parts of [d_expand] / [dm_expand] that differ are the emitted items only *)
Lemma d_expand_gen (e : didx * lpmR) : PDE e ->
  a_d_expand (dent e) = Ok (fst (d_expand e), map dent (snd (d_expand e))) /\
  a_dm_expand (dent e) = Ok (fst (dm_expand e), map dent (snd (dm_expand e))) /\
  Forall PDE (snd (d_expand e)).
Proof.
  destruct e as [x ra]. unfold PDE, dent. cbn [fst snd]. intros Hx.
  rewrite d_expand_snd, dm_expand_snd.
  destruct (d_kids_sim x Hx) as [K FK]. destruct (d_ext_sim ra _ FK) as [EX GX]. split; [|split; [|exact GX]].
  - destruct x as [l r|l r|l r|l]; cbn [PD] in Hx; cbn [dix Arena3.a_d_expand SetOps.d_expand fst].
    + destruct Hx as [Hl Hr]. nd Hl il pl vl ll lr Hrdl Rll Rlr. nd Hr ir pr vr rl rr Hrdr Rrl Rrr.
      destruct K as (x1 & x2 & E1 & E2 & E12).
      cbn [tid tleft tright tval Trie.tpfx] in *. rewrite Hrdl, Hrdr. cbn [rbind nleft nright nval npfx].
      rewrite E1. cbn [rbind]. rewrite <- E12 in EX. unfold Arena3.a_d_extend_lpm in *.
      assert (S1 : exists e1 e2, rmap (Arena3.a_d_ext1 pfx R tr ra) x1 = Ok e1 /\
                   rmap (Arena3.a_d_ext1 pfx R tr ra) x2 = Ok e2 /\ e1 ++ e2 = map dent (d_ext ra (dkids (DBoth (Node il pl vl ll lr) (Node ir pr vr rl rr))))).
      { clear - EX. revert EX. generalize (map dent (d_ext ra (dkids (DBoth (Node il pl vl ll lr) (Node ir pr vr rl rr))))).
        induction x1 as [|y x1 IH]; intros out EX; cbn [app rmap] in *.
        - eexists _, _. split; [reflexivity|]. split; [exact EX|reflexivity].
        - destruct (Arena3.a_d_ext1 pfx R tr ra y) as [y'| |]; cbn [rbind] in *; try discriminate.
          destruct (rmap (Arena3.a_d_ext1 pfx R tr ra) (x1 ++ x2)) as [ys| |] eqn:EY; cbn [rbind] in *; try discriminate.
          injection EX as <-. destruct (IH ys eq_refl) as (e1 & e2 & A1 & A2 & A3).
          rewrite A1. cbn [rbind]. eexists _, _. split; [reflexivity|]. split; [exact A2|]. cbn [app]. f_equal. exact A3. }
      destruct S1 as (e1 & e2 & A1 & A2 & A3). rewrite A1. cbn [rbind]. rewrite E2. cbn [rbind]. rewrite A2. cbn [rbind].
      rewrite A3. reflexivity.
    + destruct Hx as [Hl Hr]. nd Hl il pl vl ll lr Hrdl Rll Rlr.
      cbn [tid tleft tright tval Trie.tpfx] in *. rewrite Hrdl. cbn [rbind nleft nright nval npfx].
      rewrite K. cbn [rbind]. rewrite EX. reflexivity.
    + destruct Hx as [Hl Hr]. nd Hr ir pr vr rl rr Hrdr Rrl Rrr.
      cbn [tid tleft tright tval Trie.tpfx] in *. rewrite Hrdr. cbn [rbind nleft nright nval npfx].
      rewrite K. cbn [rbind]. rewrite EX. reflexivity.
    + nd Hx il pl vl ll lr Hrdl Rll Rlr. cbn [tid tval Trie.tpfx] in *. rewrite Hrdl. cbn [rbind nval npfx].
      rewrite (proj1 (d_only_sim il pl vl ll lr Rll Rlr)). cbn [dkids] in EX. rewrite EX. reflexivity.
  - destruct x as [l r|l r|l r|l]; cbn [PD] in Hx; cbn [dix Arena3.a_dm_expand SetOps.dm_expand fst].
    + destruct Hx as [Hl Hr]. nd Hl il pl vl ll lr Hrdl Rll Rlr. nd Hr ir pr vr rl rr Hrdr Rrl Rrr.
      destruct K as (x1 & x2 & E1 & E2 & E12).
      cbn [tid tleft tright tval Trie.tpfx] in *. rewrite Hrdl, Hrdr. cbn [rbind nleft nright nval npfx].
      rewrite E1. cbn [rbind]. rewrite <- E12 in EX. unfold Arena3.a_d_extend_lpm in *.
      assert (S1 : exists e1 e2, rmap (Arena3.a_d_ext1 pfx R tr ra) x1 = Ok e1 /\
                   rmap (Arena3.a_d_ext1 pfx R tr ra) x2 = Ok e2 /\ e1 ++ e2 = map dent (d_ext ra (dkids (DBoth (Node il pl vl ll lr) (Node ir pr vr rl rr))))).
      { clear - EX. revert EX. generalize (map dent (d_ext ra (dkids (DBoth (Node il pl vl ll lr) (Node ir pr vr rl rr))))).
        induction x1 as [|y x1 IH]; intros out EX; cbn [app rmap] in *.
        - eexists _, _. split; [reflexivity|]. split; [exact EX|reflexivity].
        - destruct (Arena3.a_d_ext1 pfx R tr ra y) as [y'| |]; cbn [rbind] in *; try discriminate.
          destruct (rmap (Arena3.a_d_ext1 pfx R tr ra) (x1 ++ x2)) as [ys| |] eqn:EY; cbn [rbind] in *; try discriminate.
          injection EX as <-. destruct (IH ys eq_refl) as (e1 & e2 & A1 & A2 & A3).
          rewrite A1. cbn [rbind]. eexists _, _. split; [reflexivity|]. split; [exact A2|]. cbn [app]. f_equal. exact A3. }
      destruct S1 as (e1 & e2 & A1 & A2 & A3). rewrite A1. cbn [rbind]. rewrite E2. cbn [rbind]. rewrite A2. cbn [rbind].
      rewrite (aidval_idvalL il pl vl ll lr). rewrite A3. reflexivity.
    + destruct Hx as [Hl Hr]. nd Hl il pl vl ll lr Hrdl Rll Rlr.
      cbn [tid tleft tright tval Trie.tpfx] in *. rewrite Hrdl. cbn [rbind nleft nright nval npfx].
      rewrite K. cbn [rbind]. rewrite EX. cbn [rbind]. rewrite (aidval_idvalL il pl vl ll lr). reflexivity.
    + destruct Hx as [Hl Hr]. nd Hr ir pr vr rl rr Hrdr Rrl Rrr.
      cbn [tid tleft tright tval Trie.tpfx] in *. rewrite Hrdr. cbn [rbind nleft nright nval npfx].
      rewrite K. cbn [rbind]. rewrite EX. reflexivity.
    + nd Hx il pl vl ll lr Hrdl Rll Rlr. cbn [tid tval Trie.tpfx] in *. rewrite Hrdl. cbn [rbind nval npfx].
      rewrite (proj1 (d_only_sim il pl vl ll lr Rll Rlr)). cbn [dkids] in EX. rewrite EX. cbn [rbind].
      rewrite (aidval_idvalL il pl vl ll lr). reflexivity.
Qed.

Lemma cd_expand_gen x : PD x ->
  a_cd_expand (dix x) = Ok (fst (cd_expand x), map dix (snd (cd_expand x))) /\
  a_cdm_expand (dix x) = Ok (fst (cdm_expand x), map dix (snd (cdm_expand x))) /\
  Forall PD (snd (cd_expand x)) /\ snd (cdm_expand x) = snd (cd_expand x) /\
  (snd (cd_expand x) = dkids x \/ snd (cd_expand x) = []).
Proof.
  intros Hx. destruct (d_kids_sim x Hx) as [K FK].
  destruct x as [l r|l r|l r|l]; cbn [PD] in Hx;
    cbn [dix Arena3.a_cd_expand Arena3.a_cdm_expand SetOps.cd_expand SetOps.cdm_expand].
  - destruct Hx as [Hl Hr]. nd Hl il pl vl ll lr Hrdl Rll Rlr. nd Hr ir pr vr rl rr Hrdr Rrl Rrr.
    destruct K as (x1 & x2 & E1 & E2 & E12).
    cbn [tid tleft tright tval Trie.tpfx dkids] in *. rewrite Hrdl, Hrdr. cbn [rbind nleft nright nval npfx].
    destruct (is_some vr); cbn [fst snd map]; [repeat split; auto|].
    rewrite E1. cbn [rbind]. rewrite E2. cbn [rbind]. rewrite E12, (aidval_idvalL il pl vl ll lr). repeat split; auto.
  - destruct Hx as [Hl Hr]. nd Hl il pl vl ll lr Hrdl Rll Rlr.
    cbn [tid tleft tright tval Trie.tpfx dkids fst snd] in *. rewrite Hrdl. cbn [rbind nleft nright nval npfx].
    rewrite K. cbn [rbind]. rewrite (aidval_idvalL il pl vl ll lr). repeat split; auto.
  - destruct Hx as [Hl Hr]. nd Hr ir pr vr rl rr Hrdr Rrl Rrr.
    cbn [tid tleft tright tval Trie.tpfx dkids] in *. rewrite Hrdr. cbn [rbind nleft nright nval npfx].
    destruct (is_some vr); cbn [fst snd map]; [repeat split; auto|].
    rewrite K. cbn [rbind]. repeat split; auto.
  - nd Hx il pl vl ll lr Hrdl Rll Rlr. cbn [tid tval Trie.tpfx dkids fst snd] in *. rewrite Hrdl. cbn [rbind nval npfx].
    rewrite (proj1 (d_only_sim il pl vl ll lr Rll Rlr)), (aidval_idvalL il pl vl ll lr). repeat split; auto.
Qed.

Lemma cd_dec x : PD x -> (list_sum (map iszD (snd (cd_expand x))) < iszD x)%nat.
Proof.
  intros Hx. pose proof (d_kids_dec x Hx) as D.
  destruct (cd_expand_gen x Hx) as (_ & _ & _ & _ & [-> | ->]); [exact D|]. cbn. lia.
Qed.

Lemma d_start (ta : treeL) (tb : treeR) il ir : repL (Some il) ta -> repR (Some ir) tb ->
  a_d_ni (Some il) (Some ir) = Ok (map dix (d_ni ta tb)) /\ Forall PD (d_ni ta tb).
Proof.
  intros Ha Hb. destruct (nrep_of_rep _ _ _ _ _ Ha) as [[_ Ra] <-]. destruct (nrep_of_rep _ _ _ _ _ Hb) as [[_ Rb] <-].
  destruct (ArenaThm.rep_some_inv pfx L _ _ _ Ha) as (p1 & v1 & l1 & r1 & E1).
  destruct (ArenaThm.rep_some_inv pfx R _ _ _ Hb) as (p2 & v2 & l2 & r2 & E2).
  pose proof (d_ni_sim ta tb Ra Rb) as K. rewrite E1, E2 in K |- *. exact K.
Qed.

Theorem difference_sim (ta : treeL) (tb : treeR) il ir fuel :
  repL (Some il) ta -> repR (Some ir) tb -> (tsize ta + tsize tb < fuel)%nat ->
  exists out, difference ta tb = Some out /\ a_difference_fuel fuel tl tr il ir = Ok out.
Proof.
  intros Ha Hb Hf. destruct (d_start ta tb il ir Ha Hb) as [E1 F1].
  destruct (d_ext_sim None _ F1) as [E2 G2].
  assert (GR : Forall PDE (rev (d_ext None (d_ni ta tb)))) by (apply Forall_rev; exact G2).
  assert (T : exists out, difference ta tb = Some out).
  { unfold SetOps.difference. apply (run_total _ _ d_expand eszD PDE); [|exact GR|].
    - intros [x ra] Hx. split; [|exact (proj2 (proj2 (d_expand_gen _ Hx)))].
      rewrite d_expand_snd, d_ext_size. apply d_kids_dec. exact Hx.
    - rewrite MachineThm.msize_rev, d_ext_size. unfold SetOps.so_fuel. pose proof (d_ni_size ta tb). lia. }
  destruct T as [out T]. exists out. split; [exact T|].
  unfold Arena3.a_difference_fuel. rewrite E1. cbn [rbind]. rewrite E2. cbn [rbind]. rewrite <- map_rev.
  rewrite (rrun_sim _ _ _ a_d_expand d_expand dent PDE
             (fun e He => conj (proj1 (d_expand_gen e He)) (proj2 (proj2 (d_expand_gen e He)))) fuel _ GR).
  unfold SetOps.difference in T. rewrite (MachineThm.run_fuel_mono _ _ _ _ _ _ _ T); [reflexivity|].
  unfold SetOps.so_fuel. lia.
Qed.

Theorem difference_mut_sim (ta : treeL) (tb : treeR) il ir fuel :
  repL (Some il) ta -> repR (Some ir) tb -> (tsize ta + tsize tb < fuel)%nat ->
  exists out, difference_mut ta tb = Some out /\ a_difference_mut_fuel fuel tl tr il ir = Ok out.
Proof.
  intros Ha Hb Hf. destruct (d_start ta tb il ir Ha Hb) as [E1 F1].
  destruct (d_ext_sim None _ F1) as [E2 G2].
  assert (GR : Forall PDE (rev (d_ext None (d_ni ta tb)))) by (apply Forall_rev; exact G2).
  assert (SN : forall e, PDE e -> Forall PDE (snd (dm_expand e))).
  { intros [x ra] Hx. rewrite dm_expand_snd, <- d_expand_snd. exact (proj2 (proj2 (d_expand_gen _ Hx))). }
  assert (T : exists out, difference_mut ta tb = Some out).
  { unfold SetOps.difference_mut. apply (run_total _ _ dm_expand eszD PDE); [|exact GR|].
    - intros [x ra] Hx. split; [|exact (SN _ Hx)].
      rewrite dm_expand_snd, d_ext_size. apply d_kids_dec. exact Hx.
    - rewrite MachineThm.msize_rev, d_ext_size. unfold SetOps.so_fuel. pose proof (d_ni_size ta tb). lia. }
  destruct T as [out T]. exists out. split; [exact T|].
  unfold Arena3.a_difference_mut_fuel. rewrite E1. cbn [rbind]. rewrite E2. cbn [rbind]. rewrite <- map_rev.
  rewrite (rrun_sim _ _ _ a_dm_expand dm_expand dent PDE
             (fun e He => conj (proj1 (proj2 (d_expand_gen e He))) (SN e He)) fuel _ GR).
  unfold SetOps.difference_mut in T. rewrite (MachineThm.run_fuel_mono _ _ _ _ _ _ _ T); [reflexivity|].
  unfold SetOps.so_fuel. lia.
Qed.

Theorem covering_difference_sim (ta : treeL) (tb : treeR) il ir fuel :
  repL (Some il) ta -> repR (Some ir) tb -> (tsize ta + tsize tb < fuel)%nat ->
  exists out, covering_difference ta tb = Some out /\ a_covering_difference_fuel fuel tl tr il ir = Ok out.
Proof.
  intros Ha Hb Hf. destruct (d_start ta tb il ir Ha Hb) as [E1 F1].
  assert (GR : Forall PD (rev (d_ni ta tb))) by (apply Forall_rev; exact F1).
  assert (T : exists out, covering_difference ta tb = Some out).
  { unfold SetOps.covering_difference. apply (run_total _ _ cd_expand iszD PD); [|exact GR|].
    - intros x Hx. split; [exact (cd_dec x Hx)|]. exact (proj1 (proj2 (proj2 (cd_expand_gen x Hx)))).
    - rewrite MachineThm.msize_rev. unfold SetOps.so_fuel, MachineThm.msize. pose proof (d_ni_size ta tb). lia. }
  destruct T as [out T]. exists out. split; [exact T|].
  unfold Arena3.a_covering_difference_fuel. rewrite E1. cbn [rbind]. rewrite <- map_rev.
  rewrite (rrun_sim _ _ _ a_cd_expand cd_expand dix PD
             (fun x Hx => conj (proj1 (cd_expand_gen x Hx)) (proj1 (proj2 (proj2 (cd_expand_gen x Hx))))) fuel _ GR).
  unfold SetOps.covering_difference in T. rewrite (MachineThm.run_fuel_mono _ _ _ _ _ _ _ T); [reflexivity|].
  unfold SetOps.so_fuel. lia.
Qed.

Theorem covering_difference_mut_sim (ta : treeL) (tb : treeR) il ir fuel :
  repL (Some il) ta -> repR (Some ir) tb -> (tsize ta + tsize tb < fuel)%nat ->
  exists out, covering_difference_mut ta tb = Some out /\ a_covering_difference_mut_fuel fuel tl tr il ir = Ok out.
Proof.
  intros Ha Hb Hf. destruct (d_start ta tb il ir Ha Hb) as [E1 F1].
  assert (GR : Forall PD (rev (d_ni ta tb))) by (apply Forall_rev; exact F1).
  assert (SN : forall x, PD x -> Forall PD (snd (cdm_expand x))).
  { intros x Hx. destruct (cd_expand_gen x Hx) as (_ & _ & F & -> & _). exact F. }
  assert (T : exists out, covering_difference_mut ta tb = Some out).
  { unfold SetOps.covering_difference_mut. apply (run_total _ _ cdm_expand iszD PD); [|exact GR|].
    - intros x Hx. split; [|exact (SN x Hx)].
      destruct (cd_expand_gen x Hx) as (_ & _ & _ & -> & _). exact (cd_dec x Hx).
    - rewrite MachineThm.msize_rev. unfold SetOps.so_fuel, MachineThm.msize. pose proof (d_ni_size ta tb). lia. }
  destruct T as [out T]. exists out. split; [exact T|].
  unfold Arena3.a_covering_difference_mut_fuel. rewrite E1. cbn [rbind]. rewrite <- map_rev.
  rewrite (rrun_sim _ _ _ a_cdm_expand cdm_expand dix PD
             (fun x Hx => conj (proj1 (proj2 (cd_expand_gen x Hx))) (SN x Hx)) fuel _ GR).
  unfold SetOps.covering_difference_mut in T. rewrite (MachineThm.run_fuel_mono _ _ _ _ _ _ _ T); [reflexivity|].
  unfold SetOps.so_fuel. lia.
Qed.

End A3ST.

(* ------------------------------------------------------------------------------------------ *)
(** * The set operations on two maps, and on two reachable arena states *)
Section Reach2.
Variables (pfx L R : Type).
Variables (peq contains : pfx -> pfx -> bool) (is_bit_set : pfx -> N -> bool)
          (plen : pfx -> N) (lcp : pfx -> pfx -> pfx) (pzero : pfx) (mcmp : pfx -> pfx -> comparison).

Notation a_union := (Arena3.a_union pfx L R contains is_bit_set plen mcmp).
Notation a_union_mut := (Arena3.a_union_mut pfx L R contains is_bit_set plen mcmp).
Notation a_intersection := (Arena3.a_intersection pfx L R contains is_bit_set plen mcmp).
Notation a_intersection_mut := (Arena3.a_intersection_mut pfx L R contains is_bit_set plen mcmp).
Notation a_difference := (Arena3.a_difference pfx L R contains is_bit_set plen mcmp).
Notation a_difference_mut := (Arena3.a_difference_mut pfx L R contains is_bit_set plen mcmp).
Notation a_covering_difference := (Arena3.a_covering_difference pfx L R contains is_bit_set plen mcmp).
Notation a_covering_difference_mut := (Arena3.a_covering_difference_mut pfx L R contains is_bit_set plen mcmp).
Notation union := (SetOps.union pfx L R contains is_bit_set plen pzero mcmp).
Notation union_mut := (SetOps.union_mut pfx L R contains is_bit_set plen pzero mcmp).
Notation intersection := (SetOps.intersection pfx L R contains is_bit_set plen pzero mcmp).
Notation intersection_mut := (SetOps.intersection_mut pfx L R contains is_bit_set plen pzero mcmp).
Notation difference := (SetOps.difference pfx L R contains is_bit_set plen pzero mcmp).
Notation difference_mut := (SetOps.difference_mut pfx L R contains is_bit_set plen pzero mcmp).
Notation covering_difference := (SetOps.covering_difference pfx L R contains is_bit_set plen pzero mcmp).
Notation covering_difference_mut := (SetOps.covering_difference_mut pfx L R contains is_bit_set plen pzero mcmp).

(** the eight iterators at two represented subtrees that fit the default fuel
    [S (length tl + length tr)]: the arena result is the model's *)
Theorem setops_sim (tl : list (Arena.anode pfx L)) (tr : list (Arena.anode pfx R))
        (ta : Trie.tree pfx L) (tb : Trie.tree pfx R) il ir :
  ArenaThm.rep pfx L tl (Some il) ta -> ArenaThm.rep pfx R tr (Some ir) tb ->
  (tsize ta <= length tl)%nat -> (tsize tb <= length tr)%nat ->
  (exists out, union ta tb = Some out /\ a_union tl tr il ir = Ok out) /\
  (exists out, union_mut ta tb = Some out /\ a_union_mut tl tr il ir = Ok out) /\
  (exists out, intersection ta tb = Some out /\ a_intersection tl tr il ir = Ok out) /\
  (exists out, intersection_mut ta tb = Some out /\ a_intersection_mut tl tr il ir = Ok out) /\
  (exists out, difference ta tb = Some out /\ a_difference tl tr il ir = Ok out) /\
  (exists out, difference_mut ta tb = Some out /\ a_difference_mut tl tr il ir = Ok out) /\
  (exists out, covering_difference ta tb = Some out /\ a_covering_difference tl tr il ir = Ok out) /\
  (exists out, covering_difference_mut ta tb = Some out /\ a_covering_difference_mut tl tr il ir = Ok out).
Proof.
  intros Ha Hb Sa Sb.
  assert (Hf : (tsize ta + tsize tb < S (length tl + length tr))%nat) by lia.
  split; [exact (union_sim pfx L R contains is_bit_set plen pzero mcmp tl tr ta tb il ir _ Ha Hb Hf)|].
  split; [exact (union_mut_sim pfx L R contains is_bit_set plen pzero mcmp tl tr ta tb il ir _ Ha Hb Hf)|].
  split; [exact (intersection_sim pfx L R contains is_bit_set plen pzero mcmp tl tr ta tb il ir _ Ha Hb Hf)|].
  split; [exact (intersection_mut_sim pfx L R contains is_bit_set plen pzero mcmp tl tr ta tb il ir _ Ha Hb Hf)|].
  split; [exact (difference_sim pfx L R contains is_bit_set plen pzero mcmp tl tr ta tb il ir _ Ha Hb Hf)|].
  split; [exact (difference_mut_sim pfx L R contains is_bit_set plen pzero mcmp tl tr ta tb il ir _ Ha Hb Hf)|].
  split; [exact (covering_difference_sim pfx L R contains is_bit_set plen pzero mcmp tl tr ta tb il ir _ Ha Hb Hf)|].
  exact (covering_difference_mut_sim pfx L R contains is_bit_set plen pzero mcmp tl tr ta tb il ir _ Ha Hb Hf).
Qed.

(** ... in particular at the roots of two maps ([a.view().union(&b)] etc.) *)
Corollary setops_root_sim (amL : Arena.amap pfx L) (mL : Trie.pmap pfx L) (amR : Arena.amap pfx R) (mR : Trie.pmap pfx R) :
  ArenaThm.Rep pfx L amL mL -> Slots.minv pfx L mL -> ArenaThm.Rep pfx R amR mR -> Slots.minv pfx R mR ->
  (exists out, union (root mL) (root mR) = Some out /\ a_union (tbl amL) (tbl amR) 0%N 0%N = Ok out) /\
  (exists out, union_mut (root mL) (root mR) = Some out /\ a_union_mut (tbl amL) (tbl amR) 0%N 0%N = Ok out) /\
  (exists out, intersection (root mL) (root mR) = Some out /\ a_intersection (tbl amL) (tbl amR) 0%N 0%N = Ok out) /\
  (exists out, intersection_mut (root mL) (root mR) = Some out /\ a_intersection_mut (tbl amL) (tbl amR) 0%N 0%N = Ok out) /\
  (exists out, difference (root mL) (root mR) = Some out /\ a_difference (tbl amL) (tbl amR) 0%N 0%N = Ok out) /\
  (exists out, difference_mut (root mL) (root mR) = Some out /\ a_difference_mut (tbl amL) (tbl amR) 0%N 0%N = Ok out) /\
  (exists out, covering_difference (root mL) (root mR) = Some out /\ a_covering_difference (tbl amL) (tbl amR) 0%N 0%N = Ok out) /\
  (exists out, covering_difference_mut (root mL) (root mR) = Some out /\
               a_covering_difference_mut (tbl amL) (tbl amR) 0%N 0%N = Ok out).
Proof.
  intros RL ML RR MR. apply setops_sim; [apply RL|apply RR| |].
  - exact (Rep_tsize pfx L peq contains is_bit_set plen lcp pzero amL mL RL ML).
  - exact (Rep_tsize pfx R peq contains is_bit_set plen lcp pzero amR mR RR MR).
Qed.

Hypothesis PEQ_LEN : forall p q, peq p q = true -> plen p = plen q.
Hypothesis ZERO_LEN : plen pzero = 0%N.

(** no panic, no exhausted fuel at any two live locations of any two reachable arena states *)
Corollary reachable_setops (amL : Arena.amap pfx L) (amR : Arena.amap pfx R) lL lR :
  Arena2Thm.reachable2 pfx L peq contains is_bit_set plen lcp pzero amL ->
  Arena2Thm.reachable2 pfx R peq contains is_bit_set plen lcp pzero amR ->
  live_loc pfx L (tbl amL) lL -> live_loc pfx R (tbl amR) lR ->
  (exists out, a_union (tbl amL) (tbl amR) (loc_idx lL) (loc_idx lR) = Ok out) /\
  (exists out, a_union_mut (tbl amL) (tbl amR) (loc_idx lL) (loc_idx lR) = Ok out) /\
  (exists out, a_intersection (tbl amL) (tbl amR) (loc_idx lL) (loc_idx lR) = Ok out) /\
  (exists out, a_intersection_mut (tbl amL) (tbl amR) (loc_idx lL) (loc_idx lR) = Ok out) /\
  (exists out, a_difference (tbl amL) (tbl amR) (loc_idx lL) (loc_idx lR) = Ok out) /\
  (exists out, a_difference_mut (tbl amL) (tbl amR) (loc_idx lL) (loc_idx lR) = Ok out) /\
  (exists out, a_covering_difference (tbl amL) (tbl amR) (loc_idx lL) (loc_idx lR) = Ok out) /\
  (exists out, a_covering_difference_mut (tbl amL) (tbl amR) (loc_idx lL) (loc_idx lR) = Ok out).
Proof.
  intros HL HR LL LR.
  destruct (live_sized pfx L peq contains is_bit_set plen lcp pzero PEQ_LEN ZERO_LEN amL lL HL LL) as (ta & Ra & Sa).
  destruct (live_sized pfx R peq contains is_bit_set plen lcp pzero PEQ_LEN ZERO_LEN amR lR HR LR) as (tb & Rb & Sb).
  destruct (setops_sim (tbl amL) (tbl amR) ta tb _ _ Ra Rb Sa Sb)
    as ((o1 & _ & E1) & (o2 & _ & E2) & (o3 & _ & E3) & (o4 & _ & E4) & (o5 & _ & E5) & (o6 & _ & E6) & (o7 & _ & E7) & (o8 & _ & E8)).
  repeat split; eauto.
Qed.

End Reach2.

Print Assumptions rrun_sim_rel.
Print Assumptions rrun_sim.
Print Assumptions rrun_run.
Print Assumptions get_key_value_sim.
Print Assumptions contains_key_sim.
Print Assumptions get_lpm_prefix_sim.
Print Assumptions get_lpm_mut_sim.
Print Assumptions get_spm_sim.
Print Assumptions get_spm_prefix_sim.
Print Assumptions children_start_sim.
Print Assumptions children_sim.
Print Assumptions cover_next_sim.
Print Assumptions cover_drain_sim.
Print Assumptions cover_sim.
Print Assumptions cover_walk_sim.
Print Assumptions v_find_sim.
Print Assumptions v_find_exact_sim.
Print Assumptions v_find_lpm_sim.
Print Assumptions v_left_sim.
Print Assumptions v_right_sim.
Print Assumptions v_prefix_sim.
Print Assumptions v_value_sim.
Print Assumptions v_prefix_value_sim.
Print Assumptions rep_height_le.
Print Assumptions v_find_ok.
Print Assumptions v_find_exact_ok.
Print Assumptions v_find_lpm_ok.
Print Assumptions vm_find_ok.
Print Assumptions vm_find_exact_ok.
Print Assumptions vm_find_lpm_ok.
Print Assumptions view_at_sim.
Print Assumptions vm_find_sim.
Print Assumptions vm_find_exact_sim.
Print Assumptions vm_find_lpm_sim.
Print Assumptions vm_left_sim.
Print Assumptions vm_right_sim.
Print Assumptions vm_has_left_sim.
Print Assumptions vm_has_right_sim.
Print Assumptions vm_split_sim.
Print Assumptions vm_prefix_sim.
Print Assumptions vm_value_sim.
Print Assumptions union_sim.
Print Assumptions union_mut_sim.
Print Assumptions intersection_sim.
Print Assumptions intersection_mut_sim.
Print Assumptions difference_sim.
Print Assumptions difference_mut_sim.
Print Assumptions covering_difference_sim.
Print Assumptions covering_difference_mut_sim.
Print Assumptions setops_sim.
Print Assumptions setops_root_sim.
Print Assumptions reachable_total3.
Print Assumptions reachable_views.
Print Assumptions reachable_setops.
