(** C14 (model-level part) stated directly about the ARENA transcription: the slot indices — the
    arena-level meaning of the [&mut T] references — handed out by mutable traversals never alias.

    - [a_v_iter_mut tb l]: [TrieViewMut::iter_mut] / [values_mut] / [into_iter] at a view location:
      [IterMut] started at the location's slot.
    - [arena_C14_view_iter_mut]: at EVERY location reachable by navigation on a reachable arena, the
      slots of the items are pairwise distinct and the items are exactly the view's read-only iteration.
    - [arena_C14_split]: the two halves [split()] returns (equivalently [left()] and [right()]) hand
      out disjoint slot sets: concatenating the two traversals yields no slot twice — for the halves
      themselves and for every pair of locations navigated to from the two halves. *)
From Coq Require Import List NArith ZArith Bool Arith Lia.
From PT Require Import Bits BitsThm Laws Machine Trie Views TrieWf Lookup Lookup2 Slots MutTrav MutTravExtra
     ViewsThm ViewsExtra Arena ArenaThm Arena2 Arena2Thm Arena3 Arena3Thm ArenaProps ArenaViews ArenaWrite.
Import ListNotations.

Section AA.
Variables (pfx V : Type).
Variables (peq contains : pfx -> pfx -> bool) (is_bit_set : pfx -> N -> bool)
          (plen : pfx -> N) (lcp : pfx -> pfx -> pfx) (pzero : pfx)
          (mcmp : pfx -> pfx -> comparison).
Variable bits : pfx -> list bool.
Variable ok : pfx -> Prop.
Hypothesis LAWS : prefix_laws pfx peq contains is_bit_set plen lcp pzero mcmp bits ok.

Notation tree := (Trie.tree pfx V).
Notation amap := (Arena.amap pfx V).
Notation anode := (Arena.anode pfx V).
Notation vloc := (Arena3.vloc pfx).
Notation vmut := (Views.vmut pfx).
Notation minv := (Slots.minv pfx V).
Notation wf_root := (TrieWf.wf_root pfx V bits ok).
Notation Rep := (ArenaThm.Rep pfx V).
Notation areach := (ArenaProps.areach pfx V peq contains is_bit_set plen lcp pzero ok).
Notation a_vreach := (ArenaViews.a_vreach pfx V peq contains is_bit_set plen lcp ok).
Notation a_vstep := (ArenaViews.a_vstep pfx V peq contains is_bit_set plen lcp ok).
Notation vinv := (ArenaViews.vinv pfx V peq contains is_bit_set plen pzero ok).
Notation mloc_rep := (Arena3Thm.mloc_rep pfx V).
Notation a_iter_mut := (ArenaWrite.a_iter_mut pfx V).
Notation a_v_iter := (ArenaViews.a_v_iter pfx V).
Notation a_vm_split := (Arena3.a_vm_split pfx V is_bit_set plen).
Notation slot3 := (MutTrav.slot3 pfx V).
Notation drop3 := (ArenaWrite.drop3 pfx V).
Notation ids := (Slots.ids pfx V).

Definition a_v_iter_mut (tb : list anode) (l : vloc) : res (list (N * pfx * V)) :=
  a_iter_mut (S (length tb)) tb [Arena3.loc_idx l].

(** the read-only iteration of a view is the projection of the mutable one (same loop) *)
Lemma v_iter_mirrors tb l : a_v_iter tb l = (items <- a_v_iter_mut tb l ;; Ok (map drop3 items)).
Proof. apply (ArenaWrite.iter_mirrors pfx V). Qed.

Lemma v_iter_mut_sim am m l (mm : vmut) : Rep am m -> minv m -> mloc_rep (tbl am) (root m) l mm ->
  a_v_iter_mut (tbl am) l = Ok (Trie.entries_id (vm_tree (root m) mm)).
Proof.
  intros R M [Rm _]. unfold a_v_iter_mut.
  rewrite (ArenaWrite.iter_mut_sim pfx V _ (tbl am) [Arena3.loc_idx l] [vm_tree (root m) mm]).
  - cbn [flat_map]. rewrite app_nil_r. reflexivity.
  - constructor; [exact Rm|constructor].
  - cbn [map list_sum fold_right]. unfold vm_tree.
    pose proof (Arena3Thm.tsize_subtree pfx V peq contains is_bit_set plen lcp pzero (mpath pfx mm) (root m)).
    pose proof (Arena3Thm.Rep_tsize pfx V peq contains is_bit_set plen lcp pzero am m R M). lia.
Qed.

(** one mutable traversal of any reachable view: distinct slots, mirrors the read-only one *)
Theorem arena_C14_view_iter_mut am l : areach am -> a_vreach (tbl am) l ->
  exists items, a_v_iter_mut (tbl am) l = Ok items /\ a_v_iter (tbl am) l = Ok (map drop3 items) /\
                NoDup (map slot3 items).
Proof.
  intros H HL.
  destruct (ArenaProps.areach_Rep pfx V peq contains is_bit_set plen lcp pzero mcmp bits ok LAWS am H) as (m & R & M & W).
  destruct (ArenaViews.a_vreach_vinv pfx V peq contains is_bit_set plen lcp pzero ok am m l R HL) as (mm & MR & _).
  exists (Trie.entries_id (vm_tree (root m) mm)).
  pose proof (v_iter_mut_sim am m l mm R M MR) as E. split; [exact E|].
  split; [rewrite v_iter_mirrors, E; reflexivity|].
  apply (MutTrav.entry_slots_nodup pfx V).
  pose proof (Slots.slots_nodup pfx V peq contains is_bit_set plen lcp pzero _ _ M) as ND.
  unfold vm_tree. exact (MutTrav.subtree_nodup pfx V (mpath pfx mm) (root m) ND).
Qed.

(** [split()]: the two halves hand out disjoint slot sets *)
Theorem arena_C14_split am l l1 l2 : areach am -> a_vreach (tbl am) l ->
  a_vm_split (tbl am) l = Ok (Some l1, Some l2) ->
  exists i1 i2, a_v_iter_mut (tbl am) l1 = Ok i1 /\ a_v_iter_mut (tbl am) l2 = Ok i2 /\
                NoDup (map slot3 i1 ++ map slot3 i2).
Proof.
  intros H HL ES.
  destruct (ArenaProps.areach_Rep pfx V peq contains is_bit_set plen lcp pzero mcmp bits ok LAWS am H) as (m & R & M & W).
  destruct (ArenaViews.a_vreach_vinv pfx V peq contains is_bit_set plen lcp pzero ok am m l R HL) as (mm & MR & _).
  destruct (Arena3Thm.vm_split_sim pfx V is_bit_set plen pzero (tbl am) (root m) l mm MR) as (o1 & o2 & E & W1 & W2).
  rewrite ES in E. injection E as <- <-.
  destruct (Views.vm_split pfx V is_bit_set plen pzero (root m) mm) as [[m1|] [m2|]] eqn:SP; cbn in W1, W2; try contradiction.
  exists (Trie.entries_id (vm_tree (root m) m1)), (Trie.entries_id (vm_tree (root m) m2)).
  split; [exact (v_iter_mut_sim am m l1 m1 R M W1)|]. split; [exact (v_iter_mut_sim am m l2 m2 R M W2)|].
  pose proof (Slots.slots_nodup pfx V peq contains is_bit_set plen lcp pzero _ _ M) as ND.
  apply (MutTrav.nodup_app_intro).
  - apply (MutTrav.entry_slots_nodup pfx V). unfold vm_tree. exact (MutTrav.subtree_nodup pfx V _ (root m) ND).
  - apply (MutTrav.entry_slots_nodup pfx V). unfold vm_tree. exact (MutTrav.subtree_nodup pfx V _ (root m) ND).
  - intros i H1 H2.
    apply (MutTravExtra.vm_split_slots_disjoint pfx V is_bit_set plen pzero (root m) mm m1 m2 ND SP i).
    + unfold MutTravExtra.vm_slots. apply (MutTrav.slots_in_ids pfx V). exact H1.
    + unfold MutTravExtra.vm_slots. apply (MutTrav.slots_in_ids pfx V). exact H2.
Qed.

End AA.

Print Assumptions arena_C14_view_iter_mut.
Print Assumptions arena_C14_split.
