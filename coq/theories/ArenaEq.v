(** C19 stated directly about the ARENA transcription: [PartialEq], [Clone], rebuilding.

    - [a_map_eq]: [PartialEq for PrefixMap] = [self.iter().eq(other.iter())] (mod.rs), i.e. the two
      arena iterators are drained and compared pairwise under the key type's and the value type's own
      equality ([prepr_eq] compares the STORED representation, host bits included).
    - [a_clone]: [#[derive(Clone)]]: the table, the free list and the counter are copied.
    - Two arenas are equal exactly when their iterations are equal lists — whatever their tables,
      free lists and counters look like (different histories, leftover nodes, released slots). *)
From Coq Require Import List NArith ZArith Bool Arith Lia.
From PT Require Import Bits Laws Trie TrieWf Slots EqClone Refine Mutate
     Arena ArenaThm Arena2 Arena2Thm ArenaProps ArenaWrite.
Import ListNotations.

Section AE.
Variables (pfx V : Type).
Variables (peq contains : pfx -> pfx -> bool) (is_bit_set : pfx -> N -> bool)
          (plen : pfx -> N) (lcp : pfx -> pfx -> pfx) (pzero : pfx)
          (mcmp : pfx -> pfx -> comparison).
Variable bits : pfx -> list bool.
Variable ok : pfx -> Prop.
Hypothesis LAWS : prefix_laws pfx peq contains is_bit_set plen lcp pzero mcmp bits ok.
(** the key type's and the value type's [PartialEq], assumed to decide Leibniz equality (true of the
    concrete prefix type, see Properties/C19.v) *)
Variables (prepr_eq : pfx -> pfx -> bool) (veq : V -> V -> bool).
Hypothesis prepr_eq_spec : forall p q, prepr_eq p q = true <-> p = q.
Hypothesis veq_spec : forall x y, veq x y = true <-> x = y.

Notation amap := (Arena.amap pfx V).
Notation a_entries := (Arena.a_entries pfx V).
Notation agood := (ArenaWrite.agood pfx V bits ok).
Notation areach := (ArenaProps.areach pfx V peq contains is_bit_set plen lcp pzero ok).
Notation list_eqb := (Trie.list_eqb pfx V prepr_eq veq).

Definition a_map_eq (a b : amap) : res bool :=
  ea <- a_entries a ;; eb <- a_entries b ;; Ok (list_eqb ea eb).

Definition a_clone (a : amap) : amap := mkamap (tbl a) (afree a) (acount a).

Lemma list_eqb_iff : forall a b, list_eqb a b = true <-> a = b.
Proof.
  induction a as [|[p x] a IH]; intros [|[q y] b]; cbn [Trie.list_eqb]; try (split; [discriminate|discriminate]).
  - split; reflexivity.
  - rewrite !andb_true_iff, prepr_eq_spec, veq_spec, IH. split.
    + intros [[-> ->] ->]. reflexivity.
    + intros [= -> -> ->]. auto.
Qed.

Lemma good_entries a : agood a -> exists es, a_entries a = Ok es.
Proof.
  intros (m & R & M & _). exists (entries (root m)).
  exact (ArenaThm.entries_sim pfx V peq contains is_bit_set plen lcp pzero a m R M).
Qed.

(** [==] never panics on good arenas and decides equality of the two iterations *)
Theorem arena_C19_eq a b ea eb : agood a -> agood b -> a_entries a = Ok ea -> a_entries b = Ok eb ->
  exists r, a_map_eq a b = Ok r /\ (r = true <-> ea = eb).
Proof.
  intros _ _ Ea Eb. unfold a_map_eq. rewrite Ea, Eb. cbn [rbind].
  exists (list_eqb ea eb). split; [reflexivity|apply list_eqb_iff].
Qed.

Theorem arena_C19_total a b : agood a -> agood b -> exists r, a_map_eq a b = Ok r.
Proof.
  intros Ga Gb. destruct (good_entries a Ga) as (ea & Ea). destruct (good_entries b Gb) as (eb & Eb).
  destruct (arena_C19_eq a b ea eb Ga Gb Ea Eb) as (r & E & _). eauto.
Qed.

(** equivalence relation *)
Theorem arena_C19_refl a : agood a -> a_map_eq a a = Ok true.
Proof.
  intros G. destruct (good_entries a G) as (ea & Ea).
  destruct (arena_C19_eq a a ea ea G G Ea Ea) as (r & E & I). rewrite E. f_equal. apply I. reflexivity.
Qed.

Theorem arena_C19_sym a b : agood a -> agood b -> a_map_eq a b = a_map_eq b a.
Proof.
  intros Ga Gb. destruct (good_entries a Ga) as (ea & Ea). destruct (good_entries b Gb) as (eb & Eb).
  destruct (arena_C19_eq a b ea eb Ga Gb Ea Eb) as (r & E & I).
  destruct (arena_C19_eq b a eb ea Gb Ga Eb Ea) as (r' & E' & I'). rewrite E, E'. f_equal.
  destruct r, r'; try reflexivity.
  - symmetry. apply I'. symmetry. apply I. reflexivity.
  - apply I. symmetry. apply I'. reflexivity.
Qed.

Theorem arena_C19_trans a b c : agood a -> agood b -> agood c ->
  a_map_eq a b = Ok true -> a_map_eq b c = Ok true -> a_map_eq a c = Ok true.
Proof.
  intros Ga Gb Gc. destruct (good_entries a Ga) as (ea & Ea). destruct (good_entries b Gb) as (eb & Eb).
  destruct (good_entries c Gc) as (ec & Ec).
  destruct (arena_C19_eq a b ea eb Ga Gb Ea Eb) as (r1 & E1 & I1).
  destruct (arena_C19_eq b c eb ec Gb Gc Eb Ec) as (r2 & E2 & I2).
  destruct (arena_C19_eq a c ea ec Ga Gc Ea Ec) as (r3 & E3 & I3).
  rewrite E1, E2, E3. intros [= ->] [= ->]. f_equal. apply I3.
  rewrite (proj1 I1 eq_refl). exact (proj1 I2 eq_refl).
Qed.

(** [clone()]: the copy is good, has the same iteration, and equals the original *)
Theorem arena_C19_clone a : agood a ->
  agood (a_clone a) /\ a_entries (a_clone a) = a_entries a /\ a_map_eq (a_clone a) a = Ok true /\
  a_map_eq a (a_clone a) = Ok true.
Proof.
  intros G. assert (E : a_clone a = a) by (destruct a; reflexivity). rewrite E.
  split; [exact G|]. split; [reflexivity|]. split; apply arena_C19_refl; exact G.
Qed.

(** one more / one fewer / one different entry makes two maps unequal *)
Theorem arena_C19_differs a b ea eb : agood a -> agood b -> a_entries a = Ok ea -> a_entries b = Ok eb ->
  ea <> eb -> a_map_eq a b = Ok false.
Proof.
  intros Ga Gb Ea Eb Hne. destruct (arena_C19_eq a b ea eb Ga Gb Ea Eb) as (r & E & I). rewrite E. f_equal.
  destruct r; [|reflexivity]. exfalso. apply Hne. apply I. reflexivity.
Qed.

(** equality looks at the iteration only: arenas reached by DIFFERENT histories (different tables,
    free lists, leftover nodes) are equal as soon as their iterations agree *)
Theorem arena_C19_layout_independent a b es : areach a -> areach b ->
  a_entries a = Ok es -> a_entries b = Ok es -> a_map_eq a b = Ok true.
Proof.
  intros Ha Hb Ea Eb.
  destruct (arena_C19_eq a b es es (ArenaWrite.areach_good pfx V _ _ _ _ _ _ _ _ _ LAWS a Ha)
              (ArenaWrite.areach_good pfx V _ _ _ _ _ _ _ _ _ LAWS b Hb) Ea Eb) as (r & E & I).
  rewrite E. f_equal. apply I. reflexivity.
Qed.

(* ------------------------------------------------------------------------------------------ *)
(** * Rebuilding: [FromIterator] / [collect] / deserialisation = repeated arena-level [insert] *)
Notation a_run2 := (Arena2.a_run2 pfx V peq contains is_bit_set plen lcp pzero).
Notation t_run2_from := (Arena2.t_run2_from pfx V peq contains is_bit_set plen lcp pzero).
Notation from_list := (Trie.from_list pfx V peq contains is_bit_set plen lcp pzero).
Notation wf_root := (TrieWf.wf_root pfx V bits ok).
Notation key := (TrieWf.key pfx V bits).

Definition ins_ops (l : list (pfx * V)) : list (Arena2.aop2 pfx V) :=
  map (fun e => AOld (AIns (fst e) (snd e))) l.

Lemma t_run2_ins : forall l m,
  t_run2_from (ins_ops l) m
  = fold_left (fun m e => fst (Trie.insert pfx V peq contains is_bit_set plen lcp m (fst e) (snd e))) l m.
Proof.
  induction l as [|e l IH]; intros m; [reflexivity|]. cbn [ins_ops map Arena2.t_run2_from fold_left].
  rewrite <- IH. reflexivity.
Qed.

(** [Refine.collect_refines] for one given list (that lemma quantifies over a permutation FUNCTION) *)
Lemma from_list_perm (L : list (pfx * V)) (t : Trie.tree pfx V) :
  wf_root t -> Permutation.Permutation L (entries t) -> entries (root (from_list L)) = entries t.
Proof.
  intros Hr HP. set (E := entries t) in *.
  assert (Hok : forall e, In e L -> ok (fst e)).
  { intros e He. eapply (TrieWf.entries_ok pfx V bits ok); [apply (Refine.wf_root_under pfx V pzero bits ok); exact Hr|].
    eapply Permutation.Permutation_in; [exact HP | exact He]. }
  destruct (Mutate.from_list_spec pfx V peq contains is_bit_set plen lcp pzero mcmp bits ok LAWS L Hok) as [P1 P2].
  assert (HsE : Sorted.StronglySorted (TrieWf.key_lt pfx V bits) E) by (apply (Refine.wf_sorted pfx V pzero bits ok); exact Hr).
  assert (Hnd : NoDup L).
  { eapply Permutation.Permutation_NoDup; [apply Permutation.Permutation_sym; exact HP | apply (Refine.sorted_NoDup pfx V bits); exact HsE]. }
  apply (Refine.ext_to pfx V pzero bits ok); [exact P1 | exact HsE|].
  intros e. rewrite P2. split.
  - intros [l1 [l2 [El _]]]. eapply Permutation.Permutation_in; [exact HP|]. rewrite El. apply in_elt.
  - intros He. assert (He' : In e L) by (eapply Permutation.Permutation_in; [apply Permutation.Permutation_sym; exact HP | exact He]).
    apply in_split in He'. destruct He' as [l1 [l2 El]]. exists l1, l2. split; [exact El|].
    intros e' He' Ek. rewrite El in Hnd. apply NoDup_remove_2 in Hnd. apply Hnd.
    assert (e' = e).
    { apply (TrieWf.sorted_key_inj pfx V bits E); [exact HsE | | exact He | exact Ek].
      eapply Permutation.Permutation_in; [exact HP|]. rewrite El. apply in_or_app. right. right. exact He'. }
    subst e'. apply in_or_app. right. exact He'.
Qed.

(** rebuilding a reachable arena from its own entries IN ANY ORDER runs without panic and yields a
    reachable arena (with, in general, another table: no leftover nodes, no free slots) whose
    iteration is the same list and which is [==] to the original, in both directions *)
Theorem arena_C19_rebuild a es es' : areach a -> a_entries a = Ok es -> Permutation.Permutation es' es ->
  exists b, a_run2 (ins_ops es') = Ok b /\ areach b /\ a_entries b = Ok es /\
            a_map_eq b a = Ok true /\ a_map_eq a b = Ok true.
Proof.
  intros Ha Ea HP.
  destruct (ArenaProps.areach_view pfx V peq contains is_bit_set plen lcp pzero mcmp bits ok LAWS a es Ha Ea)
    as (m & R & M & W & ->).
  assert (OKS : Forall (ArenaProps.aop2_ok pfx V ok) (ins_ops es')).
  { apply Forall_forall. intros o Ho. apply in_map_iff in Ho. destruct Ho as (e & <- & He). cbn.
    eapply (TrieWf.entries_ok pfx V bits ok); [apply (Refine.wf_root_under pfx V pzero bits ok); exact W|].
    eapply Permutation.Permutation_in; [exact HP|exact He]. }
  destruct (ArenaProps.run2_ok_sim pfx V peq contains is_bit_set plen lcp pzero mcmp bits ok LAWS (ins_ops es') OKS)
    as (b & Eb & Rb & Mb & Wb).
  assert (Hb : areach b) by (exists (ins_ops es'); split; assumption).
  assert (EE : a_entries b = Ok (entries (root m))).
  { rewrite (ArenaThm.entries_sim pfx V peq contains is_bit_set plen lcp pzero b _ Rb Mb). f_equal.
    unfold Arena2.t_run2. rewrite t_run2_ins. exact (from_list_perm es' (root m) W HP). }
  exists b. split; [exact Eb|]. split; [exact Hb|]. split; [exact EE|].
  split; apply (arena_C19_layout_independent _ _ (entries (root m))); assumption.
Qed.

End AE.

Print Assumptions arena_C19_eq.
Print Assumptions arena_C19_refl.
Print Assumptions arena_C19_sym.
Print Assumptions arena_C19_trans.
Print Assumptions arena_C19_clone.
Print Assumptions arena_C19_differs.
Print Assumptions arena_C19_layout_independent.
Print Assumptions arena_C19_rebuild.
