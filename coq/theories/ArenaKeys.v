(** C18 stated directly about the ARENA transcription: keys are identified by their network part;
    the stored representation is the one passed to the last inserting call.

    - [arena_C18_key_only]: two VALID representations [q], [q'] of one key (same [bits], i.e. same
      length and same masked address — they may differ in host bits) give literally the same result in
      every lookup and selection of the arena-level code, on every reachable arena.
    - [arena_C18_insert_stores_repr]: after the arena-level [insert q x] / [entry(q).insert(x)], looking
      up ANY representation [q'] of the key returns the pair [(q, x)]: the representation passed to the
      call — not the one stored before, not the query's. *)
From Coq Require Import List NArith ZArith Bool Arith Lia.
From PT Require Import Bits Laws Trie TrieWf Lookup Slots History Refine Refine2 KeyCongr
     Arena ArenaThm Arena2 Arena2Thm Arena3 Arena3Thm ArenaProps.
Import ListNotations.

Section AK.
Variables (pfx V : Type).
Variables (peq contains : pfx -> pfx -> bool) (is_bit_set : pfx -> N -> bool)
          (plen : pfx -> N) (lcp : pfx -> pfx -> pfx) (pzero : pfx)
          (mcmp : pfx -> pfx -> comparison).
Variable bits : pfx -> list bool.
Variable ok : pfx -> Prop.
Hypothesis LAWS : prefix_laws pfx peq contains is_bit_set plen lcp pzero mcmp bits ok.

Notation amap := (Arena.amap pfx V).
Notation areach := (ArenaProps.areach pfx V peq contains is_bit_set plen lcp pzero ok).
Notation a_get := (Arena.a_get pfx V peq contains is_bit_set plen).
Notation a_get_lpm := (Arena.a_get_lpm pfx V peq contains is_bit_set plen).
Notation a_insert := (Arena.a_insert pfx V peq contains is_bit_set plen lcp).
Notation a_entry_insert := (Arena2.a_entry_insert pfx V peq contains is_bit_set plen lcp).
Notation a_get_key_value := (Arena3.a_get_key_value pfx V peq contains is_bit_set plen).
Notation a_contains_key := (Arena3.a_contains_key pfx V peq contains is_bit_set plen).
Notation a_get_lpm_prefix := (Arena3.a_get_lpm_prefix pfx V peq contains is_bit_set plen).
Notation a_get_lpm_mut := (Arena3.a_get_lpm_mut pfx V peq contains is_bit_set plen).
Notation a_get_spm := (Arena3.a_get_spm pfx V peq contains is_bit_set plen).
Notation a_get_spm_prefix := (Arena3.a_get_spm_prefix pfx V peq contains is_bit_set plen).
Notation a_cover := (Arena3.a_cover pfx V peq contains is_bit_set plen).
Notation a_children := (Arena3.a_children pfx V peq contains is_bit_set plen).
Notation a_step2 := (Arena2.a_step2 pfx V peq contains is_bit_set plen lcp pzero).

Theorem arena_C18_key_only am q q' : areach am -> ok q -> ok q' -> bits q = bits q' ->
  a_get am q = a_get am q' /\ a_get_key_value am q = a_get_key_value am q' /\
  a_contains_key am q = a_contains_key am q' /\
  a_get_lpm am q = a_get_lpm am q' /\ a_get_lpm_prefix am q = a_get_lpm_prefix am q' /\
  a_get_lpm_mut am q = a_get_lpm_mut am q' /\
  a_get_spm am q = a_get_spm am q' /\ a_get_spm_prefix am q = a_get_spm_prefix am q' /\
  a_cover am q = a_cover am q' /\ a_children am q = a_children am q'.
Proof.
  intros H Hq Hq' E.
  destruct (ArenaProps.areach_Rep pfx V peq contains is_bit_set plen lcp pzero mcmp bits ok LAWS am H) as (m & R & M & W).
  pose proof (KeyCongr.wf_root_nodes_ok pfx V bits ok (root m) W) as Hn.
  repeat split.
  - rewrite !(ArenaThm.get_sim pfx V peq contains is_bit_set plen lcp pzero am m _ R M). f_equal.
    exact (KeyCongr.get_congr pfx V peq contains is_bit_set plen lcp pzero mcmp bits ok LAWS q q' Hq Hq' E (root m) Hn).
  - rewrite !(Arena3Thm.get_key_value_sim pfx V peq contains is_bit_set plen lcp pzero am m _ R M). f_equal.
    exact (KeyCongr.get_key_value_congr pfx V peq contains is_bit_set plen lcp pzero mcmp bits ok LAWS q q' Hq Hq' E (root m) Hn).
  - rewrite !(Arena3Thm.contains_key_sim pfx V peq contains is_bit_set plen lcp pzero am m _ R M). f_equal.
    exact (KeyCongr.contains_key_congr pfx V peq contains is_bit_set plen lcp pzero mcmp bits ok LAWS q q' Hq Hq' E (root m) Hn).
  - rewrite !(ArenaThm.get_lpm_sim pfx V peq contains is_bit_set plen lcp pzero am m _ R M). f_equal.
    exact (KeyCongr.get_lpm_congr pfx V peq contains is_bit_set plen lcp pzero mcmp bits ok LAWS q q' Hq Hq' E (root m) Hn).
  - rewrite !(Arena3Thm.get_lpm_prefix_sim pfx V peq contains is_bit_set plen lcp pzero am m _ R M). f_equal.
    exact (KeyCongr.get_lpm_prefix_congr pfx V peq contains is_bit_set plen lcp pzero mcmp bits ok LAWS q q' Hq Hq' E (root m) Hn).
  - rewrite !(Arena3Thm.get_lpm_mut_sim pfx V peq contains is_bit_set plen lcp pzero am m _ R M). f_equal.
    exact (KeyCongr.get_lpm_mut_congr pfx V peq contains is_bit_set plen lcp pzero mcmp bits ok LAWS q q' Hq Hq' E (root m) Hn).
  - rewrite !(Arena3Thm.get_spm_sim pfx V peq contains is_bit_set plen lcp pzero am m _ R M). f_equal.
    exact (KeyCongr.get_spm_congr pfx V peq contains is_bit_set plen lcp pzero mcmp bits ok LAWS q q' Hq Hq' E (root m) Hn).
  - rewrite !(Arena3Thm.get_spm_prefix_sim pfx V peq contains is_bit_set plen lcp pzero am m _ R M). f_equal.
    exact (KeyCongr.get_spm_prefix_congr pfx V peq contains is_bit_set plen lcp pzero mcmp bits ok LAWS q q' Hq Hq' E (root m) Hn).
  - rewrite !(Arena3Thm.cover_walk_sim pfx V peq contains is_bit_set plen lcp pzero am m _ R M). f_equal.
    exact (KeyCongr.cover_walk_congr pfx V peq contains is_bit_set plen lcp pzero mcmp bits ok LAWS q q' Hq Hq' E (root m) Hn).
  - rewrite !(Arena3Thm.children_sim pfx V peq contains is_bit_set plen lcp pzero am m _ R M). f_equal. f_equal.
    exact (KeyCongr.children_start_congr pfx V peq contains is_bit_set plen lcp pzero mcmp bits ok LAWS q q' Hq Hq' E (root m) Hn).
Qed.

(** the inserting calls store the representation passed *)
Theorem arena_C18_insert_stores_repr am q q' x : areach am -> ok q -> ok q' -> bits q' = bits q ->
  (exists am' o, a_insert am q x = Ok (am', o) /\ areach am' /\ a_get_key_value am' q' = Ok (Some (q, x))) /\
  (exists am' o, a_entry_insert am q x = Ok (am', o) /\ areach am' /\ a_get_key_value am' q' = Ok (Some (q, x))).
Proof.
  intros H Hq Hq' E.
  destruct (ArenaProps.areach_Rep pfx V peq contains is_bit_set plen lcp pzero mcmp bits ok LAWS am H) as (m & R & M & W).
  destruct (Refine2.insert_stores_repr_full pfx V peq contains is_bit_set plen lcp pzero mcmp bits ok LAWS m q q' x W Hq Hq' E)
    as (I1 & I2 & _).
  split.
  - destruct (ArenaThm.insert_sim pfx V peq contains is_bit_set plen lcp pzero am m q x R M) as (am' & EI & R').
    assert (ST : a_step2 (AOld (AIns q x)) am = Ok am') by (cbn [Arena2.a_step2 Arena.a_step]; rewrite EI; reflexivity).
    pose proof (ArenaProps.areach_step pfx V peq contains is_bit_set plen lcp pzero ok (AOld (AIns q x)) am am' H Hq ST) as H'.
    destruct (ArenaProps.areach_Rep pfx V peq contains is_bit_set plen lcp pzero mcmp bits ok LAWS am' H') as (m' & R2 & M2 & _).
    pose proof (ArenaProps.Rep_fun pfx V am' _ _ R2 R') as EM. subst m'.
    exists am', (snd (Trie.insert pfx V peq contains is_bit_set plen lcp m q x)).
    split; [exact EI|]. split; [exact H'|].
    rewrite (Arena3Thm.get_key_value_sim pfx V peq contains is_bit_set plen lcp pzero am' _ q' R' M2). f_equal. exact I1.
  - destruct (Arena2Thm.entry_insert_sim pfx V peq contains is_bit_set plen lcp pzero am m q x R M) as (am' & EI & R').
    assert (ST : a_step2 (AEntryIns q x) am = Ok am') by (cbn [Arena2.a_step2]; rewrite EI; reflexivity).
    pose proof (ArenaProps.areach_step pfx V peq contains is_bit_set plen lcp pzero ok (AEntryIns q x) am am' H Hq ST) as H'.
    destruct (ArenaProps.areach_Rep pfx V peq contains is_bit_set plen lcp pzero mcmp bits ok LAWS am' H') as (m' & R2 & M2 & _).
    pose proof (ArenaProps.Rep_fun pfx V am' _ _ R2 R') as EM. subst m'.
    eexists am', _. split; [exact EI|]. split; [exact H'|].
    rewrite (Arena3Thm.get_key_value_sim pfx V peq contains is_bit_set plen lcp pzero am' _ q' R' M2). f_equal.
    revert I2. cbn [History.step]. unfold Arena2.t_entry_insert, History.occupied.
    destruct (Trie.get pfx V peq contains is_bit_set plen (root m) q); cbn [fst]; auto.
Qed.

End AK.

Print Assumptions arena_C18_key_only.
Print Assumptions arena_C18_insert_stores_repr.
