(** C01, return values, about the ARENA transcription: every mutating call of the arena-level code
    returns what the abstract map returns — the value stored under the key of [q] before the call
    ([Refine.a_get es q], where [es] is the arena's iteration before the call), [None] if there is none —
    and leaves an arena that iterates the abstract result. *)
From Coq Require Import List NArith ZArith Bool Arith Lia.
From PT Require Import Bits Laws Trie TrieWf Slots History Refine
     Arena ArenaThm Arena2 Arena2Thm ArenaProps ArenaRefine.
Import ListNotations.

Section AO.
Variables (pfx V : Type).
Variables (peq contains : pfx -> pfx -> bool) (is_bit_set : pfx -> N -> bool)
          (plen : pfx -> N) (lcp : pfx -> pfx -> pfx) (pzero : pfx)
          (mcmp : pfx -> pfx -> comparison).
Variable bits : pfx -> list bool.
Variable ok : pfx -> Prop.
Hypothesis LAWS : prefix_laws pfx peq contains is_bit_set plen lcp pzero mcmp bits ok.

Notation amap := (Arena.amap pfx V).
Notation areach := (ArenaProps.areach pfx V peq contains is_bit_set plen lcp pzero ok).
Notation a_entries := (Arena.a_entries pfx V).
Notation a_insert := (Arena.a_insert pfx V peq contains is_bit_set plen lcp).
Notation a_remove := (Arena.a_remove pfx V peq contains is_bit_set plen).
Notation a_remove_keep_tree := (Arena.a_remove_keep_tree pfx V peq contains is_bit_set plen).
Notation a_entry_insert := (Arena2.a_entry_insert pfx V peq contains is_bit_set plen lcp).
Notation a_entry_remove := (Arena2.a_entry_remove pfx V peq contains is_bit_set plen lcp).
Notation abs_get := (Refine.a_get pfx V bits).
Notation abs_insert := (Refine.a_insert pfx V bits).
Notation abs_without := (Refine.a_without pfx V bits).
Notation step_refines := (Refine.step_refines pfx V peq contains is_bit_set plen lcp pzero mcmp bits ok LAWS).

(** [insert q x]: returns the old value, the arena iterates [a_insert es q x] *)
Theorem arena_C01_insert_returns am es q x : areach am -> ok q -> a_entries am = Ok es ->
  exists am', a_insert am q x = Ok (am', abs_get es q) /\ a_entries am' = Ok (abs_insert es q x).
Proof.
  intros H Hq E.
  destruct (ArenaProps.areach_view pfx V peq contains is_bit_set plen lcp pzero mcmp bits ok LAWS am es H E)
    as (m & R & M & W & ->).
  destruct (ArenaThm.insert_sim pfx V peq contains is_bit_set plen lcp pzero am m q x R M) as (am' & EI & R').
  destruct (step_refines m (OInsert pfx V q x) W (conj Hq I)) as (S1 & S2).
  cbn [History.step Refine.a_step Refine.c_out fst snd] in S1, S2.
  exists am'. split; [rewrite EI, S2; reflexivity|].
  assert (ST : Arena2.a_step2 pfx V peq contains is_bit_set plen lcp pzero (AOld (AIns q x)) am = Ok am')
    by (cbn [Arena2.a_step2 Arena.a_step]; rewrite EI; reflexivity).
  pose proof (ArenaProps.areach_step pfx V peq contains is_bit_set plen lcp pzero ok (AOld (AIns q x)) am am' H Hq ST) as H'.
  destruct (ArenaProps.areach_Rep pfx V peq contains is_bit_set plen lcp pzero mcmp bits ok LAWS am' H') as (m' & R2 & M2 & _).
  pose proof (ArenaProps.Rep_fun pfx V am' _ _ R2 R') as EM. subst m'.
  rewrite (ArenaThm.entries_sim pfx V peq contains is_bit_set plen lcp pzero am' _ R' M2), S1. reflexivity.
Qed.

(** [remove q] / [remove_keep_tree q]: return the value that was stored, the arena iterates
    [a_without es q] *)
Theorem arena_C01_remove_returns am es q : areach am -> ok q -> a_entries am = Ok es ->
  (exists am', a_remove am q = Ok (am', abs_get es q) /\ a_entries am' = Ok (abs_without es q)) /\
  (exists am', a_remove_keep_tree am q = Ok (am', abs_get es q) /\ a_entries am' = Ok (abs_without es q)).
Proof.
  intros H Hq E.
  destruct (ArenaProps.areach_view pfx V peq contains is_bit_set plen lcp pzero mcmp bits ok LAWS am es H E)
    as (m & R & M & W & ->).
  split.
  - destruct (ArenaThm.remove_sim pfx V peq contains is_bit_set plen lcp pzero am m q R M) as (am' & EI & R').
    destruct (step_refines m (ORemove pfx V q) W (conj Hq I)) as (S1 & S2).
    cbn [History.step Refine.a_step Refine.c_out fst snd] in S1, S2.
    exists am'. split; [rewrite EI, S2; reflexivity|].
    assert (ST : Arena2.a_step2 pfx V peq contains is_bit_set plen lcp pzero (AOld (ARem q)) am = Ok am')
      by (cbn [Arena2.a_step2 Arena.a_step]; rewrite EI; reflexivity).
    pose proof (ArenaProps.areach_step pfx V peq contains is_bit_set plen lcp pzero ok (AOld (ARem q)) am am' H Hq ST) as H'.
    destruct (ArenaProps.areach_Rep pfx V peq contains is_bit_set plen lcp pzero mcmp bits ok LAWS am' H') as (m' & R2 & M2 & _).
    pose proof (ArenaProps.Rep_fun pfx V am' _ _ R2 R') as EM. subst m'.
    rewrite (ArenaThm.entries_sim pfx V peq contains is_bit_set plen lcp pzero am' _ R' M2), S1. reflexivity.
  - destruct (ArenaThm.remove_keep_tree_sim pfx V peq contains is_bit_set plen lcp pzero am m q R M) as (am' & EI & R').
    destruct (step_refines m (ORemoveKeepTree pfx V q) W (conj Hq I)) as (S1 & S2).
    cbn [History.step Refine.a_step Refine.c_out fst snd] in S1, S2.
    exists am'. split; [rewrite EI, S2; reflexivity|].
    assert (ST : Arena2.a_step2 pfx V peq contains is_bit_set plen lcp pzero (AOld (ARemKeep q)) am = Ok am')
      by (cbn [Arena2.a_step2 Arena.a_step]; rewrite EI; reflexivity).
    pose proof (ArenaProps.areach_step pfx V peq contains is_bit_set plen lcp pzero ok (AOld (ARemKeep q)) am am' H Hq ST) as H'.
    destruct (ArenaProps.areach_Rep pfx V peq contains is_bit_set plen lcp pzero mcmp bits ok LAWS am' H') as (m' & R2 & M2 & _).
    pose proof (ArenaProps.Rep_fun pfx V am' _ _ R2 R') as EM. subst m'.
    rewrite (ArenaThm.entries_sim pfx V peq contains is_bit_set plen lcp pzero am' _ R' M2), S1. reflexivity.
Qed.

Notation a_entry_insert2 := (Arena2.a_entry_insert pfx V peq contains is_bit_set plen lcp).
(** [entry(q).insert(x)] (occupied or vacant) and [OccupiedEntry::remove] *)
Theorem arena_C01_entry_returns am es q x : areach am -> ok q -> a_entries am = Ok es ->
  (exists am', a_entry_insert am q x = Ok (am', abs_get es q) /\ a_entries am' = Ok (abs_insert es q x)) /\
  (exists am', a_entry_remove am q = Ok (am', abs_get es q) /\ a_entries am' = Ok (abs_without es q)).
Proof.
  intros H Hq E.
  destruct (ArenaProps.areach_view pfx V peq contains is_bit_set plen lcp pzero mcmp bits ok LAWS am es H E)
    as (m & R & M & W & ->).
  split.
  - destruct (Arena2Thm.entry_insert_sim pfx V peq contains is_bit_set plen lcp pzero am m q x R M) as (am' & EI & R').
    destruct (step_refines m (OEntryInsert pfx V q x) W (conj Hq I)) as (S1 & S2).
    cbn [History.step Refine.a_step Refine.c_out fst snd] in S1, S2.
    assert (ST : Arena2.a_step2 pfx V peq contains is_bit_set plen lcp pzero (AEntryIns q x) am = Ok am')
      by (cbn [Arena2.a_step2]; rewrite EI; reflexivity).
    pose proof (ArenaProps.areach_step pfx V peq contains is_bit_set plen lcp pzero ok (AEntryIns q x) am am' H Hq ST) as H'.
    destruct (ArenaProps.areach_Rep pfx V peq contains is_bit_set plen lcp pzero mcmp bits ok LAWS am' H') as (m' & R2 & M2 & _).
    pose proof (ArenaProps.Rep_fun pfx V am' _ _ R2 R') as EM. subst m'.
    exists am'. split.
    + rewrite EI. f_equal. f_equal. rewrite <- S2. unfold Arena2.t_entry_insert, History.occupied.
      destruct (Trie.get pfx V peq contains is_bit_set plen (root m) q); reflexivity.
    + rewrite (ArenaThm.entries_sim pfx V peq contains is_bit_set plen lcp pzero am' _ R' M2). f_equal.
      rewrite <- S1. unfold Arena2.t_entry_insert, History.occupied.
      destruct (Trie.get pfx V peq contains is_bit_set plen (root m) q); reflexivity.
  - destruct (Arena2Thm.entry_remove_sim pfx V peq contains is_bit_set plen lcp pzero am m q R M) as (am' & EI & R').
    destruct (step_refines m (OOccRemove pfx V q) W (conj Hq I)) as (S1 & S2).
    cbn [History.step Refine.a_step Refine.c_out fst snd] in S1, S2.
    assert (ST : Arena2.a_step2 pfx V peq contains is_bit_set plen lcp pzero (AEntryRem q) am = Ok am')
      by (cbn [Arena2.a_step2]; rewrite EI; reflexivity).
    pose proof (ArenaProps.areach_step pfx V peq contains is_bit_set plen lcp pzero ok (AEntryRem q) am am' H Hq ST) as H'.
    destruct (ArenaProps.areach_Rep pfx V peq contains is_bit_set plen lcp pzero mcmp bits ok LAWS am' H') as (m' & R2 & M2 & _).
    pose proof (ArenaProps.Rep_fun pfx V am' _ _ R2 R') as EM. subst m'.
    exists am'. split.
    + rewrite EI. f_equal. f_equal. rewrite <- S2. unfold Arena2.t_entry_remove, History.occupied.
      destruct (Trie.get pfx V peq contains is_bit_set plen (root m) q); reflexivity.
    + rewrite (ArenaThm.entries_sim pfx V peq contains is_bit_set plen lcp pzero am' _ R' M2). f_equal.
      rewrite <- S1. unfold Arena2.t_entry_remove, History.occupied.
      destruct (Trie.get pfx V peq contains is_bit_set plen (root m) q); reflexivity.
Qed.
End AO.

Print Assumptions arena_C01_insert_returns.
Print Assumptions arena_C01_remove_returns.
Print Assumptions arena_C01_entry_returns.
