(** The properties C01-C20 stated directly about the ARENA transcription ([Arena.v], [Arena2.v],
    [Arena3.v]) of the Rust code, for every arena state reachable from the empty arena by a history
    over the whole mutator alphabet [Arena2.aop2].

    Every theorem [arena_Cnn_...] below is the COMPOSITION of
    - a simulation theorem ([ArenaThm], [Arena2Thm], [Arena3Thm]: the arena operation returns [Ok] of
      exactly what the tree operation returns, on every arena that represents a tree), and
    - the tree-level property theorem ([Lookup], [Lookup2], [IterExtra], [Mutate], [Retain], [Slots],
      [Canon], [History], [Refine], [UnionThm], [InterDiffThm]),
    glued by the invariant proved here: the tree represented by a reachable arena is well-formed
    ([areach_Rep]).

    ** Reachability.  [areach am] = [am] is the result of [Arena2.a_run2 ops] for a history [ops]
    whose prefix arguments are valid ([Forall aop2_ok ops]; closures, values and view paths are
    arbitrary).  This is [Arena2Thm.reachable2] restricted to valid arguments.  The restriction is
    necessary under the abstract laws: [Laws.prefix_laws] constrains the prefix operations on valid
    prefixes only, so nothing is known about [peq]/[contains]/[lcp] on an invalid argument, and the
    tree reached is then not well-formed in general.

    ** About [PEQ_LEN].  The history section of [Arena2Thm] assumes
    [PEQ_LEN : forall p q, peq p q = true -> plen p = plen q] and [ZERO_LEN : plen pzero = 0].
    [ZERO_LEN] follows from the laws ([zero_len] below).  [PEQ_LEN] follows from the laws for VALID
    [p], [q] only ([peq_len_ok] below); for arbitrary [p], [q] it is NOT derivable from
    [prefix_laws] (every law has [ok] premises).  [PEQ_LEN] was used for one thing: the guard
    [Arena2Thm.rc_guard] of [remove_children].  Here the guard is obtained from well-formedness of
    the represented tree and validity of the selector instead ([wf_rc_guard]), and the one-step and
    history simulations are re-derived with the invariant "[minv] and [wf_root]" in place of
    "[minv] and [rootz]" ([step2_ok_sim], [run2_ok_sim]).  Only [LAWS] remains. *)
From Coq Require Import List NArith ZArith Bool Arith Lia Sorted Permutation.
From PT Require Import Bits BitsThm Laws Machine Trie Views SetOps TrieWf Lookup Mutate Lookup2 Slots
     Retain Canon History Refine IterExtra UnionThm InterDiffThm MutTrav
     Arena ArenaThm Arena2 Arena2Thm Arena3 Arena3Thm.
Import ListNotations.

Section AP.
Variables (pfx V : Type).
Variables (peq contains : pfx -> pfx -> bool) (is_bit_set : pfx -> N -> bool)
          (plen : pfx -> N) (lcp : pfx -> pfx -> pfx) (pzero : pfx)
          (mcmp : pfx -> pfx -> comparison).
Variable bits : pfx -> list bool.
Variable ok : pfx -> Prop.
Hypothesis LAWS : prefix_laws pfx peq contains is_bit_set plen lcp pzero mcmp bits ok.

Notation tree := (Trie.tree pfx V).
Notation pmap := (Trie.pmap pfx V).
Notation amap := (Arena.amap pfx V).
Notation aop2 := (Arena2.aop2 pfx V).
Notation wf_under := (TrieWf.wf_under pfx V bits ok).
Notation wf_root := (TrieWf.wf_root pfx V bits ok).
Notation key := (TrieWf.key pfx V bits).
Notation key_lt := (TrieWf.key_lt pfx V bits).
Notation root_covers := (Lookup.root_covers pfx V bits).
Notation minv := (Slots.minv pfx V).
Notation cinv := (Slots.cinv pfx V).
Notation canonical := (Canon.canonical pfx V).
Notation Rep := (ArenaThm.Rep pfx V).
Notation tpfx := (Trie.tpfx pfx V pzero).
Notation empty := (Trie.empty pfx V pzero).
Notation a_empty := (Arena.a_empty pfx V pzero).

Notation get := (Trie.get pfx V peq contains is_bit_set plen).
Notation get_key_value := (Trie.get_key_value pfx V peq contains is_bit_set plen).
Notation contains_key := (Trie.contains_key pfx V peq contains is_bit_set plen).
Notation get_lpm := (Trie.get_lpm pfx V peq contains is_bit_set plen).
Notation get_lpm_prefix := (Trie.get_lpm_prefix pfx V peq contains is_bit_set plen).
Notation get_lpm_mut := (Trie.get_lpm_mut pfx V peq contains is_bit_set plen).
Notation get_spm := (Trie.get_spm pfx V peq contains is_bit_set plen).
Notation cover_walk := (Trie.cover_walk pfx V peq contains is_bit_set plen).
Notation children_start := (Trie.children_start pfx V peq contains is_bit_set plen).
Notation remove_children := (Trie.remove_children pfx V peq contains is_bit_set plen pzero).
Notation retain := (Trie.retain pfx V).

Notation a_get := (Arena.a_get pfx V peq contains is_bit_set plen).
Notation a_get_lpm := (Arena.a_get_lpm pfx V peq contains is_bit_set plen).
Notation a_entries := (Arena.a_entries pfx V).
Notation a_insert := (Arena.a_insert pfx V peq contains is_bit_set plen lcp).
Notation a_remove := (Arena.a_remove pfx V peq contains is_bit_set plen).
Notation a_remove_keep_tree := (Arena.a_remove_keep_tree pfx V peq contains is_bit_set plen).
Notation a_remove_children := (Arena2.a_remove_children pfx V peq contains is_bit_set plen lcp pzero).
Notation a_remove_children_fuel := (Arena2.a_remove_children_fuel pfx V peq contains is_bit_set plen lcp pzero).
Notation a_retain := (Arena2.a_retain pfx V).
Notation a_retain_fuel := (Arena2.a_retain_fuel pfx V).
Notation a_entry := (Arena2.a_entry pfx V peq contains is_bit_set plen lcp).
Notation a_entry_loop := (Arena2.a_entry_loop pfx V peq contains is_bit_set plen lcp).
Notation a_entry_insert := (Arena2.a_entry_insert pfx V peq contains is_bit_set plen lcp).
Notation a_entry_remove := (Arena2.a_entry_remove pfx V peq contains is_bit_set plen lcp).
Notation a_entry_and_modify := (Arena2.a_entry_and_modify pfx V peq contains is_bit_set plen lcp).
Notation a_get_mut := (Arena2.a_get_mut pfx V peq contains is_bit_set plen).
Notation a_get_mut_loop := (Arena2.a_get_mut_loop pfx V peq contains is_bit_set plen).
Notation a_step2 := (Arena2.a_step2 pfx V peq contains is_bit_set plen lcp pzero).
Notation t_step2 := (Arena2.t_step2 pfx V peq contains is_bit_set plen lcp pzero).
Notation a_run2_from := (Arena2.a_run2_from pfx V peq contains is_bit_set plen lcp pzero).
Notation a_run2 := (Arena2.a_run2 pfx V peq contains is_bit_set plen lcp pzero).
Notation t_run2_from := (Arena2.t_run2_from pfx V peq contains is_bit_set plen lcp pzero).
Notation t_run2 := (Arena2.t_run2 pfx V peq contains is_bit_set plen lcp pzero).
Notation t_vm := (Arena2.t_vm pfx V).
Notation a_get_key_value := (Arena3.a_get_key_value pfx V peq contains is_bit_set plen).
Notation a_contains_key := (Arena3.a_contains_key pfx V peq contains is_bit_set plen).
Notation a_get_lpm_prefix := (Arena3.a_get_lpm_prefix pfx V peq contains is_bit_set plen).
Notation a_get_lpm_mut := (Arena3.a_get_lpm_mut pfx V peq contains is_bit_set plen).
Notation a_get_spm := (Arena3.a_get_spm pfx V peq contains is_bit_set plen).
Notation a_get_spm_prefix := (Arena3.a_get_spm_prefix pfx V peq contains is_bit_set plen).
Notation a_children_start := (Arena3.a_children_start pfx V peq contains is_bit_set plen).
Notation a_children := (Arena3.a_children pfx V peq contains is_bit_set plen).
Notation a_cover := (Arena3.a_cover pfx V peq contains is_bit_set plen).
Notation a_cover_next := (Arena3.a_cover_next pfx V peq contains is_bit_set plen).
Notation cover_reach := (Arena3Thm.cover_reach pfx V peq contains is_bit_set plen).

Notation hop := (History.op pfx V).
Notation hstep := (History.step pfx V peq contains is_bit_set plen lcp pzero).
Notation hop_ok := (History.op_ok pfx V ok).

Notation live := (ArenaThm.live pfx V).
Notation edge := (ArenaThm.edge pfx V).
Notation slot := (ArenaThm.slot pfx V).

(* ------------------------------------------------------------------------------------------ *)
(** * The two facts of [Arena2Thm]'s history section, from the laws *)

(** [ZERO_LEN] *)
Lemma zero_len : plen pzero = 0%N.
Proof.
  rewrite (plen_bits _ _ _ _ _ _ _ _ _ _ LAWS pzero (zero_ok _ _ _ _ _ _ _ _ _ _ LAWS)).
  rewrite (zero_spec _ _ _ _ _ _ _ _ _ _ LAWS). reflexivity.
Qed.

(** [PEQ_LEN], on valid prefixes (the only form the laws give) *)
Lemma peq_len_ok p q : ok p -> ok q -> peq p q = true -> plen p = plen q.
Proof.
  intros Hp Hq E. apply (peq_spec _ _ _ _ _ _ _ _ _ _ LAWS p q Hp Hq) in E.
  rewrite (plen_bits _ _ _ _ _ _ _ _ _ _ LAWS p Hp), (plen_bits _ _ _ _ _ _ _ _ _ _ LAWS q Hq), E.
  reflexivity.
Qed.

(** the guard of [remove_children] from well-formedness: the root's key is valid and empty *)
Lemma wf_rc_guard (m : pmap) q : wf_root (root m) -> ok q -> Arena2Thm.rc_guard pfx V peq plen pzero m q.
Proof.
  intros W Hq NZ. destruct (root m) as [|i p v l r]; [destruct W|]. destruct W as [E (Hp & _)].
  cbn [Trie.tpfx]. destruct (peq p q) eqn:PE; [|reflexivity].
  apply (peq_len_ok p q Hp Hq) in PE.
  rewrite (plen_bits _ _ _ _ _ _ _ _ _ _ LAWS p Hp), E in PE. cbn in PE. rewrite <- PE in NZ. discriminate.
Qed.

(* ------------------------------------------------------------------------------------------ *)
(** * Valid histories; the tree side through [History.step] *)

(** the prefix arguments of an operation are valid *)
Definition aop2_ok (o : aop2) : Prop :=
  match o with
  | AOld (AIns q _) | AOld (ARem q) | AOld (ARemKeep q)
  | ARemChildren q | AEntryIns q _ | AEntryRem q | AEntryMod q _ | AGetMut q _ => ok q
  | _ => True
  end.

(** the operations that are not writes through a [TrieViewMut] *)
Definition nonview (o : aop2) : bool :=
  match o with AVmSet _ _ | AVmRem _ | AVmMut _ _ => false | _ => true end.

(** the operation of [History.v] a non-view arena operation stands for *)
Definition to_hop (o : aop2) : hop :=
  match o with
  | AOld (AIns q x) => OInsert pfx V q x
  | AOld (ARem q) => ORemove pfx V q
  | AOld (ARemKeep q) => ORemoveKeepTree pfx V q
  | AClear => OClear pfx V
  | ARemChildren q => ORemoveChildren pfx V q
  | ARetain f => ORetain pfx V f
  | AEntryIns q x => OEntryInsert pfx V q x
  | AEntryRem q => OOccRemove pfx V q
  | AEntryMod q g => OUpdate pfx V q g
  | AGetMut q g => OUpdate pfx V q g
  | AVmSet pa x => OViewSet pfx V pa x
  | AVmRem pa => OViewRemove pfx V pa
  | AVmMut _ _ => OClear pfx V      (* not used: [nonview] excludes it *)
  end.

Lemma t_step2_hop o m : nonview o = true -> t_step2 o m = hstep m (to_hop o).
Proof.
  destruct o as [o| |q|f|q x|q|q g|q g|pa x|pa|pa g]; cbn [nonview]; intros NV; try discriminate;
    cbn [Arena2.t_step2 to_hop History.step].
  - destruct o; reflexivity.
  - reflexivity.
  - reflexivity.
  - reflexivity.
  - unfold Arena2.t_entry_insert, History.occupied. destruct (get (root m) q); reflexivity.
  - unfold Arena2.t_entry_remove, History.occupied. destruct (get (root m) q); reflexivity.
  - reflexivity.
  - reflexivity.
Qed.

Lemma to_hop_ok o : aop2_ok o -> hop_ok (to_hop o).
Proof.
  destruct o as [o| |q|f|q x|q|q g|q g|pa x|pa|pa g]; cbn; try exact (fun H => H); try exact (fun _ => I).
  destruct o; exact (fun H => H).
Qed.

(** the three view writes are [subst] at the designated node *)
Lemma t_vm_wf m pa v' : wf_root (root m) ->
  wf_root (root (t_vm m pa (fun T => subst T pa (set_tval (subtree T pa) v')))).
Proof.
  intros W. unfold Arena2.t_vm. destruct (is_node (subtree (root m) pa)); [|exact W].
  cbn [root]. apply (History.subst_set_wf_root pfx V bits ok). exact W.
Qed.

Lemma t_vm_minv m pa v' : minv m ->
  minv (t_vm m pa (fun T => subst T pa (set_tval (subtree T pa) v'))).
Proof.
  intros M. unfold Arena2.t_vm. destruct (is_node (subtree (root m) pa)); [|exact M].
  unfold Slots.minv in *. cbn [root Trie.al].
  eapply Slots.slots_ok_ext; [|reflexivity|reflexivity|exact M]. apply Slots.subst_ids.
Qed.

(** well-formedness is kept by every step with valid arguments *)
Lemma t_step2_wf o m : aop2_ok o -> wf_root (root m) -> wf_root (root (t_step2 o m)).
Proof.
  intros Ho W. destruct (nonview o) eqn:NV.
  - rewrite (t_step2_hop o m NV).
    apply (History.step_wf pfx V peq contains is_bit_set plen lcp pzero mcmp bits ok LAWS);
      [apply to_hop_ok; exact Ho|exact W].
  - destruct o as [o| |q|f|q x|q|q g|q g|pa x|pa|pa g]; try discriminate; cbn [Arena2.t_step2].
    + exact (t_vm_wf m pa (Some x) W).
    + exact (t_vm_wf m pa None W).
    + exact (t_vm_wf m pa (option_map g (tval (subtree (root m) pa))) W).
Qed.

Lemma t_step2_minv o m : minv m -> minv (t_step2 o m).
Proof.
  intros M. destruct (nonview o) eqn:NV.
  - rewrite (t_step2_hop o m NV). apply History.step_minv. exact M.
  - destruct o as [o| |q|f|q x|q|q g|q g|pa x|pa|pa g]; try discriminate; cbn [Arena2.t_step2].
    + exact (t_vm_minv m pa (Some x) M).
    + exact (t_vm_minv m pa None M).
    + exact (t_vm_minv m pa (option_map g (tval (subtree (root m) pa))) M).
Qed.

(* ------------------------------------------------------------------------------------------ *)
(** * One step and whole histories: the arena never fails and represents the tree reached
    ([Arena2Thm.step2_sim] / [run2_from_sim] with the invariant [wf_root] in place of [rootz]) *)

Theorem step2_ok_sim o am m : aop2_ok o -> Rep am m -> minv m -> wf_root (root m) ->
  exists am', a_step2 o am = Ok am' /\ Rep am' (t_step2 o m) /\ minv (t_step2 o m) /\
              wf_root (root (t_step2 o m)).
Proof.
  intros Ho R M W.
  assert (X : exists am', a_step2 o am = Ok am' /\ Rep am' (t_step2 o m)).
  { destruct o as [o| |q|f|q x|q|q g|q g|pa x|pa|pa g]; cbn [Arena2.a_step2 Arena2.t_step2].
    - destruct (ArenaThm.step_sim pfx V peq contains is_bit_set plen lcp pzero o am m R M) as (am' & E & R' & _). eauto.
    - eexists. split; [reflexivity|apply Arena2Thm.clear_sim].
    - apply Arena2Thm.remove_children_sim; auto. apply wf_rc_guard; [exact W|exact Ho].
    - destruct (Arena2Thm.retain_sim pfx V peq contains is_bit_set plen lcp pzero am m f R M) as (am' & E & R').
      rewrite E. cbn [rbind]. eauto.
    - destruct (Arena2Thm.entry_insert_sim pfx V peq contains is_bit_set plen lcp pzero am m q x R M) as (am' & E & R').
      rewrite E. cbn [rbind]. eauto.
    - destruct (Arena2Thm.entry_remove_sim pfx V peq contains is_bit_set plen lcp pzero am m q R M) as (am' & E & R').
      rewrite E. cbn [rbind]. eauto.
    - apply Arena2Thm.entry_and_modify_sim; auto.
    - apply Arena2Thm.get_mut_sim; auto.
    - apply Arena2Thm.vm_step_sim; auto. intros i p v l r S.
      destruct (Arena2Thm.vm_set_sim pfx V peq contains is_bit_set plen lcp pzero am m pa x i p v l r R M S)
        as (_ & am' & E & _ & R' & _).
      rewrite E. cbn [rbind]. eauto.
    - apply Arena2Thm.vm_step_sim; auto. intros i p v l r S.
      destruct (Arena2Thm.vm_remove_sim pfx V peq contains is_bit_set plen lcp pzero am m pa i p v l r R M S)
        as (_ & am' & E & R' & _).
      rewrite E. cbn [rbind]. eauto.
    - apply Arena2Thm.vm_step_sim; auto. intros i p v l r S.
      destruct (Arena2Thm.vm_value_mut_sim pfx V peq contains is_bit_set plen lcp pzero am m pa g i p v l r R M S)
        as (_ & am' & E & R' & _).
      rewrite E. cbn [rbind]. eauto. }
  destruct X as (am' & E & R'). exists am'. split; [exact E|]. split; [exact R'|].
  split; [apply t_step2_minv; exact M|apply t_step2_wf; assumption].
Qed.

Theorem run2_from_ok_sim ops : forall am m, Forall aop2_ok ops -> Rep am m -> minv m -> wf_root (root m) ->
  exists am', a_run2_from ops am = Ok am' /\ Rep am' (t_run2_from ops m) /\
              minv (t_run2_from ops m) /\ wf_root (root (t_run2_from ops m)).
Proof.
  induction ops as [|o ops IH]; intros am m F R M W; cbn [Arena2.a_run2_from Arena2.t_run2_from].
  - eauto.
  - inversion F as [|? ? Ho F']; subst.
    destruct (step2_ok_sim o am m Ho R M W) as (am1 & E & R1 & M1 & W1). rewrite E. cbn [rbind]. apply IH; auto.
Qed.

Lemma empty_wf : wf_root (root empty).
Proof. exact (proj1 (Mutate.empty_spec pfx V peq contains is_bit_set plen lcp pzero mcmp bits ok LAWS)). Qed.

(** no step of any valid history panics or runs out of fuel; the arena reached represents the tree
    reached, which is well-formed *)
Theorem run2_ok_sim ops : Forall aop2_ok ops ->
  exists am, a_run2 ops = Ok am /\ Rep am (t_run2 ops) /\ minv (t_run2 ops) /\ wf_root (root (t_run2 ops)).
Proof.
  intros F. exact (run2_from_ok_sim ops a_empty empty F (ArenaThm.Rep_empty pfx V pzero)
                     (Slots.minv_empty pfx V pzero) empty_wf).
Qed.

(** reachable by a valid history all of whose operations satisfy [P] *)
Definition areach_in (P : aop2 -> bool) (am : amap) : Prop :=
  exists ops, Forall aop2_ok ops /\ forallb P ops = true /\ a_run2 ops = Ok am.
(** reachable by a valid history over the whole alphabet *)
Definition areach (am : amap) : Prop := exists ops, Forall aop2_ok ops /\ a_run2 ops = Ok am.

Lemma areach_in_areach P am : areach_in P am -> areach am.
Proof. intros (ops & F & _ & E). exists ops. auto. Qed.

Lemma areach_reachable2 am : areach am -> Arena2Thm.reachable2 pfx V peq contains is_bit_set plen lcp pzero am.
Proof. intros (ops & _ & E). exists ops. exact E. Qed.

Lemma run2_det ops am : Forall aop2_ok ops -> a_run2 ops = Ok am ->
  Rep am (t_run2 ops) /\ minv (t_run2 ops) /\ wf_root (root (t_run2 ops)).
Proof.
  intros F E. destruct (run2_ok_sim ops F) as (am' & E' & R & M & W). rewrite E in E'. injection E' as <-. auto.
Qed.

(** THE GLUE: a reachable arena represents a well-formed tree with consistent slot accounting *)
Theorem areach_Rep am : areach am -> exists m, Rep am m /\ minv m /\ wf_root (root m).
Proof. intros (ops & F & E). exists (t_run2 ops). apply run2_det; assumption. Qed.


(** reachability is closed under every step with valid arguments, and no such step fails: the
    history theorem, one step at a time *)
Lemma a_run2_from_app ops1 ops2 : forall am,
  a_run2_from (ops1 ++ ops2) am = rbind (a_run2_from ops1 am) (a_run2_from ops2).
Proof.
  induction ops1 as [|o ops1 IH]; intros am; cbn [app Arena2.a_run2_from rbind]; [reflexivity|].
  destruct (a_step2 o am) as [am1| |]; cbn [rbind]; [apply IH|reflexivity|reflexivity].
Qed.

Lemma areach_step o am am' : areach am -> aop2_ok o -> a_step2 o am = Ok am' -> areach am'.
Proof.
  intros (ops & F & E) Ho S. exists (ops ++ [o]). split.
  - apply Forall_app. split; [exact F|constructor; [exact Ho|constructor]].
  - unfold Arena2.a_run2 in *. rewrite a_run2_from_app, E. cbn [rbind Arena2.a_run2_from].
    rewrite S. reflexivity.
Qed.

Theorem areach_step_total o am : areach am -> aop2_ok o -> exists am', a_step2 o am = Ok am' /\ areach am'.
Proof.
  intros H Ho. destruct (areach_Rep am H) as (m & R & M & W).
  destruct (step2_ok_sim o am m Ho R M W) as (am' & S & _). exists am'. split; [exact S|].
  exact (areach_step o am am' H Ho S).
Qed.

(** ... and the entry list the arena iterator yields is the entry list of that tree *)
Lemma areach_view am es : areach am -> a_entries am = Ok es ->
  exists m, Rep am m /\ minv m /\ wf_root (root m) /\ es = entries (root m).
Proof.
  intros H E. destruct (areach_Rep am H) as (m & R & M & W). exists m.
  split; [exact R|]. split; [exact M|]. split; [exact W|].
  rewrite (ArenaThm.entries_sim pfx V peq contains is_bit_set plen lcp pzero am m R M) in E.
  injection E as <-. reflexivity.
Qed.

Lemma wfr_under (t : tree) : wf_root t -> wf_under [] t.
Proof. intros H. exact (proj1 (Mutate.wf_root_inv pfx V pzero bits ok t pzero H)). Qed.

Lemma wfr_covers (t : tree) q : wf_root t -> root_covers t q.
Proof. apply Lookup.wf_root_covers. Qed.

(** the represented map is unique: [Rep am] is a partial function *)
Lemma rep_fun tb o (t : tree) : ArenaThm.rep pfx V tb o t -> forall t', ArenaThm.rep pfx V tb o t' -> t = t'.
Proof.
  induction 1 as [|i p v l r ol orr Hs Hl IHl Hr IHr]; intros t' H'.
  - inversion H'. reflexivity.
  - inversion H' as [|i' p' v' l' r' ol' orr' Hs' Hl' Hr']; subst.
    rewrite Hs in Hs'. injection Hs' as <- <- <- <-.
    rewrite (IHl l' Hl'), (IHr r' Hr'). reflexivity.
Qed.

Lemma Rep_fun am m m' : Rep am m -> Rep am m' -> m = m'.
Proof.
  intros (R & F & L & C) (R' & F' & L' & C').
  destruct m as [t [fr al cnt]], m' as [t' [fr' al' cnt']]. cbn [root Trie.al free alen count] in *.
  rewrite (rep_fun _ _ _ R _ R'). congruence.
Qed.

(* ========================================================================================== *)
(** * C01 / C03 — contents and order *)

(** [PrefixMap::iter] on a reachable arena: returns (no panic, fuel suffices) a list that is strictly
    ascending in the iteration order of the keys, stores no key twice, and holds valid prefixes only.
    Composes [ArenaThm.entries_sim] with [TrieWf.entries_sorted] (+ [IterExtra.sorted_nodup_keys],
    [TrieWf.entries_ok]). *)
Theorem arena_C01_entries am : areach am ->
  exists es, a_entries am = Ok es /\ StronglySorted key_lt es /\ NoDup (map key es) /\
             (forall e, In e es -> ok (fst e)).
Proof.
  intros H. destruct (areach_Rep am H) as (m & R & M & W). exists (entries (root m)).
  split; [exact (ArenaThm.entries_sim pfx V peq contains is_bit_set plen lcp pzero am m R M)|].
  pose proof (TrieWf.entries_sorted pfx V bits ok [] (root m) (wfr_under _ W)) as S.
  split; [exact S|]. split; [exact (IterExtra.sorted_nodup_keys pfx V bits _ S)|].
  intros e He. exact (TrieWf.entries_ok pfx V bits ok [] (root m) e (wfr_under _ W) He).
Qed.

(** [get] / [get_key_value] / [contains_key] on a reachable arena are the lookups of the query's KEY in
    the entry list [es] the iterator yields ([Refine.a_get es q] = value of the first = only entry of
    [es] whose key is [bits q]).
    Composes [ArenaThm.get_sim], [Arena3Thm.get_key_value_sim], [Arena3Thm.contains_key_sim] with
    [Refine.get_refines], [Refine.get_key_value_refines], [Refine.contains_key_refines]. *)
Theorem arena_C01_get am es q : areach am -> ok q -> a_entries am = Ok es ->
  a_get am q = Ok (Refine.a_get pfx V bits es q) /\
  a_get_key_value am q = Ok (find (fun e => beq (key e) (bits q)) es) /\
  a_contains_key am q = Ok (match Refine.a_get pfx V bits es q with Some _ => true | None => false end).
Proof.
  intros H Hq E. destruct (areach_view am es H E) as (m & R & M & W & ->).
  split; [|split].
  - rewrite (ArenaThm.get_sim pfx V peq contains is_bit_set plen lcp pzero am m q R M). f_equal.
    exact (Refine.get_refines pfx V peq contains is_bit_set plen lcp pzero mcmp bits ok LAWS (root m) q W Hq).
  - rewrite (Arena3Thm.get_key_value_sim pfx V peq contains is_bit_set plen lcp pzero am m q R M). f_equal.
    exact (Refine.get_key_value_refines pfx V peq contains is_bit_set plen lcp pzero mcmp bits ok LAWS (root m) q W Hq).
  - rewrite (Arena3Thm.contains_key_sim pfx V peq contains is_bit_set plen lcp pzero am m q R M). f_equal.
    pose proof (Refine.contains_key_refines pfx V peq contains is_bit_set plen lcp pzero mcmp bits ok LAWS (root m) q W Hq)
      as [A B].
    destruct (contains_key (root m) q) eqn:CK.
    + specialize (A eq_refl). destruct (Refine.a_get pfx V bits (entries (root m)) q); [reflexivity|congruence].
    + destruct (Refine.a_get pfx V bits (entries (root m)) q) as [x|]; [|reflexivity].
      apply B. discriminate.
Qed.

(** the same in relational form: [get] returns [x] iff [es] holds an entry with the key of [q] and the
    value [x].  Composes [ArenaThm.get_sim] with [Lookup.get_spec]. *)
Theorem arena_C01_get_spec am es q x : areach am -> ok q -> a_entries am = Ok es ->
  (a_get am q = Ok (Some x) <-> exists p, In (p, x) es /\ bits p = bits q).
Proof.
  intros H Hq E. destruct (areach_view am es H E) as (m & R & M & W & ->).
  rewrite (ArenaThm.get_sim pfx V peq contains is_bit_set plen lcp pzero am m q R M).
  rewrite <- (Lookup.get_spec pfx V peq contains is_bit_set plen lcp pzero mcmp bits ok LAWS [] (root m) q x
                (wfr_under _ W) Hq (wfr_covers _ q W)).
  split; [intros [= ->]; reflexivity|intros ->; reflexivity].
Qed.

(* ========================================================================================== *)
(** * C02 — longest-prefix match *)

(** [get_lpm] on a reachable arena returns the entry of [es] with the longest key among those that
    cover [q], and [None] exactly when no entry covers [q]; [get_lpm_prefix] returns its prefix and
    [get_lpm_mut] designates the same entry (with its slot).
    Composes [ArenaThm.get_lpm_sim], [Arena3Thm.get_lpm_prefix_sim], [Arena3Thm.get_lpm_mut_sim]
    with [Lookup.get_lpm_spec], [Lookup.get_lpm_prefix_eq], [Lookup.get_lpm_mut_eq]. *)
Theorem arena_C02_get_lpm am es q : areach am -> ok q -> a_entries am = Ok es ->
  exists o, a_get_lpm am q = Ok o /\
    match o with
    | Some e => Lookup.is_lpm pfx V bits es q e
    | None => Lookup.no_cover pfx V bits es q
    end /\
    a_get_lpm_prefix am q = Ok (option_map fst o) /\
    exists om, a_get_lpm_mut am q = Ok om /\ option_map (Lookup.drop_slot pfx V) om = o.
Proof.
  intros H Hq E. destruct (areach_view am es H E) as (m & R & M & W & ->).
  exists (get_lpm (root m) q).
  split; [exact (ArenaThm.get_lpm_sim pfx V peq contains is_bit_set plen lcp pzero am m q R M)|].
  split; [exact (Lookup.get_lpm_spec pfx V peq contains is_bit_set plen lcp pzero mcmp bits ok LAWS [] (root m) q
                   (wfr_under _ W) Hq (wfr_covers _ q W))|].
  split.
  - rewrite (Arena3Thm.get_lpm_prefix_sim pfx V peq contains is_bit_set plen lcp pzero am m q R M). f_equal.
    apply Lookup.get_lpm_prefix_eq.
  - exists (get_lpm_mut (root m) q).
    split; [exact (Arena3Thm.get_lpm_mut_sim pfx V peq contains is_bit_set plen lcp pzero am m q R M)|].
    apply Lookup.get_lpm_mut_eq.
Qed.

(* ========================================================================================== *)
(** * C09 — cover, shortest-prefix match *)

(** [cover] on a reachable arena yields exactly the entries of [es] that cover [q], in the order of
    [es], which is the order of strictly increasing length; [get_spm] is its first element.
    Composes [Arena3Thm.cover_walk_sim], [Arena3Thm.get_spm_sim], [Arena3Thm.get_spm_prefix_sim]
    with [IterExtra.cover_walk_filter], [Lookup2.cover_walk_sorted], [Lookup2.get_spm_spec]. *)
Theorem arena_C09_cover am es q : areach am -> ok q -> a_entries am = Ok es ->
  a_cover am q = Ok (filter (IterExtra.covering pfx V bits q) es) /\
  StronglySorted (Lookup2.len_lt pfx V bits) (filter (IterExtra.covering pfx V bits q) es) /\
  a_get_spm am q = Ok (hd_error (filter (IterExtra.covering pfx V bits q) es)) /\
  a_get_spm_prefix am q = Ok (option_map fst (hd_error (filter (IterExtra.covering pfx V bits q) es))).
Proof.
  intros H Hq E. destruct (areach_view am es H E) as (m & R & M & W & ->).
  pose proof (IterExtra.cover_walk_filter pfx V peq contains is_bit_set plen lcp pzero mcmp bits ok LAWS [] (root m) q
                (wfr_under _ W) Hq (wfr_covers _ q W)) as CF.
  split; [|split; [|split]].
  - rewrite (Arena3Thm.cover_walk_sim pfx V peq contains is_bit_set plen lcp pzero am m q R M), CF. reflexivity.
  - rewrite <- CF. exact (Lookup2.cover_walk_sorted pfx V peq contains is_bit_set plen bits ok (root m) [] q (wfr_under _ W)).
  - rewrite (Arena3Thm.get_spm_sim pfx V peq contains is_bit_set plen lcp pzero am m q R M).
    rewrite Lookup2.get_spm_spec, CF. reflexivity.
  - rewrite (Arena3Thm.get_spm_prefix_sim pfx V peq contains is_bit_set plen lcp pzero am m q R M).
    unfold Trie.get_spm_prefix. rewrite Lookup2.get_spm_spec, CF. reflexivity.
Qed.

(* ========================================================================================== *)
(** * C10 — children, remove_children, retain *)

(** [children] on a reachable arena yields exactly the entries of [es] covered by [q], in the order
    of [es].  Composes [Arena3Thm.children_sim] with [IterExtra.children_filter]
    (through [MutTrav.children_spec]). *)
Theorem arena_C10_children am es q : areach am -> ok q -> a_entries am = Ok es ->
  a_children am q = Ok (filter (IterExtra.covered_by pfx V bits q) es).
Proof.
  intros H Hq E. destruct (areach_view am es H E) as (m & R & M & W & ->).
  rewrite (Arena3Thm.children_sim pfx V peq contains is_bit_set plen lcp pzero am m q R M). f_equal.
  rewrite <- (IterExtra.children_filter pfx V peq contains is_bit_set plen lcp pzero mcmp bits ok LAWS [] (root m) q
                (wfr_under _ W) Hq (wfr_covers _ q W)).
  rewrite MutTrav.children_spec, IterExtra.map_drop_id_flat. reflexivity.
Qed.

(** [remove_children] on a reachable arena returns [Ok]; afterwards the iterator yields exactly the
    entries of [es] NOT covered by [q], in the order of [es].
    Composes [Arena2Thm.remove_children_sim] (guard from [wf_rc_guard]) and [ArenaThm.entries_sim]
    with [Mutate.remove_children_refines] (+ [Slots.remove_children_minv]). *)
Theorem arena_C10_remove_children am es q : areach am -> ok q -> a_entries am = Ok es ->
  exists am', a_remove_children am q = Ok am' /\ areach am' /\
    a_entries am' = Ok (filter (fun e => negb (is_prefix (bits q) (key e))) es).
Proof.
  intros H Hq E. destruct (areach_view am es H E) as (m & R & M & W & ->).
  destruct (Arena2Thm.remove_children_sim pfx V peq contains is_bit_set plen lcp pzero am m q R M (wf_rc_guard m q W Hq))
    as (am' & E' & R').
  exists am'. split; [exact E'|].
  split; [exact (areach_step (ARemChildren q) am am' H Hq E')|].
  rewrite (ArenaThm.entries_sim pfx V peq contains is_bit_set plen lcp pzero am' _ R'
             (Slots.remove_children_minv pfx V peq contains is_bit_set plen lcp pzero m q M)).
  f_equal. exact (Mutate.remove_children_refines pfx V peq contains is_bit_set plen lcp pzero mcmp bits ok LAWS m q W Hq).
Qed.

(** [retain] with a pure, total predicate [g] on a reachable arena returns [Ok], reports no panic,
    leaves exactly the entries of [es] that satisfy [g] (in the order of [es]), and has called the
    closure exactly once on every entry ([calls] is a permutation of [es]).
    Composes [Arena2Thm.retain_sim] and [ArenaThm.entries_sim] with [Retain.retain_spec]
    (+ [Slots.retain_minv]). *)
Theorem arena_C10_retain am es (f : nat -> pfx -> V -> option bool) (g : pfx -> V -> bool) :
  areach am -> a_entries am = Ok es -> (forall n p x, f n p x = Some (g p x)) ->
  exists am' calls, a_retain f am = Ok (am', false, calls) /\ areach am' /\
    a_entries am' = Ok (filter (fun e => g (fst e) (snd e)) es) /\ Permutation calls es.
Proof.
  intros H E Hf. destruct (areach_view am es H E) as (m & R & M & W & ->).
  destruct (Arena2Thm.retain_sim pfx V peq contains is_bit_set plen lcp pzero am m f R M) as (am' & E' & R').
  pose proof (Slots.retain_minv pfx V peq contains is_bit_set plen lcp pzero f m M) as M'.
  destruct (retain f m) as [[m' pk] calls] eqn:RT. cbn [fst snd] in *.
  assert (Hfg : forall n p x c, f n p x = Some c -> c = g p x).
  { intros n p x c Hc. rewrite Hf in Hc. congruence. }
  destruct (Retain.retain_spec pfx V bits ok f g Hfg m m' pk calls W RT) as (_ & _ & _ & _ & _ & PF & PT).
  assert (pk = false).
  { destruct pk; [|reflexivity]. destruct (PT eq_refl) as (e & _ & _ & N). rewrite Hf in N. discriminate. }
  subst pk. destruct (PF eq_refl) as (EF & PM & _).
  exists am', calls. split; [exact E'|].
  split; [apply (areach_step (ARetain f) am am' H Logic.I); cbn [Arena2.a_step2]; rewrite E'; reflexivity|].
  split; [|exact PM].
  rewrite (ArenaThm.entries_sim pfx V peq contains is_bit_set plen lcp pzero am' m' R' M'). f_equal. exact EF.
Qed.

(* ========================================================================================== *)
(** * C04 — len() *)

(** every operation but the two writes through a [TrieViewMut] that create or delete an entry *)
Definition counts2 (o : aop2) : bool :=
  match o with AVmSet _ _ | AVmRem _ => false | _ => true end.

Lemma t_step2_cinv o m : counts2 o = true -> cinv m -> cinv (t_step2 o m).
Proof.
  intros Hc C. destruct (nonview o) eqn:NV.
  - rewrite (t_step2_hop o m NV). apply History.step_cinv; [|exact C].
    destruct o as [o| |q|f|q x|q|q g|q g|pa x|pa|pa g]; try discriminate; try reflexivity.
    destruct o; reflexivity.
  - destruct o as [o| |q|f|q x|q|q g|q g|pa x|pa|pa g]; try discriminate.
    cbn [Arena2.t_step2]. unfold Arena2.t_vm. destruct (is_node (subtree (root m) pa)); [|exact C].
    unfold Slots.cinv in *. cbn [root Trie.al].
    rewrite (proj2 (MutTrav.vm_value_mut_count pfx V (root m) (mkvmut pfx pa None) g)). exact C.
Qed.

Lemma t_run2_from_cinv ops : forall m, forallb counts2 ops = true -> cinv m -> cinv (t_run2_from ops m).
Proof.
  induction ops as [|o ops IH]; intros m Hc C; cbn [Arena2.t_run2_from]; [exact C|].
  cbn [forallb] in Hc. apply andb_true_iff in Hc. destruct Hc as [H1 H2].
  apply IH; [exact H2|apply t_step2_cinv; assumption].
Qed.

(** [len()] of a reachable arena = the number of entries the iterator yields, for every valid history
    without [TrieViewMut::set] / [TrieViewMut::remove] (which cannot reach the counter: see
    [Arena2Test.view_counter_drift]).
    Composes [run2_ok_sim] (the [acount] clause of [Rep]) and [ArenaThm.entries_sim] with the
    tree-level counter lemmas of [Slots] (through [History.step_cinv]) and
    [MutTrav.vm_value_mut_count]. *)
Theorem arena_C04_count am es : areach_in counts2 am -> a_entries am = Ok es ->
  acount am = Z.of_nat (length es).
Proof.
  intros (ops & F & Hc & E) EE. destruct (run2_det ops am F E) as (R & M & W).
  rewrite (ArenaThm.entries_sim pfx V peq contains is_bit_set plen lcp pzero am _ R M) in EE. injection EE as <-.
  pose proof (t_run2_from_cinv ops empty Hc (Slots.cinv_empty pfx V pzero)) as C.
  destruct R as (_ & _ & _ & ->). exact C.
Qed.

(* ========================================================================================== *)
(** * C16 — structure of the arena *)

(** [Arena2Thm.reachable_structure2] with [LAWS] only: every live slot exists, links are in bounds, live
    slots are not on the free list, no slot is linked twice, the root is not linked, and live + free
    slots partition the table.  Composes [areach_Rep] with the structure theorems of [ArenaThm]. *)
Theorem arena_C16_structure am : areach am ->
  (forall i, live (tbl am) i -> exists n, slot (tbl am) i = Some n) /\
  (forall i rt j, live (tbl am) i -> edge (tbl am) i rt j -> (j < N.of_nat (length (tbl am)))%N) /\
  (forall i, live (tbl am) i -> ~ In i (afree am)) /\
  (forall i1 rt1 i2 rt2 j, live (tbl am) i1 -> live (tbl am) i2 ->
     edge (tbl am) i1 rt1 j -> edge (tbl am) i2 rt2 j -> i1 = i2 /\ rt1 = rt2) /\
  (forall i rt, live (tbl am) i -> ~ edge (tbl am) i rt 0%N) /\
  (forall i, (i < N.of_nat (length (tbl am)))%N <-> (live (tbl am) i \/ In i (afree am))).
Proof.
  intros H. destruct (areach_Rep am H) as (m & R & M & _).
  split; [exact (ArenaThm.live_in_bounds pfx V peq contains is_bit_set plen lcp pzero am m R M)|].
  split; [exact (ArenaThm.links_in_bounds pfx V peq contains is_bit_set plen lcp pzero am m R M)|].
  split; [exact (ArenaThm.live_not_free pfx V peq contains is_bit_set plen lcp pzero am m R M)|].
  split; [exact (ArenaThm.no_double_link pfx V peq contains is_bit_set plen lcp pzero am m R M)|].
  split; [exact (ArenaThm.root_not_linked pfx V peq contains is_bit_set plen lcp pzero am m R M)|].
  exact (ArenaThm.slots_partition pfx V peq contains is_bit_set plen lcp pzero am m R M).
Qed.

(* ========================================================================================== *)
(** * C15 — well-formedness and canonical shape *)

(** a reachable arena represents exactly one map of the tree model, and that tree is well-formed
    (every node's key is valid and extends its parent's key on the side of the link; the root's key
    is empty).  [areach_Rep] + [Rep_fun]; the tree side is [History.step_wf] ([Mutate]'s [*_spec]
    lemmas, [Retain.retain_wf], [History.subst_set_wf_root]). *)
Theorem arena_C15_wf am : areach am ->
  exists m, Rep am m /\ minv m /\ wf_root (root m) /\ (forall m', Rep am m' -> m' = m).
Proof.
  intros H. destruct (areach_Rep am H) as (m & R & M & W). exists m.
  split; [exact R|]. split; [exact M|]. split; [exact W|].
  intros m' R'. exact (Rep_fun am m' m R' R).
Qed.

(** the canonical sub-alphabet: insert, remove, retain, clear, [entry().insert()], and the value-only
    writes [and_modify] / [get_mut] *)
Definition canon2 (o : aop2) : bool :=
  match o with
  | AOld (AIns _ _) | AOld (ARem _) | AClear | ARetain _ | AEntryIns _ _ | AEntryMod _ _ | AGetMut _ _ => true
  | _ => false
  end.

Lemma t_step2_canonical o m : canon2 o = true -> canonical (root m) -> canonical (root (t_step2 o m)).
Proof.
  intros Hc C.
  assert (NV : nonview o = true).
  { destruct o as [o| |q|f|q x|q|q g|q g|pa x|pa|pa g]; try discriminate; reflexivity. }
  rewrite (t_step2_hop o m NV). apply History.step_canonical; [|exact C].
  destruct o as [o| |q|f|q x|q|q g|q g|pa x|pa|pa g]; try discriminate; try reflexivity.
  destruct o; try discriminate; reflexivity.
Qed.

Lemma t_run2_from_canonical ops : forall m, forallb canon2 ops = true -> canonical (root m) ->
  canonical (root (t_run2_from ops m)).
Proof.
  induction ops as [|o ops IH]; intros m Hc C; cbn [Arena2.t_run2_from]; [exact C|].
  cbn [forallb] in Hc. apply andb_true_iff in Hc. destruct Hc as [H1 H2].
  apply IH; [exact H2|apply t_step2_canonical; assumption].
Qed.

(** over the canonical sub-alphabet the represented tree is moreover canonical (no value-less node
    with fewer than two children below the root).  Composes [run2_ok_sim] with
    [History.step_canonical] ([Canon.insert_canonical], [remove_canonical], [retain_canonical_any],
    [vacant_insert_canonical], [clear_canonical]). *)
Theorem arena_C15_canonical am : areach_in canon2 am ->
  exists m, Rep am m /\ wf_root (root m) /\ canonical (root m).
Proof.
  intros (ops & F & Hc & E). destruct (run2_det ops am F E) as (R & M & W).
  exists (t_run2 ops). split; [exact R|]. split; [exact W|].
  exact (t_run2_from_canonical ops empty Hc (Canon.empty_canonical pfx V pzero)).
Qed.

(* ========================================================================================== *)
(** * C20 — totality: no panic, no divergence *)

(** [Arena2Thm.reachable_total2] with [LAWS] only.  Every operation on a reachable arena returns [Ok]
    within the default fuel, for EVERY argument [q] — except [remove_children], whose guard needs a
    valid selector ([ok q]): with an invalid [q] the laws say nothing about [peq (root key) q], and
    [Arena2Test.unlawful_eq_remove_children] shows a panic in that situation.
    Composes [areach_Rep] with the simulation theorems of [ArenaThm] / [Arena2Thm]. *)
Theorem arena_C20_total2 am q x f g : areach am ->
  (exists o, a_get am q = Ok o) /\
  (exists o, a_get_lpm am q = Ok o) /\
  (exists r, a_insert am q x = Ok r) /\
  (exists r, a_remove am q = Ok r) /\
  (exists r, a_remove_keep_tree am q = Ok r) /\
  (exists es, a_entries am = Ok es) /\
  (ok q -> exists am', a_remove_children am q = Ok am') /\
  (exists r, a_retain f am = Ok r) /\
  (exists e, a_entry am q = Ok e) /\
  (exists r, a_entry_insert am q x = Ok r) /\
  (exists r, a_entry_remove am q = Ok r) /\
  (exists am', a_entry_and_modify am q g = Ok am') /\
  (exists am', a_get_mut am q g = Ok am') /\
  (forall fuel, (length (tbl am) <= fuel)%nat ->
     (ok q -> exists am', a_remove_children_fuel fuel fuel am q = Ok am') /\
     (exists r, a_retain_fuel fuel f am = Ok r) /\
     (exists e, a_entry_loop fuel (tbl am) 0%N q = Ok e) /\
     (exists tb', a_get_mut_loop fuel (tbl am) 0%N q g = Ok tb')).
Proof.
  intros H. destruct (areach_Rep am H) as (m & R & M & W).
  split; [rewrite (ArenaThm.get_sim pfx V peq contains is_bit_set plen lcp pzero am m q R M); eauto|].
  split; [rewrite (ArenaThm.get_lpm_sim pfx V peq contains is_bit_set plen lcp pzero am m q R M); eauto|].
  split; [destruct (ArenaThm.insert_sim pfx V peq contains is_bit_set plen lcp pzero am m q x R M) as (? & -> & _); eauto|].
  split; [destruct (ArenaThm.remove_sim pfx V peq contains is_bit_set plen lcp pzero am m q R M) as (? & -> & _); eauto|].
  split; [destruct (ArenaThm.remove_keep_tree_sim pfx V peq contains is_bit_set plen lcp pzero am m q R M) as (? & -> & _); eauto|].
  split; [rewrite (ArenaThm.entries_sim pfx V peq contains is_bit_set plen lcp pzero am m R M); eauto|].
  split; [intros Hq; destruct (Arena2Thm.remove_children_sim pfx V peq contains is_bit_set plen lcp pzero am m q R M
                                 (wf_rc_guard m q W Hq)) as (? & -> & _); eauto|].
  split; [destruct (Arena2Thm.retain_sim pfx V peq contains is_bit_set plen lcp pzero am m f R M) as (? & -> & _); eauto|].
  assert (EN : forall fuel, (length (tbl am) <= fuel)%nat -> exists e, a_entry_loop fuel (tbl am) 0%N q = Ok e).
  { intros fuel F. pose proof (ArenaThm.Rep_height pfx V peq contains is_bit_set plen lcp pzero _ _ R M) as HH.
    pose proof (Arena2Thm.entry_loop_sim pfx V peq contains is_bit_set plen lcp q (root m) fuel (tbl am) 0%N (proj1 R)
                  ltac:(lia)) as E.
    destruct (Trie.get_node pfx V peq contains is_bit_set plen (root m) q) as [[[j pj] [y|]]|];
      [eauto|destruct E as (? & ? & ->); eauto..]. }
  split; [apply EN; lia|].
  split; [destruct (Arena2Thm.entry_insert_sim pfx V peq contains is_bit_set plen lcp pzero am m q x R M) as (? & -> & _); eauto|].
  split; [destruct (Arena2Thm.entry_remove_sim pfx V peq contains is_bit_set plen lcp pzero am m q R M) as (? & -> & _); eauto|].
  split; [destruct (Arena2Thm.entry_and_modify_sim pfx V peq contains is_bit_set plen lcp pzero am m q g R M) as (? & -> & _); eauto|].
  split; [destruct (Arena2Thm.get_mut_sim pfx V peq contains is_bit_set plen lcp pzero am m q g R M) as (? & -> & _); eauto|].
  intros fuel F.
  split; [intros Hq; destruct (Arena2Thm.remove_children_fuel_bound pfx V peq contains is_bit_set plen lcp pzero am m q fuel fuel
                                 R M (wf_rc_guard m q W Hq) F F) as (? & -> & _); eauto|].
  split; [destruct (Arena2Thm.retain_fuel_bound pfx V peq contains is_bit_set plen lcp pzero am m f fuel R M F) as (? & -> & _); eauto|].
  split; [apply EN; exact F|].
  destruct (Arena2Thm.get_mut_fuel_bound pfx V peq contains is_bit_set plen lcp pzero am m q g fuel R M F) as (? & -> & _); eauto.
Qed.

(** [Arena3Thm.reachable_total3] with [LAWS] only: every observer of [Arena3.v] returns [Ok] on a
    reachable arena, for every argument, and the [Cover] iterator can be driven by [next] for ever.
    Composes [areach_Rep] with the simulation theorems of [Arena3Thm]. *)
Theorem arena_C20_total3 am q : areach am ->
  (exists o, a_get_key_value am q = Ok o) /\ (exists o, a_contains_key am q = Ok o) /\
  (exists o, a_get_lpm_prefix am q = Ok o) /\ (exists o, a_get_lpm_mut am q = Ok o) /\
  (exists o, a_get_spm am q = Ok o) /\ (exists o, a_get_spm_prefix am q = Ok o) /\
  (exists st, a_children_start am q = Ok st) /\ (exists es, a_children am q = Ok es) /\
  (exists es, a_cover am q = Ok es) /\
  (forall st, cover_reach (tbl am) q st -> exists r, a_cover_next (S (length (tbl am))) (tbl am) st q = Ok r).
Proof.
  intros H. destruct (areach_Rep am H) as (m & R & M & _).
  split; [rewrite (Arena3Thm.get_key_value_sim pfx V peq contains is_bit_set plen lcp pzero am m q R M); eauto|].
  split; [rewrite (Arena3Thm.contains_key_sim pfx V peq contains is_bit_set plen lcp pzero am m q R M); eauto|].
  split; [rewrite (Arena3Thm.get_lpm_prefix_sim pfx V peq contains is_bit_set plen lcp pzero am m q R M); eauto|].
  split; [rewrite (Arena3Thm.get_lpm_mut_sim pfx V peq contains is_bit_set plen lcp pzero am m q R M); eauto|].
  split; [rewrite (Arena3Thm.get_spm_sim pfx V peq contains is_bit_set plen lcp pzero am m q R M); eauto|].
  split; [rewrite (Arena3Thm.get_spm_prefix_sim pfx V peq contains is_bit_set plen lcp pzero am m q R M); eauto|].
  split; [rewrite (proj1 (Arena3Thm.children_start_sim pfx V peq contains is_bit_set plen lcp pzero am m q R M)); eauto|].
  split; [rewrite (Arena3Thm.children_sim pfx V peq contains is_bit_set plen lcp pzero am m q R M); eauto|].
  split; [rewrite (Arena3Thm.cover_sim pfx V peq contains is_bit_set plen lcp pzero am m q R M); eauto|].
  pose proof (ArenaThm.Rep_height pfx V peq contains is_bit_set plen lcp pzero _ _ R M) as HH.
  assert (NX : forall st cst, Arena3Thm.cst_rep pfx V (tbl am) (length (tbl am)) st cst ->
            exists st', a_cover_next (S (length (tbl am))) (tbl am) st q
                        = Ok (fst (Trie.cover_next pfx V peq contains is_bit_set plen (root m) cst q), st') /\
                        Arena3Thm.cst_rep pfx V (tbl am) (length (tbl am)) st'
                          (snd (Trie.cover_next pfx V peq contains is_bit_set plen (root m) cst q))).
  { intros st cst C.
    apply (Arena3Thm.cover_next_sim pfx V peq contains is_bit_set plen lcp (tbl am) (root m) (length (tbl am))); auto.
    apply R. }
  assert (INV : forall st, cover_reach (tbl am) q st -> exists cst, Arena3Thm.cst_rep pfx V (tbl am) (length (tbl am)) st cst).
  { induction 1 as [|st o st' _ [cst C] E]; [exists CStart; exact Logic.I|].
    destruct (NX st cst C) as (st'' & E' & C'). rewrite E in E'. injection E' as _ <-. eauto. }
  intros st CR. destruct (INV st CR) as (cst & C). destruct (NX st cst C) as (st' & E & _). eauto.
Qed.

End AP.

(* ========================================================================================== *)
(** * C05 - C08 — the set operations on two reachable arenas (value types [L] and [R]), at the roots *)
Section AP2.
Variables (pfx L R : Type).
Variables (peq contains : pfx -> pfx -> bool) (is_bit_set : pfx -> N -> bool)
          (plen : pfx -> N) (lcp : pfx -> pfx -> pfx) (pzero : pfx)
          (mcmp : pfx -> pfx -> comparison).
Variable bits : pfx -> list bool.
Variable ok : pfx -> Prop.
Hypothesis LAWS : prefix_laws pfx peq contains is_bit_set plen lcp pzero mcmp bits ok.

Notation areachL := (areach pfx L peq contains is_bit_set plen lcp pzero ok).
Notation areachR := (areach pfx R peq contains is_bit_set plen lcp pzero ok).
Notation a_union := (Arena3.a_union pfx L R contains is_bit_set plen mcmp).
Notation a_union_mut := (Arena3.a_union_mut pfx L R contains is_bit_set plen mcmp).
Notation a_intersection := (Arena3.a_intersection pfx L R contains is_bit_set plen mcmp).
Notation a_intersection_mut := (Arena3.a_intersection_mut pfx L R contains is_bit_set plen mcmp).
Notation a_difference := (Arena3.a_difference pfx L R contains is_bit_set plen mcmp).
Notation a_difference_mut := (Arena3.a_difference_mut pfx L R contains is_bit_set plen mcmp).
Notation a_covering_difference := (Arena3.a_covering_difference pfx L R contains is_bit_set plen mcmp).
Notation a_covering_difference_mut := (Arena3.a_covering_difference_mut pfx L R contains is_bit_set plen mcmp).
Notation union := (SetOps.union pfx L R contains is_bit_set plen pzero mcmp).
Notation union_mut := (SetOps.union_mut pfx L R contains is_bit_set plen pzero mcmp).
Notation intersection := (SetOps.intersection pfx L R contains is_bit_set plen pzero mcmp).
Notation intersection_mut := (SetOps.intersection_mut pfx L R contains is_bit_set plen pzero mcmp).
Notation difference := (SetOps.difference pfx L R contains is_bit_set plen pzero mcmp).
Notation difference_mut := (SetOps.difference_mut pfx L R contains is_bit_set plen pzero mcmp).
Notation covering_difference := (SetOps.covering_difference pfx L R contains is_bit_set plen pzero mcmp).
Notation covering_difference_mut := (SetOps.covering_difference_mut pfx L R contains is_bit_set plen pzero mcmp).

(** two reachable arenas represent two well-formed trees whose entry lists are what the iterators yield,
    and every one of the eight set-operation iterators run at the two roots returns what the tree
    model's iterator returns ([Arena3Thm.setops_root_sim]) *)
Lemma setops_setup amL amR esL esR :
  areachL amL -> areachR amR -> Arena.a_entries pfx L amL = Ok esL -> Arena.a_entries pfx R amR = Ok esR ->
  exists (tl : Trie.tree pfx L) (tr : Trie.tree pfx R),
    TrieWf.wf_under pfx L bits ok [] tl /\ TrieWf.wf_under pfx R bits ok [] tr /\
    esL = entries tl /\ esR = entries tr /\
    (exists out, union tl tr = Some out /\ a_union (tbl amL) (tbl amR) 0%N 0%N = Ok out) /\
    (exists out, union_mut tl tr = Some out /\ a_union_mut (tbl amL) (tbl amR) 0%N 0%N = Ok out) /\
    (exists out, intersection tl tr = Some out /\ a_intersection (tbl amL) (tbl amR) 0%N 0%N = Ok out) /\
    (exists out, intersection_mut tl tr = Some out /\ a_intersection_mut (tbl amL) (tbl amR) 0%N 0%N = Ok out) /\
    (exists out, difference tl tr = Some out /\ a_difference (tbl amL) (tbl amR) 0%N 0%N = Ok out) /\
    (exists out, difference_mut tl tr = Some out /\ a_difference_mut (tbl amL) (tbl amR) 0%N 0%N = Ok out) /\
    (exists out, covering_difference tl tr = Some out /\ a_covering_difference (tbl amL) (tbl amR) 0%N 0%N = Ok out) /\
    (exists out, covering_difference_mut tl tr = Some out /\
                 a_covering_difference_mut (tbl amL) (tbl amR) 0%N 0%N = Ok out).
Proof.
  intros HL HR EL ER.
  destruct (areach_view pfx L peq contains is_bit_set plen lcp pzero mcmp bits ok LAWS amL esL HL EL) as (mL & RL & ML & WL & ->).
  destruct (areach_view pfx R peq contains is_bit_set plen lcp pzero mcmp bits ok LAWS amR esR HR ER) as (mR & RR & MR & WR & ->).
  exists (root mL), (root mR).
  split; [exact (wfr_under pfx L pzero bits ok _ WL)|]. split; [exact (wfr_under pfx R pzero bits ok _ WR)|].
  split; [reflexivity|]. split; [reflexivity|].
  exact (Arena3Thm.setops_root_sim pfx L R peq contains is_bit_set plen lcp pzero mcmp amL mL amR mR RL ML RR MR).
Qed.

(** C05 + C08 (union side): [union] at the roots of two reachable arenas returns [Ok out] where [out]
    meets [UnionThm.union_spec] against the two entry lists: strictly ascending keys; every item is
    correctly tagged ([ILeft]: stored left only, [IRight]: right only, [IBoth]: both) and its
    LPM annotation is the true longest-prefix match in the OTHER operand ([lpm_ann]); every key of either
    operand occurs.  [union_mut] returns the same keys with the same tags and values.
    Composes [Arena3Thm.setops_root_sim] with [UnionThm.union_correct] and [UnionThm.union_mut_mirrors]. *)
Theorem arena_C05_C08_union amL amR esL esR :
  areachL amL -> areachR amR -> Arena.a_entries pfx L amL = Ok esL -> Arena.a_entries pfx R amR = Ok esR ->
  exists out outm,
    a_union (tbl amL) (tbl amR) 0%N 0%N = Ok out /\ UnionThm.union_spec pfx L R bits esL esR out /\
    a_union_mut (tbl amL) (tbl amR) 0%N 0%N = Ok outm /\
    map (fun it => match it with
                   | ILeft _ _ _ p l _ => (p, Some l, None)
                   | IRight _ _ _ p _ r => (p, None, Some r)
                   | IBoth _ _ _ p l r => (p, Some l, Some r)
                   end) out
    = map (fun '(p, l, r) => (p, option_map snd l, option_map snd r)) outm.
Proof.
  intros HL HR EL ER.
  destruct (setops_setup amL amR esL esR HL HR EL ER)
    as (tl & tr & WL & WR & -> & -> & (o1 & T1 & A1) & (o2 & T2 & A2) & _).
  destruct (UnionThm.union_correct pfx L R peq contains is_bit_set plen lcp pzero mcmp bits ok LAWS [] [] tl tr WL WR)
    as (out & U & S).
  destruct (UnionThm.union_mut_mirrors pfx L R peq contains is_bit_set plen lcp pzero mcmp bits ok LAWS [] [] tl tr WL WR)
    as (out' & outm & U' & UM & MM).
  rewrite U in T1, U'. injection T1 as <-. injection U' as <-. rewrite UM in T2. injection T2 as <-.
  exists out, outm. auto.
Qed.

(** C06: [intersection] returns [Ok out] where [out] meets [InterDiffThm.inter_spec]: strictly ascending
    keys, exactly the keys stored in both operands with the left prefix and both values;
    [intersection_mut] returns the same items (plus slots).
    Composes [Arena3Thm.setops_root_sim] with [InterDiffThm.intersection_correct] and
    [InterDiffThm.intersection_mut_mirrors]. *)
Theorem arena_C06_intersection amL amR esL esR :
  areachL amL -> areachR amR -> Arena.a_entries pfx L amL = Ok esL -> Arena.a_entries pfx R amR = Ok esR ->
  exists out outm,
    a_intersection (tbl amL) (tbl amR) 0%N 0%N = Ok out /\ InterDiffThm.inter_spec pfx L R bits esL esR out /\
    a_intersection_mut (tbl amL) (tbl amR) 0%N 0%N = Ok outm /\
    out = map (fun '(p, (_, l), (_, r)) => (p, l, r)) outm.
Proof.
  intros HL HR EL ER.
  destruct (setops_setup amL amR esL esR HL HR EL ER)
    as (tl & tr & WL & WR & -> & -> & _ & _ & (o1 & T1 & A1) & (o2 & T2 & A2) & _).
  destruct (InterDiffThm.intersection_correct pfx L R peq contains is_bit_set plen lcp pzero mcmp bits ok LAWS [] [] tl tr WL WR)
    as (out & U & S).
  destruct (InterDiffThm.intersection_mut_mirrors pfx L R peq contains is_bit_set plen lcp pzero mcmp bits ok LAWS [] [] tl tr WL WR)
    as (out' & outm & U' & UM & MM & _).
  rewrite U in T1, U'. injection T1 as <-. injection U' as <-. rewrite UM in T2. injection T2 as <-.
  exists out, outm. auto.
Qed.

(** C07 + C08 (difference side): [difference] returns [Ok out] where [out] meets
    [InterDiffThm.diff_spec] (strictly ascending; exactly the left entries whose key is not stored on the
    right; each annotated with its true longest-prefix match on the right), its items are the left
    entries filtered by "key absent on the right" IN THE ORDER of [esL], and [difference_mut] returns
    the same items (plus slots).
    Composes [Arena3Thm.setops_root_sim] with [InterDiffThm.difference_correct],
    [InterDiffThm.difference_filter] and [InterDiffThm.difference_mut_mirrors]. *)
Theorem arena_C07_C08_difference amL amR esL esR :
  areachL amL -> areachR amR -> Arena.a_entries pfx L amL = Ok esL -> Arena.a_entries pfx R amR = Ok esR ->
  exists out outm,
    a_difference (tbl amL) (tbl amR) 0%N 0%N = Ok out /\ InterDiffThm.diff_spec pfx L R bits esL esR out /\
    map fst out = filter (fun e => negb (existsb (fun e' => beq (bits (fst e')) (bits (fst e))) esR)) esL /\
    a_difference_mut (tbl amL) (tbl amR) 0%N 0%N = Ok outm /\
    out = map (fun '(p, (_, l), ann) => (p, l, ann)) outm.
Proof.
  intros HL HR EL ER.
  destruct (setops_setup amL amR esL esR HL HR EL ER)
    as (tl & tr & WL & WR & -> & -> & _ & _ & _ & _ & (o1 & T1 & A1) & (o2 & T2 & A2) & _).
  destruct (InterDiffThm.difference_correct pfx L R peq contains is_bit_set plen lcp pzero mcmp bits ok LAWS [] [] tl tr WL WR)
    as (out & U & S).
  destruct (InterDiffThm.difference_filter pfx L R peq contains is_bit_set plen lcp pzero mcmp bits ok LAWS [] [] tl tr WL WR)
    as (out'' & U'' & FF).
  destruct (InterDiffThm.difference_mut_mirrors pfx L R peq contains is_bit_set plen lcp pzero mcmp bits ok LAWS [] [] tl tr WL WR)
    as (out' & outm & U' & UM & MM & _).
  rewrite U in T1, U', U''. injection T1 as <-. injection U' as <-. injection U'' as <-.
  rewrite UM in T2. injection T2 as <-.
  exists out, outm. auto.
Qed.

(** C07 (covering difference): [covering_difference] returns [Ok out] where [out] meets
    [InterDiffThm.cdiff_spec]: strictly ascending, exactly the left entries that no right entry covers;
    [covering_difference_mut] returns the same items (plus slots).
    Composes [Arena3Thm.setops_root_sim] with [InterDiffThm.covering_difference_correct] and
    [InterDiffThm.covering_difference_mut_mirrors]. *)
Theorem arena_C07_covering_difference amL amR esL esR :
  areachL amL -> areachR amR -> Arena.a_entries pfx L amL = Ok esL -> Arena.a_entries pfx R amR = Ok esR ->
  exists out outm,
    a_covering_difference (tbl amL) (tbl amR) 0%N 0%N = Ok out /\ InterDiffThm.cdiff_spec pfx L R bits esL esR out /\
    a_covering_difference_mut (tbl amL) (tbl amR) 0%N 0%N = Ok outm /\
    out = map (fun '(p, (_, l)) => (p, l)) outm.
Proof.
  intros HL HR EL ER.
  destruct (setops_setup amL amR esL esR HL HR EL ER)
    as (tl & tr & WL & WR & -> & -> & _ & _ & _ & _ & _ & _ & (o1 & T1 & A1) & (o2 & T2 & A2)).
  destruct (InterDiffThm.covering_difference_correct pfx L R peq contains is_bit_set plen lcp pzero mcmp bits ok LAWS [] [] tl tr WL WR)
    as (out & U & S).
  destruct (InterDiffThm.covering_difference_mut_mirrors pfx L R peq contains is_bit_set plen lcp pzero mcmp bits ok LAWS [] [] tl tr WL WR)
    as (out' & outm & U' & UM & MM & _).
  rewrite U in T1, U'. injection T1 as <-. injection U' as <-. rewrite UM in T2. injection T2 as <-.
  exists out, outm. auto.
Qed.

End AP2.

(* ========================================================================================== *)
(** * The concrete prefix type [PrefixN] (any width [w >= 1], each flavour): no hypothesis left *)
From PT Require Import PrefixN PrefixLaws.

Section APN.
Variables (w : N) (fl : flavour) (V : Type).
Hypothesis Hw : (1 <= w)%N.

Notation P := PrefixN.pfx.
Notation PEQ := (PrefixN.peq w).
Notation CON := (PrefixN.contains w fl).
Notation BIT := (PrefixN.is_bit_set w).
Notation LEN := PrefixN.plen.
Notation LCP := (PrefixN.lcp w fl).
Notation ZERO := PrefixN.pzero.
Notation okN := (fun p : P => valid w p = true).

(** reachable from the empty arena by a history over the whole alphabet whose prefix arguments are
    valid ([len <= w], address below [2^w]) *)
Definition areachN (am : amap P V) : Prop := areach P V PEQ CON BIT LEN LCP ZERO okN am.
(** ... without [TrieViewMut::set] / [TrieViewMut::remove] *)
Definition areachN_counted (am : amap P V) : Prop :=
  areach_in P V PEQ CON BIT LEN LCP ZERO okN (counts2 P V) am.

(** C01 / C03 on the concrete instance *)
Theorem arena_N_C01_entries am : areachN am ->
  exists es, a_entries P V am = Ok es /\ StronglySorted (TrieWf.key_lt P V (pbits w)) es /\
             NoDup (map (TrieWf.key P V (pbits w)) es) /\ (forall e, In e es -> valid w (fst e) = true).
Proof. exact (arena_C01_entries P V PEQ CON BIT LEN LCP ZERO (mcmp w) (pbits w) okN (pn_laws w fl Hw) am). Qed.

Theorem arena_N_C01_get am es q : areachN am -> valid w q = true -> a_entries P V am = Ok es ->
  a_get P V PEQ CON BIT LEN am q = Ok (Refine.a_get P V (pbits w) es q) /\
  a_get_key_value P V PEQ CON BIT LEN am q = Ok (find (fun e => beq (TrieWf.key P V (pbits w) e) (pbits w q)) es) /\
  a_contains_key P V PEQ CON BIT LEN am q
  = Ok (match Refine.a_get P V (pbits w) es q with Some _ => true | None => false end).
Proof. exact (arena_C01_get P V PEQ CON BIT LEN LCP ZERO (mcmp w) (pbits w) okN (pn_laws w fl Hw) am es q). Qed.

(** C02 on the concrete instance *)
Theorem arena_N_C02_get_lpm am es q : areachN am -> valid w q = true -> a_entries P V am = Ok es ->
  exists o, a_get_lpm P V PEQ CON BIT LEN am q = Ok o /\
    match o with
    | Some e => Lookup.is_lpm P V (pbits w) es q e
    | None => Lookup.no_cover P V (pbits w) es q
    end /\
    a_get_lpm_prefix P V PEQ CON BIT LEN am q = Ok (option_map fst o) /\
    exists om, a_get_lpm_mut P V PEQ CON BIT LEN am q = Ok om /\ option_map (Lookup.drop_slot P V) om = o.
Proof. exact (arena_C02_get_lpm P V PEQ CON BIT LEN LCP ZERO (mcmp w) (pbits w) okN (pn_laws w fl Hw) am es q). Qed.

(** C04 on the concrete instance *)
Theorem arena_N_C04_count am es : areachN_counted am -> a_entries P V am = Ok es ->
  acount am = Z.of_nat (length es).
Proof. exact (arena_C04_count P V PEQ CON BIT LEN LCP ZERO (mcmp w) (pbits w) okN (pn_laws w fl Hw) am es). Qed.

(** C20 on the concrete instance: no observer and no mutator panics or diverges on a reachable arena
    (the selector of [remove_children] must be valid) *)
Theorem arena_N_C20_total am q x f g : areachN am -> valid w q = true ->
  (exists o, a_get P V PEQ CON BIT LEN am q = Ok o) /\
  (exists o, a_get_lpm P V PEQ CON BIT LEN am q = Ok o) /\
  (exists r, a_insert P V PEQ CON BIT LEN LCP am q x = Ok r) /\
  (exists r, a_remove P V PEQ CON BIT LEN am q = Ok r) /\
  (exists r, a_remove_keep_tree P V PEQ CON BIT LEN am q = Ok r) /\
  (exists es, a_entries P V am = Ok es) /\
  (exists am', a_remove_children P V PEQ CON BIT LEN LCP ZERO am q = Ok am') /\
  (exists r, a_retain P V f am = Ok r) /\
  (exists r, a_entry_insert P V PEQ CON BIT LEN LCP am q x = Ok r) /\
  (exists r, a_entry_remove P V PEQ CON BIT LEN LCP am q = Ok r) /\
  (exists am', a_entry_and_modify P V PEQ CON BIT LEN LCP am q g = Ok am') /\
  (exists am', a_get_mut P V PEQ CON BIT LEN am q g = Ok am') /\
  (exists o, a_get_key_value P V PEQ CON BIT LEN am q = Ok o) /\
  (exists o, a_contains_key P V PEQ CON BIT LEN am q = Ok o) /\
  (exists o, a_get_lpm_prefix P V PEQ CON BIT LEN am q = Ok o) /\
  (exists o, a_get_lpm_mut P V PEQ CON BIT LEN am q = Ok o) /\
  (exists o, a_get_spm P V PEQ CON BIT LEN am q = Ok o) /\
  (exists es, a_children P V PEQ CON BIT LEN am q = Ok es) /\
  (exists es, a_cover P V PEQ CON BIT LEN am q = Ok es).
Proof.
  intros H Hq.
  destruct (arena_C20_total2 P V PEQ CON BIT LEN LCP ZERO (mcmp w) (pbits w) okN (pn_laws w fl Hw) am q x f g H)
    as (A1 & A2 & A3 & A4 & A5 & A6 & A7 & A8 & _ & A10 & A11 & A12 & A13 & _).
  destruct (arena_C20_total3 P V PEQ CON BIT LEN LCP ZERO (mcmp w) (pbits w) okN (pn_laws w fl Hw) am q H)
    as (B1 & B2 & B3 & B4 & B5 & _ & _ & B8 & B9 & _).
  repeat (split; [assumption|]). split; [exact (A7 Hq)|]. repeat (split; [assumption|]). assumption.
Qed.

End APN.

(* ------------------------------------------------------------------------------------------ *)
(** * An 8-bit example: a history over the extended alphabet run on the arena *)
Module ArenaPropsExample.
Import ArenaTest.
Open Scope N_scope.

(** insert 1/1, [entry().insert()] 10/2, insert 11/2, insert 101/3, remove 10/2 (its node stays as a
    value-less branch), a write through [view_mut().right().value_mut()], [and_modify] on 11/2,
    [remove_keep_tree] and re-insertion of 101/3, [retain] of the odd values *)
Definition hx : list (aop2 P N) :=
  [AOld (AIns (p 128 1) 1); AEntryIns (p 128 2) 2; AOld (AIns (p 192 2) 3); AOld (AIns (p 160 3) 4);
   AOld (ARem (p 128 2)); AVmMut [true] (N.add 10); AEntryMod (p 192 2) (N.add 20);
   AOld (ARemKeep (p 160 3)); AOld (AIns (p 160 3) 5); AOld (AIns (p 0 1) 6);
   ARetain (fun _ _ x => Some (N.odd x))].

Definition amx : amap P N := Arena2Test.am_of (Arena2Test.arun2 hx).

Example hx_runs : Arena2Test.arun2 hx = Ok amx.
Proof. vm_compute. reflexivity. Qed.

(** the history's prefix arguments are valid, so [amx] is reachable in the sense of the theorems
    (and contains no [TrieViewMut::set]/[remove]) *)
Example hx_reachable : areachN 8 Generic N amx /\ areachN_counted 8 Generic N amx.
Proof.
  assert (F : Forall (aop2_ok P N (fun q => valid 8 q = true)) hx) by (repeat constructor).
  split; [exists hx|exists hx; split; [exact F|]]; split; try exact F; vm_compute; reflexivity.
Qed.

(** what the three observers return: the entries in lexicographic order; the longest-prefix match of
    1010_1010/8 is 101/3; [len()] is 3 *)
Example hx_observed :
  a_entries P N amx = Ok [(p 128 1, 11); (p 160 3, 5); (p 192 2, 23)] /\
  a_get_lpm P N PEQ CON BIT LEN amx (p 170 8) = Ok (Some (p 160 3, 5)) /\
  a_get_lpm P N PEQ CON BIT LEN amx (p 64 2) = Ok None /\
  acount amx = 3%Z.
Proof. vm_compute. repeat split; reflexivity. Qed.

(** the instantiated theorems apply to it *)
Example hx_count_by_theorem : acount amx = Z.of_nat (length [(p 128 1, 11); (p 160 3, 5); (p 192 2, 23)]).
Proof.
  apply (arena_N_C04_count 8 Generic N ltac:(discriminate) amx); [exact (proj2 hx_reachable)|exact (proj1 hx_observed)].
Qed.

End ArenaPropsExample.

Print Assumptions zero_len.
Print Assumptions peq_len_ok.
Print Assumptions wf_rc_guard.
Print Assumptions step2_ok_sim.
Print Assumptions run2_from_ok_sim.
Print Assumptions run2_ok_sim.
Print Assumptions areach_Rep.
Print Assumptions areach_step_total.
Print Assumptions Rep_fun.
Print Assumptions arena_C01_entries.
Print Assumptions arena_C01_get.
Print Assumptions arena_C01_get_spec.
Print Assumptions arena_C02_get_lpm.
Print Assumptions arena_C09_cover.
Print Assumptions arena_C10_children.
Print Assumptions arena_C10_remove_children.
Print Assumptions arena_C10_retain.
Print Assumptions arena_C04_count.
Print Assumptions arena_C16_structure.
Print Assumptions arena_C05_C08_union.
Print Assumptions arena_C06_intersection.
Print Assumptions arena_C07_C08_difference.
Print Assumptions arena_C07_covering_difference.
Print Assumptions arena_C15_wf.
Print Assumptions arena_C15_canonical.
Print Assumptions arena_C20_total2.
Print Assumptions arena_C20_total3.
Print Assumptions arena_N_C01_entries.
Print Assumptions arena_N_C01_get.
Print Assumptions arena_N_C02_get_lpm.
Print Assumptions arena_N_C04_count.
Print Assumptions arena_N_C20_total.
Print Assumptions ArenaPropsExample.hx_reachable.
Print Assumptions ArenaPropsExample.hx_observed.
Print Assumptions ArenaPropsExample.hx_count_by_theorem.
