(** C01 at full strength about the ARENA transcription: refinement of arena-level histories to the
    abstract map.

    The abstract map is [Refine.amap] — a list of (prefix, value) pairs strictly sorted by the keys' bit
    strings — with [a_insert] / [a_without] / [a_update] / [a_remove_children] / [a_retain] as the
    abstract operations ([Refine.a_step]).  Here: every step of the arena-level code
    ([Arena2.a_step2]: insert, remove, remove_keep_tree, clear, remove_children, retain,
    [entry().insert()], [OccupiedEntry::remove], [and_modify], [get_mut]+write) on a reachable arena
    returns [Ok] of an arena whose iteration is EXACTLY the abstract operation applied to the previous
    iteration — so after any history the arena iterates what the abstract map holds.  (The two
    [TrieViewMut] writes address their target by a path; they are covered at tree level by
    [Refine2.step_refines_full] via [resolve] and are excluded here by [nonview].) *)
From Coq Require Import List NArith ZArith Bool Arith Lia.
From PT Require Import Bits Laws Trie TrieWf Slots History Refine
     Arena ArenaThm Arena2 Arena2Thm ArenaProps.
Import ListNotations.

Section AR.
Variables (pfx V : Type).
Variables (peq contains : pfx -> pfx -> bool) (is_bit_set : pfx -> N -> bool)
          (plen : pfx -> N) (lcp : pfx -> pfx -> pfx) (pzero : pfx)
          (mcmp : pfx -> pfx -> comparison).
Variable bits : pfx -> list bool.
Variable ok : pfx -> Prop.
Hypothesis LAWS : prefix_laws pfx peq contains is_bit_set plen lcp pzero mcmp bits ok.

Notation amap := (Arena.amap pfx V).
Notation aop2 := (Arena2.aop2 pfx V).
Notation areach := (ArenaProps.areach pfx V peq contains is_bit_set plen lcp pzero ok).
Notation aop2_ok := (ArenaProps.aop2_ok pfx V ok).
Notation nonview := (ArenaProps.nonview pfx V).
Notation to_hop := (ArenaProps.to_hop pfx V).
Notation a_entries := (Arena.a_entries pfx V).
Notation a_step2 := (Arena2.a_step2 pfx V peq contains is_bit_set plen lcp pzero).
Notation a_run2 := (Arena2.a_run2 pfx V peq contains is_bit_set plen lcp pzero).
Notation t_step2 := (Arena2.t_step2 pfx V peq contains is_bit_set plen lcp pzero).
Notation t_run2_from := (Arena2.t_run2_from pfx V peq contains is_bit_set plen lcp pzero).
Notation hstep := (History.step pfx V peq contains is_bit_set plen lcp pzero).
Notation refinable := (Refine.refinable pfx V ok).
Notation abs_step := (Refine.a_step pfx V bits).
Notation abs_run := (Refine.a_run pfx V bits).

(** one step: the iteration afterwards is the abstract operation applied to the iteration before *)
Theorem arena_C01_step_refines am es o : areach am -> aop2_ok o -> nonview o = true ->
  refinable (to_hop o) -> a_entries am = Ok es ->
  exists am', a_step2 o am = Ok am' /\ areach am' /\ a_entries am' = Ok (fst (abs_step es (to_hop o))).
Proof.
  intros H Ho NV RF E.
  destruct (ArenaProps.areach_view pfx V peq contains is_bit_set plen lcp pzero mcmp bits ok LAWS am es H E)
    as (m & R & M & W & ->).
  destruct (ArenaProps.step2_ok_sim pfx V peq contains is_bit_set plen lcp pzero mcmp bits ok LAWS o am m Ho R M W)
    as (am' & ST & R' & M' & W').
  exists am'. split; [exact ST|].
  split; [exact (ArenaProps.areach_step pfx V peq contains is_bit_set plen lcp pzero ok o am am' H Ho ST)|].
  rewrite (ArenaThm.entries_sim pfx V peq contains is_bit_set plen lcp pzero am' _ R' M'). f_equal.
  rewrite (ArenaProps.t_step2_hop pfx V peq contains is_bit_set plen lcp pzero o m NV).
  exact (proj1 (Refine.step_refines pfx V peq contains is_bit_set plen lcp pzero mcmp bits ok LAWS m (to_hop o) W RF)).
Qed.

Lemma t_run2_from_hops : forall ops m, forallb nonview ops = true ->
  t_run2_from ops m = fold_left hstep (map to_hop ops) m.
Proof.
  induction ops as [|o ops IH]; intros m NV; [reflexivity|].
  cbn [forallb] in NV. apply andb_true_iff in NV. destruct NV as [NV1 NV2].
  cbn [Arena2.t_run2_from map fold_left].
  rewrite (ArenaProps.t_step2_hop pfx V peq contains is_bit_set plen lcp pzero o m NV1). apply IH. exact NV2.
Qed.

(** whole histories: the arena reached iterates the abstract map reached *)
Theorem arena_C01_run_refines ops : Forall aop2_ok ops -> forallb nonview ops = true ->
  Forall refinable (map to_hop ops) ->
  exists am, a_run2 ops = Ok am /\ areach am /\ a_entries am = Ok (abs_run (map to_hop ops)).
Proof.
  intros OKS NV RF.
  destruct (ArenaProps.run2_ok_sim pfx V peq contains is_bit_set plen lcp pzero mcmp bits ok LAWS ops OKS)
    as (am & E & R & M & W).
  exists am. split; [exact E|]. split; [exists ops; split; assumption|].
  rewrite (ArenaThm.entries_sim pfx V peq contains is_bit_set plen lcp pzero am _ R M). f_equal.
  unfold Arena2.t_run2. rewrite (t_run2_from_hops ops _ NV).
  exact (Refine.run_refines pfx V peq contains is_bit_set plen lcp pzero mcmp bits ok LAWS (map to_hop ops) RF).
Qed.

End AR.

Print Assumptions arena_C01_step_refines.
Print Assumptions arena_C01_run_refines.
