(** C05 - C08 about the ARENA transcription of the eight set-operation iterators, for ANY pair of view
    locations — not only the two roots ([ArenaProps.arena_C05_C08_union] etc.).

    [lL] is any location obtained by navigation ([ArenaViews.a_vreach]: any sequence of [find] /
    [find_exact] / [find_lpm] / [left] / [right] of either family, so stored, value-less branching and
    VIRTUAL roots, equal / nested / disjoint positions) on a reachable arena with values [L]; [lR]
    likewise on a reachable arena with values [R] (the same arena is allowed when [L = R]); [esL], [esR]
    are what the two views' own iterations yield.  The arena iterators run at the two slots
    [loc_idx lL], [loc_idx lR] — exactly what the Rust constructors do ([self.loc.idx()],
    [other.loc.idx()]) — and their outputs meet the specifications of [UnionThm] / [InterDiffThm]
    against [esL] and [esR]. *)
From Coq Require Import List NArith ZArith Bool Arith Lia Sorted.
From PT Require Import Bits BitsThm Laws Machine Trie Views SetOps TrieWf Lookup ViewsThm UnionThm InterDiffThm
     Arena ArenaThm Arena2 Arena2Thm Arena3 Arena3Thm ArenaProps ArenaViews.
Import ListNotations.

Section ASV.
Variables (pfx L R : Type).
Variables (peq contains : pfx -> pfx -> bool) (is_bit_set : pfx -> N -> bool)
          (plen : pfx -> N) (lcp : pfx -> pfx -> pfx) (pzero : pfx)
          (mcmp : pfx -> pfx -> comparison).
Variable bits : pfx -> list bool.
Variable ok : pfx -> Prop.
Hypothesis LAWS : prefix_laws pfx peq contains is_bit_set plen lcp pzero mcmp bits ok.

Notation areachL := (areach pfx L peq contains is_bit_set plen lcp pzero ok).
Notation areachR := (areach pfx R peq contains is_bit_set plen lcp pzero ok).
Notation vreachL := (ArenaViews.a_vreach pfx L peq contains is_bit_set plen lcp ok).
Notation vreachR := (ArenaViews.a_vreach pfx R peq contains is_bit_set plen lcp ok).
Notation viterL := (ArenaViews.a_v_iter pfx L).
Notation viterR := (ArenaViews.a_v_iter pfx R).
Notation a_union := (Arena3.a_union pfx L R contains is_bit_set plen mcmp).
Notation a_union_mut := (Arena3.a_union_mut pfx L R contains is_bit_set plen mcmp).
Notation a_intersection := (Arena3.a_intersection pfx L R contains is_bit_set plen mcmp).
Notation a_intersection_mut := (Arena3.a_intersection_mut pfx L R contains is_bit_set plen mcmp).
Notation a_difference := (Arena3.a_difference pfx L R contains is_bit_set plen mcmp).
Notation a_difference_mut := (Arena3.a_difference_mut pfx L R contains is_bit_set plen mcmp).
Notation a_covering_difference := (Arena3.a_covering_difference pfx L R contains is_bit_set plen mcmp).
Notation a_covering_difference_mut := (Arena3.a_covering_difference_mut pfx L R contains is_bit_set plen mcmp).
Notation union := (SetOps.union pfx L R contains is_bit_set plen pzero mcmp).
Notation union_mut := (SetOps.union_mut pfx L R contains is_bit_set plen pzero mcmp).
Notation intersection := (SetOps.intersection pfx L R contains is_bit_set plen pzero mcmp).
Notation intersection_mut := (SetOps.intersection_mut pfx L R contains is_bit_set plen pzero mcmp).
Notation difference := (SetOps.difference pfx L R contains is_bit_set plen pzero mcmp).
Notation difference_mut := (SetOps.difference_mut pfx L R contains is_bit_set plen pzero mcmp).
Notation covering_difference := (SetOps.covering_difference pfx L R contains is_bit_set plen pzero mcmp).
Notation covering_difference_mut := (SetOps.covering_difference_mut pfx L R contains is_bit_set plen pzero mcmp).

(** one operand: a reachable location represents a subtree that is well-formed under SOME bound, fits
    the table, and whose entries are the view's iteration *)
Lemma operand (T : Type) (am : Arena.amap pfx T) l es :
  areach pfx T peq contains is_bit_set plen lcp pzero ok am ->
  ArenaViews.a_vreach pfx T peq contains is_bit_set plen lcp ok (tbl am) l ->
  ArenaViews.a_v_iter pfx T (tbl am) l = Ok es ->
  exists t : Trie.tree pfx T, ArenaThm.rep pfx T (tbl am) (Some (Arena3.loc_idx l)) t /\
    (tsize t <= length (tbl am))%nat /\ (exists b, TrieWf.wf_under pfx T bits ok b t) /\ es = entries t.
Proof.
  intros H HL IT0.
  destruct (ArenaViews.setup pfx T peq contains is_bit_set plen lcp pzero mcmp bits ok LAWS am l H HL)
    as (m & mm & Rp & M & W & I & WF & LR & IT).
  rewrite IT in IT0. injection IT0 as <-.
  exists (vm_tree (root m) mm).
  split.
  { exact (proj1 (proj1 I)). }
  split.
  { unfold vm_tree.
    pose proof (Arena3Thm.tsize_subtree pfx T peq contains is_bit_set plen lcp pzero (mpath pfx mm) (root m)).
    pose proof (Arena3Thm.Rep_tsize pfx T peq contains is_bit_set plen lcp pzero am m Rp M). lia. }
  split.
  { destruct WF as (_ & B & _). unfold vm_view in B. destruct (mvirt pfx mm); exact B. }
  unfold ViewsThm.v_entries, vm_view. destruct (mvirt pfx mm); reflexivity.
Qed.

Lemma setops_views_setup amL amR lL lR esL esR :
  areachL amL -> areachR amR -> vreachL (tbl amL) lL -> vreachR (tbl amR) lR ->
  viterL (tbl amL) lL = Ok esL -> viterR (tbl amR) lR = Ok esR ->
  exists (tl : Trie.tree pfx L) (tr : Trie.tree pfx R) ba bb,
    TrieWf.wf_under pfx L bits ok ba tl /\ TrieWf.wf_under pfx R bits ok bb tr /\
    esL = entries tl /\ esR = entries tr /\
    (exists out, union tl tr = Some out /\ a_union (tbl amL) (tbl amR) (Arena3.loc_idx lL) (Arena3.loc_idx lR) = Ok out) /\
    (exists out, union_mut tl tr = Some out /\ a_union_mut (tbl amL) (tbl amR) (Arena3.loc_idx lL) (Arena3.loc_idx lR) = Ok out) /\
    (exists out, intersection tl tr = Some out /\ a_intersection (tbl amL) (tbl amR) (Arena3.loc_idx lL) (Arena3.loc_idx lR) = Ok out) /\
    (exists out, intersection_mut tl tr = Some out /\ a_intersection_mut (tbl amL) (tbl amR) (Arena3.loc_idx lL) (Arena3.loc_idx lR) = Ok out) /\
    (exists out, difference tl tr = Some out /\ a_difference (tbl amL) (tbl amR) (Arena3.loc_idx lL) (Arena3.loc_idx lR) = Ok out) /\
    (exists out, difference_mut tl tr = Some out /\ a_difference_mut (tbl amL) (tbl amR) (Arena3.loc_idx lL) (Arena3.loc_idx lR) = Ok out) /\
    (exists out, covering_difference tl tr = Some out /\
                 a_covering_difference (tbl amL) (tbl amR) (Arena3.loc_idx lL) (Arena3.loc_idx lR) = Ok out) /\
    (exists out, covering_difference_mut tl tr = Some out /\
                 a_covering_difference_mut (tbl amL) (tbl amR) (Arena3.loc_idx lL) (Arena3.loc_idx lR) = Ok out).
Proof.
  intros HL HR VL VR EL ER.
  destruct (operand L amL lL esL HL VL EL) as (tl & RL & SL & (ba & WL) & ->).
  destruct (operand R amR lR esR HR VR ER) as (tr & RR & SR & (bb & WR) & ->).
  exists tl, tr, ba, bb. split; [exact WL|]. split; [exact WR|]. split; [reflexivity|]. split; [reflexivity|].
  exact (Arena3Thm.setops_sim pfx L R peq contains is_bit_set plen lcp pzero mcmp (tbl amL) (tbl amR) tl tr _ _ RL RR SL SR).
Qed.

(** C05 + C08 (union side) at any two view locations *)
Theorem arena_views_union amL amR lL lR esL esR :
  areachL amL -> areachR amR -> vreachL (tbl amL) lL -> vreachR (tbl amR) lR ->
  viterL (tbl amL) lL = Ok esL -> viterR (tbl amR) lR = Ok esR ->
  exists out outm,
    a_union (tbl amL) (tbl amR) (Arena3.loc_idx lL) (Arena3.loc_idx lR) = Ok out /\
    UnionThm.union_spec pfx L R bits esL esR out /\
    a_union_mut (tbl amL) (tbl amR) (Arena3.loc_idx lL) (Arena3.loc_idx lR) = Ok outm /\
    map (fun it => match it with
                   | ILeft _ _ _ p l _ => (p, Some l, None)
                   | IRight _ _ _ p _ r => (p, None, Some r)
                   | IBoth _ _ _ p l r => (p, Some l, Some r)
                   end) out
    = map (fun '(p, l, r) => (p, option_map snd l, option_map snd r)) outm.
Proof.
  intros HL HR VL VR EL ER.
  destruct (setops_views_setup amL amR lL lR esL esR HL HR VL VR EL ER)
    as (tl & tr & ba & bb & WL & WR & -> & -> & (o1 & T1 & A1) & (o2 & T2 & A2) & _).
  destruct (UnionThm.union_correct pfx L R peq contains is_bit_set plen lcp pzero mcmp bits ok LAWS ba bb tl tr WL WR)
    as (out & U & S).
  destruct (UnionThm.union_mut_mirrors pfx L R peq contains is_bit_set plen lcp pzero mcmp bits ok LAWS ba bb tl tr WL WR)
    as (out' & outm & U' & UM & MM).
  rewrite U in T1, U'. injection T1 as <-. injection U' as <-. rewrite UM in T2. injection T2 as <-.
  exists out, outm. auto.
Qed.

(** C06 at any two view locations *)
Theorem arena_views_intersection amL amR lL lR esL esR :
  areachL amL -> areachR amR -> vreachL (tbl amL) lL -> vreachR (tbl amR) lR ->
  viterL (tbl amL) lL = Ok esL -> viterR (tbl amR) lR = Ok esR ->
  exists out outm,
    a_intersection (tbl amL) (tbl amR) (Arena3.loc_idx lL) (Arena3.loc_idx lR) = Ok out /\
    InterDiffThm.inter_spec pfx L R bits esL esR out /\
    a_intersection_mut (tbl amL) (tbl amR) (Arena3.loc_idx lL) (Arena3.loc_idx lR) = Ok outm /\
    out = map (fun '(p, (_, l), (_, r)) => (p, l, r)) outm.
Proof.
  intros HL HR VL VR EL ER.
  destruct (setops_views_setup amL amR lL lR esL esR HL HR VL VR EL ER)
    as (tl & tr & ba & bb & WL & WR & -> & -> & _ & _ & (o1 & T1 & A1) & (o2 & T2 & A2) & _).
  destruct (InterDiffThm.intersection_correct pfx L R peq contains is_bit_set plen lcp pzero mcmp bits ok LAWS ba bb tl tr WL WR)
    as (out & U & S).
  destruct (InterDiffThm.intersection_mut_mirrors pfx L R peq contains is_bit_set plen lcp pzero mcmp bits ok LAWS ba bb tl tr WL WR)
    as (out' & outm & U' & UM & MM & _).
  rewrite U in T1, U'. injection T1 as <-. injection U' as <-. rewrite UM in T2. injection T2 as <-.
  exists out, outm. auto.
Qed.

(** C07 + C08 (difference side) at any two view locations *)
Theorem arena_views_difference amL amR lL lR esL esR :
  areachL amL -> areachR amR -> vreachL (tbl amL) lL -> vreachR (tbl amR) lR ->
  viterL (tbl amL) lL = Ok esL -> viterR (tbl amR) lR = Ok esR ->
  exists out outm,
    a_difference (tbl amL) (tbl amR) (Arena3.loc_idx lL) (Arena3.loc_idx lR) = Ok out /\
    InterDiffThm.diff_spec pfx L R bits esL esR out /\
    map fst out = filter (fun e => negb (existsb (fun e' => beq (bits (fst e')) (bits (fst e))) esR)) esL /\
    a_difference_mut (tbl amL) (tbl amR) (Arena3.loc_idx lL) (Arena3.loc_idx lR) = Ok outm /\
    out = map (fun '(p, (_, l), ann) => (p, l, ann)) outm.
Proof.
  intros HL HR VL VR EL ER.
  destruct (setops_views_setup amL amR lL lR esL esR HL HR VL VR EL ER)
    as (tl & tr & ba & bb & WL & WR & -> & -> & _ & _ & _ & _ & (o1 & T1 & A1) & (o2 & T2 & A2) & _).
  destruct (InterDiffThm.difference_correct pfx L R peq contains is_bit_set plen lcp pzero mcmp bits ok LAWS ba bb tl tr WL WR)
    as (out & U & S).
  destruct (InterDiffThm.difference_filter pfx L R peq contains is_bit_set plen lcp pzero mcmp bits ok LAWS ba bb tl tr WL WR)
    as (out'' & U'' & FF).
  destruct (InterDiffThm.difference_mut_mirrors pfx L R peq contains is_bit_set plen lcp pzero mcmp bits ok LAWS ba bb tl tr WL WR)
    as (out' & outm & U' & UM & MM & _).
  rewrite U in T1, U', U''. injection T1 as <-. injection U' as <-. injection U'' as <-.
  rewrite UM in T2. injection T2 as <-.
  exists out, outm. auto.
Qed.

(** C07 (covering difference) at any two view locations *)
Theorem arena_views_covering_difference amL amR lL lR esL esR :
  areachL amL -> areachR amR -> vreachL (tbl amL) lL -> vreachR (tbl amR) lR ->
  viterL (tbl amL) lL = Ok esL -> viterR (tbl amR) lR = Ok esR ->
  exists out outm,
    a_covering_difference (tbl amL) (tbl amR) (Arena3.loc_idx lL) (Arena3.loc_idx lR) = Ok out /\
    InterDiffThm.cdiff_spec pfx L R bits esL esR out /\
    a_covering_difference_mut (tbl amL) (tbl amR) (Arena3.loc_idx lL) (Arena3.loc_idx lR) = Ok outm /\
    out = map (fun '(p, (_, l)) => (p, l)) outm.
Proof.
  intros HL HR VL VR EL ER.
  destruct (setops_views_setup amL amR lL lR esL esR HL HR VL VR EL ER)
    as (tl & tr & ba & bb & WL & WR & -> & -> & _ & _ & _ & _ & _ & _ & (o1 & T1 & A1) & (o2 & T2 & A2)).
  destruct (InterDiffThm.covering_difference_correct pfx L R peq contains is_bit_set plen lcp pzero mcmp bits ok LAWS ba bb tl tr WL WR)
    as (out & U & S).
  destruct (InterDiffThm.covering_difference_mut_mirrors pfx L R peq contains is_bit_set plen lcp pzero mcmp bits ok LAWS ba bb tl tr WL WR)
    as (out' & outm & U' & UM & MM & _).
  rewrite U in T1, U'. injection T1 as <-. injection U' as <-. rewrite UM in T2. injection T2 as <-.
  exists out, outm. auto.
Qed.

End ASV.

Print Assumptions arena_views_union.
Print Assumptions arena_views_intersection.
Print Assumptions arena_views_difference.
Print Assumptions arena_views_covering_difference.
