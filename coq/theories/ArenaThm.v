(** The arena transcription of [Arena.v] refines the tree model of [Trie.v].

    [rep tb o t]: the link [o] in the table [tb] represents the tree [t] (every node of [t] lives
    in the slot named by its [id], holds the node's prefix and value, and its two links represent
    the two subtrees).  Under [Slots.minv] (the slot ids of the tree and the free list partition
    [0 .. alen-1]) every arena operation returns [Ok] -- never [Panic], never [OutOfFuel] -- and
    its result represents the result of the tree operation.  No law about prefixes is needed:
    the arena code and the tree code ask the same questions in the same order. *)
From Coq Require Import List NArith ZArith Bool Arith Lia ZifyN ZifyBool ZifyNat Permutation.
From PT Require Import Machine Trie Slots Arena.
Import ListNotations.

Section AT.
Variables (pfx V : Type).
Variables (peq contains : pfx -> pfx -> bool) (is_bit_set : pfx -> N -> bool)
          (plen : pfx -> N) (lcp : pfx -> pfx -> pfx) (pzero : pfx).

Notation tree := (Trie.tree pfx V).
Notation pmap := (Trie.pmap pfx V).
Notation anode := (Arena.anode pfx V).
Notation amap := (Arena.amap pfx V).
Notation to_right := (Trie.to_right pfx is_bit_set plen).
Notation ids := (Slots.ids pfx V).
Notation minv := (Slots.minv pfx V).
Notation slots_ok := (Slots.slots_ok pfx V).
Notation with_child := (Trie.with_child pfx V).
Notation get := (Trie.get pfx V peq contains is_bit_set plen).
Notation get_node := (Trie.get_node pfx V peq contains is_bit_set plen).
Notation lpm_walk := (Trie.lpm_walk pfx V peq contains is_bit_set plen).
Notation get_lpm := (Trie.get_lpm pfx V peq contains is_bit_set plen).
Notation new_node := (Trie.new_node).
Notation ins := (Trie.ins pfx V peq contains is_bit_set plen lcp).
Notation insert := (Trie.insert pfx V peq contains is_bit_set plen lcp).
Notation modify := (Trie.modify pfx V peq contains is_bit_set plen).
Notation remove_self := (Trie.remove_self pfx V).
Notation absorb := (Trie.absorb pfx V).
Notation rem := (Trie.rem pfx V peq contains is_bit_set plen).
Notation remove := (Trie.remove pfx V peq contains is_bit_set plen).
Notation remove_keep_tree := (Trie.remove_keep_tree pfx V peq contains is_bit_set plen).
Notation empty := (Trie.empty pfx V pzero).

Notation rd := (Arena.rd pfx V).
Notation wr := (Arena.wr pfx V).
Notation child_of := (Arena.child_of pfx V).
Notation with_link := (Arena.with_link pfx V).
Notation get_child := (Arena.get_child pfx V).
Notation set_child := (Arena.set_child pfx V).
Notation clear_child := (Arena.clear_child pfx V).
Notation a_direction := (Arena.a_direction pfx V peq contains is_bit_set plen).
Notation a_direction_ins := (Arena.a_direction_ins pfx V peq contains is_bit_set plen lcp).
Notation a_get_loop := (Arena.a_get_loop pfx V peq contains is_bit_set plen).
Notation a_get := (Arena.a_get pfx V peq contains is_bit_set plen).
Notation a_lpm_loop := (Arena.a_lpm_loop pfx V peq contains is_bit_set plen).
Notation a_get_lpm := (Arena.a_get_lpm pfx V peq contains is_bit_set plen).
Notation a_new_node := (Arena.a_new_node pfx V).
Notation a_insert_loop := (Arena.a_insert_loop pfx V peq contains is_bit_set plen lcp).
Notation a_insert := (Arena.a_insert pfx V peq contains is_bit_set plen lcp).
Notation a_remove_node := (Arena.a_remove_node pfx V).
Notation a_find := (Arena.a_find pfx V peq contains is_bit_set plen).
Notation a_remove := (Arena.a_remove pfx V peq contains is_bit_set plen).
Notation a_rkt_loop := (Arena.a_rkt_loop pfx V peq contains is_bit_set plen).
Notation a_remove_keep_tree := (Arena.a_remove_keep_tree pfx V peq contains is_bit_set plen).
Notation a_iter := (Arena.a_iter pfx V).
Notation a_entries := (Arena.a_entries pfx V).
Notation a_empty := (Arena.a_empty pfx V pzero).

(* ------------------------------------------------------------------------------------------ *)
(** * Table cells *)

Definition slot (tb : list anode) (i : N) : option anode := nth_error tb (N.to_nat i).

Lemma upd_length {A} (l : list A) : forall n x, length (upd l n x) = length l.
Proof. induction l as [|h t IH]; intros [|n] x; cbn; auto. Qed.

Lemma nth_error_upd {A} (l : list A) : forall n m x,
  nth_error (upd l n x) m
  = if Nat.eqb n m then (match nth_error l n with Some _ => Some x | None => None end)
    else nth_error l m.
Proof.
  induction l as [|h t IH]; intros [|n] [|m] x; cbn [upd nth_error Nat.eqb]; auto;
    destruct (Nat.eqb _ _); reflexivity.
Qed.

Lemma slot_upd_eq tb i n n0 : slot tb i = Some n0 -> slot (upd tb (N.to_nat i) n) i = Some n.
Proof. unfold slot. intros H. rewrite nth_error_upd, Nat.eqb_refl, H. reflexivity. Qed.

Lemma slot_upd_neq tb i j n : i <> j -> slot (upd tb (N.to_nat i) n) j = slot tb j.
Proof.
  unfold slot. intros H. rewrite nth_error_upd.
  destruct (Nat.eqb_spec (N.to_nat i) (N.to_nat j)) as [E|E]; [|reflexivity].
  exfalso. apply H. lia.
Qed.

Lemma slot_lt tb i : (exists n, slot tb i = Some n) <-> (i < N.of_nat (length tb))%N.
Proof.
  unfold slot. split.
  - intros [n H]. assert (nth_error tb (N.to_nat i) <> None) as H' by congruence.
    apply nth_error_Some in H'. lia.
  - intros H. destruct (nth_error tb (N.to_nat i)) eqn:E; [eauto|].
    apply nth_error_None in E. lia.
Qed.

Lemma slot_some_lt tb i n : slot tb i = Some n -> (i < N.of_nat (length tb))%N.
Proof. intros H. apply slot_lt. eauto. Qed.

Lemma slot_app_old tb i x : (i < N.of_nat (length tb))%N -> slot (tb ++ [x]) i = slot tb i.
Proof. unfold slot. intros H. apply nth_error_app1. lia. Qed.

Lemma slot_app_new tb x : slot (tb ++ [x]) (N.of_nat (length tb)) = Some x.
Proof. unfold slot. rewrite nth_error_app2 by lia. rewrite Nat2N.id, Nat.sub_diag. reflexivity. Qed.

Lemma rd_ok tb i n : slot tb i = Some n -> rd tb i = Ok n.
Proof. unfold slot, Arena.rd. intros ->. reflexivity. Qed.

Lemma wr_ok tb i n n0 : slot tb i = Some n0 -> wr tb i n = Ok (upd tb (N.to_nat i) n).
Proof. unfold slot, Arena.wr. intros ->. reflexivity. Qed.

Lemma get_child_ok tb i n rt : slot tb i = Some n -> get_child tb i rt = Ok (child_of n rt).
Proof. intros H. unfold Arena.get_child. rewrite (rd_ok _ _ _ H). reflexivity. Qed.

Lemma set_child_ok tb i n c rt : slot tb i = Some n ->
  set_child tb i c rt = Ok (upd tb (N.to_nat i) (with_link n rt (Some c)), child_of n rt).
Proof.
  intros H. unfold Arena.set_child. rewrite (rd_ok _ _ _ H). cbn [rbind].
  rewrite (wr_ok _ _ _ _ H). reflexivity.
Qed.

Lemma clear_child_ok tb i n rt : slot tb i = Some n ->
  clear_child tb i rt = Ok (upd tb (N.to_nat i) (with_link n rt None), child_of n rt).
Proof.
  intros H. unfold Arena.clear_child. rewrite (rd_ok _ _ _ H). cbn [rbind].
  rewrite (wr_ok _ _ _ _ H). reflexivity.
Qed.

Lemma child_with_link_same n rt o : child_of (with_link n rt o) rt = o.
Proof. destruct rt; reflexivity. Qed.
Lemma child_with_link_other n rt o : child_of (with_link n rt o) (negb rt) = child_of n (negb rt).
Proof. destruct rt; reflexivity. Qed.
Lemma npfx_with_link n rt o : npfx (with_link n rt o) = npfx n.
Proof. destruct rt; reflexivity. Qed.
Lemma nval_with_link n rt o : nval (with_link n rt o) = nval n.
Proof. destruct rt; reflexivity. Qed.
Lemma with_link_id n rt : with_link n rt (child_of n rt) = n.
Proof. destruct n, rt; reflexivity. Qed.

(* ------------------------------------------------------------------------------------------ *)
(** * The representation relation *)

Inductive rep (tb : list anode) : option N -> tree -> Prop :=
| rep_leaf : rep tb None Leaf
| rep_node i p v l r ol orr :
    slot tb i = Some (mkanode p v ol orr) -> rep tb ol l -> rep tb orr r ->
    rep tb (Some i) (Node i p v l r).

(** the link under which a tree is represented *)
Definition link (t : tree) : option N :=
  match t with Leaf => None | Node i _ _ _ _ => Some i end.

Definition Rep (am : amap) (m : pmap) : Prop :=
  rep (tbl am) (Some 0%N) (root m) /\ afree am = free (al m) /\
  N.of_nat (length (tbl am)) = alen (al m) /\ acount am = count (al m).

Lemma rep_link tb o t : rep tb o t -> o = link t.
Proof. intros H. destruct H; reflexivity. Qed.

Lemma rep_node_inv tb o i p v l r : rep tb o (Node i p v l r) ->
  o = Some i /\ slot tb i = Some (mkanode p v (link l) (link r)) /\
  rep tb (link l) l /\ rep tb (link r) r.
Proof.
  intros H. inversion H; subst.
  match goal with H1 : rep tb ?a l, H2 : rep tb ?b r |- _ =>
    pose proof (rep_link _ _ _ H1); pose proof (rep_link _ _ _ H2); subst a b end.
  auto.
Qed.

Lemma rep_some_inv tb i t : rep tb (Some i) t -> exists p v l r, t = Node i p v l r.
Proof. intros H. inversion H; subst. eauto. Qed.

Lemma rep_node_intro tb i p v l r :
  slot tb i = Some (mkanode p v (link l) (link r)) -> rep tb (link l) l -> rep tb (link r) r ->
  rep tb (Some i) (Node i p v l r).
Proof. intros. econstructor; eauto. Qed.

Lemma rep_leaf_link tb : rep tb (link Leaf) Leaf.
Proof. constructor. Qed.

(** the node seen along a direction [rt]: [c] is the child on that side, [s] the sibling *)
Definition csel (rt : bool) (l r : tree) : tree := if rt then r else l.
Definition ssel (rt : bool) (l r : tree) : tree := if rt then l else r.

Lemma rep_node_rt tb o i p v l r (rt : bool) : rep tb o (Node i p v l r) ->
  exists n, slot tb i = Some n /\ npfx n = p /\ nval n = v /\
            child_of n rt = link (csel rt l r) /\ child_of n (negb rt) = link (ssel rt l r) /\
            rep tb (link (csel rt l r)) (csel rt l r) /\ rep tb (link (ssel rt l r)) (ssel rt l r).
Proof.
  intros H. apply rep_node_inv in H. destruct H as (_ & Hs & L & R).
  eexists. split; [exact Hs|]. destruct rt; cbn; auto 10.
Qed.

Lemma rep_with_child tb i n p v l r (rt : bool) c :
  slot tb i = Some n -> npfx n = p -> nval n = v ->
  child_of n rt = link c -> child_of n (negb rt) = link (ssel rt l r) ->
  rep tb (link c) c -> rep tb (link (ssel rt l r)) (ssel rt l r) ->
  rep tb (Some i) (with_child i p v l r rt c).
Proof.
  destruct n as [np nv nl nr]. cbn [npfx nval]. intros Hs -> -> C1 C2 R1 R2.
  unfold Trie.with_child. destruct rt; cbn in *; subst; apply rep_node_intro; auto.
Qed.

(** FRAME: [rep] only looks at the slots of the tree *)
Lemma rep_ext tb tb' o t :
  rep tb o t -> (forall j, In j (ids t) -> slot tb' j = slot tb j) -> rep tb' o t.
Proof.
  intros H. induction H as [|i p v l r ol orr Hs Hl IHl Hr IHr]; intros E.
  - constructor.
  - econstructor.
    + rewrite E; [exact Hs|]. cbn. auto.
    + apply IHl. intros j Hj. apply E. cbn. right. apply in_or_app. auto.
    + apply IHr. intros j Hj. apply E. cbn. right. apply in_or_app. auto.
Qed.

(** writing a slot outside the tree *)
Lemma rep_upd tb o t j n : rep tb o t -> ~ In j (ids t) -> rep (upd tb (N.to_nat j) n) o t.
Proof.
  intros H NI. eapply rep_ext; [exact H|]. intros k Hk. apply slot_upd_neq.
  intros ->. contradiction.
Qed.

(** every slot of a represented tree is in bounds *)
Lemma rep_bounds tb o t : rep tb o t -> forall j, In j (ids t) -> (j < N.of_nat (length tb))%N.
Proof.
  intros H. induction H as [|i p v l r ol orr Hs Hl IHl Hr IHr]; intros j Hj.
  - destruct Hj.
  - cbn in Hj. destruct Hj as [<-|Hj]; [eapply slot_some_lt; eauto|].
    apply in_app_or in Hj. destruct Hj; auto.
Qed.

(** pushing a new slot at the end *)
Lemma rep_app tb o t x : rep tb o t -> rep (tb ++ [x]) o t.
Proof.
  intros H. eapply rep_ext; [exact H|]. intros j Hj. apply slot_app_old.
  eapply rep_bounds; eauto.
Qed.

(* ------------------------------------------------------------------------------------------ *)
(** * Height, sizes and the facts drawn from [minv] *)

Fixpoint height (t : tree) : nat :=
  match t with Leaf => 0 | Node _ _ _ l r => S (Nat.max (height l) (height r)) end.

Lemma height_le_ids t : (height t <= length (ids t))%nat.
Proof.
  induction t as [|i p v l IHl r IHr]; cbn [height ids length]; [lia|].
  rewrite app_length. lia.
Qed.

Lemma height_csel rt i p v l r : (S (height (csel rt l r)) <= height (Node i p v l r))%nat.
Proof. destruct rt; cbn [csel height]; lia. Qed.

Lemma tsize_ids (t : tree) : tsize t = length (ids t).
Proof.
  induction t as [|i p v l IHl r IHr]; cbn [tsize ids length]; [reflexivity|].
  rewrite app_length. lia.
Qed.

Lemma in_seqN' n i : In i (seqN n) <-> (i < n)%N.
Proof.
  unfold seqN. rewrite in_map_iff. split.
  - intros [k [<- Hk]]. apply in_seq in Hk. lia.
  - intros H. exists (N.to_nat i). split; [apply N2Nat.id|]. apply in_seq. lia.
Qed.

Lemma minv_nodup_all t a : slots_ok t a -> NoDup (ids t ++ free a).
Proof.
  intros Hs. eapply Permutation_NoDup; [apply Permutation_sym; exact Hs|]. apply NoDup_seqN.
Qed.

Lemma minv_range_all t a : slots_ok t a -> forall j, In j (ids t ++ free a) -> (j < alen a)%N.
Proof. intros Hs j Hj. apply in_seqN'. eapply Permutation_in; eauto. Qed.

Lemma minv_size t a : slots_ok t a -> (length (ids t) <= N.to_nat (alen a))%nat.
Proof. intros Hs. apply slots_len in Hs. lia. Qed.

Lemma NoDup_app_inv {A} (a b : list A) : NoDup (a ++ b) ->
  NoDup a /\ NoDup b /\ (forall j, In j a -> ~ In j b).
Proof.
  induction a as [|h t IH]; cbn [app]; intros H.
  - split; [constructor|split; [exact H|intros j []]].
  - inversion H as [|? ? NI ND]; subst. destruct (IH ND) as (Na & Nb & D).
    split; [|split; [exact Nb|]].
    + constructor; [|exact Na]. intros Hh. apply NI. apply in_or_app. auto.
    + intros j [<-|Hj]; [|auto]. intros Hb. apply NI. apply in_or_app. auto.
Qed.

Lemma NoDup_app_intro {A} (a b : list A) :
  NoDup a -> NoDup b -> (forall j, In j a -> ~ In j b) -> NoDup (a ++ b).
Proof.
  induction a as [|h t IH]; cbn [app]; intros Na Nb D; [exact Nb|].
  inversion Na; subst. constructor.
  - rewrite in_app_iff. intros [X|X]; [contradiction|]. apply (D h); [left; reflexivity|exact X].
  - apply IH; auto. intros j Hj. apply D. right. exact Hj.
Qed.

(** generic [NoDup] facts of a node along a direction *)
Lemma ids_node_rt i p v l r (rt : bool) :
  forall j, In j (ids (Node i p v l r)) <-> j = i \/ In j (ids (csel rt l r)) \/ In j (ids (ssel rt l r)).
Proof.
  intros j. cbn [ids In]. rewrite in_app_iff.
  destruct rt; cbn [csel ssel]; intuition.
Qed.

Lemma nodup_node_rt i p v l r (rt : bool) : NoDup (ids (Node i p v l r)) ->
  ~ In i (ids (csel rt l r)) /\ ~ In i (ids (ssel rt l r)) /\
  NoDup (ids (csel rt l r)) /\ NoDup (ids (ssel rt l r)) /\
  (forall j, In j (ids (csel rt l r)) -> ~ In j (ids (ssel rt l r))).
Proof.
  cbn [ids]. intros H. inversion H as [|? ? NI ND]; subst.
  rewrite in_app_iff in NI.
  destruct (NoDup_app_inv _ _ ND) as (NDl & NDr & D).
  destruct rt; cbn [csel ssel]; repeat split; auto.
  intros j Hr Hl. exact (D j Hl Hr).
Qed.

(* ------------------------------------------------------------------------------------------ *)
(** * The directions, read off the tree *)

Definition dir_of (t : tree) (q : pfx) : dir :=
  match t with
  | Leaf => Missing
  | Node i p v l r =>
    if peq p q then Reached else
    match csel (to_right p q) l r with
    | Node ci cp _ _ _ => if contains cp q then Enter ci (to_right p q) else Missing
    | Leaf => Missing
    end
  end.

Lemma direction_sim tb i t q : rep tb (Some i) t -> a_direction tb i q = Ok (dir_of t q).
Proof.
  intros H. destruct (rep_some_inv _ _ _ H) as (p & v & l & r & ->).
  destruct (rep_node_rt _ _ _ _ _ _ _ (to_right p q) H) as (n & Hs & Hp & Hv & Hc & _ & Rc & _).
  unfold Arena.a_direction, dir_of. rewrite (rd_ok _ _ _ Hs). cbn [rbind]. rewrite Hp.
  destruct (peq p q); [reflexivity|].
  rewrite (get_child_ok _ _ _ _ Hs). cbn [rbind]. rewrite Hc.
  destruct (csel (to_right p q) l r) as [|ci cp cv cl cr]; cbn [link]; [reflexivity|].
  apply rep_node_inv in Rc. destruct Rc as (_ & Sc & _).
  rewrite (rd_ok _ _ _ Sc). cbn [rbind npfx]. destruct (contains cp q); reflexivity.
Qed.

Definition dir_ins_of (t : tree) (q : pfx) : dir_ins pfx :=
  match t with
  | Leaf => IReached pfx
  | Node i p v l r =>
    if peq p q then IReached pfx else
    let rt := to_right p q in
    match csel rt l r with
    | Leaf => INewLeaf pfx rt
    | Node ci cp _ _ _ =>
      if contains cp q then IEnter pfx ci rt
      else if contains q cp then INewChild pfx rt (to_right q cp)
      else INewBranch pfx (lcp q cp) rt (to_right (lcp q cp) q)
    end
  end.

Lemma direction_ins_sim tb i t q : rep tb (Some i) t -> a_direction_ins tb i q = Ok (dir_ins_of t q).
Proof.
  intros H. destruct (rep_some_inv _ _ _ H) as (p & v & l & r & ->).
  destruct (rep_node_rt _ _ _ _ _ _ _ (to_right p q) H) as (n & Hs & Hp & Hv & Hc & _ & Rc & _).
  unfold Arena.a_direction_ins, dir_ins_of. rewrite (rd_ok _ _ _ Hs). cbn [rbind]. rewrite Hp.
  destruct (peq p q); [reflexivity|].
  rewrite (get_child_ok _ _ _ _ Hs). cbn [rbind]. rewrite Hc.
  destruct (csel (to_right p q) l r) as [|ci cp cv cl cr]; cbn [link]; [reflexivity|].
  apply rep_node_inv in Rc. destruct Rc as (_ & Sc & _).
  rewrite (rd_ok _ _ _ Sc). cbn [rbind npfx].
  destruct (contains cp q); [reflexivity|]. destruct (contains q cp); reflexivity.
Qed.

(* ------------------------------------------------------------------------------------------ *)
(** * [get], [get_lpm] *)

Lemma get_loop_sim q : forall t fuel tb i,
  rep tb (Some i) t -> (height t <= fuel)%nat -> a_get_loop fuel tb i q = Ok (get t q).
Proof.
  induction t as [|i0 p v l IHl r IHr]; intros fuel tb i H Hf.
  - inversion H.
  - pose proof (rep_link _ _ _ H) as E. cbn [link] in E. injection E as <-.
    destruct fuel as [|f]; [cbn [height] in Hf; lia|].
    cbn [Arena.a_get_loop]. rewrite (direction_sim _ _ _ q H). cbn [rbind dir_of].
    destruct (rep_node_rt _ _ _ _ _ _ _ (to_right p q) H) as (n & Hs & Hp & Hv & Hc & _ & Rc & _).
    pose proof (height_csel (to_right p q) i p v l r) as Hh.
    unfold Trie.get. cbn [Trie.get_node]. destruct (peq p q) eqn:E.
    + rewrite (rd_ok _ _ _ Hs). cbn [rbind]. rewrite Hv. reflexivity.
    + fold (csel (to_right p q) l r).
      assert (IH : forall f' tb' i', rep tb' (Some i') (csel (to_right p q) l r) ->
                 (height (csel (to_right p q) l r) <= f')%nat ->
                 a_get_loop f' tb' i' q = Ok (get (csel (to_right p q) l r) q)).
      { destruct (to_right p q); cbn [csel]; auto. }
      destruct (csel (to_right p q) l r) as [|ci cp cv cl cr] eqn:C; [reflexivity|].
      destruct (contains cp q) eqn:E2; [|reflexivity].
      cbn [link] in Rc. rewrite (IH f tb ci Rc) by lia. reflexivity.
Qed.

Lemma lpm_loop_sim q : forall t fuel tb i best,
  rep tb (Some i) t -> (height t <= fuel)%nat -> a_lpm_loop fuel tb i q best = Ok (lpm_walk t q best).
Proof.
  induction t as [|i0 p v l IHl r IHr]; intros fuel tb i best H Hf.
  - inversion H.
  - pose proof (rep_link _ _ _ H) as E. cbn [link] in E. injection E as <-.
    destruct fuel as [|f]; [cbn [height] in Hf; lia|].
    destruct (rep_node_rt _ _ _ _ _ _ _ (to_right p q) H) as (n & Hs & Hp & Hv & Hc & _ & Rc & _).
    cbn [Arena.a_lpm_loop]. rewrite (rd_ok _ _ _ Hs). cbn [rbind].
    rewrite (direction_sim _ _ _ q H). cbn [rbind dir_of].
    pose proof (height_csel (to_right p q) i p v l r) as Hh.
    cbn [Trie.lpm_walk].
    assert (EB : match prefix_value pfx V n with Some b => Some b | None => best end
                 = match v with Some x => Some (p, x) | None => best end).
    { unfold prefix_value. rewrite Hv, Hp. destruct v; reflexivity. }
    rewrite EB. destruct (peq p q) eqn:E; [reflexivity|].
    fold (csel (to_right p q) l r).
    assert (IH : forall f' tb' i' b', rep tb' (Some i') (csel (to_right p q) l r) ->
               (height (csel (to_right p q) l r) <= f')%nat ->
               a_lpm_loop f' tb' i' q b' = Ok (lpm_walk (csel (to_right p q) l r) q b')).
    { destruct (to_right p q); cbn [csel]; auto. }
    destruct (csel (to_right p q) l r) as [|ci cp cv cl cr] eqn:C; [reflexivity|].
    destruct (contains cp q) eqn:E2; [|reflexivity].
    cbn [link] in Rc. rewrite (IH f tb ci _ Rc) by lia. reflexivity.
Qed.

Lemma Rep_height am m : Rep am m -> minv m -> (height (root m) <= length (tbl am))%nat.
Proof.
  intros (_ & _ & L & _) M. pose proof (height_le_ids (root m)).
  pose proof (minv_size _ _ M). lia.
Qed.

(** the descent loops stop within [length tbl] iterations *)
Theorem get_fuel_bound am m q fuel : Rep am m -> minv m -> (length (tbl am) <= fuel)%nat ->
  a_get_loop fuel (tbl am) 0%N q = Ok (get (root m) q).
Proof.
  intros R M F. apply get_loop_sim; [apply R|]. pose proof (Rep_height _ _ R M). lia.
Qed.

Theorem get_sim am m q : Rep am m -> minv m -> a_get am q = Ok (get (root m) q).
Proof. intros R M. apply (get_fuel_bound am m q _ R M). lia. Qed.

Theorem get_lpm_fuel_bound am m q fuel : Rep am m -> minv m -> (length (tbl am) <= fuel)%nat ->
  a_lpm_loop fuel (tbl am) 0%N q None = Ok (get_lpm (root m) q).
Proof.
  intros R M F. apply lpm_loop_sim; [apply R|]. pose proof (Rep_height _ _ R M). lia.
Qed.

Theorem get_lpm_sim am m q : Rep am m -> minv m -> a_get_lpm am q = Ok (get_lpm (root m) q).
Proof. intros R M. apply (get_lpm_fuel_bound am m q _ R M). lia. Qed.

(* ------------------------------------------------------------------------------------------ *)
(** * [Iter]: the pre-order traversal *)

Lemma list_sum_cons x l : list_sum (x :: l) = (x + list_sum l)%nat.
Proof. reflexivity. Qed.

Lemma iter_sim : forall fuel tb st ts,
  Forall2 (fun i t => rep tb (Some i) t) st ts ->
  (list_sum (map (@tsize pfx V) ts) < fuel)%nat ->
  a_iter fuel tb st = Ok (flat_map (@entries pfx V) ts).
Proof.
  induction fuel as [|f IH]; intros tb st ts F Hf; [lia|].
  destruct F as [|i t st' ts' R F'].
  - reflexivity.
  - destruct (rep_some_inv _ _ _ R) as (p & v & l & r & ->).
    apply rep_node_inv in R. destruct R as (_ & Hs & Rl & Rr).
    cbn [Arena.a_iter]. rewrite (rd_ok _ _ _ Hs). cbn [rbind nright nleft nval npfx].
    cbn [map tsize] in Hf. rewrite list_sum_cons in Hf.
    assert (G : forall st2 ts2, Forall2 (fun i t => rep tb (Some i) t) st2 ts2 ->
                flat_map (@entries pfx V) ts2 = entries l ++ entries r ++ flat_map (@entries pfx V) ts' ->
                (list_sum (map (@tsize pfx V) ts2) <= tsize l + tsize r + list_sum (map (@tsize pfx V) ts'))%nat ->
                rbind (a_iter f tb st2)
                      (fun rest => Ok match v with Some v0 => (p, v0) :: rest | None => rest end)
                = Ok (flat_map (@entries pfx V) (Node i p v l r :: ts'))).
    { intros st2 ts2 F2 E2 L2. rewrite (IH tb st2 ts2 F2) by lia. cbn [rbind flat_map entries].
      rewrite E2, <- !app_assoc. destruct v; reflexivity. }
    destruct l as [|li lp lv ll lr], r as [|ri rp rv rl rr]; cbn [link] in *.
    all: [> apply (G st' ts') | apply (G (ri :: st') (Node ri rp rv rl rr :: ts'))
          | apply (G (li :: st') (Node li lp lv ll lr :: ts'))
          | apply (G (li :: ri :: st') (Node li lp lv ll lr :: Node ri rp rv rl rr :: ts')) ].
    all: try (repeat constructor; assumption).
    all: try (cbn [flat_map entries app]; rewrite <- ?app_assoc; reflexivity).
    all: cbn [tsize map]; rewrite ?list_sum_cons; lia.
Qed.

Theorem entries_fuel_bound am m fuel : Rep am m -> minv m -> (length (tbl am) < fuel)%nat ->
  a_iter fuel (tbl am) [0%N] = Ok (entries (root m)).
Proof.
  intros R M F. rewrite (iter_sim fuel (tbl am) [0%N] [root m]).
  - cbn [flat_map]. rewrite app_nil_r. reflexivity.
  - constructor; [apply R|constructor].
  - cbn [map]. rewrite list_sum_cons, tsize_ids. cbn [list_sum fold_right].
    destruct R as (_ & _ & L & _). pose proof (minv_size _ _ M). lia.
Qed.

Theorem entries_sim am m : Rep am m -> minv m -> a_entries am = Ok (entries (root m)).
Proof. intros R M. apply (entries_fuel_bound am m _ R M). lia. Qed.

(* ------------------------------------------------------------------------------------------ *)
(** * [new_node] *)

Lemma new_node_sim tb fr cnt p v n a1 :
  (forall j, In j fr -> (j < N.of_nat (length tb))%N) -> NoDup fr ->
  new_node (mkalloc fr (N.of_nat (length tb)) cnt) (is_some v) = (n, a1) ->
  exists tb1, a_new_node (mkamap tb fr cnt) p v = Ok (n, mkamap tb1 (free a1) (count a1))
    /\ alen a1 = N.of_nat (length tb1)
    /\ slot tb1 n = Some (mkanode p v None None)
    /\ (forall j, j <> n -> (j < N.of_nat (length tb))%N -> slot tb1 j = slot tb j)
    /\ (In n fr \/ n = N.of_nat (length tb))
    /\ ~ In n (free a1) /\ incl (free a1) fr /\ NoDup (free a1)
    /\ (forall j, In j (free a1) -> (j < N.of_nat (length tb1))%N)
    /\ (length tb <= length tb1)%nat.
Proof.
  intros B ND H. unfold Trie.new_node in H. cbn [free alen count] in H.
  unfold Arena.a_new_node. cbn [afree tbl acount].
  destruct fr as [|i f].
  - injection H as <- <-. eexists. split; [reflexivity|]. cbn [alen free count].
    split; [rewrite app_length; cbn [length]; lia|].
    split; [apply slot_app_new|].
    split; [intros j _ Hj; apply slot_app_old; exact Hj|].
    split; [right; reflexivity|].
    split; [intros []|].
    split; [intros j []|].
    split; [constructor|].
    split; [intros j []|].
    rewrite app_length. lia.
  - injection H as <- <-.
    destruct (proj2 (slot_lt tb i)) as [n0 Hn0]; [apply B; left; reflexivity|].
    rewrite (wr_ok _ _ _ _ Hn0). cbn [rbind]. eexists; split; [reflexivity|]. cbn [alen free count].
    inversion ND as [|? ? NI ND']; subst.
    split; [rewrite upd_length; reflexivity|].
    split; [eapply slot_upd_eq; eauto|].
    split; [intros j Hj _; apply slot_upd_neq; congruence|].
    split; [left; left; reflexivity|].
    split; [exact NI|].
    split; [intros j Hj; right; exact Hj|].
    split; [exact ND'|].
    split; [intros j Hj; rewrite upd_length; apply B; right; exact Hj|].
    rewrite upd_length. lia.
Qed.

Lemma fresh_not_in n fr (tb : list anode) (L : list N) :
  (In n fr \/ n = N.of_nat (length tb)) ->
  (forall j, In j L -> ~ In j fr) -> (forall j, In j L -> (j < N.of_nat (length tb))%N) -> ~ In n L.
Proof.
  intros [H|H] D B Hn.
  - exact (D n Hn H).
  - specialize (B n Hn). lia.
Qed.

Lemma neq_of_in (j i : N) L : In j L -> ~ In i L -> j <> i.
Proof. intros H1 H2 ->. contradiction. Qed.

(* ------------------------------------------------------------------------------------------ *)
(** * [insert] *)

Lemma nn_as_with_child n q (x : V) (b : bool) (c : tree) :
  (if b then Node n q (Some x) Leaf c else Node n q (Some x) c Leaf)
  = with_child n q (Some x) Leaf Leaf b c.
Proof. destruct b; reflexivity. Qed.

Lemma bn_as_with_child b bp (s : bool) (c nn : tree) :
  (if s then Node b bp None c nn else Node b bp None nn c)
  = with_child b bp None (if s then c else Leaf) (if s then Leaf else c) s nn.
Proof. destruct s; reflexivity. Qed.

Lemma ins_sim q x : forall t fuel tb fr cnt i,
  rep tb (Some i) t -> (height t <= fuel)%nat ->
  NoDup (ids t ++ fr) -> (forall j, In j (ids t ++ fr) -> (j < N.of_nat (length tb))%N) ->
  forall t' o a', ins t q x (mkalloc fr (N.of_nat (length tb)) cnt) = (t', o, a') ->
  exists tb', a_insert_loop fuel (mkamap tb fr cnt) i q x = Ok (mkamap tb' (free a') (count a'), o)
    /\ rep tb' (Some i) t' /\ alen a' = N.of_nat (length tb')
    /\ (forall j, ~ In j (ids t) -> ~ In j fr -> (j < N.of_nat (length tb))%N -> slot tb' j = slot tb j).
Proof.
  induction t as [|i0 p v l IHl r IHr]; intros fuel tb fr cnt i R Hf ND B t' o a' H.
  - inversion R.
  - pose proof (rep_link _ _ _ R) as E. cbn [link] in E. injection E as <-.
    destruct fuel as [|f]; [cbn [height] in Hf; lia|].
    cbn [Arena.a_insert_loop tbl]. rewrite (direction_ins_sim _ _ _ q R). cbn [rbind dir_ins_of].
    set (rt := to_right p q) in *.
    destruct (rep_node_rt _ _ _ _ _ _ _ rt R) as (node & Hs & Hp & Hv & Hc & Hsib & Rc & Rs).
    destruct (NoDup_app_inv _ _ ND) as (NDt & NDf & Dtf).
    destruct (nodup_node_rt _ _ _ _ _ rt NDt) as (NIc & NIs & NDc & NDs & Dcs).
    pose proof (height_csel rt i p v l r) as Hh.
    assert (Bt : forall j, In j (ids (Node i p v l r)) -> (j < N.of_nat (length tb))%N).
    { intros j Hj. apply B. apply in_or_app. auto. }
    assert (Bf : forall j, In j fr -> (j < N.of_nat (length tb))%N).
    { intros j Hj. apply B. apply in_or_app. auto. }
    assert (Iit : In i (ids (Node i p v l r))) by (cbn; auto).
    assert (Ict : forall j, In j (ids (csel rt l r)) -> In j (ids (Node i p v l r))).
    { intros j Hj. apply (ids_node_rt i p v l r rt). auto. }
    assert (Ist : forall j, In j (ids (ssel rt l r)) -> In j (ids (Node i p v l r))).
    { intros j Hj. apply (ids_node_rt i p v l r rt). auto. }
    assert (NIf : ~ In i fr) by (apply Dtf; exact Iit).
    cbn [Trie.ins] in H. fold rt in H.
    change (if rt then r else l) with (csel rt l r) in H.
    destruct (peq p q) eqn:EQ.
    { (* Reached *)
      injection H as <- <- <-. rewrite (rd_ok _ _ _ Hs). cbn [rbind].
      rewrite (wr_ok _ _ _ _ Hs). cbn [rbind afree acount].
      apply rep_node_inv in R. destruct R as (_ & Hs' & Rl & Rr).
      rewrite Hs in Hs'. injection Hs' as ->. cbn [nval nleft nright].
      exists (upd tb (N.to_nat i) (mkanode q (Some x) (link l) (link r))).
      split; [destruct v; reflexivity|].
      split; [|split].
      - apply rep_node_intro.
        + eapply slot_upd_eq; eauto.
        + apply rep_upd; [exact Rl|]. cbn [ids] in NDt. inversion NDt; subst.
          rewrite in_app_iff in *. tauto.
        + apply rep_upd; [exact Rr|]. cbn [ids] in NDt. inversion NDt; subst.
          rewrite in_app_iff in *. tauto.
      - rewrite upd_length. destruct v; reflexivity.
      - intros j Hj _ _. apply slot_upd_neq. intros ->. apply Hj. exact Iit. }
    assert (IH : forall f' tb' fr' cnt' i',
               rep tb' (Some i') (csel rt l r) -> (height (csel rt l r) <= f')%nat ->
               NoDup (ids (csel rt l r) ++ fr') ->
               (forall j, In j (ids (csel rt l r) ++ fr') -> (j < N.of_nat (length tb'))%N) ->
               forall t' o a', ins (csel rt l r) q x (mkalloc fr' (N.of_nat (length tb')) cnt') = (t', o, a') ->
               exists tb'', a_insert_loop f' (mkamap tb' fr' cnt') i' q x
                            = Ok (mkamap tb'' (free a') (count a'), o)
                 /\ rep tb'' (Some i') t' /\ alen a' = N.of_nat (length tb'')
                 /\ (forall j, ~ In j (ids (csel rt l r)) -> ~ In j fr' ->
                                (j < N.of_nat (length tb'))%N -> slot tb'' j = slot tb' j)).
    { destruct rt; cbn [csel]; auto. }
    clear IHl IHr.
    destruct (csel rt l r) as [|ci cp cv cl cr] eqn:C.
    { (* NewLeaf *)
      destruct (new_node (mkalloc fr (N.of_nat (length tb)) cnt) true) as [n a1] eqn:NN.
      injection H as <- <- <-.
      destruct (new_node_sim tb fr cnt q (Some x) n a1 Bf NDf NN)
        as (tb1 & E1 & L1 & Sn & Fr1 & Wh & NI1 & Inc1 & ND1 & B1 & Le1).
      pose proof (fresh_not_in n fr tb _ Wh Dtf Bt) as NIn.
      assert (Nni : i <> n) by (intros ->; apply NIn; exact Iit).
      rewrite E1. cbn [rbind tbl afree acount].
      assert (Si1 : slot tb1 i = Some node) by (rewrite Fr1; auto).
      rewrite (set_child_ok _ _ _ _ _ Si1). cbn [rbind].
      eexists. split; [reflexivity|]. split; [|split].
      - apply rep_with_child with (n := with_link node rt (Some n)).
        + eapply slot_upd_eq; eauto.
        + rewrite npfx_with_link. exact Hp.
        + rewrite nval_with_link. exact Hv.
        + apply child_with_link_same.
        + rewrite child_with_link_other. exact Hsib.
        + cbn [link]. apply rep_node_intro; [|constructor|constructor].
          rewrite slot_upd_neq by exact Nni. exact Sn.
        + eapply rep_ext; [exact Rs|]. intros j Hj.
          rewrite slot_upd_neq by (intros ->; contradiction).
          apply Fr1; [|apply Bt; auto]. intros ->. apply NIn. auto.
      - rewrite upd_length. exact L1.
      - intros j Hj1 Hj2 Hj3. rewrite slot_upd_neq by (intros ->; contradiction).
        apply Fr1; [|exact Hj3]. destruct Wh as [Wh| ->]; [|lia]. intros ->. contradiction. }
    destruct (contains cp q) eqn:CQ.
    { (* Enter *)
      destruct (ins (Node ci cp cv cl cr) q x (mkalloc fr (N.of_nat (length tb)) cnt))
        as [[c' o'] a''] eqn:HI.
      injection H as <- <- <-. cbn [link] in Rc.
      assert (NDc' : NoDup (ids (Node ci cp cv cl cr) ++ fr)).
      { apply NoDup_app_intro; auto. }
      assert (Bc' : forall j, In j (ids (Node ci cp cv cl cr) ++ fr) -> (j < N.of_nat (length tb))%N).
      { intros j Hj. apply in_app_or in Hj. destruct Hj; auto. }
      destruct (IH f tb fr cnt ci Rc ltac:(lia) NDc' Bc' _ _ _ HI) as (tb' & E' & R' & L' & F').
      rewrite E'. exists tb'. split; [reflexivity|]. split; [|split].
      - assert (Si' : slot tb' i = Some node).
        { rewrite F'; auto. }
        apply rep_with_child with (n := node); auto.
        + rewrite Hc. cbn [link]. apply (rep_link _ _ _ R').
        + rewrite <- (rep_link _ _ _ R'). exact R'.
        + eapply rep_ext; [exact Rs|]. intros j Hj. apply F'; auto.
          * intros Hjc. exact (Dcs j Hjc Hj).
      - exact L'.
      - intros j Hj1 Hj2 Hj3. apply F'; auto. }
    destruct (contains q cp) eqn:QC.
    { (* NewChild *)
      destruct (new_node (mkalloc fr (N.of_nat (length tb)) cnt) true) as [n a1] eqn:NN.
      injection H as <- <- <-.
      destruct (new_node_sim tb fr cnt q (Some x) n a1 Bf NDf NN)
        as (tb1 & E1 & L1 & Sn & Fr1 & Wh & NI1 & Inc1 & ND1 & B1 & Le1).
      pose proof (fresh_not_in n fr tb _ Wh Dtf Bt) as NIn.
      assert (Nni : i <> n) by (intros ->; apply NIn; exact Iit).
      rewrite E1. cbn [rbind tbl afree acount].
      assert (Si1 : slot tb1 i = Some node) by (rewrite Fr1; auto).
      rewrite (set_child_ok _ _ _ _ _ Si1). cbn [rbind]. rewrite Hc. cbn [link unwrap rbind].
      set (tb2 := upd tb1 (N.to_nat i) (with_link node rt (Some n))).
      assert (Sn2 : slot tb2 n = Some (mkanode q (Some x) None None)).
      { unfold tb2. rewrite slot_upd_neq by exact Nni. exact Sn. }
      rewrite (set_child_ok _ _ _ _ _ Sn2). cbn [rbind].
      eexists. split; [reflexivity|]. split; [|split].
      - rewrite nn_as_with_child.
        apply rep_with_child with (n := with_link node rt (Some n)).
        + rewrite slot_upd_neq by congruence. unfold tb2. eapply slot_upd_eq; eauto.
        + rewrite npfx_with_link. exact Hp.
        + rewrite nval_with_link. exact Hv.
        + rewrite child_with_link_same. destruct (to_right q cp); reflexivity.
        + rewrite child_with_link_other. exact Hsib.
        + assert (Rc3 : rep (upd tb2 (N.to_nat n)
                               (with_link (mkanode q (Some x) None None) (to_right q cp) (Some ci)))
                            (link (Node ci cp cv cl cr)) (Node ci cp cv cl cr)).
          { eapply rep_ext; [exact Rc|]. intros j Hj.
            rewrite slot_upd_neq by (intros ->; apply NIn; auto).
            unfold tb2. rewrite slot_upd_neq by (intros ->; contradiction).
            apply Fr1; [|apply Bt; auto]. intros ->. apply NIn. auto. }
          replace (link (with_child n q (Some x) Leaf Leaf (to_right q cp) (Node ci cp cv cl cr)))
            with (Some n) by (destruct (to_right q cp); reflexivity).
          eapply rep_with_child with (n := with_link (mkanode q (Some x) None None) (to_right q cp) (Some ci)).
          * eapply slot_upd_eq; eauto.
          * rewrite npfx_with_link. reflexivity.
          * rewrite nval_with_link. reflexivity.
          * rewrite child_with_link_same. reflexivity.
          * rewrite child_with_link_other. destruct (to_right q cp); reflexivity.
          * exact Rc3.
          * destruct (to_right q cp); constructor.
        + eapply rep_ext; [exact Rs|]. intros j Hj.
          rewrite slot_upd_neq by (intros ->; apply NIn; auto).
          unfold tb2. rewrite slot_upd_neq by (intros ->; contradiction).
          apply Fr1; [|apply Bt; auto]. intros ->. apply NIn. auto.
      - unfold tb2. rewrite !upd_length. exact L1.
      - intros j Hj1 Hj2 Hj3.
        assert (j <> n) by (destruct Wh as [Wh| ->]; [intros ->; contradiction|lia]).
        rewrite slot_upd_neq by congruence.
        unfold tb2. rewrite slot_upd_neq by (intros ->; contradiction).
        apply Fr1; auto. }
    { (* NewBranch *)
      destruct (new_node (mkalloc fr (N.of_nat (length tb)) cnt) false) as [b a1] eqn:NB.
      destruct (new_node a1 true) as [n a2] eqn:NN.
      injection H as <- <- <-.
      destruct (new_node_sim tb fr cnt (lcp q cp) None b a1 Bf NDf NB)
        as (tb1 & E1 & L1 & Sb & Fr1 & Wh1 & NI1 & Inc1 & ND1 & B1 & Le1).
      destruct a1 as [fr1 al1 cnt1]. cbn [alen free count] in *. subst al1.
      destruct (new_node_sim tb1 fr1 cnt1 q (Some x) n a2 B1 ND1 NN)
        as (tb2 & E2 & L2 & Sn & Fr2 & Wh2 & NI2 & Inc2 & ND2 & B2 & Le2).
      pose proof (fresh_not_in b fr tb _ Wh1 Dtf Bt) as NIb.
      assert (Nbi : i <> b) by (intros ->; apply NIb; exact Iit).
      assert (NIn : ~ In n (ids (Node i p v l r))).
      { destruct Wh2 as [Wh2| ->].
        - intros Hn. apply (Dtf n Hn). apply Inc1. exact Wh2.
        - intros Hn. specialize (Bt _ Hn). lia. }
      assert (Nni : i <> n) by (intros ->; apply NIn; exact Iit).
      assert (Nbn : b <> n).
      { destruct Wh2 as [Wh2| ->]; [intros ->; contradiction|].
        apply slot_some_lt in Sb. lia. }
      rewrite E1. cbn [rbind]. rewrite E2. cbn [rbind tbl afree acount].
      assert (Bt1 : forall j, In j (ids (Node i p v l r)) -> (j < N.of_nat (length tb1))%N).
      { intros j Hj. specialize (Bt j Hj). lia. }
      assert (Old2 : forall j, In j (ids (Node i p v l r)) -> slot tb2 j = slot tb j).
      { intros j Hj. rewrite Fr2; [apply Fr1|..]; auto.
        - intros ->. contradiction.
        - intros ->. contradiction. }
      assert (Si2 : slot tb2 i = Some node) by (rewrite Old2; auto).
      rewrite (set_child_ok _ _ _ _ _ Si2). cbn [rbind]. rewrite Hc. cbn [link unwrap rbind].
      set (tb3 := upd tb2 (N.to_nat i) (with_link node rt (Some b))).
      assert (Sb2 : slot tb2 b = Some (mkanode (lcp q cp) None None None)).
      { rewrite Fr2; [exact Sb|congruence|]. eapply slot_some_lt; eauto. }
      assert (Sb3 : slot tb3 b = Some (mkanode (lcp q cp) None None None)).
      { unfold tb3. rewrite slot_upd_neq by exact Nbi. exact Sb2. }
      rewrite (set_child_ok _ _ _ _ _ Sb3). cbn [rbind].
      set (prt := to_right (lcp q cp) q).
      set (bn1 := with_link (mkanode (lcp q cp) None None None) prt (Some n)).
      set (tb4 := upd tb3 (N.to_nat b) bn1).
      assert (Sb4 : slot tb4 b = Some bn1) by (unfold tb4; eapply slot_upd_eq; eauto).
      rewrite (set_child_ok _ _ _ _ _ Sb4). cbn [rbind].
      set (bn2 := with_link bn1 (negb prt) (Some ci)).
      eexists. split; [reflexivity|].
      assert (Old5 : forall j, In j (ids (Node i p v l r)) -> j <> i ->
                     slot (upd tb4 (N.to_nat b) bn2) j = slot tb j).
      { intros j Hj Hji. rewrite slot_upd_neq by (intros ->; contradiction).
        unfold tb4. rewrite slot_upd_neq by (intros ->; contradiction).
        unfold tb3. rewrite slot_upd_neq by congruence. apply Old2. exact Hj. }
      split; [|split].
      - apply rep_with_child with (n := with_link node rt (Some b)).
        + rewrite slot_upd_neq by congruence. unfold tb4. rewrite slot_upd_neq by congruence.
          unfold tb3. eapply slot_upd_eq; eauto.
        + rewrite npfx_with_link. exact Hp.
        + rewrite nval_with_link. exact Hv.
        + rewrite child_with_link_same. fold prt. destruct prt; reflexivity.
        + rewrite child_with_link_other. exact Hsib.
        + fold prt.
          assert (Rc5 : rep (upd tb4 (N.to_nat b) bn2) (Some ci) (Node ci cp cv cl cr)).
          { eapply rep_ext; [exact Rc|]. intros j Hj. apply Old5; auto.
            intros ->. contradiction. }
          assert (Rn5 : rep (upd tb4 (N.to_nat b) bn2) (Some n) (Node n q (Some x) Leaf Leaf)).
          { apply rep_node_intro; [|constructor|constructor].
            rewrite slot_upd_neq by congruence. unfold tb4. rewrite slot_upd_neq by congruence.
            unfold tb3. rewrite slot_upd_neq by congruence. exact Sn. }
          assert (Sb5 : slot (upd tb4 (N.to_nat b) bn2) b = Some bn2) by (eapply slot_upd_eq; eauto).
          unfold bn2, bn1 in Sb5.
          destruct prt; cbn [link]; apply rep_node_intro; cbn [link]; auto.
        + eapply rep_ext; [exact Rs|]. intros j Hj. apply Old5; auto.
          intros ->. contradiction.
      - unfold tb4, tb3. rewrite !upd_length. exact L2.
      - intros j Hj1 Hj2 Hj3.
        assert (j <> b) by (destruct Wh1 as [Wh1| ->]; [intros ->; contradiction|lia]).
        assert (j <> n).
        { destruct Wh2 as [Wh2| ->]; [|lia]. intros ->. apply Hj2. apply Inc1. exact Wh2. }
        rewrite slot_upd_neq by congruence. unfold tb4. rewrite slot_upd_neq by congruence.
        unfold tb3. rewrite slot_upd_neq by (intros ->; contradiction).
        rewrite Fr2; [apply Fr1|..]; auto. lia. }
Qed.

Theorem insert_fuel_bound am m q x fuel : Rep am m -> minv m -> (length (tbl am) <= fuel)%nat ->
  exists am', a_insert_loop fuel am 0%N q x = Ok (am', snd (insert m q x)) /\
              Rep am' (fst (insert m q x)).
Proof.
  intros R M F. pose proof (Rep_height _ _ R M) as HH.
  destruct am as [tb fr cnt]. destruct m as [t [fr' al cnt']].
  destruct R as (R & Ef & El & Ec). unfold Slots.minv in M.
  cbn [tbl afree acount root Trie.al free alen count] in *. subst fr' al cnt'.
  unfold Trie.insert. cbn [root Trie.al].
  destruct (ins t q x (mkalloc fr (N.of_nat (length tb)) cnt)) as [[t' o] a'] eqn:HI.
  pose proof (minv_nodup_all _ _ M) as ND. pose proof (minv_range_all _ _ M) as B.
  cbn [free alen] in ND, B.
  destruct (ins_sim q x t fuel tb fr cnt 0%N R ltac:(lia) ND B _ _ _ HI) as (tb' & E & R' & L' & _).
  rewrite E. eexists. split; [reflexivity|]. cbn [fst snd].
  split; [exact R'|]. cbn [tbl afree acount root Trie.al]. auto.
Qed.

Theorem insert_sim am m q x : Rep am m -> minv m ->
  exists am', a_insert am q x = Ok (am', snd (insert m q x)) /\ Rep am' (fst (insert m q x)).
Proof. intros R M. apply (insert_fuel_bound am m q x _ R M). lia. Qed.

(* ------------------------------------------------------------------------------------------ *)
(** * [remove_keep_tree] *)

Lemma rkt_loop_sim q : forall t fuel tb i,
  rep tb (Some i) t -> NoDup (ids t) -> (height t <= fuel)%nat ->
  exists tb', a_rkt_loop fuel tb i q = Ok (tb', get t q)
    /\ rep tb' (Some i) (modify t q (fun p _ => (p, None)))
    /\ length tb' = length tb
    /\ (forall j, ~ In j (ids t) -> slot tb' j = slot tb j).
Proof.
  induction t as [|i0 p v l IHl r IHr]; intros fuel tb i R NDt Hf.
  - inversion R.
  - pose proof (rep_link _ _ _ R) as E. cbn [link] in E. injection E as <-.
    destruct fuel as [|f]; [cbn [height] in Hf; lia|].
    cbn [Arena.a_rkt_loop]. rewrite (direction_sim _ _ _ q R). cbn [rbind dir_of].
    set (rt := to_right p q) in *.
    destruct (rep_node_rt _ _ _ _ _ _ _ rt R) as (node & Hs & Hp & Hv & Hc & Hsib & Rc & Rs).
    destruct (nodup_node_rt _ _ _ _ _ rt NDt) as (NIc & NIs & NDc & NDs & Dcs).
    pose proof (height_csel rt i p v l r) as Hh.
    unfold Trie.get. cbn [Trie.get_node Trie.modify]. fold rt.
    change (if rt then r else l) with (csel rt l r).
    destruct (peq p q) eqn:EQ.
    { rewrite (rd_ok _ _ _ Hs). cbn [rbind]. rewrite (wr_ok _ _ _ _ Hs). cbn [rbind].
      apply rep_node_inv in R. destruct R as (_ & Hs' & Rl & Rr).
      rewrite Hs in Hs'. injection Hs' as ->. cbn [nval nleft nright npfx].
      eexists. split; [reflexivity|]. split; [|split].
      - apply rep_node_intro.
        + eapply slot_upd_eq; eauto.
        + apply rep_upd; [exact Rl|]. cbn [ids] in NDt. inversion NDt; subst.
          rewrite in_app_iff in *. tauto.
        + apply rep_upd; [exact Rr|]. cbn [ids] in NDt. inversion NDt; subst.
          rewrite in_app_iff in *. tauto.
      - apply upd_length.
      - intros j Hj. apply slot_upd_neq. intros ->. apply Hj. cbn. auto. }
    assert (IH : forall f' tb' i',
               rep tb' (Some i') (csel rt l r) -> NoDup (ids (csel rt l r)) ->
               (height (csel rt l r) <= f')%nat ->
               exists tb'', a_rkt_loop f' tb' i' q = Ok (tb'', get (csel rt l r) q)
                 /\ rep tb'' (Some i') (modify (csel rt l r) q (fun p _ => (p, None)))
                 /\ length tb'' = length tb'
                 /\ (forall j, ~ In j (ids (csel rt l r)) -> slot tb'' j = slot tb' j)).
    { destruct rt; cbn [csel]; auto. }
    clear IHl IHr.
    destruct (csel rt l r) as [|ci cp cv cl cr] eqn:C.
    { exists tb. split; [reflexivity|]. split; [exact R|]. split; [reflexivity|]. auto. }
    destruct (contains cp q) eqn:CQ.
    2:{ exists tb. split; [reflexivity|]. split; [exact R|]. split; [reflexivity|]. auto. }
    cbn [link] in Rc.
    destruct (IH f tb ci Rc NDc ltac:(lia)) as (tb' & E' & R' & L' & F').
    rewrite E'. exists tb'. split; [reflexivity|]. split; [|split].
    { apply rep_with_child with (n := node); auto.
      + rewrite F'; auto.
      + rewrite Hc. cbn [link]. apply (rep_link _ _ _ R').
      + rewrite <- (rep_link _ _ _ R'). exact R'.
      + eapply rep_ext; [exact Rs|]. intros j Hj. apply F'.
        intros Hjc. exact (Dcs j Hjc Hj). }
    { exact L'. }
    { intros j Hj. apply F'. intros Hjc. apply Hj. apply (ids_node_rt i p v l r rt). rewrite C. auto. }
Qed.

Theorem remove_keep_tree_fuel_bound am m q fuel :
  Rep am m -> minv m -> (length (tbl am) <= fuel)%nat ->
  exists tb', a_rkt_loop fuel (tbl am) 0%N q = Ok (tb', get (root m) q) /\
              rep tb' (Some 0%N) (modify (root m) q (fun p _ => (p, None))) /\
              length tb' = length (tbl am).
Proof.
  intros R M F. pose proof (Rep_height _ _ R M) as HH.
  destruct (rkt_loop_sim q (root m) fuel (tbl am) 0%N) as (tb' & E & R' & L' & _).
  - apply R.
  - exact (proj1 (NoDup_app_inv _ _ (minv_nodup_all _ _ M))).
  - lia.
  - eauto.
Qed.

Theorem remove_keep_tree_sim am m q : Rep am m -> minv m ->
  exists am', a_remove_keep_tree am q = Ok (am', snd (remove_keep_tree m q)) /\
              Rep am' (fst (remove_keep_tree m q)).
Proof.
  intros R M.
  destruct (remove_keep_tree_fuel_bound am m q (S (length (tbl am))) R M ltac:(lia))
    as (tb' & E & R' & L').
  unfold Arena.a_remove_keep_tree. rewrite E. cbn [rbind]. eexists. split; [reflexivity|].
  unfold Trie.remove_keep_tree. cbn [fst snd].
  destruct R as (_ & Ef & El & Ec).
  split; [exact R'|]. cbn [tbl afree acount root Trie.al].
  destruct (get (root m) q); cbn [Trie.dec_if Trie.add_count free alen count is_some is_none negb];
    rewrite L'; repeat split; auto. rewrite Ec. reflexivity.
Qed.

(* ------------------------------------------------------------------------------------------ *)
(** * [remove] *)

(** what [remove] does after its search loop *)
Definition finish (am : amap) (r : option (N * option N * bool * option N * bool))
  : res (amap * option V) :=
  match r with
  | None => Ok (am, None)
  | Some (idx, par, par_right, grp, grp_right) =>
    '(am', value, _) <- a_remove_node am idx par par_right grp grp_right ;; Ok (am', value)
  end.

Lemma a_remove_unfold am q :
  a_remove am q
  = (r <- a_find (S (length (tbl am))) (tbl am) 0%N None false None false q ;; finish am r).
Proof. reflexivity. Qed.

(** the grandparent's slot links to the parent [pi] on side [gr] and lies outside [T] *)
Definition grp_ok (tb : list anode) (grp : option N) (gr : bool) (pi : N) (T : tree) : Prop :=
  match grp with
  | None => True
  | Some gi => exists gn, slot tb gi = Some gn /\ child_of gn gr = Some pi /\ ~ In gi (ids T)
  end.

(** the table after a removal below the node [T] (which hangs under [grp] on side [gr], or is
    the root): it represents [T'], the grandparent's link has been redirected to [T'], and
    nothing outside [T] and the grandparent's slot was written *)
Definition rem_post (tb tb' : list anode) (grp : option N) (gr : bool) (pi : N) (T T' : tree) : Prop :=
  length tb' = length tb /\ rep tb' (link T') T' /\
  match grp with
  | None => link T' = Some pi
  | Some gi => exists gn, slot tb gi = Some gn /\ slot tb' gi = Some (with_link gn gr (link T'))
  end /\
  (forall j, ~ In j (ids T) -> grp <> Some j -> slot tb' j = slot tb j).

Lemma link_with_child i p v l r rt c : link (with_child i p v l r rt c) = Some i.
Proof. destruct rt; reflexivity. Qed.

Lemma with_child_csel i p v l r rt : with_child i p v l r rt (csel rt l r) = Node i p v l r.
Proof. destruct rt; reflexivity. Qed.

Lemma post_keep_root tb tb' grp gr pi pp pv pl pr rt c' pn' :
  grp_ok tb grp gr pi (Node pi pp pv pl pr) -> length tb' = length tb ->
  slot tb' pi = Some pn' -> npfx pn' = pp -> nval pn' = pv ->
  child_of pn' rt = link c' -> child_of pn' (negb rt) = link (ssel rt pl pr) ->
  rep tb' (link c') c' -> rep tb' (link (ssel rt pl pr)) (ssel rt pl pr) ->
  (forall j, ~ In j (ids (Node pi pp pv pl pr)) -> slot tb' j = slot tb j) ->
  rem_post tb tb' grp gr pi (Node pi pp pv pl pr) (with_child pi pp pv pl pr rt c').
Proof.
  intros G L Hs Hp Hv Hc Hsib Rc Rs F. split; [exact L|]. rewrite link_with_child.
  split; [eapply rep_with_child; eauto|]. split; [|auto].
  destruct grp as [gi|]; [|reflexivity].
  destruct G as (gn & Hg & Hgc & NIg). exists gn. split; [exact Hg|].
  rewrite (F gi NIg), Hg, <- Hgc, with_link_id. reflexivity.
Qed.

Lemma rem_post_refl tb grp gr pi T : rep tb (Some pi) T -> grp_ok tb grp gr pi T ->
  rem_post tb tb grp gr pi T T.
Proof.
  intros R G. pose proof (rep_link _ _ _ R) as E. split; [reflexivity|]. rewrite <- E.
  split; [exact R|]. split; [|auto].
  destruct grp as [gi|]; [|reflexivity].
  destruct G as (gn & Hg & Hgc & NIg). exists gn. split; [exact Hg|].
  rewrite Hg, <- Hgc, with_link_id. reflexivity.
Qed.

Lemma dec_count_eq (cv : option V) fr al cnt :
  mkalloc fr al (if is_some cv then (cnt - 1)%Z else cnt) = Trie.dec_if cv (mkalloc fr al cnt).
Proof. destruct cv; reflexivity. Qed.

(** [_remove_node] at a node [c] that has a parent [T] *)
Lemma remove_node_child tb fr al cnt pi pp pv pl pr rt ci cp cv cl cr grp gr :
  csel rt pl pr = Node ci cp cv cl cr ->
  rep tb (Some pi) (Node pi pp pv pl pr) -> NoDup (ids (Node pi pp pv pl pr)) ->
  grp_ok tb grp gr pi (Node pi pp pv pl pr) ->
  forall c' fl a1, remove_self true ci cp cv cl cr (mkalloc fr al cnt) = (c', fl, a1) ->
  forall T' a', (if fl then absorb (is_some grp) pi pp pv pl pr rt a1
                 else (with_child pi pp pv pl pr rt c', a1)) = (T', a') ->
  exists tb' flag,
    a_remove_node (mkamap tb fr cnt) ci (Some pi) rt grp gr
    = Ok (mkamap tb' (free a') (count a'), cv, flag) /\
    alen a' = al /\ rem_post tb tb' grp gr pi (Node pi pp pv pl pr) T'.
Proof.
  intros C R NDt G c' fl a1 RS T' a' HX.
  destruct (rep_node_rt _ _ _ _ _ _ _ rt R) as (pn & Hs & Hp & Hv & Hc & Hsib & Rc & Rs).
  destruct (nodup_node_rt _ _ _ _ _ rt NDt) as (NIc & NIs & NDc & NDs & Dcs).
  rewrite C in *. cbn [link] in Hc, Rc.
  pose proof (rep_node_inv _ _ _ _ _ _ _ Rc) as (_ & Hsc & Rcl & Rcr).
  assert (Icc : In ci (ids (Node ci cp cv cl cr))) by (cbn; auto).
  assert (Npc : pi <> ci) by (intros ->; contradiction).
  assert (NIcs : ~ In ci (ids (ssel rt pl pr))) by (apply Dcs; exact Icc).
  assert (NIcl : ~ In ci (ids cl) /\ ~ In ci (ids cr)).
  { cbn [ids] in NDc. inversion NDc; subst. rewrite in_app_iff in *. tauto. }
  destruct NIcl as (NIcl & NIcr).
  assert (Ipl : forall j, In j (ids cl) -> In j (ids (Node ci cp cv cl cr))).
  { intros j Hj. cbn [ids In]. rewrite in_app_iff. auto. }
  assert (Ipr : forall j, In j (ids cr) -> In j (ids (Node ci cp cv cl cr))).
  { intros j Hj. cbn [ids In]. rewrite in_app_iff. auto. }
  assert (Ict : forall j, In j (ids (Node ci cp cv cl cr)) -> In j (ids (Node pi pp pv pl pr))).
  { intros j Hj. apply (ids_node_rt pi pp pv pl pr rt). rewrite C. auto. }
  assert (Ist : forall j, In j (ids (ssel rt pl pr)) -> In j (ids (Node pi pp pv pl pr))).
  { intros j Hj. apply (ids_node_rt pi pp pv pl pr rt). auto. }
  assert (Ipt : In pi (ids (Node pi pp pv pl pr))) by (cbn; auto).
  unfold Arena.a_remove_node. cbn [tbl afree acount].
  rewrite (rd_ok _ _ _ Hsc). cbn [rbind]. rewrite (wr_ok _ _ _ _ Hsc). cbn [rbind nval nleft nright npfx].
  set (n0 := mkanode cp None (link cl) (link cr)).
  set (tb0 := upd tb (N.to_nat ci) n0).
  assert (S0c : slot tb0 ci = Some n0) by (unfold tb0; eapply slot_upd_eq; eauto).
  assert (S0p : slot tb0 pi = Some pn) by (unfold tb0; rewrite slot_upd_neq by congruence; exact Hs).
  assert (L0 : length tb0 = length tb) by apply upd_length.
  assert (R0s : rep tb0 (link (ssel rt pl pr)) (ssel rt pl pr)) by (apply rep_upd; auto).
  assert (R0l : rep tb0 (link cl) cl) by (apply rep_upd; auto).
  assert (R0r : rep tb0 (link cr) cr) by (apply rep_upd; auto).
  assert (F0 : forall j, ~ In j (ids (Node pi pp pv pl pr)) -> slot tb0 j = slot tb j).
  { intros j Hj. unfold tb0. apply slot_upd_neq. intros ->. apply Hj. auto. }
  unfold Trie.remove_self in RS.
  destruct cl as [|li lp lv ll lr], cr as [|ri rp rv rl rr];
    cbn [Trie.is_node link is_some is_none negb andb orb] in RS |- *.
  - (* leaf *)
    injection RS as <- <- <-.
    rewrite (clear_child_ok _ _ _ _ S0p). cbn [rbind].
    set (pn1 := with_link pn rt None).
    set (tb1 := upd tb0 (N.to_nat pi) pn1).
    assert (S1p : slot tb1 pi = Some pn1) by (unfold tb1; eapply slot_upd_eq; eauto).
    assert (L1 : length tb1 = length tb) by (unfold tb1; rewrite upd_length; exact L0).
    assert (R1s : rep tb1 (link (ssel rt pl pr)) (ssel rt pl pr)) by (apply rep_upd; auto).
    assert (F1 : forall j, ~ In j (ids (Node pi pp pv pl pr)) -> slot tb1 j = slot tb j).
    { intros j Hj. unfold tb1. rewrite slot_upd_neq by (intros ->; contradiction). auto. }
    assert (KEEP : rem_post tb tb1 grp gr pi (Node pi pp pv pl pr) (with_child pi pp pv pl pr rt Leaf)).
    { apply post_keep_root with (pn' := pn1); auto; unfold pn1.
      - rewrite npfx_with_link. exact Hp.
      - rewrite nval_with_link. exact Hv.
      - apply child_with_link_same.
      - rewrite child_with_link_other. exact Hsib.
      - constructor. }
    unfold Trie.absorb in HX. change (if rt then pl else pr) with (ssel rt pl pr) in HX.
    destruct grp as [gi|]; cbn [is_some is_none negb andb] in HX.
    + destruct G as (gn & Hg & Hgc & NIg).
      rewrite (rd_ok _ _ _ S1p). cbn [rbind]. unfold pn1 at 1. rewrite nval_with_link, Hv.
      destruct pv as [y|]; cbn [is_none] in HX |- *.
      * injection HX as <- <-. exists tb1, false. rewrite <- dec_count_eq. cbn [free count alen Trie.push_free].
        split; [reflexivity|]. split; [reflexivity|]. exact KEEP.
      * injection HX as <- <-.
        rewrite (get_child_ok _ _ _ _ S1p). cbn [rbind]. unfold pn1 at 1.
        rewrite child_with_link_other, Hsib.
        assert (Ngp : gi <> pi) by (intros ->; contradiction).
        assert (Ngc : gi <> ci) by (intros ->; apply NIg; auto).
        assert (S1g : slot tb1 gi = Some gn) by (rewrite F1; auto).
        destruct (ssel rt pl pr) as [|si sp sv sl sr] eqn:SB; cbn [link].
        -- rewrite (clear_child_ok _ _ _ _ S1g). cbn [rbind].
           eexists _, false. rewrite <- dec_count_eq. cbn [free count alen Trie.push_free].
           split; [reflexivity|]. split; [reflexivity|].
           split; [rewrite upd_length; exact L1|]. split; [constructor|]. split.
           ++ exists gn. split; [exact Hg|]. eapply slot_upd_eq; eauto.
           ++ intros j Hj Hjg. rewrite slot_upd_neq by congruence. auto.
        -- rewrite (set_child_ok _ _ _ _ _ S1g). cbn [rbind].
           eexists _, true. rewrite <- dec_count_eq. cbn [free count alen Trie.push_free].
           split; [reflexivity|]. split; [reflexivity|].
           split; [rewrite upd_length; exact L1|]. split; [|split].
           ++ cbn [link]. apply rep_upd; [exact R1s|]. intros Hgs. apply NIg. apply Ist. exact Hgs.
           ++ exists gn. split; [exact Hg|]. eapply slot_upd_eq; eauto.
           ++ intros j Hj Hjg. rewrite slot_upd_neq by congruence. auto.
    + injection HX as <- <-. exists tb1, false. rewrite <- dec_count_eq. cbn [free count alen Trie.push_free].
      split; [reflexivity|]. split; [reflexivity|]. exact KEEP.
  - (* only a right child *)
    injection RS as <- <- <-. injection HX as <- <-.
    rewrite (clear_child_ok _ _ _ _ S0c). cbn [rbind].
    change (child_of n0 true) with (Some ri). cbn [unwrap rbind].
    set (tb1 := upd tb0 (N.to_nat ci) (with_link n0 true None)).
    assert (S1p : slot tb1 pi = Some pn) by (unfold tb1; rewrite slot_upd_neq by congruence; exact S0p).
    rewrite (set_child_ok _ _ _ _ _ S1p). cbn [rbind].
    eexists _, false. rewrite <- dec_count_eq. cbn [free count alen Trie.push_free].
    split; [reflexivity|]. split; [reflexivity|].
    apply post_keep_root with (pn' := with_link pn rt (Some ri)); auto.
    + unfold tb1. rewrite !upd_length. exact L0.
    + eapply slot_upd_eq; eauto.
    + rewrite npfx_with_link. exact Hp.
    + rewrite nval_with_link. exact Hv.
    + apply child_with_link_same.
    + rewrite child_with_link_other. exact Hsib.
    + apply rep_upd; [unfold tb1; apply rep_upd; auto|]. intros Hj. apply NIc. auto.
    + apply rep_upd; [unfold tb1; apply rep_upd; auto|]. exact NIs.
    + intros j Hj. rewrite slot_upd_neq by (intros ->; contradiction).
      unfold tb1. rewrite slot_upd_neq by (intros ->; apply Hj; auto). auto.
  - (* only a left child *)
    injection RS as <- <- <-. injection HX as <- <-.
    rewrite (clear_child_ok _ _ _ _ S0c). cbn [rbind].
    change (child_of n0 false) with (Some li). cbn [unwrap rbind].
    set (tb1 := upd tb0 (N.to_nat ci) (with_link n0 false None)).
    assert (S1p : slot tb1 pi = Some pn) by (unfold tb1; rewrite slot_upd_neq by congruence; exact S0p).
    rewrite (set_child_ok _ _ _ _ _ S1p). cbn [rbind].
    eexists _, false. rewrite <- dec_count_eq. cbn [free count alen Trie.push_free].
    split; [reflexivity|]. split; [reflexivity|].
    apply post_keep_root with (pn' := with_link pn rt (Some li)); auto.
    + unfold tb1. rewrite !upd_length. exact L0.
    + eapply slot_upd_eq; eauto.
    + rewrite npfx_with_link. exact Hp.
    + rewrite nval_with_link. exact Hv.
    + apply child_with_link_same.
    + rewrite child_with_link_other. exact Hsib.
    + apply rep_upd; [unfold tb1; apply rep_upd; auto|]. intros Hj. apply NIc. auto.
    + apply rep_upd; [unfold tb1; apply rep_upd; auto|]. exact NIs.
    + intros j Hj. rewrite slot_upd_neq by (intros ->; contradiction).
      unfold tb1. rewrite slot_upd_neq by (intros ->; apply Hj; auto). auto.
  - (* two children: the node stays *)
    injection RS as <- <- <-. injection HX as <- <-.
    exists tb0, false. rewrite <- dec_count_eq. cbn [free count alen].
    split; [reflexivity|]. split; [reflexivity|].
    apply post_keep_root with (pn' := pn); auto.
    cbn [link]. apply rep_node_intro; auto.
Qed.

(** below the node that matches, [rem] never reports "unlinked as a leaf" to its caller *)
Lemma rem_enter_flag hp i p v l r q a t' fl o a' :
  peq p q = false -> rem hp (Node i p v l r) q a = (t', fl, o, a') -> fl = false.
Proof.
  intros EQ H. cbn [Trie.rem] in H. rewrite EQ in H.
  destruct (if to_right p q then r else l) as [|ci cp cv cl cr].
  - injection H as _ <- _ _. reflexivity.
  - destruct (contains cp q).
    + destruct (rem true (Node ci cp cv cl cr) q a) as [[[c' flc] oc] ac].
      destruct flc.
      * destruct (absorb hp i p v l r (to_right p q) ac). injection H as _ <- _ _. reflexivity.
      * injection H as _ <- _ _. reflexivity.
    + injection H as _ <- _ _. reflexivity.
Qed.

(** the search loop of [remove] below a node [T] that is not the target, followed by
    [_remove_node] *)
Lemma rem_sim q : forall T fuel tb fr al cnt pi grp gr,
  rep tb (Some pi) T -> NoDup (ids T) -> grp_ok tb grp gr pi T ->
  forall pp pv pl pr, T = Node pi pp pv pl pr -> peq pp q = false ->
  forall ci cp cv cl cr, csel (to_right pp q) pl pr = Node ci cp cv cl cr -> contains cp q = true ->
  (height (Node ci cp cv cl cr) <= fuel)%nat ->
  forall T' fl o a', rem (is_some grp) T q (mkalloc fr al cnt) = (T', fl, o, a') ->
  exists tb',
    (r <- a_find fuel tb ci (Some pi) (to_right pp q) grp gr q ;; finish (mkamap tb fr cnt) r)
    = Ok (mkamap tb' (free a') (count a'), o) /\
    alen a' = al /\ rem_post tb tb' grp gr pi T T'.
Proof.
  induction T as [|i0 p0 v0 l IHl r IHr];
    intros fuel tb fr al cnt pi grp gr R NDt G pp pv pl pr ET EQ ci cp cv cl cr C CQ Hf T' fl o a' H.
  { discriminate ET. }
  injection ET as -> -> -> -> ->.
  set (rt := to_right pp q) in *.
  destruct fuel as [|f]; [cbn [height] in Hf; lia|].
  destruct (rep_node_rt _ _ _ _ _ _ _ rt R) as (pn & Hs & Hp & Hv & Hc & Hsib & Rc & Rs).
  destruct (nodup_node_rt _ _ _ _ _ rt NDt) as (NIc & NIs & NDc & NDs & Dcs).
  assert (IH : forall f' tb' fr' al' cnt' pi' grp' gr',
             rep tb' (Some pi') (csel rt pl pr) -> NoDup (ids (csel rt pl pr)) ->
             grp_ok tb' grp' gr' pi' (csel rt pl pr) ->
             forall pp' pv' pl' pr', csel rt pl pr = Node pi' pp' pv' pl' pr' -> peq pp' q = false ->
             forall ci' cp' cv' cl' cr', csel (to_right pp' q) pl' pr' = Node ci' cp' cv' cl' cr' ->
             contains cp' q = true -> (height (Node ci' cp' cv' cl' cr') <= f')%nat ->
             forall T' fl o a', rem (is_some grp') (csel rt pl pr) q (mkalloc fr' al' cnt') = (T', fl, o, a') ->
             exists tb'',
               (r <- a_find f' tb' ci' (Some pi') (to_right pp' q) grp' gr' q ;;
                finish (mkamap tb' fr' cnt') r)
               = Ok (mkamap tb'' (free a') (count a'), o) /\
               alen a' = al' /\ rem_post tb' tb'' grp' gr' pi' (csel rt pl pr) T').
  { destruct rt; cbn [csel]; auto. }
  clear IHl IHr.
  cbn [Trie.rem] in H. rewrite EQ in H. fold rt in H.
  change (if rt then pr else pl) with (csel rt pl pr) in H.
  rewrite C in *. rewrite CQ in H. cbn [link] in Rc, Hc.
  cbn [Arena.a_find]. rewrite (direction_sim _ _ _ q Rc). cbn [rbind dir_of].
  destruct (peq cp q) eqn:EQc.
  { (* Reached *)
    cbn [rbind finish]. cbn [Trie.rem] in H. rewrite EQc in H.
    destruct (remove_self true ci cp cv cl cr (mkalloc fr al cnt)) as [[c' flc] a1] eqn:RS.
    destruct (if flc then absorb (is_some grp) pi pp pv pl pr rt a1
              else (with_child pi pp pv pl pr rt c', a1)) as [T'' a''] eqn:HX.
    assert (E4 : T' = T'' /\ o = cv /\ a' = a'').
    { destruct flc.
      - rewrite HX in H. injection H as <- _ <- <-. auto.
      - injection HX as <- <-. injection H as <- _ <- <-. auto. }
    destruct E4 as (-> & -> & ->).
    destruct (remove_node_child tb fr al cnt pi pp pv pl pr rt ci cp cv cl cr grp gr C R NDt G
                                _ _ _ RS _ _ HX) as (tb' & flag & E & Al & Post).
    rewrite E. cbn [rbind]. exists tb'. auto. }
  pose proof (rem_enter_flag true ci cp cv cl cr q (mkalloc fr al cnt)) as FLG.
  destruct (rem true (Node ci cp cv cl cr) q (mkalloc fr al cnt)) as [[[c' flc] oc] ac] eqn:RC.
  specialize (FLG _ _ _ _ EQc eq_refl). subst flc.
  injection H as <- _ <- <-.
  assert (MISS : (c', oc, ac) = (Node ci cp cv cl cr, None, mkalloc fr al cnt) ->
          exists tb', finish (mkamap tb fr cnt) None = Ok (mkamap tb' (free ac) (count ac), oc) /\
            alen ac = al /\
            rem_post tb tb' grp gr pi (Node pi pp pv pl pr) (with_child pi pp pv pl pr rt c')).
  { intros E3. injection E3 as -> -> ->. exists tb. split; [reflexivity|]. split; [reflexivity|].
    rewrite <- C, with_child_csel. apply rem_post_refl; auto. }
  cbn [Trie.rem] in RC. rewrite EQc in RC.
  change (if to_right cp q then cr else cl) with (csel (to_right cp q) cl cr) in *.
  destruct (csel (to_right cp q) cl cr) as [|di dp dv dl dr] eqn:D.
  { cbn [rbind]. apply MISS. injection RC as <- <- <-. reflexivity. }
  destruct (contains dp q) eqn:DQ.
  2:{ cbn [rbind]. apply MISS. injection RC as <- <- <-. reflexivity. }
  clear MISS. cbn [rbind].
  (* Enter: one level down, [T] becomes the grandparent *)
  assert (G' : grp_ok tb (Some pi) rt ci (Node ci cp cv cl cr)).
  { exists pn. auto. }
  pose proof (height_csel (to_right cp q) ci cp cv cl cr) as Hh. rewrite D in Hh.
  assert (RC' : rem (is_some (Some pi)) (Node ci cp cv cl cr) q (mkalloc fr al cnt) = (c', false, oc, ac)).
  { cbn [is_some is_none negb Trie.rem]. rewrite EQc.
    change (if to_right cp q then cr else cl) with (csel (to_right cp q) cl cr).
    rewrite D, DQ. exact RC. }
  destruct (IH f tb fr al cnt ci (Some pi) rt Rc NDc G' cp cv cl cr eq_refl EQc
               di dp dv dl dr D DQ ltac:(lia) _ _ _ _ RC') as (tb' & E & Al & Post).
  rewrite E. exists tb'. split; [reflexivity|]. split; [exact Al|].
  destruct Post as (L' & R' & (pn0 & Hpn0 & Hpn') & F').
  rewrite Hs in Hpn0. injection Hpn0 as <-.
  assert (Ict : forall j, In j (ids (Node ci cp cv cl cr)) -> In j (ids (Node pi pp pv pl pr))).
  { intros j Hj. apply (ids_node_rt pi pp pv pl pr rt). rewrite C. auto. }
  apply post_keep_root with (pn' := with_link pn rt (link c')); auto.
  - rewrite npfx_with_link. exact Hp.
  - rewrite nval_with_link. exact Hv.
  - apply child_with_link_same.
  - rewrite child_with_link_other. exact Hsib.
  - eapply rep_ext; [exact Rs|]. intros j Hj. apply F'.
    + intros Hjc. exact (Dcs j Hjc Hj).
    + intros [= ->]. contradiction.
  - intros j Hj. apply F'.
    + intros Hjc. apply Hj. auto.
    + intros [= ->]. apply Hj. cbn. auto.
Qed.

(** [_remove_node] at the root (no parent): the node stays whatever its children are *)
Lemma remove_node_root tb fr al cnt i p v l r :
  rep tb (Some i) (Node i p v l r) -> NoDup (ids (Node i p v l r)) ->
  exists tb', a_remove_node (mkamap tb fr cnt) i None false None false
              = Ok (mkamap tb' fr (count (Trie.dec_if v (mkalloc fr al cnt))), v, false) /\
    remove_self false i p v l r (mkalloc fr al cnt)
    = (Node i p None l r, false, Trie.dec_if v (mkalloc fr al cnt)) /\
    length tb' = length tb /\ rep tb' (Some i) (Node i p None l r).
Proof.
  intros R ND. pose proof (rep_node_inv _ _ _ _ _ _ _ R) as (_ & Hs & Rl & Rr).
  unfold Arena.a_remove_node. cbn [tbl afree acount].
  rewrite (rd_ok _ _ _ Hs). cbn [rbind]. rewrite (wr_ok _ _ _ _ Hs). cbn [rbind nval nleft nright npfx].
  exists (upd tb (N.to_nat i) (mkanode p None (link l) (link r))).
  assert (NI : ~ In i (ids l) /\ ~ In i (ids r)).
  { cbn [ids] in ND. inversion ND; subst. rewrite in_app_iff in *. tauto. }
  split; [|split; [|split]].
  - replace (count (Trie.dec_if v (mkalloc fr al cnt))) with (if is_some v then (cnt - 1)%Z else cnt)
      by (destruct v; reflexivity).
    destruct l, r; reflexivity.
  - unfold Trie.remove_self. destruct l, r; reflexivity.
  - apply upd_length.
  - apply rep_node_intro; [eapply slot_upd_eq; eauto|apply rep_upd; tauto|apply rep_upd; tauto].
Qed.

Theorem remove_fuel_bound am m q fuel : Rep am m -> minv m -> (length (tbl am) <= fuel)%nat ->
  exists am', (r <- a_find fuel (tbl am) 0%N None false None false q ;; finish am r)
              = Ok (am', snd (remove m q)) /\ Rep am' (fst (remove m q)).
Proof.
  intros R M F. pose proof (Rep_height _ _ R M) as HH.
  destruct am as [tb fr cnt]. destruct m as [t [fr' al cnt']].
  destruct R as (R & Ef & El & Ec). unfold Slots.minv in M.
  cbn [tbl afree acount root Trie.al free alen count] in *. subst fr' cnt'.
  pose proof (proj1 (NoDup_app_inv _ _ (minv_nodup_all _ _ M))) as NDt.
  unfold Trie.remove. cbn [root Trie.al].
  destruct (rem false t q (mkalloc fr al cnt)) as [[[T' fl] o] a'] eqn:HR. cbn [fst snd].
  destruct (rep_some_inv _ _ _ R) as (p & v & l & r & ->).
  destruct fuel as [|f]; [cbn [height] in HH; lia|].
  cbn [Arena.a_find]. rewrite (direction_sim _ _ _ q R). cbn [rbind dir_of].
  destruct (peq p q) eqn:EQ.
  { cbn [rbind finish]. cbn [Trie.rem] in HR. rewrite EQ in HR.
    destruct (remove_node_root tb fr al cnt 0%N p v l r R NDt) as (tb' & E & RS & L' & R').
    rewrite RS in HR. injection HR as <- _ <- <-.
    rewrite E. cbn [rbind]. eexists. split; [reflexivity|].
    split; [exact R'|]. cbn [tbl afree acount root Trie.al]. rewrite L'.
    destruct v; cbn; auto. }
  assert (MISS : (T', o, a') = (Node 0%N p v l r, None, mkalloc fr al cnt) ->
          exists am', finish (mkamap tb fr cnt) None = Ok (am', o) /\ Rep am' (mkmap T' a')).
  { intros E3. injection E3 as -> -> ->. eexists. split; [reflexivity|].
    split; [exact R|]. cbn. auto. }
  pose proof HR as HR0.
  cbn [Trie.rem] in HR. rewrite EQ in HR.
  change (if to_right p q then r else l) with (csel (to_right p q) l r) in *.
  destruct (csel (to_right p q) l r) as [|ci cp cv cl cr] eqn:C.
  { cbn [rbind]. apply MISS. injection HR as <- _ <- <-. reflexivity. }
  destruct (contains cp q) eqn:CQ.
  2:{ cbn [rbind]. apply MISS. injection HR as <- _ <- <-. reflexivity. }
  clear MISS HR. cbn [rbind].
  pose proof (height_csel (to_right p q) 0%N p v l r) as Hh. rewrite C in Hh.
  destruct (rem_sim q (Node 0%N p v l r) f tb fr al cnt 0%N None false R NDt I
                    p v l r eq_refl EQ ci cp cv cl cr C CQ ltac:(lia) _ _ _ _ HR0)
    as (tb' & E & Al & (L' & R' & Lk & _)).
  rewrite E. eexists. split; [reflexivity|].
  split; [|cbn [tbl afree acount root Trie.al]; rewrite L', Al; auto].
  cbn [tbl root]. rewrite <- Lk. exact R'.
Qed.

Theorem remove_sim am m q : Rep am m -> minv m ->
  exists am', a_remove am q = Ok (am', snd (remove m q)) /\ Rep am' (fst (remove m q)).
Proof. intros R M. rewrite a_remove_unfold. apply (remove_fuel_bound am m q _ R M). lia. Qed.

(* ------------------------------------------------------------------------------------------ *)
(** * Histories from the empty map *)

Notation aop := (Arena.aop pfx V).
Notation a_step := (Arena.a_step pfx V peq contains is_bit_set plen lcp).
Notation a_run_from := (Arena.a_run_from pfx V peq contains is_bit_set plen lcp).
Notation a_run := (Arena.a_run pfx V peq contains is_bit_set plen lcp pzero).
Notation t_step := (Arena.t_step pfx V peq contains is_bit_set plen lcp).
Notation t_run_from := (Arena.t_run_from pfx V peq contains is_bit_set plen lcp).
Notation t_run := (Arena.t_run pfx V peq contains is_bit_set plen lcp pzero).
Notation a_step_out := (Arena.a_step_out pfx V peq contains is_bit_set plen lcp).
Notation t_step_out := (Arena.t_step_out pfx V peq contains is_bit_set plen lcp).
Notation a_outs := (Arena.a_outs pfx V peq contains is_bit_set plen lcp).
Notation t_outs := (Arena.t_outs pfx V peq contains is_bit_set plen lcp).

Theorem Rep_empty : Rep a_empty empty.
Proof.
  split; [|cbn; auto]. cbn [tbl Arena.a_empty root Trie.empty].
  apply rep_node_intro; [reflexivity|constructor|constructor].
Qed.

Lemma t_step_minv o m : minv m -> minv (t_step o m).
Proof.
  destruct o; cbn [Arena.t_step].
  - apply (Slots.insert_minv pfx V peq contains is_bit_set plen lcp pzero).
  - apply (Slots.remove_minv pfx V peq contains is_bit_set plen lcp pzero).
  - apply (Slots.remove_keep_tree_minv pfx V peq contains is_bit_set plen).
Qed.

Theorem step_out_sim o am m : Rep am m -> minv m ->
  exists am', a_step_out o am = Ok (am', snd (t_step_out o m)) /\
              Rep am' (fst (t_step_out o m)) /\ minv (fst (t_step_out o m)).
Proof.
  intros R M. pose proof (t_step_minv o m M) as M'.
  destruct o; cbn [Arena.a_step_out Arena.t_step_out Arena.t_step] in *.
  - destruct (insert_sim am m q x R M) as (am' & E & R'). eauto.
  - destruct (remove_sim am m q R M) as (am' & E & R'). eauto.
  - destruct (remove_keep_tree_sim am m q R M) as (am' & E & R'). eauto.
Qed.

Theorem step_sim o am m : Rep am m -> minv m ->
  exists am', a_step o am = Ok am' /\ Rep am' (t_step o m) /\ minv (t_step o m).
Proof.
  intros R M. destruct (step_out_sim o am m R M) as (am' & E & R' & M').
  exists am'. destruct o; cbn [Arena.a_step Arena.a_step_out Arena.t_step_out Arena.t_step] in *;
    rewrite E; cbn [rbind]; auto.
Qed.

Theorem run_from_sim ops : forall am m, Rep am m -> minv m ->
  exists am', a_run_from ops am = Ok am' /\ Rep am' (t_run_from ops m) /\ minv (t_run_from ops m).
Proof.
  induction ops as [|o ops IH]; intros am m R M; cbn [Arena.a_run_from Arena.t_run_from].
  - eauto.
  - destruct (step_sim o am m R M) as (am1 & E & R1 & M1). rewrite E. cbn [rbind]. apply IH; auto.
Qed.

(** no step of any history panics or runs out of fuel, and the arena reached represents the
    tree reached *)
Theorem run_sim ops :
  exists am, a_run ops = Ok am /\ Rep am (t_run ops) /\ minv (t_run ops).
Proof.
  apply run_from_sim; [apply Rep_empty|apply (Slots.minv_empty pfx V pzero)].
Qed.

(** the values returned along a history agree as well *)
Theorem outs_from_sim ops : forall am m, Rep am m -> minv m -> a_outs ops am = Ok (t_outs ops m).
Proof.
  induction ops as [|o ops IH]; intros am m R M; cbn [Arena.a_outs Arena.t_outs]; [reflexivity|].
  destruct (step_out_sim o am m R M) as (am1 & E & R1 & M1). rewrite E. cbn [rbind].
  destruct (t_step_out o m) as [m1 v1]. cbn [fst snd] in *.
  rewrite (IH am1 m1 R1 M1). reflexivity.
Qed.

Theorem outs_sim ops : a_outs ops a_empty = Ok (t_outs ops empty).
Proof. apply outs_from_sim; [apply Rep_empty|apply (Slots.minv_empty pfx V pzero)]. Qed.

(** the arena states reachable from the empty map *)
Definition reachable (am : amap) : Prop := exists ops, a_run ops = Ok am.

Theorem reachable_Rep am : reachable am -> exists m, Rep am m /\ minv m.
Proof.
  intros [ops E]. destruct (run_sim ops) as (am' & E' & R & M). rewrite E in E'.
  injection E' as <-. eauto.
Qed.

(* ------------------------------------------------------------------------------------------ *)
(** * Structure of every arena that represents a tree under [minv]: links in bounds, no slot
    linked twice, no slot linked while free, the root never linked *)

(** slot [i] links to [j] on side [rt] *)
Definition edge (tb : list anode) (i : N) (rt : bool) (j : N) : Prop :=
  exists n, slot tb i = Some n /\ child_of n rt = Some j.

(** the slots the descents can visit: reachable from slot 0 along links *)
Inductive live (tb : list anode) : N -> Prop :=
| live_root : live tb 0%N
| live_step i rt j : live tb i -> edge tb i rt j -> live tb j.

Lemma link_some_in (t : tree) j : link t = Some j -> In j (ids t).
Proof. destruct t; cbn; [discriminate|]. intros [= ->]. auto. Qed.

(** the target of a link of a slot of [t] is a slot of [t] other than the root of [t] *)
Lemma edge_target tb : forall t o, rep tb o t -> NoDup (ids t) ->
  forall i rt j, In i (ids t) -> edge tb i rt j -> In j (ids t) /\ Some j <> o.
Proof.
  induction t as [|k p v l IHl r IHr]; intros o R ND i rt j Hi E; [destruct Hi|].
  pose proof (rep_node_inv _ _ _ _ _ _ _ R) as (-> & Hs & Rl & Rr).
  cbn [ids] in ND. inversion ND as [|? ? NIk NDlr]; subst.
  destruct (NoDup_app_inv _ _ NDlr) as (NDl & NDr & Dlr). rewrite in_app_iff in NIk.
  cbn [ids In]. rewrite in_app_iff.
  destruct Hi as [<-|Hi]; [|cbn [ids] in Hi; apply in_app_or in Hi; destruct Hi as [Hi|Hi]].
  - destruct E as (n & Hn & Hc). rewrite Hs in Hn. injection Hn as <-.
    assert (In j (ids l) \/ In j (ids r)) as Hj.
    { destruct rt; cbn in Hc; apply link_some_in in Hc; auto. }
    split; [tauto|]. intros [= ->]. tauto.
  - destruct (IHl _ Rl NDl i rt j Hi E) as (Hj & _). split; [tauto|]. intros [= ->]. tauto.
  - destruct (IHr _ Rr NDr i rt j Hi E) as (Hj & _). split; [tauto|]. intros [= ->]. tauto.
Qed.

(** no slot is the target of two links *)
Lemma edge_unique tb : forall t o, rep tb o t -> NoDup (ids t) ->
  forall i1 rt1 i2 rt2 j, In i1 (ids t) -> In i2 (ids t) ->
  edge tb i1 rt1 j -> edge tb i2 rt2 j -> i1 = i2 /\ rt1 = rt2.
Proof.
  induction t as [|k p v l IHl r IHr]; intros o R ND i1 rt1 i2 rt2 j H1 H2 E1 E2; [destruct H1|].
  pose proof (rep_node_inv _ _ _ _ _ _ _ R) as (-> & Hs & Rl & Rr).
  cbn [ids] in ND. inversion ND as [|? ? NIk NDlr]; subst.
  destruct (NoDup_app_inv _ _ NDlr) as (NDl & NDr & Dlr). rewrite in_app_iff in NIk.
  (* what a link out of the root slot [k] points to *)
  assert (RootE : forall rt, edge tb k rt j -> link (csel rt l r) = Some j).
  { intros rt (n & Hn & Hc). rewrite Hs in Hn. injection Hn as <-. destruct rt; exact Hc. }
  assert (InL : forall i rt, In i (ids l) -> edge tb i rt j -> In j (ids l) /\ Some j <> link l).
  { intros i rt Hi E. exact (edge_target tb l _ Rl NDl i rt j Hi E). }
  assert (InR : forall i rt, In i (ids r) -> edge tb i rt j -> In j (ids r) /\ Some j <> link r).
  { intros i rt Hi E. exact (edge_target tb r _ Rr NDr i rt j Hi E). }
  cbn [ids In] in H1, H2. rewrite in_app_iff in H1, H2.
  destruct H1 as [<-|[H1|H1]], H2 as [<-|[H2|H2]].
  - split; [reflexivity|]. apply RootE in E1. apply RootE in E2.
    destruct rt1, rt2; cbn [csel] in *; try reflexivity; exfalso;
      apply link_some_in in E1; apply link_some_in in E2; eapply Dlr; eauto.
  - exfalso. apply RootE in E1. destruct (InL _ _ H2 E2) as (Hj & Hne).
    destruct rt1; cbn [csel] in E1; [|congruence]. apply link_some_in in E1. eapply Dlr; eauto.
  - exfalso. apply RootE in E1. destruct (InR _ _ H2 E2) as (Hj & Hne).
    destruct rt1; cbn [csel] in E1; [congruence|]. apply link_some_in in E1. eapply Dlr; eauto.
  - exfalso. apply RootE in E2. destruct (InL _ _ H1 E1) as (Hj & Hne).
    destruct rt2; cbn [csel] in E2; [|congruence]. apply link_some_in in E2. eapply Dlr; eauto.
  - exact (IHl _ Rl NDl _ _ _ _ _ H1 H2 E1 E2).
  - exfalso. destruct (InL _ _ H1 E1) as (Hj1 & _). destruct (InR _ _ H2 E2) as (Hj2 & _).
    eapply Dlr; eauto.
  - exfalso. apply RootE in E2. destruct (InR _ _ H1 E1) as (Hj & Hne).
    destruct rt2; cbn [csel] in E2; [congruence|]. apply link_some_in in E2. eapply Dlr; eauto.
  - exfalso. destruct (InR _ _ H1 E1) as (Hj1 & _). destruct (InL _ _ H2 E2) as (Hj2 & _).
    eapply Dlr; eauto.
  - exact (IHr _ Rr NDr _ _ _ _ _ H1 H2 E1 E2).
Qed.

Lemma ids_live tb : forall t k, rep tb (Some k) t -> live tb k -> forall i, In i (ids t) -> live tb i.
Proof.
  induction t as [|k0 p v l IHl r IHr]; intros k R Lk i Hi; [destruct Hi|].
  pose proof (rep_node_inv _ _ _ _ _ _ _ R) as (E & Hs & Rl & Rr). injection E as <-.
  cbn [ids In] in Hi. rewrite in_app_iff in Hi. destruct Hi as [<-|[Hi|Hi]]; [exact Lk| |].
  - destruct l as [|lk lp lv ll lr]; [destruct Hi|]. cbn [link] in *.
    apply (IHl lk Rl); [|exact Hi]. apply (live_step tb k false lk Lk). eexists. split; [exact Hs|reflexivity].
  - destruct r as [|rk rp rv rl rr]; [destruct Hi|]. cbn [link] in *.
    apply (IHr rk Rr); [|exact Hi]. apply (live_step tb k true rk Lk). eexists. split; [exact Hs|reflexivity].
Qed.

(** the live slots are exactly the slots of the tree *)
Theorem live_iff_ids am m : Rep am m -> minv m ->
  forall i, live (tbl am) i <-> In i (ids (root m)).
Proof.
  intros R M i. destruct R as (R & _).
  pose proof (proj1 (NoDup_app_inv _ _ (minv_nodup_all _ _ M))) as ND.
  split.
  - intros L. induction L as [|i rt j L IH E].
    + destruct (rep_some_inv _ _ _ R) as (p & v & l & r & ->). cbn. auto.
    + exact (proj1 (edge_target _ _ _ R ND i rt j IH E)).
  - apply (ids_live _ _ _ R). constructor.
Qed.

(** every slot the descents can reach exists: no link out of bounds *)
Theorem live_in_bounds am m : Rep am m -> minv m ->
  forall i, live (tbl am) i -> exists n, slot (tbl am) i = Some n.
Proof.
  intros R M i L. apply slot_lt. apply (live_iff_ids am m R M) in L.
  eapply rep_bounds; [apply R|exact L].
Qed.

(** in particular every link stored in a live slot is in bounds *)
Theorem links_in_bounds am m : Rep am m -> minv m ->
  forall i rt j, live (tbl am) i -> edge (tbl am) i rt j -> (j < N.of_nat (length (tbl am)))%N.
Proof.
  intros R M i rt j L E. apply slot_lt. apply (live_in_bounds am m R M). econstructor; eauto.
Qed.

(** no slot is linked while it is on the free list *)
Theorem live_not_free am m : Rep am m -> minv m ->
  forall i, live (tbl am) i -> ~ In i (afree am).
Proof.
  intros R M i L. apply (live_iff_ids am m R M) in L. destruct R as (_ & -> & _).
  exact (proj2 (proj2 (NoDup_app_inv _ _ (minv_nodup_all _ _ M))) i L).
Qed.

(** no slot is linked twice (from two live slots, or from both sides of one) *)
Theorem no_double_link am m : Rep am m -> minv m ->
  forall i1 rt1 i2 rt2 j, live (tbl am) i1 -> live (tbl am) i2 ->
  edge (tbl am) i1 rt1 j -> edge (tbl am) i2 rt2 j -> i1 = i2 /\ rt1 = rt2.
Proof.
  intros R M i1 rt1 i2 rt2 j L1 L2 E1 E2.
  apply (live_iff_ids am m R M) in L1. apply (live_iff_ids am m R M) in L2.
  pose proof (proj1 (NoDup_app_inv _ _ (minv_nodup_all _ _ M))) as ND.
  destruct R as (R & _). exact (edge_unique _ _ _ R ND _ _ _ _ _ L1 L2 E1 E2).
Qed.

(** the root slot is never the target of a link *)
Theorem root_not_linked am m : Rep am m -> minv m ->
  forall i rt, live (tbl am) i -> ~ edge (tbl am) i rt 0%N.
Proof.
  intros R M i rt L E. apply (live_iff_ids am m R M) in L.
  pose proof (proj1 (NoDup_app_inv _ _ (minv_nodup_all _ _ M))) as ND.
  destruct R as (R & _). destruct (edge_target _ _ _ R ND i rt 0%N L E) as (_ & Hne). congruence.
Qed.

(** the slots are partitioned: every slot below the arena length is either live or free *)
Theorem slots_partition am m : Rep am m -> minv m ->
  forall i, (i < N.of_nat (length (tbl am)))%N <-> (live (tbl am) i \/ In i (afree am)).
Proof.
  intros R M i. rewrite (live_iff_ids am m R M). destruct R as (_ & -> & -> & _).
  unfold Slots.minv, Slots.slots_ok in M. rewrite <- in_seqN', <- in_app_iff. split; apply Permutation_in.
  - apply Permutation_sym. exact M.
  - exact M.
Qed.

(** ... and all of this holds in every arena state reachable from the empty map *)
Corollary reachable_structure am : reachable am ->
  (forall i, live (tbl am) i -> exists n, slot (tbl am) i = Some n) /\
  (forall i rt j, live (tbl am) i -> edge (tbl am) i rt j -> (j < N.of_nat (length (tbl am)))%N) /\
  (forall i, live (tbl am) i -> ~ In i (afree am)) /\
  (forall i1 rt1 i2 rt2 j, live (tbl am) i1 -> live (tbl am) i2 ->
     edge (tbl am) i1 rt1 j -> edge (tbl am) i2 rt2 j -> i1 = i2 /\ rt1 = rt2) /\
  (forall i rt, live (tbl am) i -> ~ edge (tbl am) i rt 0%N) /\
  (forall i, (i < N.of_nat (length (tbl am)))%N <-> (live (tbl am) i \/ In i (afree am))).
Proof.
  intros H. destruct (reachable_Rep am H) as (m & R & M).
  split; [exact (live_in_bounds am m R M)|].
  split; [exact (links_in_bounds am m R M)|].
  split; [exact (live_not_free am m R M)|].
  split; [exact (no_double_link am m R M)|].
  split; [exact (root_not_linked am m R M)|].
  exact (slots_partition am m R M).
Qed.

(** the operations on a reachable arena state never panic and never run out of fuel, and the
    descent loops stop within [length tbl] iterations *)
Corollary reachable_total am q x : reachable am ->
  (exists o, a_get am q = Ok o) /\ (exists o, a_get_lpm am q = Ok o) /\
  (exists r, a_insert am q x = Ok r) /\ (exists r, a_remove am q = Ok r) /\
  (exists r, a_remove_keep_tree am q = Ok r) /\ (exists es, a_entries am = Ok es) /\
  (forall fuel, (length (tbl am) <= fuel)%nat ->
     (exists o, a_get_loop fuel (tbl am) 0%N q = Ok o) /\
     (exists o, a_lpm_loop fuel (tbl am) 0%N q None = Ok o) /\
     (exists r, a_insert_loop fuel am 0%N q x = Ok r) /\
     (exists r, a_find fuel (tbl am) 0%N None false None false q = Ok r) /\
     (exists r, a_rkt_loop fuel (tbl am) 0%N q = Ok r)).
Proof.
  intros H. destruct (reachable_Rep am H) as (m & R & M).
  split; [rewrite (get_sim am m q R M); eauto|].
  split; [rewrite (get_lpm_sim am m q R M); eauto|].
  split; [destruct (insert_sim am m q x R M) as (? & -> & _); eauto|].
  split; [destruct (remove_sim am m q R M) as (? & -> & _); eauto|].
  split; [destruct (remove_keep_tree_sim am m q R M) as (? & -> & _); eauto|].
  split; [rewrite (entries_sim am m R M); eauto|].
  intros fuel F.
  split; [rewrite (get_fuel_bound am m q fuel R M F); eauto|].
  split; [rewrite (get_lpm_fuel_bound am m q fuel R M F); eauto|].
  split; [destruct (insert_fuel_bound am m q x fuel R M F) as (? & -> & _); eauto|].
  split.
  - destruct (remove_fuel_bound am m q fuel R M F) as (am' & E & _).
    destruct (a_find fuel (tbl am) 0%N None false None false q); try discriminate E. eauto.
  - destruct (remove_keep_tree_fuel_bound am m q fuel R M F) as (tb' & -> & _). eauto.
Qed.

End AT.

Print Assumptions get_sim.
Print Assumptions get_lpm_sim.
Print Assumptions entries_sim.
Print Assumptions insert_sim.
Print Assumptions remove_keep_tree_sim.
Print Assumptions remove_sim.
Print Assumptions get_fuel_bound.
Print Assumptions get_lpm_fuel_bound.
Print Assumptions entries_fuel_bound.
Print Assumptions insert_fuel_bound.
Print Assumptions remove_keep_tree_fuel_bound.
Print Assumptions remove_fuel_bound.
Print Assumptions rep_ext.
Print Assumptions rep_upd.
Print Assumptions rep_app.
Print Assumptions run_sim.
Print Assumptions outs_sim.
Print Assumptions live_iff_ids.
Print Assumptions reachable_structure.
Print Assumptions reachable_total.
