(** C11 / C12 stated directly about the ARENA transcription of [TrieView] / [TrieViewMut]
    ([Arena3.a_v_*], [Arena3.a_vm_*]: a view is a [vloc] = [LNode i] | [LVirt p i] into the table).

    ** What is quantified.  [a_vreach tb l]: the location [l] is obtained from the root location
    [LNode 0] (= [map.view()] / [map.view_mut()]) by ANY finite sequence of navigation calls of either
    family — [find q], [find_exact q], [find_lpm q] (for valid [q]), [left()], [right()], on the
    read-only view ([a_v_*]) or on the mutable view ([a_vm_*]).  The theorems hold for every such
    location of every arena reachable from the empty arena by a history over the whole mutator alphabet
    ([ArenaProps.areach]).

    ** What is stated.  Everything is expressed with arena-level observations only: [a_v_iter tb l] is
    what [view.iter()] yields ([Iter] with the stack [[loc.idx()]]), [a_v_prefix], [a_v_value],
    [a_v_prefix_value] are the accessors.  The tree model occurs in the proofs only.

    Proof: the invariant [vinv] (the location represents a mutable-view position [mm] of the represented
    tree, whose read-only twin [vm_view T mm] is reachable by the tree-level navigation relation
    [ViewsExtra.v_reach]) is preserved by every arena navigation step ([Arena3Thm.v_*_sim] /
    [vm_*_sim] + [MutTrav.vm_*_sim]); then the tree-level theorems of [ViewsThm] / [ViewsExtra] apply. *)
From Coq Require Import List NArith ZArith Bool Arith Lia Sorted.
From PT Require Import Bits BitsThm Laws Machine Trie Views TrieWf Lookup ViewsThm ViewsExtra MutTrav
     Arena ArenaThm Arena2 Arena2Thm Arena3 Arena3Thm ArenaProps IterExtra.
Import ListNotations.

Section AV.
Variables (pfx V : Type).
Variables (peq contains : pfx -> pfx -> bool) (is_bit_set : pfx -> N -> bool)
          (plen : pfx -> N) (lcp : pfx -> pfx -> pfx) (pzero : pfx)
          (mcmp : pfx -> pfx -> comparison).
Variable bits : pfx -> list bool.
Variable ok : pfx -> Prop.
Hypothesis LAWS : prefix_laws pfx peq contains is_bit_set plen lcp pzero mcmp bits ok.

Notation tree := (Trie.tree pfx V).
Notation pmap := (Trie.pmap pfx V).
Notation amap := (Arena.amap pfx V).
Notation anode := (Arena.anode pfx V).
Notation view := (Views.view pfx V).
Notation vloc := (Arena3.vloc pfx).
Notation vmut := (Views.vmut pfx).
Notation key := (TrieWf.key pfx V bits).
Notation wf_root := (TrieWf.wf_root pfx V bits ok).
Notation minv := (Slots.minv pfx V).
Notation Rep := (ArenaThm.Rep pfx V).
Notation rep := (ArenaThm.rep pfx V).
Notation areach := (ArenaProps.areach pfx V peq contains is_bit_set plen lcp pzero ok).
Notation under := (ViewsExtra.under pfx V bits).
Notation view_wf := (ViewsThm.view_wf pfx V pzero bits ok).
Notation v_entries := (ViewsThm.v_entries pfx V).
Notation v_step := (ViewsExtra.v_step pfx V peq contains is_bit_set plen pzero ok).
Notation v_reach := (ViewsExtra.v_reach pfx V peq contains is_bit_set plen pzero ok).
Notation is_lpm := (Lookup.is_lpm pfx V bits).
Notation no_cover := (Lookup.no_cover pfx V bits).
Notation loc_rep := (Arena3Thm.loc_rep pfx V).
Notation mloc_rep := (Arena3Thm.mloc_rep pfx V).

Notation v_find := (Views.v_find pfx V peq contains is_bit_set plen).
Notation v_find_exact := (Views.v_find_exact pfx V peq contains is_bit_set plen).
Notation v_find_lpm := (Views.v_find_lpm pfx V peq contains is_bit_set plen).
Notation v_left := (Views.v_left pfx V is_bit_set plen pzero).
Notation v_right := (Views.v_right pfx V is_bit_set plen pzero).
Notation v_prefix := (Views.v_prefix pfx V pzero).
Notation vm_find := (Views.vm_find pfx V peq contains is_bit_set plen).
Notation vm_find_exact := (Views.vm_find_exact pfx V peq contains is_bit_set plen).
Notation vm_find_lpm := (Views.vm_find_lpm pfx V peq contains is_bit_set plen).
Notation vm_left := (Views.vm_left pfx V is_bit_set plen pzero).
Notation vm_right := (Views.vm_right pfx V is_bit_set plen pzero).

Notation a_v_find := (Arena3.a_v_find pfx V peq contains is_bit_set plen lcp).
Notation a_v_find_exact := (Arena3.a_v_find_exact pfx V peq contains is_bit_set plen).
Notation a_v_find_lpm := (Arena3.a_v_find_lpm pfx V peq contains is_bit_set plen).
Notation a_v_left := (Arena3.a_v_left pfx V is_bit_set plen).
Notation a_v_right := (Arena3.a_v_right pfx V is_bit_set plen).
Notation a_v_prefix := (Arena3.a_v_prefix pfx V).
Notation a_v_value := (Arena3.a_v_value pfx V).
Notation a_v_prefix_value := (Arena3.a_v_prefix_value pfx V).
Notation a_vm_find := (Arena3.a_vm_find pfx V peq contains is_bit_set plen lcp).
Notation a_vm_find_exact := (Arena3.a_vm_find_exact pfx V peq contains is_bit_set plen).
Notation a_vm_find_lpm := (Arena3.a_vm_find_lpm pfx V peq contains is_bit_set plen).
Notation a_vm_left := (Arena3.a_vm_left pfx V is_bit_set plen).
Notation a_vm_right := (Arena3.a_vm_right pfx V is_bit_set plen).
Notation a_iter := (Arena.a_iter pfx V).
Notation a_entries := (Arena.a_entries pfx V).

(** [TrieView::iter()] / [TrieViewMut::iter_mut()] / [into_iter]: the pre-order traversal started at
    the location's slot (the virtual prefix plays no role), with the fuel of [PrefixMap::iter] *)
Definition a_v_iter (tb : list anode) (l : vloc) : res (list (pfx * V)) :=
  a_iter (S (length tb)) tb [Arena3.loc_idx l].

(** one navigation call on a view, read-only family or mutable family *)
Inductive a_vstep (tb : list anode) (l l' : vloc) : Prop :=
| AS_left : a_v_left tb l = Ok (Some l') -> a_vstep tb l l'
| AS_right : a_v_right tb l = Ok (Some l') -> a_vstep tb l l'
| AS_find q : ok q -> a_v_find tb l q = Ok (Some l') -> a_vstep tb l l'
| AS_find_exact q : ok q -> a_v_find_exact tb l q = Ok (Some l') -> a_vstep tb l l'
| AS_find_lpm q : ok q -> a_v_find_lpm tb l q = Ok (Some l') -> a_vstep tb l l'
| AS_mleft : a_vm_left tb l = Ok (Some l') -> a_vstep tb l l'
| AS_mright : a_vm_right tb l = Ok (Some l') -> a_vstep tb l l'
| AS_mfind q : ok q -> a_vm_find tb l q = Ok (Some l') -> a_vstep tb l l'
| AS_mfind_exact q : ok q -> a_vm_find_exact tb l q = Ok (Some l') -> a_vstep tb l l'
| AS_mfind_lpm q : ok q -> a_vm_find_lpm tb l q = Ok (Some l') -> a_vstep tb l l'.

Inductive a_vreach (tb : list anode) : vloc -> Prop :=
| AR_root : a_vreach tb (LNode 0%N)
| AR_step l l' : a_vreach tb l -> a_vstep tb l l' -> a_vreach tb l'.

(* ------------------------------------------------------------------------------------------ *)
(** * The invariant *)

Lemma loc_mloc tb (T : tree) l (mm : vmut) : loc_rep tb l (vm_view T mm) <-> mloc_rep tb T l mm.
Proof.
  unfold Arena3Thm.mloc_rep, vm_view. destruct l as [i|p i], (mvirt pfx mm) as [p'|];
    cbn [Arena3Thm.loc_rep Arena3.loc_idx]; intuition (subst; auto).
Qed.

Definition vinv (tb : list anode) (T : tree) (l : vloc) (mm : vmut) : Prop :=
  mloc_rep tb T l mm /\ v_reach (view_of T) (vm_view T mm).

(** a step of the mutable family *)
Lemma vinv_mstep tb T l mm o om v' :
  vinv tb T l mm -> Arena3Thm.opt_rel (mloc_rep tb T) o om -> option_map (vm_view T) om = v' ->
  (forall x, v' = Some x -> v_step (vm_view T mm) x) ->
  forall l', o = Some l' -> exists mm', vinv tb T l' mm'.
Proof.
  intros [MR VR] OR E ST l' ->. destruct om as [mm'|]; [|contradiction]. cbn in OR, E.
  exists mm'. split; [exact OR|]. eapply VR_step; [exact VR|]. apply ST. symmetry. exact E.
Qed.

(** a step of the read-only family: the tree-level mutable twin gives the position *)
Lemma vinv_vstep tb T l mm o (om : option vmut) :
  vinv tb T l mm -> Arena3Thm.opt_rel (loc_rep tb) o (option_map (vm_view T) om) ->
  (forall x, option_map (vm_view T) om = Some x -> v_step (vm_view T mm) x) ->
  forall l', o = Some l' -> exists mm', vinv tb T l' mm'.
Proof.
  intros [MR VR] OR ST l' ->. destruct om as [mm'|]; [|contradiction]. cbn in OR.
  exists mm'. split; [apply loc_mloc; exact OR|]. eapply VR_step; [exact VR|]. apply ST. reflexivity.
Qed.

Lemma vinv_step tb T l l' mm : vinv tb T l mm -> a_vstep tb l l' -> exists mm', vinv tb T l' mm'.
Proof.
  intros I S. pose proof I as [MR VR]. pose proof (proj2 (loc_mloc tb T l mm) MR) as LR.
  destruct S as [E|E|q Hq E|q Hq E|q Hq E|E|E|q Hq E|q Hq E|q Hq E].
  - destruct (Arena3Thm.v_left_sim pfx V peq contains is_bit_set plen lcp pzero tb l _ LR) as (o & E' & W).
    rewrite E in E'. injection E' as <-. rewrite <- (MutTrav.vm_left_sim pfx V is_bit_set plen pzero T mm) in W.
    apply (vinv_vstep tb T l mm _ _ I W); [|reflexivity].
    intros x Hx. apply VS_left. rewrite <- (MutTrav.vm_left_sim pfx V is_bit_set plen pzero T mm). exact Hx.
  - destruct (Arena3Thm.v_right_sim pfx V peq contains is_bit_set plen lcp pzero tb l _ LR) as (o & E' & W).
    rewrite E in E'. injection E' as <-. rewrite <- (MutTrav.vm_right_sim pfx V is_bit_set plen pzero T mm) in W.
    apply (vinv_vstep tb T l mm _ _ I W); [|reflexivity].
    intros x Hx. apply VS_right. rewrite <- (MutTrav.vm_right_sim pfx V is_bit_set plen pzero T mm). exact Hx.
  - destruct (Arena3Thm.v_find_ok pfx V peq contains is_bit_set plen lcp pzero tb l _ q LR) as (o & E' & W).
    rewrite E in E'. injection E' as <-. rewrite <- (MutTrav.vm_find_sim pfx V peq contains is_bit_set plen T mm q) in W.
    apply (vinv_vstep tb T l mm _ _ I W); [|reflexivity].
    intros x Hx. apply (VS_find _ _ _ _ _ _ _ _ _ _ q Hq). rewrite <- (MutTrav.vm_find_sim pfx V peq contains is_bit_set plen T mm q). exact Hx.
  - destruct (Arena3Thm.v_find_exact_ok pfx V peq contains is_bit_set plen lcp pzero tb l _ q LR) as (o & E' & W).
    rewrite E in E'. injection E' as <-. rewrite <- (MutTrav.vm_find_exact_sim pfx V peq contains is_bit_set plen T mm q) in W.
    apply (vinv_vstep tb T l mm _ _ I W); [|reflexivity].
    intros x Hx. apply (VS_find_exact _ _ _ _ _ _ _ _ _ _ q Hq). rewrite <- (MutTrav.vm_find_exact_sim pfx V peq contains is_bit_set plen T mm q). exact Hx.
  - destruct (Arena3Thm.v_find_lpm_ok pfx V peq contains is_bit_set plen lcp pzero tb l _ q LR) as (o & E' & W).
    rewrite E in E'. injection E' as <-. rewrite <- (MutTrav.vm_find_lpm_sim pfx V peq contains is_bit_set plen T mm q) in W.
    apply (vinv_vstep tb T l mm _ _ I W); [|reflexivity].
    intros x Hx. apply (VS_find_lpm _ _ _ _ _ _ _ _ _ _ q Hq). rewrite <- (MutTrav.vm_find_lpm_sim pfx V peq contains is_bit_set plen T mm q). exact Hx.
  - destruct (Arena3Thm.vm_left_sim pfx V is_bit_set plen pzero tb T l mm MR) as (o & E' & W).
    rewrite E in E'. injection E' as <-.
    apply (vinv_mstep tb T l mm _ _ _ I W (MutTrav.vm_left_sim pfx V is_bit_set plen pzero T mm)); [|reflexivity].
    intros x Hx. apply VS_left. exact Hx.
  - destruct (Arena3Thm.vm_right_sim pfx V is_bit_set plen pzero tb T l mm MR) as (o & E' & W).
    rewrite E in E'. injection E' as <-.
    apply (vinv_mstep tb T l mm _ _ _ I W (MutTrav.vm_right_sim pfx V is_bit_set plen pzero T mm)); [|reflexivity].
    intros x Hx. apply VS_right. exact Hx.
  - destruct (Arena3Thm.vm_find_ok pfx V peq contains is_bit_set plen lcp pzero tb T l mm q MR) as (o & E' & W).
    rewrite E in E'. injection E' as <-.
    apply (vinv_mstep tb T l mm _ _ _ I W (MutTrav.vm_find_sim pfx V peq contains is_bit_set plen T mm q)); [|reflexivity].
    intros x Hx. apply (VS_find _ _ _ _ _ _ _ _ _ _ q Hq). exact Hx.
  - destruct (Arena3Thm.vm_find_exact_ok pfx V peq contains is_bit_set plen lcp pzero tb T l mm q MR) as (o & E' & W).
    rewrite E in E'. injection E' as <-.
    apply (vinv_mstep tb T l mm _ _ _ I W (MutTrav.vm_find_exact_sim pfx V peq contains is_bit_set plen T mm q)); [|reflexivity].
    intros x Hx. apply (VS_find_exact _ _ _ _ _ _ _ _ _ _ q Hq). exact Hx.
  - destruct (Arena3Thm.vm_find_lpm_ok pfx V peq contains is_bit_set plen lcp pzero tb T l mm q MR) as (o & E' & W).
    rewrite E in E'. injection E' as <-.
    apply (vinv_mstep tb T l mm _ _ _ I W (MutTrav.vm_find_lpm_sim pfx V peq contains is_bit_set plen T mm q)); [|reflexivity].
    intros x Hx. apply (VS_find_lpm _ _ _ _ _ _ _ _ _ _ q Hq). exact Hx.
Qed.

Lemma vinv_root am m : Rep am m -> vinv (tbl am) (root m) (LNode 0%N) (mkvmut pfx [] None).
Proof.
  intros R. split.
  - split; [|exact I]. unfold vm_tree. cbn [mpath Arena3.loc_idx]. rewrite (MutTrav.subtree_nil pfx V). apply R.
  - unfold vm_view, vm_tree. cbn [mvirt mpath]. rewrite (MutTrav.subtree_nil pfx V). apply VR_refl.
Qed.

Theorem a_vreach_vinv am m l : Rep am m -> a_vreach (tbl am) l -> exists mm, vinv (tbl am) (root m) l mm.
Proof.
  intros R H. induction H as [|l l' _ [mm I] S].
  - eexists. exact (vinv_root am m R).
  - exact (vinv_step _ _ l l' mm I S).
Qed.

(** what the invariant gives: a well-formed view, represented at [l], no larger than the table *)
Lemma vinv_facts am m l mm : Rep am m -> minv m -> wf_root (root m) -> vinv (tbl am) (root m) l mm ->
  let v := vm_view (root m) mm in
  view_wf v /\ loc_rep (tbl am) l v /\ a_v_iter (tbl am) l = Ok (v_entries v).
Proof.
  intros R M W [MR VR] v.
  destruct (ViewsExtra.v_reach_wf pfx V peq contains is_bit_set plen lcp pzero mcmp bits ok LAWS _ _
              (ViewsThm.view_wf_root pfx V pzero bits ok _ W) VR) as [WF _].
  pose proof (proj2 (loc_mloc _ _ _ _) MR) as LR.
  split; [exact WF|]. split; [exact LR|].
  unfold a_v_iter.
  rewrite (ArenaThm.iter_sim pfx V peq contains is_bit_set plen lcp pzero _ (tbl am) [Arena3.loc_idx l] [vm_tree (root m) mm]).
  - cbn [flat_map]. rewrite app_nil_r. unfold ViewsThm.v_entries. subst v. unfold vm_view.
    destruct (mvirt pfx mm); reflexivity.
  - constructor; [exact (proj1 MR)|constructor].
  - cbn [map list_sum fold_right]. unfold vm_tree.
    pose proof (Arena3Thm.tsize_subtree pfx V peq contains is_bit_set plen lcp pzero (mpath pfx mm) (root m)).
    pose proof (Arena3Thm.Rep_tsize pfx V peq contains is_bit_set plen lcp pzero am m R M). lia.
Qed.

(** an observed location is reachable again *)
Lemma reach_next tb l l' : a_vreach tb l -> a_vstep tb l l' -> a_vreach tb l'.
Proof. intros H S. exact (AR_step tb l l' H S). Qed.


(* ------------------------------------------------------------------------------------------ *)
(** * Tools for the statements *)

(** the view a location represents is unique *)
Lemma loc_rep_fun tb l (v v' : view) : loc_rep tb l v -> loc_rep tb l v' -> v = v'.
Proof.
  destruct l as [i|p i], v as [t|p1 t], v' as [t'|p2 t']; cbn [Arena3Thm.loc_rep]; try tauto.
  - intros H H'. f_equal. exact (ArenaProps.rep_fun pfx V tb _ t H t' H').
  - intros [<- H] [<- H']. f_equal. exact (ArenaProps.rep_fun pfx V tb _ t H t' H').
Qed.

(** the location that represents a view is unique *)
Lemma loc_rep_inj tb l l' (v : view) : loc_rep tb l v -> loc_rep tb l' v -> l = l'.
Proof.
  intros H H'. apply (Arena3Thm.loc_rep_iff pfx V) in H. apply (Arena3Thm.loc_rep_iff pfx V) in H'.
  destruct H as [-> _], H' as [-> _]. reflexivity.
Qed.

(** a reachable location of a reachable arena: the facts everything below starts from *)
Lemma setup am l : areach am -> a_vreach (tbl am) l ->
  exists m mm, Rep am m /\ minv m /\ wf_root (root m) /\ vinv (tbl am) (root m) l mm /\
    view_wf (vm_view (root m) mm) /\ loc_rep (tbl am) l (vm_view (root m) mm) /\
    a_v_iter (tbl am) l = Ok (v_entries (vm_view (root m) mm)).
Proof.
  intros H HL.
  destruct (ArenaProps.areach_Rep pfx V peq contains is_bit_set plen lcp pzero mcmp bits ok LAWS am H) as (m & R & M & W).
  destruct (a_vreach_vinv am m l R HL) as (mm & I).
  destruct (vinv_facts am m l mm R M W I) as (WF & LR & IT).
  exists m, mm. auto 10.
Qed.

(** the location a navigation call hands out: reachable, and its iteration yields the entries of the
    view the tree-level call returns *)
Lemma next_facts am m l mm l' (v' : view) : Rep am m -> minv m -> wf_root (root m) ->
  vinv (tbl am) (root m) l mm -> a_vstep (tbl am) l l' -> loc_rep (tbl am) l' v' ->
  view_wf v' /\ a_v_iter (tbl am) l' = Ok (v_entries v').
Proof.
  intros R M W I S LR'. destruct (vinv_step _ _ l l' mm I S) as (mm' & I').
  destruct (vinv_facts am m l' mm' R M W I') as (WF & LR & IT).
  rewrite (loc_rep_fun _ _ _ _ LR' LR). auto.
Qed.

(** the two copies of the navigation code ([TrieView] / [TrieViewMut]) compute the same function *)
Lemma twins_find tb l q : a_vm_find tb l q = a_v_find tb l q.
Proof. reflexivity. Qed.
Lemma twins_find_exact tb l q : a_vm_find_exact tb l q = a_v_find_exact tb l q.
Proof.
  unfold Arena3.a_vm_find_exact, Arena3.a_v_find_exact.
  apply (Arena3Thm.vm_find_exact_eq pfx V peq contains is_bit_set plen).
Qed.
Lemma twins_find_lpm tb l q : a_vm_find_lpm tb l q = a_v_find_lpm tb l q.
Proof.
  unfold Arena3.a_v_find_lpm, Arena3.a_vm_find_lpm, Arena3.a_v_find_lpm_fuel, Arena3.a_vm_find_lpm_fuel.
  destruct (Arena.rd pfx V tb (Arena3.loc_idx l)); cbn [rbind]; auto. destruct (negb _); auto.
  apply (Arena3Thm.vm_find_lpm_loop_eq pfx V peq contains is_bit_set plen).
Qed.

(* ========================================================================================== *)
(** * C12 — [find], [find_exact], [find_lpm] from ANY reachable location *)

(** [find q] at a reachable location whose iteration yields [es]: returns [Ok o] (no panic; the fuel
    suffices); the mutable twin returns the same; [None] only if no entry of the view is covered by
    [q]; [Some l'] is a reachable location again, its [prefix()] has the key of [q], and its iteration
    yields exactly the entries of the view covered by [q], in the view's own order. *)
Theorem arena_C12_find am l q es : areach am -> a_vreach (tbl am) l -> ok q ->
  a_v_iter (tbl am) l = Ok es ->
  exists o, a_v_find (tbl am) l q = Ok o /\ a_vm_find (tbl am) l q = Ok o /\
    match o with
    | Some l' => a_vreach (tbl am) l' /\ a_v_iter (tbl am) l' = Ok (filter (under (bits q)) es) /\
                 exists p, a_v_prefix (tbl am) l' = Ok p /\ bits p = bits q
    | None => filter (under (bits q)) es = []
    end.
Proof.
  intros H HL Hq IT0.
  destruct (setup am l H HL) as (m & mm & R & M & W & I & WF & LR & IT).
  rewrite IT in IT0. injection IT0 as <-. set (v := vm_view (root m) mm) in *.
  destruct (Arena3Thm.v_find_ok pfx V peq contains is_bit_set plen lcp pzero (tbl am) l v q LR) as (o & E & OR).
  exists o. split; [exact E|]. split; [rewrite twins_find; exact E|].
  pose proof (ViewsExtra.v_find_filter pfx V peq contains is_bit_set plen lcp pzero mcmp bits ok LAWS v q WF Hq) as F.
  pose proof (ViewsThm.v_find_spec pfx V peq contains is_bit_set plen lcp pzero mcmp bits ok LAWS v q WF Hq) as S.
  destruct o as [l'|], (v_find v q) as [v'|]; cbn in OR; try contradiction; [|exact F].
  assert (ST : a_vstep (tbl am) l l') by (apply (AS_find _ _ _ q Hq); exact E).
  destruct (next_facts am m l mm l' v' R M W I ST OR) as (WF' & IT').
  split; [exact (AR_step _ l l' HL ST)|]. split; [rewrite IT', F; reflexivity|].
  exists (v_prefix v'). split; [|exact (proj1 (proj2 S))].
  exact (Arena3Thm.v_prefix_sim pfx V peq contains is_bit_set plen lcp pzero (tbl am) l' v' OR).
Qed.

(** [find_exact q]: answers exactly when the view stores the key of [q]; the location it returns is
    the one [find q] returns, a real node whose [prefix()]/[value()] are the stored entry with that
    key, and its iteration yields the entries of the view covered by [q]. *)
Theorem arena_C12_find_exact am l q es : areach am -> a_vreach (tbl am) l -> ok q ->
  a_v_iter (tbl am) l = Ok es ->
  exists o, a_v_find_exact (tbl am) l q = Ok o /\ a_vm_find_exact (tbl am) l q = Ok o /\
    (o <> None <-> exists e, In e es /\ key e = bits q) /\
    match o with
    | Some l' => a_vreach (tbl am) l' /\ a_v_find (tbl am) l q = Ok (Some l') /\
                 a_v_iter (tbl am) l' = Ok (filter (under (bits q)) es) /\
                 exists p x, a_v_prefix (tbl am) l' = Ok p /\ a_v_value (tbl am) l' = Ok (Some x) /\
                             In (p, x) es /\ bits p = bits q
    | None => True
    end.
Proof.
  intros H HL Hq IT0.
  destruct (setup am l H HL) as (m & mm & R & M & W & I & WF & LR & IT).
  rewrite IT in IT0. injection IT0 as <-. set (v := vm_view (root m) mm) in *.
  destruct (Arena3Thm.v_find_exact_ok pfx V peq contains is_bit_set plen lcp pzero (tbl am) l v q LR) as (o & E & OR).
  exists o. split; [exact E|]. split; [rewrite twins_find_exact; exact E|].
  pose proof (ViewsExtra.v_find_exact_iff pfx V peq contains is_bit_set plen lcp pzero mcmp bits ok LAWS v q WF Hq) as IFF.
  split.
  { rewrite <- IFF. destruct o, (v_find_exact v q); cbn in OR; try contradiction; split; congruence. }
  destruct o as [l'|]; [|exact Logic.I]. destruct (v_find_exact v q) as [v'|] eqn:EV; cbn in OR; [|contradiction].
  assert (ST : a_vstep (tbl am) l l') by (apply (AS_find_exact _ _ _ q Hq); exact E).
  destruct (next_facts am m l mm l' v' R M W I ST OR) as (WF' & IT').
  pose proof (ViewsExtra.v_find_exact_find pfx V peq contains is_bit_set plen lcp pzero mcmp bits ok LAWS v q v' WF Hq EV) as EF.
  destruct (ViewsExtra.v_find_exact_full pfx V peq contains is_bit_set plen lcp pzero mcmp bits ok LAWS v q v' WF Hq EV)
    as (_ & _ & KB & (x & VX & INX) & _).
  pose proof (ViewsExtra.v_find_filter pfx V peq contains is_bit_set plen lcp pzero mcmp bits ok LAWS v q WF Hq) as F.
  rewrite EF in F.
  split; [exact (AR_step _ l l' HL ST)|]. split.
  { destruct (Arena3Thm.v_find_ok pfx V peq contains is_bit_set plen lcp pzero (tbl am) l v q LR) as (o2 & E2 & OR2).
    rewrite EF in OR2. destruct o2 as [l2|]; cbn in OR2; [|contradiction].
    rewrite E2, (loc_rep_inj _ _ _ _ OR2 OR). reflexivity. }
  split; [rewrite IT', F; reflexivity|].
  exists (v_prefix v'), x.
  split; [exact (Arena3Thm.v_prefix_sim pfx V peq contains is_bit_set plen lcp pzero (tbl am) l' v' OR)|].
  split; [rewrite (Arena3Thm.v_value_sim pfx V peq contains is_bit_set plen lcp pzero (tbl am) l' v' OR), VX; reflexivity|].
  auto.
Qed.

(** [find_lpm q]: [None] exactly when no entry of the view covers [q]; [Some l'] sits on THE longest
    entry [e] of the view that covers [q] ([is_lpm]): [prefix_value()] is [e], it is the location
    [find_exact (prefix of e)] returns, and its iteration yields the entries of the view under [e]. *)
Theorem arena_C12_find_lpm am l q es : areach am -> a_vreach (tbl am) l -> ok q ->
  a_v_iter (tbl am) l = Ok es ->
  exists o, a_v_find_lpm (tbl am) l q = Ok o /\ a_vm_find_lpm (tbl am) l q = Ok o /\
    match o with
    | Some l' => a_vreach (tbl am) l' /\
                 exists e, is_lpm es q e /\ a_v_prefix_value (tbl am) l' = Ok (Some e) /\
                           a_v_find_exact (tbl am) l (fst e) = Ok (Some l') /\
                           a_v_iter (tbl am) l' = Ok (filter (under (bits (fst e))) es)
    | None => no_cover es q
    end.
Proof.
  intros H HL Hq IT0.
  destruct (setup am l H HL) as (m & mm & R & M & W & I & WF & LR & IT).
  rewrite IT in IT0. injection IT0 as <-. set (v := vm_view (root m) mm) in *.
  destruct (Arena3Thm.v_find_lpm_ok pfx V peq contains is_bit_set plen lcp pzero (tbl am) l v q LR) as (o & E & OR).
  exists o. split; [exact E|]. split; [rewrite twins_find_lpm; exact E|].
  pose proof (ViewsThm.v_find_lpm_spec pfx V peq contains is_bit_set plen lcp pzero mcmp bits ok LAWS v q WF Hq) as S.
  destruct o as [l'|]; destruct (v_find_lpm v q) as [v'|] eqn:EV; cbn in OR; try contradiction; [|exact S].
  assert (ST : a_vstep (tbl am) l l') by (apply (AS_find_lpm _ _ _ q Hq); exact E).
  destruct (next_facts am m l mm l' v' R M W I ST OR) as (WF' & IT').
  destruct (ViewsExtra.v_find_lpm_full pfx V peq contains is_bit_set plen lcp pzero mcmp bits ok LAWS v q v' WF Hq EV)
    as (e & LP & PV & EX).
  pose proof (ViewsExtra.v_lpm_key_ok pfx V pzero bits ok v q e WF LP) as Hk.
  pose proof (ViewsExtra.v_find_exact_find pfx V peq contains is_bit_set plen lcp pzero mcmp bits ok LAWS v (fst e) v' WF Hk EX) as EF.
  pose proof (ViewsExtra.v_find_filter pfx V peq contains is_bit_set plen lcp pzero mcmp bits ok LAWS v (fst e) WF Hk) as F.
  rewrite EF in F.
  split; [exact (AR_step _ l l' HL ST)|]. exists e. split; [exact LP|].
  split; [rewrite (Arena3Thm.v_prefix_value_sim pfx V peq contains is_bit_set plen lcp pzero (tbl am) l' v' OR), PV; reflexivity|].
  split.
  { destruct (Arena3Thm.v_find_exact_ok pfx V peq contains is_bit_set plen lcp pzero (tbl am) l v (fst e) LR) as (o2 & E2 & OR2).
    rewrite EX in OR2. destruct o2 as [l2|]; cbn in OR2; [|contradiction].
    rewrite E2, (loc_rep_inj _ _ _ _ OR2 OR). reflexivity. }
  rewrite IT', F. reflexivity.
Qed.

(* ========================================================================================== *)
(** * C11 — [left] / [right] and [view_at] *)

(** [left()] ([s = false]) / [right()] ([s = true]) at a reachable location with prefix [p] whose
    iteration yields [es]: [None] only if no entry continues with bit [s] after [p]; [Some l'] is a
    reachable location whose iteration yields exactly the entries whose key extends [bits p ++ [s]]. *)
Theorem arena_C11_side am l (s : bool) p es : areach am -> a_vreach (tbl am) l ->
  a_v_prefix (tbl am) l = Ok p -> a_v_iter (tbl am) l = Ok es ->
  exists o, (if s then a_v_right (tbl am) l else a_v_left (tbl am) l) = Ok o /\
    match o with
    | Some l' => a_vreach (tbl am) l' /\ a_v_iter (tbl am) l' = Ok (filter (under (bits p ++ [s])) es)
    | None => filter (under (bits p ++ [s])) es = []
    end.
Proof.
  intros H HL PR IT0.
  destruct (setup am l H HL) as (m & mm & R & M & W & I & WF & LR & IT).
  rewrite IT in IT0. injection IT0 as <-. set (v := vm_view (root m) mm) in *.
  rewrite (Arena3Thm.v_prefix_sim pfx V peq contains is_bit_set plen lcp pzero (tbl am) l v LR) in PR. injection PR as <-.
  pose proof (ViewsExtra.v_side_filter pfx V peq contains is_bit_set plen lcp pzero mcmp bits ok LAWS v s WF) as F.
  unfold ViewsThm.side_prefix in F.
  destruct s.
  - destruct (Arena3Thm.v_right_sim pfx V peq contains is_bit_set plen lcp pzero (tbl am) l v LR) as (o & E & OR).
    exists o. split; [exact E|].
    destruct o as [l'|], (v_right v) as [v'|]; cbn in OR; try contradiction; [|exact F].
    assert (ST : a_vstep (tbl am) l l') by (apply AS_right; exact E).
    destruct (next_facts am m l mm l' v' R M W I ST OR) as (WF' & IT').
    split; [exact (AR_step _ l l' HL ST)|]. rewrite IT', F. reflexivity.
  - destruct (Arena3Thm.v_left_sim pfx V peq contains is_bit_set plen lcp pzero (tbl am) l v LR) as (o & E & OR).
    exists o. split; [exact E|].
    destruct o as [l'|], (v_left v) as [v'|]; cbn in OR; try contradiction; [|exact F].
    assert (ST : a_vstep (tbl am) l l') by (apply AS_left; exact E).
    destruct (next_facts am m l mm l' v' R M W I ST OR) as (WF' & IT').
    split; [exact (AR_step _ l l' HL ST)|]. rewrite IT', F. reflexivity.
Qed.

(** [view_at q] / [view_mut_at q] of a reachable map whose [iter()] yields [es] = [find q] at the root
    location: [None] only if the map stores nothing under [q]; otherwise a location whose prefix has
    the key of [q] and whose iteration yields exactly the entries of the map covered by [q], in the
    map's own order. *)
Theorem arena_C11_view_at am q es : areach am -> ok q -> a_entries am = Ok es ->
  exists o, a_v_find (tbl am) (LNode 0%N) q = Ok o /\ a_vm_find (tbl am) (LNode 0%N) q = Ok o /\
    match o with
    | Some l' => a_vreach (tbl am) l' /\ a_v_iter (tbl am) l' = Ok (filter (under (bits q)) es) /\
                 exists p, a_v_prefix (tbl am) l' = Ok p /\ bits p = bits q
    | None => filter (under (bits q)) es = []
    end.
Proof.
  intros H Hq E. exact (arena_C12_find am (LNode 0%N) q es H (AR_root _) Hq E).
Qed.

(** C03 for views: the iteration of ANY reachable location returns [Ok] of a list that is strictly
    ascending in the lexicographic key order and stores no key twice *)
Theorem arena_C03_view_iter am l : areach am -> a_vreach (tbl am) l ->
  exists es, a_v_iter (tbl am) l = Ok es /\ StronglySorted (TrieWf.key_lt pfx V bits) es /\ NoDup (map key es).
Proof.
  intros H HL. destruct (setup am l H HL) as (m & mm & R & M & W & I & WF & LR & IT).
  exists (v_entries (vm_view (root m) mm)). split; [exact IT|].
  destruct WF as (_ & (b & Hb) & _).
  pose proof (TrieWf.entries_sorted pfx V bits ok b _ Hb) as S.
  split; [exact S|exact (IterExtra.sorted_nodup_keys pfx V bits _ S)].
Qed.

(** the whole-map view: its iteration is the map's *)
Theorem arena_C11_whole_map am : a_v_iter (tbl am) (LNode 0%N) = a_entries am.
Proof. reflexivity. Qed.

End AV.

(* ------------------------------------------------------------------------------------------ *)
(** * An 8-bit example (non-vacuity): the hypotheses are met by a concrete arena and locations *)
From PT Require Import PrefixN PrefixLaws.
Module ArenaViewsExample.
Import ArenaTest.
Open Scope N_scope.

(** 1/1, 1010/4, 1011/4: the node 101/3 is a value-less branching node; 10/2 lies on the edge above it *)
Definition hv : list (aop2 P N) :=
  [AOld (AIns (p 128 1) 1); AOld (AIns (p 160 4) 2); AOld (AIns (p 176 4) 3); AOld (AIns (p 64 2) 4)].
Definition amv : amap P N := Arena2Test.am_of (Arena2Test.arun2 hv).
Definition okN := (fun q : P => valid 8 q = true).

Example hv_reachable : areach P N PEQ CON BIT LEN LCP ZERO okN amv.
Proof.
  exists hv. split; [repeat constructor|]. vm_compute. reflexivity.
Qed.

(** [view_at(10/2)] is the VIRTUAL location above slot 3 (the branch 101/3); from there [left()] is
    empty, [right()] is the branch; [find_lpm(1010_1010/8)] from the root sits on 1010/4 *)
Example hv_observed :
  a_entries P N amv = Ok [(p 64 2, 4); (p 128 1, 1); (p 160 4, 2); (p 176 4, 3)] /\
  Arena3.a_v_find P N PEQ CON BIT LEN LCP (tbl amv) (LNode 0) (p 128 2) = Ok (Some (LVirt (p 128 2) 3)) /\
  a_v_iter P N (tbl amv) (LVirt (p 128 2) 3) = Ok [(p 160 4, 2); (p 176 4, 3)] /\
  Arena3.a_v_left P N BIT LEN (tbl amv) (LVirt (p 128 2) 3) = Ok None /\
  Arena3.a_v_right P N BIT LEN (tbl amv) (LVirt (p 128 2) 3) = Ok (Some (LNode 3)) /\
  Arena3.a_v_find_lpm P N PEQ CON BIT LEN (tbl amv) (LNode 0) (p 170 8) = Ok (Some (LNode 2)) /\
  Arena3.a_v_find_exact P N PEQ CON BIT LEN (tbl amv) (LVirt (p 128 2) 3) (p 176 4) = Ok (Some (LNode 4)).
Proof. vm_compute. repeat split; reflexivity. Qed.

(** the locations above are reachable in the sense of the theorems *)
Example hv_locations :
  a_vreach P N PEQ CON BIT LEN LCP okN (tbl amv) (LVirt (p 128 2) 3) /\
  a_vreach P N PEQ CON BIT LEN LCP okN (tbl amv) (LNode 4).
Proof.
  assert (A : a_vreach P N PEQ CON BIT LEN LCP okN (tbl amv) (LVirt (p 128 2) 3)).
  { eapply AR_step; [apply AR_root|]. apply (AS_find _ _ _ _ _ _ _ _ _ _ _ (p 128 2)); [reflexivity|].
    exact (proj1 (proj2 hv_observed)). }
  split; [exact A|]. eapply AR_step; [exact A|].
  apply (AS_find_exact _ _ _ _ _ _ _ _ _ _ _ (p 176 4)); [reflexivity|].
  exact (proj2 (proj2 (proj2 (proj2 (proj2 (proj2 hv_observed)))))).
Qed.

(** the theorem applied: what [find(1011/4)] from the virtual location yields, by [arena_C12_find] *)
Example hv_by_theorem :
  exists o, Arena3.a_v_find P N PEQ CON BIT LEN LCP (tbl amv) (LVirt (p 128 2) 3) (p 176 4) = Ok o /\
    match o with
    | Some l' => a_v_iter P N (tbl amv) l' =
                 Ok (filter (ViewsExtra.under P N (pbits 8) (pbits 8 (p 176 4))) [(p 160 4, 2); (p 176 4, 3)])
    | None => True
    end.
Proof.
  destruct (arena_C12_find P N PEQ CON BIT LEN LCP ZERO (PrefixN.mcmp 8) (pbits 8) okN
              (PrefixLaws.pn_laws 8 Generic ltac:(discriminate)) amv (LVirt (p 128 2) 3) (p 176 4)
              [(p 160 4, 2); (p 176 4, 3)] hv_reachable (proj1 hv_locations) eq_refl
              (proj1 (proj2 (proj2 hv_observed)))) as (o & E & _ & S).
  exists o. split; [exact E|]. destruct o as [l'|]; [exact (proj1 (proj2 S))|exact I].
Qed.

End ArenaViewsExample.

Print Assumptions arena_C12_find.
Print Assumptions arena_C12_find_exact.
Print Assumptions arena_C12_find_lpm.
Print Assumptions arena_C11_side.
Print Assumptions arena_C11_view_at.
Print Assumptions arena_C03_view_iter.
Print Assumptions ArenaViewsExample.hv_locations.
Print Assumptions ArenaViewsExample.hv_by_theorem.
