(** C13 stated directly about the ARENA transcription: the mutable traversals and the writes through
    the references they hand out.

    At the arena level a reference [&mut T] handed out by a mutable traversal is a SLOT INDEX into the
    table ([IterMut] yields [(&P, &mut T)] of [table[cur]]; the set-operation [*_mut] iterators and
    [get_lpm_mut] do the same).  A write through the reference is [table[i].value = Some x] for a slot
    that holds a value.

    - [a_iter_mut]: [IterMut::next] drained (iter.rs, the mutable copy of [Iter]), yielding slot,
      prefix and value; [a_iter] is its projection — for EVERY table, fuel and stack
      ([iter_mirrors]: the two copies of the loop are the same function; no hypothesis).
    - [a_write am ws]: the table after the writes [ws] (slot, new value) — each slot in [ws] that holds
      a value gets the new value; nothing else in the arena changes ([a_write_frame]: prefixes, links,
      which slots hold a value, free list and counter are literally the same).
    - [Rep_write]: if [am] represents the tree-model map [m] then [a_write am ws] represents [m] with
      [Trie.write_ids (root m) ws] — the operation about which the tree-level C13 theorems speak.
    - [arena_C13_*]: the property for every arena reachable from the empty arena. *)
From Coq Require Import List NArith ZArith Bool Arith Lia Sorted Permutation.
From PT Require Import Bits BitsThm Laws Machine Trie Views TrieWf Lookup Lookup2 Slots MutTrav History
     Arena ArenaThm Arena2 Arena2Thm Arena3 Arena3Thm ArenaProps.
Import ListNotations.

Section AW.
Variables (pfx V : Type).
Variables (peq contains : pfx -> pfx -> bool) (is_bit_set : pfx -> N -> bool)
          (plen : pfx -> N) (lcp : pfx -> pfx -> pfx) (pzero : pfx)
          (mcmp : pfx -> pfx -> comparison).
Variable bits : pfx -> list bool.
Variable ok : pfx -> Prop.
Hypothesis LAWS : prefix_laws pfx peq contains is_bit_set plen lcp pzero mcmp bits ok.

Notation tree := (Trie.tree pfx V).
Notation pmap := (Trie.pmap pfx V).
Notation amap := (Arena.amap pfx V).
Notation anode := (Arena.anode pfx V).
Notation wf_root := (TrieWf.wf_root pfx V bits ok).
Notation minv := (Slots.minv pfx V).
Notation Rep := (ArenaThm.Rep pfx V).
Notation rep := (ArenaThm.rep pfx V).
Notation slot := (ArenaThm.slot pfx V).
Notation areach := (ArenaProps.areach pfx V peq contains is_bit_set plen lcp pzero ok).
Notation a_iter := (Arena.a_iter pfx V).
Notation a_entries := (Arena.a_entries pfx V).
Notation rd := (Arena.rd pfx V).
Notation write_ids := (@Trie.write_ids pfx V).
Notation assoc_id := (@Trie.assoc_id V).
Notation entries_id := (@Trie.entries_id pfx V).
Notation writes_of := (MutTrav.writes_of pfx V).
Notation is_slot_of := (MutTrav.is_slot_of pfx V).
Notation ids := (Slots.ids pfx V).

Definition drop3 (e : N * pfx * V) : pfx * V := let '(_, p, x) := e in (p, x).

(* ------------------------------------------------------------------------------------------ *)
(** * [IterMut::next] drained (iter.rs: the mutable copy of the loop of [Iter]) *)
Fixpoint a_iter_mut (fuel : nat) (tb : list anode) (stack : list N) : res (list (N * pfx * V)) :=
  match fuel with
  | O => OutOfFuel
  | S f =>
    match stack with
    | [] => Ok []
    | cur :: st =>
      node <- rd tb cur ;;
      let st := match nright node with Some r => r :: st | None => st end in
      let st := match nleft node with Some l => l :: st | None => st end in
      rest <- a_iter_mut f tb st ;;
      Ok (match nval node with Some v => (cur, npfx node, v) :: rest | None => rest end)
    end
  end.

(** [PrefixMap::iter_mut] *)
Definition a_items (am : amap) : res (list (N * pfx * V)) :=
  a_iter_mut (S (length (tbl am))) (tbl am) [0%N].

(** the read-only loop is the projection of the mutable one: same function, no hypothesis *)
Theorem iter_mirrors : forall fuel tb st,
  a_iter fuel tb st = (items <- a_iter_mut fuel tb st ;; Ok (map drop3 items)).
Proof.
  induction fuel as [|f IH]; intros tb st; [reflexivity|].
  cbn [Arena.a_iter a_iter_mut]. destruct st as [|cur st]; [reflexivity|].
  destruct (rd tb cur) as [node| |]; cbn [rbind]; try reflexivity.
  rewrite IH. destruct (a_iter_mut f tb _) as [rest| |]; cbn [rbind]; try reflexivity.
  destruct (nval node); reflexivity.
Qed.

Corollary entries_mirror am : a_entries am = (items <- a_items am ;; Ok (map drop3 items)).
Proof. apply iter_mirrors. Qed.

(** against the tree model: the items are [entries_id] of the represented trees *)
Lemma iter_mut_sim : forall fuel tb st ts,
  Forall2 (fun i t => rep tb (Some i) t) st ts ->
  (list_sum (map (@Trie.tsize pfx V) ts) < fuel)%nat ->
  a_iter_mut fuel tb st = Ok (flat_map entries_id ts).
Proof.
  induction fuel as [|f IH]; intros tb st ts F Hf; [lia|].
  destruct F as [|i t st' ts' R F'].
  - reflexivity.
  - destruct (ArenaThm.rep_some_inv pfx V _ _ _ R) as (p & v & l & r & ->).
    apply (ArenaThm.rep_node_inv pfx V) in R. destruct R as (_ & Hs & Rl & Rr).
    cbn [a_iter_mut]. rewrite (ArenaThm.rd_ok pfx V _ _ _ Hs). cbn [rbind nright nleft nval npfx].
    cbn [map Trie.tsize] in Hf. rewrite ArenaThm.list_sum_cons in Hf.
    assert (G : forall st2 ts2, Forall2 (fun i t => rep tb (Some i) t) st2 ts2 ->
                flat_map entries_id ts2 = entries_id l ++ entries_id r ++ flat_map entries_id ts' ->
                (list_sum (map (@Trie.tsize pfx V) ts2) <= Trie.tsize l + Trie.tsize r + list_sum (map (@Trie.tsize pfx V) ts'))%nat ->
                rbind (a_iter_mut f tb st2)
                      (fun rest => Ok match v with Some v0 => (i, p, v0) :: rest | None => rest end)
                = Ok (flat_map entries_id (Node i p v l r :: ts'))).
    { intros st2 ts2 F2 E2 L2. rewrite (IH tb st2 ts2 F2) by lia. cbn [rbind flat_map Trie.entries_id].
      rewrite E2, <- !app_assoc. destruct v; reflexivity. }
    destruct l as [|li lp lv ll lr], r as [|ri rp rv rl rr]; cbn [ArenaThm.link] in *.
    all: [> apply (G st' ts') | apply (G (ri :: st') (Node ri rp rv rl rr :: ts'))
          | apply (G (li :: st') (Node li lp lv ll lr :: ts'))
          | apply (G (li :: ri :: st') (Node li lp lv ll lr :: Node ri rp rv rl rr :: ts')) ].
    all: try (repeat constructor; assumption).
    all: try (cbn [flat_map Trie.entries_id app]; rewrite <- ?app_assoc; reflexivity).
    all: cbn [Trie.tsize map]; rewrite ?ArenaThm.list_sum_cons; lia.
Qed.

Theorem items_sim am m : Rep am m -> minv m -> a_items am = Ok (entries_id (root m)).
Proof.
  intros R M. unfold a_items. rewrite (iter_mut_sim _ (tbl am) [0%N] [root m]).
  - cbn [flat_map]. rewrite app_nil_r. reflexivity.
  - constructor; [apply R|constructor].
  - cbn [map]. rewrite ArenaThm.list_sum_cons, (ArenaThm.tsize_ids pfx V peq contains is_bit_set plen lcp). cbn [list_sum fold_right].
    destruct R as (_ & _ & L & _). pose proof (ArenaThm.minv_size pfx V peq contains is_bit_set plen lcp pzero _ _ M). lia.
Qed.

(* ------------------------------------------------------------------------------------------ *)
(** * Writes through slot references *)

(** [table[i].value = Some x] for a slot that holds a value (a [&mut T] exists only for those) *)
Definition wnode (ws : list (N * V)) (i : N) (n : anode) : anode :=
  match nval n, assoc_id ws i with
  | Some _, Some x => mkanode (npfx n) (Some x) (nleft n) (nright n)
  | _, _ => n
  end.

Fixpoint wtb (k : N) (tb : list anode) (ws : list (N * V)) : list anode :=
  match tb with
  | [] => []
  | n :: tb' => wnode ws k n :: wtb (N.succ k) tb' ws
  end.

Definition a_write (am : amap) (ws : list (N * V)) : amap :=
  mkamap (wtb 0%N (tbl am) ws) (afree am) (acount am).

Lemma wtb_length ws : forall tb k, length (wtb k tb ws) = length tb.
Proof. induction tb as [|n tb IH]; intros k; cbn [wtb length]; [reflexivity|]. rewrite IH. reflexivity. Qed.

Lemma wtb_nth ws : forall tb k j,
  nth_error (wtb k tb ws) j = option_map (wnode ws (k + N.of_nat j)%N) (nth_error tb j).
Proof.
  induction tb as [|n tb IH]; intros k j.
  - destruct j; reflexivity.
  - destruct j as [|j]; cbn [wtb nth_error option_map].
    + rewrite N.add_0_r. reflexivity.
    + rewrite IH. f_equal. f_equal. lia.
Qed.

Lemma slot_wtb tb ws i : slot (wtb 0%N tb ws) i = option_map (wnode ws i) (slot tb i).
Proof.
  unfold ArenaThm.slot. rewrite wtb_nth. f_equal. f_equal. lia.
Qed.

(** the frame: a write changes no prefix, no link, not WHICH slots hold a value, nor the free list,
    the counter or the length of the table *)
Definition nskel (n : anode) : pfx * bool * option N * option N :=
  (npfx n, match nval n with Some _ => true | None => false end, nleft n, nright n).

Theorem a_write_frame am ws :
  map nskel (tbl (a_write am ws)) = map nskel (tbl am) /\
  afree (a_write am ws) = afree am /\ acount (a_write am ws) = acount am /\
  length (tbl (a_write am ws)) = length (tbl am).
Proof.
  split; [|split; [reflexivity|split; [reflexivity|apply wtb_length]]].
  unfold a_write. cbn [tbl]. generalize 0%N. induction (tbl am) as [|n tb IH]; intros k; [reflexivity|].
  cbn [wtb map]. rewrite IH. f_equal. unfold wnode, nskel.
  destruct (nval n) eqn:En, (assoc_id ws k); cbn [npfx nval nleft nright]; rewrite ?En; reflexivity.
Qed.

(** a slot that is not written keeps its node *)
Theorem a_write_other am ws i : assoc_id ws i = None -> slot (tbl (a_write am ws)) i = slot (tbl am) i.
Proof.
  intros H. unfold a_write. cbn [tbl]. rewrite slot_wtb. destruct (slot (tbl am) i) as [n|]; [|reflexivity].
  cbn [option_map]. unfold wnode. rewrite H. destruct (nval n); reflexivity.
Qed.

Lemma rep_write ws tb : forall o t, rep tb o t -> rep (wtb 0%N tb ws) o (write_ids t ws).
Proof.
  intros o t H. induction H as [|i p v l r ol orr Hs Hl IHl Hr IHr]; [constructor|].
  cbn [Trie.write_ids]. econstructor; [|exact IHl|exact IHr].
  rewrite slot_wtb, Hs. cbn [option_map]. unfold wnode. cbn [nval npfx nleft nright].
  destruct v, (assoc_id ws i); reflexivity.
Qed.

Theorem Rep_write am m ws : Rep am m -> Rep (a_write am ws) (mkmap (write_ids (root m) ws) (al m)).
Proof.
  intros (R & F & L & C). split; [|split; [exact F|split; [|exact C]]].
  - cbn [tbl a_write root]. apply rep_write. exact R.
  - cbn [tbl a_write al]. rewrite wtb_length. exact L.
Qed.

(** the written arena is as good as a reachable one: it represents a well-formed map whose slots are
    accounted for (everything [ArenaProps] derives from reachability is derived from these facts) *)
Definition agood (am : amap) : Prop := exists m, Rep am m /\ minv m /\ wf_root (root m).

Lemma areach_good am : areach am -> agood am.
Proof. exact (ArenaProps.areach_Rep pfx V peq contains is_bit_set plen lcp pzero mcmp bits ok LAWS am). Qed.

Theorem a_write_good am ws : agood am -> agood (a_write am ws).
Proof.
  intros (m & R & M & W). exists (mkmap (write_ids (root m) ws) (al m)).
  split; [exact (Rep_write am m ws R)|]. split.
  - unfold Slots.minv, Slots.slots_ok in *. cbn [root al]. rewrite (MutTrav.write_ids_same_ids pfx V). exact M.
  - cbn [root]. exact (History.write_ids_wf_root pfx V bits ok ws _ W).
Qed.

(* ========================================================================================== *)
(** * C13 about the arena *)

(** [iter_mut] mirrors [iter]: on every good arena both return [Ok]; [iter] is the projection; the
    slots of the items are pairwise distinct (no two references alias) *)
Theorem arena_C13_iter_mut am : agood am ->
  exists items, a_items am = Ok items /\ a_entries am = Ok (map drop3 items) /\
                NoDup (map (MutTrav.slot3 pfx V) items).
Proof.
  intros (m & R & M & W). exists (entries_id (root m)).
  pose proof (items_sim am m R M) as E. split; [exact E|].
  split; [rewrite entries_mirror, E; reflexivity|].
  pose proof (Slots.slots_nodup pfx V peq contains is_bit_set plen lcp pzero _ _ M) as ND.
  exact (MutTrav.entry_slots_nodup pfx V (root m) ND).
Qed.

(** writing [g slot old] through ANY selection [sel] of the references [iter_mut] hands out: the
    traversal of the written arena yields the same slots and prefixes in the same order, the value
    [g i x] exactly at the selected slots and the old value everywhere else *)
Theorem arena_C13_write_exact am items sel (g : N -> V -> V) : agood am ->
  a_items am = Ok items -> incl sel items ->
  a_items (a_write am (writes_of g sel))
  = Ok (map (fun '(i, p, x) => (i, p, if is_slot_of sel i then g i x else x)) items).
Proof.
  intros (m & R & M & W) E Hs.
  rewrite (items_sim am m R M) in E. injection E as <-.
  pose proof (Rep_write am m (writes_of g sel) R) as R'.
  rewrite (items_sim _ _ R'); [|unfold Slots.minv, Slots.slots_ok in *; cbn [root al]; rewrite (MutTrav.write_ids_same_ids pfx V); exact M].
  cbn [root]. f_equal.
  exact (MutTrav.write_through_items pfx V (root m) sel g (Slots.slots_nodup pfx V peq contains is_bit_set plen lcp pzero _ _ M) Hs).
Qed.

(** all references at once: [iter_mut().for_each(|(_, v)| *v = g(v))] *)
Theorem arena_C13_write_all am items (g : N -> V -> V) : agood am -> a_items am = Ok items ->
  a_items (a_write am (writes_of g items)) = Ok (map (fun '(i, p, x) => (i, p, g i x)) items) /\
  a_entries (a_write am (writes_of g items)) = Ok (map (fun '(i, p, x) => (p, g i x)) items).
Proof.
  intros G E.
  assert (A : a_items (a_write am (writes_of g items)) = Ok (map (fun '(i, p, x) => (i, p, g i x)) items)).
  { rewrite (arena_C13_write_exact am items items g G E (incl_refl _)). f_equal.
    apply map_ext_in. intros [[i p] x] Hin.
    assert (S : is_slot_of items i = true).
    { apply (MutTrav.is_slot_of_spec pfx V). apply (in_map (MutTrav.slot3 pfx V)) in Hin. exact Hin. }
    rewrite S. reflexivity. }
  split; [exact A|]. rewrite entries_mirror, A. cbn [rbind]. rewrite map_map. f_equal.
  apply map_ext. intros [[i p] x]. reflexivity.
Qed.

(** [get_lpm_mut]: the reference it returns is one of the references [iter_mut] hands out (so a write
    through it lands at that entry, by [arena_C13_write_exact] with [sel = [that item]]), and its
    prefix and value are what [get_lpm] returns *)
Theorem arena_C13_get_lpm_mut am items q : agood am -> a_items am = Ok items ->
  exists o, Arena3.a_get_lpm_mut pfx V peq contains is_bit_set plen am q = Ok o /\
            Arena.a_get_lpm pfx V peq contains is_bit_set plen am q = Ok (option_map drop3 o) /\
            match o with Some e => In e items | None => True end.
Proof.
  intros (m & R & M & W) E. rewrite (items_sim am m R M) in E. injection E as <-.
  exists (Trie.get_lpm_mut pfx V peq contains is_bit_set plen (root m) q).
  split; [exact (Arena3Thm.get_lpm_mut_sim pfx V peq contains is_bit_set plen lcp pzero am m q R M)|].
  split.
  - rewrite (ArenaThm.get_lpm_sim pfx V peq contains is_bit_set plen lcp pzero am m q R M). f_equal.
    rewrite <- (Lookup.get_lpm_mut_eq pfx V peq contains is_bit_set plen (root m) q).
    destruct (Trie.get_lpm_mut pfx V peq contains is_bit_set plen (root m) q) as [[[i p] x]|]; reflexivity.
  - destruct (Trie.get_lpm_mut pfx V peq contains is_bit_set plen (root m) q) as [[[i p] x]|] eqn:EQ; [|exact I].
    exact (Lookup.get_lpm_mut_slot pfx V peq contains is_bit_set plen (root m) q i p x EQ).
Qed.

End AW.

Print Assumptions iter_mirrors.
Print Assumptions a_write_frame.
Print Assumptions Rep_write.
Print Assumptions a_write_good.
Print Assumptions arena_C13_iter_mut.
Print Assumptions arena_C13_write_exact.
Print Assumptions arena_C13_write_all.
Print Assumptions arena_C13_get_lpm_mut.
