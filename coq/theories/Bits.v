(** Bit strings: the abstract keys of the specification.
    A prefix of length [n] denotes the list of its [n] leading bits (most significant first). *)
From Coq Require Import List Bool Arith Lia.
Import ListNotations.

Definition bits := list bool.

(** [a] covers [b]: [a] is a (not necessarily proper) prefix of [b]. *)
Definition prefix_of (a b : bits) : Prop := exists r, b = a ++ r.

Fixpoint is_prefix (a b : bits) : bool :=
  match a, b with
  | [], _ => true
  | x :: a', y :: b' => Bool.eqb x y && is_prefix a' b'
  | _ :: _, [] => false
  end.

(** longest common prefix of two bit strings *)
Fixpoint common (a b : bits) : bits :=
  match a, b with
  | x :: a', y :: b' => if Bool.eqb x y then x :: common a' b' else []
  | _, _ => []
  end.

(** The iteration order of the library: a prefix precedes everything it covers, and the
    0-branch precedes the 1-branch.  This is the lexicographic order on bit strings. *)
Fixpoint lex_lt (a b : bits) : Prop :=
  match a, b with
  | [], [] => False
  | [], _ :: _ => True
  | _ :: _, [] => False
  | x :: a', y :: b' => (x = false /\ y = true) \/ (x = y /\ lex_lt a' b')
  end.

Fixpoint lex_ltb (a b : bits) : bool :=
  match a, b with
  | [], [] => false
  | [], _ :: _ => true
  | _ :: _, [] => false
  | x :: a', y :: b' => (negb x && y) || (Bool.eqb x y && lex_ltb a' b')
  end.

(** Numeric comparison of two masked addresses = comparison of the bit strings padded with
    zeros to the right. *)
Fixpoint bcmp (a b : bits) : comparison :=
  match a, b with
  | [], _ => if existsb (fun x => x) b then Lt else Eq
  | _ :: _, [] => if existsb (fun x => x) a then Gt else Eq
  | x :: a', y :: b' =>
      match x, y with
      | false, true => Lt
      | true, false => Gt
      | _, _ => bcmp a' b'
      end
  end.

Definition beq (a b : bits) : bool := is_prefix a b && is_prefix b a.
