(** Facts about bit strings: the covering relation, common prefixes, the iteration order. *)
From Coq Require Import List Bool Arith Lia.
From PT Require Import Bits.
Import ListNotations.

Lemma prefix_of_refl a : prefix_of a a.
Proof. exists []. rewrite app_nil_r. reflexivity. Qed.

Lemma prefix_of_nil a : prefix_of [] a.
Proof. exists a. reflexivity. Qed.

Lemma prefix_of_trans a b c : prefix_of a b -> prefix_of b c -> prefix_of a c.
Proof. intros [r1 ->] [r2 ->]. exists (r1 ++ r2). rewrite app_assoc. reflexivity. Qed.

Lemma prefix_of_app a r : prefix_of a (a ++ r).
Proof. exists r. reflexivity. Qed.

Lemma prefix_of_len a b : prefix_of a b -> length a <= length b.
Proof. intros [r ->]. rewrite app_length. lia. Qed.

Lemma prefix_of_same_len a b : prefix_of a b -> length b <= length a -> a = b.
Proof.
  intros [r ->] H. rewrite app_length in H.
  destruct r; [rewrite app_nil_r; reflexivity | cbn in H; lia].
Qed.

Lemma prefix_of_antisym a b : prefix_of a b -> prefix_of b a -> a = b.
Proof. intros H1 H2. apply prefix_of_same_len; [exact H1 | apply prefix_of_len; exact H2]. Qed.

Lemma prefix_of_cons x a b : prefix_of (x :: a) (x :: b) <-> prefix_of a b.
Proof.
  split; intros [r H]; exists r.
  - cbn in H. inversion H. reflexivity.
  - cbn. rewrite H. reflexivity.
Qed.

Lemma prefix_of_cons_inv x y a b : prefix_of (x :: a) (y :: b) -> x = y /\ prefix_of a b.
Proof. intros [r H]. cbn in H. inversion H; subst. split; [reflexivity | exists r; reflexivity]. Qed.

Lemma prefix_of_nil_r a : prefix_of a [] -> a = [].
Proof. intros [r H]. destruct a; [reflexivity | discriminate]. Qed.

Lemma is_prefix_spec a b : is_prefix a b = true <-> prefix_of a b.
Proof.
  revert b. induction a as [|x a IH]; intros b; cbn.
  - split; [intros _; apply prefix_of_nil | reflexivity].
  - destruct b as [|y b].
    + split; [discriminate | intros H; apply prefix_of_nil_r in H; discriminate].
    + rewrite andb_true_iff, IH. split.
      * intros [E H]. apply eqb_prop in E. subst. apply prefix_of_cons. exact H.
      * intros H. apply prefix_of_cons_inv in H. destruct H as [-> H]. split; [apply eqb_reflx | exact H].
Qed.

(** two prefixes of the same string are comparable *)
Lemma prefix_of_comparable a b c : prefix_of a c -> prefix_of b c -> prefix_of a b \/ prefix_of b a.
Proof.
  revert b c. induction a as [|x a IH]; intros b c Ha Hb.
  - left. apply prefix_of_nil.
  - destruct b as [|y b]; [right; apply prefix_of_nil|].
    destruct c as [|z c]; [apply prefix_of_nil_r in Ha; discriminate|].
    apply prefix_of_cons_inv in Ha. destruct Ha as [-> Ha].
    apply prefix_of_cons_inv in Hb. destruct Hb as [-> Hb].
    destruct (IH b c Ha Hb) as [H|H]; [left | right]; apply prefix_of_cons; exact H.
Qed.

Lemma not_self_ext (a : bits) s r : a = a ++ s :: r -> False.
Proof. intros H. apply (f_equal (@length bool)) in H. rewrite app_length in H. cbn in H. lia. Qed.

Lemma sides_disjoint a k : prefix_of (a ++ [false]) k -> prefix_of (a ++ [true]) k -> False.
Proof.
  intros [r1 ->] [r2 H]. rewrite <- !app_assoc in H. apply app_inv_head in H. cbn in H. discriminate.
Qed.

Lemma below_neq a s k : prefix_of (a ++ [s]) k -> k = a -> False.
Proof.
  intros [r ->] H. rewrite <- app_assoc in H. cbn in H. symmetry in H. eapply not_self_ext; exact H.
Qed.

Lemma below_prefix a s k : prefix_of (a ++ [s]) k -> prefix_of a k.
Proof. intros H. eapply prefix_of_trans; [apply prefix_of_app | exact H]. Qed.

Lemma below_not_above a s k : prefix_of (a ++ [s]) k -> prefix_of k a -> False.
Proof.
  intros H1 H2. apply prefix_of_len in H1. apply prefix_of_len in H2.
  rewrite app_length in H1. cbn in H1. lia.
Qed.

Lemma nth_app_mid (a : bits) x r : nth (length a) (a ++ x :: r) false = x.
Proof. rewrite app_nth2 by lia. rewrite Nat.sub_diag. reflexivity. Qed.

(** a proper extension of [a] continues with one definite bit *)
Lemma proper_ext a k : prefix_of a k -> k <> a -> prefix_of (a ++ [nth (length a) k false]) k.
Proof.
  intros [r ->] Hne. destruct r as [|x r]; [exfalso; apply Hne; apply app_nil_r|].
  rewrite nth_app_mid. exists r. rewrite <- app_assoc. reflexivity.
Qed.

Lemma ext_bit a s k : prefix_of (a ++ [s]) k -> nth (length a) k false = s.
Proof. intros [r ->]. rewrite <- app_assoc. cbn. apply nth_app_mid. Qed.

(* ---------------------------------------------------------------------------------------- *)
(** common prefix *)

Lemma common_prefix_l a b : prefix_of (common a b) a.
Proof.
  revert b. induction a as [|x a IH]; intros b; cbn; [apply prefix_of_nil|].
  destruct b as [|y b]; [apply prefix_of_nil|].
  destruct (eqb x y); [apply prefix_of_cons; apply IH | apply prefix_of_nil].
Qed.

Lemma common_sym a b : common a b = common b a.
Proof.
  revert b. induction a as [|x a IH]; intros [|y b]; cbn; try reflexivity.
  destruct (eqb x y) eqn:E.
  - apply eqb_prop in E. subst. rewrite eqb_reflx. f_equal. apply IH.
  - rewrite eqb_false_iff in E. destruct (eqb y x) eqn:E'; [apply eqb_prop in E'; congruence | reflexivity].
Qed.

Lemma common_prefix_r a b : prefix_of (common a b) b.
Proof. rewrite common_sym. apply common_prefix_l. Qed.

Lemma common_greatest a b c : prefix_of c a -> prefix_of c b -> prefix_of c (common a b).
Proof.
  revert a b. induction c as [|z c IH]; intros a b Ha Hb; [apply prefix_of_nil|].
  destruct a as [|x a]; [apply prefix_of_nil_r in Ha; discriminate|].
  destruct b as [|y b]; [apply prefix_of_nil_r in Hb; discriminate|].
  apply prefix_of_cons_inv in Ha. destruct Ha as [<- Ha].
  apply prefix_of_cons_inv in Hb. destruct Hb as [<- Hb].
  cbn. rewrite eqb_reflx. apply prefix_of_cons. apply IH; assumption.
Qed.

(** if neither covers the other, both continue after the common part, with different bits *)
Lemma common_split a b :
  ~ prefix_of a b -> ~ prefix_of b a ->
  exists s, prefix_of (common a b ++ [s]) a /\ prefix_of (common a b ++ [negb s]) b.
Proof.
  revert b. induction a as [|x a IH]; intros b Hab Hba.
  - exfalso. apply Hab. apply prefix_of_nil.
  - destruct b as [|y b]; [exfalso; apply Hba; apply prefix_of_nil|].
    cbn. destruct (eqb x y) eqn:E.
    + apply eqb_prop in E. subst y.
      destruct (IH b) as [s [H1 H2]].
      * intros H. apply Hab. apply prefix_of_cons. exact H.
      * intros H. apply Hba. apply prefix_of_cons. exact H.
      * exists s. split; cbn; apply prefix_of_cons; assumption.
    + exists x. cbn. split.
      * exists a. reflexivity.
      * rewrite eqb_false_iff in E. destruct x, y; try congruence; exists b; reflexivity.
Qed.

(* ---------------------------------------------------------------------------------------- *)
(** the iteration order *)

Lemma lex_lt_irrefl a : ~ lex_lt a a.
Proof. induction a as [|x a IH]; cbn; [tauto|]. intros [[H1 H2]|[_ H]]; [congruence | tauto]. Qed.

Lemma lex_lt_trans a b c : lex_lt a b -> lex_lt b c -> lex_lt a c.
Proof.
  revert b c. induction a as [|x a IH]; intros [|y b] [|z c]; cbn; try tauto.
  intros [[-> ->]|[-> H1]] [[H2 ->]|[-> H2]]; try discriminate; auto.
  right. split; [reflexivity|]. eapply IH; eassumption.
Qed.

Lemma lex_lt_prefix a b : prefix_of a b -> a <> b -> lex_lt a b.
Proof.
  revert b. induction a as [|x a IH]; intros [|y b] H Hne; cbn; try tauto.
  - apply prefix_of_nil_r in H. discriminate.
  - apply prefix_of_cons_inv in H. destruct H as [-> H]. right. split; [reflexivity|].
    apply IH; [exact H | congruence].
Qed.

Lemma lex_lt_sides a x y : lex_lt (a ++ false :: x) (a ++ true :: y).
Proof. induction a as [|z a IH]; cbn; [left; split; reflexivity | right; split; [reflexivity | exact IH]]. Qed.

Lemma lex_lt_branches a k1 k2 :
  prefix_of (a ++ [false]) k1 -> prefix_of (a ++ [true]) k2 -> lex_lt k1 k2.
Proof. intros [r1 ->] [r2 ->]. rewrite <- !app_assoc. cbn. apply lex_lt_sides. Qed.

Lemma lex_ltb_spec a b : lex_ltb a b = true <-> lex_lt a b.
Proof.
  revert b. induction a as [|x a IH]; intros [|y b]; cbn; try (split; [discriminate | tauto]); try tauto.
  rewrite orb_true_iff, !andb_true_iff, IH, negb_true_iff. split.
  - intros [[-> ->]|[E H]]; [left; split; reflexivity | right; split; [apply eqb_prop; exact E | exact H]].
  - intros [[-> ->]|[-> H]]; [left; split; reflexivity | right; split; [apply eqb_reflx | exact H]].
Qed.

Lemma lex_lt_total a b : a = b \/ lex_lt a b \/ lex_lt b a.
Proof.
  revert b. induction a as [|x a IH]; intros [|y b]; cbn; auto.
  destruct (IH b) as [->|[H|H]]; destruct x, y; auto 6.
Qed.
