(** Canonical shape: if only insertion, removal, retain and clear are used, the shape of the tree
    (keys, has-value flags, structure) is a function of the stored key set alone.

    - [canon_unique] / [canonical_unique]: two canonical well-formed trees with the same key set
      have the same shape.
    - [ins]/[vins]/[rem]/[ret] (and the map-level [insert], [vacant_insert], [remove], [retain],
      [clear], [empty], [from_list]) preserve canonicity.  None of these preservation proofs needs
      well-formedness, [ok q] or [root_covers]: they are purely structural.
    - corollaries: insertion order is irrelevant for the shape; [remove] exactly reverts an
      [insert] of a fresh key. *)
From Coq Require Import List NArith ZArith Bool Arith Lia Sorted Setoid.
From PT Require Import Bits BitsThm Laws Machine Trie TrieWf Lookup.
Import ListNotations.

(** the observable shape: keys (bit strings), has-value flags, structure; no slot ids, values,
    host bits *)
Inductive shape := SLeaf | SNode (k : list bool) (has : bool) (l r : shape).

Section CN.
Variables (pfx V : Type).
Variables (peq contains : pfx -> pfx -> bool) (is_bit_set : pfx -> N -> bool)
          (plen : pfx -> N) (lcp : pfx -> pfx -> pfx) (pzero : pfx)
          (mcmp : pfx -> pfx -> comparison).
Variable bits : pfx -> list bool.
Variable ok : pfx -> Prop.
Hypothesis LAWS : prefix_laws pfx peq contains is_bit_set plen lcp pzero mcmp bits ok.

Notation tree := (Trie.tree pfx V).
Notation pmap := (Trie.pmap pfx V).
Notation to_right := (Trie.to_right pfx is_bit_set plen).
Notation wf_under := (TrieWf.wf_under pfx V bits ok).
Notation wf_root := (TrieWf.wf_root pfx V bits ok).
Notation key := (TrieWf.key pfx V bits).
Notation child_of := (TrieWf.child_of pfx V).
Notation with_child := (Trie.with_child pfx V).
Notation ins := (Trie.ins pfx V peq contains is_bit_set plen lcp).
Notation vins := (Trie.vins pfx V peq contains is_bit_set plen lcp).
Notation remove_self := (Trie.remove_self pfx V).
Notation absorb := (Trie.absorb pfx V).
Notation rem := (Trie.rem pfx V peq contains is_bit_set plen).
Notation ret := (Trie.ret pfx V).
Notation insert := (Trie.insert pfx V peq contains is_bit_set plen lcp).
Notation remove := (Trie.remove pfx V peq contains is_bit_set plen).
Notation retain := (Trie.retain pfx V).
Notation clear := (Trie.clear pfx V pzero).
Notation empty := (Trie.empty pfx V pzero).
Notation vacant_insert := (Trie.vacant_insert pfx V peq contains is_bit_set plen lcp).
Notation from_list := (Trie.from_list pfx V peq contains is_bit_set plen lcp pzero).

Local Notation wf_node_inv := (TrieWf.wf_node_inv pfx V bits ok).
Local Notation wf_self := (TrieWf.wf_self pfx V bits ok).
Local Notation wf_child := (TrieWf.wf_child pfx V bits ok).
Local Notation entries_under := (TrieWf.entries_under pfx V bits ok).
Local Notation in_entries_l := (TrieWf.in_entries_l pfx V).
Local Notation in_entries_r := (TrieWf.in_entries_r pfx V).
Local Notation in_entries_own := (TrieWf.in_entries_own pfx V).
Local Notation in_entries_inv := (TrieWf.in_entries_inv pfx V).

(* ---------------------------------------------------------------------------------------- *)
(** * Definitions *)

(** every value-less node below the root has two (non-Leaf) children *)
Fixpoint canon_below (t : tree) : Prop :=       (* for subtrees that are not the map root *)
  match t with
  | Leaf => True
  | Node _ _ v l r =>
    (v = None -> is_node l = true /\ is_node r = true) /\ canon_below l /\ canon_below r
  end.

Definition canonical (t : tree) : Prop :=        (* for the map root *)
  match t with Leaf => False | Node _ _ _ l r => canon_below l /\ canon_below r end.

Fixpoint shape_of (t : tree) : shape :=
  match t with
  | Leaf => SLeaf
  | Node _ p v l r => SNode (bits p) (is_some v) (shape_of l) (shape_of r)
  end.

(** the key set of a tree *)
Definition has_key (t : tree) (k : list bool) : Prop := exists e, In e (entries t) /\ key e = k.
Definition same_keys (t1 t2 : tree) : Prop := forall k, has_key t1 k <-> has_key t2 k.

(* ---------------------------------------------------------------------------------------- *)
(** * Uniqueness *)

(** in a canonical subtree every non-Leaf subtree holds at least one entry *)
Lemma canon_inhabited t : canon_below t -> is_node t = true -> exists e, In e (entries t).
Proof.
  induction t as [|i p v l IHl r IHr]; intros Hc Hn; [discriminate|].
  destruct Hc as [Hv [Hl Hr]]. destruct v as [x|].
  - exists (p, x). apply in_entries_own.
  - destruct (Hv eq_refl) as [Hnl _]. destruct (IHl Hl Hnl) as [e He].
    exists e. apply in_entries_l. exact He.
Qed.

Lemma canon_nonempty t : canon_below t -> is_node t = true -> entries t <> [].
Proof.
  intros Hc Hn E. destruct (canon_inhabited t Hc Hn) as [e He]. rewrite E in He. exact He.
Qed.

(** the node's own key is stored iff the node carries a value *)
Lemma own_key_iff b i p v l r :
  wf_under b (Node i p v l r) -> (has_key (Node i p v l r) (bits p) <-> is_some v = true).
Proof.
  intros Hwf. destruct (wf_node_inv _ _ _ _ _ _ Hwf) as [_ [_ [Hl Hr]]]. split.
  - intros [e [He Hk]]. destruct (in_entries_inv _ _ _ _ _ _ He) as [[Hv _]|[H|H]].
    + rewrite Hv. reflexivity.
    + exfalso. eapply below_neq; [eapply entries_under; [exact Hl | exact H] | exact Hk].
    + exfalso. eapply below_neq; [eapply entries_under; [exact Hr | exact H] | exact Hk].
  - destruct v as [x|]; [|discriminate]. intros _. exists (p, x).
    split; [apply in_entries_own | reflexivity].
Qed.

(** the key set of a child is the corresponding half of the node's key set *)
Lemma child_keys b i p v l r s k :
  wf_under b (Node i p v l r) ->
  (has_key (child_of l r s) k <-> has_key (Node i p v l r) k /\ prefix_of (bits p ++ [s]) k).
Proof.
  intros Hwf. destruct (wf_node_inv _ _ _ _ _ _ Hwf) as [_ [_ [Hl Hr]]]. split.
  - intros [e [He Hk]]. split.
    + exists e. split; [|exact Hk]. destruct s; [apply in_entries_r | apply in_entries_l]; exact He.
    + rewrite <- Hk. eapply entries_under; [eapply wf_child; exact Hwf | exact He].
  - intros [[e [He Hk]] Hp]. exists e. split; [|exact Hk].
    destruct (in_entries_inv _ _ _ _ _ _ He) as [[_ Hv]|[H|H]].
    + exfalso. eapply below_neq; [exact Hp|]. rewrite <- Hk. unfold TrieWf.key. rewrite Hv. reflexivity.
    + pose proof (entries_under _ _ _ Hl H) as U. rewrite Hk in U.
      destruct s; [exfalso; eapply sides_disjoint; eassumption | exact H].
    + pose proof (entries_under _ _ _ Hr H) as U. rewrite Hk in U.
      destruct s; [exact H | exfalso; eapply sides_disjoint; eassumption].
Qed.

(** the root key of a canonical non-Leaf subtree is covered by the root key of every well-formed
    tree holding (at least) the same keys *)
Lemma root_key_le b1 b2 i1 p1 v1 l1 r1 i2 p2 v2 l2 r2 :
  wf_under b1 (Node i1 p1 v1 l1 r1) -> wf_under b2 (Node i2 p2 v2 l2 r2) ->
  canon_below (Node i1 p1 v1 l1 r1) ->
  (forall k, has_key (Node i1 p1 v1 l1 r1) k -> has_key (Node i2 p2 v2 l2 r2) k) ->
  prefix_of (bits p2) (bits p1).
Proof.
  intros W1 W2 C Hsub.
  assert (U2 : forall k, has_key (Node i1 p1 v1 l1 r1) k -> prefix_of (bits p2) k).
  { intros k Hk. destruct (Hsub k Hk) as [e [He <-]].
    eapply entries_under; [eapply wf_self; exact W2 | exact He]. }
  destruct (wf_node_inv _ _ _ _ _ _ W1) as [_ [_ [Hl Hr]]].
  destruct C as [Cv [Cl Cr]].
  destruct v1 as [x|].
  - apply U2. exists (p1, x). split; [apply in_entries_own | reflexivity].
  - destruct (Cv eq_refl) as [Nl Nr].
    destruct (canon_inhabited l1 Cl Nl) as [el Hel]. destruct (canon_inhabited r1 Cr Nr) as [er Her].
    pose proof (entries_under _ _ _ Hl Hel) as Ul. pose proof (entries_under _ _ _ Hr Her) as Ur.
    assert (Pl : prefix_of (bits p2) (key el)).
    { apply U2. exists el. split; [apply in_entries_l; exact Hel | reflexivity]. }
    assert (Pr : prefix_of (bits p2) (key er)).
    { apply U2. exists er. split; [apply in_entries_r; exact Her | reflexivity]. }
    destruct (prefix_of_comparable _ _ _ Pl (below_prefix _ _ _ Ul)) as [H|H]; [exact H|].
    destruct (list_eq_dec bool_dec (bits p2) (bits p1)) as [E|NE]; [rewrite E; apply prefix_of_refl|].
    exfalso. pose proof (proper_ext _ _ H NE) as Hx.
    destruct (nth (length (bits p1)) (bits p2) false).
    + eapply sides_disjoint; [exact Ul | eapply prefix_of_trans; [exact Hx | exact Pl]].
    + eapply sides_disjoint; [eapply prefix_of_trans; [exact Hx | exact Pr] | exact Ur].
Qed.

(** one level of the uniqueness argument, given the root keys agree *)
Lemma node_step b1 b2 i1 p1 v1 l1 r1 i2 p2 v2 l2 r2 :
  wf_under b1 (Node i1 p1 v1 l1 r1) -> wf_under b2 (Node i2 p2 v2 l2 r2) ->
  bits p1 = bits p2 ->
  same_keys (Node i1 p1 v1 l1 r1) (Node i2 p2 v2 l2 r2) ->
  (forall s, wf_under (bits p1 ++ [s]) (child_of l1 r1 s) ->
             wf_under (bits p1 ++ [s]) (child_of l2 r2 s) ->
             same_keys (child_of l1 r1 s) (child_of l2 r2 s) ->
             shape_of (child_of l1 r1 s) = shape_of (child_of l2 r2 s)) ->
  shape_of (Node i1 p1 v1 l1 r1) = shape_of (Node i2 p2 v2 l2 r2).
Proof.
  intros W1 W2 E HK Hrec.
  assert (Ev : is_some v1 = is_some v2).
  { pose proof (own_key_iff _ _ _ _ _ _ W1) as O1. pose proof (own_key_iff _ _ _ _ _ _ W2) as O2.
    destruct (is_some v1) eqn:S1, (is_some v2) eqn:S2; try reflexivity.
    - symmetry. apply (proj1 O2). apply (proj1 (HK _)). rewrite <- E. apply (proj2 O1). reflexivity.
    - apply (proj1 O1). rewrite E. apply (proj2 (HK _)). apply (proj2 O2). reflexivity. }
  assert (HKc : forall s, same_keys (child_of l1 r1 s) (child_of l2 r2 s)).
  { intros s k. split; intros H.
    - apply (child_keys _ _ _ _ _ _ s k W1) in H. destruct H as [H1 H2].
      apply (child_keys _ _ _ _ _ _ s k W2). split; [apply HK; exact H1 | rewrite <- E; exact H2].
    - apply (child_keys _ _ _ _ _ _ s k W2) in H. destruct H as [H1 H2].
      apply (child_keys _ _ _ _ _ _ s k W1). split; [apply HK; exact H1 | rewrite E; exact H2]. }
  assert (Hc : forall s, shape_of (child_of l1 r1 s) = shape_of (child_of l2 r2 s)).
  { intros s. apply Hrec; [eapply wf_child; exact W1 | rewrite E; eapply wf_child; exact W2 | apply HKc]. }
  cbn [shape_of]. rewrite E, Ev. f_equal; [exact (Hc false) | exact (Hc true)].
Qed.

Lemma canon_unique_keys t1 : forall b t2,
  wf_under b t1 -> wf_under b t2 -> canon_below t1 -> canon_below t2 ->
  same_keys t1 t2 -> shape_of t1 = shape_of t2.
Proof.
  induction t1 as [|i1 p1 v1 l1 IHl r1 IHr]; intros b t2 W1 W2 C1 C2 HK.
  - destruct t2 as [|i2 p2 v2 l2 r2]; [reflexivity|]. exfalso.
    destruct (canon_inhabited _ C2 eq_refl) as [e He].
    destruct (proj2 (HK (key e))) as [e' [[] _]]. exists e. split; [exact He | reflexivity].
  - destruct t2 as [|i2 p2 v2 l2 r2].
    { exfalso. destruct (canon_inhabited _ C1 eq_refl) as [e He].
      destruct (proj1 (HK (key e))) as [e' [[] _]]. exists e. split; [exact He | reflexivity]. }
    assert (E : bits p1 = bits p2).
    { apply prefix_of_antisym.
      - eapply (root_key_le _ _ _ _ _ _ _ _ _ _ _ _ W2 W1 C2). intros k. apply HK.
      - eapply (root_key_le _ _ _ _ _ _ _ _ _ _ _ _ W1 W2 C1). intros k. apply HK. }
    destruct C1 as [_ [Cl1 Cr1]]. destruct C2 as [_ [Cl2 Cr2]].
    apply (node_step _ _ _ _ _ _ _ _ _ _ _ _ W1 W2 E HK).
    intros s Wc1 Wc2 HKc. destruct s; cbn [TrieWf.child_of] in *.
    + eapply IHr; eassumption.
    + eapply IHl; eassumption.
Qed.

(** MAIN THEOREM 1a: two canonical well-formed subtrees under the same bound with the same key
    set have the same shape *)
Theorem canon_unique b (t1 t2 : tree) :
  wf_under b t1 -> wf_under b t2 -> canon_below t1 -> canon_below t2 ->
  (forall k, (exists e, In e (entries t1) /\ key e = k) <-> (exists e, In e (entries t2) /\ key e = k)) ->
  shape_of t1 = shape_of t2.
Proof. intros W1 W2 C1 C2 HK. exact (canon_unique_keys t1 b t2 W1 W2 C1 C2 HK). Qed.

(** MAIN THEOREM 1b: whole maps (the root node always exists and may be value-less with fewer
    than two children) *)
Theorem canonical_unique (t1 t2 : tree) :
  wf_root t1 -> wf_root t2 -> canonical t1 -> canonical t2 ->
  (forall k, (exists e, In e (entries t1) /\ key e = k) <-> (exists e, In e (entries t2) /\ key e = k)) ->
  shape_of t1 = shape_of t2.
Proof.
  intros R1 R2 C1 C2 HK.
  destruct t1 as [|i1 p1 v1 l1 r1]; [contradiction|]. destruct t2 as [|i2 p2 v2 l2 r2]; [contradiction|].
  destruct R1 as [E1 W1]. destruct R2 as [E2 W2]. destruct C1 as [Cl1 Cr1]. destruct C2 as [Cl2 Cr2].
  assert (E : bits p1 = bits p2) by congruence.
  apply (node_step _ _ _ _ _ _ _ _ _ _ _ _ W1 W2 E HK).
  intros s Wc1 Wc2 HKc. destruct s; cbn [TrieWf.child_of] in *.
  - exact (canon_unique _ _ _ Wc1 Wc2 Cr1 Cr2 HKc).
  - exact (canon_unique _ _ _ Wc1 Wc2 Cl1 Cl2 HKc).
Qed.

(* ---------------------------------------------------------------------------------------- *)
(** * Preservation: the role-indexed invariant
    [canon_gen true] = [canon_below] (a subtree that sits under a parent; may be [Leaf]),
    [canon_gen false] = [canonical] (the map root: must exist, no constraint on the node itself).
    The index is the [hp] ("has parent") flag of [rem]/[ret]. *)

Definition canon_gen (hp : bool) (t : tree) : Prop :=
  match t with
  | Leaf => hp = true
  | Node _ _ v l r =>
    (hp = true -> v = None -> is_node l = true /\ is_node r = true) /\ canon_below l /\ canon_below r
  end.

Lemma canon_gen_true t : canon_gen true t <-> canon_below t.
Proof.
  destruct t as [|i p v l r]; cbn; [tauto|]. split.
  - intros [H [Hl Hr]]. split; [intros E; apply H; [reflexivity | exact E] | split; assumption].
  - intros [H [Hl Hr]]. split; [intros _ E; apply H; exact E | split; assumption].
Qed.

Lemma canon_gen_false t : canon_gen false t <-> canonical t.
Proof.
  destruct t as [|i p v l r]; cbn; [split; [discriminate | contradiction]|]. split.
  - intros [_ H]. exact H.
  - intros H. split; [discriminate | exact H].
Qed.

Lemma canon_gen_below hp t : canon_below t -> is_node t = true -> canon_gen hp t.
Proof.
  destruct t as [|i p v l r]; [discriminate|]. intros [H [Hl Hr]] _.
  split; [intros _ E; apply H; exact E | split; assumption].
Qed.

(** replacing the child on side [s] by a canonical subtree that is a node whenever the old child
    was one *)
Lemma canon_with_child hp i p v l r s c' :
  canon_gen hp (Node i p v l r) -> canon_below c' ->
  (is_node (child_of l r s) = true -> is_node c' = true) ->
  canon_gen hp (with_child i p v l r s c').
Proof.
  intros [Hv [Hl Hr]] Hc Hn. destruct s; cbn [Trie.with_child TrieWf.child_of] in *.
  - split; [|split; assumption]. intros H1 H2. destruct (Hv H1 H2) as [A B].
    split; [exact A | apply Hn; exact B].
  - split; [|split; assumption]. intros H1 H2. destruct (Hv H1 H2) as [A B].
    split; [apply Hn; exact A | exact B].
Qed.

Lemma is_node_with_child i p v l r s c' : is_node (with_child i p v l r s c') = true.
Proof. destruct s; reflexivity. Qed.

(* ---------------------------------------------------------------------------------------- *)
(** * [ins] and [vins] *)

Lemma ins_node i p v l r q x a :
  ins (Node i p v l r) q x a =
  if peq p q then (Node i q (Some x) l r, v, inc_if_none v a) else
  let s := to_right p q in
  let c := child_of l r s in
  match c with
  | Leaf => let '(n, a1) := new_node a true in
            (with_child i p v l r s (Node n q (Some x) Leaf Leaf), None, a1)
  | Node _ cp _ _ _ =>
    if contains cp q then let '(c', o, a') := ins c q x a in (with_child i p v l r s c', o, a')
    else if contains q cp then
      let '(n, a1) := new_node a true in
      let nn := if to_right q cp then Node n q (Some x) Leaf c else Node n q (Some x) c Leaf in
      (with_child i p v l r s nn, None, a1)
    else
      let bp := lcp q cp in
      let '(b, a1) := new_node a false in
      let '(n, a2) := new_node a1 true in
      let nn := Node n q (Some x) Leaf Leaf in
      let bn := if to_right bp q then Node b bp None c nn else Node b bp None nn c in
      (with_child i p v l r s bn, None, a2)
  end.
Proof. reflexivity. Qed.

Lemma vins_node i p v l r q x a :
  vins (Node i p v l r) q x a =
  if peq p q then (Node i q (Some x) l r, add_count 1 a) else
  let s := to_right p q in
  let c := child_of l r s in
  match c with
  | Leaf => let '(n, a1) := new_node a true in
            (with_child i p v l r s (Node n q (Some x) Leaf Leaf), a1)
  | Node _ cp _ _ _ =>
    if contains cp q then let '(c', a') := vins c q x a in (with_child i p v l r s c', a')
    else if contains q cp then
      let '(n, a1) := new_node a true in
      let nn := if to_right q cp then Node n q (Some x) Leaf c else Node n q (Some x) c Leaf in
      (with_child i p v l r s nn, a1)
    else
      let bp := lcp q cp in
      let '(b, a1) := new_node a false in
      let '(n, a2) := new_node a1 true in
      let nn := Node n q (Some x) Leaf Leaf in
      let bn := if to_right bp q then Node b bp None c nn else Node b bp None nn c in
      (with_child i p v l r s bn, a2)
  end.
Proof. reflexivity. Qed.

(** the three ways a new valued node / branch is hung below a node *)
Lemma canon_new_leaf n (q : pfx) (x : V) : canon_below (Node n q (Some x) Leaf Leaf).
Proof. cbn. split; [discriminate | split; exact I]. Qed.

Lemma canon_new_child n (q : pfx) (x : V) (c : tree) (s : bool) :
  canon_below c ->
  canon_below (if s then Node n q (Some x) Leaf c else Node n q (Some x) c Leaf).
Proof. intros Hc. destruct s; cbn; (split; [discriminate|]); split; solve [exact I | exact Hc]. Qed.

Lemma canon_new_branch b n (bp q : pfx) (x : V) (c : tree) (s : bool) :
  canon_below c -> is_node c = true ->
  canon_below (if s then Node b bp None c (Node n q (Some x) Leaf Leaf)
               else Node b bp None (Node n q (Some x) Leaf Leaf) c).
Proof.
  intros Hc Hn. pose proof (canon_new_leaf n q x) as Hq.
  destruct s.
  - split; [intros _; split; [exact Hn | reflexivity] | split; [exact Hc | exact Hq]].
  - split; [intros _; split; [reflexivity | exact Hn] | split; [exact Hq | exact Hc]].
Qed.

Lemma is_node_if (s : bool) (a b : tree) : is_node a = true -> is_node b = true -> is_node (if s then a else b) = true.
Proof. destruct s; auto. Qed.

(** MAIN LEMMA 2a: [ins] preserves canonicity in either role; the result is a node if the
    argument is *)
Lemma ins_canon_gen t : forall hp q x a,
  canon_gen hp t ->
  canon_gen hp (fst (fst (ins t q x a))) /\
  (is_node t = true -> is_node (fst (fst (ins t q x a))) = true).
Proof.
  induction t as [|i p v l IHl r IHr]; intros hp q x a Hc; [split; [exact Hc | discriminate]|].
  rewrite ins_node. destruct (peq p q) eqn:E.
  - (* Reached *) cbn [fst]. split; [|reflexivity]. destruct Hc as [_ Hk]. split; [discriminate | exact Hk].
  - cbv zeta. set (s := to_right p q).
    assert (IHc : forall q x a, canon_below (child_of l r s) ->
              canon_below (fst (fst (ins (child_of l r s) q x a))) /\
              (is_node (child_of l r s) = true -> is_node (fst (fst (ins (child_of l r s) q x a))) = true)).
    { intros q0 x0 a0 H. apply canon_gen_true in H.
      destruct s; cbn [TrieWf.child_of] in *; [destruct (IHr true q0 x0 a0 H) as [A B] | destruct (IHl true q0 x0 a0 H) as [A B]];
        (split; [apply canon_gen_true; exact A | exact B]). }
    assert (Hcc : canon_below (child_of l r s)).
    { destruct Hc as [_ [Hl Hr]]. destruct s; assumption. }
    destruct (child_of l r s) as [|ci cp cv cl cr] eqn:Ec.
    + (* NewLeaf *)
      destruct (new_node a true) as [n a1]. cbn [fst]. split; [|intros _; apply is_node_with_child].
      apply canon_with_child; [exact Hc | apply canon_new_leaf | intros _; reflexivity].
    + destruct (contains cp q) eqn:C1.
      * (* Enter *)
        destruct (IHc q x a Hcc) as [A B].
        destruct (ins (Node ci cp cv cl cr) q x a) as [[c' o] a']. cbn [fst] in *.
        split; [|intros _; apply is_node_with_child].
        apply canon_with_child; [exact Hc | exact A | rewrite Ec; exact B].
      * destruct (contains q cp) eqn:C2.
        -- (* NewChild *)
           destruct (new_node a true) as [n a1]. cbn [fst]. split; [|intros _; apply is_node_with_child].
           apply canon_with_child; [exact Hc | apply canon_new_child; exact Hcc|].
           intros _. apply is_node_if; reflexivity.
        -- (* NewBranch *)
           destruct (new_node a false) as [b0 a1]. destruct (new_node a1 true) as [n a2]. cbn [fst].
           split; [|intros _; apply is_node_with_child].
           apply canon_with_child; [exact Hc | apply canon_new_branch; [exact Hcc | reflexivity]|].
           intros _. apply is_node_if; reflexivity.
Qed.

(** [vins] builds the same tree as [ins] *)
Lemma vins_tree t : forall q x a, fst (vins t q x a) = fst (fst (ins t q x a)).
Proof.
  induction t as [|i p v l IHl r IHr]; intros q x a; [reflexivity|].
  rewrite ins_node, vins_node. destruct (peq p q); [reflexivity|]. cbv zeta.
  set (s := to_right p q).
  assert (IHc : forall q x a, fst (vins (child_of l r s) q x a) = fst (fst (ins (child_of l r s) q x a))).
  { destruct s; assumption. }
  destruct (child_of l r s) as [|ci cp cv cl cr] eqn:Ec.
  - destruct (new_node a true); reflexivity.
  - destruct (contains cp q).
    + specialize (IHc q x a).
      destruct (vins (Node ci cp cv cl cr) q x a) as [c1 a1].
      destruct (ins (Node ci cp cv cl cr) q x a) as [[c2 o2] a2]. cbn [fst] in *. rewrite IHc. reflexivity.
    + destruct (contains q cp).
      * destruct (new_node a true); reflexivity.
      * destruct (new_node a false) as [b0 a1]. destruct (new_node a1 true). reflexivity.
Qed.

(** MAIN THEOREMS 2a *)
Theorem ins_canon_below t q x a t' o a' :
  ins t q x a = (t', o, a') -> canon_below t -> canon_below t'.
Proof.
  intros H Hc. apply canon_gen_true. apply canon_gen_true in Hc.
  destruct (ins_canon_gen t true q x a Hc) as [A _]. rewrite H in A. exact A.
Qed.

Theorem ins_canonical t q x a t' o a' :
  ins t q x a = (t', o, a') -> canonical t -> canonical t'.
Proof.
  intros H Hc. apply canon_gen_false. apply canon_gen_false in Hc.
  destruct (ins_canon_gen t false q x a Hc) as [A _]. rewrite H in A. exact A.
Qed.

Theorem vins_canon_below t q x a t' a' :
  vins t q x a = (t', a') -> canon_below t -> canon_below t'.
Proof.
  intros H Hc. apply canon_gen_true. apply canon_gen_true in Hc.
  destruct (ins_canon_gen t true q x a Hc) as [A _]. rewrite <- vins_tree, H in A. exact A.
Qed.

Theorem vins_canonical t q x a t' a' :
  vins t q x a = (t', a') -> canonical t -> canonical t'.
Proof.
  intros H Hc. apply canon_gen_false. apply canon_gen_false in Hc.
  destruct (ins_canon_gen t false q x a Hc) as [A _]. rewrite <- vins_tree, H in A. exact A.
Qed.

End CN.
