(** Canonical shape: if only insertion, removal, retain and clear are used, the shape of the tree
    (keys, has-value flags, structure) is a function of the stored key set alone.

    - [canon_unique] / [canonical_unique]: two canonical well-formed trees with the same key set
      have the same shape.
    - [ins]/[vins]/[rem]/[ret] (and the map-level [insert], [vacant_insert], [remove], [retain],
      [clear], [empty], [from_list]) preserve canonicity.  None of these preservation proofs needs
      well-formedness, [ok q] or [root_covers]: they are purely structural.
    - corollaries: insertion order is irrelevant for the shape; [remove] exactly reverts an
      [insert] of a fresh key. *)
From Coq Require Import List NArith ZArith Bool Arith Lia Sorted Setoid.
From PT Require Import Bits BitsThm Laws Machine Trie TrieWf Lookup.
Import ListNotations.

(** the observable shape: keys (bit strings), has-value flags, structure; no slot ids, values,
    host bits *)
Inductive shape := SLeaf | SNode (k : list bool) (has : bool) (l r : shape).

Section CN.
Variables (pfx V : Type).
Variables (peq contains : pfx -> pfx -> bool) (is_bit_set : pfx -> N -> bool)
          (plen : pfx -> N) (lcp : pfx -> pfx -> pfx) (pzero : pfx)
          (mcmp : pfx -> pfx -> comparison).
Variable bits : pfx -> list bool.
Variable ok : pfx -> Prop.
Hypothesis LAWS : prefix_laws pfx peq contains is_bit_set plen lcp pzero mcmp bits ok.
(* NB: no proof below uses [LAWS] (nor [mcmp]): uniqueness needs only [wf_under]/[wf_root], and the
   preservation proofs are purely structural.  After the section is closed every theorem is
   therefore generalised only over the section variables its statement mentions. *)

Notation tree := (Trie.tree pfx V).
Notation pmap := (Trie.pmap pfx V).
Notation to_right := (Trie.to_right pfx is_bit_set plen).
Notation wf_under := (TrieWf.wf_under pfx V bits ok).
Notation wf_root := (TrieWf.wf_root pfx V bits ok).
Notation key := (TrieWf.key pfx V bits).
Notation child_of := (TrieWf.child_of pfx V).
Notation with_child := (Trie.with_child pfx V).
Notation ins := (Trie.ins pfx V peq contains is_bit_set plen lcp).
Notation vins := (Trie.vins pfx V peq contains is_bit_set plen lcp).
Notation remove_self := (Trie.remove_self pfx V).
Notation absorb := (Trie.absorb pfx V).
Notation rem := (Trie.rem pfx V peq contains is_bit_set plen).
Notation ret := (Trie.ret pfx V).
Notation insert := (Trie.insert pfx V peq contains is_bit_set plen lcp).
Notation remove := (Trie.remove pfx V peq contains is_bit_set plen).
Notation retain := (Trie.retain pfx V).
Notation clear := (Trie.clear pfx V pzero).
Notation empty := (Trie.empty pfx V pzero).
Notation vacant_insert := (Trie.vacant_insert pfx V peq contains is_bit_set plen lcp).
Notation from_list := (Trie.from_list pfx V peq contains is_bit_set plen lcp pzero).

Local Notation wf_node_inv := (TrieWf.wf_node_inv pfx V bits ok).
Local Notation wf_self := (TrieWf.wf_self pfx V bits ok).
Local Notation wf_child := (TrieWf.wf_child pfx V bits ok).
Local Notation entries_under := (TrieWf.entries_under pfx V bits ok).
Local Notation in_entries_l := (TrieWf.in_entries_l pfx V).
Local Notation in_entries_r := (TrieWf.in_entries_r pfx V).
Local Notation in_entries_own := (TrieWf.in_entries_own pfx V).
Local Notation in_entries_inv := (TrieWf.in_entries_inv pfx V).

(* ---------------------------------------------------------------------------------------- *)
(** * Definitions *)

(** every value-less node below the root has two (non-Leaf) children *)
Fixpoint canon_below (t : tree) : Prop :=       (* for subtrees that are not the map root *)
  match t with
  | Leaf => True
  | Node _ _ v l r =>
    (v = None -> is_node l = true /\ is_node r = true) /\ canon_below l /\ canon_below r
  end.

Definition canonical (t : tree) : Prop :=        (* for the map root *)
  match t with Leaf => False | Node _ _ _ l r => canon_below l /\ canon_below r end.

Fixpoint shape_of (t : tree) : shape :=
  match t with
  | Leaf => SLeaf
  | Node _ p v l r => SNode (bits p) (is_some v) (shape_of l) (shape_of r)
  end.

(** the key set of a tree *)
Definition has_key (t : tree) (k : list bool) : Prop := exists e, In e (entries t) /\ key e = k.
Definition same_keys (t1 t2 : tree) : Prop := forall k, has_key t1 k <-> has_key t2 k.

(* ---------------------------------------------------------------------------------------- *)
(** * Uniqueness *)

(** in a canonical subtree every non-Leaf subtree holds at least one entry *)
Lemma canon_inhabited t : canon_below t -> is_node t = true -> exists e, In e (entries t).
Proof.
  induction t as [|i p v l IHl r IHr]; intros Hc Hn; [discriminate|].
  destruct Hc as [Hv [Hl Hr]]. destruct v as [x|].
  - exists (p, x). apply in_entries_own.
  - destruct (Hv eq_refl) as [Hnl _]. destruct (IHl Hl Hnl) as [e He].
    exists e. apply in_entries_l. exact He.
Qed.

Lemma canon_nonempty t : canon_below t -> is_node t = true -> entries t <> [].
Proof.
  intros Hc Hn E. destruct (canon_inhabited t Hc Hn) as [e He]. rewrite E in He. exact He.
Qed.

(** the node's own key is stored iff the node carries a value *)
Lemma own_key_iff b i p v l r :
  wf_under b (Node i p v l r) -> (has_key (Node i p v l r) (bits p) <-> is_some v = true).
Proof.
  intros Hwf. destruct (wf_node_inv _ _ _ _ _ _ Hwf) as [_ [_ [Hl Hr]]]. split.
  - intros [e [He Hk]]. destruct (in_entries_inv _ _ _ _ _ _ He) as [[Hv _]|[H|H]].
    + rewrite Hv. reflexivity.
    + exfalso. eapply below_neq; [eapply entries_under; [exact Hl | exact H] | exact Hk].
    + exfalso. eapply below_neq; [eapply entries_under; [exact Hr | exact H] | exact Hk].
  - destruct v as [x|]; [|discriminate]. intros _. exists (p, x).
    split; [apply in_entries_own | reflexivity].
Qed.

(** the key set of a child is the corresponding half of the node's key set *)
Lemma child_keys b i p v l r s k :
  wf_under b (Node i p v l r) ->
  (has_key (child_of l r s) k <-> has_key (Node i p v l r) k /\ prefix_of (bits p ++ [s]) k).
Proof.
  intros Hwf. destruct (wf_node_inv _ _ _ _ _ _ Hwf) as [_ [_ [Hl Hr]]]. split.
  - intros [e [He Hk]]. split.
    + exists e. split; [|exact Hk]. destruct s; [apply in_entries_r | apply in_entries_l]; exact He.
    + rewrite <- Hk. eapply entries_under; [eapply wf_child; exact Hwf | exact He].
  - intros [[e [He Hk]] Hp]. exists e. split; [|exact Hk].
    destruct (in_entries_inv _ _ _ _ _ _ He) as [[_ Hv]|[H|H]].
    + exfalso. eapply below_neq; [exact Hp|]. rewrite <- Hk. unfold TrieWf.key. rewrite Hv. reflexivity.
    + pose proof (entries_under _ _ _ Hl H) as U. rewrite Hk in U.
      destruct s; [exfalso; eapply sides_disjoint; eassumption | exact H].
    + pose proof (entries_under _ _ _ Hr H) as U. rewrite Hk in U.
      destruct s; [exact H | exfalso; eapply sides_disjoint; eassumption].
Qed.

(** the root key of a canonical non-Leaf subtree is covered by the root key of every well-formed
    tree holding (at least) the same keys *)
Lemma root_key_le b1 b2 i1 p1 v1 l1 r1 i2 p2 v2 l2 r2 :
  wf_under b1 (Node i1 p1 v1 l1 r1) -> wf_under b2 (Node i2 p2 v2 l2 r2) ->
  canon_below (Node i1 p1 v1 l1 r1) ->
  (forall k, has_key (Node i1 p1 v1 l1 r1) k -> has_key (Node i2 p2 v2 l2 r2) k) ->
  prefix_of (bits p2) (bits p1).
Proof.
  intros W1 W2 C Hsub.
  assert (U2 : forall k, has_key (Node i1 p1 v1 l1 r1) k -> prefix_of (bits p2) k).
  { intros k Hk. destruct (Hsub k Hk) as [e [He <-]].
    eapply entries_under; [eapply wf_self; exact W2 | exact He]. }
  destruct (wf_node_inv _ _ _ _ _ _ W1) as [_ [_ [Hl Hr]]].
  destruct C as [Cv [Cl Cr]].
  destruct v1 as [x|].
  - apply U2. exists (p1, x). split; [apply in_entries_own | reflexivity].
  - destruct (Cv eq_refl) as [Nl Nr].
    destruct (canon_inhabited l1 Cl Nl) as [el Hel]. destruct (canon_inhabited r1 Cr Nr) as [er Her].
    pose proof (entries_under _ _ _ Hl Hel) as Ul. pose proof (entries_under _ _ _ Hr Her) as Ur.
    assert (Pl : prefix_of (bits p2) (key el)).
    { apply U2. exists el. split; [apply in_entries_l; exact Hel | reflexivity]. }
    assert (Pr : prefix_of (bits p2) (key er)).
    { apply U2. exists er. split; [apply in_entries_r; exact Her | reflexivity]. }
    destruct (prefix_of_comparable _ _ _ Pl (below_prefix _ _ _ Ul)) as [H|H]; [exact H|].
    destruct (list_eq_dec bool_dec (bits p2) (bits p1)) as [E|NE]; [rewrite E; apply prefix_of_refl|].
    exfalso. pose proof (proper_ext _ _ H NE) as Hx.
    destruct (nth (length (bits p1)) (bits p2) false).
    + eapply sides_disjoint; [exact Ul | eapply prefix_of_trans; [exact Hx | exact Pl]].
    + eapply sides_disjoint; [eapply prefix_of_trans; [exact Hx | exact Pr] | exact Ur].
Qed.

(** one level of the uniqueness argument, given the root keys agree *)
Lemma node_step b1 b2 i1 p1 v1 l1 r1 i2 p2 v2 l2 r2 :
  wf_under b1 (Node i1 p1 v1 l1 r1) -> wf_under b2 (Node i2 p2 v2 l2 r2) ->
  bits p1 = bits p2 ->
  same_keys (Node i1 p1 v1 l1 r1) (Node i2 p2 v2 l2 r2) ->
  (forall s, wf_under (bits p1 ++ [s]) (child_of l1 r1 s) ->
             wf_under (bits p1 ++ [s]) (child_of l2 r2 s) ->
             same_keys (child_of l1 r1 s) (child_of l2 r2 s) ->
             shape_of (child_of l1 r1 s) = shape_of (child_of l2 r2 s)) ->
  shape_of (Node i1 p1 v1 l1 r1) = shape_of (Node i2 p2 v2 l2 r2).
Proof.
  intros W1 W2 E HK Hrec.
  assert (Ev : is_some v1 = is_some v2).
  { pose proof (own_key_iff _ _ _ _ _ _ W1) as O1. pose proof (own_key_iff _ _ _ _ _ _ W2) as O2.
    destruct (is_some v1) eqn:S1, (is_some v2) eqn:S2; try reflexivity.
    - symmetry. apply (proj1 O2). apply (proj1 (HK _)). rewrite <- E. apply (proj2 O1). reflexivity.
    - apply (proj1 O1). rewrite E. apply (proj2 (HK _)). apply (proj2 O2). reflexivity. }
  assert (HKc : forall s, same_keys (child_of l1 r1 s) (child_of l2 r2 s)).
  { intros s k. split; intros H.
    - apply (child_keys _ _ _ _ _ _ s k W1) in H. destruct H as [H1 H2].
      apply (child_keys _ _ _ _ _ _ s k W2). split; [apply HK; exact H1 | rewrite <- E; exact H2].
    - apply (child_keys _ _ _ _ _ _ s k W2) in H. destruct H as [H1 H2].
      apply (child_keys _ _ _ _ _ _ s k W1). split; [apply HK; exact H1 | rewrite E; exact H2]. }
  assert (Hc : forall s, shape_of (child_of l1 r1 s) = shape_of (child_of l2 r2 s)).
  { intros s. apply Hrec; [eapply wf_child; exact W1 | rewrite E; eapply wf_child; exact W2 | apply HKc]. }
  cbn [shape_of]. rewrite E, Ev. f_equal; [exact (Hc false) | exact (Hc true)].
Qed.

Lemma canon_unique_keys t1 : forall b t2,
  wf_under b t1 -> wf_under b t2 -> canon_below t1 -> canon_below t2 ->
  same_keys t1 t2 -> shape_of t1 = shape_of t2.
Proof.
  induction t1 as [|i1 p1 v1 l1 IHl r1 IHr]; intros b t2 W1 W2 C1 C2 HK.
  - destruct t2 as [|i2 p2 v2 l2 r2]; [reflexivity|]. exfalso.
    destruct (canon_inhabited _ C2 eq_refl) as [e He].
    destruct (proj2 (HK (key e))) as [e' [[] _]]. exists e. split; [exact He | reflexivity].
  - destruct t2 as [|i2 p2 v2 l2 r2].
    { exfalso. destruct (canon_inhabited _ C1 eq_refl) as [e He].
      destruct (proj1 (HK (key e))) as [e' [[] _]]. exists e. split; [exact He | reflexivity]. }
    assert (E : bits p1 = bits p2).
    { apply prefix_of_antisym.
      - eapply (root_key_le _ _ _ _ _ _ _ _ _ _ _ _ W2 W1 C2). intros k. apply HK.
      - eapply (root_key_le _ _ _ _ _ _ _ _ _ _ _ _ W1 W2 C1). intros k. apply HK. }
    destruct C1 as [_ [Cl1 Cr1]]. destruct C2 as [_ [Cl2 Cr2]].
    apply (node_step _ _ _ _ _ _ _ _ _ _ _ _ W1 W2 E HK).
    intros s Wc1 Wc2 HKc. destruct s; cbn [TrieWf.child_of] in *.
    + eapply IHr; eassumption.
    + eapply IHl; eassumption.
Qed.

(** MAIN THEOREM 1a: two canonical well-formed subtrees under the same bound with the same key
    set have the same shape *)
Theorem canon_unique b (t1 t2 : tree) :
  wf_under b t1 -> wf_under b t2 -> canon_below t1 -> canon_below t2 ->
  (forall k, (exists e, In e (entries t1) /\ key e = k) <-> (exists e, In e (entries t2) /\ key e = k)) ->
  shape_of t1 = shape_of t2.
Proof. intros W1 W2 C1 C2 HK. exact (canon_unique_keys t1 b t2 W1 W2 C1 C2 HK). Qed.

(** MAIN THEOREM 1b: whole maps (the root node always exists and may be value-less with fewer
    than two children) *)
Theorem canonical_unique (t1 t2 : tree) :
  wf_root t1 -> wf_root t2 -> canonical t1 -> canonical t2 ->
  (forall k, (exists e, In e (entries t1) /\ key e = k) <-> (exists e, In e (entries t2) /\ key e = k)) ->
  shape_of t1 = shape_of t2.
Proof.
  intros R1 R2 C1 C2 HK.
  destruct t1 as [|i1 p1 v1 l1 r1]; [contradiction|]. destruct t2 as [|i2 p2 v2 l2 r2]; [contradiction|].
  destruct R1 as [E1 W1]. destruct R2 as [E2 W2]. destruct C1 as [Cl1 Cr1]. destruct C2 as [Cl2 Cr2].
  assert (E : bits p1 = bits p2) by congruence.
  apply (node_step _ _ _ _ _ _ _ _ _ _ _ _ W1 W2 E HK).
  intros s Wc1 Wc2 HKc. destruct s; cbn [TrieWf.child_of] in *.
  - exact (canon_unique _ _ _ Wc1 Wc2 Cr1 Cr2 HKc).
  - exact (canon_unique _ _ _ Wc1 Wc2 Cl1 Cl2 HKc).
Qed.

(* ---------------------------------------------------------------------------------------- *)
(** * Preservation: the role-indexed invariant
    [canon_gen true] = [canon_below] (a subtree that sits under a parent; may be [Leaf]),
    [canon_gen false] = [canonical] (the map root: must exist, no constraint on the node itself).
    The index is the [hp] ("has parent") flag of [rem]/[ret]. *)

Definition canon_gen (hp : bool) (t : tree) : Prop :=
  match t with
  | Leaf => hp = true
  | Node _ _ v l r =>
    (hp = true -> v = None -> is_node l = true /\ is_node r = true) /\ canon_below l /\ canon_below r
  end.

Lemma canon_gen_true t : canon_gen true t <-> canon_below t.
Proof.
  destruct t as [|i p v l r]; cbn; [tauto|]. split.
  - intros [H [Hl Hr]]. split; [intros E; apply H; [reflexivity | exact E] | split; assumption].
  - intros [H [Hl Hr]]. split; [intros _ E; apply H; exact E | split; assumption].
Qed.

Lemma canon_gen_false t : canon_gen false t <-> canonical t.
Proof.
  destruct t as [|i p v l r]; cbn; [split; [discriminate | contradiction]|]. split.
  - intros [_ H]. exact H.
  - intros H. split; [discriminate | exact H].
Qed.

Lemma canon_gen_below hp t : canon_below t -> is_node t = true -> canon_gen hp t.
Proof.
  destruct t as [|i p v l r]; [discriminate|]. intros [H [Hl Hr]] _.
  split; [intros _ E; apply H; exact E | split; assumption].
Qed.

(** replacing the child on side [s] by a canonical subtree that is a node whenever the old child
    was one *)
Lemma canon_with_child hp i p v l r s c' :
  canon_gen hp (Node i p v l r) -> canon_below c' ->
  (is_node (child_of l r s) = true -> is_node c' = true) ->
  canon_gen hp (with_child i p v l r s c').
Proof.
  intros [Hv [Hl Hr]] Hc Hn. destruct s; cbn [Trie.with_child TrieWf.child_of] in *.
  - split; [|split; assumption]. intros H1 H2. destruct (Hv H1 H2) as [A B].
    split; [exact A | apply Hn; exact B].
  - split; [|split; assumption]. intros H1 H2. destruct (Hv H1 H2) as [A B].
    split; [apply Hn; exact A | exact B].
Qed.

Lemma is_node_with_child i p v l r s c' : is_node (with_child i p v l r s c') = true.
Proof. destruct s; reflexivity. Qed.

(* ---------------------------------------------------------------------------------------- *)
(** * [ins] and [vins] *)

Lemma ins_node i p v l r q x a :
  ins (Node i p v l r) q x a =
  if peq p q then (Node i q (Some x) l r, v, inc_if_none v a) else
  let s := to_right p q in
  let c := child_of l r s in
  match c with
  | Leaf => let '(n, a1) := new_node a true in
            (with_child i p v l r s (Node n q (Some x) Leaf Leaf), None, a1)
  | Node _ cp _ _ _ =>
    if contains cp q then let '(c', o, a') := ins c q x a in (with_child i p v l r s c', o, a')
    else if contains q cp then
      let '(n, a1) := new_node a true in
      let nn := if to_right q cp then Node n q (Some x) Leaf c else Node n q (Some x) c Leaf in
      (with_child i p v l r s nn, None, a1)
    else
      let bp := lcp q cp in
      let '(b, a1) := new_node a false in
      let '(n, a2) := new_node a1 true in
      let nn := Node n q (Some x) Leaf Leaf in
      let bn := if to_right bp q then Node b bp None c nn else Node b bp None nn c in
      (with_child i p v l r s bn, None, a2)
  end.
Proof. reflexivity. Qed.

Lemma vins_node i p v l r q x a :
  vins (Node i p v l r) q x a =
  if peq p q then (Node i q (Some x) l r, add_count 1 a) else
  let s := to_right p q in
  let c := child_of l r s in
  match c with
  | Leaf => let '(n, a1) := new_node a true in
            (with_child i p v l r s (Node n q (Some x) Leaf Leaf), a1)
  | Node _ cp _ _ _ =>
    if contains cp q then let '(c', a') := vins c q x a in (with_child i p v l r s c', a')
    else if contains q cp then
      let '(n, a1) := new_node a true in
      let nn := if to_right q cp then Node n q (Some x) Leaf c else Node n q (Some x) c Leaf in
      (with_child i p v l r s nn, a1)
    else
      let bp := lcp q cp in
      let '(b, a1) := new_node a false in
      let '(n, a2) := new_node a1 true in
      let nn := Node n q (Some x) Leaf Leaf in
      let bn := if to_right bp q then Node b bp None c nn else Node b bp None nn c in
      (with_child i p v l r s bn, a2)
  end.
Proof. reflexivity. Qed.

(** the three ways a new valued node / branch is hung below a node *)
Lemma canon_new_leaf n (q : pfx) (x : V) : canon_below (Node n q (Some x) Leaf Leaf).
Proof. cbn. split; [discriminate | split; exact I]. Qed.

Lemma canon_new_child n (q : pfx) (x : V) (c : tree) (s : bool) :
  canon_below c ->
  canon_below (if s then Node n q (Some x) Leaf c else Node n q (Some x) c Leaf).
Proof. intros Hc. destruct s; cbn; (split; [discriminate|]); split; solve [exact I | exact Hc]. Qed.

Lemma canon_new_branch b n (bp q : pfx) (x : V) (c : tree) (s : bool) :
  canon_below c -> is_node c = true ->
  canon_below (if s then Node b bp None c (Node n q (Some x) Leaf Leaf)
               else Node b bp None (Node n q (Some x) Leaf Leaf) c).
Proof.
  intros Hc Hn. pose proof (canon_new_leaf n q x) as Hq.
  destruct s.
  - split; [intros _; split; [exact Hn | reflexivity] | split; [exact Hc | exact Hq]].
  - split; [intros _; split; [reflexivity | exact Hn] | split; [exact Hq | exact Hc]].
Qed.

Lemma is_node_if (s : bool) (a b : tree) : is_node a = true -> is_node b = true -> is_node (if s then a else b) = true.
Proof. destruct s; auto. Qed.

(** MAIN LEMMA 2a: [ins] preserves canonicity in either role; the result is a node if the
    argument is *)
Lemma ins_canon_gen t : forall hp q x a,
  canon_gen hp t ->
  canon_gen hp (fst (fst (ins t q x a))) /\
  (is_node t = true -> is_node (fst (fst (ins t q x a))) = true).
Proof.
  induction t as [|i p v l IHl r IHr]; intros hp q x a Hc; [split; [exact Hc | discriminate]|].
  rewrite ins_node. destruct (peq p q) eqn:E.
  - (* Reached *) cbn [fst]. split; [|reflexivity]. destruct Hc as [_ Hk]. split; [discriminate | exact Hk].
  - cbv zeta. set (s := to_right p q).
    assert (IHc : forall q x a, canon_below (child_of l r s) ->
              canon_below (fst (fst (ins (child_of l r s) q x a))) /\
              (is_node (child_of l r s) = true -> is_node (fst (fst (ins (child_of l r s) q x a))) = true)).
    { intros q0 x0 a0 H. apply canon_gen_true in H.
      destruct s; cbn [TrieWf.child_of] in *; [destruct (IHr true q0 x0 a0 H) as [A B] | destruct (IHl true q0 x0 a0 H) as [A B]];
        (split; [apply canon_gen_true; exact A | exact B]). }
    assert (Hcc : canon_below (child_of l r s)).
    { destruct Hc as [_ [Hl Hr]]. destruct s; assumption. }
    destruct (child_of l r s) as [|ci cp cv cl cr] eqn:Ec.
    + (* NewLeaf *)
      destruct (new_node a true) as [n a1]. cbn [fst]. split; [|intros _; apply is_node_with_child].
      apply canon_with_child; [exact Hc | apply canon_new_leaf | intros _; reflexivity].
    + destruct (contains cp q) eqn:C1.
      * (* Enter *)
        destruct (IHc q x a Hcc) as [A B].
        destruct (ins (Node ci cp cv cl cr) q x a) as [[c' o] a']. cbn [fst] in *.
        split; [|intros _; apply is_node_with_child].
        apply canon_with_child; [exact Hc | exact A | rewrite Ec; exact B].
      * destruct (contains q cp) eqn:C2.
        -- (* NewChild *)
           destruct (new_node a true) as [n a1]. cbn [fst]. split; [|intros _; apply is_node_with_child].
           apply canon_with_child; [exact Hc | apply canon_new_child; exact Hcc|].
           intros _. apply is_node_if; reflexivity.
        -- (* NewBranch *)
           destruct (new_node a false) as [b0 a1]. destruct (new_node a1 true) as [n a2]. cbn [fst].
           split; [|intros _; apply is_node_with_child].
           apply canon_with_child; [exact Hc | apply canon_new_branch; [exact Hcc | reflexivity]|].
           intros _. apply is_node_if; reflexivity.
Qed.

(** [vins] builds the same tree as [ins] *)
Lemma vins_tree t : forall q x a, fst (vins t q x a) = fst (fst (ins t q x a)).
Proof.
  induction t as [|i p v l IHl r IHr]; intros q x a; [reflexivity|].
  rewrite ins_node, vins_node. destruct (peq p q); [reflexivity|]. cbv zeta.
  set (s := to_right p q).
  assert (IHc : forall q x a, fst (vins (child_of l r s) q x a) = fst (fst (ins (child_of l r s) q x a))).
  { destruct s; assumption. }
  destruct (child_of l r s) as [|ci cp cv cl cr] eqn:Ec.
  - destruct (new_node a true); reflexivity.
  - destruct (contains cp q).
    + specialize (IHc q x a).
      destruct (vins (Node ci cp cv cl cr) q x a) as [c1 a1].
      destruct (ins (Node ci cp cv cl cr) q x a) as [[c2 o2] a2]. cbn [fst] in *. rewrite IHc. reflexivity.
    + destruct (contains q cp).
      * destruct (new_node a true); reflexivity.
      * destruct (new_node a false) as [b0 a1]. destruct (new_node a1 true). reflexivity.
Qed.

(** MAIN THEOREMS 2a *)
Theorem ins_canon_below t q x a t' o a' :
  ins t q x a = (t', o, a') -> canon_below t -> canon_below t'.
Proof.
  intros H Hc. apply canon_gen_true. apply canon_gen_true in Hc.
  destruct (ins_canon_gen t true q x a Hc) as [A _]. rewrite H in A. exact A.
Qed.

Theorem ins_canonical t q x a t' o a' :
  ins t q x a = (t', o, a') -> canonical t -> canonical t'.
Proof.
  intros H Hc. apply canon_gen_false. apply canon_gen_false in Hc.
  destruct (ins_canon_gen t false q x a Hc) as [A _]. rewrite H in A. exact A.
Qed.

Theorem vins_canon_below t q x a t' a' :
  vins t q x a = (t', a') -> canon_below t -> canon_below t'.
Proof.
  intros H Hc. apply canon_gen_true. apply canon_gen_true in Hc.
  destruct (ins_canon_gen t true q x a Hc) as [A _]. rewrite <- vins_tree, H in A. exact A.
Qed.

Theorem vins_canonical t q x a t' a' :
  vins t q x a = (t', a') -> canonical t -> canonical t'.
Proof.
  intros H Hc. apply canon_gen_false. apply canon_gen_false in Hc.
  destruct (ins_canon_gen t false q x a Hc) as [A _]. rewrite <- vins_tree, H in A. exact A.
Qed.

(* ---------------------------------------------------------------------------------------- *)
(** * [remove_self], [absorb], [rem] *)

(** removing a node's own value: needs only that the children are canonical (in particular it
    applies to a valued node with any number of children).  If the node was not unlinked as a
    leaf, something (the node itself, or its only child) still stands at its position. *)
Lemma remove_self_canon hp i p v l r a t' fl a' :
  remove_self hp i p v l r a = (t', fl, a') ->
  canon_below l -> canon_below r ->
  canon_gen hp t' /\ (fl = false -> is_node t' = true).
Proof.
  unfold Trie.remove_self. intros H Hl Hr.
  destruct (is_node l) eqn:Nl, (is_node r) eqn:Nr.
  - inversion H; subst. split; [|reflexivity]. split; [intros _ _; split; assumption | split; assumption].
  - destruct hp; inversion H; subst.
    + split; [apply canon_gen_true; exact Hl | intros _; exact Nl].
    + split; [|reflexivity]. split; [discriminate | split; assumption].
  - destruct hp; inversion H; subst.
    + split; [apply canon_gen_true; exact Hr | intros _; exact Nr].
    + split; [|reflexivity]. split; [discriminate | split; assumption].
  - destruct hp; inversion H; subst.
    + split; [reflexivity | discriminate].
    + split; [|reflexivity]. split; [discriminate | split; assumption].
Qed.

(** the parent's frame after a child was unlinked as a leaf: a non-root value-less parent had
    two children, so it collapses into the non-Leaf sibling; a valued parent or the root just
    loses the child *)
Lemma absorb_canon hp i p v l r s a t' a' :
  absorb hp i p v l r s a = (t', a') ->
  canon_gen hp (Node i p v l r) ->
  canon_gen hp t' /\ is_node t' = true.
Proof.
  unfold Trie.absorb. intros H Hc. destruct (hp && is_none v) eqn:B.
  - apply andb_true_iff in B. destruct B as [-> Bv]. destruct v; [discriminate|].
    destruct Hc as [Hv [Hl Hr]]. destruct (Hv eq_refl eq_refl) as [Nl Nr].
    inversion H; subst. destruct s.
    + split; [apply canon_gen_true; exact Hl | exact Nl].
    + split; [apply canon_gen_true; exact Hr | exact Nr].
  - inversion H; subst. split; [|apply is_node_with_child].
    destruct Hc as [Hv [Hl Hr]].
    assert (Hv' : hp = true -> v = None -> False).
    { intros -> ->. discriminate. }
    destruct s; cbn [Trie.with_child]; (split; [intros A1 A2; destruct (Hv' A1 A2)|]); split;
      solve [assumption | exact I].
Qed.

Lemma rem_node hp i p v l r q a :
  rem hp (Node i p v l r) q a =
  if peq p q then let '(t', fl, a') := remove_self hp i p v l r a in (t', fl, v, a') else
  let s := to_right p q in
  let c := child_of l r s in
  match c with
  | Leaf => (Node i p v l r, false, None, a)
  | Node _ cp _ _ _ =>
    if contains cp q then
      let '(c', fl, o, a') := rem true c q a in
      if fl then let '(t', a'') := absorb hp i p v l r s a' in (t', false, o, a'')
      else (with_child i p v l r s c', false, o, a')
    else (Node i p v l r, false, None, a)
  end.
Proof. reflexivity. Qed.

(** MAIN LEMMA 2b: [rem] preserves canonicity in the role given by [hp]; and unless the subtree
    was unlinked as a leaf ([fl = true], which the parent's [absorb] repairs), a non-Leaf subtree
    is replaced by a non-Leaf subtree *)
Lemma rem_canon_gen t : forall hp q a t' fl o a',
  rem hp t q a = (t', fl, o, a') ->
  canon_gen hp t ->
  canon_gen hp t' /\ (is_node t = true -> fl = false -> is_node t' = true).
Proof.
  induction t as [|i p v l IHl r IHr]; intros hp q a t' fl o a' H Hc.
  - cbn in H. inversion H; subst. split; [exact Hc | discriminate].
  - rewrite rem_node in H. destruct (peq p q) eqn:E.
    + destruct (remove_self hp i p v l r a) as [[t1 fl1] a1] eqn:RS. inversion H; subst.
      destruct Hc as [_ [Hl Hr]].
      destruct (remove_self_canon _ _ _ _ _ _ _ _ _ _ RS Hl Hr) as [A B]. split; [exact A | intros _; exact B].
    + cbv zeta in H. set (s := to_right p q) in *.
      assert (IHc : forall q a t' fl o a',
                rem true (child_of l r s) q a = (t', fl, o, a') -> canon_below (child_of l r s) ->
                canon_below t' /\ (is_node (child_of l r s) = true -> fl = false -> is_node t' = true)).
      { intros q0 a0 t0 fl0 o0 a0' H0 H1. apply canon_gen_true in H1.
        destruct s; cbn [TrieWf.child_of] in *;
          [destruct (IHr _ _ _ _ _ _ _ H0 H1) as [A B] | destruct (IHl _ _ _ _ _ _ _ H0 H1) as [A B]];
          (split; [apply canon_gen_true; exact A | exact B]). }
      assert (Hcc : canon_below (child_of l r s)).
      { destruct Hc as [_ [Hl Hr]]. destruct s; assumption. }
      destruct (child_of l r s) as [|ci cp cv cl cr] eqn:Ec.
      * inversion H; subst. split; [exact Hc | reflexivity].
      * destruct (contains cp q) eqn:C1.
        -- destruct (rem true (Node ci cp cv cl cr) q a) as [[[c' fl1] o1] a1] eqn:R.
           destruct (IHc _ _ _ _ _ _ R Hcc) as [A B].
           destruct fl1.
           ++ destruct (absorb hp i p v l r s a1) as [t1 a2] eqn:AB. inversion H; subst.
              destruct (absorb_canon _ _ _ _ _ _ _ _ _ _ AB Hc) as [A1 B1]. split; [exact A1 | intros _ _; exact B1].
           ++ inversion H; subst. split; [|intros _ _; apply is_node_with_child].
              apply canon_with_child; [exact Hc | exact A|]. rewrite Ec. intros _. apply B; reflexivity.
        -- inversion H; subst. split; [exact Hc | reflexivity].
Qed.

(** MAIN THEOREMS 2b *)
Theorem rem_canon_below t q a t' fl o a' :
  rem true t q a = (t', fl, o, a') -> canon_below t ->
  canon_below t' /\ (is_node t = true -> fl = false -> is_node t' = true).
Proof.
  intros H Hc. apply canon_gen_true in Hc. destruct (rem_canon_gen t true q a t' fl o a' H Hc) as [A B].
  split; [apply canon_gen_true; exact A | exact B].
Qed.

Theorem rem_canonical t q a t' fl o a' :
  rem false t q a = (t', fl, o, a') -> canonical t -> canonical t'.
Proof.
  intros H Hc. apply canon_gen_false in Hc. destruct (rem_canon_gen t false q a t' fl o a' H Hc) as [A _].
  apply canon_gen_false. exact A.
Qed.

(* ---------------------------------------------------------------------------------------- *)
(** * [ret] (outcomes [RDone _] only: after a panic of the closure the tree may be left with a
    value-less one-child node) *)

(** for ANY outcome, a panic of the closure included: the nodes on the path to the panicking
    node are kept as they are, so no value-less one-child node can arise *)
Lemma ret_canon_gen_any f t : forall hp s t' st s',
  ret f hp t s = (t', st, s') ->
  canon_gen hp t ->
  canon_gen hp t' /\ (is_node t = true -> st <> RDone true -> is_node t' = true).
Proof.
  induction t as [|i p v l IHl r IHr]; intros hp s t' st s' H Hc.
  - cbn in H. inversion H; subst. split; [exact Hc | discriminate].
  - cbn [Trie.ret] in H.
    pose proof Hc as [Hv [Hl Hr]].
    destruct (ret f true l s) as [[l' sl] s1] eqn:RL.
    destruct (IHl true s l' sl s1 RL (proj2 (canon_gen_true l) Hl)) as [Al Bl].
    apply canon_gen_true in Al.
    destruct sl as [fl1|].
    2:{ (* panic in the left subtree *)
      inversion H; subst. split; [|intros _ _; reflexivity].
      split; [|split; assumption]. intros A1 A2. destruct (Hv A1 A2) as [Nl Nr].
      split; [apply Bl; [exact Nl | discriminate] | exact Nr]. }
    destruct (fl1 && (hp && is_none v)) eqn:B1.
    + (* collapsed by the removal of the left child *)
      apply andb_true_iff in B1. destruct B1 as [-> B1]. apply andb_true_iff in B1. destruct B1 as [-> B1].
      destruct v; [discriminate|]. destruct (Hv eq_refl eq_refl) as [Nl Nr].
      destruct (IHr true _ _ _ _ H (proj2 (canon_gen_true r) Hr)) as [Ar Br].
      split; [exact Ar | intros _; apply Br; exact Nr].
    + destruct (ret f true r s1) as [[r' sr] s2] eqn:RR.
      destruct (IHr true s1 r' sr s2 RR (proj2 (canon_gen_true r) Hr)) as [Ar Br].
      apply canon_gen_true in Ar.
      destruct sr as [fr|].
      2:{ (* panic in the right subtree *)
        inversion H; subst. split; [|intros _ _; reflexivity].
        split; [|split; assumption]. intros -> A2. subst v. destruct (Hv eq_refl eq_refl) as [Nl Nr].
        cbn in B1. rewrite andb_true_r in B1. subst fl1.
        split; [apply Bl; [exact Nl | discriminate] | apply Br; [exact Nr | discriminate]]. }
      destruct (fr && (hp && is_none v)) eqn:B2.
      * (* collapsed by the removal of the right child *)
        apply andb_true_iff in B2. destruct B2 as [-> B2]. apply andb_true_iff in B2. destruct B2 as [-> B2].
        destruct v; [discriminate|]. destruct (Hv eq_refl eq_refl) as [Nl Nr].
        cbn in B1. rewrite andb_true_r in B1. subst fl1.
        inversion H; subst.
        split; [apply canon_gen_true; exact Al | intros _ _; apply Bl; [exact Nl | discriminate]].
      * destruct v as [x|].
        -- destruct (f (length (snd s2)) p x) as [[|]|].
           ++ inversion H; subst. split; [|intros _ _; reflexivity]. split; [discriminate | split; assumption].
           ++ destruct (remove_self hp i p (Some x) l' r' (fst s2)) as [[t1 fl2] a2] eqn:RS.
              inversion H; subst.
              destruct (remove_self_canon _ _ _ _ _ _ _ _ _ _ RS Al Ar) as [A B]. split; [exact A|].
              intros _ Hst. apply B. destruct fl2; [exfalso; apply Hst; reflexivity | reflexivity].
           ++ (* the closure panics at this (valued) node *)
              inversion H; subst. split; [|intros _ _; reflexivity]. split; [discriminate | split; assumption].
        -- inversion H; subst. split; [|intros _ _; reflexivity].
           split; [|split; assumption]. intros -> _.
           destruct (Hv eq_refl eq_refl) as [Nl Nr].
           cbn in B1, B2. rewrite andb_true_r in B1, B2. subst fl1 fr.
           split; [apply Bl | apply Br]; solve [assumption | discriminate].
Qed.

Lemma ret_canon_gen f t : forall hp s t' fl s',
  ret f hp t s = (t', RDone fl, s') ->
  canon_gen hp t ->
  canon_gen hp t' /\ (is_node t = true -> fl = false -> is_node t' = true).
Proof.
  intros hp s t' fl s' H Hc. destruct (ret_canon_gen_any f t hp s t' _ s' H Hc) as [A B].
  split; [exact A|]. intros Hn ->. apply B; [exact Hn | discriminate].
Qed.

(** MAIN THEOREMS 2c *)
Theorem ret_canon_below f t s t' fl s' :
  ret f true t s = (t', RDone fl, s') -> canon_below t ->
  canon_below t' /\ (is_node t = true -> fl = false -> is_node t' = true).
Proof.
  intros H Hc. apply canon_gen_true in Hc. destruct (ret_canon_gen f t true s t' fl s' H Hc) as [A B].
  split; [apply canon_gen_true; exact A | exact B].
Qed.

Theorem ret_canonical f t s t' fl s' :
  ret f false t s = (t', RDone fl, s') -> canonical t -> canonical t'.
Proof.
  intros H Hc. apply canon_gen_false in Hc. destruct (ret_canon_gen f t false s t' fl s' H Hc) as [A _].
  apply canon_gen_false. exact A.
Qed.

(** the same for any outcome (a panic of the closure included) *)
Theorem ret_canon_below_any f t s t' st s' :
  ret f true t s = (t', st, s') -> canon_below t ->
  canon_below t' /\ (is_node t = true -> st <> RDone true -> is_node t' = true).
Proof.
  intros H Hc. apply canon_gen_true in Hc. destruct (ret_canon_gen_any f t true s t' st s' H Hc) as [A B].
  split; [apply canon_gen_true; exact A | exact B].
Qed.

Theorem ret_canonical_any f t s t' st s' :
  ret f false t s = (t', st, s') -> canonical t -> canonical t'.
Proof.
  intros H Hc. apply canon_gen_false in Hc. destruct (ret_canon_gen_any f t false s t' st s' H Hc) as [A _].
  apply canon_gen_false. exact A.
Qed.

(* ---------------------------------------------------------------------------------------- *)
(** * Map level *)

Theorem empty_canonical : canonical (root empty).
Proof. cbn. split; exact I. Qed.

Theorem clear_canonical (m : pmap) : canonical (root (clear m)).
Proof. exact empty_canonical. Qed.

Theorem insert_canonical (m : pmap) q x : canonical (root m) -> canonical (root (fst (insert m q x))).
Proof.
  intros Hc. unfold Trie.insert. destruct (ins (root m) q x (al m)) as [[t' o] a'] eqn:I. cbn [fst root].
  eapply ins_canonical; eassumption.
Qed.

Theorem vacant_insert_canonical (m : pmap) q x : canonical (root m) -> canonical (root (vacant_insert m q x)).
Proof.
  intros Hc. unfold Trie.vacant_insert. destruct (vins (root m) q x (al m)) as [t' a'] eqn:I. cbn [root].
  eapply vins_canonical; eassumption.
Qed.

Theorem remove_canonical (m : pmap) q : canonical (root m) -> canonical (root (fst (remove m q))).
Proof.
  intros Hc. unfold Trie.remove. destruct (rem false (root m) q (al m)) as [[[t' fl] o] a'] eqn:R. cbn [fst root].
  eapply rem_canonical; eassumption.
Qed.

(** [retain], when the closure does not panic *)
Theorem retain_canonical f (m : pmap) :
  snd (fst (retain f m)) = false -> canonical (root m) -> canonical (root (fst (fst (retain f m)))).
Proof.
  unfold Trie.retain. destruct (ret f false (root m) (al m, [])) as [[t' st] [a' lg]] eqn:R. cbn [fst snd root].
  intros Hp Hc. destruct st as [fl|]; [|discriminate]. eapply ret_canonical; eassumption.
Qed.

(** ... and even when it does *)
Theorem retain_canonical_any f (m : pmap) :
  canonical (root m) -> canonical (root (fst (fst (retain f m)))).
Proof.
  unfold Trie.retain. destruct (ret f false (root m) (al m, [])) as [[t' st] [a' lg]] eqn:R. cbn [fst snd root].
  intros Hc. eapply ret_canonical_any; eassumption.
Qed.

Lemma fold_insert_canonical (l : list (pfx * V)) : forall m : pmap,
  canonical (root m) ->
  canonical (root (fold_left (fun m e => fst (insert m (fst e) (snd e))) l m)).
Proof.
  induction l as [|a l IH]; intros m Hc; [exact Hc|]. cbn [fold_left]. apply IH. apply insert_canonical. exact Hc.
Qed.

Theorem from_list_canonical (l : list (pfx * V)) : canonical (root (from_list l)).
Proof. unfold Trie.from_list. apply fold_insert_canonical. exact empty_canonical. Qed.

(* ---------------------------------------------------------------------------------------- *)
(** * Corollaries *)

(** two maps built by [from_list] that store the same key set have the same shape, whatever the
    order (and multiplicity) of the insertions.  The two [wf_root] hypotheses are the first
    conjunct of [Mutate.from_list_spec] (which needs [forall e, In e l -> ok (fst e)]). *)
Theorem insert_order_irrelevant (l1 l2 : list (pfx * V)) :
  wf_root (root (from_list l1)) -> wf_root (root (from_list l2)) ->
  (forall k, (exists e, In e (entries (root (from_list l1))) /\ key e = k) <->
             (exists e, In e (entries (root (from_list l2))) /\ key e = k)) ->
  shape_of (root (from_list l1)) = shape_of (root (from_list l2)).
Proof.
  intros W1 W2 HK. apply canonical_unique; try assumption; apply from_list_canonical.
Qed.

(** [remove] exactly reverts the [insert] of a key that was not stored.  The hypothesis
    [Hins] is the second conclusion of [Mutate.insert_spec] (for [m], [q], [x]); [Hrem_wf] and
    [Hrem] are the first and second conclusions of [Mutate.remove_spec] (for [m1], [q]); both
    need [ok q], and [remove_spec] needs [wf_root (root m1)], the first conclusion of
    [insert_spec]. *)
Theorem remove_reverts_insert (m : pmap) q x :
  let m1 := fst (insert m q x) in
  let m2 := fst (remove m1 q) in
  wf_root (root m) -> canonical (root m) ->
  (~ exists e, In e (entries (root m)) /\ key e = bits q) ->
  forall (Hins : forall e, In e (entries (root m1)) <->
                           e = (q, x) \/ (In e (entries (root m)) /\ key e <> bits q))
         (Hrem_wf : wf_root (root m2))
         (Hrem : forall e, In e (entries (root m2)) <-> In e (entries (root m1)) /\ key e <> bits q),
  shape_of (root m2) = shape_of (root m).
Proof.
  intros m1 m2 Wm Cm Hfresh Hins Hrem_wf Hrem.
  apply canonical_unique; try assumption.
  - subst m2. apply remove_canonical. subst m1. apply insert_canonical. exact Cm.
  - intros k. split.
    + intros [e [He Hk]]. apply Hrem in He. destruct He as [He Hne]. apply Hins in He.
      destruct He as [->|[He _]]; [exfalso; apply Hne; reflexivity|]. exists e. split; assumption.
    + intros [e [He Hk]]. exists e. split; [|exact Hk].
      assert (Hne : key e <> bits q).
      { intros E. apply Hfresh. exists e. split; assumption. }
      apply Hrem. split; [|exact Hne]. apply Hins. right. split; assumption.
Qed.

End CN.

Print Assumptions canon_unique.
Print Assumptions canonical_unique.
Print Assumptions ins_canon_below.
Print Assumptions ins_canonical.
Print Assumptions vins_canon_below.
Print Assumptions vins_canonical.
Print Assumptions rem_canon_below.
Print Assumptions rem_canonical.
Print Assumptions ret_canon_below.
Print Assumptions ret_canonical.
Print Assumptions ret_canon_below_any.
Print Assumptions ret_canonical_any.
Print Assumptions empty_canonical.
Print Assumptions clear_canonical.
Print Assumptions insert_canonical.
Print Assumptions vacant_insert_canonical.
Print Assumptions remove_canonical.
Print Assumptions retain_canonical.
Print Assumptions retain_canonical_any.
Print Assumptions from_list_canonical.
Print Assumptions insert_order_irrelevant.
Print Assumptions remove_reverts_insert.
