(** The Entry API ([src/map/entry.rs]: [Entry], [OccupiedEntry], [VacantEntry]) as an executable
    state machine over ONE entry handle, on top of the primitives of [Trie.v] ([entry], [h_get],
    [h_key], [vacant_insert], [occ_insert], [occ_remove], [update_value]).

    Part 1 (Section [D], definitions only, no laws): the actions [eact], the tokens [etok], the
    machine [entry_chain] (the semantics of the function [entry_op] of the test driver: same
    flags, same order of map update and panic), the decidable classes [occupied_reuse] (the
    recorded known finding: an [OccupiedEntry] used again after [remove]) and [closure_panics],
    and the one-cell reference machine [cell_chain] (the abstract answer: the machine run on the
    single value stored under the key).

    Part 2 (Section [P], over the abstract prefix laws): well-formedness and slot accounting for
    all action lists, panic freedom and exactness of the counter outside the known class, what a
    panicking closure leaves behind, refinement to the one-cell machine for all action lists, the
    frame property for all other keys.  Part 3: the known class is real (concrete witnesses). *)
From Coq Require Import List NArith ZArith Bool Arith Lia.
From PT Require Import Bits BitsThm Laws Machine Trie TrieWf Lookup Mutate Slots Refine.
From PT Require Import PrefixN PrefixLaws Inst.
Import ListNotations.

(* ========================================================================================== *)
(** * Part 1: definitions *)

Section D.
Variables (pfx V : Type).
Variables (peq contains : pfx -> pfx -> bool) (is_bit_set : pfx -> N -> bool)
          (plen : pfx -> N) (lcp : pfx -> pfx -> pfx) (pzero : pfx).

Notation pmap := (Trie.pmap pfx V).
Notation handle := (Trie.handle pfx).
Notation get := (Trie.get pfx V peq contains is_bit_set plen).
Notation entry := (Trie.entry pfx V peq contains is_bit_set plen).
Notation h_get := (Trie.h_get pfx V peq contains is_bit_set plen).
Notation h_key := (Trie.h_key pfx V peq contains is_bit_set plen).
Notation vacant_insert := (Trie.vacant_insert pfx V peq contains is_bit_set plen lcp).
Notation occ_insert := (Trie.occ_insert pfx V peq contains is_bit_set plen).
Notation occ_remove := (Trie.occ_remove pfx V peq contains is_bit_set plen).
Notation update_value := (Trie.update_value pfx V peq contains is_bit_set plen).

(** one method call on the handle.  [E*]: methods of [Entry]; [Occ*]: the entry is matched as
    [Entry::Occupied(o)] and the method of [OccupiedEntry] is called on [o]; [Vac*]: likewise for
    [VacantEntry].  Closures that write through a reference are given by the function applied to
    the old value; closures that may panic are [option]s ([None] = the closure panics). *)
Inductive eact :=
| EGet | EGetMut (g : V -> V) | EKey | EInsert (x : V) | EOrInsert (x : V)
| EOrInsertWith (d : option V)          (* None = the closure panics *)
| EOrDefault (x : V)                     (* x = Default::default() *)
| EAndModify (g : option (V -> V))       (* None = the closure panics (only called when occupied) *)
| OccKey | OccGet | OccGetMut (g : V -> V) | OccInsert (x : V) | OccRemove
| VacKey | VacInsert (x : V) | VacInsertWith (d : option V) | VacDefault (x : V).

Inductive etok := TVal (o : option V) | TPfx (p : pfx) | TOk | TWrongVariant | TPanic.

(** the flags of the driver: [fmatched] = the [Entry] was matched into its variant by an
    [Occ*]/[Vac*] action; [fremoved] = [OccupiedEntry::remove] was called on this handle;
    [fconsumed] = a consuming method was called *)
Record eflags := mkfl { fmatched : bool; fremoved : bool; fconsumed : bool }.

Definition fl0 : eflags := mkfl false false false.
Definition set_matched (f : eflags) : eflags := mkfl true (fremoved f) (fconsumed f).
Definition set_consumed (f : eflags) : eflags := mkfl (fmatched f) (fremoved f) true.
Definition set_removed (f : eflags) : eflags := mkfl (fmatched f) true (fconsumed f).

Definition is_occ (h : handle) : bool := match hkind_ h with HOcc => true | HVac => false end.

Definition is_stop (t : etok) : bool :=
  match t with TWrongVariant | TPanic => true | _ => false end.

(** the token of an [unwrap]ped old value *)
Definition unwrap_tok (o : option V) : etok :=
  match o with None => TPanic | Some old => TVal (Some old) end.

(** one action on the handle [h] (created for the key [q]) in the map [m] under the flags [f]:
    the new map, the new flags, the token.  Line by line the function [entry_op] of the driver:
    a flag is set where the driver sets it, the map is replaced where the driver assigns [m], and
    [TPanic] stands where the driver raises [Panic]. *)
Definition estep (h : handle) (q : pfx) (m : pmap) (f : eflags) (a : eact) : pmap * eflags * etok :=
  if fconsumed f then (m, f, TWrongVariant) else
  let occ := is_occ h in
  let wv := (m, f, TWrongVariant) in
  let fm := set_matched f in
  let fc := set_consumed f in
  let fmc := set_consumed (set_matched f) in
  match a with
  | EGet => if fmatched f then wv else (m, f, TVal (h_get m h))
  | EGetMut g =>
    if fmatched f then wv else
    match h_get m h with
    | None => (m, f, TVal None)
    | Some old => (update_value m q (fun _ => g old), f, TVal (Some old))
    end
  | EKey => if fmatched f then wv else (m, f, TPfx (h_key m h))
  | EInsert x =>
    if fmatched f then wv else
    if occ then let r := occ_insert m q x in (fst r, fc, TVal (snd r))
    else (vacant_insert m q x, fc, TVal None)
  | EOrInsert x | EOrDefault x =>
    if fmatched f then wv else
    if occ then (m, fc, TVal (h_get m h))
    else (vacant_insert m q x, fc, TVal (Some x))
  | EOrInsertWith d =>
    if fmatched f then wv else
    if occ then (m, fc, TVal (h_get m h))
    else match d with
         | None => (m, fc, TPanic)
         | Some x => (vacant_insert m q x, fc, TVal (Some x))
         end
  | EAndModify g =>
    if fmatched f then wv else
    if occ then
      match h_get m h with
      | Some old =>
        match g with
        | None => (m, f, TPanic)
        | Some g => (update_value m q (fun _ => g old), f, TOk)
        end
      | None => (m, f, TOk)
      end
    else (m, f, TOk)
  | OccKey => if occ then (m, fm, TPfx (h_key m h)) else wv
  | OccGet =>
    if occ then
      if fremoved f then (m, fm, TPanic) else (m, fm, TVal (h_get m h))
    else wv
  | OccGetMut g =>
    if occ then
      if fremoved f then (m, fm, TPanic) else
      match h_get m h with
      | None => (m, fm, TPanic)
      | Some old => (update_value m q (fun _ => g old), fm, TVal (Some old))
      end
    else wv
  | OccInsert x =>
    if occ then let r := occ_insert m q x in (fst r, fmc, unwrap_tok (snd r)) else wv
  | OccRemove =>
    if occ then
      if fremoved f then (m, fm, TPanic) else
      let r := occ_remove m q in (fst r, set_removed fm, unwrap_tok (snd r))
    else wv
  | VacKey => if occ then wv else (m, fm, TPfx q)
  | VacInsert x | VacDefault x =>
    if occ then wv else (vacant_insert m q x, fmc, TVal (Some x))
  | VacInsertWith d =>
    if occ then wv else
    match d with
    | None => (m, fmc, TPanic)
    | Some x => (vacant_insert m q x, fmc, TVal (Some x))
    end
  end.

(** the actions in order on one handle; the chain stops after [TWrongVariant] / [TPanic] *)
Fixpoint erun (h : handle) (q : pfx) (m : pmap) (f : eflags) (acts : list eact) : pmap * list etok :=
  match acts with
  | [] => (m, [])
  | a :: rest =>
    let '(m', f', t) := estep h q m f a in
    if is_stop t then (m', [t])
    else let r := erun h q m' f' rest in (fst r, t :: snd r)
  end.

Definition entry_chain (m : pmap) (q : pfx) (acts : list eact) : pmap * list etok :=
  erun (entry m q) q m fl0 acts.

(** the recorded known-finding class: some [OccRemove] is followed by an action other than
    [OccKey] (the [OccupiedEntry] is used again after [remove]) *)
Definition is_occ_key (a : eact) : bool := match a with OccKey => true | _ => false end.
Definition is_occ_remove (a : eact) : bool := match a with OccRemove => true | _ => false end.

Fixpoint occupied_reuse (acts : list eact) : bool :=
  match acts with
  | [] => false
  | a :: rest => (is_occ_remove a && negb (forallb is_occ_key rest)) || occupied_reuse rest
  end.

(** an action whose closure panics when it is called *)
Definition closure_panic_act (a : eact) : bool :=
  match a with
  | EOrInsertWith None | EAndModify None | VacInsertWith None => true
  | _ => false
  end.

Definition closure_panics (acts : list eact) : bool := existsb closure_panic_act acts.

(* ------------------------------------------------------------------------------------------ *)
(** ** The one-cell reference machine
    The same machine on the single value [cur] stored under the key; [occ] = the handle is
    occupied, [k] = the prefix stored in the node (what [key()] of an occupied entry returns). *)

Definition cstep (occ : bool) (k q : pfx) (cur : option V) (f : eflags) (a : eact)
  : option V * eflags * etok :=
  if fconsumed f then (cur, f, TWrongVariant) else
  let wv := (cur, f, TWrongVariant) in
  let fm := set_matched f in
  let fc := set_consumed f in
  let fmc := set_consumed (set_matched f) in
  let hget := if occ then cur else None in
  let hkey := if occ then k else q in
  match a with
  | EGet => if fmatched f then wv else (cur, f, TVal hget)
  | EGetMut g =>
    if fmatched f then wv else
    match hget with
    | None => (cur, f, TVal None)
    | Some old => (Some (g old), f, TVal (Some old))
    end
  | EKey => if fmatched f then wv else (cur, f, TPfx hkey)
  | EInsert x =>
    if fmatched f then wv else
    if occ then (Some x, fc, TVal cur) else (Some x, fc, TVal None)
  | EOrInsert x | EOrDefault x =>
    if fmatched f then wv else
    if occ then (cur, fc, TVal hget) else (Some x, fc, TVal (Some x))
  | EOrInsertWith d =>
    if fmatched f then wv else
    if occ then (cur, fc, TVal hget)
    else match d with
         | None => (cur, fc, TPanic)
         | Some x => (Some x, fc, TVal (Some x))
         end
  | EAndModify g =>
    if fmatched f then wv else
    if occ then
      match hget with
      | Some old =>
        match g with
        | None => (cur, f, TPanic)
        | Some g => (Some (g old), f, TOk)
        end
      | None => (cur, f, TOk)
      end
    else (cur, f, TOk)
  | OccKey => if occ then (cur, fm, TPfx hkey) else wv
  | OccGet =>
    if occ then
      if fremoved f then (cur, fm, TPanic) else (cur, fm, TVal hget)
    else wv
  | OccGetMut g =>
    if occ then
      if fremoved f then (cur, fm, TPanic) else
      match hget with
      | None => (cur, fm, TPanic)
      | Some old => (Some (g old), fm, TVal (Some old))
      end
    else wv
  | OccInsert x => if occ then (Some x, fmc, unwrap_tok cur) else wv
  | OccRemove =>
    if occ then
      if fremoved f then (cur, fm, TPanic) else (None, set_removed fm, unwrap_tok cur)
    else wv
  | VacKey => if occ then wv else (cur, fm, TPfx q)
  | VacInsert x | VacDefault x =>
    if occ then wv else (Some x, fmc, TVal (Some x))
  | VacInsertWith d =>
    if occ then wv else
    match d with
    | None => (cur, fmc, TPanic)
    | Some x => (Some x, fmc, TVal (Some x))
    end
  end.

Fixpoint crun (occ : bool) (k q : pfx) (cur : option V) (f : eflags) (acts : list eact)
  : option V * list etok :=
  match acts with
  | [] => (cur, [])
  | a :: rest =>
    let '(cur', f', t) := cstep occ k q cur f a in
    if is_stop t then (cur', [t])
    else let r := crun occ k q cur' f' rest in (fst r, t :: snd r)
  end.

(** the reference answer for the handle of [q] in [m]: occupied iff a value is stored under the
    key; the stored prefix is what [h_key] reports *)
Definition cell_chain (m : pmap) (q : pfx) (acts : list eact) : option V * list etok :=
  crun (is_occ (entry m q)) (h_key m (entry m q)) q (get (root m) q) fl0 acts.

End D.

Arguments EGet {V}.
Arguments EGetMut {V}.
Arguments EKey {V}.
Arguments EInsert {V}.
Arguments EOrInsert {V}.
Arguments EOrInsertWith {V}.
Arguments EOrDefault {V}.
Arguments EAndModify {V}.
Arguments OccKey {V}.
Arguments OccGet {V}.
Arguments OccGetMut {V}.
Arguments OccInsert {V}.
Arguments OccRemove {V}.
Arguments VacKey {V}.
Arguments VacInsert {V}.
Arguments VacInsertWith {V}.
Arguments VacDefault {V}.
Arguments TVal {pfx V}.
Arguments TPfx {pfx V}.
Arguments TOk {pfx V}.
Arguments TWrongVariant {pfx V}.
Arguments TPanic {pfx V}.

Lemma last_in {A} (l : list A) d : l <> [] -> In (last l d) l.
Proof.
  induction l as [|x l IH]; [congruence|]. intros _. destruct l as [|y l]; [left; reflexivity|].
  right. change (last (x :: y :: l) d) with (last (y :: l) d). apply IH. discriminate.
Qed.

(* ========================================================================================== *)
(** * Part 2: theorems over the abstract prefix laws *)

Section P.
Variables (pfx V : Type).
Variables (peq contains : pfx -> pfx -> bool) (is_bit_set : pfx -> N -> bool)
          (plen : pfx -> N) (lcp : pfx -> pfx -> pfx) (pzero : pfx)
          (mcmp : pfx -> pfx -> comparison).
Variable bits : pfx -> list bool.
Variable ok : pfx -> Prop.
Hypothesis LAWS : prefix_laws pfx peq contains is_bit_set plen lcp pzero mcmp bits ok.

Notation tree := (Trie.tree pfx V).
Notation pmap := (Trie.pmap pfx V).
Notation handle := (Trie.handle pfx).
Notation eact := (eact V).
Notation etok := (etok pfx V).
Notation wf_under := (TrieWf.wf_under pfx V bits ok).
Notation wf_root := (TrieWf.wf_root pfx V bits ok).
Notation key := (TrieWf.key pfx V bits).
Notation get_node := (Trie.get_node pfx V peq contains is_bit_set plen).
Notation get := (Trie.get pfx V peq contains is_bit_set plen).
Notation modify := (Trie.modify pfx V peq contains is_bit_set plen).
Notation with_child := (Trie.with_child pfx V).
Notation entry := (Trie.entry pfx V peq contains is_bit_set plen).
Notation h_get := (Trie.h_get pfx V peq contains is_bit_set plen).
Notation h_key := (Trie.h_key pfx V peq contains is_bit_set plen).
Notation vacant_insert := (Trie.vacant_insert pfx V peq contains is_bit_set plen lcp).
Notation occ_insert := (Trie.occ_insert pfx V peq contains is_bit_set plen).
Notation occ_remove := (Trie.occ_remove pfx V peq contains is_bit_set plen).
Notation update_value := (Trie.update_value pfx V peq contains is_bit_set plen).
Notation minv := (Slots.minv pfx V).
Notation cinv := (Slots.cinv pfx V).
Notation estep := (estep pfx V peq contains is_bit_set plen lcp).
Notation erun := (erun pfx V peq contains is_bit_set plen lcp).
Notation entry_chain := (entry_chain pfx V peq contains is_bit_set plen lcp).
Notation cstep := (cstep pfx V).
Notation crun := (crun pfx V).
Notation cell_chain := (cell_chain pfx V peq contains is_bit_set plen).
Notation occupied_reuse := (occupied_reuse V).
Notation closure_panics := (closure_panics V).
Notation closure_panic_act := (closure_panic_act V).
Notation is_occ := (is_occ pfx).
Notation is_stop := (is_stop pfx V).
Notation is_occ_key := (is_occ_key V).
Notation is_occ_remove := (is_occ_remove V).

Local Notation wf_root_inv := (Mutate.wf_root_inv pfx V pzero bits ok).
Local Notation get_spec := (Lookup.get_spec pfx V peq contains is_bit_set plen lcp pzero mcmp bits ok LAWS).
Local Notation modify_spec := (Mutate.modify_spec pfx V peq contains is_bit_set plen lcp pzero mcmp bits ok LAWS).
Local Notation modify_wf_root := (Mutate.modify_wf_root pfx V peq contains is_bit_set plen lcp pzero mcmp bits ok LAWS).
Local Notation vacant_insert_spec :=
  (Mutate.vacant_insert_spec pfx V peq contains is_bit_set plen lcp pzero mcmp bits ok LAWS).
Local Notation occ_remove_spec :=
  (Mutate.occ_remove_spec pfx V peq contains is_bit_set plen lcp pzero mcmp bits ok LAWS).
Local Notation update_value_spec :=
  (Mutate.update_value_spec pfx V peq contains is_bit_set plen lcp pzero mcmp bits ok LAWS).
Local Notation keeps_key_put := (Mutate.keeps_key_put pfx V bits ok).

(* ------------------------------------------------------------------------------------------ *)
(** ** The node reached by the descent, after a [modify] that keeps the stored prefix
    (no law is used: the descent only looks at the stored prefixes, which do not change) *)

Lemma modify_root_keep i p v l r q (h : pfx -> option V -> pfx * option V) :
  (forall p v, fst (h p v) = p) ->
  exists v' l' r', modify (Node i p v l r) q h = Node i p v' l' r'.
Proof.
  intros Hh. cbn [Trie.modify]. destruct (peq p q).
  - pose proof (Hh p v) as E. destruct (h p v) as [p' v']. cbn [fst] in E. subst p'. eauto.
  - destruct (Trie.to_right pfx is_bit_set plen p q).
    + destruct r as [|ci cp cv cl cr]; [eauto|]. destruct (contains cp q); cbn [Trie.with_child]; eauto.
    + destruct l as [|ci cp cv cl cr]; [eauto|]. destruct (contains cp q); cbn [Trie.with_child]; eauto.
Qed.

Lemma get_node_modify_keep t : forall q (h : pfx -> option V -> pfx * option V),
  (forall p v, fst (h p v) = p) ->
  get_node (modify t q h) q =
  match get_node t q with Some (i, p, v) => Some (i, p, snd (h p v)) | None => None end.
Proof.
  induction t as [|i p v l IHl r IHr]; intros q h Hh; [reflexivity|].
  cbn [Trie.modify Trie.get_node]. destruct (peq p q) eqn:E.
  - pose proof (Hh p v) as Ep. destruct (h p v) as [p' v'] eqn:Eh. cbn [fst snd] in *. subst p'.
    cbn [Trie.get_node]. rewrite E. reflexivity.
  - destruct (Trie.to_right pfx is_bit_set plen p q) eqn:S.
    + destruct r as [|ci cp cv cl cr]; [cbn [Trie.get_node]; rewrite E, S; reflexivity|].
      destruct (contains cp q) eqn:C; [|cbn [Trie.get_node]; rewrite E, S, C; reflexivity].
      specialize (IHr q h Hh).
      destruct (modify_root_keep ci cp cv cl cr q h Hh) as [v' [l' [r' Em]]].
      cbn [Trie.with_child Trie.get_node]. rewrite E, S. rewrite Em in *. rewrite C. exact IHr.
    + destruct l as [|ci cp cv cl cr]; [cbn [Trie.get_node]; rewrite E, S; reflexivity|].
      destruct (contains cp q) eqn:C; [|cbn [Trie.get_node]; rewrite E, S, C; reflexivity].
      specialize (IHl q h Hh).
      destruct (modify_root_keep ci cp cv cl cr q h Hh) as [v' [l' [r' Em]]].
      cbn [Trie.with_child Trie.get_node]. rewrite E, S. rewrite Em in *. rewrite C. exact IHl.
Qed.

Lemma get_of_node (t : tree) q i k cur : get_node t q = Some (i, k, cur) -> get t q = cur.
Proof. intros G. unfold Trie.get. rewrite G. reflexivity. Qed.

Lemma update_value_node m q g i k cur :
  get_node (root m) q = Some (i, k, cur) ->
  get_node (root (update_value m q g)) q = Some (i, k, option_map g cur).
Proof.
  intros G. unfold Trie.update_value. cbn [root].
  rewrite get_node_modify_keep by reflexivity. rewrite G. reflexivity.
Qed.

Lemma occ_remove_node m q i k cur :
  get_node (root m) q = Some (i, k, cur) ->
  get_node (root (fst (occ_remove m q))) q = Some (i, k, None).
Proof.
  intros G. unfold Trie.occ_remove. cbn [fst root].
  rewrite get_node_modify_keep by reflexivity. rewrite G. reflexivity.
Qed.

Lemma occ_remove_out m q : snd (occ_remove m q) = get (root m) q.
Proof. reflexivity. Qed.
Lemma occ_insert_out m q x : snd (occ_insert m q x) = get (root m) q.
Proof. reflexivity. Qed.

(* ------------------------------------------------------------------------------------------ *)
(** ** The four mutators: well-formedness, the value under the key, the other keys *)

Lemma vacant_insert_wf m q x : wf_root (root m) -> ok q -> wf_root (root (vacant_insert m q x)).
Proof. intros Hr Hq. exact (proj1 (vacant_insert_spec m q x Hr Hq)). Qed.

Lemma occ_insert_wf m q x : wf_root (root m) -> ok q -> wf_root (root (fst (occ_insert m q x))).
Proof.
  intros Hr Hq. unfold Trie.occ_insert. cbn [fst root].
  apply modify_wf_root; [exact Hr | exact Hq | apply keeps_key_put; exact Hq].
Qed.

Lemma occ_remove_wf m q : wf_root (root m) -> ok q -> wf_root (root (fst (occ_remove m q))).
Proof.
  intros Hr Hq. destruct (occ_remove m q) as [m' o] eqn:E.
  exact (proj1 (occ_remove_spec m q m' o Hr Hq E)).
Qed.

Lemma update_value_wf m q g : wf_root (root m) -> ok q -> wf_root (root (update_value m q g)).
Proof. intros Hr Hq. exact (proj1 (update_value_spec m q g Hr Hq)). Qed.

Lemma vacant_insert_get m q x :
  wf_root (root m) -> ok q -> get (root (vacant_insert m q x)) q = Some x.
Proof.
  intros Hr Hq. destruct (vacant_insert_spec m q x Hr Hq) as [P1 P2].
  destruct (wf_root_inv _ q P1) as [Hwf [Hrc _]].
  apply (get_spec [] _ q x Hwf Hq Hrc). exists q. split; [apply P2; left; reflexivity | reflexivity].
Qed.

Lemma occ_insert_get m q x i k cur :
  wf_root (root m) -> ok q -> get_node (root m) q = Some (i, k, cur) ->
  get (root (fst (occ_insert m q x))) q = Some x.
Proof.
  intros Hr Hq G. pose proof (occ_insert_wf m q x Hr Hq) as P1.
  destruct (wf_root_inv _ q P1) as [Hwf' [Hrc' _]].
  apply (get_spec [] _ q x Hwf' Hq Hrc'). exists q. split; [|reflexivity].
  unfold Trie.occ_insert. cbn [fst root].
  destruct (wf_root_inv _ q Hr) as [Hwf [Hrc _]].
  destruct (modify_spec (root m) [] q _ Hwf Hq Hrc (keeps_key_put q x Hq)) as [_ [P2 _]].
  apply P2. left. exists i, k, cur. split; [exact G | reflexivity].
Qed.

(** the entries of all other keys are untouched by each mutator *)
Lemma vacant_insert_frame m q x e :
  wf_root (root m) -> ok q -> key e <> bits q ->
  (In e (entries (root (vacant_insert m q x))) <-> In e (entries (root m))).
Proof.
  intros Hr Hq Hk. destruct (vacant_insert_spec m q x Hr Hq) as [_ P2]. rewrite P2.
  split; [intros [->|[A _]]; [exfalso; apply Hk; reflexivity | exact A] | intros A; right; auto].
Qed.

Lemma occ_insert_frame m q x e :
  wf_root (root m) -> ok q -> key e <> bits q ->
  (In e (entries (root (fst (occ_insert m q x)))) <-> In e (entries (root m))).
Proof.
  intros Hr Hq Hk. unfold Trie.occ_insert. cbn [fst root].
  destruct (wf_root_inv _ q Hr) as [Hwf [Hrc _]].
  destruct (modify_spec (root m) [] q _ Hwf Hq Hrc (keeps_key_put q x Hq)) as [_ [P2 _]].
  rewrite P2. split; [|intros A; right; auto].
  intros [[i [p [v [_ B]]]]|[A _]]; [|exact A].
  exfalso. apply Hk. unfold TrieWf.key. inversion B. reflexivity.
Qed.

Lemma occ_remove_frame m q e :
  wf_root (root m) -> ok q -> key e <> bits q ->
  (In e (entries (root (fst (occ_remove m q)))) <-> In e (entries (root m))).
Proof.
  intros Hr Hq Hk. destruct (occ_remove m q) as [m' o] eqn:E. cbn [fst].
  destruct (occ_remove_spec m q m' o Hr Hq E) as [_ [P2 _]]. rewrite P2. tauto.
Qed.

Lemma update_value_frame m q g e :
  wf_root (root m) -> ok q -> key e <> bits q ->
  (In e (entries (root (update_value m q g))) <-> In e (entries (root m))).
Proof.
  intros Hr Hq Hk. destruct (update_value_spec m q g Hr Hq) as [_ [P2 _]]. rewrite P2.
  split; [intros [[A _]|[y [_ [B _]]]]; [exact A | contradiction] | intros A; left; auto].
Qed.

(* ------------------------------------------------------------------------------------------ *)
(** ** One step, for every handle [h] of the key [q] *)

Section H.
Variables (h : handle) (q k : pfx).
Hypothesis Hhk : hkey h = q.
Hypothesis Hq : ok q.

(** unconditional facts: well-formedness, slot accounting, the other keys *)
Lemma estep_wf m f a :
  wf_root (root m) -> wf_root (root (fst (fst (estep h q m f a)))).
Proof.
  intros Hr. unfold EntryApi.estep. destruct (fconsumed f); [exact Hr|]. cbv zeta.
  destruct a as [|g| |x|x|d|x|g| | |g|x| | |x|d|x]; try destruct (fmatched f); try destruct (is_occ h);
    try destruct (fremoved f); try destruct (h_get m h); try destruct d; try destruct g;
    cbn [fst snd]; try exact Hr;
    first [ apply update_value_wf | apply occ_insert_wf | apply occ_remove_wf | apply vacant_insert_wf ];
    assumption.
Qed.

Lemma estep_minv m f a : minv m -> minv (fst (fst (estep h q m f a))).
Proof.
  intros Hm. unfold EntryApi.estep. destruct (fconsumed f); [exact Hm|]. cbv zeta.
  destruct a as [|g| |x|x|d|x|g| | |g|x| | |x|d|x]; try destruct (fmatched f); try destruct (is_occ h);
    try destruct (fremoved f); try destruct (h_get m h); try destruct d; try destruct g;
    cbn [fst snd]; try exact Hm;
    first [ apply Slots.update_value_minv | apply Slots.occ_insert_minv
          | apply Slots.occ_remove_minv | apply Slots.vacant_insert_minv; [exact pzero|] ];
    assumption.
Qed.

Lemma estep_frame m f a e :
  wf_root (root m) -> key e <> bits q ->
  (In e (entries (root (fst (fst (estep h q m f a))))) <-> In e (entries (root m))).
Proof.
  intros Hr Hk. unfold EntryApi.estep. destruct (fconsumed f); [reflexivity|]. cbv zeta.
  destruct a as [|g| |x|x|d|x|g| | |g|x| | |x|d|x]; try destruct (fmatched f); try destruct (is_occ h);
    try destruct (fremoved f); try destruct (h_get m h); try destruct d; try destruct g;
    cbn [fst snd]; try reflexivity;
    first [ apply update_value_frame | apply occ_insert_frame | apply occ_remove_frame
          | apply vacant_insert_frame ];
    assumption.
Qed.

(** a closure that panics leaves the map as it was *)
Lemma estep_closure m f a : closure_panic_act a = true -> fst (fst (estep h q m f a)) = m.
Proof.
  intros Hc. unfold EntryApi.estep. destruct (fconsumed f); [reflexivity|]. cbv zeta.
  destruct a as [|g| |x|x|d|x|g| | |g|x| | |x|d|x]; try discriminate Hc;
    [destruct d | destruct g | destruct d]; try discriminate Hc;
    destruct (fmatched f); destruct (is_occ h); try destruct (h_get m h); reflexivity.
Qed.

Lemma estep_occ_key m f : fst (fst (estep h q m f OccKey)) = m.
Proof. unfold EntryApi.estep. destruct (fconsumed f); [reflexivity|]. cbv zeta. destruct (is_occ h); reflexivity. Qed.

(** *** The simulation relation with the one-cell machine *)
Definition Sim (m : pmap) (cur : option V) (f : eflags) : Prop :=
  wf_root (root m) /\ get (root m) q = cur /\
  (is_occ h = true -> fconsumed f = false -> exists i, get_node (root m) q = Some (i, k, cur)).

Lemma sim_h_get m cur f : Sim m cur f -> h_get m h = if is_occ h then cur else None.
Proof.
  intros [_ [G _]]. unfold Trie.h_get, EntryApi.is_occ. rewrite Hhk.
  destruct (hkind_ h); [exact G | reflexivity].
Qed.

Lemma sim_h_key m cur f : Sim m cur f -> fconsumed f = false -> h_key m h = if is_occ h then k else q.
Proof.
  intros [_ [_ N]] Hc. unfold Trie.h_key, EntryApi.is_occ in *. rewrite Hhk.
  destruct (hkind_ h); [|reflexivity]. destruct (N eq_refl Hc) as [i ->]. reflexivity.
Qed.

Lemma sim_flags m cur f f' :
  Sim m cur f -> (fconsumed f' = false -> fconsumed f = false) -> Sim m cur f'.
Proof. intros [W [G N]] Hf. split; [exact W|]. split; [exact G|]. intros O Hc. apply N; auto. Qed.

Lemma sim_update m old f f' y :
  is_occ h = true -> fconsumed f = false -> Sim m (Some old) f ->
  Sim (update_value m q (fun _ => y)) (Some y) f'.
Proof.
  intros O Hc [W [G N]]. destruct (N O Hc) as [i Gn].
  pose proof (update_value_node m q (fun _ => y) i k (Some old) Gn) as Gn'. cbn [option_map] in Gn'.
  split; [apply update_value_wf; assumption|]. split; [eapply get_of_node; exact Gn'|].
  intros _ _. exists i. exact Gn'.
Qed.

Lemma sim_occ_remove m cur f f' :
  is_occ h = true -> fconsumed f = false -> Sim m cur f -> Sim (fst (occ_remove m q)) None f'.
Proof.
  intros O Hc [W [G N]]. destruct (N O Hc) as [i Gn].
  pose proof (occ_remove_node m q i k cur Gn) as Gn'.
  split; [apply occ_remove_wf; assumption|]. split; [eapply get_of_node; exact Gn'|].
  intros _ _. exists i. exact Gn'.
Qed.

Lemma sim_occ_insert m cur f f' x :
  is_occ h = true -> fconsumed f = false -> fconsumed f' = true -> Sim m cur f ->
  Sim (fst (occ_insert m q x)) (Some x) f'.
Proof.
  intros O Hc Hc' [W [G N]]. destruct (N O Hc) as [i Gn].
  split; [apply occ_insert_wf; assumption|]. split; [eapply occ_insert_get; eassumption|].
  intros _ Hc''. congruence.
Qed.

Lemma sim_vacant_insert m cur f f' x :
  fconsumed f' = true -> Sim m cur f -> Sim (vacant_insert m q x) (Some x) f'.
Proof.
  intros Hc' [W [G N]].
  split; [apply vacant_insert_wf; assumption|]. split; [apply vacant_insert_get; assumption|].
  intros _ Hc''. congruence.
Qed.

(** MAIN STEP LEMMA: the concrete step and the one-cell step move the flags alike, emit the same
    token, and end in related states.  No restriction on the action or on the flags: the known
    class (a removed handle used again) is simulated faithfully, too. *)
Lemma estep_sim m cur f a :
  Sim m cur f ->
  let r := estep h q m f a in
  let c := cstep (is_occ h) k q cur f a in
  snd (fst r) = snd (fst c) /\ snd r = snd c /\ Sim (fst (fst r)) (fst (fst c)) (snd (fst r)).
Proof.
  intros S. cbv zeta. unfold EntryApi.estep, EntryApi.cstep.
  destruct (fconsumed f) eqn:Hc; [cbn [fst snd]; auto|]. cbv zeta.
  rewrite (sim_h_get m cur f S), (sim_h_key m cur f S Hc).
  pose proof S as [_ [G _]].
  destruct a as [|g| |x|x|d|x|g| | |g|x| | |x|d|x]; try destruct (fmatched f) eqn:Hm;
    try destruct (is_occ h) eqn:O; try destruct (fremoved f) eqn:Hrm;
    try (destruct cur as [old|]); try destruct d; try destruct g;
    cbn [fst snd]; rewrite ?occ_insert_out, ?occ_remove_out, ?G; cbn [unwrap_tok];
    (split; [reflexivity|]); (split; [reflexivity|]);
    first [ exact S
          | apply (sim_flags m _ f _ S); cbn; congruence
          | eapply sim_update; eassumption
          | eapply sim_occ_remove; eassumption
          | eapply sim_occ_insert; [eassumption | eassumption | reflexivity | eassumption]
          | eapply sim_vacant_insert; [reflexivity | eassumption] ].
Qed.

(** *** The invariant of the one-cell machine outside the known class *)
Definition AInv (occ : bool) (cur : option V) (f : eflags) : Prop :=
  (occ = false -> fconsumed f = false -> cur = None) /\
  (occ = true -> fconsumed f = false -> fremoved f = false -> cur <> None).

Lemma ainv_flags occ cur f f' :
  fconsumed f' = fconsumed f -> fremoved f' = fremoved f -> AInv occ cur f -> AInv occ cur f'.
Proof. unfold AInv. intros -> ->. auto. Qed.

Lemma cstep_inv occ cur f a :
  AInv occ cur f -> fremoved f = false ->
  let c := cstep occ k q cur f a in
  AInv occ (fst (fst c)) (snd (fst c)) /\
  (snd c = TPanic -> closure_panic_act a = true) /\
  (fremoved (snd (fst c)) = true -> is_occ_remove a = true).
Proof.
  destruct f as [fm fr fc]. cbn [fremoved]. intros [A1 A2] ->. cbn [fconsumed fremoved] in *.
  cbv zeta. unfold EntryApi.cstep. cbn [fconsumed fremoved fmatched].
  destruct fc.
  - cbn [fst snd fremoved fconsumed]. unfold AInv. cbn [fconsumed fremoved].
    repeat split; intros; congruence.
  - destruct a as [|g| |x|x|d|x|g| | |g|x| | |x|d|x]; destruct fm; destruct occ;
      try (destruct cur as [old|]); try destruct d; try destruct g;
      unfold AInv, set_matched, set_consumed, set_removed;
      cbn [fst snd unwrap_tok fremoved fconsumed fmatched closure_panic_act is_occ_remove];
      (split; [split; intros; try congruence; auto|]); (split; intros; try congruence; auto);
      try (exfalso; apply A2; reflexivity); try (specialize (A1 eq_refl eq_refl); congruence).
Qed.

Lemma cstep_occ_key occ cur f :
  let c := cstep occ k q cur f OccKey in
  fst (fst c) = cur /\ snd c <> TPanic /\
  fremoved (snd (fst c)) = fremoved f /\ fconsumed (snd (fst c)) = fconsumed f.
Proof.
  cbv zeta. unfold EntryApi.cstep. destruct (fconsumed f) eqn:Hc; [cbn; repeat split; congruence|].
  cbv zeta. destruct occ; cbn; repeat split; congruence.
Qed.

(** the counter stays exact: every insertion through a vacant handle meets an absent key, every
    replacement through an occupied handle meets a present one *)
Lemma estep_cinv m cur f a :
  Sim m cur f -> AInv (is_occ h) cur f -> fremoved f = false ->
  cinv m -> cinv (fst (fst (estep h q m f a))).
Proof.
  intros S [A1 A2] Hrm Hc. unfold EntryApi.estep.
  destruct (fconsumed f) eqn:Hco; [exact Hc|]. cbv zeta.
  rewrite (sim_h_get m cur f S), Hrm. pose proof S as [_ [G _]].
  assert (Hvac : is_occ h = false -> get (root m) q = None) by (intros O; rewrite G; auto).
  assert (Hocc : is_occ h = true -> get (root m) q <> None) by (intros O; rewrite G; auto).
  destruct a as [|g| |x|x|d|x|g| | |g|x| | |x|d|x]; try destruct (fmatched f);
    try destruct (is_occ h) eqn:O; try (destruct cur as [old|]); try destruct d; try destruct g;
    cbn [fst snd]; try exact Hc;
    first [ apply Slots.update_value_cinv; [exact lcp | exact pzero | exact Hc]
          | apply Slots.occ_remove_cinv; [exact lcp | exact pzero | exact Hc]
          | apply Slots.occ_insert_cinv; [exact lcp | exact pzero | auto | exact Hc]
          | apply Slots.vacant_insert_cinv; [exact pzero | auto | exact Hc] ].
Qed.

(* ------------------------------------------------------------------------------------------ *)
(** ** The whole chain on the handle [h] *)

Lemma erun_cons m f a rest :
  erun h q m f (a :: rest) =
  let r := estep h q m f a in
  if is_stop (snd r) then (fst (fst r), [snd r])
  else (fst (erun h q (fst (fst r)) (snd (fst r)) rest),
        snd r :: snd (erun h q (fst (fst r)) (snd (fst r)) rest)).
Proof. cbn [EntryApi.erun]. destruct (estep h q m f a) as [[m' f'] t]. reflexivity. Qed.

Lemma crun_cons occ cur f a rest :
  crun occ k q cur f (a :: rest) =
  let c := cstep occ k q cur f a in
  if is_stop (snd c) then (fst (fst c), [snd c])
  else (fst (crun occ k q (fst (fst c)) (snd (fst c)) rest),
        snd c :: snd (crun occ k q (fst (fst c)) (snd (fst c)) rest)).
Proof. cbn [EntryApi.crun]. destruct (cstep occ k q cur f a) as [[c' f'] t]. reflexivity. Qed.

Lemma erun_wf acts : forall m f, wf_root (root m) -> wf_root (root (fst (erun h q m f acts))).
Proof.
  induction acts as [|a rest IH]; intros m f Hr; [exact Hr|].
  rewrite erun_cons. cbv zeta. pose proof (estep_wf m f a Hr) as W.
  destruct (is_stop (snd (estep h q m f a))); cbn [fst]; [exact W | apply IH; exact W].
Qed.

Lemma erun_minv acts : forall m f, minv m -> minv (fst (erun h q m f acts)).
Proof.
  induction acts as [|a rest IH]; intros m f Hm; [exact Hm|].
  rewrite erun_cons. cbv zeta. pose proof (estep_minv m f a Hm) as W.
  destruct (is_stop (snd (estep h q m f a))); cbn [fst]; [exact W | apply IH; exact W].
Qed.

Lemma erun_frame acts e : key e <> bits q -> forall m f, wf_root (root m) ->
  (In e (entries (root (fst (erun h q m f acts)))) <-> In e (entries (root m))).
Proof.
  intros Hk. induction acts as [|a rest IH]; intros m f Hr; [reflexivity|].
  rewrite erun_cons. cbv zeta. pose proof (estep_wf m f a Hr) as W.
  pose proof (estep_frame m f a e Hr Hk) as F.
  destruct (is_stop (snd (estep h q m f a))); cbn [fst]; [exact F | rewrite IH by exact W; exact F].
Qed.

(** the chain emits the tokens of the one-cell machine and leaves its value under the key *)
Lemma erun_sim acts : forall m cur f,
  Sim m cur f ->
  snd (erun h q m f acts) = snd (crun (is_occ h) k q cur f acts) /\
  get (root (fst (erun h q m f acts))) q = fst (crun (is_occ h) k q cur f acts).
Proof.
  induction acts as [|a rest IH]; intros m cur f S.
  - cbn. split; [reflexivity | exact (proj1 (proj2 S))].
  - rewrite erun_cons, crun_cons. cbv zeta.
    pose proof (estep_sim m cur f a S) as E. cbv zeta in E. destruct E as [Ef [Et S']].
    rewrite <- Et, <- Ef.
    destruct (is_stop (snd (estep h q m f a))); cbn [fst snd].
    + split; [reflexivity | exact (proj1 (proj2 S'))].
    + destruct (IH _ _ _ S') as [I1 I2]. split; [rewrite I1; reflexivity | exact I2].
Qed.

Lemma occupied_reuse_cons a rest :
  occupied_reuse (a :: rest) = false ->
  (is_occ_remove a = true -> forallb is_occ_key rest = true) /\ occupied_reuse rest = false.
Proof.
  cbn [EntryApi.occupied_reuse]. intros H. apply orb_false_elim in H. destruct H as [H1 H2].
  split; [|exact H2]. intros Ha. rewrite Ha in H1. cbn [andb] in H1.
  apply negb_false_iff in H1. exact H1.
Qed.

(** outside the known class: the counter stays exact, and a panic can only come from a closure,
    which leaves the map in the state reached before it was called *)
Lemma erun_good acts : forall m cur f,
  Sim m cur f -> AInv (is_occ h) cur f ->
  (fremoved f = true -> forallb is_occ_key acts = true) ->
  occupied_reuse acts = false ->
  (cinv m -> cinv (fst (erun h q m f acts))) /\
  (In TPanic (snd (erun h q m f acts)) ->
   exists acts1 a acts2, acts = acts1 ++ a :: acts2 /\ closure_panic_act a = true /\
     fst (erun h q m f acts) = fst (erun h q m f acts1)).
Proof.
  induction acts as [|a rest IH]; intros m cur f S A Hrem Hre.
  - cbn. split; [auto | intros []].
  - destruct (occupied_reuse_cons a rest Hre) as [Hrm1 Hre'].
    rewrite erun_cons. cbv zeta.
    pose proof (estep_sim m cur f a S) as E. cbv zeta in E. destruct E as [Ef [Et S']].
    destruct (fremoved f) eqn:Hfr.
    + (* the handle was removed: the action is [OccKey], nothing moves *)
      specialize (Hrem eq_refl). cbn [forallb] in Hrem. apply andb_prop in Hrem.
      destruct Hrem as [Ha Hrest]. destruct a; try discriminate Ha.
      pose proof (cstep_occ_key (is_occ h) cur f) as C. cbv zeta in C. destruct C as [C1 [C2 [C3 C4]]].
      rewrite estep_occ_key in *. rewrite C1 in S'.
      assert (A' : AInv (is_occ h) cur (snd (fst (estep h q m f OccKey)))).
      { eapply ainv_flags; [| |exact A]; rewrite Ef; assumption. }
      destruct (is_stop (snd (estep h q m f OccKey))) eqn:St; cbn [fst snd].
      * split; [auto|]. intros [E|[]]. rewrite Et in E. contradiction.
      * destruct (IH m cur _ S' A') as [I1 I2]; [intros _; exact Hrest | exact Hre' |].
        split; [exact I1|]. intros [E|Hin]; [rewrite Et in E; contradiction|].
        destruct (I2 Hin) as [acts1 [b [acts2 [E1 [E2 E3]]]]].
        exists (OccKey :: acts1), b, acts2. split; [rewrite E1; reflexivity|]. split; [exact E2|].
        rewrite erun_cons. cbv zeta. rewrite St. cbn [fst]. rewrite estep_occ_key. exact E3.
    + pose proof (cstep_inv (is_occ h) cur f a A Hfr) as C. cbv zeta in C. destruct C as [A' [P1 P2]].
      pose proof (estep_cinv m cur f a S A Hfr) as Hci.
      rewrite <- Ef in A', P2. rewrite <- Et in P1.
      destruct (is_stop (snd (estep h q m f a))) eqn:St; cbn [fst snd].
      * split; [exact Hci|]. intros [E|[]].
        exists [], a, rest. split; [reflexivity|]. split; [apply P1; exact E|].
        cbn [EntryApi.erun fst]. apply estep_closure. apply P1. exact E.
      * destruct (IH _ _ _ S' A') as [I1 I2]; [intros Hr'; apply Hrm1; apply P2; exact Hr' | exact Hre' |].
        split; [intros Hc; apply I1; apply Hci; exact Hc|].
        intros [E|Hin]; [rewrite E in St; discriminate St|].
        destruct (I2 Hin) as [acts1 [b [acts2 [E1 [E2 E3]]]]].
        exists (a :: acts1), b, acts2. split; [rewrite E1; reflexivity|]. split; [exact E2|].
        rewrite erun_cons. cbv zeta. rewrite St. cbn [fst]. exact E3.
Qed.

End H.

(* ------------------------------------------------------------------------------------------ *)
(** ** The handle created by [entry] *)

Lemma entry_is_occ m q : is_occ (entry m q) = is_some (get (root m) q).
Proof.
  unfold Trie.entry, Trie.get. destruct (get_node (root m) q) as [[[i p] [y|]]|]; reflexivity.
Qed.

Lemma entry_init m q :
  wf_root (root m) ->
  hkey (entry m q) = q /\
  Sim (entry m q) q (h_key m (entry m q)) m (get (root m) q) fl0 /\
  AInv (is_occ (entry m q)) (get (root m) q) fl0.
Proof.
  intros Hr. unfold Sim, AInv, Trie.h_key, Trie.entry, Trie.get.
  destruct (get_node (root m) q) as [[[i p] [y|]]|] eqn:G; cbn [hkey hkind_ EntryApi.is_occ].
  - rewrite G. split; [reflexivity|]. split.
    + split; [exact Hr|]. split; [reflexivity|]. intros _ _. exists i. reflexivity.
    + split; intros; congruence.
  - split; [reflexivity|]. split.
    + split; [exact Hr|]. split; [reflexivity|]. intros; discriminate.
    + split; intros; congruence.
  - split; [reflexivity|]. split.
    + split; [exact Hr|]. split; [reflexivity|]. intros; discriminate.
    + split; intros; congruence.
Qed.

(* ------------------------------------------------------------------------------------------ *)
(** * MAIN THEOREMS *)

(** 1. every chain of entry actions — the known class and panicking closures included — keeps
    the trie well formed and the slot accounting intact *)
Theorem entry_chain_wf m q acts :
  wf_root (root m) -> ok q -> wf_root (root (fst (entry_chain m q acts))).
Proof. intros Hr Hq. unfold EntryApi.entry_chain. apply erun_wf; assumption. Qed.

Theorem entry_chain_minv m q acts : minv m -> minv (fst (entry_chain m q acts)).
Proof. intros Hm. unfold EntryApi.entry_chain. apply erun_minv. exact Hm. Qed.

(** 4. outside the known class a panic is raised by a closure, and the map is exactly the state
    reached by the actions before the panicking one *)
Theorem entry_chain_closure_panic m q acts :
  wf_root (root m) -> ok q -> occupied_reuse acts = false ->
  In TPanic (snd (entry_chain m q acts)) ->
  exists acts1 a acts2,
    acts = acts1 ++ a :: acts2 /\ closure_panic_act a = true /\
    fst (entry_chain m q acts) = fst (entry_chain m q acts1).
Proof.
  intros Hr Hq Hre Hin. destruct (entry_init m q Hr) as [Hk [S A]].
  unfold EntryApi.entry_chain in *.
  destruct (erun_good (entry m q) q (h_key m (entry m q)) Hk Hq acts m _ fl0 S A) as [_ P];
    [intros H; discriminate H | exact Hre |].
  exact (P Hin).
Qed.

(** the chain stops at a panic, so "the token list ends with [TPanic]" is the same hypothesis *)
Corollary entry_chain_closure_panic_last m q acts :
  wf_root (root m) -> ok q -> occupied_reuse acts = false ->
  last (snd (entry_chain m q acts)) TOk = TPanic ->
  exists acts1 a acts2,
    acts = acts1 ++ a :: acts2 /\ closure_panic_act a = true /\
    fst (entry_chain m q acts) = fst (entry_chain m q acts1) /\
    (forall e, In e (entries (root (fst (entry_chain m q acts)))) <->
               In e (entries (root (fst (entry_chain m q acts1))))).
Proof.
  intros Hr Hq Hre Hl.
  assert (Hin : In TPanic (snd (entry_chain m q acts))).
  { destruct (snd (entry_chain m q acts)) as [|t ts] eqn:E; [cbn in Hl; discriminate Hl|].
    rewrite <- Hl. apply last_in. discriminate. }
  destruct (entry_chain_closure_panic m q acts Hr Hq Hre Hin) as [acts1 [a [acts2 [E1 [E2 E3]]]]].
  exists acts1, a, acts2. repeat split; try assumption; rewrite E3; auto.
Qed.

(** 2. panic freedom outside the known class *)
Theorem entry_chain_no_panic m q acts :
  wf_root (root m) -> ok q -> occupied_reuse acts = false -> closure_panics acts = false ->
  ~ In TPanic (snd (entry_chain m q acts)).
Proof.
  intros Hr Hq Hre Hcp Hin.
  destruct (entry_chain_closure_panic m q acts Hr Hq Hre Hin) as [acts1 [a [acts2 [E1 [E2 _]]]]].
  unfold EntryApi.closure_panics in Hcp. rewrite E1, existsb_app in Hcp. cbn [existsb] in Hcp.
  rewrite E2 in Hcp. cbn [orb] in Hcp. rewrite orb_true_r in Hcp. discriminate Hcp.
Qed.

(** 3. the cached counter stays the number of entries outside the known class (panicking
    closures allowed) *)
Theorem entry_chain_cinv m q acts :
  cinv m -> wf_root (root m) -> ok q -> occupied_reuse acts = false ->
  cinv (fst (entry_chain m q acts)).
Proof.
  intros Hc Hr Hq Hre. destruct (entry_init m q Hr) as [Hk [S A]].
  unfold EntryApi.entry_chain.
  destruct (erun_good (entry m q) q (h_key m (entry m q)) Hk Hq acts m _ fl0 S A) as [P _];
    [intros H; discriminate H | exact Hre |].
  exact (P Hc).
Qed.

(** 6a. refinement, for ALL action lists: the tokens are those of the one-cell machine run on the
    value stored under the key, and the value stored under the key afterwards is its final cell *)
Theorem entry_chain_refines m q acts :
  wf_root (root m) -> ok q ->
  snd (entry_chain m q acts) = snd (cell_chain m q acts) /\
  get (root (fst (entry_chain m q acts))) q = fst (cell_chain m q acts).
Proof.
  intros Hr Hq. destruct (entry_init m q Hr) as [Hk [S _]].
  unfold EntryApi.entry_chain, EntryApi.cell_chain.
  exact (erun_sim (entry m q) q (h_key m (entry m q)) Hk Hq acts m _ fl0 S).
Qed.

(** 6b. the entries of all other keys are untouched by the whole chain, for ALL action lists *)
Theorem entry_chain_frame m q acts :
  wf_root (root m) -> ok q ->
  forall e, key e <> bits q ->
    (In e (entries (root (fst (entry_chain m q acts)))) <-> In e (entries (root m))).
Proof.
  intros Hr Hq e Hk. unfold EntryApi.entry_chain. apply erun_frame; assumption.
Qed.

(* ------------------------------------------------------------------------------------------ *)
(** ** 6c. Content of the single calls (instances of [entry_chain_refines])
    [cur] = the value stored under the key before the call. *)

Lemma cell_chain_single m q a :
  cell_chain m q [a] =
  let cur := get (root m) q in
  let c := cstep (is_some cur) (h_key m (entry m q)) q cur fl0 a in
  (fst (fst c), [snd c]).
Proof.
  unfold EntryApi.cell_chain. rewrite entry_is_occ. cbn [EntryApi.crun]. cbv zeta.
  destruct (cstep _ _ _ _ _ _) as [[c' f'] t]. destruct (is_stop t); reflexivity.
Qed.

Ltac single_tac m q Hr Hq a :=
  let T := fresh "T" in let G := fresh "G" in
  destruct (entry_chain_refines m q [a] Hr Hq) as [T G];
  rewrite T, ?G, cell_chain_single; cbv zeta.

(** [Entry::get]: the stored value, the map is untouched *)
Theorem entry_get_content m q :
  wf_root (root m) -> ok q -> entry_chain m q [EGet] = (m, [TVal (get (root m) q)]).
Proof.
  intros Hr Hq. destruct (entry_init m q Hr) as [Hk [S _]].
  unfold EntryApi.entry_chain. cbn [EntryApi.erun EntryApi.estep fl0 fconsumed fmatched].
  rewrite (sim_h_get _ _ _ Hk m _ _ S), entry_is_occ.
  destruct (get (root m) q); reflexivity.
Qed.

(** [Entry::insert]: returns the value stored before; afterwards the key holds [x] *)
Theorem entry_insert_content m q x :
  wf_root (root m) -> ok q ->
  snd (entry_chain m q [EInsert x]) = [TVal (get (root m) q)] /\
  get (root (fst (entry_chain m q [EInsert x]))) q = Some x.
Proof.
  intros Hr Hq. single_tac m q Hr Hq (@EInsert V x).
  destruct (get (root m) q); cbn; auto.
Qed.

(** [or_insert] / [or_insert_with] / [or_default]: the resident value if there is one, else the
    default, which is then stored *)
Theorem entry_or_insert_content m q x a :
  a = EOrInsert x \/ a = EOrInsertWith (Some x) \/ a = EOrDefault x ->
  wf_root (root m) -> ok q ->
  let v := match get (root m) q with Some y => y | None => x end in
  snd (entry_chain m q [a]) = [TVal (Some v)] /\
  get (root (fst (entry_chain m q [a]))) q = Some v.
Proof.
  intros Ha Hr Hq. cbv zeta. single_tac m q Hr Hq a.
  destruct Ha as [->|[->| ->]]; destruct (get (root m) q); cbn; auto.
Qed.

(** a resident value is never overwritten by a panicking default closure: it is not called *)
Theorem entry_or_insert_with_panic_content m q :
  wf_root (root m) -> ok q ->
  snd (entry_chain m q [EOrInsertWith None]) =
    [match get (root m) q with Some y => TVal (Some y) | None => TPanic end] /\
  fst (entry_chain m q [EOrInsertWith None]) = m.
Proof.
  intros Hr Hq. split.
  - single_tac m q Hr Hq (@EOrInsertWith V None). destruct (get (root m) q); reflexivity.
  - unfold EntryApi.entry_chain. rewrite erun_cons. cbv zeta.
    destruct (is_stop _); cbn [fst EntryApi.erun]; apply estep_closure; reflexivity.
Qed.

(** [get_mut] then write / [and_modify]: the old value is reported, [g] is applied in place *)
Theorem entry_modify_content m q g :
  wf_root (root m) -> ok q ->
  (snd (entry_chain m q [EGetMut g]) = [TVal (get (root m) q)] /\
   get (root (fst (entry_chain m q [EGetMut g]))) q = option_map g (get (root m) q)) /\
  (snd (entry_chain m q [EAndModify (Some g)]) = [TOk] /\
   get (root (fst (entry_chain m q [EAndModify (Some g)]))) q = option_map g (get (root m) q)).
Proof.
  intros Hr Hq. split.
  - single_tac m q Hr Hq (@EGetMut V g). destruct (get (root m) q); cbn; auto.
  - single_tac m q Hr Hq (@EAndModify V (Some g)). destruct (get (root m) q); cbn; auto.
Qed.

(** the methods of [OccupiedEntry] on a key that holds [y] *)
Theorem occ_content m q y :
  wf_root (root m) -> ok q -> get (root m) q = Some y ->
  snd (entry_chain m q [OccGet]) = [TVal (Some y)] /\
  (forall g, snd (entry_chain m q [OccGetMut g]) = [TVal (Some y)] /\
             get (root (fst (entry_chain m q [OccGetMut g]))) q = Some (g y)) /\
  (forall x, snd (entry_chain m q [OccInsert x]) = [TVal (Some y)] /\
             get (root (fst (entry_chain m q [OccInsert x]))) q = Some x) /\
  (snd (entry_chain m q [OccRemove]) = [TVal (Some y)] /\
   get (root (fst (entry_chain m q [OccRemove]))) q = None) /\
  snd (entry_chain m q [OccKey]) = [TPfx (h_key m (entry m q))] /\
  (forall a, a = VacKey \/ (exists x, a = VacInsert x \/ a = VacDefault x) \/ (exists d, a = VacInsertWith d) ->
             snd (entry_chain m q [a]) = [TWrongVariant] /\ fst (entry_chain m q [a]) = m).
Proof.
  intros Hr Hq Hy.
  split; [single_tac m q Hr Hq (@OccGet V); rewrite Hy; reflexivity|].
  split; [intros g; single_tac m q Hr Hq (@OccGetMut V g); rewrite Hy; cbn; auto|].
  split; [intros x; single_tac m q Hr Hq (@OccInsert V x); rewrite Hy; cbn; auto|].
  split; [single_tac m q Hr Hq (@OccRemove V); rewrite Hy; cbn; auto|].
  split; [single_tac m q Hr Hq (@OccKey V); rewrite Hy; reflexivity|].
  intros a Ha. split.
  - single_tac m q Hr Hq a. rewrite Hy.
    destruct Ha as [->|[[x [->| ->]]|[d ->]]]; reflexivity.
  - unfold EntryApi.entry_chain. rewrite erun_cons. cbv zeta.
    assert (O : is_occ (entry m q) = true) by (rewrite entry_is_occ, Hy; reflexivity).
    assert (E : fst (fst (estep (entry m q) q m fl0 a)) = m).
    { unfold EntryApi.estep. cbn [fl0 fconsumed]. cbv zeta. rewrite O.
      destruct Ha as [->|[[x [->| ->]]|[d ->]]]; reflexivity. }
    destruct (is_stop _); cbn [fst EntryApi.erun]; exact E.
Qed.

(** the methods of [VacantEntry] on a key that holds nothing *)
Theorem vac_content m q :
  wf_root (root m) -> ok q -> get (root m) q = None ->
  snd (entry_chain m q [VacKey]) = [TPfx q] /\
  (forall x a, a = VacInsert x \/ a = VacInsertWith (Some x) \/ a = VacDefault x ->
     snd (entry_chain m q [a]) = [TVal (Some x)] /\
     get (root (fst (entry_chain m q [a]))) q = Some x) /\
  (forall a, is_occ_key a = true \/ a = OccGet \/ (exists g, a = OccGetMut g) \/
             (exists x, a = OccInsert x) \/ a = OccRemove ->
     snd (entry_chain m q [a]) = [TWrongVariant] /\
     get (root (fst (entry_chain m q [a]))) q = None).
Proof.
  intros Hr Hq Hn.
  split; [single_tac m q Hr Hq (@VacKey V); rewrite Hn; reflexivity|].
  split.
  - intros x a Ha. single_tac m q Hr Hq a. rewrite Hn.
    destruct Ha as [->|[->| ->]]; cbn; auto.
  - intros a Ha. single_tac m q Hr Hq a. rewrite Hn.
    destruct Ha as [Ha|[->|[[g ->]|[[x ->]| ->]]]]; [destruct a; try discriminate Ha|..]; cbn; auto.
Qed.

(** the same statements against the abstract ordered map of [Refine.v]: the cell the reference
    machine starts from is the abstract lookup, and its final cell is the abstract lookup in the
    entries of the resulting map *)
Theorem entry_chain_refines_abstract m q acts :
  wf_root (root m) -> ok q ->
  let A := entries (root m) in
  let A' := entries (root (fst (entry_chain m q acts))) in
  let r := crun (is_some (a_get pfx V bits A q)) (h_key m (entry m q)) q (a_get pfx V bits A q) fl0 acts in
  snd (entry_chain m q acts) = snd r /\
  a_get pfx V bits A' q = fst r /\
  (forall e, key e <> bits q -> (In e A' <-> In e A)).
Proof.
  intros Hr Hq. cbv zeta.
  pose proof (Refine.get_refines pfx V peq contains is_bit_set plen lcp pzero mcmp bits ok LAWS (root m) q Hr Hq) as G0.
  pose proof (entry_chain_wf m q acts Hr Hq) as Hr'.
  pose proof (Refine.get_refines pfx V peq contains is_bit_set plen lcp pzero mcmp bits ok LAWS _ q Hr' Hq) as G1.
  destruct (entry_chain_refines m q acts Hr Hq) as [T G].
  rewrite <- G0, <- G1, T, G. unfold EntryApi.cell_chain. rewrite entry_is_occ.
  split; [reflexivity|]. split; [reflexivity|]. apply entry_chain_frame; assumption.
Qed.

(** the shape of the token list: one token per action at most, nothing after a stopping token *)
Lemma erun_stops h q acts : forall m f ts t rest,
  snd (erun h q m f acts) = ts ++ t :: rest -> is_stop t = true -> rest = [].
Proof.
  induction acts as [|a acts IH]; intros m f ts t rest H Ht.
  - cbn in H. destruct ts; discriminate H.
  - rewrite erun_cons in H. cbv zeta in H.
    destruct (is_stop (snd (estep h q m f a))) eqn:St; cbn [snd] in H.
    + destruct ts as [|t0 ts]; cbn [app] in H; inversion H; [reflexivity|].
      destruct ts; discriminate.
    + destruct ts as [|t0 ts]; cbn [app] in H; inversion H; subst.
      * rewrite Ht in St. discriminate St.
      * eapply IH; eassumption.
Qed.

Lemma erun_length h q acts : forall m f, (length (snd (erun h q m f acts)) <= length acts)%nat.
Proof.
  induction acts as [|a acts IH]; intros m f; [cbn; lia|].
  rewrite erun_cons. cbv zeta. destruct (is_stop _); cbn [snd length]; [lia|].
  specialize (IH (fst (fst (estep h q m f a))) (snd (fst (estep h q m f a)))). lia.
Qed.

Theorem entry_chain_stops m q acts ts t rest :
  snd (entry_chain m q acts) = ts ++ t :: rest -> is_stop t = true -> rest = [].
Proof. apply erun_stops. Qed.

Theorem entry_chain_length m q acts : (length (snd (entry_chain m q acts)) <= length acts)%nat.
Proof. apply erun_length. Qed.

Lemma closure_panic_act_spec (a : eact) :
  closure_panic_act a = true <->
  a = EOrInsertWith None \/ a = EAndModify None \/ a = VacInsertWith None.
Proof.
  split.
  - destruct a as [|g| |x|x|d|x|g| | |g|x| | |x|d|x]; try discriminate;
      [destruct d | destruct g | destruct d]; try discriminate; auto.
  - intros [->|[->| ->]]; reflexivity.
Qed.

End P.

(* ========================================================================================== *)
(** * Part 3: the known class is real
    Concrete witnesses in the instance [PrefixN] (width 8, flavour [Generic], values [nat]): the
    map holding the single entry 128/1 -> 5, the handle of that key.  The hypothesis
    [occupied_reuse acts = false] of [entry_chain_no_panic] and of [entry_chain_cinv] cannot be
    dropped. *)

Definition w_laws := pn_laws 8%N Generic ltac:(vm_compute; discriminate).

Definition wq : PrefixN.pfx := mkpfx 128%N 1%N.
Definition wm : pmap PrefixN.pfx nat := fst (t_insert 8%N Generic nat (t_empty nat) wq 5%nat).
Definition w_chain :=
  entry_chain PrefixN.pfx nat (PrefixN.peq 8%N) (PrefixN.contains 8%N Generic) (PrefixN.is_bit_set 8%N)
              PrefixN.plen (PrefixN.lcp 8%N Generic).
Notation w_wf := (TrieWf.wf_root PrefixN.pfx nat (pbits 8%N) (fun p => valid 8%N p = true)).

Lemma wq_ok : valid 8%N wq = true.
Proof. vm_compute. reflexivity. Qed.

Lemma wm_wf : w_wf (root wm).
Proof.
  unfold wm, t_insert.
  destruct (insert _ _ _ _ _ _ _ (t_empty nat) wq 5%nat) as [m' o] eqn:E. cbn [fst].
  refine (proj1 (Mutate.insert_spec _ _ _ _ _ _ _ _ _ _ _ w_laws (t_empty nat) wq 5%nat m' o _ wq_ok E)).
  exact (proj1 (Mutate.empty_spec _ nat _ _ _ _ _ _ _ _ _ w_laws)).
Qed.

Lemma wm_cinv : Slots.cinv _ _ wm.
Proof. vm_compute. reflexivity. Qed.

(** [o.remove(); o.get()] panics; [o.remove(); o.insert(7)] panics after it has stored the value:
    the map then holds one entry under a counter of zero *)
Theorem entry_chain_refuted :
  w_wf (root wm) /\ valid 8%N wq = true /\ Slots.cinv _ _ wm /\
  closure_panics nat [OccRemove; OccGet] = false /\
  snd (w_chain wm wq [OccRemove; OccGet]) = [TVal (Some 5%nat); TPanic] /\
  closure_panics nat [OccRemove; OccInsert 7%nat] = false /\
  snd (w_chain wm wq [OccRemove; OccInsert 7%nat]) = [TVal (Some 5%nat); TPanic] /\
  entries (root (fst (w_chain wm wq [OccRemove; OccInsert 7%nat]))) = [(wq, 7%nat)] /\
  count (al (fst (w_chain wm wq [OccRemove; OccInsert 7%nat]))) = 0%Z /\
  ~ Slots.cinv _ _ (fst (w_chain wm wq [OccRemove; OccInsert 7%nat])).
Proof.
  split; [exact wm_wf|]. split; [exact wq_ok|]. split; [exact wm_cinv|].
  split; [reflexivity|]. split; [vm_compute; reflexivity|].
  split; [reflexivity|]. split; [vm_compute; reflexivity|].
  split; [vm_compute; reflexivity|]. split; [vm_compute; reflexivity|].
  vm_compute. discriminate.
Qed.

(** [entry_chain_no_panic] without [occupied_reuse acts = false] is false *)
Theorem entry_chain_no_panic_refuted :
  ~ (forall (m : pmap PrefixN.pfx nat) q acts,
       w_wf (root m) -> valid 8%N q = true -> closure_panics nat acts = false ->
       ~ In TPanic (snd (w_chain m q acts))).
Proof.
  intros H. apply (H wm wq [OccRemove; OccGet] wm_wf wq_ok eq_refl).
  vm_compute. right. left. reflexivity.
Qed.

(** [entry_chain_cinv] without [occupied_reuse acts = false] is false *)
Theorem entry_chain_cinv_refuted :
  ~ (forall (m : pmap PrefixN.pfx nat) q acts,
       Slots.cinv _ _ m -> w_wf (root m) -> valid 8%N q = true -> closure_panics nat acts = false ->
       Slots.cinv _ _ (fst (w_chain m q acts))).
Proof.
  intros H. pose proof (H wm wq [OccRemove; OccInsert 7%nat] wm_cinv wm_wf wq_ok eq_refl) as C.
  vm_compute in C. discriminate C.
Qed.

(** the same two chains are covered by the general theorems: the trie stays well formed and the
    tokens are those of the one-cell machine *)
Example known_class_still_wf :
  w_wf (root (fst (w_chain wm wq [OccRemove; OccInsert 7%nat]))).
Proof. exact (entry_chain_wf _ _ _ _ _ _ _ _ _ _ _ w_laws wm wq _ wm_wf wq_ok). Qed.

Print Assumptions entry_chain_wf.
Print Assumptions entry_chain_minv.
Print Assumptions entry_chain_no_panic.
Print Assumptions entry_chain_cinv.
Print Assumptions entry_chain_closure_panic.
Print Assumptions entry_chain_closure_panic_last.
Print Assumptions entry_chain_refines.
Print Assumptions entry_chain_frame.
Print Assumptions entry_chain_stops.
Print Assumptions entry_chain_length.
Print Assumptions entry_chain_refines_abstract.
Print Assumptions entry_get_content.
Print Assumptions entry_insert_content.
Print Assumptions entry_or_insert_content.
Print Assumptions entry_or_insert_with_panic_content.
Print Assumptions entry_modify_content.
Print Assumptions occ_content.
Print Assumptions vac_content.
Print Assumptions entry_chain_refuted.
Print Assumptions entry_chain_no_panic_refuted.
Print Assumptions entry_chain_cinv_refuted.
Print Assumptions known_class_still_wf.
