(** Equality ([PartialEq for PrefixMap]/[PrefixSet]), clone and rebuilding a map from its own
    entries.  [map_eq] pairs up the two iterators ([self.iter().eq(other.iter())]); it is a
    function of the two entry lists only. *)
From Coq Require Import List NArith ZArith Bool Arith Lia Sorted Permutation.
From PT Require Import Bits BitsThm Laws Machine MachineThm Trie TrieWf Lookup Lookup2.
Import ListNotations.

Section EQ.
Variables (pfx V : Type) (prepr_eq : pfx -> pfx -> bool) (veq : V -> V -> bool).
Notation tree := (tree pfx V).
Notation list_eqb := (list_eqb pfx V prepr_eq veq).
Notation map_eq := (map_eq pfx V prepr_eq veq).

(** the pairwise relation the types' own [==] induce on entries *)
Definition pair_eq (e1 e2 : pfx * V) : Prop :=
  prepr_eq (fst e1) (fst e2) = true /\ veq (snd e1) (snd e2) = true.

Theorem list_eqb_spec (a : list (pfx * V)) : forall b, list_eqb a b = true <-> Forall2 pair_eq a b.
Proof.
  induction a as [|[p x] a IH]; intros [|[q y] b]; cbn [Trie.list_eqb].
  - split; [constructor | reflexivity].
  - split; [discriminate | intros H; inversion H].
  - split; [discriminate | intros H; inversion H].
  - rewrite !andb_true_iff, IH. split.
    + intros [[A B] C]. constructor; [split; assumption | exact C].
    + intros H. inversion H as [|? ? ? ? [A B] C]; subst. auto.
Qed.

(** MAIN THEOREM: two maps are equal exactly when their entry sequences are pairwise equal under
    the key and value types' own equality *)
Theorem map_eq_spec (a b : tree) : map_eq a b = true <-> Forall2 pair_eq (entries a) (entries b).
Proof. unfold Trie.map_eq. apply list_eqb_spec. Qed.

(** ... hence never when one of them has additional or fewer entries *)
Corollary map_eq_length (a b : tree) : map_eq a b = true -> length (entries a) = length (entries b).
Proof. rewrite map_eq_spec. induction 1; cbn; congruence. Qed.

Corollary map_eq_surplus (a b : tree) :
  length (entries a) <> length (entries b) -> map_eq a b = false.
Proof.
  intros H. destruct (map_eq a b) eqn:E; [|reflexivity]. exfalso. apply H, map_eq_length, E.
Qed.

Corollary map_eq_empty (a b : tree) : entries a = [] -> (map_eq a b = true <-> entries b = []).
Proof.
  intros Ea. rewrite map_eq_spec, Ea. split.
  - intros H. inversion H. reflexivity.
  - intros ->. constructor.
Qed.

(** the answer depends on the stored entries only, not on the histories and shapes *)
Corollary map_eq_shape_independent (a a' b b' : tree) :
  entries a = entries a' -> entries b = entries b' -> map_eq a b = map_eq a' b'.
Proof. unfold Trie.map_eq. intros -> ->. reflexivity. Qed.

(** when the component equalities decide Leibniz equality (as [==] on the shipped prefix types —
    address and length — and on any [Eq] value type do), [==] on maps decides equality of the
    entry sequences; it is then an equivalence relation *)
Hypothesis prepr_eq_spec : forall p q, prepr_eq p q = true <-> p = q.
Hypothesis veq_spec : forall x y, veq x y = true <-> x = y.

Lemma Forall2_pair_eq_eq (a b : list (pfx * V)) : Forall2 pair_eq a b <-> a = b.
Proof.
  split.
  - induction 1 as [|[p x] [q y] a b [A B] _ IH]; [reflexivity|]. cbn in A, B.
    apply prepr_eq_spec in A. apply veq_spec in B. subst. reflexivity.
  - intros <-. induction a as [|[p x] a IH]; constructor; [|exact IH].
    split; cbn; [apply prepr_eq_spec | apply veq_spec]; reflexivity.
Qed.

Theorem map_eq_iff (a b : tree) : map_eq a b = true <-> entries a = entries b.
Proof. rewrite map_eq_spec. apply Forall2_pair_eq_eq. Qed.

Corollary map_eq_refl (a : tree) : map_eq a a = true.
Proof. apply map_eq_iff. reflexivity. Qed.
Corollary map_eq_sym (a b : tree) : map_eq a b = map_eq b a.
Proof.
  destruct (map_eq a b) eqn:E1, (map_eq b a) eqn:E2; try reflexivity.
  - apply map_eq_iff in E1. symmetry in E1. apply map_eq_iff in E1. congruence.
  - apply map_eq_iff in E2. symmetry in E2. apply map_eq_iff in E2. congruence.
Qed.
Corollary map_eq_trans (a b c : tree) : map_eq a b = true -> map_eq b c = true -> map_eq a c = true.
Proof. rewrite !map_eq_iff. congruence. Qed.

(** one differing value, or one differing stored representation (a host bit), makes maps unequal *)
Corollary map_eq_differs (a b : tree) e1 e2 n :
  nth_error (entries a) n = Some e1 -> nth_error (entries b) n = Some e2 -> e1 <> e2 -> map_eq a b = false.
Proof.
  intros H1 H2 Hne. destruct (map_eq a b) eqn:E; [|reflexivity]. apply map_eq_iff in E.
  rewrite E in H1. congruence.
Qed.

End EQ.

(** The iterator-based definition that is extracted ([Inst.t_map_eq] compares the outputs of the
    two [Iter] stack machines) is the same function. *)
Section IT.
Variables (pfx V : Type) (prepr_eq : pfx -> pfx -> bool) (veq : V -> V -> bool).
Theorem iter_eq_map_eq (a b : tree pfx V) :
  list_eqb pfx V prepr_eq veq (map (Lookup2.drop_id pfx V) (iter_items pfx V a))
                              (map (Lookup2.drop_id pfx V) (iter_items pfx V b))
  = map_eq pfx V prepr_eq veq a b.
Proof. rewrite !iter_items_spec, !entries_id_entries. reflexivity. Qed.
End IT.
