(** Extraction of the executable model to OCaml.  Only the directives of [ExtrOcamlBasic]
    (bool, option, unit, list, prod, sumbool, sumor -> OCaml natives) are used; [N], [positive],
    [Z], [nat] stay as extracted inductives. *)
Require Extraction.
Require Import ExtrOcamlBasic.
From PT Require Import Bits PrefixN Machine Trie Views SetOps Inst EntryApi InstEntry ParModel InstPar Arena Arena2 InstArena.
Separate Extraction Bits PrefixN Machine Trie Views SetOps Inst InstEntry.t_entry_chain InstEntry.t_occupied_reuse InstEntry.t_closure_panics
  InstPar.t_alias_report InstPar.t_par_jobs InstPar.t_par_result
  InstArena.t_a_empty InstArena.t_a_insert InstArena.t_a_remove InstArena.t_a_remove_keep_tree InstArena.t_a_entries
  InstArena.t_a_clear InstArena.t_a_remove_children InstArena.t_a_retain InstArena.t_a_get_mut InstArena.t_a_vm_set InstArena.t_a_vm_remove InstArena.t_a_vm_value_mut InstArena.t_a_entry_insert
  BinNat.N.of_nat BinNat.N.to_nat BinInt.Z.of_N BinInt.Z.to_N BinNat.N.testbit BinNat.N.succ_double BinNat.N.double
  BinNat.N.div BinNat.N.modulo BinInt.Z.modulo BinInt.Z.pow BinInt.Z.ltb BinInt.Z.add BinInt.Z.sub BinNat.N.compare BinNat.N.ltb BinNat.N.leb BinNat.N.eqb.
