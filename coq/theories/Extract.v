(** Extraction of the executable model to OCaml.  Only the directives of [ExtrOcamlBasic]
    (bool, option, unit, list, prod, sumbool, sumor -> OCaml natives) are used; [N], [positive],
    [Z], [nat] stay as extracted inductives. *)
Require Extraction.
Require Import ExtrOcamlBasic.
From PT Require Import Bits PrefixN Machine Trie Views SetOps Inst EntryApi InstEntry ParModel InstPar.
Separate Extraction Bits PrefixN Machine Trie Views SetOps Inst InstEntry.t_entry_chain InstEntry.t_occupied_reuse InstEntry.t_closure_panics
  InstPar.t_alias_report InstPar.t_par_jobs InstPar.t_par_result
  BinNat.N.of_nat BinNat.N.to_nat BinInt.Z.of_N BinInt.Z.to_N BinNat.N.testbit BinNat.N.succ_double BinNat.N.double
  BinNat.N.div BinNat.N.modulo BinInt.Z.modulo BinInt.Z.pow BinInt.Z.ltb BinInt.Z.add BinInt.Z.sub BinNat.N.compare BinNat.N.ltb BinNat.N.leb BinNat.N.eqb.
