(** Histories: every state reachable from the empty map by public mutating calls is well-formed,
    has consistent slot accounting, (outside the two view-counter operations) a counter equal to
    the number of entries, and (over the insert/remove/retain/clear alphabet) the canonical shape.
    The contents refine an abstract ordered association list. *)
From Coq Require Import List NArith ZArith Bool Arith Lia Sorted Permutation.
From PT Require Import Bits BitsThm Laws Machine Trie Views TrieWf Lookup Mutate Slots Retain Canon.
Import ListNotations.

Section H.
Variables (pfx V : Type).
Variables (peq contains : pfx -> pfx -> bool) (is_bit_set : pfx -> N -> bool)
          (plen : pfx -> N) (lcp : pfx -> pfx -> pfx) (pzero : pfx)
          (mcmp : pfx -> pfx -> comparison).
Variable bits : pfx -> list bool.
Variable ok : pfx -> Prop.
Hypothesis LAWS : prefix_laws pfx peq contains is_bit_set plen lcp pzero mcmp bits ok.

Notation tree := (tree pfx V).
Notation pmap := (pmap pfx V).
Notation wf_under := (wf_under pfx V bits ok).
Notation wf_root := (wf_root pfx V bits ok).
Notation key := (key pfx V bits).
Notation get := (Trie.get pfx V peq contains is_bit_set plen).
Notation insert := (Trie.insert pfx V peq contains is_bit_set plen lcp).
Notation vacant_insert := (Trie.vacant_insert pfx V peq contains is_bit_set plen lcp).
Notation occ_insert := (Trie.occ_insert pfx V peq contains is_bit_set plen).
Notation occ_remove := (Trie.occ_remove pfx V peq contains is_bit_set plen).
Notation update_value := (Trie.update_value pfx V peq contains is_bit_set plen).
Notation remove := (Trie.remove pfx V peq contains is_bit_set plen).
Notation remove_keep_tree := (Trie.remove_keep_tree pfx V peq contains is_bit_set plen).
Notation remove_children := (Trie.remove_children pfx V peq contains is_bit_set plen pzero).
Notation retain := (Trie.retain pfx V).
Notation clear := (Trie.clear pfx V pzero).
Notation empty := (Trie.empty pfx V pzero).
Notation from_list := (Trie.from_list pfx V peq contains is_bit_set plen lcp pzero).
Notation minv := (Slots.minv pfx V).
Notation cinv := (Slots.cinv pfx V).
Notation canonical := (Canon.canonical pfx V).
Notation canon_below := (Canon.canon_below pfx V).

(** The mutator alphabet.  Closures are real Coq functions: the theorems quantify over all of them. *)
Inductive op :=
| OInsert (q : pfx) (x : V)                      (* insert *)
| OEntryInsert (q : pfx) (x : V)                 (* entry(q).insert(x): occupied or vacant *)
| OOrInsert (q : pfx) (x : V)                    (* entry(q).or_insert*(x), VacantEntry::insert* *)
| OOccRemove (q : pfx)                           (* OccupiedEntry::remove on an occupied entry *)
| OUpdate (q : pfx) (g : V -> V)                 (* get_mut / and_modify / OccupiedEntry::get_mut *)
| ORemove (q : pfx)
| ORemoveKeepTree (q : pfx)
| ORemoveChildren (q : pfx)
| ORetain (f : nat -> pfx -> V -> option bool)   (* retain; [None] = the closure panics *)
| OClear
| OCollect (perm : list (pfx * V) -> list (pfx * V))   (* rebuild from own entries in another order *)
| OWrite (ws : list (N * V))                     (* writes through references of any mutable traversal *)
| OViewSet (pa : path) (x : V)                   (* TrieViewMut::set at the node reached by [pa] *)
| OViewRemove (pa : path).                       (* TrieViewMut::remove *)

Definition occupied (m : pmap) (q : pfx) : bool :=
  match get (root m) q with Some _ => true | None => false end.

Definition step (m : pmap) (o : op) : pmap :=
  match o with
  | OInsert q x => fst (insert m q x)
  | OEntryInsert q x => if occupied m q then fst (occ_insert m q x) else vacant_insert m q x
  | OOrInsert q x => if occupied m q then m else vacant_insert m q x
  | OOccRemove q => if occupied m q then fst (occ_remove m q) else m
  | OUpdate q g => update_value m q g
  | ORemove q => fst (remove m q)
  | ORemoveKeepTree q => fst (remove_keep_tree m q)
  | ORemoveChildren q => remove_children m q
  | ORetain f => fst (fst (retain f m))
  | OClear => clear m
  | OCollect perm => from_list (perm (entries (root m)))
  | OWrite ws => mkmap (write_ids (root m) ws) (al m)
  | OViewSet pa x => mkmap (fst (vm_set (root m) (mkvmut pfx pa None) x)) (al m)
  | OViewRemove pa => mkmap (fst (vm_remove (root m) (mkvmut pfx pa None))) (al m)
  end.

Definition run (ops : list op) : pmap := fold_left step ops empty.

(** the arguments of an operation are valid prefixes; [collect] really permutes *)
Definition op_ok (o : op) : Prop :=
  match o with
  | OInsert q _ | OEntryInsert q _ | OOrInsert q _ | OOccRemove q | OUpdate q _
  | ORemove q | ORemoveKeepTree q | ORemoveChildren q => ok q
  | OCollect perm => forall l, Permutation (perm l) l
  | _ => True
  end.

(* ---------------------------------------------------------------------------------------- *)
(** value-only operations keep the structure *)

Lemma write_ids_wf ws : forall b t, wf_under b t -> wf_under b (write_ids t ws).
Proof.
  intros b t. revert b. induction t as [|i p v l IHl r IHr]; intros b H; [exact I|].
  cbn [write_ids]. destruct H as [H0 [H1 [H2 H3]]]. cbn. repeat split; auto.
Qed.

Lemma set_tval_wf b t v : wf_under b t -> wf_under b (set_tval t v).
Proof. destruct t; cbn; tauto. Qed.

Lemma subst_wf pa : forall b t n,
  wf_under b t -> (forall b', wf_under b' (subtree t pa) -> wf_under b' n) -> wf_under b (subst t pa n).
Proof.
  induction pa as [|s pa IH]; intros b t n Hwf Hn; cbn [subst].
  - destruct t; simpl in *; apply (Hn b); exact Hwf.
  - destruct t as [|i p v l r]; [exact I|]. destruct Hwf as [H0 [H1 [H2 H3]]].
    destruct s; cbn; repeat split; auto; apply IH; auto.
Qed.

Lemma root_of_wf_root (t : tree) : wf_root t -> exists i p v l r, t = Node i p v l r /\ bits p = [].
Proof. destruct t as [|i p v l r]; [intros []|]. intros [E _]. exists i, p, v, l, r. auto. Qed.

Lemma write_ids_wf_root ws t : wf_root t -> wf_root (write_ids t ws).
Proof.
  intros H. destruct t as [|i p v l r]; [destruct H|]. destruct H as [E H]. split; [exact E|].
  apply (write_ids_wf ws [] (Node i p v l r) H).
Qed.

Lemma subst_set_wf_root pa v t : wf_root t -> wf_root (subst t pa (set_tval (subtree t pa) v)).
Proof.
  intros H. destruct t as [|i p v0 l r]; [destruct H|]. destruct H as [E H].
  assert (Hw : wf_under [] (subst (Node i p v0 l r) pa (set_tval (subtree (Node i p v0 l r) pa) v))).
  { apply subst_wf; [exact H|]. intros b'. apply set_tval_wf. }
  destruct pa as [|s pa]; cbn [subst subtree set_tval] in *.
  - split; [exact E | exact Hw].
  - destruct s; (split; [exact E | exact Hw]).
Qed.

(* ---------------------------------------------------------------------------------------- *)
(** * Every reachable state is well-formed and has a consistent arena *)

Lemma perm_keys_ok perm (l : list (pfx * V)) :
  (forall l, Permutation (perm l) l) -> (forall e, In e l -> ok (fst e)) -> forall e, In e (perm l) -> ok (fst e).
Proof. intros Hp Hl e He. apply Hl. eapply Permutation_in; [apply Hp | exact He]. Qed.

Lemma step_wf m o : op_ok o -> wf_root (root m) -> wf_root (root (step m o)).
Proof.
  intros Ho Hwf. destruct o; cbn [step op_ok] in *.
  - destruct (insert m q x) as [m' o] eqn:E. eapply insert_spec in E; eauto. cbn. tauto.
  - destruct (occupied m q) eqn:Oc.
    + unfold occupied in Oc. destruct (get (root m) q) as [y|] eqn:G; [|discriminate].
      destruct (occ_insert m q x) as [m' o] eqn:E. eapply occ_insert_spec in E; eauto. cbn. tauto.
    + eapply vacant_insert_spec; eauto.
  - destruct (occupied m q); [exact Hwf|]. eapply vacant_insert_spec; eauto.
  - destruct (occupied m q); [|exact Hwf].
    destruct (occ_remove m q) as [m' o] eqn:E. eapply occ_remove_spec in E; eauto. cbn. tauto.
  - eapply update_value_spec; eauto.
  - destruct (remove m q) as [m' o] eqn:E. eapply remove_spec in E; eauto. cbn. tauto.
  - destruct (remove_keep_tree m q) as [m' o] eqn:E. eapply remove_keep_tree_spec in E; eauto. cbn. tauto.
  - eapply remove_children_spec; eauto.
  - destruct (retain f m) as [[m' pn] calls] eqn:E. cbn. eapply retain_wf; eauto.
  - eapply clear_spec; eauto.
  - eapply from_list_spec; eauto. apply perm_keys_ok; [exact Ho|].
    intros e He. destruct (root m) as [|i p v l r] eqn:R; [destruct Hwf|]. destruct Hwf as [_ Hwf].
    eapply entries_ok; eauto.
  - cbn. apply write_ids_wf_root. exact Hwf.
  - cbn. apply subst_set_wf_root. exact Hwf.
  - cbn. apply subst_set_wf_root. exact Hwf.
Qed.

Ltac sv := try exact pzero; try exact lcp; try exact mcmp; try exact peq; try exact is_bit_set; try exact plen; try exact bits.
Ltac fin H := first [exact H | exact pzero | exact lcp | exact mcmp | exact peq | exact is_bit_set | exact plen | assumption | reflexivity].

Lemma step_minv m o : minv m -> minv (step m o).
Proof.
  intros H. destruct o; cbn [step].
  - apply insert_minv; fin H.
  - destruct (occupied m q); [apply occ_insert_minv | apply vacant_insert_minv]; fin H.
  - destruct (occupied m q); [exact H | apply vacant_insert_minv; fin H].
  - destruct (occupied m q); [apply occ_remove_minv; fin H | exact H].
  - apply update_value_minv; fin H.
  - apply remove_minv; fin H.
  - apply remove_keep_tree_minv; fin H.
  - apply remove_children_minv; fin H.
  - apply retain_minv; fin H.
  - apply clear_minv; fin H.
  - apply from_list_minv; fin H.
  - unfold Slots.minv, Slots.slots_ok in *. cbn [root al]. rewrite write_ids_ids. exact H.
  - unfold Slots.minv, Slots.slots_ok in *. cbn [root al vm_set mvirt fst mpath vm_tree]. rewrite subst_ids. exact H.
  - unfold Slots.minv, Slots.slots_ok in *. cbn [root al vm_remove mvirt fst mpath vm_tree]. rewrite subst_ids. exact H.
Qed.

Theorem reachable_wf ops : Forall op_ok ops -> wf_root (root (run ops)) /\ minv (run ops).
Proof.
  unfold run. assert (H0 : wf_root (root empty) /\ minv empty).
  { split; [eapply empty_spec; eauto | apply minv_empty]. }
  revert H0. generalize empty as m. induction ops as [|o ops IH]; intros m [Hw Hm] Hok; [split; assumption|].
  inversion Hok; subst. cbn [fold_left]. apply IH; [|assumption].
  split; [apply step_wf; assumption | apply step_minv; assumption].
Qed.

(* ---------------------------------------------------------------------------------------- *)
(** * len() = number of entries, outside the two operations that cannot reach the counter *)

Definition counts (o : op) : bool :=
  match o with OViewSet _ _ | OViewRemove _ => false | _ => true end.

Lemma step_cinv m o : counts o = true -> cinv m -> cinv (step m o).
Proof.
  intros Hc H. destruct o; cbn [step counts] in *; try discriminate.
  - apply insert_cinv; fin H.
  - destruct (occupied m q) eqn:Oc; unfold occupied in Oc.
    + apply occ_insert_cinv; try exact H; sv. destruct (get (root m) q); [discriminate | discriminate Oc].
    + apply vacant_insert_cinv; try exact H; sv. destruct (get (root m) q); [discriminate Oc | reflexivity].
  - destruct (occupied m q) eqn:Oc; unfold occupied in Oc; [exact H|].
    apply vacant_insert_cinv; try exact H; sv. destruct (get (root m) q); [discriminate Oc | reflexivity].
  - destruct (occupied m q); [apply occ_remove_cinv; fin H | exact H].
  - apply update_value_cinv; fin H.
  - apply remove_cinv; fin H.
  - apply remove_keep_tree_cinv; fin H.
  - apply remove_children_cinv; fin H.
  - apply retain_cinv; fin H.
  - apply clear_cinv; fin H.
  - apply from_list_cinv; fin H.
  - unfold Slots.cinv, Slots.nentries in *. cbn [root al]. rewrite write_ids_entries. exact H.
Qed.

Theorem reachable_count ops :
  forallb counts ops = true -> cinv (run ops).
Proof.
  unfold run. assert (H0 : cinv empty) by apply cinv_empty.
  revert H0. generalize empty as m. induction ops as [|o ops IH]; intros m Hm Hc; [exact Hm|].
  cbn [forallb] in Hc. apply andb_true_iff in Hc. destruct Hc as [Hc1 Hc2]. cbn [fold_left].
  apply IH; [apply step_cinv; assumption | exact Hc2].
Qed.

(** [clear] (and [remove_children] of the zero-length prefix) re-synchronise the counter *)
Theorem clear_resyncs m : cinv (clear m).
Proof. apply clear_cinv. Qed.

(* ---------------------------------------------------------------------------------------- *)
(** * Canonical shape over the insert / remove / retain / clear alphabet *)

Definition canon_op (o : op) : bool :=
  match o with
  | OInsert _ _ | OEntryInsert _ _ | OOrInsert _ _ | OUpdate _ _ | ORemove _ | ORetain _ | OClear
  | OCollect _ | OWrite _ => true
  | _ => false
  end.

(** canonicity only depends on the structure and the has-value flags *)
Lemma write_ids_is_node (t : tree) ws : is_node (write_ids t ws) = is_node t.
Proof. destruct t; reflexivity. Qed.

Lemma write_ids_canon_below ws : forall t, canon_below t -> canon_below (write_ids t ws).
Proof.
  induction t as [|i p v l IHl r IHr]; intros H; [exact I|].
  cbn [write_ids]. destruct H as [H1 [H2 H3]]. cbn [Canon.canon_below]. split; [|split; auto].
  intros Hn. rewrite !write_ids_is_node. apply H1.
  destruct v as [x|]; [|reflexivity]. destruct (assoc_id ws i); discriminate.
Qed.

Lemma write_ids_canonical ws t : canonical t -> canonical (write_ids t ws).
Proof.
  destruct t as [|i p v l r]; [intros []|]. intros [H1 H2]. cbn [write_ids Canon.canonical].
  split; apply write_ids_canon_below; assumption.
Qed.

Lemma modify_is_node (t : tree) q h : is_node (modify pfx V peq contains is_bit_set plen t q h) = is_node t.
Proof.
  destruct t as [|i p v l r]; [reflexivity|]. cbn [modify].
  destruct (peq p q); [destruct (h p v); reflexivity|].
  destruct (Trie.to_right pfx is_bit_set plen p q).
  - destruct r as [|ci cp cv cl cr]; [reflexivity|]. destruct (contains cp q); reflexivity.
  - destruct l as [|ci cp cv cl cr]; [reflexivity|]. destruct (contains cp q); reflexivity.
Qed.

(** a modification that keeps "has a value" at the node it reaches keeps canonicity *)
Notation get_node := (Trie.get_node pfx V peq contains is_bit_set plen).

Lemma modify_canon_below q h :
  forall t, (forall i p v, get_node t q = Some (i, p, v) -> is_none (snd (h p v)) = is_none v) ->
  canon_below t -> canon_below (modify pfx V peq contains is_bit_set plen t q h).
Proof.
  induction t as [|i p v l IHl r IHr]; intros Hh H; [exact I|].
  destruct H as [H1 [H2 H3]]. cbn [modify]. cbn [Trie.get_node] in Hh.
  destruct (peq p q).
  - specialize (Hh i p v eq_refl). destruct (h p v) as [p' v']. cbn [snd] in Hh. cbn [Canon.canon_below].
    split; [|split; assumption]. intros E. apply H1. subst v'. destruct v; [discriminate | reflexivity].
  - destruct (Trie.to_right pfx is_bit_set plen p q).
    + destruct r as [|ci cp cv cl cr]; [cbn [Canon.canon_below]; auto|].
      destruct (contains cp q); [|cbn [Canon.canon_below]; auto].
      unfold with_child. cbn [Canon.canon_below]. split; [|split; [assumption | apply IHr; assumption]].
      intros E. rewrite modify_is_node. apply H1. exact E.
    + destruct l as [|ci cp cv cl cr]; [cbn [Canon.canon_below]; auto|].
      destruct (contains cp q); [|cbn [Canon.canon_below]; auto].
      unfold with_child. cbn [Canon.canon_below]. split; [|split; [apply IHl; assumption | assumption]].
      intros E. rewrite modify_is_node. apply H1. exact E.
Qed.

Lemma modify_canonical q h t :
  (forall i p v, get_node t q = Some (i, p, v) -> is_none (snd (h p v)) = is_none v) ->
  canonical t -> canonical (modify pfx V peq contains is_bit_set plen t q h).
Proof.
  intros Hh. destruct t as [|i p v l r]; [intros []|]. intros [H1 H2]. cbn [modify]. cbn [Trie.get_node] in Hh.
  destruct (peq p q); [destruct (h p v); cbn; auto|].
  destruct (Trie.to_right pfx is_bit_set plen p q).
  - destruct r as [|ci cp cv cl cr]; [cbn; auto|]. destruct (contains cp q); [|cbn; auto].
    unfold with_child. cbn [Canon.canonical]. split; [assumption | apply modify_canon_below; assumption].
  - destruct l as [|ci cp cv cl cr]; [cbn; auto|]. destruct (contains cp q); [|cbn; auto].
    unfold with_child. cbn [Canon.canonical]. split; [apply modify_canon_below; assumption | assumption].
Qed.

Lemma step_canonical m o : canon_op o = true -> canonical (root m) -> canonical (root (step m o)).
Proof.
  intros Hc H. destruct o; cbn [step canon_op] in *; try discriminate.
  - apply insert_canonical; fin H.
  - destruct (occupied m q) eqn:Oc.
    + unfold Trie.occ_insert. cbn [fst root]. apply modify_canonical; [|exact H].
      intros i p v Hg. cbn [snd is_none]. unfold occupied, Trie.get in Oc. rewrite Hg in Oc.
      destruct v; [reflexivity | discriminate].
    + apply vacant_insert_canonical; fin H.
  - destruct (occupied m q); [exact H | apply vacant_insert_canonical; fin H].
  - unfold Trie.update_value. cbn [root]. apply modify_canonical; [|exact H].
    intros i p v _. cbn [snd]. destruct v; reflexivity.
  - apply remove_canonical; fin H.
  - apply retain_canonical_any; fin H.
  - apply clear_canonical; fin H.
  - apply from_list_canonical; fin H.
  - cbn [root]. apply write_ids_canonical; fin H.
Qed.

Theorem reachable_canonical ops : forallb canon_op ops = true -> canonical (root (run ops)).
Proof.
  unfold run. assert (H0 : canonical (root empty)) by (apply empty_canonical; fin I).
  revert H0. generalize empty as m. induction ops as [|o ops IH]; intros m Hm Hc; [exact Hm|].
  cbn [forallb] in Hc. apply andb_true_iff in Hc. destruct Hc as [Hc1 Hc2]. cbn [fold_left].
  apply IH; [apply step_canonical; assumption | exact Hc2].
Qed.

(** the state after any prefix of a history is reachable too: the invariants hold after every step *)
Lemma run_app ops1 ops2 : run (ops1 ++ ops2) = fold_left step ops2 (run ops1).
Proof. unfold run. apply fold_left_app. Qed.

End H.
