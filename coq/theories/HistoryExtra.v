(** Histories, part 2: what [History.v] does not state yet.

    - the DRIFT of the cached counter over the FULL alphabet: [count = #entries + drift], where the
      drift moves only at the two view operations that cannot reach the counter and is reset by
      [clear] / [remove_children] of the zero-length prefix / [collect];
    - the depth bound of a well-formed trie and well-formedness read along view paths;
    - the shape of a canonical state is that of [from_list] of ANY list with the same key set;
      [remove] reverts [insert] on reachable states (hypotheses of [Canon.remove_reverts_insert]
      discharged);
    - per-operation structure preservation of the value-only operations;
    - the high-water theorem of the arena length over [History.op] (including [remove_children],
      [retain], [clear], [collect], Entry API and view operations);
    - an empty canonical tree is just the root; [nnodes <= 2 * #entries + 1] for canonical trees. *)
From Coq Require Import List NArith ZArith Bool Arith Lia ZifyN ZifyBool ZifyNat Sorted Permutation.
From PT Require Import Bits BitsThm Laws Machine Trie Views TrieWf Lookup Mutate Slots Retain Canon
                       MutTrav History.
Import ListNotations.

Section HX.
Variables (pfx V : Type).
Variables (peq contains : pfx -> pfx -> bool) (is_bit_set : pfx -> N -> bool)
          (plen : pfx -> N) (lcp : pfx -> pfx -> pfx) (pzero : pfx)
          (mcmp : pfx -> pfx -> comparison).
Variable bits : pfx -> list bool.
Variable ok : pfx -> Prop.
Hypothesis LAWS : prefix_laws pfx peq contains is_bit_set plen lcp pzero mcmp bits ok.

Notation tree := (Trie.tree pfx V).
Notation pmap := (Trie.pmap pfx V).
Notation wf_under := (TrieWf.wf_under pfx V bits ok).
Notation wf_root := (TrieWf.wf_root pfx V bits ok).
Notation key := (TrieWf.key pfx V bits).
Notation get := (Trie.get pfx V peq contains is_bit_set plen).
Notation get_node := (Trie.get_node pfx V peq contains is_bit_set plen).
Notation modify := (Trie.modify pfx V peq contains is_bit_set plen).
Notation insert := (Trie.insert pfx V peq contains is_bit_set plen lcp).
Notation vacant_insert := (Trie.vacant_insert pfx V peq contains is_bit_set plen lcp).
Notation occ_insert := (Trie.occ_insert pfx V peq contains is_bit_set plen).
Notation occ_remove := (Trie.occ_remove pfx V peq contains is_bit_set plen).
Notation update_value := (Trie.update_value pfx V peq contains is_bit_set plen).
Notation remove := (Trie.remove pfx V peq contains is_bit_set plen).
Notation remove_keep_tree := (Trie.remove_keep_tree pfx V peq contains is_bit_set plen).
Notation remove_children := (Trie.remove_children pfx V peq contains is_bit_set plen pzero).
Notation retain := (Trie.retain pfx V).
Notation clear := (Trie.clear pfx V pzero).
Notation empty := (Trie.empty pfx V pzero).
Notation from_list := (Trie.from_list pfx V peq contains is_bit_set plen lcp pzero).
Notation minv := (Slots.minv pfx V).
Notation cinv := (Slots.cinv pfx V).
Notation nnodes := (Slots.nnodes pfx V).
Notation nentries := (Slots.nentries pfx V).
Notation ids := (Slots.ids pfx V).
Notation canonical := (Canon.canonical pfx V).
Notation canon_below := (Canon.canon_below pfx V).
Notation shape_of := (Canon.shape_of pfx V bits).
Notation op := (History.op pfx V).
Notation step := (History.step pfx V peq contains is_bit_set plen lcp pzero).
Notation run := (History.run pfx V peq contains is_bit_set plen lcp pzero).
Notation op_ok := (History.op_ok pfx V ok).
Notation occupied := (History.occupied pfx V peq contains is_bit_set plen).
Notation counts := (History.counts pfx V).
Notation canon_op := (History.canon_op pfx V).
Notation skel := (Mutate.skel pfx V).
Notation skelb := (Mutate.skelb pfx V bits).

Ltac fin H := first [exact H | exact pzero | exact lcp | exact mcmp | exact peq | exact is_bit_set
                    | exact plen | exact contains | assumption | reflexivity].

(* ---------------------------------------------------------------------------------------- *)
(** * Running a history from an arbitrary state; prefixes of a history *)

Definition run_from (m : pmap) (ops : list op) : pmap := fold_left step ops m.

Lemma run_run_from ops : run ops = run_from empty ops.
Proof. reflexivity. Qed.

Lemma run_from_app m ops1 ops2 : run_from m (ops1 ++ ops2) = run_from (run_from m ops1) ops2.
Proof. unfold run_from. apply fold_left_app. Qed.

Lemma run_snoc ops o : run (ops ++ [o]) = step (run ops) o.
Proof. unfold History.run. rewrite fold_left_app. reflexivity. Qed.

Lemma Forall_firstn {A} (P : A -> Prop) k (l : list A) : Forall P l -> Forall P (firstn k l).
Proof.
  revert l. induction k as [|k IH]; intros [|a l] H; cbn [firstn]; try constructor.
  - inversion H; assumption.
  - apply IH. inversion H; assumption.
Qed.

Lemma forallb_firstn {A} (f : A -> bool) k (l : list A) : forallb f l = true -> forallb f (firstn k l) = true.
Proof.
  revert l. induction k as [|k IH]; intros [|a l] H; cbn [firstn forallb] in *; try reflexivity.
  apply andb_true_iff in H. destruct H as [H1 H2]. rewrite H1, (IH l H2). reflexivity.
Qed.

Lemma run_from_minv ops : forall m, minv m -> minv (run_from m ops).
Proof.
  induction ops as [|o ops IH]; intros m M; [exact M|]. cbn [run_from fold_left].
  apply IH. apply step_minv. exact M.
Qed.

(** slot accounting needs no hypothesis on the arguments at all *)
Theorem reachable_minv ops : minv (run ops).
Proof. rewrite run_run_from. apply run_from_minv. apply minv_empty. Qed.

(* ---------------------------------------------------------------------------------------- *)
(** * The drift of the cached counter over the full alphabet *)

(** [count - #entries] *)
Definition gap (m : pmap) : Z := (count (al m) - nentries (root m))%Z.

(** the operations that rebuild the map from scratch (statically recognisable) *)
Definition is_reset (o : op) : bool :=
  match o with
  | OClear _ _ | OCollect _ _ _ => true
  | ORemoveChildren _ _ q => (plen q =? 0)%N
  | _ => false
  end.

(** how one step moves the gap: [TrieViewMut::set] on an existing value-less node creates an
    entry the counter does not see (-1); [TrieViewMut::remove] on a stored entry removes an
    entry the counter does not see (+1); the resetting operations re-synchronise; nothing else
    moves it *)
Definition drift_step (m : pmap) (o : op) (d : Z) : Z :=
  match o with
  | OViewSet _ _ pa _ =>
    let n := subtree (root m) pa in
    if is_node n && is_none (tval n) then (d - 1)%Z else d
  | OViewRemove _ _ pa =>
    if is_some (tval (subtree (root m) pa)) then (d + 1)%Z else d
  | _ => if is_reset o then 0%Z else d
  end.

(** the accumulated drift of a history started in [m] with drift [d] *)
Fixpoint drift (ops : list op) (m : pmap) (d : Z) : Z :=
  match ops with
  | [] => d
  | o :: ops' => drift ops' (step m o) (drift_step m o d)
  end.

Lemma nentries_app_node i p (v : option V) (l r : tree) :
  nentries (Node i p v l r) = (Z.of_nat (ownn v) + nentries l + nentries r)%Z.
Proof. unfold Slots.nentries. cbn [entries]. rewrite !app_length. destruct v; cbn [length ownn]; lia. Qed.

Lemma subst_set_entries pa : forall (t : tree) (v : option V),
  nentries (subst t pa (set_tval (subtree t pa) v)) =
  (nentries t + (if is_node (subtree t pa) then Z.of_nat (ownn v) - Z.of_nat (ownn (tval (subtree t pa))) else 0))%Z.
Proof.
  induction pa as [|b pa IH]; intros t v.
  - destruct t as [|i p w l r]; cbn [subst subtree set_tval is_node tval]; [lia|].
    rewrite !nentries_app_node. lia.
  - destruct t as [|i p w l r]; [cbn; lia|]. cbn [subst subtree].
    destruct b; rewrite !nentries_app_node, IH; lia.
Qed.

Lemma occupied_get m q : occupied m q = false -> get (root m) q = None.
Proof. unfold History.occupied. destruct (get (root m) q); [discriminate | reflexivity]. Qed.
Lemma occupied_get' m q : occupied m q = true -> get (root m) q <> None.
Proof. unfold History.occupied. destruct (get (root m) q); [discriminate | discriminate]. Qed.

Lemma shrinks_gap t a t' a' : Slots.shrinks pfx V t a t' a' ->
  (count a' - nentries t' = count a - nentries t)%Z.
Proof. intros (_ & _ & C & _). lia. Qed.

Lemma vacant_insert_gap m q x : get (root m) q = None -> gap (vacant_insert m q x) = gap m.
Proof.
  intros G. unfold gap, Trie.vacant_insert.
  destruct (Trie.vins pfx V peq contains is_bit_set plen lcp (root m) q x (al m)) as [t a] eqn:H.
  cbn [root al]. pose proof (vins_count pfx V peq contains is_bit_set plen lcp pzero _ _ _ _ _ _ H G). lia.
Qed.

Lemma from_list_gap l : gap (from_list l) = 0%Z.
Proof. unfold gap. pose proof (from_list_cinv pfx V peq contains is_bit_set plen lcp pzero l) as C.
  unfold Slots.cinv in C. lia. Qed.

(** one step, any operation, any state: no invariant is needed *)
Theorem step_gap m o : gap (step m o) = drift_step m o (gap m).
Proof.
  destruct o; cbn [History.step drift_step is_reset].
  - (* insert *) unfold gap, Trie.insert.
    destruct (Trie.ins pfx V peq contains is_bit_set plen lcp (root m) q x (al m)) as [[t o] a] eqn:H.
    cbn [fst root al]. pose proof (ins_count pfx V peq contains is_bit_set plen lcp pzero _ _ _ _ _ _ _ H). lia.
  - destruct (occupied m q) eqn:Oc.
    + unfold gap, Trie.occ_insert. cbn [fst root al].
      rewrite (occ_insert_entries pfx V peq contains is_bit_set plen lcp pzero); [reflexivity|].
      apply occupied_get'. exact Oc.
    + apply vacant_insert_gap. apply occupied_get. exact Oc.
  - destruct (occupied m q) eqn:Oc; [reflexivity|]. apply vacant_insert_gap. apply occupied_get. exact Oc.
  - destruct (occupied m q); [|reflexivity]. unfold gap, Trie.occ_remove. cbn [fst root al].
    pose proof (take_value_count pfx V peq contains is_bit_set plen lcp pzero (root m) q (al m)). lia.
  - unfold gap, Trie.update_value, Slots.nentries. cbn [root al].
    pose proof (modify_entries pfx V peq contains is_bit_set plen lcp pzero (root m) q (fun p v => (p, option_map g v))) as M.
    destruct (get_node (root m) q) as [[[j pj] vj]|].
    + destruct vj; cbn [snd option_map ownn] in M; lia.
    + rewrite M. reflexivity.
  - unfold gap. apply shrinks_gap. apply remove_shrinks; fin I.
  - unfold gap, Trie.remove_keep_tree. cbn [fst root al].
    pose proof (take_value_count pfx V peq contains is_bit_set plen lcp pzero (root m) q (al m)). lia.
  - unfold Trie.remove_children. destruct (plen q =? 0)%N; [reflexivity|].
    destruct (Trie.rc pfx V peq contains is_bit_set plen (root m) q (al m)) as [t a] eqn:H.
    unfold gap. cbn [root al]. apply shrinks_gap. eapply rc_acct; [exact lcp | exact pzero | exact H].
  - unfold gap. apply shrinks_gap. apply retain_shrinks; fin I.
  - reflexivity.
  - apply from_list_gap.
  - unfold gap, Slots.nentries. cbn [root al]. rewrite write_ids_entries. reflexivity.
  - unfold gap. cbn [root al vm_set mvirt fst mpath vm_tree]. rewrite subst_set_entries.
    destruct (subtree (root m) pa) as [|i p v l r]; cbn [is_node tval is_none andb ownn]; [lia|].
    destruct v; cbn [is_none ownn]; lia.
  - unfold gap. cbn [root al vm_remove mvirt fst mpath vm_tree]. rewrite subst_set_entries.
    destruct (subtree (root m) pa) as [|i p v l r]; cbn [is_node tval is_some is_none negb ownn]; [lia|].
    destruct v; cbn [is_some is_none negb ownn]; lia.
Qed.

Theorem run_from_gap ops : forall m, gap (run_from m ops) = drift ops m (gap m).
Proof.
  induction ops as [|o ops IH]; intros m; [reflexivity|]. cbn [run_from fold_left drift].
  rewrite <- step_gap. apply IH.
Qed.

(** MAIN (drift): after ANY history over the full alphabet,
    [len = #entries + (value removals through views) - (value insertions through views)],
    counted since the last resetting operation *)
Theorem reachable_drift ops :
  len (run ops) = (Z.of_nat (length (entries (root (run ops)))) + drift ops empty 0)%Z.
Proof.
  pose proof (run_from_gap ops empty) as G. rewrite <- run_run_from in G.
  change (gap empty) with 0%Z in G. unfold gap, Slots.nentries in G. unfold len. lia.
Qed.

(** without the two view-counter operations there is no drift *)
Lemma drift_counts ops : forallb counts ops = true -> forall m, drift ops m 0 = 0%Z.
Proof.
  induction ops as [|o ops IH]; intros Hc m; [reflexivity|]. cbn [forallb] in Hc.
  apply andb_true_iff in Hc. destruct Hc as [H1 H2]. cbn [drift].
  replace (drift_step m o 0) with 0%Z; [apply IH; exact H2|].
  destruct o; cbn [drift_step History.counts] in *; try discriminate; destruct (is_reset _); reflexivity.
Qed.

(** a resetting operation forgets the drift accumulated before it *)
Lemma drift_app ops1 ops2 m d : drift (ops1 ++ ops2) m d = drift ops2 (run_from m ops1) (drift ops1 m d).
Proof.
  revert m d. induction ops1 as [|o ops1 IH]; intros m d; [reflexivity|].
  cbn [app drift run_from fold_left]. apply IH.
Qed.

Theorem drift_reset ops1 o ops2 : is_reset o = true ->
  drift (ops1 ++ o :: ops2) empty 0 = drift ops2 (run (ops1 ++ [o])) 0.
Proof.
  intros R. rewrite drift_app. cbn [drift]. rewrite run_snoc. rewrite <- run_run_from.
  replace (drift_step (run ops1) o (drift ops1 empty 0)) with 0%Z; [reflexivity|].
  destruct o; cbn [drift_step is_reset] in *; try discriminate; try reflexivity. rewrite R. reflexivity.
Qed.

(** [len] / [is_empty] against the entry list, given the counter invariant *)
Lemma cinv_len m : cinv m -> len m = Z.of_nat (length (entries (root m))).
Proof. unfold Slots.cinv, Slots.nentries, len. auto. Qed.

Lemma cinv_is_empty m : cinv m -> (is_empty m = true <-> entries (root m) = []).
Proof.
  unfold Slots.cinv, Slots.nentries, is_empty. intros ->. rewrite Z.eqb_eq. split.
  - intros H. destruct (entries (root m)); [reflexivity | cbn [length] in H; lia].
  - intros ->. reflexivity.
Qed.


(* ---------------------------------------------------------------------------------------- *)
(** * Well-formedness read along view paths; the depth bound *)

(** the node reached by a path ([TrieViewMut] navigation: [left]/[right] append a bit) *)
Lemma wf_subtree pa : forall b (t : tree) i p v l r,
  wf_under b t -> subtree t pa = Node i p v l r ->
  ok p /\ length b + length pa <= length (bits p) /\
  wf_under (bits p ++ [false]) l /\ wf_under (bits p ++ [true]) r.
Proof.
  induction pa as [|s pa IH]; intros b t i p v l r Hwf Hs.
  - destruct t as [|i0 p0 v0 l0 r0]; cbn [subtree] in Hs; [discriminate|]. inversion Hs; subst.
    destruct Hwf as [H0 [H1 [H2 H3]]]. apply prefix_of_len in H1. cbn [length]. repeat split; auto; lia.
  - destruct t as [|i0 p0 v0 l0 r0]; cbn [subtree] in Hs; [discriminate|].
    destruct Hwf as [H0 [H1 [H2 H3]]]. apply prefix_of_len in H1.
    assert (Hc : wf_under (bits p0 ++ [s]) (if s then r0 else l0)) by (destruct s; assumption).
    destruct (IH _ _ _ _ _ _ _ Hc Hs) as [A [B [C D]]]. rewrite app_length in B. cbn [length] in *.
    repeat split; auto; lia.
Qed.

(** every edge seen through views: the child's key extends the parent's key by the branch bit
    (hence: strictly longer, covered by the parent, on the side selected by its next bit) *)
Theorem wf_edges (t : tree) : wf_root t ->
  (exists i p v l r, t = Node i p v l r /\ bits p = []) /\
  forall pa i p v l r, subtree t pa = Node i p v l r ->
    ok p /\ length pa <= length (bits p) /\
    forall s ci cp cv cl cr, TrieWf.child_of pfx V l r s = Node ci cp cv cl cr ->
      ok cp /\ prefix_of (bits p ++ [s]) (bits cp).
Proof.
  intros Hr. split; [apply (root_of_wf_root pfx V bits ok); exact Hr|].
  intros pa i p v l r Hs. destruct t as [|i0 p0 v0 l0 r0]; [destruct Hr|]. destruct Hr as [E Hwf].
  destruct (wf_subtree pa [] _ _ _ _ _ _ Hwf Hs) as [A [B [C D]]]. cbn [length] in B.
  split; [exact A|]. split; [lia|]. intros s ci cp cv cl cr Hc.
  assert (Hw : wf_under (bits p ++ [s]) (Node ci cp cv cl cr)) by (rewrite <- Hc; destruct s; assumption).
  destruct Hw as [K1 [K2 _]]. split; assumption.
Qed.

Lemma edge_words (a c : list bool) s : prefix_of (a ++ [s]) c ->
  length a < length c /\ prefix_of a c /\ nth (length a) c false = s.
Proof.
  intros H. split; [|split].
  - apply prefix_of_len in H. rewrite app_length in H. cbn [length] in H. lia.
  - eapply below_prefix. exact H.
  - apply ext_bit. exact H.
Qed.

(** the number of nodes on the longest root-to-leaf path *)
Fixpoint depth (t : tree) : nat :=
  match t with Leaf => 0 | Node _ _ _ l r => S (Nat.max (depth l) (depth r)) end.

Lemma wf_depth (W : nat) : (forall p, ok p -> length (bits p) <= W) ->
  forall (t : tree) b, wf_under b t -> depth t <= S W - length b.
Proof.
  intros HW. induction t as [|i p v l IHl r IHr]; intros b Hwf; cbn [depth]; [lia|].
  destruct Hwf as [H0 [H1 [H2 H3]]]. apply prefix_of_len in H1. pose proof (HW p H0) as Hp.
  specialize (IHl _ H2). specialize (IHr _ H3). rewrite app_length in IHl, IHr. cbn [length] in *. lia.
Qed.

(** MAIN (depth): in a well-formed map over keys of at most [W] bits every path has at most
    [W + 1] nodes *)
Theorem wf_root_depth (W : nat) (t : tree) :
  (forall p, ok p -> length (bits p) <= W) -> wf_root t -> depth t <= W + 1.
Proof.
  intros HW Hr. destruct t as [|i p v l r]; [destruct Hr|]. destruct Hr as [_ Hwf].
  pose proof (wf_depth W HW _ _ Hwf) as D. cbn [length] in D. lia.
Qed.

(** ... and every node is reached by a path of at most [W] edges *)
Theorem wf_root_path_len (W : nat) (t : tree) pa i p v l r :
  (forall p, ok p -> length (bits p) <= W) -> wf_root t -> subtree t pa = Node i p v l r -> length pa <= W.
Proof.
  intros HW Hr Hs. destruct (proj2 (wf_edges t Hr) _ _ _ _ _ _ Hs) as [A [B _]]. specialize (HW p A). lia.
Qed.

(* ---------------------------------------------------------------------------------------- *)
(** * Canonical states have the shape of a freshly built map *)

Lemma last_with_key (l : list (pfx * V)) : forall e, In e l ->
  exists e' l1 l2, l = l1 ++ e' :: l2 /\ key e' = key e /\ forall e'', In e'' l2 -> key e'' <> key e'.
Proof.
  induction l as [|a l IH]; intros e He; [destruct He|].
  destruct (Exists_dec (fun e'' => key e'' = key e) l
              (fun x => list_eq_dec Bool.bool_dec (key x) (key e))) as [Hex|Hno].
  - apply Exists_exists in Hex. destruct Hex as [e2 [H2 K2]].
    destruct (IH e2 H2) as [e' [l1 [l2 [E [K H]]]]]. exists e', (a :: l1), l2.
    split; [rewrite E; reflexivity|]. split; [congruence | exact H].
  - assert (Hall : forall e'', In e'' l -> key e'' <> key e).
    { intros e'' Hi K. apply Hno. apply Exists_exists. exists e''. split; assumption. }
    destruct He as [->|He]; [|exfalso; exact (Hall e He eq_refl)].
    exists e, [], l. split; [reflexivity|]. split; [reflexivity | exact Hall].
Qed.

(** the key set of [from_list l] is the key set of [l] *)
Lemma from_list_keys l : (forall e, In e l -> ok (fst e)) ->
  wf_root (root (from_list l)) /\
  forall k, (exists e, In e (entries (root (from_list l))) /\ key e = k) <-> (exists e, In e l /\ key e = k).
Proof.
  intros Hok. destruct (from_list_spec pfx V _ _ _ _ _ _ _ _ _ LAWS l Hok) as [W S].
  split; [exact W|]. intros k. split.
  - intros [e [He Hk]]. apply S in He. destruct He as [l1 [l2 [E _]]]. exists e. split; [|exact Hk].
    rewrite E. apply in_or_app. right. left. reflexivity.
  - intros [e [He Hk]]. destruct (last_with_key l e He) as [e' [l1 [l2 [E [K H]]]]].
    exists e'. split; [|congruence]. apply S. exists l1, l2. split; assumption.
Qed.

(** MAIN (shape): a well-formed canonical tree has the shape of the map built by inserting, in
    ANY order (with any values, repetitions allowed), any list with the same key set *)
Theorem canonical_shape_from_list (t : tree) l :
  wf_root t -> canonical t -> (forall e, In e l -> ok (fst e)) ->
  (forall k, (exists e, In e (entries t) /\ key e = k) <-> (exists e, In e l /\ key e = k)) ->
  shape_of t = shape_of (root (from_list l)).
Proof.
  intros Hr Hc Hok HK. destruct (from_list_keys l Hok) as [W S].
  apply (canonical_unique pfx V bits ok); try assumption.
  - apply from_list_canonical.
  - intros k. rewrite HK, S. reflexivity.
Qed.

Lemma wf_root_entries_ok (t : tree) e : wf_root t -> In e (entries t) -> ok (fst e).
Proof.
  intros Hr He. destruct t as [|i p v l r]; [destruct Hr|]. destruct Hr as [_ Hwf].
  eapply entries_ok; eauto.
Qed.

Corollary canonical_shape_rebuild (t : tree) l :
  wf_root t -> canonical t -> Permutation l (entries t) ->
  shape_of t = shape_of (root (from_list l)).
Proof.
  intros Hr Hc HP. apply canonical_shape_from_list; try assumption.
  - intros e He. eapply wf_root_entries_ok; [exact Hr|]. eapply Permutation_in; eassumption.
  - intros k. split; intros [e [He Hk]]; exists e; (split; [|exact Hk]).
    + eapply Permutation_in; [apply Permutation_sym; exact HP | exact He].
    + eapply Permutation_in; eassumption.
Qed.

(** MAIN (revert): [remove] exactly reverts the [insert] of a key that was not stored: same
    shape, same entries *)
Theorem remove_reverts_insert_wf (m : pmap) q x :
  wf_root (root m) -> canonical (root m) -> ok q ->
  (~ exists e, In e (entries (root m)) /\ key e = bits q) ->
  let m2 := fst (remove (fst (insert m q x)) q) in
  wf_root (root m2) /\ canonical (root m2) /\
  shape_of (root m2) = shape_of (root m) /\ entries (root m2) = entries (root m).
Proof.
  intros Hr Hc Hq Hfresh. cbv zeta.
  destruct (insert m q x) as [m1 o1] eqn:I. destruct (insert_spec pfx V _ _ _ _ _ _ _ _ _ LAWS m q x m1 o1 Hr Hq I) as [R1 [E1 _]].
  cbn [fst]. destruct (remove m1 q) as [m2 o2] eqn:R.
  destruct (remove_spec pfx V _ _ _ _ _ _ _ _ _ LAWS m1 q m2 o2 R1 Hq R) as [R2 [E2 _]]. cbn [fst].
  assert (C1 : canonical (root m1)).
  { replace m1 with (fst (insert m q x)) by (rewrite I; reflexivity). apply insert_canonical; fin Hc. }
  assert (C2 : canonical (root m2)).
  { replace m2 with (fst (remove m1 q)) by (rewrite R; reflexivity). apply remove_canonical; fin C1. }
  assert (Hmem : forall e, In e (entries (root m2)) <-> In e (entries (root m))).
  { intros e. rewrite E2, E1. split.
    - intros [[->|[He _]] Hne]; [exfalso; apply Hne; reflexivity | exact He].
    - intros He. assert (Hne : key e <> bits q) by (intros K; apply Hfresh; exists e; split; assumption).
      split; [right; split; assumption | exact Hne]. }
  split; [exact R2|]. split; [exact C2|]. split.
  - apply (canonical_unique pfx V bits ok); try assumption.
    intros k. split; intros [e [He Hk]]; exists e; (split; [apply Hmem; exact He | exact Hk]).
  - apply (entries_ext pfx V pzero bits ok); [exact R2 | | exact Hmem].
    apply (wf_root_sorted pfx V pzero bits ok). exact Hr.
Qed.

(* ---------------------------------------------------------------------------------------- *)
(** * Value-only operations keep the structure *)

Lemma shape_is_skel (t : tree) : MutTrav.shape pfx V t = skel t.
Proof. induction t as [|i p v l IHl r IHr]; cbn; [reflexivity|]. rewrite IHl, IHr. reflexivity. Qed.

Lemma write_ids_skel' (t : tree) ws : skel (write_ids t ws) = skel t.
Proof.
  rewrite <- !shape_is_skel. apply (MutTrav.skel_shape pfx V). apply (MutTrav.write_ids_skel pfx V).
Qed.

Lemma subst_set_skel (t : tree) pa v : skel (subst t pa (set_tval (subtree t pa) v)) = skel t.
Proof. rewrite <- !shape_is_skel. apply (MutTrav.subst_set_tval_shape pfx V). Qed.

(** the operations that only touch values: [remove_keep_tree], [OccupiedEntry::remove],
    [get_mut]/[and_modify], writes through mutable traversals, [TrieViewMut::set]/[::remove],
    and the Entry API on an occupied entry *)
Definition value_op (m : pmap) (o : op) : bool :=
  match o with
  | OOccRemove _ _ _ | OUpdate _ _ _ _ | ORemoveKeepTree _ _ _ | OWrite _ _ _
  | OViewSet _ _ _ _ | OViewRemove _ _ _ => true
  | OEntryInsert _ _ q _ | OOrInsert _ _ q _ => occupied m q
  | _ => false
  end.
Definition replaces_prefix (o : op) : bool :=
  match o with OEntryInsert _ _ _ _ => true | _ => false end.

(** slots, stored prefixes (host bits included) and structure are untouched; no hypothesis *)
Theorem step_value_skel m o :
  value_op m o = true -> replaces_prefix o = false -> skel (root (step m o)) = skel (root m).
Proof.
  intros Hv Hp. destruct o; cbn [value_op replaces_prefix History.step] in *; try discriminate.
  - rewrite Hv. reflexivity.
  - destruct (occupied m q); [|reflexivity]. unfold Trie.occ_remove. cbn [fst root].
    apply skel_modify. reflexivity.
  - unfold Trie.update_value. cbn [root]. apply skel_modify. reflexivity.
  - unfold Trie.remove_keep_tree. cbn [fst root]. apply skel_modify. reflexivity.
  - cbn [root]. apply write_ids_skel'.
  - cbn [root vm_set mvirt fst mpath vm_tree]. apply subst_set_skel.
  - cbn [root vm_remove mvirt fst mpath vm_tree]. apply subst_set_skel.
Qed.

(** [OccupiedEntry::insert] stores the caller's prefix (same key, possibly other host bits):
    slots, KEYS and structure are untouched *)
Theorem step_value_skelb m o :
  wf_root (root m) -> op_ok o -> value_op m o = true -> skelb (root (step m o)) = skelb (root m).
Proof.
  intros Hr Ho Hv. destruct (replaces_prefix o) eqn:Hp.
  - destruct o; cbn [replaces_prefix] in Hp; try discriminate. cbn [value_op History.step History.op_ok] in *.
    rewrite Hv. unfold Trie.occ_insert. cbn [fst root].
    destruct (root m) as [|i p v l r] eqn:Rm; [destruct Hr|]. destruct Hr as [_ Hwf].
    eapply (skelb_modify pfx V _ _ _ _ _ _ _ _ _ LAWS); [exact Hwf | exact Ho|].
    apply keeps_key_put. exact Ho.
  - apply skel_skelb. apply step_value_skel; assumption.
Qed.

(* ---------------------------------------------------------------------------------------- *)
(** * The arena length is a high-water mark, over the full alphabet *)

Lemma insert_free_nil (m : pmap) q x : free (al m) = [] -> free (al (fst (insert m q x))) = [].
Proof.
  unfold Trie.insert. destruct (Trie.ins pfx V peq contains is_bit_set plen lcp (root m) q x (al m)) as [[t o] a] eqn:H.
  cbn [fst al]. destruct (ins_acct pfx V peq contains is_bit_set plen lcp pzero _ _ _ _ _ _ _ H) as (_ & _ & (_ & _ & G)).
  exact G.
Qed.

Lemma from_list_free l : free (al (from_list l)) = [].
Proof.
  unfold Trie.from_list. assert (H0 : free (al empty) = []) by reflexivity. revert H0. generalize empty as m.
  induction l as [|e l IH]; intros m H0; cbn [fold_left]; [exact H0|]. apply IH. apply insert_free_nil. exact H0.
Qed.

(** a freshly collected map has no free slot *)
Lemma from_list_alen l : alen (al (from_list l)) = nnodes (root (from_list l)).
Proof.
  destruct (alen_bounded pfx V peq contains is_bit_set plen lcp pzero (from_list l)) as [_ E];
    [apply from_list_minv|]. rewrite from_list_free in E. cbn [length] in E. lia.
Qed.

(** one step: the resetting operations shrink the arena to the nodes of the new map; every other
    operation leaves the length alone unless more nodes are alive than ever before *)
Theorem step_alen m o : minv m ->
  alen (al (step m o)) =
  if is_reset o then nnodes (root (step m o)) else N.max (alen (al m)) (nnodes (root (step m o))).
Proof.
  intros M.
  assert (B : (nnodes (root (step m o)) <= alen (al (step m o)))%N).
  { apply (alen_bounded pfx V peq contains is_bit_set plen lcp pzero). apply step_minv. exact M. }
  assert (Keep : alen (al (step m o)) = alen (al m) -> is_reset o = false ->
                 alen (al (step m o)) = if is_reset o then nnodes (root (step m o))
                                        else N.max (alen (al m)) (nnodes (root (step m o)))).
  { intros E R. rewrite R. lia. }
  destruct o; cbn [is_reset]; cbn [is_reset] in Keep.
  - cbn [History.step]. apply insert_alen; fin M.
  - cbn [History.step] in *. destruct (occupied m q).
    + apply Keep; reflexivity.
    + apply vacant_insert_alen; fin M.
  - cbn [History.step] in *. destruct (occupied m q).
    + apply Keep; reflexivity.
    + apply vacant_insert_alen; fin M.
  - apply Keep; [|reflexivity]. cbn [History.step]. destruct (occupied m q); [|reflexivity].
    apply occ_remove_alen; fin M.
  - apply Keep; reflexivity.
  - apply Keep; [|reflexivity]. cbn [History.step]. apply remove_alen; fin M.
  - apply Keep; [|reflexivity]. cbn [History.step]. apply remove_keep_tree_alen; fin M.
  - destruct (plen q =? 0)%N eqn:Z.
    + cbn [History.step]. unfold Trie.remove_children. rewrite Z. reflexivity.
    + apply Keep; [|reflexivity]. cbn [History.step].
      rewrite (remove_children_alen pfx V peq contains is_bit_set plen lcp pzero), Z. reflexivity.
  - apply Keep; [|reflexivity]. cbn [History.step]. apply retain_alen; fin M.
  - reflexivity.
  - cbn [History.step]. apply from_list_alen.
  - apply Keep; reflexivity.
  - apply Keep; reflexivity.
  - apply Keep; reflexivity.
Qed.

(** the largest number of nodes of any state visited by the history [ops] started in [m] *)
Fixpoint hpeak (ops : list op) (m : pmap) : N :=
  match ops with
  | [] => nnodes (root m)
  | o :: ops' => N.max (nnodes (root m)) (hpeak ops' (step m o))
  end.

Lemma hpeak_ge ops m : (nnodes (root m) <= hpeak ops m)%N.
Proof. destruct ops; cbn [hpeak]; lia. Qed.

(** MAIN (high water): without a resetting operation the arena length is exactly the largest
    number of nodes alive at one time *)
Theorem high_water_noreset ops : forall m, minv m ->
  forallb (fun o => negb (is_reset o)) ops = true ->
  alen (al (run_from m ops)) = N.max (alen (al m)) (hpeak ops m).
Proof.
  induction ops as [|o ops IH]; intros m M Hn; cbn [run_from fold_left hpeak].
  - destruct (alen_bounded pfx V peq contains is_bit_set plen lcp pzero m M) as [B _]. lia.
  - cbn [forallb] in Hn. apply andb_true_iff in Hn. destruct Hn as [H1 H2].
    apply negb_true_iff in H1. fold (run_from (step m o) ops).
    rewrite (IH _ (step_minv pfx V peq contains is_bit_set plen lcp pzero m o M) H2).
    rewrite (step_alen m o M), H1.
    destruct (alen_bounded pfx V peq contains is_bit_set plen lcp pzero m M) as [B _].
    pose proof (hpeak_ge ops (step m o)). lia.
Qed.

(** ... and with resetting operations it is at most that *)
Theorem high_water_bound ops : forall m, minv m ->
  (alen (al (run_from m ops)) <= N.max (alen (al m)) (hpeak ops m))%N.
Proof.
  induction ops as [|o ops IH]; intros m M; cbn [run_from fold_left hpeak]; [lia|].
  fold (run_from (step m o) ops).
  pose proof (IH _ (step_minv pfx V peq contains is_bit_set plen lcp pzero m o M)) as H.
  rewrite (step_alen m o M) in H. pose proof (hpeak_ge ops (step m o)).
  destruct (is_reset o); lia.
Qed.

Corollary reachable_high_water ops :
  forallb (fun o => negb (is_reset o)) ops = true -> alen (al (run ops)) = hpeak ops empty.
Proof.
  intros Hn. rewrite run_run_from, (high_water_noreset ops empty (minv_empty pfx V pzero) Hn).
  pose proof (hpeak_ge ops empty) as P. change (nnodes (root empty)) with 1%N in P.
  change (alen (al empty)) with 1%N. lia.
Qed.

Corollary reachable_high_water_bound ops : (alen (al (run ops)) <= hpeak ops empty)%N.
Proof.
  rewrite run_run_from. pose proof (high_water_bound ops empty (minv_empty pfx V pzero)) as H.
  pose proof (hpeak_ge ops empty) as P. change (nnodes (root empty)) with 1%N in P.
  change (alen (al empty)) with 1%N in H. lia.
Qed.

(** after the last resetting operation the count starts afresh *)
Corollary reachable_high_water_since_reset ops1 o ops2 :
  is_reset o = true -> forallb (fun o => negb (is_reset o)) ops2 = true ->
  alen (al (run (ops1 ++ o :: ops2))) = hpeak ops2 (run (ops1 ++ [o])).
Proof.
  intros R Hn. replace (ops1 ++ o :: ops2) with ((ops1 ++ [o]) ++ ops2) by (rewrite <- app_assoc; reflexivity).
  rewrite (run_run_from ((ops1 ++ [o]) ++ ops2)), run_from_app, <- run_run_from.
  rewrite (high_water_noreset ops2 _ (reachable_minv _) Hn).
  rewrite run_snoc at 1. rewrite (step_alen _ o (reachable_minv ops1)), R, <- run_snoc.
  pose proof (hpeak_ge ops2 (run (ops1 ++ [o]))). lia.
Qed.

Lemma hpeak_le ops : forall m (B : N),
  (forall k, (nnodes (root (run_from m (firstn k ops))) <= B)%N) -> (hpeak ops m <= B)%N.
Proof.
  induction ops as [|o ops IH]; intros m B H; cbn [hpeak].
  - exact (H 0).
  - pose proof (H 0) as H0. cbn [firstn run_from fold_left] in H0.
    assert (H1 : (hpeak ops (step m o) <= B)%N).
    { apply IH. intros k. exact (H (S k)). }
    lia.
Qed.

(** between two states with the same arena length every slot of the later tree was in the
    earlier tree or in the earlier free list: growth of the tree is fed from the free list *)
Theorem no_growth_reuses (m m' : pmap) : minv m -> minv m' -> alen (al m') = alen (al m) ->
  forall i, In i (ids (root m')) -> In i (ids (root m)) \/ In i (free (al m)).
Proof.
  intros M M' E i Hi. apply (slots_range pfx V peq contains is_bit_set plen lcp pzero _ _ M).
  rewrite <- E. apply (slots_range pfx V peq contains is_bit_set plen lcp pzero _ _ M'). left. exact Hi.
Qed.

(* ---------------------------------------------------------------------------------------- *)
(** * Canonical trees are small *)

(** an empty canonical tree is just the root *)
Theorem canonical_empty_root (t : tree) :
  canonical t -> entries t = [] -> exists i p, t = Node i p None Leaf Leaf.
Proof.
  destruct t as [|i p v l r]; [intros []|]. intros [Cl Cr] E. cbn [entries] in E.
  apply app_eq_nil in E. destruct E as [Ev E]. apply app_eq_nil in E. destruct E as [El Er].
  destruct v; [discriminate|].
  destruct l as [|li lp lv ll lr]; [|exfalso; exact (canon_nonempty pfx V _ Cl eq_refl El)].
  destruct r as [|ri rp rv rl rr]; [|exfalso; exact (canon_nonempty pfx V _ Cr eq_refl Er)].
  exists i, p. reflexivity.
Qed.

Corollary canonical_empty_nnodes (t : tree) : canonical t -> entries t = [] -> nnodes t = 1%N.
Proof. intros C E. destruct (canonical_empty_root t C E) as [i [p ->]]. reflexivity. Qed.

Lemma canon_below_nodes (t : tree) : canon_below t ->
  length (ids t) + (if is_node t then 1 else 0) <= 2 * length (entries t).
Proof.
  induction t as [|i p v l IHl r IHr]; intros C; [cbn; lia|].
  destruct C as [Hv [Cl Cr]]. specialize (IHl Cl). specialize (IHr Cr).
  cbn [Slots.ids entries is_node length]. rewrite !app_length.
  destruct v as [x|]; cbn [length].
  - destruct (is_node l), (is_node r); lia.
  - destruct (Hv eq_refl) as [Nl Nr]. rewrite Nl in IHl. rewrite Nr in IHr. lia.
Qed.

(** MAIN (size): a canonical map of [n] entries has at most [2n + 1] nodes *)
Theorem canonical_nodes (t : tree) : canonical t ->
  (nnodes t <= 2 * N.of_nat (length (entries t)) + 1)%N.
Proof.
  destruct t as [|i p v l r]; [intros []|]. intros [Cl Cr].
  pose proof (canon_below_nodes l Cl) as Hl. pose proof (canon_below_nodes r Cr) as Hr.
  unfold Slots.nnodes. cbn [Slots.ids entries length]. rewrite !app_length.
  destruct (is_node l), (is_node r), v; cbn [length]; lia.
Qed.

(** MAIN (bounded churn): over the insert / remove / retain / clear alphabet, a history that never
    holds more than [B] entries at a time never needs more than [2B + 1] slots, however long *)
Theorem canon_churn_bound ops (B : nat) :
  forallb canon_op ops = true ->
  (forall k, length (entries (root (run (firstn k ops)))) <= B) ->
  (alen (al (run ops)) <= 2 * N.of_nat B + 1)%N.
Proof.
  intros Hc HB. pose proof (reachable_high_water_bound ops) as H.
  assert (P : (hpeak ops empty <= 2 * N.of_nat B + 1)%N).
  { apply hpeak_le. intros k. rewrite <- run_run_from.
    pose proof (canonical_nodes _ (reachable_canonical pfx V peq contains is_bit_set plen lcp pzero _
                                     (forallb_firstn _ k ops Hc))) as Cn.
    specialize (HB k). lia. }
  lia.
Qed.

(** canonicity read along view paths: every value-less node other than the root has two children *)
Lemma canon_below_subtree pa : forall t : tree, canon_below t -> canon_below (subtree t pa).
Proof.
  induction pa as [|s pa IH]; intros t C; [destruct t; exact C|].
  destruct t as [|i p v l r]; [exact I|]. cbn [subtree]. destruct C as [_ [Cl Cr]].
  apply IH. destruct s; assumption.
Qed.

Theorem canonical_words (t : tree) : canonical t ->
  forall pa i p l r, pa <> [] -> subtree t pa = Node i p None l r -> is_node l = true /\ is_node r = true.
Proof.
  intros C pa i p l r Hne Hs. destruct pa as [|s pa]; [congruence|].
  destruct t as [|i0 p0 v0 l0 r0]; [destruct C|]. destruct C as [Cl Cr]. cbn [subtree] in Hs.
  assert (Cc : canon_below (if s then r0 else l0)) by (destruct s; assumption).
  pose proof (canon_below_subtree pa _ Cc) as Cs. rewrite Hs in Cs. destruct Cs as [Hv _].
  apply Hv. reflexivity.
Qed.

End HX.


Print Assumptions reachable_minv.
Print Assumptions step_gap.
Print Assumptions reachable_drift.
Print Assumptions drift_counts.
Print Assumptions drift_reset.
Print Assumptions wf_edges.
Print Assumptions wf_root_depth.
Print Assumptions wf_root_path_len.
Print Assumptions canonical_shape_from_list.
Print Assumptions canonical_shape_rebuild.
Print Assumptions remove_reverts_insert_wf.
Print Assumptions step_value_skel.
Print Assumptions step_value_skelb.
Print Assumptions step_alen.
Print Assumptions high_water_noreset.
Print Assumptions high_water_bound.
Print Assumptions reachable_high_water.
Print Assumptions reachable_high_water_bound.
Print Assumptions reachable_high_water_since_reset.
Print Assumptions no_growth_reuses.
Print Assumptions canonical_empty_root.
Print Assumptions canonical_nodes.
Print Assumptions canon_churn_bound.
Print Assumptions canonical_words.
