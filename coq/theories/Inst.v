(** The model instantiated with the concrete prefix operations of [PrefixN] at width [w] and
    flavour [fl].  These are the functions the extracted driver runs against the implementation. *)
From Coq Require Import List NArith ZArith Bool.
From PT Require Import Bits PrefixN Machine Trie Views SetOps.
Import ListNotations.

Section I.
Variables (w : N) (fl : flavour).
Variable V : Type.

Notation P := PrefixN.pfx.
Notation PEQ := (PrefixN.peq w).
Notation CON := (PrefixN.contains w fl).
Notation BIT := (PrefixN.is_bit_set w).
Notation LEN := PrefixN.plen.
Notation LCP := (PrefixN.lcp w fl).
Notation ZERO := PrefixN.pzero.
Notation MCMP := (PrefixN.mcmp w).

Definition t_empty : pmap P V := empty P V ZERO.
Definition t_get := get P V PEQ CON BIT LEN.
Definition t_get_node := get_node P V PEQ CON BIT LEN.
Definition t_get_key_value := get_key_value P V PEQ CON BIT LEN.
Definition t_contains_key := contains_key P V PEQ CON BIT LEN.
Definition t_get_lpm := get_lpm P V PEQ CON BIT LEN.
Definition t_get_lpm_prefix := get_lpm_prefix P V PEQ CON BIT LEN.
Definition t_get_lpm_mut := get_lpm_mut P V PEQ CON BIT LEN.
Definition t_get_spm := get_spm P V PEQ CON BIT LEN.
Definition t_get_spm_prefix := get_spm_prefix P V PEQ CON BIT LEN.
Definition t_cover_next := cover_next P V PEQ CON BIT LEN.
Definition t_cover_drain := cover_drain P V PEQ CON BIT LEN.
Definition t_cover_walk := cover_walk P V PEQ CON BIT LEN.
Definition t_insert := insert P V PEQ CON BIT LEN LCP.
Definition t_remove := remove P V PEQ CON BIT LEN.
Definition t_remove_keep_tree := remove_keep_tree P V PEQ CON BIT LEN.
Definition t_remove_children := remove_children P V PEQ CON BIT LEN ZERO.
Definition t_clear := clear P V ZERO.
Definition t_retain := retain P V.
Definition t_iter_items := iter_items P V.
Definition t_iter_mut_items := iter_mut_items P V.
Definition t_into_iter_items := into_iter_items P V.
Definition t_children := children P V PEQ CON BIT LEN.
Definition t_children_mut := children_mut P V PEQ CON BIT LEN.
Definition t_into_children := into_children P V PEQ CON BIT LEN.
Definition t_from_list := from_list P V PEQ CON BIT LEN LCP ZERO.
Definition t_entry := entry P V PEQ CON BIT LEN.
Definition t_h_key := h_key P V PEQ CON BIT LEN.
Definition t_h_get := h_get P V PEQ CON BIT LEN.
Definition t_vacant_insert := vacant_insert P V PEQ CON BIT LEN LCP.
Definition t_occ_insert := occ_insert P V PEQ CON BIT LEN.
Definition t_occ_remove := occ_remove P V PEQ CON BIT LEN.
Definition t_update_value := update_value P V PEQ CON BIT LEN.
Definition t_iter_next := next (tree P V) (N * P * V) (iter_expand P V).

Definition prepr_eq (a b : P) : bool := (repr a =? repr b)%N && (plen a =? plen b)%N.
Definition drop_id (x : N * P * V) : P * V := let '(_, p, v) := x in (p, v).
(** [PartialEq]: compares the two iterators *)
Definition t_map_eq (veq : V -> V -> bool) (a b : tree P V) : bool :=
  list_eqb P V prepr_eq veq (map drop_id (t_iter_items a)) (map drop_id (t_iter_items b)).

Definition t_view_at := view_at P V PEQ CON BIT LEN.
Definition t_v_find := v_find P V PEQ CON BIT LEN.
Definition t_v_find_exact := v_find_exact P V PEQ CON BIT LEN.
Definition t_v_find_lpm := v_find_lpm P V PEQ CON BIT LEN.
Definition t_v_left := v_left P V BIT LEN ZERO.
Definition t_v_right := v_right P V BIT LEN ZERO.
Definition t_v_prefix := v_prefix P V ZERO.

Definition t_vm_find := vm_find P V PEQ CON BIT LEN.
Definition t_vm_find_exact := vm_find_exact P V PEQ CON BIT LEN.
Definition t_vm_find_lpm := vm_find_lpm P V PEQ CON BIT LEN.
Definition t_vm_left := vm_left P V BIT LEN ZERO.
Definition t_vm_right := vm_right P V BIT LEN ZERO.
Definition t_vm_split := vm_split P V BIT LEN ZERO.
Definition t_vm_has_left := vm_has_left P V BIT LEN ZERO.
Definition t_vm_has_right := vm_has_right P V BIT LEN ZERO.
Definition t_vm_prefix := vm_prefix P V ZERO.

Variable R : Type.
Definition t_union := union P V R CON BIT LEN ZERO MCMP.
Definition t_union_mut := union_mut P V R CON BIT LEN ZERO MCMP.
Definition t_intersection := intersection P V R CON BIT LEN ZERO MCMP.
Definition t_intersection_mut := intersection_mut P V R CON BIT LEN ZERO MCMP.
Definition t_difference := difference P V R CON BIT LEN ZERO MCMP.
Definition t_difference_mut := difference_mut P V R CON BIT LEN ZERO MCMP.
Definition t_covering_difference := covering_difference P V R CON BIT LEN ZERO MCMP.
Definition t_covering_difference_mut := covering_difference_mut P V R CON BIT LEN ZERO MCMP.

End I.
