(** The arena-level model ([Arena.v], [Arena2.v]: a transcription of src/inner.rs, of the mutators
    and lookups of src/map/mod.rs, of the Entry insertions of src/map/entry.rs and of the view
    writes of src/trieview/mod.rs over a vector of nodes with index links) instantiated with the
    concrete prefix operations (extracted; run by the driver next to the tree model and printed by
    `arenax` lines). *)
From Coq Require Import List NArith.
From PT Require Import PrefixN Trie Arena Arena2.

Section I.
Variables (w : N) (fl : flavour) (V : Type).
Notation P := PrefixN.pfx.
Notation PEQ := (PrefixN.peq w).
Notation CON := (PrefixN.contains w fl).
Notation BIT := (PrefixN.is_bit_set w).
Notation LEN := PrefixN.plen.
Notation LCP := (PrefixN.lcp w fl).
Notation ZERO := PrefixN.pzero.
Definition t_a_empty : amap P V := a_empty P V ZERO.
Definition t_a_insert := a_insert P V PEQ CON BIT LEN LCP.
Definition t_a_remove := a_remove P V PEQ CON BIT LEN.
Definition t_a_remove_keep_tree := a_remove_keep_tree P V PEQ CON BIT LEN.
Definition t_a_get := a_get P V PEQ CON BIT LEN.
Definition t_a_get_lpm := a_get_lpm P V PEQ CON BIT LEN.
Definition t_a_entries := a_entries P V.
Definition t_a_clear := a_clear P V ZERO.
Definition t_a_remove_children := a_remove_children P V PEQ CON BIT LEN LCP ZERO.
Definition t_a_retain := a_retain P V.
Definition t_a_get_mut := a_get_mut P V PEQ CON BIT LEN.
Definition t_a_vm_set := a_vm_set P V.
Definition t_a_vm_remove := a_vm_remove P V.
Definition t_a_vm_value_mut := a_vm_value_mut P V.
Definition t_a_entry_insert := a_entry_insert P V PEQ CON BIT LEN LCP.
End I.
