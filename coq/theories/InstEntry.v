(** The Entry-API state machine of [EntryApi.v] instantiated with the concrete prefix operations
    (the function the extracted driver runs for [entry] lines). *)
From Coq Require Import List NArith.
From PT Require Import PrefixN Trie EntryApi.

Definition t_entry_chain (w : N) (fl : flavour) (V : Type) :=
  entry_chain PrefixN.pfx V (PrefixN.peq w) (PrefixN.contains w fl) (PrefixN.is_bit_set w)
              PrefixN.plen (PrefixN.lcp w fl).
Definition t_occupied_reuse (V : Type) := @occupied_reuse V.
Definition t_closure_panics (V : Type) := @closure_panics V.
