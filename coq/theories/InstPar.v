(** The model side of the `alias` / `par` script operations ([ParModel.v]) instantiated with the
    concrete prefix operations (extracted; run by the driver). *)
From Coq Require Import List NArith.
From PT Require Import PrefixN Trie Views ParModel.

Definition t_alias_report (w : N) (fl : flavour) (V : Type) :=
  alias_report PrefixN.pfx V (PrefixN.contains w fl) (PrefixN.is_bit_set w) PrefixN.plen PrefixN.pzero
               (PrefixN.mcmp w).
Definition t_par_jobs (w : N) (V : Type) (sf : V -> V) :=
  par_jobs PrefixN.pfx V (PrefixN.is_bit_set w) PrefixN.plen PrefixN.pzero sf.
Definition t_par_result (w : N) (V : Type) (wf : nat -> V -> V) (sf : V -> V) :=
  par_result PrefixN.pfx V (PrefixN.is_bit_set w) PrefixN.plen PrefixN.pzero wf sf.
