(** Correctness of the simultaneous traversals [intersection], [difference],
    [covering_difference] (and their [*_mut] twins) of [SetOps.v], for arbitrary pairs of
    well-formed subtrees (no relation assumed between the two view roots).

    Method: the output of each machine is described as a *filter-map* [FM P A out] of the entry
    list [A] of the left operand, where the per-entry predicate [P] depends only on the entries of
    the right operand that cover the entry's key.  [run_rel] is instantiated with
    [R e out := FM (P (entries of the right subtree held by e)) (entries of the left subtree) out]. *)
From Coq Require Import List NArith ZArith Bool Arith Lia Sorted.
From PT Require Import Bits BitsThm Laws Machine MachineThm Trie TrieWf Lookup SetOps.
Import ListNotations.

(* ------------------------------------------------------------------------------------------ *)
(** * Bit-string facts *)

Lemma bcmp_same_len a : forall b, length a = length b -> (bcmp a b = Eq <-> a = b).
Proof.
  induction a as [|x a IH]; intros [|y b] H; cbn in H; try discriminate.
  - cbn. split; reflexivity.
  - injection H as H. specialize (IH b H). cbn [bcmp].
    destruct x, y; split; intros E; try discriminate.
    + f_equal. apply IH. exact E.
    + apply IH. injection E as E. exact E.
    + f_equal. apply IH. exact E.
    + apply IH. injection E as E. exact E.
Qed.

Lemma beq_spec a b : Bits.beq a b = true <-> a = b.
Proof.
  unfold Bits.beq. rewrite andb_true_iff, !is_prefix_spec. split.
  - intros [H1 H2]. apply prefix_of_antisym; assumption.
  - intros ->. split; apply prefix_of_refl.
Qed.

(** [a] is a proper prefix of [b] *)
Definition sprefix (a b : list bool) : Prop := prefix_of a b /\ a <> b.
Definition incomp (a b : list bool) : Prop := ~ prefix_of a b /\ ~ prefix_of b a.

Lemma sprefix_not_back a b : sprefix a b -> ~ prefix_of b a.
Proof. intros [H N] H'. apply N. apply prefix_of_antisym; assumption. Qed.

Lemma sprefix_len a b : sprefix a b -> length a < length b.
Proof.
  intros [H N]. pose proof (prefix_of_len _ _ H) as Hl.
  destruct (Nat.eq_dec (length a) (length b)) as [E|E]; [|lia].
  exfalso. apply N. apply prefix_of_same_len; [exact H|lia].
Qed.

(* ------------------------------------------------------------------------------------------ *)
(** * Generic facts about the machine *)

(** two machines over the same entries pushing the same children, with items related by [f] *)
Section Sim.
Variables (E I1 I2 : Type) (ex1 : E -> option I1 * list E) (ex2 : E -> option I2 * list E).
Variable f : I2 -> I1.
Hypothesis sim : forall e, fst (ex1 e) = option_map f (fst (ex2 e)) /\ snd (ex1 e) = snd (ex2 e).

Lemma run_sim n : forall st, run E I1 ex1 n st = option_map (map f) (run E I2 ex2 n st).
Proof.
  induction n as [|n IH]; intros [|e rest]; cbn [run]; try reflexivity.
  destruct (sim e) as [H1 H2]. destruct (ex1 e) as [o1 c1], (ex2 e) as [o2 c2].
  cbn [fst snd] in H1, H2. subst o1 c1. rewrite IH.
  destruct (run E I2 ex2 n (rev c2 ++ rest)) as [out|]; cbn [option_map]; [|reflexivity].
  destruct o2; reflexivity.
Qed.
End Sim.

(** an invariant of the stack entries yields a property of every emitted item *)
Section Inv.
Variables (E I : Type) (ex : E -> option I * list E) (inv : E -> Prop) (Q : I -> Prop).
Hypothesis step : forall e o cs, inv e -> ex e = (o, cs) ->
  Forall inv cs /\ (forall it, o = Some it -> Q it).

Lemma run_inv n : forall st out, Forall inv st -> run E I ex n st = Some out -> Forall Q out.
Proof.
  induction n as [|n IH]; intros [|e rest] out Hst Hrun; cbn [run] in Hrun.
  - inversion Hrun. constructor.
  - discriminate.
  - inversion Hrun. constructor.
  - inversion Hst as [|? ? He Hr]; subst.
    destruct (ex e) as [o cs] eqn:Hex. destruct (step _ _ _ He Hex) as [Hcs Hit].
    destruct (run E I ex n (rev cs ++ rest)) as [out'|] eqn:Hr'; [|discriminate].
    inversion Hrun; subst out.
    assert (HQ : Forall Q out').
    { apply (IH _ _ (proj2 (Forall_app _ _ _) (conj (Forall_rev Hcs) Hr)) Hr'). }
    destruct o as [it|]; cbn [opt_cons]; [constructor; [apply Hit; reflexivity | exact HQ] | exact HQ].
Qed.
End Inv.

Lemma Forall2_rev_app_inv {X Y} (Rl : X -> Y -> Prop) cs1 cs2 ls :
  Forall2 Rl (rev (cs1 ++ cs2)) ls ->
  exists l2 l1, ls = l2 ++ l1 /\ Forall2 Rl (rev cs2) l2 /\ Forall2 Rl (rev cs1) l1.
Proof.
  rewrite rev_app_distr. intros H. apply Forall2_app_inv_l in H.
  destruct H as [l2 [l1 [H2 [H1 ->]]]]. exists l2, l1. auto.
Qed.

Lemma Forall2_single_inv {X Y} (Rl : X -> Y -> Prop) c ls :
  Forall2 Rl (rev [c]) ls -> exists out, ls = [out] /\ Rl c out.
Proof.
  cbn. intros H. inversion H as [|? y ? l' Hc Hn]; subst. inversion Hn; subst. exists y. auto.
Qed.

Lemma Forall2_nil_inv {X Y} (Rl : X -> Y -> Prop) ls : Forall2 Rl (rev []) ls -> ls = [].
Proof. cbn. intros H. inversion H. reflexivity. Qed.

Lemma concat_single {Y} (out : list Y) : concat [out] = out.
Proof. cbn. apply app_nil_r. Qed.

(* ------------------------------------------------------------------------------------------ *)
(** * Filter-maps *)

Section FMsec.
Variables (X I : Type).

Inductive FM (P : X -> option I -> Prop) : list X -> list I -> Prop :=
| FM_nil : FM P [] []
| FM_skip e A out : P e None -> FM P A out -> FM P (e :: A) out
| FM_keep e it A out : P e (Some it) -> FM P A out -> FM P (e :: A) (it :: out).

Implicit Types P : X -> option I -> Prop.

Lemma FM_app P A1 A2 o1 o2 : FM P A1 o1 -> FM P A2 o2 -> FM P (A1 ++ A2) (o1 ++ o2).
Proof.
  intros H1 H2. induction H1; cbn; [exact H2 | apply FM_skip; assumption | apply FM_keep; assumption].
Qed.

Lemma FM_none P A : (forall e, In e A -> P e None) -> FM P A [].
Proof.
  induction A as [|e A IH]; intros H; [constructor|].
  apply FM_skip; [apply H; left; reflexivity | apply IH; intros e' He'; apply H; right; exact He'].
Qed.

Lemma FM_in P A out it : FM P A out -> In it out -> exists e, In e A /\ P e (Some it).
Proof.
  intros H. induction H as [|e A out Hp H IH|e it' A out Hp H IH]; intros Hin.
  - contradiction.
  - destruct (IH Hin) as [e' [He' Hp']]. exists e'. split; [right; exact He' | exact Hp'].
  - destruct Hin as [<-|Hin].
    + exists e. split; [left; reflexivity | exact Hp].
    + destruct (IH Hin) as [e' [He' Hp']]. exists e'. split; [right; exact He' | exact Hp'].
Qed.

Lemma FM_complete P A out e : FM P A out -> In e A ->
  P e None \/ exists it, In it out /\ P e (Some it).
Proof.
  intros H. induction H as [|e0 A out Hp H IH|e0 it' A out Hp H IH]; intros Hin.
  - contradiction.
  - destruct Hin as [<-|Hin]; [left; exact Hp | apply IH; exact Hin].
  - destruct Hin as [<-|Hin].
    + right. exists it'. split; [left; reflexivity | exact Hp].
    + destruct (IH Hin) as [Hn|[it [Hi Hp']]]; [left; exact Hn|].
      right. exists it. split; [right; exact Hi | exact Hp'].
Qed.

Lemma FM_weaken (P P' : X -> option I -> Prop) A out :
  FM P A out -> (forall e o, In e A -> P e o -> P' e o) -> FM P' A out.
Proof.
  intros H. induction H as [|e A out Hp H IH|e it A out Hp H IH]; intros Hw.
  - constructor.
  - apply FM_skip; [apply Hw; [left; reflexivity | exact Hp]|].
    apply IH. intros e' o He'. apply Hw. right. exact He'.
  - apply FM_keep; [apply Hw; [left; reflexivity | exact Hp]|].
    apply IH. intros e' o He'. apply Hw. right. exact He'.
Qed.

Variables (kx : X -> list bool) (ki : I -> list bool).

Lemma FM_sorted P A out :
  (forall e it, P e (Some it) -> ki it = kx e) ->
  StronglySorted (fun a b => lex_lt (kx a) (kx b)) A -> FM P A out ->
  StronglySorted (fun a b => lex_lt (ki a) (ki b)) out.
Proof.
  intros Hk Hs H. induction H as [|e A out Hp H IH|e it A out Hp H IH].
  - constructor.
  - inversion Hs; subst. apply IH. assumption.
  - inversion Hs as [|? ? Hs' Hf]; subst. constructor; [apply IH; exact Hs'|].
    apply Forall_forall. intros it' Hin.
    destruct (FM_in _ _ _ _ H Hin) as [e' [He' Hp']].
    rewrite (Hk _ _ Hp), (Hk _ _ Hp'). rewrite Forall_forall in Hf. apply Hf. exact He'.
Qed.

End FMsec.
Arguments FM {X I}.
Arguments FM_nil {X I}.
Arguments FM_skip {X I}.
Arguments FM_keep {X I}.

(* ------------------------------------------------------------------------------------------ *)
Section ID.
Variables (pfx L R : Type).
Variables (peq contains : pfx -> pfx -> bool) (is_bit_set : pfx -> N -> bool)
          (plen : pfx -> N) (lcp : pfx -> pfx -> pfx) (pzero : pfx)
          (mcmp : pfx -> pfx -> comparison).
Variable bits : pfx -> list bool.
Variable ok : pfx -> Prop.
Hypothesis LAWS : prefix_laws pfx peq contains is_bit_set plen lcp pzero mcmp bits ok.

Notation to_right := (Trie.to_right pfx is_bit_set plen).

(** below a node whose key is a proper prefix of the query's, the query continues on the side
    [to_right] selects *)
Lemma side_ext p q :
  ok p -> ok q -> sprefix (bits p) (bits q) -> prefix_of (bits p ++ [to_right p q]) (bits q).
Proof.
  intros Hp Hq [H N].
  rewrite (to_right_spec pfx peq contains is_bit_set plen lcp pzero mcmp bits ok LAWS) by assumption.
  apply proper_ext; [exact H | congruence].
Qed.

(** the comparison of two root prefixes performed by every [*_next_indices] *)
Lemma classify (X : Type) pa pb (x1 x2 x3 x4 x5 : X) :
  ok pa -> ok pb ->
  let E := if (plen pa =? plen pb)%N then match mcmp pa pb with Eq => x1 | _ => x2 end
           else if contains pa pb then x3 else if contains pb pa then x4 else x5 in
  (bits pa = bits pb /\ E = x1) \/ (incomp (bits pa) (bits pb) /\ E = x2) \/
  (sprefix (bits pa) (bits pb) /\ E = x3) \/ (sprefix (bits pb) (bits pa) /\ E = x4) \/
  (incomp (bits pa) (bits pb) /\ E = x5).
Proof.
  intros Ha Hb E. subst E.
  pose proof (plen_bits _ _ _ _ _ _ _ _ _ _ LAWS pa Ha) as La.
  pose proof (plen_bits _ _ _ _ _ _ _ _ _ _ LAWS pb Hb) as Lb.
  destruct (plen pa =? plen pb)%N eqn:El.
  - apply N.eqb_eq in El. assert (Hlen : length (bits pa) = length (bits pb)) by lia.
    rewrite (mcmp_spec _ _ _ _ _ _ _ _ _ _ LAWS pa pb Ha Hb).
    pose proof (bcmp_same_len _ _ Hlen) as Hc.
    destruct (bcmp (bits pa) (bits pb)).
    + left. split; [apply Hc; reflexivity | reflexivity].
    + right. left. split; [|reflexivity]. split; intros H.
      * apply prefix_of_same_len in H; [|lia]. apply Hc in H. discriminate.
      * apply prefix_of_same_len in H; [|lia]. symmetry in H. apply Hc in H. discriminate.
    + right. left. split; [|reflexivity]. split; intros H.
      * apply prefix_of_same_len in H; [|lia]. apply Hc in H. discriminate.
      * apply prefix_of_same_len in H; [|lia]. symmetry in H. apply Hc in H. discriminate.
  - apply N.eqb_neq in El. assert (Hlen : length (bits pa) <> length (bits pb)) by lia.
    destruct (contains pa pb) eqn:C1.
    + right. right. left. split; [|reflexivity]. split.
      * eapply contains_true; eauto.
      * intros E. apply Hlen. rewrite E. reflexivity.
    + destruct (contains pb pa) eqn:C2.
      * right. right. right. left. split; [|reflexivity]. split.
        -- eapply contains_true; eauto.
        -- intros E. apply Hlen. rewrite E. reflexivity.
      * right. right. right. right. split; [|reflexivity]. split.
        -- eapply contains_false; eauto.
        -- eapply contains_false; eauto.
Qed.

(* ---------------------------------------------------------------------------------------- *)
(** ** Facts about one tree, generic in the value type *)
Section Gen.
Variable T : Type.
Notation tree := (Trie.tree pfx T).
Notation wfu := (wf_under pfx T bits ok).
Notation kb t := (bits (tpfx pfx T pzero t)).
Implicit Types (t c : tree) (B : list (pfx * T)) (k : list bool) (e : pfx * T).

(** a non-leaf subtree, well-formed under its own root key *)
Definition nodeW t : Prop := is_node t = true /\ wfu (kb t) t.

Lemma nodeW_of b t : wfu b t -> is_node t = true -> nodeW t.
Proof.
  intros H N. destruct t as [|i p v l r]; [discriminate|]. split; [reflexivity|].
  cbn [tpfx]. eapply wf_self. exact H.
Qed.

Definition ownl (p : pfx) (v : option T) : list (pfx * T) :=
  match v with Some x => [(p, x)] | None => [] end.

Lemma entries_node i p v l r : entries (Node i p v l r) = ownl p v ++ entries l ++ entries r.
Proof. reflexivity. Qed.

(** no entry of [B] covers [k] *)
Definition nocov k B : Prop := forall e, In e B -> ~ prefix_of (bits (fst e)) k.
(** [B1] and [B2] hold the same entries covering [k] *)
Definition ceq k B1 B2 : Prop :=
  forall e, (In e B1 /\ prefix_of (bits (fst e)) k) <-> (In e B2 /\ prefix_of (bits (fst e)) k).

Lemma ceq_in k B1 B2 : (forall e, In e B1 <-> In e B2) -> ceq k B1 B2.
Proof. intros H e. rewrite H. tauto. Qed.

Lemma ceq_nocov k B : nocov k B -> ceq k [] B.
Proof. intros H e. split; [intros [[] _] | intros [Hin Hc]; exfalso; eapply H; eauto]. Qed.

Lemma nocov_nil k : nocov k [].
Proof. intros e []. Qed.

Lemma entry_under b t e : wfu b t -> In e (entries t) -> prefix_of b (bits (fst e)).
Proof. intros H Hin. exact (entries_under pfx T bits ok b t e H Hin). Qed.

Lemma nocov_root b t k :
  wfu b t -> match t with Leaf => True | Node _ p _ _ _ => ~ prefix_of (bits p) k end ->
  nocov k (entries t).
Proof.
  intros Hwf Hn e Hin Hc. destruct t as [|i p v l r]; [contradiction|].
  apply Hn. eapply prefix_of_trans; [|exact Hc].
  eapply entry_under; [eapply wf_self; exact Hwf | exact Hin].
Qed.

Lemma nocov_bound b t k : wfu b t -> ~ prefix_of b k -> nocov k (entries t).
Proof.
  intros Hwf Hn e Hin Hc. apply Hn. eapply prefix_of_trans; [|exact Hc]. eapply entry_under; eauto.
Qed.

Lemma entries_longer q s c e : wfu (bits q ++ [s]) c -> In e (entries c) ->
  length (bits q) < length (bits (fst e)).
Proof.
  intros Hwf Hin. pose proof (entry_under _ _ _ Hwf Hin) as H. apply prefix_of_len in H.
  rewrite app_length in H. cbn in H. lia.
Qed.

(** the entries of a node covering a key on side [s]: the node's own and those of that child *)
Lemma ceq_side b j q w rl rr s k :
  wfu b (Node j q w rl rr) -> prefix_of (bits q ++ [s]) k ->
  ceq k (ownl q w ++ entries (child_of pfx T rl rr s)) (entries (Node j q w rl rr)).
Proof.
  intros Hwf Hk e. rewrite entries_node, !in_app_iff.
  pose proof (wf_node_inv _ _ _ _ _ _ _ _ _ _ Hwf) as [_ [_ [Hl Hr]]].
  assert (Hother : In e (entries (child_of pfx T rl rr (negb s))) -> prefix_of (bits (fst e)) k -> False).
  { intros Hin Hc.
    assert (Hu : prefix_of (bits q ++ [negb s]) (bits (fst e))).
    { destruct s; cbn [negb child_of] in *; eapply entry_under; eauto. }
    destruct (branch_incomparable _ _ _ _ Hk Hu) as [A _]. apply A. exact Hc. }
  destruct s; cbn [child_of negb] in *; tauto.
Qed.

(** the entries of a node covering its own key *)
Lemma nocov_below b j q w rl rr :
  wfu b (Node j q w rl rr) -> nocov (bits q) (entries rl ++ entries rr).
Proof.
  intros Hwf e Hin Hc.
  pose proof (wf_node_inv _ _ _ _ _ _ _ _ _ _ Hwf) as [_ [_ [Hl Hr]]].
  rewrite in_app_iff in Hin. destruct Hin as [Hin|Hin].
  - eapply below_not_above; [eapply entry_under; [exact Hl | exact Hin] | exact Hc].
  - eapply below_not_above; [eapply entry_under; [exact Hr | exact Hin] | exact Hc].
Qed.

Lemma nocov_unvalued b j q rl rr :
  wfu b (Node j q None rl rr) -> nocov (bits q) (entries (Node j q None rl rr)).
Proof. intros Hwf. rewrite entries_node. cbn [ownl app]. eapply nocov_below. exact Hwf. Qed.

(** the child examined by [*_next_first_*] *)
Definition sel (p : pfx) (cl cr : tree) (q : pfx) : tree :=
  match is_node cl, is_node cr with
  | false, false => Leaf
  | false, true => cr
  | true, false => cl
  | true, true => if to_right p q then cr else cl
  end.

Lemma sel_wf b j q w rl rr pl :
  wfu b (Node j q w rl rr) -> exists s, wfu (bits q ++ [s]) (sel q rl rr pl).
Proof.
  intros Hwf. pose proof (wf_node_inv _ _ _ _ _ _ _ _ _ _ Hwf) as [_ [_ [Hl Hr]]].
  unfold sel. destruct (is_node rl), (is_node rr).
  - destruct (to_right q pl); [exists true | exists false]; assumption.
  - exists false. assumption.
  - exists true. assumption.
  - exists true. exact I.
Qed.

Lemma sel_ceq b j q w rl rr pl k :
  wfu b (Node j q w rl rr) -> ok pl -> sprefix (bits q) (bits pl) -> prefix_of (bits pl) k ->
  ceq k (ownl q w ++ entries (sel q rl rr pl)) (entries (Node j q w rl rr)).
Proof.
  intros Hwf Hpl Hsp Hk.
  pose proof (wf_node_inv _ _ _ _ _ _ _ _ _ _ Hwf) as [Hq _].
  unfold sel. destruct (is_node rl) eqn:Nl, (is_node rr) eqn:Nr.
  - assert (Hs : prefix_of (bits q ++ [to_right q pl]) k).
    { eapply prefix_of_trans; [apply side_ext; assumption | exact Hk]. }
    pose proof (ceq_side _ _ _ _ _ _ _ _ Hwf Hs) as H. unfold child_of in H. exact H.
  - destruct rr; [|discriminate]. apply ceq_in. intros e. rewrite entries_node, !in_app_iff. cbn. tauto.
  - destruct rl; [|discriminate]. apply ceq_in. intros e. rewrite entries_node, !in_app_iff. cbn. tauto.
  - destruct rl; [|discriminate]. destruct rr; [|discriminate].
    apply ceq_in. intros e. rewrite entries_node, !in_app_iff. cbn. tauto.
Qed.

End Gen.

Arguments nodeW {T}.
Arguments ownl {T}.
Arguments nocov {T}.
Arguments ceq {T}.
Arguments sel {T}.

Notation treeL := (Trie.tree pfx L).
Notation treeR := (Trie.tree pfx R).
Notation wfL := (wf_under pfx L bits ok).
Notation wfR := (wf_under pfx R bits ok).
Notation kb t := (bits (tpfx pfx _ pzero t)).
Notation is_lpm := (Lookup.is_lpm pfx R bits).
Notation no_cover := (Lookup.no_cover pfx R bits).
Notation lpmR := (SetOps.lpmR pfx R).

Lemma ceq_fwd T k (B1 B2 : list (pfx * T)) e :
  ceq k B1 B2 -> In e B1 -> prefix_of (bits (fst e)) k -> In e B2.
Proof. intros H Hin Hc. apply (proj1 (H e)). split; assumption. Qed.
Lemma ceq_bwd T k (B1 B2 : list (pfx * T)) e :
  ceq k B1 B2 -> In e B2 -> prefix_of (bits (fst e)) k -> In e B1.
Proof. intros H Hin Hc. apply (proj2 (H e)). split; assumption. Qed.

(* ---------------------------------------------------------------------------------------- *)
(** ** The per-entry predicates of the three operations *)

(** *** intersection *)
Definition PI (B : list (pfx * R)) (e : pfx * L) (o : option (pfx * L * R)) : Prop :=
  match o with
  | Some it => fst it = e /\ exists pr, In (pr, snd it) B /\ bits pr = bits (fst e)
  | None => forall e', In e' B -> bits (fst e') <> bits (fst e)
  end.

Lemma PI_ceq B1 B2 e o : ceq (bits (fst e)) B1 B2 -> PI B1 e o -> PI B2 e o.
Proof.
  intros Hc. destruct o as [it|]; cbn [PI].
  - intros [E [pr [Hin Hk]]]. split; [exact E|]. exists pr. split; [|exact Hk].
    eapply ceq_fwd; [exact Hc | exact Hin|]. cbn [fst]. rewrite Hk. apply prefix_of_refl.
  - intros H e' Hin Hk. apply (H e'); [|exact Hk].
    eapply ceq_bwd; [exact Hc | exact Hin|]. rewrite Hk. apply prefix_of_refl.
Qed.

Lemma PI_own q w B' e o : bits q <> bits (fst e) -> PI B' e o -> PI (ownl q w ++ B') e o.
Proof.
  intros Hn. destruct o as [it|]; cbn [PI].
  - intros [E [pr [Hin Hk]]]. split; [exact E|]. exists pr.
    split; [apply in_or_app; right; exact Hin | exact Hk].
  - intros H e' Hin. apply in_app_or in Hin. destruct Hin as [Hin|Hin]; [|apply H; exact Hin].
    destruct w; cbn in Hin; [|contradiction]. destruct Hin as [<-|[]]. exact Hn.
Qed.

Lemma PI_nocov B e : nocov (bits (fst e)) B -> PI B e None.
Proof. intros H e' Hin Hk. apply (H e' Hin). rewrite Hk. apply prefix_of_refl. Qed.

Lemma PI_child b j q w rl rr s e o :
  wfR b (Node j q w rl rr) -> prefix_of (bits q ++ [s]) (bits (fst e)) ->
  PI (entries (child_of pfx R rl rr s)) e o -> PI (entries (Node j q w rl rr)) e o.
Proof.
  intros Hwf Hk H. eapply PI_ceq; [eapply ceq_side; eassumption|]. apply PI_own; [|exact H].
  intros E. eapply below_neq; [exact Hk | symmetry; exact E].
Qed.

Lemma PI_sel b j q w rl rr pl e o :
  wfR b (Node j q w rl rr) -> ok pl -> sprefix (bits q) (bits pl) ->
  prefix_of (bits pl) (bits (fst e)) ->
  PI (entries (sel q rl rr pl)) e o -> PI (entries (Node j q w rl rr)) e o.
Proof.
  intros Hwf Hpl Hsp Hk H. eapply PI_ceq; [eapply sel_ceq; eassumption|]. apply PI_own; [|exact H].
  intros E. eapply sprefix_not_back; [exact Hsp|]. rewrite E. exact Hk.
Qed.

(** *** difference *)
Definition ann_ok (B : list (pfx * R)) (rho : lpmR) (p : pfx) (ann : lpmR) : Prop :=
  (exists e, ann = Some e /\ is_lpm B p e) \/ (no_cover B p /\ ann = rho).

Definition PD (B : list (pfx * R)) (rho : lpmR) (e : pfx * L) (o : option (pfx * L * lpmR)) : Prop :=
  match o with
  | Some it => fst it = e /\ (forall e', In e' B -> bits (fst e') <> bits (fst e)) /\
               ann_ok B rho (fst e) (snd it)
  | None => exists e', In e' B /\ bits (fst e') = bits (fst e)
  end.

Lemma ann_ceq B1 B2 rho p ann : ceq (bits p) B1 B2 -> ann_ok B1 rho p ann -> ann_ok B2 rho p ann.
Proof.
  intros Hc [[e [-> [Hin [Hcov Hmax]]]]|[Hnc ->]].
  - left. exists e. split; [reflexivity|].
    split; [eapply ceq_fwd; [exact Hc | exact Hin | exact Hcov]|]. split; [exact Hcov|].
    intros e' Hin' Hc'. apply Hmax; [|exact Hc']. eapply ceq_bwd; [exact Hc | exact Hin' | exact Hc'].
  - right. split; [|reflexivity]. intros e Hin Hcov.
    apply (Hnc e); [|exact Hcov]. eapply ceq_bwd; [exact Hc | exact Hin | exact Hcov].
Qed.

Lemma PD_ceq B1 B2 rho e o : ceq (bits (fst e)) B1 B2 -> PD B1 rho e o -> PD B2 rho e o.
Proof.
  intros Hc. destruct o as [it|]; cbn [PD].
  - intros [E [Hne Hann]]. split; [exact E|]. split; [|eapply ann_ceq; eassumption].
    intros e' Hin Hk. apply (Hne e'); [|exact Hk].
    eapply ceq_bwd; [exact Hc | exact Hin|]. rewrite Hk. apply prefix_of_refl.
  - intros [e' [Hin Hk]]. exists e'. split; [|exact Hk].
    eapply ceq_fwd; [exact Hc | exact Hin|]. rewrite Hk. apply prefix_of_refl.
Qed.

Lemma ann_own q y B' rho p ann :
  prefix_of (bits q) (bits p) -> rho = Some (q, y) ->
  (forall e', In e' B' -> prefix_of (bits (fst e')) (bits p) ->
              length (bits q) <= length (bits (fst e'))) ->
  ann_ok B' rho p ann -> ann_ok ((q, y) :: B') rho p ann.
Proof.
  intros Hq Hrho Hlen [[e [-> [Hin [Hcov Hmax]]]]|[Hnc ->]].
  - left. exists e. split; [reflexivity|]. split; [right; exact Hin|]. split; [exact Hcov|].
    intros e' [<-|Hin'] Hc'; [apply Hlen; assumption | apply Hmax; assumption].
  - left. exists (q, y). split; [exact Hrho|]. split; [left; reflexivity|]. split; [exact Hq|].
    intros e' [<-|Hin'] Hc'; [apply le_n|]. exfalso. eapply Hnc; eauto.
Qed.

Lemma PD_own q w B' rho e o :
  prefix_of (bits q) (bits (fst e)) -> bits q <> bits (fst e) ->
  (forall y, w = Some y -> rho = Some (q, y)) ->
  (forall e', In e' B' -> prefix_of (bits (fst e')) (bits (fst e)) ->
              length (bits q) <= length (bits (fst e'))) ->
  PD B' rho e o -> PD (ownl q w ++ B') rho e o.
Proof.
  intros Hq Hn Hcons Hlen. destruct w as [y|]; [|cbn [ownl app]; trivial].
  cbn [ownl app]. destruct o as [it|]; cbn [PD].
  - intros [E [Hne Hann]]. split; [exact E|]. split.
    + intros e' [<-|Hin]; [exact Hn | apply Hne; exact Hin].
    + eapply ann_own; eauto.
  - intros [e' [Hin Hk]]. exists e'. split; [right; exact Hin | exact Hk].
Qed.

Lemma PD_orelse B (w' : lpmR) rho e o :
  (forall e0, w' = Some e0 -> In e0 B /\ prefix_of (bits (fst e0)) (bits (fst e))) ->
  PD B (orelse w' rho) e o -> PD B rho e o.
Proof.
  destruct o as [it|]; cbn [PD]; [|trivial]. intros Hw [E [Hne Hann]].
  split; [exact E|]. split; [exact Hne|].
  destruct Hann as [H|[Hnc ->]]; [left; exact H|]. right. split; [exact Hnc|].
  destruct w' as [e0|]; [|reflexivity]. exfalso.
  destruct (Hw e0 eq_refl) as [Hin Hc]. eapply Hnc; eauto.
Qed.

Lemma PD_nocov B rho p x : nocov (bits p) B -> PD B rho (p, x) (Some (p, x, rho)).
Proof.
  intros H. cbn [PD fst snd]. split; [reflexivity|]. split.
  - intros e' Hin Hk. apply (H e' Hin). rewrite Hk. apply prefix_of_refl.
  - right. split; [exact H | reflexivity].
Qed.

Lemma PD_child b j q w rl rr s rho e o :
  wfR b (Node j q w rl rr) -> prefix_of (bits q ++ [s]) (bits (fst e)) ->
  (forall y, w = Some y -> rho = Some (q, y)) ->
  PD (entries (child_of pfx R rl rr s)) rho e o -> PD (entries (Node j q w rl rr)) rho e o.
Proof.
  intros Hwf Hk Hcons H. eapply PD_ceq; [eapply ceq_side; eassumption|]. apply PD_own.
  - eapply below_prefix; exact Hk.
  - intros E. eapply below_neq; [exact Hk | symmetry; exact E].
  - exact Hcons.
  - intros e' Hin _. apply Nat.lt_le_incl. eapply entries_longer; [|exact Hin].
    eapply wf_child. exact Hwf.
  - exact H.
Qed.

Lemma PD_sel b j q w rl rr pl rho e o :
  wfR b (Node j q w rl rr) -> ok pl -> sprefix (bits q) (bits pl) ->
  prefix_of (bits pl) (bits (fst e)) ->
  (forall y, w = Some y -> rho = Some (q, y)) ->
  PD (entries (sel q rl rr pl)) rho e o -> PD (entries (Node j q w rl rr)) rho e o.
Proof.
  intros Hwf Hpl Hsp Hk Hcons H. eapply PD_ceq; [eapply sel_ceq; eassumption|]. apply PD_own.
  - eapply prefix_of_trans; [exact (proj1 Hsp) | exact Hk].
  - intros E. eapply sprefix_not_back; [exact Hsp|]. rewrite E. exact Hk.
  - exact Hcons.
  - intros e' Hin _. destruct (sel_wf R _ _ _ _ _ _ pl Hwf) as [s Hs].
    apply Nat.lt_le_incl. eapply entries_longer; [exact Hs | exact Hin].
  - exact H.
Qed.

(** *** covering difference *)
Definition PC (B : list (pfx * R)) (e : pfx * L) (o : option (pfx * L)) : Prop :=
  match o with
  | Some it => it = e /\ nocov (bits (fst e)) B
  | None => exists e', In e' B /\ prefix_of (bits (fst e')) (bits (fst e))
  end.

Lemma PC_ceq B1 B2 e o : ceq (bits (fst e)) B1 B2 -> PC B1 e o -> PC B2 e o.
Proof.
  intros Hc. destruct o as [it|]; cbn [PC].
  - intros [E Hnc]. split; [exact E|]. intros e' Hin Hcov.
    apply (Hnc e'); [|exact Hcov]. eapply ceq_bwd; eassumption.
  - intros [e' [Hin Hcov]]. exists e'. split; [|exact Hcov]. eapply ceq_fwd; eassumption.
Qed.

Lemma PC_nocov B e : nocov (bits (fst e)) B -> PC B e (Some e).
Proof. intros H. split; [reflexivity | exact H]. Qed.

Lemma PC_child b j q rl rr s e o :
  wfR b (Node j q None rl rr) -> prefix_of (bits q ++ [s]) (bits (fst e)) ->
  PC (entries (child_of pfx R rl rr s)) e o -> PC (entries (Node j q None rl rr)) e o.
Proof.
  intros Hwf Hk H. eapply PC_ceq; [|exact H].
  exact (ceq_side R _ _ _ _ _ _ _ _ Hwf Hk).
Qed.

Lemma PC_sel b j q rl rr pl e o :
  wfR b (Node j q None rl rr) -> ok pl -> sprefix (bits q) (bits pl) ->
  prefix_of (bits pl) (bits (fst e)) ->
  PC (entries (sel q rl rr pl)) e o -> PC (entries (Node j q None rl rr)) e o.
Proof.
  intros Hwf Hpl Hsp Hk H. eapply PC_ceq; [|exact H].
  exact (sel_ceq R _ _ _ _ _ _ _ _ Hwf Hpl Hsp Hk).
Qed.

(* ---------------------------------------------------------------------------------------- *)
(** ** The left operand: assembling the filter-map of a node from its parts *)

Lemma FM_node' I (P : pfx * L -> option I -> Prop) i p v (ll lr : treeL) o out :
  (forall x, v = Some x -> P (p, x) o) -> (v = None -> o = None) ->
  FM P (entries ll ++ entries lr) out -> FM P (entries (Node i p v ll lr)) (opt_cons I o out).
Proof.
  intros Hs Hn H. rewrite (entries_node L). destruct v as [x|]; cbn [ownl app].
  - specialize (Hs x eq_refl).
    destruct o as [it|]; cbn [opt_cons]; [apply FM_keep | apply FM_skip]; assumption.
  - rewrite (Hn eq_refl). cbn [opt_cons]. exact H.
Qed.

Lemma FM_node I (P : pfx * L -> option I -> Prop) i p v (ll lr : treeL) o ol orr :
  (forall x, v = Some x -> P (p, x) o) -> (v = None -> o = None) ->
  FM P (entries ll) ol -> FM P (entries lr) orr ->
  FM P (entries (Node i p v ll lr)) (opt_cons I o (ol ++ orr)).
Proof. intros Hs Hn Hl Hr. apply FM_node'; [exact Hs | exact Hn | apply FM_app; assumption]. Qed.

Lemma sel_FM_A I (P : pfx * L -> option I -> Prop) p (ll lr : treeL) q out :
  FM P (entries (sel p ll lr q)) out ->
  (forall e, In e (entries (child_of pfx L ll lr (negb (to_right p q)))) -> P e None) ->
  FM P (entries ll ++ entries lr) out.
Proof.
  unfold sel. destruct (is_node ll) eqn:Nl, (is_node lr) eqn:Nr.
  - destruct (to_right p q); cbn [negb child_of]; intros H Ho.
    + change out with ([] ++ out). apply FM_app; [apply FM_none; exact Ho | exact H].
    + rewrite <- (app_nil_r out). apply FM_app; [exact H | apply FM_none; exact Ho].
  - destruct lr; [|discriminate]. intros H _. cbn [entries]. rewrite app_nil_r. exact H.
  - destruct ll; [|discriminate]. intros H _. exact H.
  - destruct ll; [|discriminate]. destruct lr; [|discriminate]. intros H _. exact H.
Qed.

Lemma sel_size T p (cl cr : Trie.tree pfx T) q : tsize (sel p cl cr q) <= tsize cl + tsize cr.
Proof.
  unfold sel. destruct (is_node cl), (is_node cr); try destruct (to_right p q); cbn [tsize]; lia.
Qed.

(** keys below incomparable bounds do not cover each other *)
Lemma nocov_incomp ba bb (a : treeL) (b : treeR) e :
  wfL ba a -> wfR bb b -> incomp ba bb -> In e (entries a) -> nocov (bits (fst e)) (entries b).
Proof.
  intros Ha Hb [N1 N2] Hin. eapply nocov_bound; [exact Hb|]. intros Hc.
  pose proof (entry_under L _ _ _ Ha Hin) as Hu.
  destruct (prefix_of_comparable _ _ _ Hu Hc); contradiction.
Qed.

(** the right root lies properly below the left root: the left child on the other side *)
Lemma nocov_other b i p v (ll lr : treeL) (r : treeR) q e :
  wfL b (Node i p v ll lr) -> ok q -> wfR (bits q) r -> sprefix (bits p) (bits q) ->
  In e (entries (child_of pfx L ll lr (negb (to_right p q)))) -> nocov (bits (fst e)) (entries r).
Proof.
  intros Hl Hq Hr Hsp Hin.
  pose proof (wf_node_inv _ _ _ _ _ _ _ _ _ _ Hl) as [Hp _].
  eapply nocov_bound; [exact Hr|].
  pose proof (side_ext p q Hp Hq Hsp) as Hs.
  assert (Hu : prefix_of (bits p ++ [negb (to_right p q)]) (bits (fst e))).
  { eapply entry_under; [eapply wf_child; exact Hl | exact Hin]. }
  destruct (branch_incomparable _ _ _ _ Hs Hu) as [_ A]. exact A.
Qed.

Lemma nocov_above (r : treeR) p q : wfR (bits q) r -> sprefix (bits p) (bits q) -> nocov (bits p) (entries r).
Proof. intros Hr Hsp. eapply nocov_bound; [exact Hr|]. apply sprefix_not_back. exact Hsp. Qed.

(* ---------------------------------------------------------------------------------------- *)
(** * intersection *)

Notation iidx := (SetOps.iidx pfx L R).
Notation i_next := (i_next_indices pfx L R contains plen pzero mcmp).
Notation i_first_a := (i_next_first_a pfx L R contains is_bit_set plen pzero mcmp).
Notation i_first_b := (i_next_first_b pfx L R contains is_bit_set plen pzero mcmp).
Notation i_expand := (SetOps.i_expand pfx L R contains is_bit_set plen pzero mcmp).
Notation im_expand := (SetOps.im_expand pfx L R contains is_bit_set plen pzero mcmp).
Notation intersection := (SetOps.intersection pfx L R contains is_bit_set plen pzero mcmp).
Notation intersection_mut := (SetOps.intersection_mut pfx L R contains is_bit_set plen pzero mcmp).
#[local] Arguments IxBoth {pfx L R}.
#[local] Arguments IxFirstA {pfx L R}.
#[local] Arguments IxFirstB {pfx L R}.

Definition ilt (x : iidx) : treeL := match x with IxBoth l _ | IxFirstA l _ | IxFirstB l _ => l end.
Definition irt (x : iidx) : treeR := match x with IxBoth _ r | IxFirstA _ r | IxFirstB _ r => r end.
Definition isize (x : iidx) : nat := tsize (ilt x) + tsize (irt x).
Definition irel (x : iidx) : Prop :=
  match x with
  | IxBoth l r => kb l = kb r
  | IxFirstA l r => sprefix (kb l) (kb r)
  | IxFirstB l r => sprefix (kb r) (kb l)
  end.
Definition iok (x : iidx) : Prop := nodeW (ilt x) /\ nodeW (irt x) /\ irel x.
Definition RI (x : iidx) (out : list (pfx * L * R)) : Prop :=
  FM (PI (entries (irt x))) (entries (ilt x)) out.

Lemma isize_eq x : isize x = tsize (ilt x) + tsize (irt x).
Proof. reflexivity. Qed.

Lemma i_next_shape a b :
  i_next a b = [] \/ exists x, i_next a b = [x] /\ ilt x = a /\ irt x = b.
Proof.
  unfold i_next_indices. destruct (is_node a), (is_node b); auto.
  destruct (plen _ =? plen _)%N.
  - destruct (mcmp _ _); auto. right. eexists. repeat split.
  - destruct (contains _ _); [right; eexists; repeat split|].
    destruct (contains _ _); [right; eexists; repeat split|]. auto.
Qed.

Lemma i_next_size a b : msize iidx isize (i_next a b) <= tsize a + tsize b.
Proof.
  destruct (i_next_shape a b) as [->|[x [-> [<- <-]]]]; unfold msize; cbn; [lia|]. unfold isize. lia.
Qed.

Lemma i_next_cases ba bb a b : wfL ba a -> wfR bb b ->
  (i_next a b = [] /\ forall e, In e (entries a) -> nocov (bits (fst e)) (entries b)) \/
  (exists x, i_next a b = [x] /\ ilt x = a /\ irt x = b /\ iok x).
Proof.
  intros Ha Hb. destruct a as [|i p v ll lr]; [left; split; [reflexivity | intros e []]|].
  destruct b as [|j q w rl rr]; [left; split; [reflexivity | intros e _; apply nocov_nil]|].
  pose proof (wf_node_inv _ _ _ _ _ _ _ _ _ _ Ha) as [Hp _].
  pose proof (wf_node_inv _ _ _ _ _ _ _ _ _ _ Hb) as [Hq _].
  pose proof (wf_self _ _ _ _ _ _ _ _ _ _ Ha) as Ha'.
  pose proof (wf_self _ _ _ _ _ _ _ _ _ _ Hb) as Hb'.
  unfold i_next_indices. cbn [is_node tpfx]. cbv zeta.
  set (A := Node i p v ll lr) in *. set (B := Node j q w rl rr) in *.
  pose proof (classify _ p q [IxBoth A B] [] [IxFirstA A B] [IxFirstB A B] [] Hp Hq) as C.
  cbv zeta in C.
  assert (NA : nodeW A) by (split; [reflexivity | exact Ha']).
  assert (NB : nodeW B) by (split; [reflexivity | exact Hb']).
  destruct C as [[H ->]|[[H ->]|[[H ->]|[[H ->]|[H ->]]]]].
  - right. eexists. split; [reflexivity|]. repeat split; try apply NA; try apply NB. exact H.
  - left. split; [reflexivity|]. intros e Hin. eapply nocov_incomp; eassumption.
  - right. eexists. split; [reflexivity|]. repeat split; try apply NA; try apply NB; apply H.
  - right. eexists. split; [reflexivity|]. repeat split; try apply NA; try apply NB; apply H.
  - left. split; [reflexivity|]. intros e Hin. eapply nocov_incomp; eassumption.
Qed.

Lemma i_next_local ba bb a b : wfL ba a -> wfR bb b ->
  Forall iok (i_next a b) /\
  forall ls, Forall2 RI (rev (i_next a b)) ls -> FM (PI (entries b)) (entries a) (concat ls).
Proof.
  intros Ha Hb. destruct (i_next_cases _ _ _ _ Ha Hb) as [[E Hn]|[x [E [E1 [E2 Hok]]]]]; rewrite E.
  - split; [constructor|]. intros ls H. apply Forall2_nil_inv in H. subst ls. cbn [concat].
    apply FM_none. intros e Hin. apply PI_nocov. apply Hn. exact Hin.
  - split; [constructor; [exact Hok | constructor]|]. intros ls H.
    apply Forall2_single_inv in H. destruct H as [out [-> H]]. rewrite concat_single.
    unfold RI in H. rewrite E1, E2 in H. exact H.
Qed.

Lemma i_first_a_eq i p v ll lr r :
  i_first_a (Node i p v ll lr) r = i_next (sel p ll lr (tpfx pfx R pzero r)) r.
Proof.
  unfold i_next_first_a, sel. cbn [tleft tright tpfx].
  destruct (is_node ll) eqn:Nl, (is_node lr) eqn:Nr; try reflexivity.
  destruct (to_right _ _); reflexivity.
Qed.

Lemma i_first_b_eq l j q w rl rr :
  i_first_b l (Node j q w rl rr) = i_next l (sel q rl rr (tpfx pfx L pzero l)).
Proof.
  unfold i_next_first_b, sel. cbn [tleft tright tpfx].
  destruct (is_node rl) eqn:Nl, (is_node rr) eqn:Nr; try reflexivity.
  - destruct (to_right _ _); reflexivity.
  - unfold i_next_indices. cbn [is_node]. destruct (is_node l); reflexivity.
Qed.

Ltac inv_expand Hex o cs := inversion Hex; subst o cs; clear Hex.

Lemma i_dec x o cs : iok x -> i_expand x = (o, cs) -> msize iidx isize cs < isize x.
Proof.
  intros [[Nl _] [[Nr _] _]] Hex.
  destruct x as [l r|l r|l r]; cbn [ilt irt] in *;
    (destruct l as [|i p v ll lr]; [discriminate|]); (destruct r as [|j q w rl rr]; [discriminate|]);
    cbn [SetOps.i_expand] in Hex; inv_expand Hex o cs; rewrite isize_eq; cbn [ilt irt tsize].
  - rewrite msize_app. cbn [tright tleft].
    pose proof (i_next_size lr rr). pose proof (i_next_size ll rl). lia.
  - rewrite i_first_a_eq.
    pose proof (i_next_size (sel p ll lr (tpfx pfx R pzero (Node j q w rl rr))) (Node j q w rl rr)) as H.
    pose proof (sel_size L p ll lr (tpfx pfx R pzero (Node j q w rl rr))). cbn [tsize] in H. lia.
  - rewrite i_first_b_eq.
    pose proof (i_next_size (Node i p v ll lr) (sel q rl rr (tpfx pfx L pzero (Node i p v ll lr)))) as H.
    pose proof (sel_size R q rl rr (tpfx pfx L pzero (Node i p v ll lr))). cbn [tsize] in H. lia.
Qed.

Lemma i_local x o cs : iok x -> i_expand x = (o, cs) ->
  Forall iok cs /\ forall ls, Forall2 RI (rev cs) ls -> RI x (opt_cons _ o (concat ls)).
Proof.
  intros [[Nl Hl] [[Nr Hr] Hrel]] Hex.
  destruct x as [l r|l r|l r]; cbn [ilt irt irel] in *;
    (destruct l as [|i p v ll lr]; [discriminate|]); (destruct r as [|j q w rl rr]; [discriminate|]);
    cbn [SetOps.i_expand] in Hex; inv_expand Hex o cs; cbn [tpfx] in *;
    pose proof (wf_node_inv _ _ _ _ _ _ _ _ _ _ Hl) as [Hp [_ [Hll Hlr]]];
    pose proof (wf_node_inv _ _ _ _ _ _ _ _ _ _ Hr) as [Hq [_ [Hrl Hrr]]].
  - (* Both *)
    cbn [tright tleft tval].
    destruct (i_next_local _ _ _ _ Hlr Hrr) as [F1 N1]. destruct (i_next_local _ _ _ _ Hll Hrl) as [F2 N2].
    split; [apply Forall_app; split; assumption|].
    intros ls HF. apply Forall2_rev_app_inv in HF. destruct HF as [l2 [l1 [-> [H2 H1]]]].
    rewrite concat_app. unfold RI. cbn [ilt irt].
    apply FM_node.
    + intros x ->. destruct w as [y|].
      * cbn [PI fst snd]. split; [reflexivity|]. exists q. split; [apply in_entries_own | symmetry; exact Hrel].
      * apply PI_nocov. cbn [fst]. rewrite Hrel. eapply nocov_unvalued. exact Hr.
    + intros ->. reflexivity.
    + eapply FM_weaken; [apply N2; exact H2|]. intros e o' Hin HP.
      eapply (PI_child _ _ _ _ _ _ false); [exact Hr | | exact HP].
      rewrite <- Hrel. eapply entry_under; [exact Hll | exact Hin].
    + eapply FM_weaken; [apply N1; exact H1|]. intros e o' Hin HP.
      eapply (PI_child _ _ _ _ _ _ true); [exact Hr | | exact HP].
      rewrite <- Hrel. eapply entry_under; [exact Hlr | exact Hin].
  - (* FirstA *)
    rewrite i_first_a_eq. cbn [tpfx].
    destruct (sel_wf L _ _ _ _ _ _ q Hl) as [s Hs].
    destruct (i_next_local _ _ _ _ Hs Hr) as [F N].
    split; [exact F|]. intros ls HF. specialize (N ls HF). unfold RI. cbn [ilt irt].
    apply FM_node'.
    + intros x _. apply PI_nocov. cbn [fst]. eapply nocov_above; eassumption.
    + reflexivity.
    + eapply sel_FM_A; [exact N|]. intros e Hin. apply PI_nocov.
      eapply nocov_other; [exact Hl | exact Hq | exact Hr | exact Hrel | exact Hin].
  - (* FirstB *)
    rewrite i_first_b_eq. cbn [tpfx].
    destruct (sel_wf R _ _ _ _ _ _ p Hr) as [s Hs].
    destruct (i_next_local _ _ _ _ Hl Hs) as [F N].
    split; [exact F|]. intros ls HF. cbn [opt_cons]. unfold RI. cbn [ilt irt].
    eapply FM_weaken; [apply N; exact HF|]. intros e o' Hin HP.
    eapply PI_sel; [exact Hr | exact Hp | exact Hrel | | exact HP].
    eapply entry_under; [exact Hl | exact Hin].
Qed.

(** exactly the keys stored in both operands, once, ascending, with both values; the reported
    prefix is the left operand's stored representation *)
Definition inter_spec (A : list (pfx * L)) (B : list (pfx * R)) (out : list (pfx * L * R)) : Prop :=
  StronglySorted (fun i j => lex_lt (bits (fst (fst i))) (bits (fst (fst j)))) out /\
  (forall p l r, In (p, l, r) out -> In (p, l) A /\ exists pr, In (pr, r) B /\ bits pr = bits p) /\
  (forall ea eb, In ea A -> In eb B -> bits (fst ea) = bits (fst eb) ->
                 In (fst ea, snd ea, snd eb) out).

Lemma FM_inter_spec ba bb ta tb out : wfL ba ta -> wfR bb tb ->
  FM (PI (entries tb)) (entries ta) out -> inter_spec (entries ta) (entries tb) out.
Proof.
  intros Ha Hb H. split; [|split].
  - apply (FM_sorted _ _ (fun e => bits (fst e)) (fun it => bits (fst (fst it)))
                     (PI (entries tb)) (entries ta) out).
    + intros e it [E _]. rewrite <- E. reflexivity.
    + exact (entries_sorted pfx L bits ok ba ta Ha).
    + exact H.
  - intros p l r Hin. destruct (FM_in _ _ _ _ _ _ H Hin) as [e [He [E [pr [Hpr Hk]]]]].
    cbn [fst snd] in *. subst e. split; [exact He|]. exists pr. split; assumption.
  - intros ea eb Ha' Hb' Hk.
    destruct (FM_complete _ _ _ _ _ _ H Ha') as [Hn|[it [Hi [E [pr [Hpr Hk']]]]]].
    + exfalso. apply (Hn eb Hb'). symmetry. exact Hk.
    + assert (Eb : eb = (pr, snd it)).
      { eapply (entries_key_inj pfx R bits ok); [exact Hb | exact Hb' | exact Hpr|].
        unfold key. cbn [fst]. congruence. }
      subst eb. cbn [snd]. rewrite <- E. destruct it as [[p l] r]. exact Hi.
Qed.

Theorem intersection_correct ba bb ta tb : wfL ba ta -> wfR bb tb ->
  exists out, intersection ta tb = Some out /\ inter_spec (entries ta) (entries tb) out.
Proof.
  intros Ha Hb. destruct (i_next_local _ _ _ _ Ha Hb) as [F N].
  destruct (run_rel iidx (pfx * L * R) i_expand isize iok RI i_dec i_local
                    (so_fuel pfx L R ta tb) (rev (i_next ta tb))) as [ls [HF Hrun]].
  - apply Forall_rev. exact F.
  - rewrite msize_rev. pose proof (i_next_size ta tb). unfold so_fuel. lia.
  - exists (concat ls). split; [exact Hrun|]. eapply FM_inter_spec; eauto.
Qed.

(** if neither bound covers the other, nothing is yielded *)
Corollary intersection_disjoint ba bb ta tb : wfL ba ta -> wfR bb tb ->
  ~ prefix_of ba bb -> ~ prefix_of bb ba -> intersection ta tb = Some [].
Proof.
  intros Ha Hb N1 N2. destruct (intersection_correct _ _ _ _ Ha Hb) as [out [E [_ [H _]]]].
  rewrite E. f_equal. destruct out as [|[[p l] r] out]; [reflexivity|]. exfalso.
  destruct (H p l r (or_introl eq_refl)) as [HA [pr [HB Hk]]].
  pose proof (entry_under L _ _ _ Ha HA) as U1. pose proof (entry_under R _ _ _ Hb HB) as U2.
  cbn [fst] in *. rewrite Hk in U2.
  destruct (prefix_of_comparable _ _ _ U1 U2); contradiction.
Qed.

(** *** [intersection_mut] *)
Definition subtree1 {T} (t' t : Trie.tree pfx T) : Prop := t' = t \/ t' = tleft t \/ t' = tright t.

Lemma sub_incl T (t' t : Trie.tree pfx T) : subtree1 t' t -> incl (entries_id t') (entries_id t).
Proof.
  intros [-> | [-> | ->]]; [apply incl_refl| |]; destruct t as [|i p v l r];
    cbn [tleft tright entries_id]; try apply incl_refl; intros e He; rewrite !in_app_iff; auto.
Qed.

Lemma idval_own T i (p : pfx) (x : T) l r : In (i, p, x) (entries_id (Node i p (Some x) l r)).
Proof. left. reflexivity. Qed.

Lemma i_next_in a b c : In c (i_next a b) -> ilt c = a /\ irt c = b.
Proof.
  destruct (i_next_shape a b) as [->|[x [-> [E1 E2]]]]; [intros []|]. intros [<-|[]]. auto.
Qed.

Lemma i_children x c : In c (snd (i_expand x)) -> subtree1 (ilt c) (ilt x) /\ subtree1 (irt c) (irt x).
Proof.
  destruct x as [l r|l r|l r]; cbn [SetOps.i_expand snd ilt irt].
  - rewrite in_app_iff. intros [H|H]; apply i_next_in in H; destruct H as [-> ->]; unfold subtree1; auto.
  - unfold i_next_first_a. destruct (is_node (tleft l)), (is_node (tright l));
      try destruct (to_right _ _); intros H; try contradiction;
      apply i_next_in in H; destruct H as [-> ->]; unfold subtree1; auto.
  - unfold i_next_first_b. destruct (is_node (tleft r)), (is_node (tright r));
      try destruct (to_right _ _); intros H; try contradiction;
      apply i_next_in in H; destruct H as [-> ->]; unfold subtree1; auto.
Qed.

Definition iproj : imitem pfx L R -> pfx * L * R := fun '(p, (_, l), (_, r)) => (p, l, r).

Lemma im_sim x :
  fst (i_expand x) = option_map iproj (fst (im_expand x)) /\ snd (i_expand x) = snd (im_expand x).
Proof.
  destruct x as [l r|l r|l r]; cbn [SetOps.i_expand SetOps.im_expand fst snd]; split; try reflexivity.
  destruct l as [|i p [x|] ll lr]; try reflexivity. destruct r as [|j q [y|] rl rr]; reflexivity.
Qed.

Theorem intersection_mut_mirrors ba bb ta tb : wfL ba ta -> wfR bb tb ->
  exists out outm, intersection ta tb = Some out /\ intersection_mut ta tb = Some outm /\
    out = map (fun '(p, (_, l), (_, r)) => (p, l, r)) outm /\
    (forall p i l j r, In (p, (i, l), (j, r)) outm ->
       In (i, p, l) (entries_id ta) /\ exists pr, In (j, pr, r) (entries_id tb) /\ bits pr = bits p).
Proof.
  intros Ha Hb. destruct (intersection_correct _ _ _ _ Ha Hb) as [out [E _]].
  pose proof (run_sim iidx _ _ i_expand im_expand iproj im_sim (so_fuel pfx L R ta tb) (rev (i_next ta tb))) as Hs.
  unfold SetOps.intersection in E. rewrite E in Hs.
  destruct (run iidx (imitem pfx L R) im_expand (so_fuel pfx L R ta tb) (rev (i_next ta tb))) as [outm|] eqn:Em;
    [|discriminate].
  cbn [option_map] in Hs. injection Hs as Hs.
  exists out, outm. split; [exact E|]. split; [exact Em|]. split; [exact Hs|].
  set (inv := fun x : iidx => iok x /\ incl (entries_id (ilt x)) (entries_id ta) /\
                              incl (entries_id (irt x)) (entries_id tb)).
  set (Q := fun it : imitem pfx L R => let '(p, (i, l), (j, r)) := it in
              In (i, p, l) (entries_id ta) /\ exists pr, In (j, pr, r) (entries_id tb) /\ bits pr = bits p).
  assert (HQ : Forall Q outm).
  { apply (run_inv iidx _ im_expand inv Q) with (n := so_fuel pfx L R ta tb) (st := rev (i_next ta tb)); [| |exact Em].
    - intros x o cs [Hok [I1 I2]] Hex.
      pose proof (im_sim x) as [S1 S2]. rewrite Hex in S1, S2. cbn [fst snd] in S1, S2.
      destruct (i_local x _ _ Hok (surjective_pairing _)) as [F _]. rewrite S2 in F.
      split.
      + apply Forall_forall. intros c Hc. split; [rewrite Forall_forall in F; apply F; exact Hc|].
        rewrite <- S2 in Hc. apply i_children in Hc. destruct Hc as [C1 C2].
        split; (eapply incl_tran; [apply sub_incl; eassumption | assumption]).
      + intros it ->. destruct Hok as [_ [_ Hrel]].
        destruct x as [l r|l r|l r]; cbn [SetOps.im_expand] in Hex; try discriminate.
        destruct l as [|i p [x|] ll lr]; try discriminate. destruct r as [|j q [y|] rl rr]; try discriminate.
        cbn in Hex. inversion Hex; subst. cbn [ilt irt irel tpfx] in *.
        split; [apply I1; apply idval_own|]. exists q. split; [apply I2; apply idval_own | symmetry; exact Hrel].
    - apply Forall_rev. apply Forall_forall. intros c Hc.
      destruct (i_next_local _ _ _ _ Ha Hb) as [F _]. rewrite Forall_forall in F.
      split; [apply F; exact Hc|]. apply i_next_in in Hc. destruct Hc as [-> ->].
      split; apply incl_refl. }
  intros p i l j r Hin. rewrite Forall_forall in HQ. exact (HQ _ Hin).
Qed.

(* ---------------------------------------------------------------------------------------- *)
(** * difference and covering difference: the shared part *)

Notation didx := (SetOps.didx pfx L R).
Notation d_next := (d_next_indices pfx L R contains plen pzero mcmp).
Notation d_first_a := (d_next_first_a pfx L R contains is_bit_set plen pzero mcmp).
Notation d_first_b := (d_next_first_b pfx L R contains is_bit_set plen pzero mcmp).
Notation d_ext := (d_extend_lpm pfx L R).
Notation d_only := (d_only_l pfx L R).
Notation d_expand := (SetOps.d_expand pfx L R contains is_bit_set plen pzero mcmp).
Notation dm_expand := (SetOps.dm_expand pfx L R contains is_bit_set plen pzero mcmp).
Notation cd_expand := (SetOps.cd_expand pfx L R contains is_bit_set plen pzero mcmp).
Notation cdm_expand := (SetOps.cdm_expand pfx L R contains is_bit_set plen pzero mcmp).
Notation difference := (SetOps.difference pfx L R contains is_bit_set plen pzero mcmp).
Notation difference_mut := (SetOps.difference_mut pfx L R contains is_bit_set plen pzero mcmp).
Notation covering_difference := (SetOps.covering_difference pfx L R contains is_bit_set plen pzero mcmp).
Notation covering_difference_mut :=
  (SetOps.covering_difference_mut pfx L R contains is_bit_set plen pzero mcmp).
#[local] Arguments DBoth {pfx L R}.
#[local] Arguments DFirstL {pfx L R}.
#[local] Arguments DFirstR {pfx L R}.
#[local] Arguments DOnlyL {pfx L R}.

Definition dlt (x : didx) : treeL :=
  match x with DBoth l _ | DFirstL l _ | DFirstR l _ | DOnlyL l => l end.
Definition drt (x : didx) : treeR :=
  match x with DBoth _ r | DFirstL _ r | DFirstR _ r => r | DOnlyL _ => Leaf end.
Definition dsize (x : didx) : nat := tsize (dlt x) + tsize (drt x).
Definition dok0 (x : didx) : Prop :=
  nodeW (dlt x) /\
  match x with
  | DBoth l r => nodeW r /\ kb l = kb r
  | DFirstL l r => nodeW r /\ sprefix (kb l) (kb r)
  | DFirstR l r => nodeW r /\ sprefix (kb r) (kb l)
  | DOnlyL _ => True
  end.
(** the entries pushed by one iteration (before the inherited match is attached) *)
Definition dchildren (x : didx) : list didx :=
  match x with
  | DBoth l r => d_next (tright l) (tright r) ++ d_next (tleft l) (tleft r)
  | DFirstL l r => d_first_a l r
  | DFirstR l r => d_first_b l r
  | DOnlyL l => d_only l
  end.

Lemma dsize_eq x : dsize x = tsize (dlt x) + tsize (drt x).
Proof. reflexivity. Qed.

Lemma d_next_shape a b :
  d_next a b = [] \/ exists x, d_next a b = [x] /\ dlt x = a /\ tsize (drt x) <= tsize b.
Proof.
  unfold d_next_indices. destruct (is_node a); [|auto]. destruct (is_node b).
  - destruct (plen _ =? plen _)%N.
    + destruct (mcmp _ _); right; eexists; repeat split; cbn [drt tsize]; lia.
    + destruct (contains _ _); [right; eexists; repeat split; cbn [drt tsize]; lia|].
      destruct (contains _ _); right; eexists; repeat split; cbn [drt tsize]; lia.
  - right; eexists; repeat split; cbn [drt tsize]; lia.
Qed.

Lemma d_next_in a b c : In c (d_next a b) -> dlt c = a.
Proof.
  destruct (d_next_shape a b) as [->|[x [-> [E1 E2]]]]; [intros []|]. intros [<-|[]]. exact E1.
Qed.

Lemma d_next_size a b : msize didx dsize (d_next a b) <= tsize a + tsize b.
Proof.
  destruct (d_next_shape a b) as [->|[x [-> [<- E2]]]]; unfold msize; cbn [map list_sum fold_right]; [lia|].
  rewrite dsize_eq. lia.
Qed.

Lemma d_next_cases ba bb a b : wfL ba a -> wfR bb b ->
  (a = Leaf /\ d_next a b = []) \/
  (nodeW a /\ d_next a b = [DOnlyL a] /\ forall e, In e (entries a) -> nocov (bits (fst e)) (entries b)) \/
  (exists x, d_next a b = [x] /\ dlt x = a /\ drt x = b /\ dok0 x).
Proof.
  intros Ha Hb. destruct a as [|i p v ll lr]; [left; split; reflexivity|]. right.
  pose proof (wf_node_inv _ _ _ _ _ _ _ _ _ _ Ha) as [Hp _].
  pose proof (wf_self _ _ _ _ _ _ _ _ _ _ Ha) as Ha'.
  set (A := Node i p v ll lr) in *.
  assert (NA : nodeW A) by (split; [reflexivity | exact Ha']).
  destruct b as [|j q w rl rr].
  { left. split; [exact NA|]. split; [reflexivity|]. intros e _. apply nocov_nil. }
  pose proof (wf_node_inv _ _ _ _ _ _ _ _ _ _ Hb) as [Hq _].
  pose proof (wf_self _ _ _ _ _ _ _ _ _ _ Hb) as Hb'.
  set (B := Node j q w rl rr) in *.
  assert (NB : nodeW B) by (split; [reflexivity | exact Hb']).
  unfold d_next_indices. cbn [is_node tpfx A B]. cbv zeta. fold A. fold B.
  pose proof (classify _ p q [DBoth A B] [DOnlyL A] [DFirstL A B] [DFirstR A B] [DOnlyL A] Hp Hq) as C.
  cbv zeta in C.
  destruct C as [[H ->]|[[H ->]|[[H ->]|[[H ->]|[H ->]]]]].
  - right. eexists. split; [reflexivity|]. repeat split; try apply NA; try apply NB. exact H.
  - left. split; [exact NA|]. split; [reflexivity|]. intros e Hin. eapply nocov_incomp; eassumption.
  - right. eexists. split; [reflexivity|]. repeat split; try apply NA; try apply NB; apply H.
  - right. eexists. split; [reflexivity|]. repeat split; try apply NA; try apply NB; apply H.
  - left. split; [exact NA|]. split; [reflexivity|]. intros e Hin. eapply nocov_incomp; eassumption.
Qed.

Lemma d_next_ok ba bb a b : wfL ba a -> wfR bb b -> Forall dok0 (d_next a b).
Proof.
  intros Ha Hb. destruct (d_next_cases _ _ _ _ Ha Hb) as [[_ ->]|[[N [-> _]]|[x [-> [_ [_ H]]]]]].
  - constructor.
  - constructor; [split; [exact N | exact I] | constructor].
  - constructor; [exact H | constructor].
Qed.

Lemma d_first_b_eq i p v ll lr j q w rl rr :
  d_first_b (Node i p v ll lr) (Node j q w rl rr) = d_next (Node i p v ll lr) (sel q rl rr p).
Proof.
  unfold d_next_first_b, sel. cbn [tleft tright tpfx].
  destruct (is_node rl) eqn:Nl, (is_node rr) eqn:Nr; try reflexivity.
  destruct (to_right _ _); reflexivity.
Qed.

Lemma nodeW_child b i p v (ll lr : treeL) s :
  wfL b (Node i p v ll lr) -> is_node (child_of pfx L ll lr s) = true -> nodeW (child_of pfx L ll lr s).
Proof. intros H N. eapply nodeW_of; [eapply wf_child; exact H | exact N]. Qed.

Lemma d_children_ok x : dok0 x -> Forall dok0 (dchildren x).
Proof.
  intros [[Nl Hl] Hx]. destruct x as [l r|l r|l r|l]; cbn [dlt dchildren] in *;
    (destruct l as [|i p v ll lr]; [discriminate|]);
    pose proof (wf_node_inv _ _ _ _ _ _ _ _ _ _ Hl) as [Hp [_ [Hll Hlr]]].
  - destruct Hx as [[Nr Hr] _]. destruct r as [|j q w rl rr]; [discriminate|].
    pose proof (wf_node_inv _ _ _ _ _ _ _ _ _ _ Hr) as [Hq [_ [Hrl Hrr]]].
    cbn [tleft tright]. apply Forall_app. split; eapply d_next_ok; eassumption.
  - destruct Hx as [[Nr Hr] _]. unfold d_next_first_a. cbn [tleft tright].
    destruct (is_node ll) eqn:N1, (is_node lr) eqn:N2.
    + destruct (to_right _ _).
      * apply Forall_app. split; [eapply d_next_ok; eassumption|].
        constructor; [|constructor]. split; [|exact I]. exact (nodeW_child _ _ _ _ _ _ false Hl N1).
      * constructor; [|eapply d_next_ok; eassumption].
        split; [|exact I]. exact (nodeW_child _ _ _ _ _ _ true Hl N2).
    + eapply d_next_ok; eassumption.
    + eapply d_next_ok; eassumption.
    + constructor.
  - destruct Hx as [[Nr Hr] _]. destruct r as [|j q w rl rr]; [discriminate|].
    rewrite d_first_b_eq. destruct (sel_wf R _ _ _ _ _ _ p Hr) as [s Hs].
    eapply d_next_ok; eassumption.
  - unfold d_only_l. cbn [tleft tright]. apply Forall_app. split.
    + destruct (is_node lr) eqn:N2; constructor; [|constructor].
      split; [|exact I]. exact (nodeW_child _ _ _ _ _ _ true Hl N2).
    + destruct (is_node ll) eqn:N1; constructor; [|constructor].
      split; [|exact I]. exact (nodeW_child _ _ _ _ _ _ false Hl N1).
Qed.

Lemma d_children_size x : dok0 x -> msize didx dsize (dchildren x) < dsize x.
Proof.
  intros [[Nl _] Hx]. rewrite dsize_eq.
  destruct x as [l r|l r|l r|l]; cbn [dlt drt dchildren] in *;
    (destruct l as [|i p v ll lr]; [discriminate|]); cbn [tsize].
  - destruct Hx as [[Nr _] _]. destruct r as [|j q w rl rr]; [discriminate|]. cbn [tsize tleft tright].
    rewrite msize_app. pose proof (d_next_size lr rr). pose proof (d_next_size ll rl). lia.
  - unfold d_next_first_a. cbn [tleft tright].
    pose proof (d_next_size lr r). pose proof (d_next_size ll r).
    destruct (is_node ll), (is_node lr); try destruct (to_right _ _);
      rewrite ?msize_app, ?msize_cons, ?dsize_eq; cbn [dlt drt tsize]; unfold msize in *; cbn [map list_sum fold_right];
      rewrite ?dsize_eq; cbn [dlt drt tsize]; lia.
  - destruct Hx as [[Nr _] _]. destruct r as [|j q w rl rr]; [discriminate|]. rewrite d_first_b_eq.
    pose proof (d_next_size (Node i p v ll lr) (sel q rl rr p)) as H.
    pose proof (sel_size R q rl rr p). cbn [tsize] in *. lia.
  - unfold d_only_l. cbn [tleft tright]. rewrite msize_app.
    destruct (is_node ll), (is_node lr); unfold msize; cbn [map list_sum fold_right]; rewrite ?dsize_eq;
      cbn [dlt drt tsize]; lia.
Qed.

Lemma d_children_in x c : In c (dchildren x) -> subtree1 (dlt c) (dlt x).
Proof.
  destruct x as [l r|l r|l r|l]; cbn [dchildren dlt].
  - rewrite in_app_iff. intros [H|H]; apply d_next_in in H; rewrite H; unfold subtree1; auto.
  - unfold d_next_first_a. destruct (is_node (tleft l)), (is_node (tright l));
      try destruct (to_right _ _); cbn [In]; rewrite ?in_app_iff; cbn [In]; unfold subtree1;
      intros H; repeat (destruct H as [H|H]); try contradiction;
      try (apply d_next_in in H; rewrite H; auto); try (subst c; cbn [dlt]; auto).
  - unfold d_next_first_b. destruct (is_node (tleft r)), (is_node (tright r));
      try destruct (to_right _ _); cbn [In]; unfold subtree1;
      intros H; repeat (destruct H as [H|H]); try contradiction;
      try (apply d_next_in in H; rewrite H; auto); try (subst c; cbn [dlt]; auto).
  - unfold d_only_l. destruct (is_node (tleft l)), (is_node (tright l)); cbn [app In]; unfold subtree1;
      intros H; repeat (destruct H as [H|H]); try contradiction; subst c; cbn [dlt]; auto.
Qed.

(** the shape of the children lists, against an arbitrary per-entry relation *)
Section Shape.
Variables (I : Type) (P : pfx * L -> option I -> Prop) (Rg : didx -> list I -> Prop).

Lemma F2_app_FM (c1 c2 : list didx) (A1 A2 : list (pfx * L)) :
  (forall ls, Forall2 Rg (rev c2) ls -> FM P A2 (concat ls)) ->
  (forall ls, Forall2 Rg (rev c1) ls -> FM P A1 (concat ls)) ->
  forall ls, Forall2 Rg (rev (c1 ++ c2)) ls -> FM P (A2 ++ A1) (concat ls).
Proof.
  intros H2 H1 ls HF. apply Forall2_rev_app_inv in HF. destruct HF as [l2 [l1 [-> [F2 F1]]]].
  rewrite concat_app. apply FM_app; [apply H2; exact F2 | apply H1; exact F1].
Qed.

Lemma F2_one_FM (c : didx) (A : list (pfx * L)) :
  (forall out, Rg c out -> FM P A out) -> forall ls, Forall2 Rg (rev [c]) ls -> FM P A (concat ls).
Proof.
  intros H ls HF. apply Forall2_single_inv in HF. destruct HF as [out [-> HR]].
  rewrite concat_single. apply H. exact HR.
Qed.

Lemma F2_only_FM (c : treeL) :
  (forall out, Rg (DOnlyL c) out -> FM P (entries c) out) ->
  forall ls, Forall2 Rg (rev (if is_node c then [DOnlyL c] else [])) ls -> FM P (entries c) (concat ls).
Proof.
  intros H. destruct c as [|i p v l r]; cbn [is_node].
  - intros ls HF. apply Forall2_nil_inv in HF. subst ls. constructor.
  - apply F2_one_FM. exact H.
Qed.

Lemma d_first_a_FM i p v (ll lr : treeL) (r : treeR) :
  let s := to_right p (tpfx pfx R pzero r) in
  (forall a ls, a = ll \/ a = lr -> Forall2 Rg (rev (d_next a r)) ls -> FM P (entries a) (concat ls)) ->
  (forall out, Rg (DOnlyL (child_of pfx L ll lr (negb s))) out ->
               FM P (entries (child_of pfx L ll lr (negb s))) out) ->
  forall ls, Forall2 Rg (rev (d_first_a (Node i p v ll lr) r)) ls ->
             FM P (entries ll ++ entries lr) (concat ls).
Proof.
  intros s Hnext Honly. unfold d_next_first_a. cbn [tleft tright tpfx]. fold s.
  destruct (is_node ll) eqn:N1, (is_node lr) eqn:N2.
  - destruct s; cbn [negb child_of] in Honly.
    + apply F2_app_FM; [apply F2_one_FM; exact Honly | intros ls; apply Hnext; auto].
    + change (DOnlyL lr :: d_next ll r) with ([DOnlyL lr] ++ d_next ll r).
      apply F2_app_FM; [intros ls; apply Hnext; auto | apply F2_one_FM; exact Honly].
  - destruct lr; [|discriminate]. cbn [entries]. rewrite app_nil_r. intros ls. apply Hnext. auto.
  - destruct ll; [|discriminate]. cbn [entries app]. intros ls. apply Hnext. auto.
  - destruct ll; [|discriminate]. destruct lr; [|discriminate].
    intros ls HF. apply Forall2_nil_inv in HF. subst ls. constructor.
Qed.

Lemma d_only_FM i p v (ll lr : treeL) :
  (forall c out, Rg (DOnlyL c) out -> FM P (entries c) out) ->
  forall ls, Forall2 Rg (rev (d_only (Node i p v ll lr))) ls -> FM P (entries ll ++ entries lr) (concat ls).
Proof.
  intros H. unfold d_only_l. cbn [tleft tright].
  apply F2_app_FM; apply F2_only_FM; apply H.
Qed.
End Shape.

Lemma Forall2_map_l' {X Y Z} (g : X -> Y) (Rl : Y -> Z -> Prop) xs : forall ls,
  Forall2 Rl (map g xs) ls -> Forall2 (fun x => Rl (g x)) xs ls.
Proof.
  induction xs as [|x xs IH]; intros ls H; inversion H; subst; constructor; auto.
Qed.

(* ---------------------------------------------------------------------------------------- *)
(** * covering difference *)

Definition RC (x : didx) (out : list (pfx * L)) : Prop :=
  FM (PC (entries (drt x))) (entries (dlt x)) out.

Lemma cn_local ba bb a b : wfL ba a -> wfR bb b ->
  forall ls, Forall2 RC (rev (d_next a b)) ls -> FM (PC (entries b)) (entries a) (concat ls).
Proof.
  intros Ha Hb.
  destruct (d_next_cases _ _ _ _ Ha Hb) as [[-> ->]|[[N [-> Hn]]|[x [-> [E1 [E2 _]]]]]].
  - intros ls HF. apply Forall2_nil_inv in HF. subst ls. constructor.
  - apply F2_one_FM. intros out H. unfold RC in H. cbn [dlt drt] in H.
    eapply FM_weaken; [exact H|]. intros e o Hin HP. eapply PC_ceq; [|exact HP].
    apply ceq_nocov. apply Hn. exact Hin.
  - apply F2_one_FM. intros out H. unfold RC in H. rewrite E1, E2 in H. exact H.
Qed.

Lemma cd_children x o cs : cd_expand x = (o, cs) -> cs = dchildren x \/ cs = [].
Proof.
  destruct x as [l r|l r|l r|l]; cbn [SetOps.cd_expand dchildren]; try destruct (is_some (tval r));
    intros H; inversion H; auto.
Qed.

Lemma cd_dec x o cs : dok0 x -> cd_expand x = (o, cs) -> msize didx dsize cs < dsize x.
Proof.
  intros Hok Hex. pose proof (d_children_size x Hok) as H.
  destruct (cd_children _ _ _ Hex) as [->| ->]; [exact H|].
  unfold msize in *. cbn [map list_sum fold_right]. lia.
Qed.

Lemma cd_local x o cs : dok0 x -> cd_expand x = (o, cs) ->
  Forall dok0 cs /\ forall ls, Forall2 RC (rev cs) ls -> RC x (opt_cons _ o (concat ls)).
Proof.
  intros Hok Hex. split.
  { destruct (cd_children _ _ _ Hex) as [->| ->]; [apply d_children_ok; exact Hok | constructor]. }
  destruct Hok as [[Nl Hl] Hx]. unfold RC.
  destruct x as [l r|l r|l r|l]; cbn [dlt drt] in *;
    (destruct l as [|i p v ll lr]; [discriminate|]);
    pose proof (wf_node_inv _ _ _ _ _ _ _ _ _ _ Hl) as [Hp [_ [Hll Hlr]]];
    cbn [SetOps.cd_expand] in Hex.
  - (* Both *)
    destruct Hx as [[Nr Hr] Hrel]. destruct r as [|j q w rl rr]; [discriminate|].
    pose proof (wf_node_inv _ _ _ _ _ _ _ _ _ _ Hr) as [Hq [_ [Hrl Hrr]]].
    cbn [tval tpfx tleft tright] in *. destruct w as [y|]; cbn [is_some is_none negb] in Hex; inv_expand Hex o cs.
    + intros ls HF. apply Forall2_nil_inv in HF. subst ls. cbn [opt_cons concat].
      apply FM_none. intros e Hin. exists (q, y). split; [apply in_entries_own|].
      cbn [fst]. rewrite <- Hrel. eapply entry_under; [exact Hl | exact Hin].
    + intros ls HF. apply FM_node'.
      * intros x ->. apply PC_nocov. cbn [fst]. rewrite Hrel. eapply nocov_unvalued. exact Hr.
      * intros ->. reflexivity.
      * revert ls HF. apply F2_app_FM.
        -- intros ls HF. eapply FM_weaken; [eapply cn_local; [exact Hll | exact Hrl | exact HF]|].
           intros e o' Hin HP. eapply (PC_child _ _ _ _ _ false); [exact Hr | | exact HP].
           rewrite <- Hrel. eapply entry_under; [exact Hll | exact Hin].
        -- intros ls HF. eapply FM_weaken; [eapply cn_local; [exact Hlr | exact Hrr | exact HF]|].
           intros e o' Hin HP. eapply (PC_child _ _ _ _ _ true); [exact Hr | | exact HP].
           rewrite <- Hrel. eapply entry_under; [exact Hlr | exact Hin].
  - (* FirstL *)
    destruct Hx as [[Nr Hr] Hrel]. inv_expand Hex o cs. cbn [tval tpfx] in *.
    assert (Hq : ok (tpfx pfx R pzero r)).
    { destruct r as [|j q w rl rr]; [discriminate|]. apply (wf_node_inv _ _ _ _ _ _ _ _ _ _ Hr). }
    intros ls HF. apply FM_node'.
    + intros x ->. apply PC_nocov. cbn [fst]. eapply nocov_above; eassumption.
    + intros ->. reflexivity.
    + revert ls HF. apply d_first_a_FM.
      * intros a ls [-> | ->] HF; eapply cn_local; eassumption.
      * intros out H. unfold RC in H. cbn [dlt drt] in H. eapply FM_weaken; [exact H|].
        intros e o' Hin HP. eapply PC_ceq; [|exact HP]. apply ceq_nocov.
        eapply nocov_other; [exact Hl | exact Hq | exact Hr | exact Hrel | exact Hin].
  - (* FirstR *)
    destruct Hx as [[Nr Hr] Hrel]. destruct r as [|j q w rl rr]; [discriminate|].
    cbn [tval tpfx] in *. destruct w as [y|]; cbn [is_some is_none negb] in Hex; inv_expand Hex o cs.
    + intros ls HF. apply Forall2_nil_inv in HF. subst ls. cbn [opt_cons concat].
      apply FM_none. intros e Hin. exists (q, y). split; [apply in_entries_own|].
      cbn [fst]. eapply prefix_of_trans; [exact (proj1 Hrel)|]. eapply entry_under; [exact Hl | exact Hin].
    + rewrite d_first_b_eq. destruct (sel_wf R _ _ _ _ _ _ p Hr) as [s Hs].
      intros ls HF. cbn [opt_cons].
      eapply FM_weaken; [eapply cn_local; [exact Hl | exact Hs | exact HF]|].
      intros e o' Hin HP. eapply PC_sel; [exact Hr | exact Hp | exact Hrel | | exact HP].
      eapply entry_under; [exact Hl | exact Hin].
  - (* OnlyL *)
    inv_expand Hex o cs. cbn [tval tpfx]. intros ls HF. apply FM_node'.
    + intros x ->. apply PC_nocov. apply nocov_nil.
    + intros ->. reflexivity.
    + revert ls HF. apply d_only_FM. intros c out H. exact H.
Qed.

(** the entries of the left operand whose key is not covered by any key of the right operand *)
Definition cdiff_spec (A : list (pfx * L)) (B : list (pfx * R)) (out : list (pfx * L)) : Prop :=
  StronglySorted (fun i j => lex_lt (bits (fst i)) (bits (fst j))) out /\
  (forall e, In e out <->
             In e A /\ forall e', In e' B -> ~ prefix_of (bits (fst e')) (bits (fst e))).

Lemma FM_cdiff_spec ba ta B out : wfL ba ta ->
  FM (PC B) (entries ta) out -> cdiff_spec (entries ta) B out.
Proof.
  intros Ha H. split.
  - apply (FM_sorted _ _ (fun e => bits (fst e)) (fun e => bits (fst e)) (PC B) (entries ta) out).
    + intros e it [E _]. rewrite E. reflexivity.
    + exact (entries_sorted pfx L bits ok ba ta Ha).
    + exact H.
  - intros e. split.
    + intros Hin. destruct (FM_in _ _ _ _ _ _ H Hin) as [e0 [He0 [E Hn]]]. subst e0.
      split; [exact He0 | exact Hn].
    + intros [Hin Hn]. destruct (FM_complete _ _ _ _ _ _ H Hin) as [[e' [He' Hc]]|[it [Hi [E _]]]].
      * exfalso. eapply Hn; eauto.
      * subst it. exact Hi.
Qed.

Theorem covering_difference_correct ba bb ta tb : wfL ba ta -> wfR bb tb ->
  exists out, covering_difference ta tb = Some out /\ cdiff_spec (entries ta) (entries tb) out.
Proof.
  intros Ha Hb.
  destruct (run_rel didx (pfx * L) cd_expand dsize dok0 RC cd_dec cd_local
                    (so_fuel pfx L R ta tb) (rev (d_next ta tb))) as [ls [HF Hrun]].
  - apply Forall_rev. eapply d_next_ok; eassumption.
  - rewrite msize_rev. pose proof (d_next_size ta tb). unfold so_fuel. lia.
  - exists (concat ls). split; [exact Hrun|]. eapply FM_cdiff_spec; [exact Ha|].
    eapply cn_local; eassumption.
Qed.

(* ---------------------------------------------------------------------------------------- *)
(** * difference *)

(** consistency of the inherited match: it already accounts for the right root *)
Definition dcons (x : didx) (rho : lpmR) : Prop :=
  match x with
  | DBoth _ r | DFirstR _ r => forall y, tval r = Some y -> rho = Some (tpfx pfx R pzero r, y)
  | _ => True
  end.
Definition dext (rho : lpmR) (x : didx) : lpmR :=
  match x with DBoth _ r | DFirstR _ r => orelse (pv r) rho | _ => rho end.
Definition dok (e : didx * lpmR) : Prop := dok0 (fst e) /\ dcons (fst e) (snd e).
Definition dsz (e : didx * lpmR) : nat := dsize (fst e).
Definition RD (e : didx * lpmR) (out : list (pfx * L * lpmR)) : Prop :=
  FM (PD (entries (drt (fst e))) (snd e)) (entries (dlt (fst e))) out.

Lemma d_ext_eq rho xs : d_ext rho xs = map (fun x => (x, dext rho x)) xs.
Proof. unfold d_extend_lpm. apply map_ext. intros [l r|l r|l r|l]; reflexivity. Qed.

Lemma dcons_dext rho x : dcons x (dext rho x).
Proof.
  destruct x as [l r|l r|l r|l]; cbn [dcons dext]; trivial;
    intros y E; destruct r as [|j q [w|] rl rr]; cbn in *; try discriminate; inversion E; reflexivity.
Qed.

Lemma PD_dext rho x e o : dok0 x -> In e (entries (dlt x)) ->
  PD (entries (drt x)) (dext rho x) e o -> PD (entries (drt x)) rho e o.
Proof.
  intros [[Nl Hl] Hx] Hin. destruct x as [l r|l r|l r|l]; cbn [dext dlt drt] in *; trivial.
  - destruct Hx as [[Nr Hr] Hrel]. apply PD_orelse. intros e0 E.
    destruct r as [|j q [y|] rl rr]; cbn in E; try discriminate. inversion E; subst e0.
    split; [apply in_entries_own|]. cbn [fst tpfx] in *. rewrite <- Hrel.
    eapply entry_under; [exact Hl | exact Hin].
  - destruct Hx as [[Nr Hr] Hrel]. apply PD_orelse. intros e0 E.
    destruct r as [|j q [y|] rl rr]; cbn in E; try discriminate. inversion E; subst e0.
    split; [apply in_entries_own|]. cbn [fst tpfx] in *.
    eapply prefix_of_trans; [exact (proj1 Hrel)|]. eapply entry_under; [exact Hl | exact Hin].
Qed.

Lemma dn_local rho ba bb a b : wfL ba a -> wfR bb b ->
  forall ls, Forall2 (fun x => RD (x, dext rho x)) (rev (d_next a b)) ls ->
             FM (PD (entries b) rho) (entries a) (concat ls).
Proof.
  intros Ha Hb.
  destruct (d_next_cases _ _ _ _ Ha Hb) as [[-> ->]|[[N [-> Hn]]|[x [-> [E1 [E2 Hok]]]]]].
  - intros ls HF. apply Forall2_nil_inv in HF. subst ls. constructor.
  - apply F2_one_FM. intros out H. unfold RD in H. cbn [fst snd dext dlt drt] in H.
    eapply FM_weaken; [exact H|]. intros e o Hin HP. eapply PD_ceq; [|exact HP].
    apply ceq_nocov. apply Hn. exact Hin.
  - apply F2_one_FM. intros out H. unfold RD in H. cbn [fst snd] in H.
    eapply FM_weaken in H; [|intros e o Hin HP; eapply PD_dext; [exact Hok | exact Hin | exact HP]].
    rewrite E1, E2 in H. exact H.
Qed.

Lemma d_expand_children x rho : snd (d_expand (x, rho)) = d_ext rho (dchildren x).
Proof.
  destruct x as [l r|l r|l r|l]; cbn [SetOps.d_expand snd dchildren]; try reflexivity.
  unfold d_extend_lpm. rewrite map_app. reflexivity.
Qed.

Lemma msize_d_ext rho xs : msize _ dsz (d_ext rho xs) = msize _ dsize xs.
Proof. rewrite d_ext_eq. unfold msize. rewrite map_map. reflexivity. Qed.

Lemma d_ext_ok rho xs : Forall dok0 xs -> Forall dok (d_ext rho xs).
Proof.
  intros F. rewrite d_ext_eq. apply Forall_forall. intros c Hc. apply in_map_iff in Hc.
  destruct Hc as [x' [<- Hx']]. split; cbn [fst snd]; [|apply dcons_dext].
  rewrite Forall_forall in F. apply F. exact Hx'.
Qed.

Lemma d_dec e o cs : dok e -> d_expand e = (o, cs) -> msize _ dsz cs < dsz e.
Proof.
  destruct e as [x rho]. intros [Hok _] Hex. cbn [fst] in Hok.
  assert (Hcs : cs = d_ext rho (dchildren x)) by (rewrite <- d_expand_children, Hex; reflexivity).
  subst cs. rewrite msize_d_ext. apply d_children_size. exact Hok.
Qed.

Lemma d_local e o cs : dok e -> d_expand e = (o, cs) ->
  Forall dok cs /\ forall ls, Forall2 RD (rev cs) ls -> RD e (opt_cons _ o (concat ls)).
Proof.
  destruct e as [x rho]. intros [Hok Hcons] Hex. cbn [fst snd] in Hok, Hcons.
  assert (Hcs : cs = d_ext rho (dchildren x)) by (rewrite <- d_expand_children, Hex; reflexivity).
  assert (Ho : o = fst (d_expand (x, rho))) by (rewrite Hex; reflexivity).
  clear Hex. subst cs o. split; [apply d_ext_ok; apply d_children_ok; exact Hok|].
  intros ls HF. rewrite d_ext_eq, <- map_rev in HF. apply Forall2_map_l' in HF.
  unfold RD. cbn [fst snd]. destruct Hok as [[Nl Hl] Hx].
  destruct x as [l r|l r|l r|l]; cbn [dlt drt dchildren dcons] in *;
    (destruct l as [|i p v ll lr]; [discriminate|]);
    pose proof (wf_node_inv _ _ _ _ _ _ _ _ _ _ Hl) as [Hp [_ [Hll Hlr]]];
    cbn [SetOps.d_expand fst tval tpfx] in *.
  - (* Both *)
    destruct Hx as [[Nr Hr] Hrel]. destruct r as [|j q w rl rr]; [discriminate|].
    pose proof (wf_node_inv _ _ _ _ _ _ _ _ _ _ Hr) as [Hq [_ [Hrl Hrr]]].
    cbn [tval tpfx tleft tright] in *. apply FM_node'.
    + intros x ->. destruct w as [y|]; cbn [is_none].
      * exists (q, y). split; [apply in_entries_own | symmetry; exact Hrel].
      * apply PD_nocov. rewrite Hrel. eapply nocov_unvalued. exact Hr.
    + intros ->. reflexivity.
    + revert ls HF. apply F2_app_FM.
      * intros ls HF. eapply FM_weaken; [eapply dn_local; [exact Hll | exact Hrl | exact HF]|].
        intros e o' Hin HP. eapply (PD_child _ _ _ _ _ _ false); [exact Hr | | exact Hcons | exact HP].
        rewrite <- Hrel. eapply entry_under; [exact Hll | exact Hin].
      * intros ls HF. eapply FM_weaken; [eapply dn_local; [exact Hlr | exact Hrr | exact HF]|].
        intros e o' Hin HP. eapply (PD_child _ _ _ _ _ _ true); [exact Hr | | exact Hcons | exact HP].
        rewrite <- Hrel. eapply entry_under; [exact Hlr | exact Hin].
  - (* FirstL *)
    destruct Hx as [[Nr Hr] Hrel].
    assert (Hq : ok (tpfx pfx R pzero r)).
    { destruct r as [|j q w rl rr]; [discriminate|]. apply (wf_node_inv _ _ _ _ _ _ _ _ _ _ Hr). }
    apply FM_node'.
    + intros x ->. apply PD_nocov. eapply nocov_above; eassumption.
    + intros ->. reflexivity.
    + revert ls HF. apply d_first_a_FM.
      * intros a ls [-> | ->] HF; eapply dn_local; eassumption.
      * intros out H. unfold RD in H. cbn [fst snd dext dlt drt] in H. eapply FM_weaken; [exact H|].
        intros e o' Hin HP. eapply PD_ceq; [|exact HP]. apply ceq_nocov.
        eapply nocov_other; [exact Hl | exact Hq | exact Hr | exact Hrel | exact Hin].
  - (* FirstR *)
    destruct Hx as [[Nr Hr] Hrel]. destruct r as [|j q w rl rr]; [discriminate|].
    cbn [tval tpfx] in *. rewrite d_first_b_eq in HF. destruct (sel_wf R _ _ _ _ _ _ p Hr) as [s Hs].
    cbn [opt_cons].
    eapply FM_weaken; [eapply dn_local; [exact Hl | exact Hs | exact HF]|].
    intros e o' Hin HP. eapply PD_sel; [exact Hr | exact Hp | exact Hrel | | exact Hcons | exact HP].
    eapply entry_under; [exact Hl | exact Hin].
  - (* OnlyL *)
    apply FM_node'.
    + intros x ->. apply PD_nocov. apply nocov_nil.
    + intros ->. reflexivity.
    + revert ls HF. apply d_only_FM. intros c out H. exact H.
Qed.

(** the entries of the left operand whose key is not stored in the right operand, annotated
    with the longest-prefix match of the key in the right operand *)
Definition lpm_ann {T} (B : list (pfx * T)) (p : pfx) (ann : option (pfx * T)) : Prop :=
  match ann with
  | Some e => Lookup.is_lpm pfx T bits B p e
  | None => Lookup.no_cover pfx T bits B p
  end.
Definition diff_spec (A : list (pfx * L)) (B : list (pfx * R))
                     (out : list (pfx * L * option (pfx * R))) : Prop :=
  StronglySorted (fun i j => lex_lt (bits (fst (fst i))) (bits (fst (fst j)))) out /\
  (forall p l ann, In (p, l, ann) out ->
     In (p, l) A /\ (forall e, In e B -> bits (fst e) <> bits p) /\ lpm_ann B p ann) /\
  (forall e, In e A -> (forall e', In e' B -> bits (fst e') <> bits (fst e)) ->
             exists ann, In (fst e, snd e, ann) out).

Lemma FM_diff_spec ba ta B out : wfL ba ta ->
  FM (PD B None) (entries ta) out -> diff_spec (entries ta) B out.
Proof.
  intros Ha H. split; [|split].
  - apply (FM_sorted _ _ (fun e => bits (fst e)) (fun it => bits (fst (fst it)))
                     (PD B None) (entries ta) out).
    + intros e it [E _]. rewrite <- E. reflexivity.
    + exact (entries_sorted pfx L bits ok ba ta Ha).
    + exact H.
  - intros p l ann Hin. destruct (FM_in _ _ _ _ _ _ H Hin) as [e [He [E [Hne Hann]]]].
    cbn [fst snd] in *. subst e. cbn [fst] in *. split; [exact He|]. split; [exact Hne|].
    destruct Hann as [[e [-> Hl]]|[Hnc ->]]; [exact Hl | exact Hnc].
  - intros e Hin Hne.
    destruct (FM_complete _ _ _ _ _ _ H Hin) as [[e' [He' Hk]]|[it [Hi [E _]]]].
    + exfalso. eapply Hne; eauto.
    + destruct it as [[p l] ann]. cbn [fst] in E. subst e. exists ann. exact Hi.
Qed.

Definition key_absent (B : list (pfx * R)) (e : pfx * L) : bool :=
  negb (existsb (fun e' => Bits.beq (bits (fst e')) (bits (fst e))) B).

Lemma FM_filter B rho A out : FM (PD B rho) A out -> map fst out = filter (key_absent B) A.
Proof.
  intros H. induction H as [|e A out Hp H IH|e it A out Hp H IH]; [reflexivity| |].
  - destruct Hp as [e' [He' Hk]]. cbn [filter].
    assert (E : key_absent B e = false).
    { unfold key_absent. apply negb_false_iff. apply existsb_exists. exists e'.
      split; [exact He' | apply beq_spec; exact Hk]. }
    rewrite E. exact IH.
  - destruct Hp as [E [Hne _]]. cbn [filter map].
    assert (E' : key_absent B e = true).
    { unfold key_absent. apply negb_true_iff. destruct (existsb _ B) eqn:X; [|reflexivity].
      apply existsb_exists in X. destruct X as [e' [He' Hk]]. apply beq_spec in Hk.
      exfalso. eapply Hne; eauto. }
    rewrite E', E, IH. reflexivity.
Qed.

Lemma difference_FM ba bb ta tb : wfL ba ta -> wfR bb tb ->
  exists out, difference ta tb = Some out /\ FM (PD (entries tb) None) (entries ta) out.
Proof.
  intros Ha Hb.
  destruct (run_rel (didx * lpmR)%type (pfx * L * lpmR)%type d_expand dsz dok RD d_dec d_local
                    (so_fuel pfx L R ta tb) (rev (d_ext None (d_next ta tb)))) as [ls [HF Hrun]].
  - apply Forall_rev. apply d_ext_ok. eapply d_next_ok; eassumption.
  - rewrite msize_rev, msize_d_ext. pose proof (d_next_size ta tb). unfold so_fuel. lia.
  - exists (concat ls). split; [exact Hrun|].
    rewrite d_ext_eq, <- map_rev in HF. apply Forall2_map_l' in HF.
    eapply dn_local; eassumption.
Qed.

Theorem difference_correct ba bb ta tb : wfL ba ta -> wfR bb tb ->
  exists out, difference ta tb = Some out /\ diff_spec (entries ta) (entries tb) out.
Proof.
  intros Ha Hb. destruct (difference_FM _ _ _ _ Ha Hb) as [out [E H]].
  exists out. split; [exact E|]. eapply FM_diff_spec; eassumption.
Qed.

(** the list form: the (prefix, value) pairs yielded are the left entries, in order, whose key
    is not stored on the right *)
Theorem difference_filter ba bb ta tb : wfL ba ta -> wfR bb tb ->
  exists out, difference ta tb = Some out /\
    map fst out =
    filter (fun e => negb (existsb (fun e' => Bits.beq (bits (fst e')) (bits (fst e))) (entries tb)))
           (entries ta).
Proof.
  intros Ha Hb. destruct (difference_FM _ _ _ _ Ha Hb) as [out [E H]].
  exists out. split; [exact E|]. exact (FM_filter _ _ _ _ H).
Qed.

(* ---------------------------------------------------------------------------------------- *)
(** * the [*_mut] twins of difference and covering difference *)

Definition dproj : dmitem pfx L R -> pfx * L * lpmR := fun '(p, (_, l), ann) => (p, l, ann).
Definition cproj : pfx * (N * L) -> pfx * L := fun '(p, (_, l)) => (p, l).

Lemma dm_sim e :
  fst (d_expand e) = option_map dproj (fst (dm_expand e)) /\ snd (d_expand e) = snd (dm_expand e).
Proof.
  destruct e as [x rho]. destruct x as [l r|l r|l r|l];
    cbn [SetOps.d_expand SetOps.dm_expand fst snd]; split; try reflexivity;
    destruct l as [|i p [x|] ll lr]; try reflexivity.
  cbn [tval idval]. destruct (is_none (tval r)); reflexivity.
Qed.

Lemma cdm_sim x :
  fst (cd_expand x) = option_map cproj (fst (cdm_expand x)) /\ snd (cd_expand x) = snd (cdm_expand x).
Proof.
  destruct x as [l r|l r|l r|l]; cbn [SetOps.cd_expand SetOps.cdm_expand];
    try destruct (is_some (tval r)); cbn [fst snd]; split; try reflexivity;
    destruct l as [|i p [x|] ll lr]; reflexivity.
Qed.

Lemma dm_item x rho p i l ann :
  fst (dm_expand (x, rho)) = Some (p, (i, l), ann) -> In (i, p, l) (entries_id (dlt x)).
Proof.
  destruct x as [a r|a r|a r|a]; cbn [SetOps.dm_expand fst dlt];
    destruct a as [|i0 p0 [x0|] ll lr]; cbn [idval tpfx]; try discriminate;
    try destruct (is_none (tval r)); intros H; inversion H; subst; apply idval_own.
Qed.

Lemma cdm_item x p i l :
  fst (cdm_expand x) = Some (p, (i, l)) -> In (i, p, l) (entries_id (dlt x)).
Proof.
  destruct x as [a r|a r|a r|a]; cbn [SetOps.cdm_expand dlt];
    try destruct (is_some (tval r)); cbn [fst];
    destruct a as [|i0 p0 [x0|] ll lr]; cbn [idval tpfx]; try discriminate;
    intros H; inversion H; subst; apply idval_own.
Qed.

Theorem difference_mut_mirrors ba bb ta tb : wfL ba ta -> wfR bb tb ->
  exists out outm, difference ta tb = Some out /\ difference_mut ta tb = Some outm /\
    out = map (fun '(p, (_, l), ann) => (p, l, ann)) outm /\
    (forall p i l ann, In (p, (i, l), ann) outm -> In (i, p, l) (entries_id ta)).
Proof.
  intros Ha Hb. destruct (difference_FM _ _ _ _ Ha Hb) as [out [E _]].
  pose proof (run_sim _ _ _ d_expand dm_expand dproj dm_sim (so_fuel pfx L R ta tb)
                      (rev (d_ext None (d_next ta tb)))) as Hs.
  unfold SetOps.difference in E. rewrite E in Hs.
  destruct (run _ (dmitem pfx L R) dm_expand (so_fuel pfx L R ta tb) (rev (d_ext None (d_next ta tb))))
    as [outm|] eqn:Em; [|discriminate].
  cbn [option_map] in Hs. injection Hs as Hs.
  exists out, outm. split; [exact E|]. split; [exact Em|]. split; [exact Hs|].
  set (inv := fun e : didx * lpmR => incl (entries_id (dlt (fst e))) (entries_id ta)).
  set (Q := fun it : dmitem pfx L R => let '(p, (i, l), _) := it in In (i, p, l) (entries_id ta)).
  assert (HQ : Forall Q outm).
  { apply (run_inv _ _ dm_expand inv Q) with (n := so_fuel pfx L R ta tb)
                                             (st := rev (d_ext None (d_next ta tb))); [| |exact Em].
    - intros [x rho] o cs I1 Hex. unfold inv in I1. cbn [fst] in I1.
      pose proof (dm_sim (x, rho)) as [_ S2]. rewrite Hex, d_expand_children in S2. cbn [snd] in S2.
      subst cs. split.
      + apply Forall_forall. intros c Hc. rewrite d_ext_eq in Hc. apply in_map_iff in Hc.
        destruct Hc as [x' [<- Hx']]. unfold inv. cbn [fst].
        eapply incl_tran; [apply sub_incl; apply d_children_in; exact Hx' | exact I1].
      + intros [[p [i l]] ann] ->. unfold Q. apply I1. eapply dm_item. rewrite Hex. reflexivity.
    - apply Forall_rev. apply Forall_forall. intros c Hc. rewrite d_ext_eq in Hc. apply in_map_iff in Hc.
      destruct Hc as [x' [<- Hx']]. unfold inv. cbn [fst]. apply d_next_in in Hx'. rewrite Hx'.
      apply incl_refl. }
  intros p i l ann Hin. rewrite Forall_forall in HQ. exact (HQ _ Hin).
Qed.

Theorem covering_difference_mut_mirrors ba bb ta tb : wfL ba ta -> wfR bb tb ->
  exists out outm, covering_difference ta tb = Some out /\ covering_difference_mut ta tb = Some outm /\
    out = map (fun '(p, (_, l)) => (p, l)) outm /\
    (forall p i l, In (p, (i, l)) outm -> In (i, p, l) (entries_id ta)).
Proof.
  intros Ha Hb. destruct (covering_difference_correct _ _ _ _ Ha Hb) as [out [E _]].
  pose proof (run_sim _ _ _ cd_expand cdm_expand cproj cdm_sim (so_fuel pfx L R ta tb)
                      (rev (d_next ta tb))) as Hs.
  unfold SetOps.covering_difference in E. rewrite E in Hs.
  destruct (run _ (pfx * (N * L))%type cdm_expand (so_fuel pfx L R ta tb) (rev (d_next ta tb)))
    as [outm|] eqn:Em; [|discriminate].
  cbn [option_map] in Hs. injection Hs as Hs.
  exists out, outm. split; [exact E|]. split; [exact Em|]. split; [exact Hs|].
  set (inv := fun x : didx => incl (entries_id (dlt x)) (entries_id ta)).
  set (Q := fun it : pfx * (N * L) => let '(p, (i, l)) := it in In (i, p, l) (entries_id ta)).
  assert (HQ : Forall Q outm).
  { apply (run_inv _ _ cdm_expand inv Q) with (n := so_fuel pfx L R ta tb)
                                              (st := rev (d_next ta tb)); [| |exact Em].
    - intros x o cs I1 Hex. unfold inv in I1.
      pose proof (cdm_sim x) as [_ S2]. rewrite Hex in S2. cbn [snd] in S2.
      split.
      + destruct (cd_children x (fst (cd_expand x)) cs) as [-> | ->];
          [rewrite <- S2; apply surjective_pairing | | constructor].
        apply Forall_forall. intros c Hc. unfold inv.
        eapply incl_tran; [apply sub_incl; apply d_children_in; exact Hc | exact I1].
      + intros [p [i l]] ->. unfold Q. apply I1. eapply cdm_item. rewrite Hex. reflexivity.
    - apply Forall_rev. apply Forall_forall. intros c Hc. unfold inv. apply d_next_in in Hc.
      rewrite Hc. apply incl_refl. }
  intros p i l Hin. rewrite Forall_forall in HQ. exact (HQ _ Hin).
Qed.

End ID.

Print Assumptions intersection_correct.
Print Assumptions intersection_disjoint.
Print Assumptions covering_difference_correct.
Print Assumptions difference_correct.
Print Assumptions difference_filter.
Print Assumptions intersection_mut_mirrors.
Print Assumptions difference_mut_mirrors.
Print Assumptions covering_difference_mut_mirrors.
