(** Glue for the property files C03 / C09 / C10:
    - draining a stack machine by repeated calls of [next] (what a Rust [for] loop does) yields
      what [run] yields, one item per call, then [None] with the empty stack; the sequence is a
      function of the stack (so a cloned iterator yields the same remaining items);
    - the iteration order [lex_lt] on keys is "ascending by masked network address, then by prefix
      length" for the concrete prefix type [PrefixN];
    - [children] and the cover as [filter]s of the entry list. *)
From Coq Require Import List NArith Bool Arith Lia ZifyN ZifyBool ZifyNat Sorted Permutation.
From PT Require Import Bits BitsThm PrefixN Laws PrefixLaws Machine MachineThm Trie TrieWf Lookup Lookup2 MutTrav Retain.
Import ListNotations.
Local Open Scope nat_scope.

(* ------------------------------------------------------------------------------------------ *)
(** * 1. Draining a machine by repeated [next] *)
Section Drain.
Variables (E I : Type) (expand : E -> option I * list E).
Notation run := (Machine.run E I expand).
Notation next := (Machine.next E I expand).

(** [drains n st out]: successive calls of [next] (each with fuel [n]) starting from the stack
    [st] return the items of [out], one per call, and the call after the last item returns
    [None] and leaves the empty stack. *)
Inductive drains (n : nat) : list E -> list I -> Prop :=
| drains_end st : next n st = Some (None, []) -> drains n st []
| drains_step st x st' out :
    next n st = Some (Some x, st') -> drains n st' out -> drains n st (x :: out).

(** fused: on the empty stack [next] returns [None] and keeps the empty stack, with any fuel *)
Lemma next_nil n : next n [] = Some (None, []).
Proof. destruct n; reflexivity. Qed.

Lemma run_drains n : forall out st, run n st = Some out -> drains n st out.
Proof.
  induction out as [|a out IH]; intros st H; pose proof (run_next expand n st _ H) as P;
    destruct (next n st) as [[[x|] st']|] eqn:Nx; try contradiction.
  - destruct P as [out' [P _]]. discriminate P.
  - destruct P as [_ ->]. apply drains_end. exact Nx.
  - destruct P as [out' [P R]]. inversion P; subst. eapply drains_step; [exact Nx | apply IH; exact R].
  - destruct P as [P _]. discriminate P.
Qed.

(** the item sequence is a function of the stack: two drains of the same stack value (an iterator
    and its clone) yield the same items *)
Lemma drains_fun n : forall st o1 o2, drains n st o1 -> drains n st o2 -> o1 = o2.
Proof.
  intros st o1 o2 H1. revert o2. induction H1 as [st N1|st x st' out N1 H1 IH]; intros o2 H2.
  - inversion H2 as [st0 N2|st0 y st2 out2 N2 H2']; subst; [reflexivity|]. rewrite N1 in N2. discriminate N2.
  - inversion H2 as [st0 N2|st0 y st2 out2 N2 H2']; subst.
    + rewrite N1 in N2. discriminate N2.
    + rewrite N1 in N2. inversion N2; subst. f_equal. apply IH. exact H2'.
Qed.

(** the results of [k] successive calls of [next], as a list *)
Fixpoint pull (k n : nat) (st : list E) : list (option I) :=
  match k with
  | O => []
  | S k' => match next n st with
            | Some (o, st') => o :: pull k' n st'
            | None => []
            end
  end.

Lemma pull_nil k n : pull k n [] = repeat None k.
Proof. induction k as [|k IH]; [reflexivity|]. cbn [pull repeat]. rewrite next_nil, IH. reflexivity. Qed.

(** draining: [length out] calls return the items, every further call returns [None] *)
Lemma drains_pull n st out : drains n st out ->
  forall k, pull (length out + k) n st = map Some out ++ repeat None k.
Proof.
  induction 1 as [st N1|st x st' out N1 H1 IH]; intros k.
  - cbn [length Nat.add map app]. destruct k as [|k]; [reflexivity|].
    cbn [pull repeat]. rewrite N1, pull_nil. reflexivity.
  - cbn [length Nat.add map app pull]. rewrite N1, IH. reflexivity.
Qed.
End Drain.

(* ------------------------------------------------------------------------------------------ *)
(** * 2. The three map iterators, call by call *)
Section IterDrain.
Variables (pfx V : Type).
Notation tree := (Trie.tree pfx V).

Lemma tsize_nodes_of1 (t : tree) : list_sum (map tsize (nodes_of [t])) = tsize t.
Proof. destruct t; cbn; lia. Qed.

Lemma flat_entries_id_nodes_of1 (t : tree) : flat_map entries_id (nodes_of [t]) = entries_id t.
Proof. rewrite flat_map_nodes_of by reflexivity. cbn. apply app_nil_r. Qed.

(** [Iter]: from the initial stack (the root), successive [next()] calls return exactly the items
    of [entries_id t] in that order, then [None] *)
Theorem iter_drains (t : tree) n : tsize t < n ->
  drains tree (N * pfx * V) (iter_expand pfx V) n (nodes_of [t]) (entries_id t).
Proof.
  intros Hn. apply run_drains.
  pose proof (iter_run_spec pfx V (nodes_of [t]) (nodes_of_is_node pfx V [t])) as H.
  unfold iter_run in H. rewrite tsize_nodes_of1, flat_entries_id_nodes_of1 in H.
  apply (run_fuel_mono _ _ _ (S (tsize t)) n); [exact H | lia].
Qed.

(** [IterMut] and [IntoIter] are separate copies of the loop in the code *)
Theorem iter_mut_drains (t : tree) n : tsize t < n ->
  drains tree (N * pfx * V) (iter_mut_expand pfx V) n (nodes_of [t]) (entries_id t).
Proof. exact (iter_drains t n). Qed.

Theorem into_iter_drains (t : tree) n : tsize t < n ->
  drains tree (N * pfx * V) (into_iter_expand pfx V) n (nodes_of [t]) (entries_id t).
Proof. exact (iter_drains t n). Qed.

Lemma map_drop_id_flat (st : list tree) :
  map (Lookup2.drop_id pfx V) (flat_map entries_id st) = flat_map entries st.
Proof.
  induction st as [|t st IH]; [reflexivity|]. cbn [flat_map]. rewrite map_app, IH, entries_id_entries. reflexivity.
Qed.
End IterDrain.

(* ------------------------------------------------------------------------------------------ *)
(** * 3. The iteration order is numeric order of the masked address, then prefix length *)

(** zero-padded comparison [bcmp] (what numeric comparison of masked addresses computes,
    [Laws.mcmp_spec]) against the lexicographic order *)
Lemma lex_lt_bcmp : forall a b : list bool,
  lex_lt a b <-> (bcmp a b = Lt \/ (bcmp a b = Eq /\ length a < length b)).
Proof.
  induction a as [|x a IH]; intros [|y b].
  - cbn. split; [intros [] | intros [H|[_ H]]; [discriminate | lia]].
  - cbn [lex_lt bcmp length]. split; [intros _|tauto].
    destruct (existsb (fun x => x) (y :: b)); [left; reflexivity | right; split; [reflexivity | lia]].
  - cbn [lex_lt bcmp length]. split; [intros []|].
    destruct (existsb (fun x => x) (x :: a)); intros [H|[H1 H2]]; try discriminate; lia.
  - cbn [lex_lt bcmp length]. specialize (IH b).
    destruct x, y.
    + rewrite <- Nat.succ_lt_mono. rewrite <- IH. split; [intros [[H _]|[_ H]]; [discriminate | exact H] | auto].
    + split; [intros [[H _]|[H _]]; discriminate | intros [H|[H _]]; discriminate].
    + split; [left; reflexivity | left; split; reflexivity].
    + rewrite <- Nat.succ_lt_mono. rewrite <- IH. split; [intros [[_ H]|[_ H]]; [discriminate | exact H] | auto].
Qed.

(** for the concrete prefix type: [a] precedes [b] in iteration order iff the masked network
    address of [a] is numerically smaller, or the addresses are equal and [a] is shorter *)
Theorem lex_lt_numeric (w : N) (a b : PrefixN.pfx) :
  valid w a = true -> valid w b = true ->
  (lex_lt (pbits w a) (pbits w b) <->
   (pmask w a < pmask w b)%N \/ (pmask w a = pmask w b /\ (plen a < plen b)%N)).
Proof.
  intros Va Vb. rewrite lex_lt_bcmp, <- (mcmp_spec_w w a b Va Vb), !length_pbits. unfold mcmp.
  rewrite N.compare_lt_iff, N.compare_eq_iff. lia.
Qed.

(* ------------------------------------------------------------------------------------------ *)
(** * 3a. Sorted lists: change of relation on the members, and positions *)
Section Sorted.
Variable A : Type.

Lemma StronglySorted_impl_in (R R' : A -> A -> Prop) (l : list A) :
  (forall a b, In a l -> In b l -> R a b -> R' a b) -> StronglySorted R l -> StronglySorted R' l.
Proof.
  induction l as [|x l IH]; intros H Hs; [constructor|].
  inversion Hs as [|? ? Hs' Hf]; subst. constructor.
  - apply IH; [|exact Hs']. intros a b Ha Hb. apply H; right; assumption.
  - rewrite Forall_forall in *. intros b Hb. apply H; [left; reflexivity | right; exact Hb | apply Hf; exact Hb].
Qed.

Lemma sorted_mid (R : A -> A -> Prop) (l1 : list A) a l2 :
  StronglySorted R (l1 ++ a :: l2) -> (forall b, In b l1 -> R b a) /\ (forall b, In b l2 -> R a b).
Proof.
  induction l1 as [|x l1 IH]; intros Hs; cbn [app] in Hs; inversion Hs as [|? ? Hs' Hf]; subst.
  - split; [intros b []|]. rewrite Forall_forall in Hf. exact Hf.
  - destruct (IH Hs') as [I1 I2]. split; [|exact I2].
    rewrite Forall_forall in Hf. intros b [<-|Hb]; [|apply I1; exact Hb].
    apply Hf. apply in_or_app. right. left. reflexivity.
Qed.

(** in a strictly sorted list the smaller of two members stands before the larger *)
Lemma sorted_before (R : A -> A -> Prop) (l : list A) a b :
  (forall x, ~ R x x) -> (forall x y z, R x y -> R y z -> R x z) ->
  StronglySorted R l -> In a l -> In b l -> R a b ->
  exists l1 l2 l3, l = l1 ++ a :: l2 ++ b :: l3.
Proof.
  intros Hirr Htr Hs Ha Hb Hab.
  destruct (in_split _ _ Ha) as [l1 [l2 El]]. subst l.
  destruct (sorted_mid R l1 a l2 Hs) as [I1 I2].
  apply in_app_or in Hb. destruct Hb as [Hb|[<-|Hb]].
  - exfalso. apply (Hirr a). eapply Htr; [exact Hab | apply I1; exact Hb].
  - exfalso. apply (Hirr a). exact Hab.
  - destruct (in_split _ _ Hb) as [l3 [l4 El]]. subst l2. exists l1, l3, l4. reflexivity.
Qed.
End Sorted.

(* ------------------------------------------------------------------------------------------ *)
(** * 4. [children] and the cover as filters of the entry list *)
Section FX.
Variables (pfx V : Type).
Variables (peq contains : pfx -> pfx -> bool) (is_bit_set : pfx -> N -> bool)
          (plen : pfx -> N) (lcp : pfx -> pfx -> pfx) (pzero : pfx)
          (mcmp : pfx -> pfx -> comparison).
Variable bits : pfx -> list bool.
Variable ok : pfx -> Prop.
Hypothesis LAWS : prefix_laws pfx peq contains is_bit_set plen lcp pzero mcmp bits ok.

Notation tree := (Trie.tree pfx V).
Notation wf_under := (TrieWf.wf_under pfx V bits ok).
Notation key := (TrieWf.key pfx V bits).
Notation key_lt := (TrieWf.key_lt pfx V bits).
Notation len_lt := (Lookup2.len_lt pfx V bits).
Notation root_covers := (Lookup.root_covers pfx V bits).
Notation cover_walk := (Trie.cover_walk pfx V peq contains is_bit_set plen).
Notation children_start := (Trie.children_start pfx V peq contains is_bit_set plen).
Notation children := (Trie.children pfx V peq contains is_bit_set plen).

(** [e] is covered by [q] / [e] covers [q], as booleans on the keys *)
Definition covered_by (q : pfx) (e : pfx * V) : bool := is_prefix (bits q) (key e).
Definition covering (q : pfx) (e : pfx * V) : bool := is_prefix (key e) (bits q).

Lemma sorted_filter (f : pfx * V -> bool) (l : list (pfx * V)) :
  StronglySorted key_lt l -> StronglySorted key_lt (filter f l).
Proof.
  induction l as [|x l IH]; intros H; cbn [filter]; [constructor|].
  inversion H as [|? ? Hs Hf]; subst. destruct (f x); [|apply IH; exact Hs].
  constructor; [apply IH; exact Hs|]. rewrite Forall_forall in *. intros e He.
  apply filter_In in He. apply Hf. apply He.
Qed.

(** a strictly ascending list stores no key twice, hence no entry twice *)
Lemma sorted_nodup_keys (l : list (pfx * V)) : StronglySorted key_lt l -> NoDup (map key l).
Proof.
  induction l as [|a l IH]; intros Hs; cbn [map]; [constructor|].
  inversion Hs as [|? ? Hs' Hf]; subst. constructor; [|apply IH; exact Hs'].
  rewrite Forall_forall in Hf. intros Hin. apply in_map_iff in Hin. destruct Hin as [e [Ek He]].
  specialize (Hf e He). unfold TrieWf.key_lt in Hf. rewrite Ek in Hf. eapply lex_lt_irrefl; exact Hf.
Qed.

Lemma sorted_nodup (l : list (pfx * V)) : StronglySorted key_lt l -> NoDup l.
Proof. intros Hs. apply (NoDup_map_inv key). apply sorted_nodup_keys. exact Hs. Qed.

(** [children]: exactly the entries covered by [q], in iteration order *)
Theorem children_filter b (t : tree) q :
  wf_under b t -> ok q -> root_covers t q ->
  map (Lookup2.drop_id pfx V) (children t q) = filter (covered_by q) (entries t).
Proof.
  intros Hwf Hq Hrc. rewrite children_spec, map_drop_id_flat.
  destruct (children_start_spec pfx V peq contains is_bit_set plen lcp pzero mcmp bits ok LAWS t b q Hwf Hq Hrc)
    as [Hn [Hlen Hmem]].
  apply (sorted_ext pfx V bits).
  - destruct (children_start t q) as [|c [|c' st]]; [constructor| |cbn in Hlen; lia].
    cbn [flat_map]. rewrite app_nil_r. destruct (Hn c (or_introl eq_refl)) as [_ [bc Hc]].
    eapply entries_sorted; exact Hc.
  - apply sorted_filter. eapply entries_sorted; exact Hwf.
  - intros e. rewrite Hmem, filter_In. unfold covered_by. rewrite is_prefix_spec. reflexivity.
Qed.

(** a chain of covering keys sorted by length is sorted lexicographically *)
Lemma len_sorted_chain (k : list bool) (l : list (pfx * V)) :
  (forall e, In e l -> prefix_of (key e) k) -> StronglySorted len_lt l -> StronglySorted key_lt l.
Proof.
  induction l as [|x l IH]; intros Hc Hs; [constructor|].
  inversion Hs as [|? ? Hs' Hf]; subst. constructor.
  - apply IH; [intros e He; apply Hc; right; exact He | exact Hs'].
  - rewrite Forall_forall in *. intros e He. specialize (Hf e He). unfold Lookup2.len_lt in Hf.
    unfold TrieWf.key_lt.
    destruct (prefix_of_comparable _ _ _ (Hc x (or_introl eq_refl)) (Hc e (or_intror He))) as [P|P].
    + apply lex_lt_prefix; [exact P|]. intros E. rewrite E in Hf. lia.
    + apply prefix_of_len in P. lia.
Qed.

(** the cover: exactly the entries covering [q]; in the entry list they appear in the same order *)
Theorem cover_walk_filter b (t : tree) q :
  wf_under b t -> ok q -> root_covers t q ->
  cover_walk t q = filter (covering q) (entries t).
Proof.
  intros Hwf Hq Hrc.
  pose proof (cover_walk_spec pfx V peq contains is_bit_set plen lcp pzero mcmp bits ok LAWS t b q Hwf Hq Hrc) as Hmem.
  apply (sorted_ext pfx V bits).
  - apply (len_sorted_chain (bits q)); [intros e He; apply Hmem; exact He|].
    eapply cover_walk_sorted; exact Hwf.
  - apply sorted_filter. eapply entries_sorted; exact Hwf.
  - intros e. rewrite Hmem, filter_In. unfold covering. rewrite is_prefix_spec. reflexivity.
Qed.

(** the head of a list sorted by strictly increasing length is its shortest element *)
Lemma len_sorted_hd (l : list (pfx * V)) e :
  StronglySorted len_lt l -> hd_error l = Some e ->
  In e l /\ forall e', In e' l -> length (key e) <= length (key e').
Proof.
  intros Hs Hh. destruct l as [|x l]; [discriminate|]. inversion Hh; subst x.
  split; [left; reflexivity|]. inversion Hs as [|? ? _ Hf]; subst. rewrite Forall_forall in Hf.
  intros e' [<-|He']; [lia|]. specialize (Hf e' He'). unfold Lookup2.len_lt in Hf. lia.
Qed.

(** ... and the last its longest *)
Lemma len_sorted_last (l : list (pfx * V)) e :
  StronglySorted len_lt l -> hd_error (rev l) = Some e ->
  In e l /\ forall e', In e' l -> length (key e') <= length (key e).
Proof.
  intros Hs Hh. destruct (rev l) as [|x r] eqn:R; [discriminate|]. inversion Hh; subst x.
  assert (El : l = rev r ++ [e]) by (rewrite <- (rev_involutive l), R; reflexivity).
  split; [rewrite El; apply in_or_app; right; left; reflexivity|].
  clear R Hh. revert Hs. rewrite El. generalize (rev r). clear El r l.
  induction l as [|x l IH]; intros Hs e' He'.
  - destruct He' as [<-|[]]. lia.
  - cbn [app] in *. inversion Hs as [|? ? Hs' Hf]; subst. destruct He' as [<-|He'].
    + rewrite Forall_forall in Hf. assert (H : In e (l ++ [e])) by (apply in_or_app; right; left; reflexivity).
      specialize (Hf e H). unfold Lookup2.len_lt in Hf. lia.
    + apply IH; assumption.
Qed.

End FX.

(* ------------------------------------------------------------------------------------------ *)
(** * 5. [retain]: the call log, position by position *)
Section RG.
Variables (pfx V : Type) (f : nat -> pfx -> V -> option bool) (g : pfx -> V -> bool).

(** [answered n calls]: the [k]-th logged invocation was made with invocation count [n + k] and
    returned the verdict [g] *)
Lemma answered_nth n (calls : list (pfx * V)) : answered pfx V f g n calls ->
  forall k e, nth_error calls k = Some e -> f (n + k) (fst e) (snd e) = Some (g (fst e) (snd e)).
Proof.
  revert n. induction calls as [|c calls IH]; intros n H k e Hk; [destruct k; discriminate|].
  cbn in H. destruct H as [H0 H]. destruct k as [|k]; cbn in Hk.
  - inversion Hk; subst. rewrite Nat.add_0_r. exact H0.
  - rewrite Nat.add_succ_r. apply (IH (S n) H k e Hk).
Qed.
End RG.

Print Assumptions run_drains.
Print Assumptions drains_fun.
Print Assumptions drains_pull.
Print Assumptions sorted_before.
Print Assumptions StronglySorted_impl_in.
Print Assumptions iter_drains.
Print Assumptions lex_lt_bcmp.
Print Assumptions lex_lt_numeric.
Print Assumptions children_filter.
Print Assumptions cover_walk_filter.
Print Assumptions len_sorted_hd.
Print Assumptions len_sorted_last.
Print Assumptions answered_nth.
