(** Glue for the property files C03 / C09 / C10:
    - draining a stack machine by repeated calls of [next] (what a Rust [for] loop does) yields
      what [run] yields, one item per call, then [None] with the empty stack; the sequence is a
      function of the stack (so a cloned iterator yields the same remaining items);
    - the iteration order [lex_lt] on keys is "ascending by masked network address, then by prefix
      length" for the concrete prefix type [PrefixN];
    - [children] and the cover as [filter]s of the entry list. *)
From Coq Require Import List NArith Bool Arith Lia ZifyN ZifyBool ZifyNat Sorted Permutation.
From PT Require Import Bits BitsThm PrefixN Laws PrefixLaws Machine MachineThm Trie TrieWf Lookup Lookup2 MutTrav Retain.
Import ListNotations.
Local Open Scope nat_scope.

(* ------------------------------------------------------------------------------------------ *)
(** * 1. Draining a machine by repeated [next] *)
Section Drain.
Variables (E I : Type) (expand : E -> option I * list E).
Notation run := (Machine.run E I expand).
Notation next := (Machine.next E I expand).

(** [drains n st out]: successive calls of [next] (each with fuel [n]) starting from the stack
    [st] return the items of [out], one per call, and the call after the last item returns
    [None] and leaves the empty stack. *)
Inductive drains (n : nat) : list E -> list I -> Prop :=
| drains_end st : next n st = Some (None, []) -> drains n st []
| drains_step st x st' out :
    next n st = Some (Some x, st') -> drains n st' out -> drains n st (x :: out).

(** fused: on the empty stack [next] returns [None] and keeps the empty stack, with any fuel *)
Lemma next_nil n : next n [] = Some (None, []).
Proof. destruct n; reflexivity. Qed.

Lemma run_drains n : forall out st, run n st = Some out -> drains n st out.
Proof.
  induction out as [|a out IH]; intros st H; pose proof (run_next expand n st _ H) as P;
    destruct (next n st) as [[[x|] st']|] eqn:Nx; try contradiction.
  - destruct P as [out' [P _]]. discriminate P.
  - destruct P as [_ ->]. apply drains_end. exact Nx.
  - destruct P as [out' [P R]]. inversion P; subst. eapply drains_step; [exact Nx | apply IH; exact R].
  - destruct P as [P _]. discriminate P.
Qed.

(** the item sequence is a function of the stack: two drains of the same stack value (an iterator
    and its clone) yield the same items *)
Lemma drains_fun n : forall st o1 o2, drains n st o1 -> drains n st o2 -> o1 = o2.
Proof.
  intros st o1 o2 H1. revert o2. induction H1 as [st N1|st x st' out N1 H1 IH]; intros o2 H2.
  - inversion H2 as [st0 N2|st0 y st2 out2 N2 H2']; subst; [reflexivity|]. rewrite N1 in N2. discriminate N2.
  - inversion H2 as [st0 N2|st0 y st2 out2 N2 H2']; subst.
    + rewrite N1 in N2. discriminate N2.
    + rewrite N1 in N2. inversion N2; subst. f_equal. apply IH. exact H2'.
Qed.

(** the results of [k] successive calls of [next], as a list *)
Fixpoint pull (k n : nat) (st : list E) : list (option I) :=
  match k with
  | O => []
  | S k' => match next n st with
            | Some (o, st') => o :: pull k' n st'
            | None => []
            end
  end.

Lemma pull_nil k n : pull k n [] = repeat None k.
Proof. induction k as [|k IH]; [reflexivity|]. cbn [pull repeat]. rewrite next_nil, IH. reflexivity. Qed.

(** draining: [length out] calls return the items, every further call returns [None] *)
Lemma drains_pull n st out : drains n st out ->
  forall k, pull (length out + k) n st = map Some out ++ repeat None k.
Proof.
  induction 1 as [st N1|st x st' out N1 H1 IH]; intros k.
  - cbn [length Nat.add map app]. destruct k as [|k]; [reflexivity|].
    cbn [pull repeat]. rewrite N1, pull_nil. reflexivity.
  - cbn [length Nat.add map app pull]. rewrite N1, IH. reflexivity.
Qed.
End Drain.

(* ------------------------------------------------------------------------------------------ *)
(** * 2. The three map iterators, call by call *)
Section IterDrain.
Variables (pfx V : Type).
Notation tree := (Trie.tree pfx V).

Lemma tsize_nodes_of1 (t : tree) : list_sum (map tsize (nodes_of [t])) = tsize t.
Proof. destruct t; cbn; lia. Qed.

Lemma flat_entries_id_nodes_of1 (t : tree) : flat_map entries_id (nodes_of [t]) = entries_id t.
Proof. rewrite flat_map_nodes_of by reflexivity. cbn. apply app_nil_r. Qed.

(** [Iter]: from the initial stack (the root), successive [next()] calls return exactly the items
    of [entries_id t] in that order, then [None] *)
Theorem iter_drains (t : tree) n : tsize t < n ->
  drains tree (N * pfx * V) (iter_expand pfx V) n (nodes_of [t]) (entries_id t).
Proof.
  intros Hn. apply run_drains.
  pose proof (iter_run_spec pfx V (nodes_of [t]) (nodes_of_is_node pfx V [t])) as H.
  unfold iter_run in H. rewrite tsize_nodes_of1, flat_entries_id_nodes_of1 in H.
  apply (run_fuel_mono _ _ _ (S (tsize t)) n); [exact H | lia].
Qed.

(** [IterMut] and [IntoIter] are separate copies of the loop in the code *)
Theorem iter_mut_drains (t : tree) n : tsize t < n ->
  drains tree (N * pfx * V) (iter_mut_expand pfx V) n (nodes_of [t]) (entries_id t).
Proof. exact (iter_drains t n). Qed.

Theorem into_iter_drains (t : tree) n : tsize t < n ->
  drains tree (N * pfx * V) (into_iter_expand pfx V) n (nodes_of [t]) (entries_id t).
Proof. exact (iter_drains t n). Qed.

Lemma map_drop_id_flat (st : list tree) :
  map (Lookup2.drop_id pfx V) (flat_map entries_id st) = flat_map entries st.
Proof.
  induction st as [|t st IH]; [reflexivity|]. cbn [flat_map]. rewrite map_app, IH, entries_id_entries. reflexivity.
Qed.
End IterDrain.

(* ------------------------------------------------------------------------------------------ *)
(** * 3. The iteration order is numeric order of the masked address, then prefix length *)

(** zero-padded comparison [bcmp] (what numeric comparison of masked addresses computes,
    [Laws.mcmp_spec]) against the lexicographic order *)
Lemma lex_lt_bcmp : forall a b : list bool,
  lex_lt a b <-> (bcmp a b = Lt \/ (bcmp a b = Eq /\ length a < length b)).
Proof.
  induction a as [|x a IH]; intros [|y b].
  - cbn. split; [intros [] | intros [H|[_ H]]; [discriminate | lia]].
  - cbn [lex_lt bcmp length]. split; [intros _|tauto].
    destruct (existsb (fun x => x) (y :: b)); [left; reflexivity | right; split; [reflexivity | lia]].
  - cbn [lex_lt bcmp length]. split; [intros []|].
    destruct (existsb (fun x => x) (x :: a)); intros [H|[H1 H2]]; try discriminate; lia.
  - cbn [lex_lt bcmp length]. specialize (IH b).
    destruct x, y.
    + rewrite <- Nat.succ_lt_mono. rewrite <- IH. split; [intros [[H _]|[_ H]]; [discriminate | exact H] | auto].
    + split; [intros [[H _]|[H _]]; discriminate | intros [H|[H _]]; discriminate].
    + split; [left; reflexivity | left; split; reflexivity].
    + rewrite <- Nat.succ_lt_mono. rewrite <- IH. split; [intros [[_ H]|[_ H]]; [discriminate | exact H] | auto].
Qed.

(** for the concrete prefix type: [a] precedes [b] in iteration order iff the masked network
    address of [a] is numerically smaller, or the addresses are equal and [a] is shorter *)
Theorem lex_lt_numeric (w : N) (a b : PrefixN.pfx) :
  valid w a = true -> valid w b = true ->
  (lex_lt (pbits w a) (pbits w b) <->
   (pmask w a < pmask w b)%N \/ (pmask w a = pmask w b /\ (plen a < plen b)%N)).
Proof.
  intros Va Vb. rewrite lex_lt_bcmp, <- (mcmp_spec_w w a b Va Vb), !length_pbits. unfold mcmp.
  rewrite N.compare_lt_iff, N.compare_eq_iff. lia.
Qed.

(* ------------------------------------------------------------------------------------------ *)
(** * 3a. Sorted lists: change of relation on the members, and positions *)
Section Sorted.
Variable A : Type.

Lemma StronglySorted_impl_in (R R' : A -> A -> Prop) (l : list A) :
  (forall a b, In a l -> In b l -> R a b -> R' a b) -> StronglySorted R l -> StronglySorted R' l.
Proof.
  induction l as [|x l IH]; intros H Hs; [constructor|].
  inversion Hs as [|? ? Hs' Hf]; subst. constructor.
  - apply IH; [|exact Hs']. intros a b Ha Hb. apply H; right; assumption.
  - rewrite Forall_forall in *. intros b Hb. apply H; [left; reflexivity | right; exact Hb | apply Hf; exact Hb].
Qed.

Lemma sorted_mid (R : A -> A -> Prop) (l1 : list A) a l2 :
  StronglySorted R (l1 ++ a :: l2) -> (forall b, In b l1 -> R b a) /\ (forall b, In b l2 -> R a b).
Proof.
  induction l1 as [|x l1 IH]; intros Hs; cbn [app] in Hs; inversion Hs as [|? ? Hs' Hf]; subst.
  - split; [intros b []|]. rewrite Forall_forall in Hf. exact Hf.
  - destruct (IH Hs') as [I1 I2]. split; [|exact I2].
    rewrite Forall_forall in Hf. intros b [<-|Hb]; [|apply I1; exact Hb].
    apply Hf. apply in_or_app. right. left. reflexivity.
Qed.

(** in a strictly sorted list the smaller of two members stands before the larger *)
Lemma sorted_before (R : A -> A -> Prop) (l : list A) a b :
  (forall x, ~ R x x) -> (forall x y z, R x y -> R y z -> R x z) ->
  StronglySorted R l -> In a l -> In b l -> R a b ->
  exists l1 l2 l3, l = l1 ++ a :: l2 ++ b :: l3.
Proof.
  intros Hirr Htr Hs Ha Hb Hab.
  destruct (in_split _ _ Ha) as [l1 [l2 El]]. subst l.
  destruct (sorted_mid R l1 a l2 Hs) as [I1 I2].
  apply in_app_or in Hb. destruct Hb as [Hb|[<-|Hb]].
  - exfalso. apply (Hirr a). eapply Htr; [exact Hab | apply I1; exact Hb].
  - exfalso. apply (Hirr a). exact Hab.
  - destruct (in_split _ _ Hb) as [l3 [l4 El]]. subst l2. exists l1, l3, l4. reflexivity.
Qed.
End Sorted.

(* ------------------------------------------------------------------------------------------ *)
(** * 4. [children] and the cover as filters of the entry list *)
Section FX.
Variables (pfx V : Type).
Variables (peq contains : pfx -> pfx -> bool) (is_bit_set : pfx -> N -> bool)
          (plen : pfx -> N) (lcp : pfx -> pfx -> pfx) (pzero : pfx)
          (mcmp : pfx -> pfx -> comparison).
Variable bits : pfx -> list bool.
Variable ok : pfx -> Prop.
Hypothesis LAWS : prefix_laws pfx peq contains is_bit_set plen lcp pzero mcmp bits ok.

Notation tree := (Trie.tree pfx V).
Notation wf_under := (TrieWf.wf_under pfx V bits ok).
Notation key := (TrieWf.key pfx V bits).
Notation key_lt := (TrieWf.key_lt pfx V bits).
Notation len_lt := (Lookup2.len_lt pfx V bits).
Notation root_covers := (Lookup.root_covers pfx V bits).
Notation cover_walk := (Trie.cover_walk pfx V peq contains is_bit_set plen).
Notation children_start := (Trie.children_start pfx V peq contains is_bit_set plen).
Notation children := (Trie.children pfx V peq contains is_bit_set plen).

(** [e] is covered by [q] / [e] covers [q], as booleans on the keys *)
Definition covered_by (q : pfx) (e : pfx * V) : bool := is_prefix (bits q) (key e).
Definition covering (q : pfx) (e : pfx * V) : bool := is_prefix (key e) (bits q).

Lemma sorted_filter (f : pfx * V -> bool) (l : list (pfx * V)) :
  StronglySorted key_lt l -> StronglySorted key_lt (filter f l).
Proof.
  induction l as [|x l IH]; intros H; cbn [filter]; [constructor|].
  inversion H as [|? ? Hs Hf]; subst. destruct (f x); [|apply IH; exact Hs].
  constructor; [apply IH; exact Hs|]. rewrite Forall_forall in *. intros e He.
  apply filter_In in He. apply Hf. apply He.
Qed.

(** a strictly ascending list stores no key twice, hence no entry twice *)
Lemma sorted_nodup_keys (l : list (pfx * V)) : StronglySorted key_lt l -> NoDup (map key l).
Proof.
  induction l as [|a l IH]; intros Hs; cbn [map]; [constructor|].
  inversion Hs as [|? ? Hs' Hf]; subst. constructor; [|apply IH; exact Hs'].
  rewrite Forall_forall in Hf. intros Hin. apply in_map_iff in Hin. destruct Hin as [e [Ek He]].
  specialize (Hf e He). unfold TrieWf.key_lt in Hf. rewrite Ek in Hf. eapply lex_lt_irrefl; exact Hf.
Qed.

Lemma sorted_nodup (l : list (pfx * V)) : StronglySorted key_lt l -> NoDup l.
Proof. intros Hs. apply (NoDup_map_inv key). apply sorted_nodup_keys. exact Hs. Qed.

(** [children]: exactly the entries covered by [q], in iteration order *)
Theorem children_filter b (t : tree) q :
  wf_under b t -> ok q -> root_covers t q ->
  map (Lookup2.drop_id pfx V) (children t q) = filter (covered_by q) (entries t).
Proof.
  intros Hwf Hq Hrc. rewrite children_spec, map_drop_id_flat.
  destruct (children_start_spec pfx V peq contains is_bit_set plen lcp pzero mcmp bits ok LAWS t b q Hwf Hq Hrc)
    as [Hn [Hlen Hmem]].
  apply (sorted_ext pfx V bits).
  - destruct (children_start t q) as [|c [|c' st]]; [constructor| |cbn in Hlen; lia].
    cbn [flat_map]. rewrite app_nil_r. destruct (Hn c (or_introl eq_refl)) as [_ [bc Hc]].
    eapply entries_sorted; exact Hc.
  - apply sorted_filter. eapply entries_sorted; exact Hwf.
  - intros e. rewrite Hmem, filter_In. unfold covered_by. rewrite is_prefix_spec. reflexivity.
Qed.

(** a chain of covering keys sorted by length is sorted lexicographically *)
Lemma len_sorted_chain (k : list bool) (l : list (pfx * V)) :
  (forall e, In e l -> prefix_of (key e) k) -> StronglySorted len_lt l -> StronglySorted key_lt l.
Proof.
  induction l as [|x l IH]; intros Hc Hs; [constructor|].
  inversion Hs as [|? ? Hs' Hf]; subst. constructor.
  - apply IH; [intros e He; apply Hc; right; exact He | exact Hs'].
  - rewrite Forall_forall in *. intros e He. specialize (Hf e He). unfold Lookup2.len_lt in Hf.
    unfold TrieWf.key_lt.
    destruct (prefix_of_comparable _ _ _ (Hc x (or_introl eq_refl)) (Hc e (or_intror He))) as [P|P].
    + apply lex_lt_prefix; [exact P|]. intros E. rewrite E in Hf. lia.
    + apply prefix_of_len in P. lia.
Qed.

(** the cover: exactly the entries covering [q]; in the entry list they appear in the same order *)
Theorem cover_walk_filter b (t : tree) q :
  wf_under b t -> ok q -> root_covers t q ->
  cover_walk t q = filter (covering q) (entries t).
Proof.
  intros Hwf Hq Hrc.
  pose proof (cover_walk_spec pfx V peq contains is_bit_set plen lcp pzero mcmp bits ok LAWS t b q Hwf Hq Hrc) as Hmem.
  apply (sorted_ext pfx V bits).
  - apply (len_sorted_chain (bits q)); [intros e He; apply Hmem; exact He|].
    eapply cover_walk_sorted; exact Hwf.
  - apply sorted_filter. eapply entries_sorted; exact Hwf.
  - intros e. rewrite Hmem, filter_In. unfold covering. rewrite is_prefix_spec. reflexivity.
Qed.

(** the head of a list sorted by strictly increasing length is its shortest element *)
Lemma len_sorted_hd (l : list (pfx * V)) e :
  StronglySorted len_lt l -> hd_error l = Some e ->
  In e l /\ forall e', In e' l -> length (key e) <= length (key e').
Proof.
  intros Hs Hh. destruct l as [|x l]; [discriminate|]. inversion Hh; subst x.
  split; [left; reflexivity|]. inversion Hs as [|? ? _ Hf]; subst. rewrite Forall_forall in Hf.
  intros e' [<-|He']; [lia|]. specialize (Hf e' He'). unfold Lookup2.len_lt in Hf. lia.
Qed.

(** ... and the last its longest *)
Lemma len_sorted_last (l : list (pfx * V)) e :
  StronglySorted len_lt l -> hd_error (rev l) = Some e ->
  In e l /\ forall e', In e' l -> length (key e') <= length (key e).
Proof.
  intros Hs Hh. destruct (rev l) as [|x r] eqn:R; [discriminate|]. inversion Hh; subst x.
  assert (El : l = rev r ++ [e]) by (rewrite <- (rev_involutive l), R; reflexivity).
  split; [rewrite El; apply in_or_app; right; left; reflexivity|].
  clear R Hh. revert Hs. rewrite El. generalize (rev r). clear El r l.
  induction l as [|x l IH]; intros Hs e' He'.
  - destruct He' as [<-|[]]. lia.
  - cbn [app] in *. inversion Hs as [|? ? Hs' Hf]; subst. destruct He' as [<-|He'].
    + rewrite Forall_forall in Hf. assert (H : In e (l ++ [e])) by (apply in_or_app; right; left; reflexivity).
      specialize (Hf e H). unfold Lookup2.len_lt in Hf. lia.
    + apply IH; assumption.
Qed.

End FX.

(* ------------------------------------------------------------------------------------------ *)
(** * 5. [retain]: the call log, position by position *)
Section RG.
Variables (pfx V : Type) (f : nat -> pfx -> V -> option bool) (g : pfx -> V -> bool).

(** [answered n calls]: the [k]-th logged invocation was made with invocation count [n + k] and
    returned the verdict [g] *)
Lemma answered_nth n (calls : list (pfx * V)) : answered pfx V f g n calls ->
  forall k e, nth_error calls k = Some e -> f (n + k) (fst e) (snd e) = Some (g (fst e) (snd e)).
Proof.
  revert n. induction calls as [|c calls IH]; intros n H k e Hk; [destruct k; discriminate|].
  cbn in H. destruct H as [H0 H]. destruct k as [|k]; cbn in Hk.
  - inversion Hk; subst. rewrite Nat.add_0_r. exact H0.
  - rewrite Nat.add_succ_r. apply (IH (S n) H k e Hk).
Qed.
End RG.

(* ------------------------------------------------------------------------------------------ *)
(** * 6. [retain] with an arbitrary closure
    [Retain.retain_spec] is proved for closures whose verdict does not depend on the invocation
    count.  Here: (a) [_retain] depends on the closure only through the answers to the invocations
    it actually makes ([ret_ext]); (b) whatever the closure answers, the invocations that return
    are a prefix of the post-order entry list ([ret_calls_post]), so no key is called twice;
    (c) hence every run with an arbitrary closure [f] is also the run of a closure with
    count-independent verdicts ([fq], which answers as [f] did on that run), and [retain_spec]
    transfers ([retain_any_predicate]). *)
Section RX.
Variables (pfx V : Type).
Notation tree := (Trie.tree pfx V).
Notation ret := (Trie.ret pfx V).

Definition agree (f f' : nat -> pfx -> V -> option bool) (log log' : list (pfx * V)) : Prop :=
  forall k e, nth_error (rev log') k = Some e -> length log <= k -> f' k (fst e) (snd e) = f k (fst e) (snd e).

Lemma agree_sub f f' log log' c2 lo c0 li :
  agree f f' log log' -> log' = c2 ++ lo -> li = c0 ++ log -> agree f f' li lo.
Proof.
  intros A -> -> k e Hn Hk. apply A.
  - rewrite rev_app_distr. rewrite nth_error_app1; [exact Hn|]. apply nth_error_Some. congruence.
  - rewrite app_length in Hk. lia.
Qed.

Lemma nth_rev_last (l : list (pfx * V)) e : nth_error (rev (e :: l)) (length l) = Some e.
Proof. cbn [rev]. rewrite nth_error_app2; rewrite rev_length; [|lia]. rewrite Nat.sub_diag. reflexivity. Qed.

Lemma ret_ext (f f' : nat -> pfx -> V -> option bool) (t : tree) :
  forall hp a log t' st a' log',
  ret f hp t (a, log) = (t', st, (a', log')) ->
  (exists c, log' = c ++ log) /\
  (agree f f' log log' ->
   (st = RPanic -> forall p x, f (length log') p x = None -> f' (length log') p x = None) ->
   ret f' hp t (a, log) = (t', st, (a', log'))).
Proof.
  induction t as [|i p v l IHl r IHr]; intros hp a log t' st a' log' H.
  - cbn in H. inversion H; subst. split; [exists []; reflexivity|]. intros _ _. reflexivity.
  - cbn [Trie.ret] in H |- *.
    destruct (ret f true l (a, log)) as [[l1 sl] [a1 log1]] eqn:El.
    destruct (IHl _ _ _ _ _ _ _ El) as [[c1 Ec1] Xl].
    destruct sl as [fl|].
    2:{ inversion H; subst. split; [exists c1; reflexivity|]. intros A P.
        rewrite Xl; [reflexivity | exact A | exact P]. }
    destruct (fl && (hp && is_none v)) eqn:B.
    { cbn [fst snd] in H. destruct (IHr _ _ _ _ _ _ _ H) as [[c2 Ec2] Xr].
      split; [exists (c2 ++ c1); subst; apply app_assoc|].
      intros A P. rewrite Xl; [|exact (agree_sub f f' log log' c2 log1 [] log A Ec2 eq_refl) | discriminate].
      rewrite B. cbn [fst snd]. apply Xr; [|exact P].
      exact (agree_sub f f' log log' [] log' c1 log1 A eq_refl Ec1). }
    destruct (ret f true r (a1, log1)) as [[r1 sr] [a2 log2]] eqn:Er.
    destruct (IHr _ _ _ _ _ _ _ Er) as [[c2 Ec2] Xr].
    assert (E2 : log2 = (c2 ++ c1) ++ log) by (subst; apply app_assoc).
    destruct sr as [fr|].
    2:{ inversion H; subst log'. subst t' st a'. split; [exists (c2 ++ c1); exact E2|]. intros A P.
        rewrite Xl; [|exact (agree_sub f f' log log2 c2 log1 [] log A Ec2 eq_refl) | discriminate].
        rewrite B, Xr; [reflexivity | | exact P].
        exact (agree_sub f f' log log2 [] log2 c1 log1 A eq_refl Ec1). }
    assert (Hgo : forall log', (exists c, log' = c ++ log2) -> agree f f' log log' ->
              ret f' true l (a, log) = (l1, RDone fl, (a1, log1)) /\
              ret f' true r (a1, log1) = (r1, RDone fr, (a2, log2))).
    { intros lg [c3 Ec3] A. split.
      - apply Xl; [|discriminate]. apply (agree_sub f f' log lg (c3 ++ c2) log1 [] log A); [|reflexivity].
        rewrite Ec3, Ec2. rewrite app_assoc. reflexivity.
      - apply Xr; [|discriminate]. exact (agree_sub f f' log lg c3 log2 c1 log1 A Ec3 Ec1). }
    destruct (fr && (hp && is_none v)) eqn:B2.
    { cbn [fst snd] in H. inversion H; subst log'. subst t' st a'.
      split; [exists (c2 ++ c1); exact E2|]. intros A P.
      destruct (Hgo log2 (ex_intro _ [] eq_refl) A) as [G1 G2]. rewrite G1, B, G2, B2. reflexivity. }
    destruct v as [x|].
    2:{ inversion H; subst log'. subst t' st a'.
        split; [exists (c2 ++ c1); exact E2|]. intros A P.
        destruct (Hgo log2 (ex_intro _ [] eq_refl) A) as [G1 G2]. rewrite G1, B, G2, B2. reflexivity. }
    cbn [fst snd] in H.
    destruct (f (length log2) p x) as [[|]|] eqn:F.
    + inversion H; subst log'. subst t' st a'.
      split; [exists ((p, x) :: c2 ++ c1); rewrite E2; reflexivity|]. intros A P.
      destruct (Hgo ((p, x) :: log2) (ex_intro _ [(p, x)] eq_refl) A) as [G1 G2].
      rewrite G1, B, G2, B2. cbn [fst snd].
      assert (F' : f' (length log2) p x = Some true).
      { rewrite <- F. apply (A (length log2) (p, x)); [apply nth_rev_last|]. rewrite E2, app_length. lia. }
      rewrite F'. reflexivity.
    + destruct (remove_self pfx V hp i p (Some x) l1 r1 a2) as [[t1 fl1] a3] eqn:RS.
      inversion H; subst log'. subst t' st a'.
      split; [exists ((p, x) :: c2 ++ c1); rewrite E2; reflexivity|]. intros A P.
      destruct (Hgo ((p, x) :: log2) (ex_intro _ [(p, x)] eq_refl) A) as [G1 G2].
      rewrite G1, B, G2, B2. cbn [fst snd].
      assert (F' : f' (length log2) p x = Some false).
      { rewrite <- F. apply (A (length log2) (p, x)); [apply nth_rev_last|]. rewrite E2, app_length. lia. }
      rewrite F', RS. reflexivity.
    + inversion H; subst log'. subst t' st a'.
      split; [exists (c2 ++ c1); exact E2|]. intros A P.
      destruct (Hgo log2 (ex_intro _ [] eq_refl) A) as [G1 G2].
      rewrite G1, B, G2, B2. cbn [fst snd]. rewrite (P eq_refl p x F). reflexivity.
Qed.

(** the post-order list of stored entries: the order in which [_retain] visits them *)
Fixpoint post (t : tree) : list (pfx * V) :=
  match t with
  | Leaf => []
  | Node _ p v l r => post l ++ post r ++ (match v with Some x => [(p, x)] | None => [] end)
  end.

Lemma post_perm (t : tree) : Permutation (post t) (entries t).
Proof.
  induction t as [|i p v l IHl r IHr]; [constructor|]. cbn [post entries].
  rewrite app_assoc. eapply Permutation_trans; [apply Permutation_app_comm|].
  apply Permutation_app_head. apply Permutation_app; assumption.
Qed.

(** whatever the closure does, the invocations that returned are a prefix of the post-order list,
    the whole list if no invocation panicked *)
Lemma ret_calls_post (f : nat -> pfx -> V -> option bool) (t : tree) :
  forall hp a log t' st a' log',
  ret f hp t (a, log) = (t', st, (a', log')) ->
  exists calls rest, log' = rev calls ++ log /\ post t = calls ++ rest /\ (st <> RPanic -> rest = []).
Proof.
  induction t as [|i p v l IHl r IHr]; intros hp a log t' st a' log' H.
  - cbn in H. inversion H; subst. exists [], []. repeat split; reflexivity.
  - cbn [Trie.ret] in H. cbn [post].
    destruct (ret f true l (a, log)) as [[l1 sl] [a1 log1]] eqn:El.
    destruct (IHl _ _ _ _ _ _ _ El) as [cl [rl [Ll [Pl Dl]]]].
    destruct sl as [fl|].
    2:{ inversion H; subst. exists cl, (rl ++ post r ++ match v with Some x => [(p, x)] | None => [] end).
        split; [reflexivity|]. split; [rewrite Pl, <- app_assoc; reflexivity | intros N; congruence]. }
    rewrite (Dl ltac:(discriminate)), app_nil_r in Pl.
    destruct (fl && (hp && is_none v)) eqn:B.
    { cbn [fst snd] in H. destruct (IHr _ _ _ _ _ _ _ H) as [cr [rr [Lr [Pr Dr]]]].
      assert (v = None) by (destruct v; [rewrite !andb_false_r in B; discriminate | reflexivity]). subst v.
      exists (cl ++ cr), rr. split; [rewrite Lr, Ll, rev_app_distr, app_assoc; reflexivity|].
      split; [rewrite Pl, Pr, app_nil_r, app_assoc; reflexivity | exact Dr]. }
    destruct (ret f true r (a1, log1)) as [[r1 sr] [a2 log2]] eqn:Er.
    destruct (IHr _ _ _ _ _ _ _ Er) as [cr [rr [Lr [Pr Dr]]]].
    assert (L2 : log2 = rev (cl ++ cr) ++ log) by (rewrite Lr, Ll, rev_app_distr, app_assoc; reflexivity).
    destruct sr as [fr|].
    2:{ inversion H; subst log'. subst t' st a'.
        exists (cl ++ cr), (rr ++ match v with Some x => [(p, x)] | None => [] end).
        split; [exact L2|]. split; [rewrite Pl, Pr, <- !app_assoc; reflexivity | intros N; congruence]. }
    rewrite (Dr ltac:(discriminate)), app_nil_r in Pr.
    destruct (fr && (hp && is_none v)) eqn:B2.
    { assert (v = None) by (destruct v; [rewrite !andb_false_r in B2; discriminate | reflexivity]). subst v.
      cbn [fst snd] in H. inversion H; subst log'. subst t' st a'.
      exists (cl ++ cr), []. split; [exact L2|]. split; [rewrite Pl, Pr, !app_nil_r; reflexivity | reflexivity]. }
    destruct v as [x|].
    2:{ inversion H; subst log'. subst t' st a'.
        exists (cl ++ cr), []. split; [exact L2|]. split; [rewrite Pl, Pr, !app_nil_r; reflexivity | reflexivity]. }
    cbn [fst snd] in H.
    assert (L3 : (p, x) :: log2 = rev ((cl ++ cr) ++ [(p, x)]) ++ log)
      by (rewrite L2, (rev_app_distr (cl ++ cr)); reflexivity).
    destruct (f (length log2) p x) as [[|]|] eqn:F.
    + inversion H; subst log'. subst t' st a'. exists ((cl ++ cr) ++ [(p, x)]), [].
      split; [exact L3|]. split; [rewrite Pl, Pr, app_nil_r, app_assoc; reflexivity | reflexivity].
    + destruct (remove_self pfx V hp i p (Some x) l1 r1 a2) as [[t1 fl1] a3] eqn:RS.
      inversion H; subst log'. subst t' st a'. exists ((cl ++ cr) ++ [(p, x)]), [].
      split; [exact L3|]. split; [rewrite Pl, Pr, app_nil_r, app_assoc; reflexivity | reflexivity].
    + inversion H; subst log'. subst t' st a'. exists (cl ++ cr), [(p, x)].
      split; [exact L2|]. split; [rewrite Pl, Pr, app_assoc; reflexivity | intros N; congruence].
Qed.
End RX.

Section RY.
Variables (pfx V : Type) (bits : pfx -> list bool) (ok : pfx -> Prop).
Notation key := (TrieWf.key pfx V bits).
Notation key_lt := (TrieWf.key_lt pfx V bits).
Notation wf_root := (TrieWf.wf_root pfx V bits ok).
Variable f : nat -> pfx -> V -> option bool.

Lemma beq_eq (a b : list bool) : beq a b = true <-> a = b.
Proof.
  unfold beq. rewrite andb_true_iff, !is_prefix_spec. split.
  - intros [A B]. apply prefix_of_antisym; assumption.
  - intros ->. split; apply prefix_of_refl.
Qed.

Definition dflt (o : option bool) : bool := match o with Some c => c | None => true end.

(** the verdict the logged invocation on the entry with key [kp] returned *)
Fixpoint gv (n : nat) (calls : list (pfx * V)) (kp : list bool) : bool :=
  match calls with
  | [] => true
  | e :: cs => if beq (key e) kp then dflt (f n (fst e) (snd e)) else gv (S n) cs kp
  end.

Lemma gv_nth (calls : list (pfx * V)) : forall n k e,
  NoDup (map key calls) -> nth_error calls k = Some e ->
  gv n calls (key e) = dflt (f (n + k) (fst e) (snd e)).
Proof.
  induction calls as [|c cs IH]; intros n k e Hnd Hk; [destruct k; discriminate|].
  inversion Hnd as [|? ? Hni Hnd']; subst. destruct k as [|k]; cbn in Hk.
  - inversion Hk; subst. cbn [gv]. rewrite (proj2 (beq_eq _ _) eq_refl), Nat.add_0_r. reflexivity.
  - cbn [gv]. destruct (beq (key c) (key e)) eqn:Bq.
    + exfalso. apply beq_eq in Bq. apply Hni. rewrite Bq. apply in_map. eapply nth_error_In; exact Hk.
    + rewrite Nat.add_succ_r. apply (IH (S n) k e Hnd' Hk).
Qed.

Section Calls.
Variable calls : list (pfx * V).
Definition gq (p : pfx) (x : V) : bool := gv 0 calls (bits p).
(** a closure with count-independent verdicts that behaves like [f] on the run that logged [calls] *)
Definition fq (n : nat) (p : pfx) (x : V) : option bool :=
  match nth_error calls n with
  | Some e => if beq (key e) (bits p) then f n (fst e) (snd e) else Some (gq p x)
  | None => match f n p x with None => None | Some _ => Some (gq p x) end
  end.

Lemma fq_verdict : NoDup (map key calls) -> forall n p x c, fq n p x = Some c -> c = gq p x.
Proof.
  intros Hnd n p x c. unfold fq. destruct (nth_error calls n) as [e|] eqn:Hn.
  - destruct (beq (key e) (bits p)) eqn:Bq.
    + apply beq_eq in Bq. intros Hf. unfold gq. rewrite <- Bq, (gv_nth calls 0 n e Hnd Hn). cbn. rewrite Hf. reflexivity.
    + intros H; inversion H; reflexivity.
  - destruct (f n p x); intros H; inversion H; reflexivity.
Qed.

Lemma fq_logged n e : nth_error calls n = Some e -> fq n (fst e) (snd e) = f n (fst e) (snd e).
Proof. unfold fq. intros ->. unfold TrieWf.key. rewrite (proj2 (beq_eq _ _) eq_refl). reflexivity. Qed.

Lemma fq_beyond n p x : nth_error calls n = None -> (fq n p x = None <-> f n p x = None).
Proof. unfold fq. intros ->. destruct (f n p x); split; intros H; try discriminate; reflexivity. Qed.
End Calls.

Lemma nodup_app_l {A} (a b : list A) : NoDup (a ++ b) -> NoDup a.
Proof.
  induction a as [|x a IH]; intros H; [constructor|]. cbn in H. inversion H as [|? ? Hni Hnd]; subst.
  constructor; [intros Hin; apply Hni; apply in_or_app; left; exact Hin | apply IH; exact Hnd].
Qed.

(** MAIN: [retain] with ANY closure (stateful in the invocation count, panicking or not) *)
Theorem retain_any_predicate (m m' : pmap pfx V) (panicked : bool) (calls : list (pfx * V)) :
  wf_root (root m) -> retain pfx V f m = (m', panicked, calls) ->
  exists g : pfx -> V -> bool,
    (forall k e, nth_error calls k = Some e -> f k (fst e) (snd e) = Some (g (fst e) (snd e))) /\
    wf_root (root m') /\ incl calls (entries (root m)) /\ NoDup calls /\
    (forall e, In e (entries (root m')) <->
               In e (entries (root m)) /\ ~ (In e calls /\ g (fst e) (snd e) = false)) /\
    (panicked = false ->
       entries (root m') = filter (fun e => g (fst e) (snd e)) (entries (root m)) /\
       Permutation calls (entries (root m))) /\
    (panicked = true ->
       exists e, In e (entries (root m)) /\ ~ In e calls /\ f (length calls) (fst e) (snd e) = None).
Proof.
  intros Hwf H.
  assert (Hwf0 : TrieWf.wf_under pfx V bits ok [] (root m)).
  { destruct (root m); [destruct Hwf | exact (proj2 Hwf)]. }
  pose proof H as H0. unfold Trie.retain in H0.
  destruct (Trie.ret pfx V f false (root m) (al m, [])) as [[t' st] [a' log']] eqn:E.
  injection H0 as Em Ep Ec.
  destruct (ret_calls_post pfx V f _ _ _ _ _ _ _ _ E) as [c0 [rest [Lc [Pc _]]]].
  rewrite app_nil_r in Lc.
  assert (Ecalls : calls = c0) by (rewrite <- Ec, Lc; apply rev_involutive).
  assert (Hnd : NoDup (map key calls)).
  { assert (Hp : NoDup (map key (post pfx V (root m)))).
    { eapply Permutation_NoDup; [apply Permutation_map; apply Permutation_sym; apply post_perm|].
      apply (sorted_nodup_keys pfx V bits). eapply entries_sorted; exact Hwf0. }
    rewrite Pc, map_app in Hp. rewrite Ecalls. eapply nodup_app_l; exact Hp. }
  assert (E' : Trie.ret pfx V (fq calls) false (root m) (al m, []) = (t', st, (a', log'))).
  { apply (proj2 (ret_ext pfx V f (fq calls) _ _ _ _ _ _ _ _ E)).
    - intros k e Hk _. apply fq_logged. rewrite <- Ec. exact Hk.
    - intros _ p x Hn. apply fq_beyond; [|exact Hn]. apply nth_error_None. rewrite <- Ec, rev_length. lia. }
  assert (H' : retain pfx V (fq calls) m = (m', panicked, calls)).
  { unfold Trie.retain. rewrite E'. rewrite Em, Ep, Ec. reflexivity. }
  destruct (retain_spec pfx V bits ok (fq calls) (gq calls) (fq_verdict calls Hnd) m m' panicked calls Hwf H')
    as [W [Pans [Pincl [Pnd [Pkept [Pdone Ppan]]]]]].
  exists (gq calls).
  split.
  { intros k e Hk. rewrite <- (fq_logged calls k e Hk).
    exact (answered_nth pfx V (fq calls) (gq calls) 0 calls Pans k e Hk). }
  split; [exact W|]. split; [exact Pincl|]. split; [exact Pnd|]. split; [exact Pkept|]. split.
  - intros Hp. destruct (Pdone Hp) as [A [B _]]. split; [exact A | exact B].
  - intros Hp. destruct (Ppan Hp) as [e [He [Hne Hn]]]. exists e. split; [exact He|]. split; [exact Hne|].
    apply (fq_beyond calls (length calls)); [|exact Hn]. apply nth_error_None. lia.
Qed.
End RY.

Print Assumptions run_drains.
Print Assumptions drains_fun.
Print Assumptions drains_pull.
Print Assumptions sorted_before.
Print Assumptions StronglySorted_impl_in.
Print Assumptions iter_drains.
Print Assumptions lex_lt_bcmp.
Print Assumptions lex_lt_numeric.
Print Assumptions children_filter.
Print Assumptions cover_walk_filter.
Print Assumptions len_sorted_hd.
Print Assumptions len_sorted_last.
Print Assumptions answered_nth.
Print Assumptions ret_ext.
Print Assumptions ret_calls_post.
Print Assumptions retain_any_predicate.
